(** Exactness of the range-scan read path (Model/Range.v) against the ordered-map Spec
    (Model/Entry.v: [spec_range]) for every interleaving of next / next_back. *)
From LsmV Require Import Model.Range Proofs.Newest.
From Coq Require Import Permutation Sorting.Sorted PeanoNat.
Open Scope N_scope.
Arguments N.add : simpl never.
Arguments N.sub : simpl never.
Arguments N.mul : simpl never.
Arguments N.ltb : simpl never.
Arguments N.leb : simpl never.
Arguments N.eqb : simpl never.

(** * 1. InternalKey order *)

Lemma rg_ikey_ltb_iff a b :
  ikey_ltb a b = true <-> key_lt (ukey a) (ukey b) \/ (ukey a = ukey b /\ seq b < seq a).
Proof.
  unfold ikey_ltb, key_lt. destruct (key_cmp (ukey a) (ukey b)) eqn:E.
  - apply key_cmp_eq in E. rewrite N.ltb_lt. split.
    + intros H. right. auto.
    + intros [H|[_ H]]; [discriminate|exact H].
  - split; auto.
  - split; [discriminate|]. intros [H|[H _]]; [discriminate|].
    apply key_cmp_eq in H. congruence.
Qed.

Lemma rg_ikey_ltb_false a b :
  ikey_ltb a b = false <-> key_lt (ukey b) (ukey a) \/ (ukey a = ukey b /\ seq a <= seq b).
Proof.
  unfold ikey_ltb. destruct (key_cmp (ukey a) (ukey b)) eqn:E.
  - apply key_cmp_eq in E. rewrite N.ltb_ge. split.
    + intros H. right. auto.
    + intros [H|[_ H]]; [|exact H]. rewrite E in H. now apply key_lt_irrefl in H.
  - split; [discriminate|]. intros [H|[H _]].
    + exfalso. eapply key_lt_irrefl. eapply key_lt_trans; [exact E|exact H].
    + apply key_cmp_eq in H. congruence.
  - split; auto. intros _. left. now apply key_lt_gt.
Qed.

Lemma rg_ikey_lt_irrefl a : ~ ikey_lt a a.
Proof.
  unfold ikey_lt. rewrite rg_ikey_ltb_iff. intros [H|[_ H]]; [now apply key_lt_irrefl in H|lia].
Qed.

Lemma rg_ikey_lt_trans a b c : ikey_lt a b -> ikey_lt b c -> ikey_lt a c.
Proof.
  unfold ikey_lt. rewrite !rg_ikey_ltb_iff.
  intros [H1|[E1 H1]] [H2|[E2 H2]].
  - left. eapply key_lt_trans; eauto.
  - left. now rewrite <- E2.
  - left. now rewrite E1.
  - right. split; [congruence|lia].
Qed.

Lemma rg_ikey_lt_asym a b : ikey_lt a b -> ikey_lt b a -> False.
Proof. intros H1 H2. eapply rg_ikey_lt_irrefl. eapply rg_ikey_lt_trans; eauto. Qed.

(** negative transitivity: ikey_ltb is a strict weak order *)
Lemma rg_ikey_nlt_trans a b c :
  ikey_ltb b a = false -> ikey_ltb c b = false -> ikey_ltb c a = false.
Proof.
  rewrite !rg_ikey_ltb_false.
  intros [H1|[E1 H1]] [H2|[E2 H2]].
  - left. eapply key_lt_trans; eauto.
  - left. now rewrite E2.
  - left. now rewrite <- E1.
  - right. split; [congruence|lia].
Qed.

Lemma rg_ikey_lt_key_le a b : ikey_lt a b -> key_le (ukey a) (ukey b).
Proof.
  unfold ikey_lt. rewrite rg_ikey_ltb_iff. intros [H|[H _]].
  - now apply key_lt_le.
  - rewrite H. apply key_le_refl.
Qed.

Lemma rg_ikey_lt_nlt a b : ikey_lt a b -> ikey_ltb b a = false.
Proof.
  intros H. destruct (ikey_ltb b a) eqn:E; [|reflexivity].
  exfalso. eapply rg_ikey_lt_asym; eauto.
Qed.

(** * 2. Generic list lemmas *)

Lemma rg_SS_filter {A} (R : A -> A -> Prop) p l :
  StronglySorted R l -> StronglySorted R (filter p l).
Proof.
  induction 1 as [|x l HS IH HF]; simpl; [constructor|].
  destruct (p x); [|exact IH]. constructor; [exact IH|].
  rewrite Forall_forall in *. intros y Hy. apply filter_In in Hy. apply HF. tauto.
Qed.

Lemma rg_SS_app_inv {A} (R : A -> A -> Prop) a b :
  StronglySorted R (a ++ b) ->
  StronglySorted R a /\ StronglySorted R b /\ (forall x y, In x a -> In y b -> R x y).
Proof.
  induction a as [|x a IH]; simpl; intros H.
  - repeat split; [constructor|exact H|contradiction].
  - inversion H as [|? ? HS HF]; subst. destruct (IH HS) as (Ha & Hb & Hab).
    rewrite Forall_forall in HF. repeat split.
    + constructor; [exact Ha|]. rewrite Forall_forall. intros y Hy. apply HF.
      apply in_or_app. auto.
    + exact Hb.
    + intros x' y [->|Hx] Hy; [apply HF; apply in_or_app; auto|auto].
Qed.

Lemma rg_SS_app {A} (R : A -> A -> Prop) a b :
  StronglySorted R a -> StronglySorted R b -> (forall x y, In x a -> In y b -> R x y) ->
  StronglySorted R (a ++ b).
Proof.
  induction a as [|x a IH]; simpl; intros Ha Hb Hab; [exact Hb|].
  inversion Ha as [|? ? HS HF]; subst. constructor.
  - apply IH; auto.
  - rewrite Forall_forall in *. intros y Hy. apply in_app_or in Hy. destruct Hy; auto.
Qed.

Lemma rg_SS_tl {A} (R : A -> A -> Prop) l : StronglySorted R l -> StronglySorted R (tl l).
Proof. destruct 1; simpl; [constructor|assumption]. Qed.

Lemma rg_removelast_app_last {A} (l : list A) x : removelast (l ++ [x]) = l.
Proof. rewrite removelast_app by discriminate. simpl. apply app_nil_r. Qed.

Lemma rg_last_app_last {A} (l : list A) x d : last (l ++ [x]) d = x.
Proof. apply last_last. Qed.

(** a non-empty list splits off its last element *)
Lemma rg_snoc_cases {A} (l : list A) : l = [] \/ exists l' x, l = l' ++ [x].
Proof.
  destruct l as [|a l]; [left; reflexivity|right].
  exists (removelast (a :: l)), (last (a :: l) a). apply app_removelast_last. discriminate.
Qed.

Lemma rg_SS_removelast {A} (R : A -> A -> Prop) l :
  StronglySorted R l -> StronglySorted R (removelast l).
Proof.
  intros H. destruct (rg_snoc_cases l) as [->|(l' & x & ->)]; [exact H|].
  rewrite rg_removelast_app_last. now apply rg_SS_app_inv in H.
Qed.

Lemma rg_sorted_SS l : sorted_b l = true -> StronglySorted ikey_lt l.
Proof.
  induction l as [|e l IH]; [constructor|].
  destruct l as [|e' l]; [intros _; repeat constructor|].
  intros H. change (ikey_ltb e e' && sorted_b (e' :: l) = true) in H.
  apply andb_true_iff in H. destruct H as [H1 H2]. specialize (IH H2).
  constructor; [exact IH|]. inversion IH as [|? ? HS HF]; subst.
  constructor; [exact H1|]. rewrite Forall_forall in *. intros y Hy.
  eapply rg_ikey_lt_trans; [exact H1|auto].
Qed.

Lemma rg_SS_NoDup l : StronglySorted ikey_lt l -> NoDup l.
Proof.
  induction 1 as [|x l HS IH HF]; constructor; [|exact IH].
  intros Hin. rewrite Forall_forall in HF. apply (rg_ikey_lt_irrefl x). auto.
Qed.

(** a member of a strictly sorted list below all others is its head *)
Lemma rg_sorted_min_head l e :
  StronglySorted ikey_lt l -> In e l -> (forall x, In x l -> ikey_ltb x e = false) ->
  exists l', l = e :: l'.
Proof.
  intros HS Hin Hmin. destruct l as [|h l']; [contradiction|].
  destruct Hin as [->|Hin]; [eauto|]. exfalso.
  inversion HS as [|? ? _ HF]; subst. rewrite Forall_forall in HF.
  specialize (HF e Hin). specialize (Hmin h (or_introl eq_refl)).
  unfold ikey_lt in HF. congruence.
Qed.

Lemma rg_sorted_max_last l e :
  StronglySorted ikey_lt l -> In e l -> (forall x, In x l -> ikey_ltb e x = false) ->
  exists l', l = l' ++ [e].
Proof.
  intros HS Hin Hmax. destruct (rg_snoc_cases l) as [->|(l' & x & ->)]; [contradiction|].
  apply in_app_or in Hin. destruct Hin as [Hin|[->|[]]]; [|eauto]. exfalso.
  apply rg_SS_app_inv in HS. destruct HS as (_ & _ & HF).
  specialize (HF e x Hin (or_introl eq_refl)).
  assert (Hx : In x (l' ++ [x])) by (apply in_or_app; right; left; reflexivity).
  specialize (Hmax x Hx). unfold ikey_lt in HF. congruence.
Qed.

(** two members of a strictly sorted list are equal or strictly ordered *)
Lemma rg_sorted_trich l a b :
  StronglySorted ikey_lt l -> In a l -> In b l -> a = b \/ ikey_lt a b \/ ikey_lt b a.
Proof.
  induction 1 as [|x l HS IH HF]; [contradiction|].
  rewrite Forall_forall in HF. intros [->|Ha] [->|Hb]; auto.
Qed.

(** * 3. Bound widening *)

Theorem bounds_widening lo hi e :
  seq e <= MAX_SEQNO -> ikey_in_range lo hi e = in_bounds lo hi (ukey e).
Proof.
  intros Hs. unfold ikey_in_range, in_bounds. f_equal.
  - destruct lo as [k|k|]; simpl; [| |reflexivity].
    + unfold before_probe, key_leb. rewrite (key_cmp_antisym (ukey e) k).
      destruct (key_cmp (ukey e) k); simpl; try reflexivity.
      apply negb_true_iff. apply N.ltb_ge. exact Hs.
    + unfold after_probe, key_ltb. rewrite (key_cmp_antisym (ukey e) k).
      destruct (key_cmp (ukey e) k); simpl; try reflexivity.
      apply N.ltb_ge. lia.
  - destruct hi as [k|k|]; simpl; [| |reflexivity].
    + unfold after_probe, key_leb.
      destruct (key_cmp (ukey e) k); simpl; try reflexivity.
      apply negb_true_iff. apply N.ltb_ge. lia.
    + unfold before_probe, key_ltb.
      destruct (key_cmp (ukey e) k); simpl; try reflexivity.
      apply N.ltb_ge. exact Hs.
Qed.

(** inverted and empty ranges select nothing *)
Lemma in_bounds_inverted lo hi k a b :
  (lo = Incl a \/ lo = Excl a) -> (hi = Incl b \/ hi = Excl b) -> key_lt b a ->
  in_bounds lo hi k = false.
Proof.
  intros Hlo Hhi Hba. unfold in_bounds.
  destruct (lo_ok lo k) eqn:E1; [|reflexivity]. destruct (hi_ok hi k) eqn:E2; [|reflexivity].
  exfalso. assert (A : key_le a k).
  { destruct Hlo as [-> | ->]; simpl in E1; key_prop; [exact E1|now apply key_lt_le]. }
  assert (B : key_le k b).
  { destruct Hhi as [-> | ->]; simpl in E2; key_prop; [exact E2|now apply key_lt_le]. }
  eapply key_lt_irrefl. eapply key_lt_le_trans; [exact Hba|]. eapply key_le_trans; eauto.
Qed.

Lemma in_bounds_empty a k :
  in_bounds (Excl a) (Excl a) k = false /\ in_bounds (Incl a) (Excl a) k = false
  /\ in_bounds (Excl a) (Incl a) k = false.
Proof.
  unfold in_bounds; simpl. unfold key_ltb, key_leb. rewrite (key_cmp_antisym k a).
  destruct (key_cmp k a); simpl; auto.
Qed.

Corollary mt_range_inverted l lo hi a b :
  (forall e, In e l -> seq e <= MAX_SEQNO) ->
  (lo = Incl a \/ lo = Excl a) -> (hi = Incl b \/ hi = Excl b) -> key_lt b a ->
  mt_range l lo hi = [].
Proof.
  intros Hs Hlo Hhi Hba. unfold mt_range.
  induction l as [|e l IH]; [reflexivity|]. simpl.
  rewrite bounds_widening by (apply Hs; left; reflexivity).
  rewrite (in_bounds_inverted lo hi (ukey e) a b Hlo Hhi Hba).
  apply IH. intros x Hx. apply Hs. right. exact Hx.
Qed.

(** * 4. Deque semantics and the generic layers *)

Definition ohd (l : list entry) : option entry :=
  match l with [] => None | x :: _ => Some x end.
Definition olast (l : list entry) : option entry :=
  match l with [] => None | x :: _ => Some (last l x) end.

(** deque semantics: pops from either end of a list *)
Fixpoint deque_run (l : list entry) (ps : list pull) : list (option entry) :=
  match ps with
  | [] => []
  | Front :: ps' => ohd l :: deque_run (tl l) ps'
  | Back :: ps' => olast l :: deque_run (removelast l) ps'
  end.

Lemma olast_snoc l x : olast (l ++ [x]) = Some x.
Proof.
  destruct l as [|a l]; [reflexivity|]. simpl app. unfold olast.
  f_equal. change (a :: l ++ [x]) with ((a :: l) ++ [x]). apply last_last.
Qed.

(** the drop of the leading block of key [k] *)
Fixpoint drop_key (k : key) (l : list entry) : list entry :=
  match l with
  | [] => []
  | e :: l' => if key_eqb (ukey e) k then drop_key k l' else l
  end.

Lemma drop_key_length k l : (length (drop_key k l) <= length l)%nat.
Proof.
  induction l as [|e l IH]; simpl; [lia|]. destruct (key_eqb (ukey e) k); simpl; lia.
Qed.

(** what MvccStream::next_back does, on the reversed remaining stream: [t] is the popped
    tail, [rl] the rest, newest-last *)
Fixpoint back_scan (t : entry) (rl : list entry) : entry * list entry :=
  match rl with
  | [] => (t, [])
  | p :: rl' => if key_ltb (ukey p) (ukey t) then (t, rl) else back_scan p rl'
  end.

Lemma back_scan_length t rl : (length (snd (back_scan t rl)) <= length rl)%nat.
Proof.
  revert t; induction rl as [|p rl IH]; intros t; simpl; [lia|].
  destruct (key_ltb (ukey p) (ukey t)); simpl; [lia|]. specialize (IH p). lia.
Qed.

Definition mvcc_back_out (l : list entry) : option entry :=
  match rev l with [] => None | t :: rl => Some (fst (back_scan t rl)) end.
Definition mvcc_back_rest (l : list entry) : list entry :=
  match rev l with [] => [] | t :: rl => rev (snd (back_scan t rl)) end.

Section LayerProofs.
  Variable I : Type.
  Variable inext inext_back : I -> option entry * I.
  (** [R it l]: the inner iterator [it] behaves as a deque holding [l] *)
  Variable R : I -> list entry -> Prop.
  Hypothesis Hnext : forall it l, R it l ->
    exists it', inext it = (ohd l, it') /\ R it' (tl l).
  Hypothesis Hback : forall it l, R it l ->
    exists it', inext_back it = (olast l, it') /\ R it' (removelast l).

  Definition pv (p : maybe_peeked) : list entry :=
    match peeked_value p with Some x => [x] | None => [] end.

  (** the peekable holds [front-peeked ++ inner ++ back-peeked]; a peeked [None] records
      that the inner iterator is exhausted *)
  Definition DR (d : dep I) (l : list entry) : Prop :=
    exists lm, R (d_iter d) lm /\ l = pv (d_front d) ++ lm ++ pv (d_back d)
      /\ (d_front d = Peeked None -> lm = []) /\ (d_back d = Peeked None -> lm = []).

  Lemma dep_next_spec d l : DR d l ->
    exists d', dep_next I inext d = (ohd l, d') /\ DR d' (tl l).
  Proof.
    intros (lm & HR & -> & Hf & Hb). unfold dep_next.
    destruct d as [it f b]; simpl in *.
    destruct f as [|[x|]].
    - (* Unpeeked *)
      destruct (Hnext _ _ HR) as (it' & E & HR'). rewrite E.
      destruct lm as [|y lm]; simpl in *.
      + exists (mkDep it' Unpeeked Unpeeked). split.
        * unfold pv. destruct (peeked_value b); reflexivity.
        * exists []. simpl. repeat split; auto.
          unfold pv. destruct (peeked_value b); reflexivity.
      + exists (mkDep it' Unpeeked b). split; [reflexivity|].
        exists lm. simpl. repeat split; auto; [discriminate|].
        intros Hb'. specialize (Hb Hb'). discriminate.
    - (* Peeked (Some x) *)
      exists (mkDep it Unpeeked b). split; [reflexivity|].
      exists lm. simpl. repeat split; auto. discriminate.
    - (* Peeked None *)
      specialize (Hf eq_refl). subst lm. simpl.
      exists (mkDep it Unpeeked Unpeeked). split.
      + unfold pv. destruct (peeked_value b); reflexivity.
      + exists []. simpl. repeat split; auto; try discriminate.
        unfold pv. destruct (peeked_value b); reflexivity.
  Qed.

  Lemma olast_mid f lm b :
    olast (f ++ lm ++ pv b) =
    match peeked_value b with
    | Some y => Some y
    | None => olast (f ++ lm)
    end.
  Proof.
    unfold pv. destruct (peeked_value b) as [y|].
    - rewrite app_assoc. apply olast_snoc.
    - now rewrite !app_nil_r.
  Qed.

  Lemma removelast_mid f lm b :
    removelast (f ++ lm ++ pv b) =
    match peeked_value b with
    | Some y => f ++ lm
    | None => removelast (f ++ lm)
    end.
  Proof.
    unfold pv. destruct (peeked_value b) as [y|].
    - rewrite app_assoc. apply rg_removelast_app_last.
    - now rewrite !app_nil_r.
  Qed.

  Lemma olast_pv_app f lm : lm <> [] -> olast (pv f ++ lm) = olast lm.
  Proof.
    intros Hne. destruct (rg_snoc_cases lm) as [->|(l' & x & ->)]; [congruence|].
    rewrite app_assoc, !olast_snoc. reflexivity.
  Qed.

  Lemma removelast_pv_app f lm : lm <> [] -> removelast (pv f ++ lm) = pv f ++ removelast lm.
  Proof. intros Hne. now apply removelast_app. Qed.

  Lemma olast_pv f : olast (pv f) = peeked_value f.
  Proof. unfold pv. destruct (peeked_value f); reflexivity. Qed.

  Lemma removelast_pv f : removelast (pv f) = [].
  Proof. unfold pv. destruct (peeked_value f); reflexivity. Qed.

  Lemma dep_next_back_spec d l : DR d l ->
    exists d', dep_next_back I inext_back d = (olast l, d') /\ DR d' (removelast l).
  Proof.
    intros (lm & HR & -> & Hf & Hb). unfold dep_next_back.
    destruct d as [it f b]; cbn [d_iter d_front d_back] in *.
    rewrite olast_mid, removelast_mid.
    destruct b as [|[y|]]; cbn [peeked_value].
    - (* Unpeeked *)
      destruct (Hback _ _ HR) as (it' & E & HR'). rewrite E.
      destruct (rg_snoc_cases lm) as [->|(lm' & y & ->)].
      + cbn [olast]. rewrite app_nil_r, olast_pv, removelast_pv.
        exists (mkDep it' Unpeeked Unpeeked). split; [reflexivity|].
        exists []. cbn [d_iter d_front d_back removelast] in *. repeat split; auto.
      + rewrite olast_snoc. rewrite rg_removelast_app_last in HR'.
        rewrite app_assoc, olast_snoc, rg_removelast_app_last.
        exists (mkDep it' f Unpeeked). split; [reflexivity|].
        exists lm'. cbn [d_iter d_front d_back]. repeat split; auto.
        * unfold pv at 2. cbn [peeked_value]. now rewrite app_nil_r.
        * intros Hf'. specialize (Hf Hf'). destruct lm'; discriminate.
        * discriminate.
    - (* Peeked (Some y) *)
      exists (mkDep it f Unpeeked). split; [reflexivity|].
      exists lm. cbn [d_iter d_front d_back]. repeat split; auto; [|discriminate].
      unfold pv at 2. cbn [peeked_value]. now rewrite app_nil_r.
    - (* Peeked None *)
      specialize (Hb eq_refl). subst lm.
      rewrite app_nil_r, olast_pv, removelast_pv.
      exists (mkDep it Unpeeked Unpeeked). split; [reflexivity|].
      exists []. cbn [d_iter d_front d_back]. repeat split; auto; discriminate.
  Qed.

  Lemma dep_peek_back_spec d l : DR d l ->
    exists d', dep_peek_back I inext_back d = (olast l, d') /\ DR d' l.
  Proof.
    intros (lm & HR & -> & Hf & Hb). unfold dep_peek_back.
    destruct d as [it f b]; cbn [d_iter d_front d_back] in *.
    destruct b as [|[y|]].
    - destruct (Hback _ _ HR) as (it' & E & HR'). rewrite E.
      cbn [d_iter d_front d_back peeked_value].
      unfold pv at 2. cbn [peeked_value]. rewrite app_nil_r.
      destruct (rg_snoc_cases lm) as [->|(lm' & y & ->)].
      + cbn [olast removelast] in *. rewrite app_nil_r, olast_pv.
        exists (mkDep it' f (Peeked None)). split; [reflexivity|].
        exists []. cbn [d_iter d_front d_back]. repeat split; auto.
      + rewrite olast_snoc in *. rewrite rg_removelast_app_last in HR'.
        rewrite app_assoc, olast_snoc.
        exists (mkDep it' f (Peeked (Some y))). split; [reflexivity|].
        exists lm'. cbn [d_iter d_front d_back]. repeat split; auto.
        * unfold pv at 3. cbn [peeked_value]. now rewrite <- app_assoc.
        * intros Hf'. specialize (Hf Hf'). destruct lm'; discriminate.
        * discriminate.
    - exists (mkDep it f (Peeked (Some y))). split.
      + rewrite olast_mid. reflexivity.
      + exists lm. cbn [d_iter d_front d_back]. repeat split; auto.
    - specialize (Hb eq_refl). subst lm. cbn [d_iter d_front d_back peeked_value].
      unfold pv at 2. cbn [peeked_value]. rewrite !app_nil_r, olast_pv.
      exists (mkDep it f (Peeked None)). split; [reflexivity|].
      exists []. cbn [d_iter d_front d_back]. repeat split; auto.
      unfold pv at 3. cbn [peeked_value app]. now rewrite app_nil_r.
  Qed.

  Lemma dep_next_if_spec p d l : DR d l ->
    exists d', dep_next_if I inext p d =
      (match l with x :: _ => if p x then Some x else None | [] => None end, d')
      /\ DR d' (match l with x :: l' => if p x then l' else l | [] => [] end).
  Proof.
    intros H. unfold dep_next_if.
    destruct (dep_next_spec _ _ H) as (d' & E & (lm & HR & El & Hf & Hb)). rewrite E.
    destruct l as [|x l']; simpl in *.
    - exists (mkDep (d_iter d') (Peeked None) (d_back d')). split; [reflexivity|].
      symmetry in El. apply app_eq_nil in El. destruct El as [E1 E2].
      apply app_eq_nil in E2. destruct E2 as [E2 E3]. subst lm.
      exists []. simpl. repeat split; auto; try (now rewrite E3).
    - destruct (p x).
      + exists d'. split; [reflexivity|]. exists lm. auto.
      + exists (mkDep (d_iter d') (Peeked (Some x)) (d_back d')). split; [reflexivity|].
        (* after dep_next the front slot is Unpeeked *)
        assert (Hfu : d_front d' = Unpeeked).
        { revert E. unfold dep_next. destruct (d_front d) as [|[?|]].
          - destruct (inext (d_iter d)) as [[?|] ?]; intros E; inversion E; reflexivity.
          - intros E; inversion E; reflexivity.
          - intros E; inversion E; reflexivity. }
        rewrite Hfu in El. simpl in El.
        exists lm. simpl. repeat split; auto; [|discriminate].
        unfold pv at 1. simpl. now rewrite El.
  Qed.

  Lemma drain_spec fuel k d l : DR d l -> (length l < fuel)%nat ->
    DR (drain_key_min I inext fuel k d) (drop_key k l).
  Proof.
    revert d l; induction fuel as [|fuel IH]; intros d l H Hlen; [lia|].
    cbn [drain_key_min]. destruct (dep_next_if_spec (fun kv => key_eqb (ukey kv) k) _ _ H) as (d' & E & H').
    rewrite E. destruct l as [|x l']; simpl in *; [exact H'|].
    destruct (key_eqb (ukey x) k).
    - apply IH; [exact H'|lia].
    - exact H'.
  Qed.

  Lemma mvcc_next_spec fuel d l : DR d l -> (length l <= fuel)%nat ->
    exists d', mvcc_next I inext fuel d = (ohd l, d')
      /\ DR d' (match l with x :: l' => drop_key (ukey x) l' | [] => [] end).
  Proof.
    intros H Hlen. unfold mvcc_next.
    destruct (dep_next_spec _ _ H) as (d' & E & H'). rewrite E.
    destruct l as [|x l']; simpl in *; [eauto|].
    eexists. split; [reflexivity|]. apply drain_spec; [exact H'|lia].
  Qed.

  Lemma mvcc_next_back_spec fuel d l : DR d l -> (length l < fuel)%nat ->
    exists d', mvcc_next_back I inext_back fuel d = (mvcc_back_out l, d')
      /\ DR d' (mvcc_back_rest l).
  Proof.
    unfold mvcc_back_out, mvcc_back_rest.
    revert d l; induction fuel as [|fuel IH]; intros d l H Hlen; [lia|].
    cbn [mvcc_next_back]. destruct (dep_next_back_spec _ _ H) as (d1 & E1 & H1). rewrite E1.
    destruct (rg_snoc_cases l) as [->|(l1 & t & ->)]; [simpl; eauto|].
    rewrite olast_snoc. rewrite rg_removelast_app_last in H1.
    rewrite rev_app_distr. simpl rev. simpl app. cbv iota.
    destruct (dep_peek_back_spec _ _ H1) as (d2 & E2 & H2). rewrite E2.
    destruct (rg_snoc_cases l1) as [->|(l2 & p & ->)]; [simpl; eauto|].
    rewrite olast_snoc. rewrite rev_app_distr. simpl rev. simpl app. cbv iota.
    simpl back_scan. destruct (key_ltb (ukey p) (ukey t)).
    - exists d2. split; [reflexivity|]. simpl. rewrite rev_involutive. exact H2.
    - assert (Hlen2 : (length (l2 ++ [p]) < fuel)%nat).
      { rewrite !app_length in Hlen. rewrite app_length. simpl in *. lia. }
      destruct (IH d2 (l2 ++ [p]) H2 Hlen2) as (d3 & E3 & H3).
      rewrite rev_app_distr in E3, H3. simpl in E3, H3. eauto.
  Qed.
End LayerProofs.

(** * 5. What MvccStream computes: the first entry of every user-key group *)

Fixpoint heads_from (prev : option key) (l : list entry) : list entry :=
  match l with
  | [] => []
  | e :: l' =>
      let rest := heads_from (Some (ukey e)) l' in
      match prev with
      | Some k => if key_eqb k (ukey e) then rest else e :: rest
      | None => e :: rest
      end
  end.

Definition heads (l : list entry) : list entry := heads_from None l.

(** sorted by user key (not strictly) *)
Definition ksorted (l : list entry) : Prop :=
  StronglySorted (fun a b => key_le (ukey a) (ukey b)) l.

Definition nt (e : entry) : bool := negb (is_tomb e).
Definition live_out (l : list entry) : list entry := filter nt (heads l).

Lemma heads_from_drop k l : heads_from (Some k) l = heads (drop_key k l).
Proof.
  induction l as [|e l IH]; [reflexivity|]. cbn [heads_from drop_key].
  rewrite (key_eqb_sym k (ukey e)). destruct (key_eqb (ukey e) k) eqn:E.
  - apply key_eqb_eq in E. rewrite E. exact IH.
  - unfold heads. cbn [heads_from]. reflexivity.
Qed.

Lemma heads_cons x l : heads (x :: l) = x :: heads (drop_key (ukey x) l).
Proof. unfold heads at 1. cbn [heads_from]. now rewrite heads_from_drop. Qed.

Definition lastkey (prev : option key) (l : list entry) : option key :=
  match olast l with Some e => Some (ukey e) | None => prev end.

Lemma lastkey_cons prev e l : lastkey prev (e :: l) = lastkey (Some (ukey e)) l.
Proof.
  unfold lastkey. destruct (rg_snoc_cases l) as [->|(l' & x & ->)]; [reflexivity|].
  change (e :: l' ++ [x]) with ((e :: l') ++ [x]). now rewrite !olast_snoc.
Qed.

Lemma heads_from_snoc prev l t :
  heads_from prev (l ++ [t]) =
  heads_from prev l ++
  match lastkey prev l with
  | Some k => if key_eqb k (ukey t) then [] else [t]
  | None => [t]
  end.
Proof.
  revert prev; induction l as [|e l IH]; intros prev.
  - cbn [app heads_from]. unfold lastkey. cbn [olast].
    destruct prev as [k|]; [destruct (key_eqb k (ukey t))|]; reflexivity.
  - cbn [app heads_from]. rewrite IH, lastkey_cons.
    destruct prev as [k|]; [destruct (key_eqb k (ukey e))|]; reflexivity.
Qed.

Lemma ksorted_drop_key k l : ksorted l -> ksorted (drop_key k l).
Proof.
  induction 1 as [|x l HS IH HF]; cbn [drop_key]; [constructor|].
  destruct (key_eqb (ukey x) k); [exact IH|]. now constructor.
Qed.

Lemma back_scan_suffix t rl : exists pre, rl = pre ++ snd (back_scan t rl).
Proof.
  revert t; induction rl as [|p rl IH]; intros t; cbn [back_scan].
  - exists []. reflexivity.
  - destruct (key_ltb (ukey p) (ukey t)).
    + exists []. reflexivity.
    + destruct (IH p) as (pre & E). exists (p :: pre). cbn [app]. now rewrite <- E.
Qed.

Lemma back_scan_heads rl t :
  ksorted (rev rl ++ [t]) ->
  heads (rev rl ++ [t]) = heads (rev (snd (back_scan t rl))) ++ [fst (back_scan t rl)].
Proof.
  revert t; induction rl as [|p rl IH]; intros t HS; [reflexivity|].
  cbn [back_scan rev] in *. unfold heads at 1. rewrite heads_from_snoc.
  unfold lastkey. rewrite olast_snoc.
  destruct (key_ltb (ukey p) (ukey t)) eqn:E.
  - cbn [fst snd rev]. key_prop.
    destruct (key_eqb (ukey p) (ukey t)) eqn:E2; [|reflexivity].
    key_prop. rewrite E2 in E. now apply key_lt_irrefl in E.
  - assert (Ek : ukey p = ukey t).
    { key_prop. apply key_le_antisym; [|exact E].
      apply rg_SS_app_inv in HS. destruct HS as (_ & _ & HF).
      apply (HF p t); [apply in_or_app; right|]; left; reflexivity. }
    rewrite Ek, key_eqb_refl, app_nil_r. apply IH.
    now apply rg_SS_app_inv in HS.
Qed.

Lemma mvcc_back_heads l : ksorted l ->
  olast (heads l) = mvcc_back_out l /\ removelast (heads l) = heads (mvcc_back_rest l).
Proof.
  intros HS. unfold mvcc_back_out, mvcc_back_rest.
  destruct (rg_snoc_cases l) as [->|(l1 & t & ->)]; [split; reflexivity|].
  rewrite rev_app_distr. cbn [rev app].
  rewrite <- (rev_involutive l1) in HS |- * at 1.
  rewrite <- (rev_involutive l1) at 3.
  rewrite (back_scan_heads (rev l1) t HS).
  rewrite olast_snoc, rg_removelast_app_last. split; reflexivity.
Qed.

Lemma mvcc_back_rest_ksorted l : ksorted l -> ksorted (mvcc_back_rest l).
Proof.
  intros HS. unfold mvcc_back_rest.
  destruct (rg_snoc_cases l) as [->|(l1 & t & ->)]; [constructor|].
  rewrite rev_app_distr. cbn [rev app].
  destruct (back_scan_suffix t (rev l1)) as (pre & E).
  apply rg_SS_app_inv in HS. destruct HS as (HS & _ & _).
  rewrite <- (rev_involutive l1), E, rev_app_distr in HS.
  now apply rg_SS_app_inv in HS.
Qed.

Lemma mvcc_back_rest_length l : l <> [] -> (length (mvcc_back_rest l) < length l)%nat.
Proof.
  intros Hne. unfold mvcc_back_rest.
  destruct (rg_snoc_cases l) as [->|(l1 & t & ->)]; [congruence|].
  rewrite rev_app_distr. cbn [rev app]. rewrite rev_length, app_length. cbn [length].
  pose proof (back_scan_length t (rev l1)) as H. rewrite rev_length in H. lia.
Qed.

Section LiveProofs.
  Variable I : Type.
  Variable inext inext_back : I -> option entry * I.
  Variable R : I -> list entry -> Prop.
  Hypothesis Hnext : forall it l, R it l ->
    exists it', inext it = (ohd l, it') /\ R it' (tl l).
  Hypothesis Hback : forall it l, R it l ->
    exists it', inext_back it = (olast l, it') /\ R it' (removelast l).

  Notation DR := (DR I R).

  Lemma live_next_spec fuel d l : DR d l -> ksorted l -> (length l < fuel)%nat ->
    exists d' l', live_next I inext fuel d = (ohd (live_out l), d')
      /\ DR d' l' /\ ksorted l' /\ (length l' <= length l)%nat
      /\ live_out l' = tl (live_out l).
  Proof.
    revert d l; induction fuel as [|fuel IH]; intros d l H HS Hlen; [lia|].
    cbn [live_next].
    destruct (mvcc_next_spec I inext R Hnext (S fuel) d l H) as (d1 & E1 & H1); [lia|].
    rewrite E1. destruct l as [|x lr].
    - exists d1, []. cbn. repeat split; auto; try constructor.
    - cbn [ohd]. unfold live_out. rewrite heads_cons. cbn [filter].
      assert (HS1 : ksorted (drop_key (ukey x) lr)).
      { apply ksorted_drop_key. now inversion HS. }
      pose proof (drop_key_length (ukey x) lr) as Hl. cbn [length] in Hlen.
      fold (nt x). destruct (nt x) eqn:En; cbn [negb].
      + exists d1, (drop_key (ukey x) lr). cbn [ohd tl length]. repeat split; auto; try lia.
      + destruct (IH d1 _ H1 HS1) as (d' & l' & E & H' & HS' & Hl' & Ho); [lia|].
        exists d', l'. unfold live_out in *. cbn [length]. repeat split; auto; try lia.
  Qed.

  Lemma live_next_back_spec fuel d l : DR d l -> ksorted l -> (length l < fuel)%nat ->
    exists d' l', live_next_back I inext_back fuel d = (olast (live_out l), d')
      /\ DR d' l' /\ ksorted l' /\ (length l' <= length l)%nat
      /\ live_out l' = removelast (live_out l).
  Proof.
    revert d l; induction fuel as [|fuel IH]; intros d l H HS Hlen; [lia|].
    cbn [live_next_back].
    destruct (mvcc_next_back_spec I inext_back R Hback (S fuel) d l H Hlen) as (d1 & E1 & H1).
    rewrite E1. destruct (mvcc_back_heads l HS) as [Eo Er].
    pose proof (mvcc_back_rest_ksorted l HS) as HS1.
    destruct (rg_snoc_cases l) as [->|(l1 & t & El)].
    - exists d1, []. cbn. repeat split; auto.
    - assert (Hne : l <> []) by (subst l; destruct l1; discriminate).
      pose proof (mvcc_back_rest_length l Hne) as Hl.
      unfold live_out.
      destruct (rg_snoc_cases (heads l)) as [Eh|(hl & h & Eh)].
      + exfalso. destruct l as [|a0 l0]; [congruence|]. rewrite heads_cons in Eh. discriminate.
      + rewrite Eh in Eo, Er. rewrite olast_snoc in Eo. rewrite rg_removelast_app_last in Er.
        rewrite <- Eo. rewrite Eh, filter_app. cbn [filter]. fold (nt h).
        destruct (nt h) eqn:En; cbn [negb].
        * exists d1, (mvcc_back_rest l). rewrite olast_snoc, rg_removelast_app_last, <- Er.
          repeat split; auto; try lia.
        * rewrite app_nil_r.
          destruct (IH d1 _ H1 HS1) as (d' & l' & E & H' & HS' & Hl' & Ho); [lia|].
          exists d', l'. unfold live_out in *. rewrite <- Er in E, Ho.
          repeat split; auto; try lia.
  Qed.

  (** the tree iterator holds [o] (abstractly): some key-sorted stream [l] shorter than
      the fuel whose live group heads are [o] *)
  Definition TR (fuel : nat) (d : dep I) (o : list entry) : Prop :=
    exists l, DR d l /\ ksorted l /\ (length l < fuel)%nat /\ o = live_out l.

  Lemma live_next_TR fuel d o : TR fuel d o ->
    exists d', live_next I inext fuel d = (ohd o, d') /\ TR fuel d' (tl o).
  Proof.
    intros (l & H & HS & Hlen & ->).
    destruct (live_next_spec fuel d l H HS Hlen) as (d' & l' & E & H' & HS' & Hl' & Ho).
    exists d'. split; [exact E|]. exists l'. repeat split; auto; try lia.
  Qed.

  Lemma live_next_back_TR fuel d o : TR fuel d o ->
    exists d', live_next_back I inext_back fuel d = (olast o, d') /\ TR fuel d' (removelast o).
  Proof.
    intros (l & H & HS & Hlen & ->).
    destruct (live_next_back_spec fuel d l H HS Hlen) as (d' & l' & E & H' & HS' & Hl' & Ho).
    exists d'. split; [exact E|]. exists l'. repeat split; auto; try lia.
  Qed.
End LiveProofs.

(** * 6. The Merger behaves as a deque over the sorted union of its sources *)

(** abstract state of one source: (item held in the heap as front, items still in the
    iterator, item held in the heap as back) *)
Definition tri := (list entry * list entry * list entry)%type.
Definition fr (t : tri) : list entry := fst (fst t).
Definition mid (t : tri) : list entry := snd (fst t).
Definition bk (t : tri) : list entry := snd t.
Definition rem (t : tri) : list entry := fr t ++ mid t ++ bk t.

Fixpoint iflat {X : Type} (g : nat -> tri -> list X) (k : nat) (ts : list tri) : list X :=
  match ts with
  | [] => []
  | t :: ts' => g k t ++ iflat g (S k) ts'
  end.

Definition hg (i : nat) (t : tri) : heap := map (pair i) (fr t ++ bk t).
Definition heap_of (ts : list tri) : heap := iflat hg 0 ts.
Definition all_rem (ts : list tri) : list entry := iflat (fun _ t => rem t) 0 ts.

Definition tri_ok (ilo ihi : bool) (t : tri) : Prop :=
  (length (fr t) <= 1)%nat /\ (length (bk t) <= 1)%nat
  /\ StronglySorted ikey_lt (rem t)
  /\ (ilo = false -> fr t = []) /\ (ihi = false -> bk t = [])
  /\ (ilo = true -> fr t = [] -> mid t = [])
  /\ (ihi = true -> bk t = [] -> mid t = []).

Definition MRI (ilo ihi : bool) (srcs : list (list entry)) (h : heap) (L : list entry) : Prop :=
  exists ts, srcs = map mid ts /\ Permutation h (heap_of ts)
    /\ Forall (tri_ok ilo ihi) ts
    /\ Permutation L (all_rem ts) /\ StronglySorted ikey_lt L.

Definition MR (m : merger) (L : list entry) : Prop :=
  MRI (m_ilo m) (m_ihi m) (m_srcs m) (m_heap m) L.

Lemma iflat_ctx {X : Type} (g : nat -> tri -> list X) ts : forall k i t,
  nth_error ts i = Some t ->
  exists A B, iflat g k ts = A ++ g (k + i)%nat t ++ B
    /\ forall t', iflat g k (set_nth i t' ts) = A ++ g (k + i)%nat t' ++ B.
Proof.
  induction ts as [|t0 ts IH]; intros k i t Hn; [destruct i; discriminate|].
  destruct i as [|i]; cbn [nth_error] in Hn.
  - inversion Hn; subst t0. exists [], (iflat g (S k) ts). rewrite Nat.add_0_r.
    split; [reflexivity|]. intros t'. reflexivity.
  - destruct (IH (S k) i t Hn) as (A & B & E1 & E2).
    exists (g k t0 ++ A), B. rewrite <- Nat.add_succ_comm. cbn [iflat set_nth].
    split.
    + rewrite E1. now rewrite app_assoc.
    + intros t'. rewrite E2. now rewrite app_assoc.
Qed.

Lemma in_iflat {X : Type} (g : nat -> tri -> list X) ts : forall k x,
  In x (iflat g k ts) <-> exists i t, nth_error ts i = Some t /\ In x (g (k + i)%nat t).
Proof.
  induction ts as [|t0 ts IH]; intros k x; cbn [iflat].
  - split; [contradiction|]. intros (i & t & Hn & _). destruct i; discriminate.
  - rewrite in_app_iff, IH. split.
    + intros [H|(i & t & Hn & H)].
      * exists O, t0. rewrite Nat.add_0_r. auto.
      * exists (S i), t. rewrite <- Nat.add_succ_comm. auto.
    + intros (i & t & Hn & H). destruct i as [|i]; cbn [nth_error] in Hn.
      * inversion Hn; subst. rewrite Nat.add_0_r in H. auto.
      * right. exists i, t. rewrite <- Nat.add_succ_comm in H. auto.
Qed.

Lemma in_heap_of ts i e :
  In (i, e) (heap_of ts) <-> exists t, nth_error ts i = Some t /\ In e (fr t ++ bk t).
Proof.
  unfold heap_of. rewrite in_iflat. split.
  - intros (j & t & Hn & H). cbn [Nat.add] in H. unfold hg in H.
    apply in_map_iff in H. destruct H as (x & Ex & Hx). inversion Ex; subst. eauto.
  - intros (t & Hn & H). exists i, t. split; [exact Hn|]. cbn [Nat.add]. unfold hg.
    now apply in_map.
Qed.

Lemma in_all_rem ts e :
  In e (all_rem ts) <-> exists i t, nth_error ts i = Some t /\ In e (rem t).
Proof. unfold all_rem. apply in_iflat. Qed.

Lemma map_set_nth {A B : Type} (f : A -> B) i x l :
  map f (set_nth i x l) = set_nth i (f x) (map f l).
Proof.
  revert i; induction l as [|y l IH]; intros i; [destruct i; reflexivity|].
  destruct i; cbn [set_nth map]; [reflexivity|]. now rewrite IH.
Qed.

Lemma nth_map_error {A B : Type} (f : A -> B) l i x d :
  nth_error l i = Some x -> nth i (map f l) d = f x.
Proof.
  revert i; induction l as [|y l IH]; intros i Hn; [destruct i; discriminate|].
  destruct i; cbn in *; [now inversion Hn|auto].
Qed.

Lemma Forall_set_nth {A : Type} (P : A -> Prop) i x l :
  Forall P l -> P x -> Forall P (set_nth i x l).
Proof.
  intros HF Hx. revert i; induction HF as [|y l Hy HF IH]; intros i; [destruct i; constructor|].
  destruct i; cbn [set_nth]; constructor; auto.
Qed.

Lemma Forall_nth_error {A : Type} (P : A -> Prop) l i x :
  Forall P l -> nth_error l i = Some x -> P x.
Proof. intros HF Hn. rewrite Forall_forall in HF. apply HF. eapply nth_error_In; eauto. Qed.

(** ** the heap *)

Lemma heap_pop_min_spec h :
  match heap_pop_min h with
  | None => h = []
  | Some (x, r) =>
      Permutation h (x :: r) /\ forall y, In y h -> ikey_ltb (snd y) (snd x) = false
  end.
Proof.
  induction h as [|x h IH]; cbn [heap_pop_min]; [reflexivity|].
  destruct (heap_pop_min h) as [[y r]|].
  - destruct IH as [HP Hmin].
    destruct (ikey_ltb (snd y) (snd x)) eqn:E.
    + split.
      * eapply perm_trans; [apply perm_skip; exact HP|apply perm_swap].
      * intros z [<-|Hz]; [now apply rg_ikey_lt_nlt|auto].
    + split; [apply Permutation_refl|].
      intros z [<-|Hz].
      * destruct (ikey_ltb (snd x) (snd x)) eqn:E2; [|reflexivity].
        now apply rg_ikey_lt_irrefl in E2.
      * eapply rg_ikey_nlt_trans; [exact E|auto].
  - subst h. split; [apply Permutation_refl|].
    intros z [<-|[]]. destruct (ikey_ltb (snd x) (snd x)) eqn:E2; [|reflexivity].
    now apply rg_ikey_lt_irrefl in E2.
Qed.

Lemma heap_pop_max_spec h :
  match heap_pop_max h with
  | None => h = []
  | Some (x, r) =>
      Permutation h (x :: r) /\ forall y, In y h -> ikey_ltb (snd x) (snd y) = false
  end.
Proof.
  induction h as [|x h IH]; cbn [heap_pop_max]; [reflexivity|].
  destruct (heap_pop_max h) as [[y r]|].
  - destruct IH as [HP Hmax].
    destruct (ikey_ltb (snd x) (snd y)) eqn:E.
    + split.
      * eapply perm_trans; [apply perm_skip; exact HP|apply perm_swap].
      * intros z [<-|Hz]; [now apply rg_ikey_lt_nlt|auto].
    + split; [apply Permutation_refl|].
      intros z [<-|Hz].
      * destruct (ikey_ltb (snd x) (snd x)) eqn:E2; [|reflexivity].
        now apply rg_ikey_lt_irrefl in E2.
      * eapply rg_ikey_nlt_trans; [apply Hmax; exact Hz|exact E].
  - subst h. split; [apply Permutation_refl|].
    intros z [<-|[]]. destruct (ikey_ltb (snd x) (snd x)) eqn:E2; [|reflexivity].
    now apply rg_ikey_lt_irrefl in E2.
Qed.

(** ** lazy initialisation *)

Definition push_of (i : nat) (o : option entry) : heap :=
  match o with Some x => [(i, x)] | None => [] end.

Definition lo_step (t : tri) : tri :=
  match src_next (mid t) with (Some x, m') => ([x], m', bk t) | (None, _) => t end.
Definition hi_step (t : tri) : tri :=
  match src_next_back (mid t) with (Some x, m') => (fr t, m', [x]) | (None, _) => t end.

Lemma src_next_back_snoc l x : src_next_back (l ++ [x]) = (Some x, l).
Proof.
  destruct l as [|a l]; [reflexivity|]. cbn [app src_next_back].
  change (a :: l ++ [x]) with ((a :: l) ++ [x]).
  now rewrite last_last, rg_removelast_app_last.
Qed.

Lemma init_from_spec pop step (P : tri -> Prop) :
  (forall t, P t ->
     match pop (mid t) with
     | (Some x, m') => mid (step t) = m' /\ forall i, Permutation (hg i (step t)) ((i, x) :: hg i t)
     | (None, m') => step t = t /\ m' = mid t
     end) ->
  forall ts, Forall P ts -> forall idx h X, Permutation h (X ++ iflat hg idx ts) ->
    fst (init_from pop idx (map mid ts) h) = map mid (map step ts)
    /\ Permutation (snd (init_from pop idx (map mid ts) h)) (X ++ iflat hg idx (map step ts)).
Proof.
  intros Hstep ts HF. induction HF as [|t ts Ht HF IH]; intros idx h X HP.
  - cbn. split; [reflexivity|exact HP].
  - cbn [map init_from iflat] in *. specialize (Hstep t Ht).
    destruct (pop (mid t)) as [[x|] m'].
    + destruct Hstep as [Em Hh].
      assert (HP' : Permutation ((idx, x) :: h) ((X ++ hg idx (step t)) ++ iflat hg (S idx) ts)).
      { rewrite <- app_assoc.
        eapply perm_trans; [apply perm_skip; exact HP|].
        eapply perm_trans; [apply Permutation_middle|].
        apply Permutation_app_head. rewrite !app_comm_cons.
        apply Permutation_app_tail. apply Permutation_sym. apply Hh. }
      destruct (IH (S idx) _ _ HP') as [E1 E2].
      destruct (init_from pop (S idx) (map mid ts) ((idx, x) :: h)) as [rest' h''].
      cbn [fst snd] in *. split.
      * now rewrite Em, E1.
      * now rewrite <- app_assoc in E2.
    + destruct Hstep as [Et Em]. rewrite Et.
      assert (HP' : Permutation h ((X ++ hg idx t) ++ iflat hg (S idx) ts)).
      { now rewrite <- app_assoc. }
      destruct (IH (S idx) _ _ HP') as [E1 E2].
      destruct (init_from pop (S idx) (map mid ts) h) as [rest' h''].
      cbn [fst snd] in *. split.
      * now rewrite Em, E1.
      * now rewrite <- app_assoc in E2.
Qed.

Lemma all_rem_map_ext f ts :
  (forall t, In t ts -> rem (f t) = rem t) -> all_rem (map f ts) = all_rem ts.
Proof.
  unfold all_rem. generalize O. induction ts as [|t ts IH]; intros k H; [reflexivity|].
  cbn [map iflat]. rewrite H by (left; reflexivity). f_equal. apply IH.
  intros t' Ht'. apply H. right. exact Ht'.
Qed.

Lemma lo_step_rem t : fr t = [] -> rem (lo_step t) = rem t.
Proof.
  destruct t as [[f m] b]. unfold lo_step, rem, fr, mid, bk. cbn [fst snd]. intros ->.
  destruct m as [|x m]; reflexivity.
Qed.

Lemma hi_step_rem t : bk t = [] -> rem (hi_step t) = rem t.
Proof.
  destruct t as [[f m] b]. unfold hi_step, rem, fr, mid, bk. cbn [fst snd]. intros ->.
  destruct (rg_snoc_cases m) as [->|(m' & x & ->)]; [reflexivity|].
  rewrite src_next_back_snoc. cbn [fst snd]. rewrite ?app_nil_r, <- ?app_assoc. reflexivity.
Qed.

Lemma init_lo_MRI ihi srcs h L :
  MRI false ihi srcs h L ->
  MRI true ihi (fst (init_from src_next O srcs h)) (snd (init_from src_next O srcs h)) L.
Proof.
  intros (ts & -> & Hh & Hok & HL & HSS).
  assert (Hfr : Forall (fun t => fr t = []) ts).
  { rewrite Forall_forall in *. intros t Ht. destruct (Hok t Ht) as (_ & _ & _ & H & _). auto. }
  destruct (init_from_spec src_next lo_step (fun t => fr t = [])) with (ts := ts) (idx := O)
    (h := h) (X := @nil (nat * entry)) as [E1 E2]; [|exact Hfr|exact Hh|].
  { intros [[f m] b]. unfold lo_step, hg, fr, mid, bk. cbn [fst snd]. intros ->.
    destruct m as [|x m]; cbn [src_next fst snd]; [split; reflexivity|].
    split; [reflexivity|]. intros i. apply Permutation_refl. }
  exists (map lo_step ts). split; [exact E1|]. split; [exact E2|]. split; [|split; [|exact HSS]].
  - rewrite Forall_forall in *. intros t' Ht'. apply in_map_iff in Ht'.
    destruct Ht' as (t & <- & Ht). specialize (Hok t Ht).
    destruct t as [[f m] b]. unfold tri_ok, lo_step, rem, fr, mid, bk in *. cbn [fst snd] in *.
    destruct Hok as (Hf & Hb & HS & Hlo & Hhi & _ & Hbm). specialize (Hlo eq_refl). subst f.
    destruct m as [|x m]; cbn [src_next fst snd length app] in *.
    + repeat split; auto.
    + repeat split; auto; try discriminate. intros Hi Hb0. specialize (Hbm Hi Hb0). discriminate.
  - rewrite all_rem_map_ext; [exact HL|]. intros t Ht. apply lo_step_rem.
    rewrite Forall_forall in Hfr. auto.
Qed.

Lemma init_hi_MRI ilo srcs h L :
  MRI ilo false srcs h L ->
  MRI ilo true (fst (init_from src_next_back O srcs h)) (snd (init_from src_next_back O srcs h)) L.
Proof.
  intros (ts & -> & Hh & Hok & HL & HSS).
  assert (Hbk : Forall (fun t => bk t = []) ts).
  { rewrite Forall_forall in *. intros t Ht. destruct (Hok t Ht) as (_ & _ & _ & _ & H & _). auto. }
  destruct (init_from_spec src_next_back hi_step (fun t => bk t = [])) with (ts := ts) (idx := O)
    (h := h) (X := @nil (nat * entry)) as [E1 E2]; [|exact Hbk|exact Hh|].
  { intros [[f m] b]. unfold hi_step, hg, fr, mid, bk. cbn [fst snd]. intros ->.
    destruct (rg_snoc_cases m) as [->|(m' & x & ->)]; [split; reflexivity|].
    rewrite src_next_back_snoc. cbn [fst snd].
    split; [reflexivity|]. intros i. rewrite app_nil_r, map_app. cbn [map].
    apply Permutation_sym. apply Permutation_cons_append. }
  exists (map hi_step ts). split; [exact E1|]. split; [exact E2|]. split; [|split; [|exact HSS]].
  - rewrite Forall_forall in *. intros t' Ht'. apply in_map_iff in Ht'.
    destruct Ht' as (t & <- & Ht). specialize (Hok t Ht).
    destruct t as [[f m] b]. unfold tri_ok, hi_step, rem, fr, mid, bk in *. cbn [fst snd] in *.
    destruct Hok as (Hf & Hb & HS & Hlo & Hhi & Hfm & _). specialize (Hhi eq_refl). subst b.
    destruct (rg_snoc_cases m) as [->|(m' & x & ->)].
    + cbn [src_next_back fst snd length app] in *. repeat split; auto.
    + rewrite src_next_back_snoc. cbn [fst snd length]. rewrite app_nil_r in HS.
      repeat split; auto; try discriminate; try (now rewrite <- ?app_assoc in HS).
      intros Hi Hf0. specialize (Hfm Hi Hf0). destruct m'; discriminate.
  - rewrite all_rem_map_ext; [exact HL|]. intros t Ht. apply hi_step_rem.
    rewrite Forall_forall in Hbk. auto.
Qed.

(** ** popping *)

Lemma tri_head_in_heap ihi t a r :
  tri_ok true ihi t -> rem t = a :: r -> In a (fr t ++ bk t).
Proof.
  destruct t as [[f m] b]. unfold tri_ok, rem, fr, mid, bk. cbn [fst snd].
  intros (_ & _ & _ & _ & _ & Hfm & _) E.
  destruct f as [|x f].
  - rewrite (Hfm eq_refl eq_refl) in E. cbn [app] in *. rewrite E. left. reflexivity.
  - cbn [app] in E. inversion E; subst. left. reflexivity.
Qed.

Lemma tri_last_in_heap ilo t a r :
  tri_ok ilo true t -> rem t = r ++ [a] -> In a (fr t ++ bk t).
Proof.
  destruct t as [[f m] b]. unfold tri_ok, rem, fr, mid, bk. cbn [fst snd].
  intros (_ & _ & _ & _ & _ & _ & Hbm) E.
  destruct (rg_snoc_cases b) as [->|(b' & x & ->)].
  - rewrite (Hbm eq_refl eq_refl) in E. rewrite !app_nil_r in *. rewrite E.
    apply in_or_app. right. left. reflexivity.
  - rewrite !app_assoc in E. apply app_inj_tail in E. destruct E as [_ ->].
    apply in_or_app. right. apply in_or_app. right. left. reflexivity.
Qed.

Lemma tri_pop_front ihi t e r :
  tri_ok true ihi t -> rem t = e :: r ->
  exists t', mid t' = snd (src_next (mid t)) /\ rem t' = r /\ tri_ok true ihi t'
    /\ forall i, Permutation ((i, e) :: hg i t') (push_of i (fst (src_next (mid t))) ++ hg i t).
Proof.
  destruct t as [[f m] b]. unfold tri_ok, rem, hg, fr, mid, bk. cbn [fst snd].
  intros (Hf & Hb & HS & Hlo & Hhi & Hfm & Hbm) E.
  destruct f as [|a [|a2 f2]]; [| |cbn [length] in Hf; lia].
  - specialize (Hfm eq_refl eq_refl). subst m. cbn [app] in E.
    destruct b as [|b0 [|b1 b2]]; [discriminate| |cbn [length] in Hb; lia].
    inversion E; subst b0 r.
    exists ([], [], []). cbn [fst snd src_next app length map push_of].
    repeat split; auto; try constructor.
  - cbn [app] in E. inversion E; subst a r. inversion HS as [|? ? HS' _]; subst.
    destruct m as [|x m'].
    + exists ([], [], b). cbn [fst snd src_next app length map push_of].
      repeat split; auto; try lia.
    + exists ([x], m', b). cbn [fst snd src_next app length map push_of] in *.
      repeat split; auto; try discriminate.
      * intros Hi Hb0. specialize (Hbm Hi Hb0). discriminate.
      * intros i. apply perm_swap.
Qed.

Lemma tri_pop_back ilo t e r :
  tri_ok ilo true t -> rem t = r ++ [e] ->
  exists t', mid t' = snd (src_next_back (mid t)) /\ rem t' = r /\ tri_ok ilo true t'
    /\ forall i, Permutation ((i, e) :: hg i t') (push_of i (fst (src_next_back (mid t))) ++ hg i t).
Proof.
  destruct t as [[f m] b]. unfold tri_ok, rem, hg, fr, mid, bk. cbn [fst snd].
  intros (Hf & Hb & HS & Hlo & Hhi & Hfm & Hbm) E.
  destruct b as [|a [|a2 b2]]; [| |cbn [length] in Hb; lia].
  - specialize (Hbm eq_refl eq_refl). subst m. rewrite !app_nil_r in *.
    destruct f as [|f0 [|f1 f2]]; [destruct r; discriminate| |cbn [length] in Hf; lia].
    assert (r = [] /\ f0 = e) as [-> ->].
    { destruct r as [|r0 r]; [inversion E; auto|].
      inversion E as [[E1 E2]]. destruct r; discriminate. }
    exists ([], [], []). cbn [fst snd src_next_back app length map push_of].
    repeat split; auto; try constructor.
  - rewrite !app_assoc in E. apply app_inj_tail in E. destruct E as [<- ->].
    rewrite !app_assoc in HS. apply rg_SS_app_inv in HS. destruct HS as (HS' & _ & _).
    destruct (rg_snoc_cases m) as [->|(m' & x & ->)].
    + exists (f, [], []). cbn [fst snd src_next_back app length map push_of].
      rewrite !app_nil_r in *. repeat split; auto; try lia.
      intros i. rewrite map_app. cbn [map]. apply Permutation_cons_append.
    + rewrite src_next_back_snoc. exists (f, m', [x]). cbn [fst snd app length map push_of].
      repeat split; auto; try discriminate.
      * intros Hi Hf0. specialize (Hfm Hi Hf0). destruct m'; discriminate.
      * intros i. rewrite !map_app. cbn [map].
        eapply perm_trans; [apply perm_skip; apply Permutation_sym; apply Permutation_cons_append|].
        eapply perm_trans; [apply perm_swap|].
        apply perm_skip. apply Permutation_cons_append.
Qed.

Lemma heap_of_nil_rem ilo ihi ts :
  ilo = true \/ ihi = true ->
  Forall (tri_ok ilo ihi) ts -> heap_of ts = [] -> all_rem ts = [].
Proof.
  intros Hflag. unfold heap_of, all_rem. generalize O.
  induction ts as [|t ts IH]; intros k HF E; [reflexivity|].
  cbn [iflat] in *. apply app_eq_nil in E. destruct E as [E1 E2].
  inversion HF as [|? ? Ht HF']; subst. rewrite (IH _ HF' E2), app_nil_r.
  unfold hg in E1. apply map_eq_nil in E1. apply app_eq_nil in E1. destruct E1 as [Ef Eb].
  destruct Ht as (_ & _ & _ & _ & _ & Hfm & Hbm). unfold rem. rewrite Ef, Eb.
  destruct Hflag as [->| ->]; [rewrite (Hfm eq_refl Ef)|rewrite (Hbm eq_refl Eb)]; reflexivity.
Qed.

(** the heap update shared by both directions *)
Lemma heap_update h h' i e o A B (gt gt' : heap) :
  Permutation h ((i, e) :: h') -> Permutation h (A ++ gt ++ B) ->
  Permutation ((i, e) :: gt') (push_of i o ++ gt) ->
  Permutation (push_of i o ++ h') (A ++ gt' ++ B).
Proof.
  intros H1 H2 H3. apply (Permutation_cons_inv (a := (i, e))).
  eapply perm_trans; [apply Permutation_middle|].
  eapply perm_trans; [apply Permutation_app_head; apply Permutation_sym; exact H1|].
  eapply perm_trans; [apply Permutation_app_head; exact H2|].
  eapply perm_trans; [apply Permutation_app_swap_app|].
  apply Permutation_sym. eapply perm_trans; [apply Permutation_middle|].
  apply Permutation_app_head.
  change ((i, e) :: gt' ++ B) with (((i, e) :: gt') ++ B). rewrite (app_assoc (push_of i o)).
  apply Permutation_app_tail. exact H3.
Qed.

Lemma pop_min_MRI ihi srcs h L :
  MRI true ihi srcs h L ->
  match heap_pop_min h with
  | None => L = []
  | Some ((i, e), h') =>
      exists L', L = e :: L' /\
        MRI true ihi (set_nth i (snd (src_next (nth i srcs []))) srcs)
            (push_of i (fst (src_next (nth i srcs []))) ++ h') L'
  end.
Proof.
  intros (ts & -> & Hh & Hok & HL & HSS).
  pose proof (heap_pop_min_spec h) as Hp.
  destruct (heap_pop_min h) as [[[i e] h']|].
  - destruct Hp as [HP Hmin].
    assert (Hin : In (i, e) (heap_of ts)).
    { eapply Permutation_in; [exact Hh|]. eapply Permutation_in; [apply Permutation_sym; exact HP|].
      left. reflexivity. }
    apply in_heap_of in Hin. destruct Hin as (t & Hn & Hin).
    pose proof (Forall_nth_error _ _ _ _ Hok Hn) as Ht.
    assert (HeL : forall x, In x (rem t) -> In x L).
    { intros x Hx. eapply Permutation_in; [apply Permutation_sym; exact HL|].
      apply in_all_rem. eauto. }
    assert (Her : In e (rem t)).
    { unfold rem. apply in_app_or in Hin. apply in_or_app.
      destruct Hin; [left|right; apply in_or_app; right]; assumption. }
    assert (HminL : forall x, In x L -> ikey_ltb x e = false).
    { intros x Hx. eapply Permutation_in in Hx; [|exact HL].
      apply in_all_rem in Hx. destruct Hx as (j & tj & Hnj & Hxj).
      pose proof (Forall_nth_error _ _ _ _ Hok Hnj) as Htj.
      destruct (rem tj) as [|a r] eqn:Er; [contradiction|].
      pose proof (tri_head_in_heap _ _ _ _ Htj Er) as Ha.
      assert (Hah : In (j, a) h).
      { eapply Permutation_in; [apply Permutation_sym; exact Hh|]. apply in_heap_of. eauto. }
      specialize (Hmin _ Hah). cbn [snd] in Hmin.
      destruct Hxj as [<-|Hxr]; [exact Hmin|].
      destruct Htj as (_ & _ & HSj & _). rewrite Er in HSj. inversion HSj as [|? ? _ HFj]; subst.
      rewrite Forall_forall in HFj. specialize (HFj x Hxr).
      destruct (ikey_ltb x e) eqn:Exe; [|reflexivity]. exfalso.
      assert (Hae : ikey_lt a e) by (eapply rg_ikey_lt_trans; eauto).
      unfold ikey_lt in Hae. congruence. }
    destruct (rg_sorted_min_head L e HSS (HeL e Her) HminL) as (L' & ->).
    exists L'. split; [reflexivity|].
    assert (HSt : StronglySorted ikey_lt (rem t)) by (destruct Ht as (_ & _ & H & _); exact H).
    destruct (rg_sorted_min_head (rem t) e HSt Her) as (r & Er).
    { intros x Hx. apply HminL. auto. }
    destruct (tri_pop_front ihi t e r Ht Er) as (t' & Em & Er' & Ht' & Hperm).
    rewrite (nth_map_error mid ts i t [] Hn).
    exists (set_nth i t' ts). split; [|split; [|split; [|split]]].
    + now rewrite map_set_nth, Em.
    + destruct (iflat_ctx hg ts O i t Hn) as (A & B & E1 & E2). unfold heap_of. rewrite E2.
      cbn [Nat.add] in *. eapply heap_update; [exact HP| |apply Hperm].
      unfold heap_of in Hh. now rewrite E1 in Hh.
    + apply Forall_set_nth; assumption.
    + destruct (iflat_ctx (fun _ t => rem t) ts O i t Hn) as (A & B & E1 & E2).
      unfold all_rem in *. rewrite E2, Er'. rewrite E1, Er in HL. cbn [app] in HL.
      eapply Permutation_cons_app_inv. exact HL.
    + now inversion HSS.
  - subst h. apply Permutation_nil in Hh.
    rewrite (heap_of_nil_rem true ihi ts) in HL; auto.
    now apply Permutation_sym, Permutation_nil in HL.
Qed.

Lemma pop_max_MRI ilo srcs h L :
  MRI ilo true srcs h L ->
  match heap_pop_max h with
  | None => L = []
  | Some ((i, e), h') =>
      exists L', L = L' ++ [e] /\
        MRI ilo true (set_nth i (snd (src_next_back (nth i srcs []))) srcs)
            (push_of i (fst (src_next_back (nth i srcs []))) ++ h') L'
  end.
Proof.
  intros (ts & -> & Hh & Hok & HL & HSS).
  pose proof (heap_pop_max_spec h) as Hp.
  destruct (heap_pop_max h) as [[[i e] h']|].
  - destruct Hp as [HP Hmax].
    assert (Hin : In (i, e) (heap_of ts)).
    { eapply Permutation_in; [exact Hh|]. eapply Permutation_in; [apply Permutation_sym; exact HP|].
      left. reflexivity. }
    apply in_heap_of in Hin. destruct Hin as (t & Hn & Hin).
    pose proof (Forall_nth_error _ _ _ _ Hok Hn) as Ht.
    assert (HeL : forall x, In x (rem t) -> In x L).
    { intros x Hx. eapply Permutation_in; [apply Permutation_sym; exact HL|].
      apply in_all_rem. eauto. }
    assert (Her : In e (rem t)).
    { unfold rem. apply in_app_or in Hin. apply in_or_app.
      destruct Hin; [left|right; apply in_or_app; right]; assumption. }
    assert (HmaxL : forall x, In x L -> ikey_ltb e x = false).
    { intros x Hx. eapply Permutation_in in Hx; [|exact HL].
      apply in_all_rem in Hx. destruct Hx as (j & tj & Hnj & Hxj).
      pose proof (Forall_nth_error _ _ _ _ Hok Hnj) as Htj.
      destruct (rg_snoc_cases (rem tj)) as [Er|(r & a & Er)]; [rewrite Er in Hxj; contradiction|].
      pose proof (tri_last_in_heap _ _ _ _ Htj Er) as Ha.
      assert (Hah : In (j, a) h).
      { eapply Permutation_in; [apply Permutation_sym; exact Hh|]. apply in_heap_of. eauto. }
      specialize (Hmax _ Hah). cbn [snd] in Hmax.
      rewrite Er in Hxj. apply in_app_or in Hxj.
      destruct Hxj as [Hxr|[<-|[]]]; [|exact Hmax].
      destruct Htj as (_ & _ & HSj & _). rewrite Er in HSj.
      apply rg_SS_app_inv in HSj. destruct HSj as (_ & _ & HFj).
      specialize (HFj x a Hxr (or_introl eq_refl)).
      destruct (ikey_ltb e x) eqn:Exe; [|reflexivity]. exfalso.
      assert (Hae : ikey_lt e a) by (eapply rg_ikey_lt_trans; eauto).
      unfold ikey_lt in Hae. congruence. }
    destruct (rg_sorted_max_last L e HSS (HeL e Her) HmaxL) as (L' & ->).
    exists L'. split; [reflexivity|].
    assert (HSt : StronglySorted ikey_lt (rem t)) by (destruct Ht as (_ & _ & H & _); exact H).
    destruct (rg_sorted_max_last (rem t) e HSt Her) as (r & Er).
    { intros x Hx. apply HmaxL. auto. }
    destruct (tri_pop_back ilo t e r Ht Er) as (t' & Em & Er' & Ht' & Hperm).
    rewrite (nth_map_error mid ts i t [] Hn).
    exists (set_nth i t' ts). split; [|split; [|split; [|split]]].
    + now rewrite map_set_nth, Em.
    + destruct (iflat_ctx hg ts O i t Hn) as (A & B & E1 & E2). unfold heap_of. rewrite E2.
      cbn [Nat.add] in *. eapply heap_update; [exact HP| |apply Hperm].
      unfold heap_of in Hh. now rewrite E1 in Hh.
    + apply Forall_set_nth; assumption.
    + destruct (iflat_ctx (fun _ t => rem t) ts O i t Hn) as (A & B & E1 & E2).
      unfold all_rem in *. rewrite E2, Er'. rewrite E1, Er in HL.
      rewrite app_assoc. apply Permutation_cons_app_inv with (a := e).
      eapply perm_trans; [apply Permutation_cons_append|].
      eapply perm_trans; [exact HL|]. rewrite <- !app_assoc. cbn [app]. apply Permutation_refl.
    + now apply rg_SS_app_inv in HSS.
  - subst h. apply Permutation_nil in Hh.
    rewrite (heap_of_nil_rem ilo true ts) in HL; auto.
    now apply Permutation_sym, Permutation_nil in HL.
Qed.

Lemma merge_next_spec m L : MR m L ->
  exists m', merge_next m = (ohd L, m') /\ MR m' (tl L).
Proof.
  unfold MR, merge_next. destruct m as [srcs h ilo ihi]. cbn [m_srcs m_heap m_ilo m_ihi].
  intros H.
  assert (H1 : exists srcs1 h1,
    (if ilo then mkMg srcs h ilo ihi
     else let (srcs', h') := init_from src_next O srcs h in mkMg srcs' h' true ihi)
    = mkMg srcs1 h1 true ihi /\ MRI true ihi srcs1 h1 L).
  { destruct ilo.
    - exists srcs, h. auto.
    - apply init_lo_MRI in H. destruct (init_from src_next O srcs h) as [s' h'].
      exists s', h'. auto. }
  destruct H1 as (srcs1 & h1 & -> & H1). cbn [m_srcs m_heap m_ilo m_ihi].
  pose proof (pop_min_MRI _ _ _ _ H1) as Hp. destruct (heap_pop_min h1) as [[[i e] h']|].
  - destruct Hp as (L' & -> & Hp).
    destruct (src_next (nth i srcs1 [])) as [o s'] eqn:E. cbn [fst snd] in Hp.
    eexists. split; [reflexivity|]. cbn [tl m_srcs m_heap m_ilo m_ihi].
    destruct o; exact Hp.
  - subst L. eexists. split; [reflexivity|]. exact H1.
Qed.

Lemma merge_next_back_spec m L : MR m L ->
  exists m', merge_next_back m = (olast L, m') /\ MR m' (removelast L).
Proof.
  unfold MR, merge_next_back. destruct m as [srcs h ilo ihi]. cbn [m_srcs m_heap m_ilo m_ihi].
  intros H.
  assert (H1 : exists srcs1 h1,
    (if ihi then mkMg srcs h ilo ihi
     else let (srcs', h') := init_from src_next_back O srcs h in mkMg srcs' h' ilo true)
    = mkMg srcs1 h1 ilo true /\ MRI ilo true srcs1 h1 L).
  { destruct ihi.
    - exists srcs, h. auto.
    - apply init_hi_MRI in H. destruct (init_from src_next_back O srcs h) as [s' h'].
      exists s', h'. auto. }
  destruct H1 as (srcs1 & h1 & -> & H1). cbn [m_srcs m_heap m_ilo m_ihi].
  pose proof (pop_max_MRI _ _ _ _ H1) as Hp. destruct (heap_pop_max h1) as [[[i e] h']|].
  - destruct Hp as (L' & -> & Hp).
    destruct (src_next_back (nth i srcs1 [])) as [o s'] eqn:E. cbn [fst snd] in Hp.
    eexists. split; [rewrite olast_snoc; reflexivity|].
    rewrite rg_removelast_app_last. cbn [m_srcs m_heap m_ilo m_ihi].
    destruct o; exact Hp.
  - subst L. eexists. split; [reflexivity|]. exact H1.
Qed.

(** a fresh merger over sorted sources whose sorted union is [L] *)
Lemma merger_new_MR srcs L :
  Forall (StronglySorted ikey_lt) srcs -> StronglySorted ikey_lt L ->
  Permutation L (concat srcs) -> MR (merger_new srcs) L.
Proof.
  intros HF HSS HP. unfold MR, merger_new. cbn [m_srcs m_heap m_ilo m_ihi].
  exists (map (fun s => ([], s, [])) srcs).
  assert (E1 : forall k, iflat hg k (map (fun s => ([], s, [])) srcs) = []).
  { clear. induction srcs as [|s srcs IH]; intros k; [reflexivity|].
    cbn [map iflat]. rewrite IH. reflexivity. }
  assert (E2 : forall k, iflat (fun _ t => rem t) k (map (fun s => ([], s, [])) srcs) = concat srcs).
  { clear. induction srcs as [|s srcs IH]; intros k; [reflexivity|].
    cbn [map iflat concat]. rewrite IH. unfold rem, fr, mid, bk. cbn [fst snd app].
    now rewrite app_nil_r. }
  split; [|split; [|split; [|split]]].
  - rewrite map_map. cbn. now rewrite map_id.
  - unfold heap_of. rewrite E1. apply Permutation_refl.
  - rewrite Forall_forall in *. intros t Ht. apply in_map_iff in Ht.
    destruct Ht as (s & <- & Hs). unfold tri_ok, rem, fr, mid, bk. cbn [fst snd app length].
    rewrite app_nil_r. repeat split; auto; discriminate.
  - unfold all_rem. now rewrite E2.
  - exact HSS.
Qed.


(** * 7. The whole iterator pipeline over sorted sources *)

Lemma rg_SS_impl {A} (R1 R2 : A -> A -> Prop) l :
  (forall a b, R1 a b -> R2 a b) -> StronglySorted R1 l -> StronglySorted R2 l.
Proof.
  intros Himp. induction 1 as [|x l HS IH HF]; constructor; [exact IH|].
  rewrite Forall_forall in *. auto.
Qed.

Lemma ikey_sorted_ksorted L : StronglySorted ikey_lt L -> ksorted L.
Proof. apply rg_SS_impl. intros a b. apply rg_ikey_lt_key_le. Qed.

Lemma run_pulls_TR fuel ps : forall it o,
  TR merger MR fuel it o -> run_pulls fuel it ps = deque_run o ps.
Proof.
  induction ps as [|p ps IH]; intros it o H; [reflexivity|].
  cbn [run_pulls deque_run]. destruct p.
  - destruct (live_next_TR merger merge_next MR merge_next_spec fuel it o H) as (it' & E & H').
    unfold ti_next. rewrite E. f_equal. now apply IH.
  - destruct (live_next_back_TR merger merge_next_back MR merge_next_back_spec fuel it o H)
      as (it' & E & H').
    unfold ti_next_back. rewrite E. f_equal. now apply IH.
Qed.

Lemma tree_iter_TR srcs L fuel :
  Forall (StronglySorted ikey_lt) srcs -> StronglySorted ikey_lt L ->
  Permutation L (concat srcs) -> (length L < fuel)%nat ->
  TR merger MR fuel (mkDep (merger_new srcs) Unpeeked Unpeeked) (live_out L).
Proof.
  intros HF HSS HP Hlen. exists L. split; [|split; [|split]]; auto.
  - exists L. cbn [d_iter d_front d_back]. split; [now apply merger_new_MR|].
    split; [unfold pv; cbn; now rewrite app_nil_r|]. split; discriminate.
  - now apply ikey_sorted_ksorted.
Qed.

(** (i)+(ii): over sorted sources with pairwise distinct InternalKeys, any interleaving
    of next / next_back pops the live group heads of the sorted union from either end *)
Theorem pipeline_deque srcs L fuel ps :
  Forall (StronglySorted ikey_lt) srcs -> StronglySorted ikey_lt L ->
  Permutation L (concat srcs) -> (length L < fuel)%nat ->
  run_pulls fuel (mkDep (merger_new srcs) Unpeeked Unpeeked) ps = deque_run (live_out L) ps.
Proof. intros. apply run_pulls_TR. now apply tree_iter_TR. Qed.

Lemma collect_front_TR fuel n : forall it o,
  TR merger MR fuel it o -> (length o < n)%nat -> collect_front fuel n it = o.
Proof.
  induction n as [|n IH]; intros it o H Hlen; [lia|].
  cbn [collect_front].
  destruct (live_next_TR merger merge_next MR merge_next_spec fuel it o H) as (it' & E & H').
  unfold ti_next. rewrite E. destruct o as [|x o]; [reflexivity|].
  cbn [ohd tl length] in *. f_equal. apply IH; [exact H'|lia].
Qed.

(** * 8. Sorted union of the sources *)

Fixpoint rg_insert (e : entry) (l : list entry) : list entry :=
  match l with
  | [] => [e]
  | x :: l' => if ikey_ltb e x then e :: l else x :: rg_insert e l'
  end.

Definition rg_isort (l : list entry) : list entry := fold_right rg_insert [] l.

(** pairwise distinct InternalKeys *)
Definition dcmp (l : list entry) : Prop :=
  NoDup l /\ forall x y, In x l -> In y l -> x = y \/ ikey_lt x y \/ ikey_lt y x.

Lemma rg_insert_perm e l : Permutation (e :: l) (rg_insert e l).
Proof.
  induction l as [|x l IH]; cbn [rg_insert]; [apply Permutation_refl|].
  destruct (ikey_ltb e x); [apply Permutation_refl|].
  eapply perm_trans; [apply perm_swap|]. now apply perm_skip.
Qed.

Lemma rg_insert_SS e l :
  StronglySorted ikey_lt l -> (forall x, In x l -> ikey_lt e x \/ ikey_lt x e) ->
  StronglySorted ikey_lt (rg_insert e l).
Proof.
  induction 1 as [|x l HS IH HF]; intros Hc; cbn [rg_insert]; [repeat constructor|].
  rewrite Forall_forall in HF.
  destruct (ikey_ltb e x) eqn:E.
  - constructor; [constructor; [exact HS|now rewrite Forall_forall]|].
    rewrite Forall_forall. intros y [<-|Hy]; [exact E|].
    eapply rg_ikey_lt_trans; [exact E|auto].
  - constructor.
    + apply IH. intros y Hy. apply Hc. right. exact Hy.
    + rewrite Forall_forall. intros y Hy.
      eapply Permutation_in in Hy; [|apply Permutation_sym; apply rg_insert_perm].
      destruct Hy as [<-|Hy]; [|auto].
      destruct (Hc x (or_introl eq_refl)) as [H|H]; [unfold ikey_lt in H; congruence|exact H].
Qed.

Lemma rg_isort_spec l : dcmp l ->
  StronglySorted ikey_lt (rg_isort l) /\ Permutation (rg_isort l) l.
Proof.
  induction l as [|e l IH]; intros [Hnd Hc]; [split; constructor|].
  inversion Hnd as [|? ? Hnin Hnd']; subst.
  destruct IH as [HS HP].
  { split; [exact Hnd'|]. intros x y Hx Hy. apply Hc; right; assumption. }
  cbn [rg_isort fold_right]. fold (rg_isort l). split.
  - apply rg_insert_SS; [exact HS|]. intros x Hx.
    eapply Permutation_in in Hx; [|exact HP].
    destruct (Hc e x (or_introl eq_refl) (or_intror Hx)) as [->|H]; [contradiction|exact H].
  - eapply perm_trans; [apply Permutation_sym; apply rg_insert_perm|]. now apply perm_skip.
Qed.

Lemma dcmp_perm l l' : Permutation l l' -> dcmp l -> dcmp l'.
Proof.
  intros HP [Hnd Hc]. split; [eapply Permutation_NoDup; eauto|].
  intros x y Hx Hy. apply Hc; (eapply Permutation_in; [apply Permutation_sym; exact HP|assumption]).
Qed.

Lemma dcmp_filter p l : dcmp l -> dcmp (filter p l).
Proof.
  intros [Hnd Hc]. split; [now apply NoDup_filter|].
  intros x y Hx Hy. apply filter_In in Hx, Hy. apply Hc; tauto.
Qed.

Lemma rg_NoDup_app {A} (a b : list A) :
  NoDup a -> NoDup b -> (forall x, In x a -> In x b -> False) -> NoDup (a ++ b).
Proof.
  induction 1 as [|x a Hx Ha IH]; intros Hb Hd; [exact Hb|].
  cbn [app]. constructor.
  - intros Hin. apply in_app_or in Hin. destruct Hin as [Hin|Hin]; [contradiction|].
    apply (Hd x); [left; reflexivity|exact Hin].
  - apply IH; [exact Hb|]. intros y Hy. apply Hd. right. exact Hy.
Qed.

Lemma dcmp_app a b :
  dcmp a -> dcmp b -> (forall x y, In x a -> In y b -> ikey_lt x y \/ ikey_lt y x) ->
  dcmp (a ++ b).
Proof.
  intros [Na Ca] [Nb Cb] Hab. split.
  - apply rg_NoDup_app; auto. intros x Hx Hy.
    destruct (Hab x x Hx Hy) as [H|H]; now apply rg_ikey_lt_irrefl in H.
  - intros x y Hx Hy. apply in_app_or in Hx, Hy.
    destruct Hx as [Hx|Hx], Hy as [Hy|Hy]; auto.
    destruct (Hab y x Hy Hx) as [H|H]; auto.
Qed.

Lemma dcmp_sorted l : StronglySorted ikey_lt l -> dcmp l.
Proof.
  intros HS. split; [now apply rg_SS_NoDup|]. intros x y. now apply rg_sorted_trich.
Qed.

Lemma cmp_of_newer x y :
  (ukey x = ukey y -> seq y < seq x) -> ikey_lt x y \/ ikey_lt y x.
Proof.
  intros H. unfold ikey_lt. rewrite !rg_ikey_ltb_iff.
  destruct (key_lt_total (ukey x) (ukey y)) as [Hl|[He|Hg]]; auto.
Qed.

(** * 9. Group heads of a strictly sorted stream *)

Definition ksort_strict (l : list entry) : Prop :=
  StronglySorted (fun a b => key_lt (ukey a) (ukey b)) l.

Lemma heads_from_in p L :
  StronglySorted ikey_lt L -> (forall e, In e L -> key_le p (ukey e)) ->
  forall e, In e (heads_from (Some p) L) <->
    In e L /\ ukey e <> p /\ forall e', In e' L -> ukey e' = ukey e -> seq e' <= seq e.
Proof.
  intros HS. revert p. induction HS as [|x L HS IH HF]; intros p Hp e.
  - cbn. tauto.
  - rewrite Forall_forall in HF. cbn [heads_from].
    assert (Hx : forall e0, In e0 L -> key_le (ukey x) (ukey e0)).
    { intros e0 H0. apply rg_ikey_lt_key_le. auto. }
    specialize (IH (ukey x) Hx e).
    assert (Hsame : forall e0, In e0 L -> ukey e0 = ukey x -> seq e0 < seq x).
    { intros e0 H0 Ek. specialize (HF e0 H0). unfold ikey_lt in HF.
      apply rg_ikey_ltb_iff in HF. destruct HF as [Hl|[_ Hs]]; [|exact Hs].
      rewrite Ek in Hl. now apply key_lt_irrefl in Hl. }
    destruct (key_eqb p (ukey x)) eqn:Epx.
    + apply key_eqb_eq in Epx. subst p. rewrite IH. split.
      * intros (Hin & Hne & Hmax). split; [right; exact Hin|]. split; [exact Hne|].
        intros e' [<-|He'] Ek; [congruence|auto].
      * intros (Hin & Hne & Hmax). destruct Hin as [<-|Hin]; [congruence|].
        split; [exact Hin|]. split; [exact Hne|]. intros e' He'. apply Hmax. right. exact He'.
    + apply key_eqb_neq in Epx. cbn [In]. rewrite IH. split.
      * intros [<-|(Hin & Hne & Hmax)].
        -- split; [left; reflexivity|]. split; [congruence|].
           intros e' [<-|He'] Ek; [lia|]. specialize (Hsame e' He' Ek). lia.
        -- split; [right; exact Hin|]. split.
           ++ intros Ek. apply Epx. apply key_le_antisym.
              ** apply Hp. left. reflexivity.
              ** rewrite <- Ek. apply Hx. exact Hin.
           ++ intros e' [<-|He'] Ek; [congruence|auto].
      * intros (Hin & Hne & Hmax). destruct Hin as [<-|Hin]; [left; reflexivity|].
        right. split; [exact Hin|]. split.
        -- intros Ek. specialize (Hsame e Hin Ek).
           specialize (Hmax x (or_introl eq_refl) (eq_sym Ek)). lia.
        -- intros e' He'. apply Hmax. right. exact He'.
Qed.

Lemma heads_in L e :
  StronglySorted ikey_lt L ->
  (In e (heads L) <-> In e L /\ forall e', In e' L -> ukey e' = ukey e -> seq e' <= seq e).
Proof.
  intros HS. destruct L as [|x L]; [cbn; tauto|].
  inversion HS as [|? ? HS' HF]; subst. rewrite Forall_forall in HF.
  unfold heads. cbn [heads_from In].
  assert (Hx : forall e0, In e0 L -> key_le (ukey x) (ukey e0)).
  { intros e0 H0. apply rg_ikey_lt_key_le. auto. }
  assert (Hsame : forall e0, In e0 L -> ukey e0 = ukey x -> seq e0 < seq x).
  { intros e0 H0 Ek. specialize (HF e0 H0). unfold ikey_lt in HF.
    apply rg_ikey_ltb_iff in HF. destruct HF as [Hl|[_ Hs]]; [|exact Hs].
    rewrite Ek in Hl. now apply key_lt_irrefl in Hl. }
  rewrite (heads_from_in (ukey x) L HS' Hx e). split.
  - intros [<-|(Hin & Hne & Hmax)].
    + split; [left; reflexivity|]. intros e' [<-|He'] Ek; [lia|].
      specialize (Hsame e' He' Ek). lia.
    + split; [right; exact Hin|]. intros e' [<-|He'] Ek; [congruence|auto].
  - intros (Hin & Hmax). destruct Hin as [<-|Hin]; [left; reflexivity|].
    right. split; [exact Hin|]. split.
    + intros Ek. specialize (Hsame e Hin Ek).
      specialize (Hmax x (or_introl eq_refl) (eq_sym Ek)). lia.
    + intros e' He'. apply Hmax. right. exact He'.
Qed.

Lemma heads_from_ksort p L :
  StronglySorted ikey_lt L -> (forall e, In e L -> key_le p (ukey e)) ->
  ksort_strict (heads_from (Some p) L).
Proof.
  intros HS. revert p. induction HS as [|x L HS IH HF]; intros p Hp; [constructor|].
  rewrite Forall_forall in HF. cbn [heads_from].
  assert (Hx : forall e0, In e0 L -> key_le (ukey x) (ukey e0)).
  { intros e0 H0. apply rg_ikey_lt_key_le. auto. }
  destruct (key_eqb p (ukey x)); [now apply IH|].
  constructor; [now apply IH|]. rewrite Forall_forall. intros y Hy.
  apply (heads_from_in (ukey x) L HS Hx) in Hy. destruct Hy as (Hin & Hne & _).
  specialize (Hx y Hin). apply key_le_lteq in Hx. destruct Hx as [Hx|Hx]; [exact Hx|congruence].
Qed.

Lemma heads_ksort L : StronglySorted ikey_lt L -> ksort_strict (heads L).
Proof.
  intros HS. destruct L as [|x L]; [constructor|].
  inversion HS as [|? ? HS' HF]; subst. rewrite Forall_forall in HF.
  unfold heads. cbn [heads_from].
  assert (Hx : forall e0, In e0 L -> key_le (ukey x) (ukey e0)).
  { intros e0 H0. apply rg_ikey_lt_key_le. auto. }
  constructor; [now apply heads_from_ksort|]. rewrite Forall_forall. intros y Hy.
  apply (heads_from_in (ukey x) L HS' Hx) in Hy. destruct Hy as (Hin & Hne & _).
  specialize (Hx y Hin). apply key_le_lteq in Hx. destruct Hx as [Hx|Hx]; [exact Hx|congruence].
Qed.

(** two strictly key-sorted lists with the same members are equal *)
Lemma ksort_ext l1 l2 :
  ksort_strict l1 -> ksort_strict l2 -> (forall e, In e l1 <-> In e l2) -> l1 = l2.
Proof.
  intros H1. revert l2. induction H1 as [|a l1 HS1 IH HF1]; intros l2 H2 Hiff.
  - destruct l2 as [|b l2]; [reflexivity|]. exfalso. apply (Hiff b). left. reflexivity.
  - destruct H2 as [|b l2 HS2 HF2].
    + exfalso. apply (Hiff a). left. reflexivity.
    + rewrite Forall_forall in HF1, HF2.
      assert (Eab : a = b).
      { destruct (proj1 (Hiff a) (or_introl eq_refl)) as [E|Ha]; [auto|].
        destruct (proj2 (Hiff b) (or_introl eq_refl)) as [E|Hb]; [auto|].
        exfalso. eapply key_lt_irrefl. eapply key_lt_trans; [apply (HF1 b Hb)|apply (HF2 a Ha)]. }
      subst b. f_equal. apply IH; [exact HS2|]. intros e. split; intros He.
      * destruct (proj1 (Hiff e) (or_intror He)) as [E|H]; [|exact H].
        subst e. exfalso. eapply key_lt_irrefl. apply (HF1 a He).
      * destruct (proj2 (Hiff e) (or_intror He)) as [E|H]; [|exact H].
        subst e. exfalso. eapply key_lt_irrefl. apply (HF2 a He).
Qed.

Lemma live_out_in L e :
  StronglySorted ikey_lt L ->
  (In e (live_out L) <->
   In e L /\ is_tomb e = false /\ forall e', In e' L -> ukey e' = ukey e -> seq e' <= seq e).
Proof.
  intros HS. unfold live_out. rewrite filter_In, (heads_in L e HS). unfold nt.
  rewrite negb_true_iff. tauto.
Qed.

Lemma live_out_ksort L : StronglySorted ikey_lt L -> ksort_strict (live_out L).
Proof. intros HS. apply rg_SS_filter. now apply heads_ksort. Qed.


(** * 10. The Spec side *)

Lemma key_insert_in k x l : In x (key_insert k l) <-> x = k \/ In x l.
Proof.
  induction l as [|y l IH]; cbn [key_insert In]; [intuition|].
  destruct (key_cmp k y) eqn:E; cbn [In].
  - apply key_cmp_eq in E. subst y. intuition.
  - intuition.
  - rewrite IH. intuition.
Qed.

Lemma key_insert_sorted k l :
  StronglySorted key_lt l -> StronglySorted key_lt (key_insert k l).
Proof.
  induction 1 as [|y l HS IH HF]; cbn [key_insert]; [repeat constructor|].
  rewrite Forall_forall in HF.
  destruct (key_cmp k y) eqn:E.
  - constructor; [exact HS|now rewrite Forall_forall].
  - constructor; [constructor; [exact HS|now rewrite Forall_forall]|].
    rewrite Forall_forall. intros z [<-|Hz]; [exact E|].
    eapply key_lt_trans; [exact E|auto].
  - constructor; [exact IH|]. rewrite Forall_forall. intros z Hz.
    apply key_insert_in in Hz. destruct Hz as [->|Hz]; [now apply key_lt_gt|auto].
Qed.

Lemma keys_of_sorted H : StronglySorted key_lt (keys_of H).
Proof.
  unfold keys_of. induction H as [|e H IH]; cbn [fold_right]; [constructor|].
  now apply key_insert_sorted.
Qed.

Lemma keys_of_in H k : In k (keys_of H) <-> exists e, In e H /\ ukey e = k.
Proof.
  unfold keys_of. induction H as [|e H IH]; cbn [fold_right].
  - split; [contradiction|]. intros (e & [] & _).
  - rewrite key_insert_in, IH. split.
    + intros [->|(e' & He' & Ek)]; [exists e; split; [left|]; reflexivity|].
      exists e'. split; [right; exact He'|exact Ek].
    + intros (e' & [<-|He'] & Ek); [left; auto|right; eauto].
Qed.

Definition opt_list (o : option entry) : list entry :=
  match o with Some e => [e] | None => [] end.

(** the shape of [spec_range], for an arbitrary per-key result [g] *)
Definition spec_list (g : key -> option entry) (lo hi : bound) (ks : list key) : list entry :=
  flat_map (fun k => if in_bounds lo hi k then opt_list (g k) else []) ks.

Lemma spec_range_list H lo hi S :
  spec_range H lo hi S = spec_list (fun k => spec_get H k S) lo hi (keys_of H).
Proof. reflexivity. Qed.

Lemma spec_list_in g lo hi ks e :
  (forall k e, g k = Some e -> ukey e = k) ->
  (In e (spec_list g lo hi ks) <->
   In (ukey e) ks /\ in_bounds lo hi (ukey e) = true /\ g (ukey e) = Some e).
Proof.
  intros Hg. unfold spec_list. rewrite in_flat_map. split.
  - intros (k & Hk & He). destruct (in_bounds lo hi k) eqn:Eb; [|contradiction].
    destruct (g k) as [e0|] eqn:Eg; [|contradiction].
    destruct He as [<-|[]]. rewrite (Hg k e0 Eg). auto.
  - intros (Hk & Eb & Eg). exists (ukey e). split; [exact Hk|].
    rewrite Eb, Eg. left. reflexivity.
Qed.

Lemma spec_list_ksort g lo hi ks :
  (forall k e, g k = Some e -> ukey e = k) ->
  StronglySorted key_lt ks -> ksort_strict (spec_list g lo hi ks).
Proof.
  intros Hg. induction 1 as [|k ks HS IH HF]; [constructor|].
  rewrite Forall_forall in HF. unfold spec_list. cbn [flat_map]. fold (spec_list g lo hi ks).
  apply rg_SS_app; [| exact IH |].
  - destruct (in_bounds lo hi k); [|constructor].
    destruct (g k); repeat constructor.
  - intros x y Hx Hy.
    assert (Ex : ukey x = k).
    { destruct (in_bounds lo hi k); [|contradiction].
      destruct (g k) as [e0|] eqn:Eg; [|contradiction]. destruct Hx as [<-|[]]. eauto. }
    apply (spec_list_in g lo hi ks y Hg) in Hy. destruct Hy as (Hy & _). rewrite Ex. auto.
Qed.

Lemma visible_some o e : visible o = Some e <-> o = Some e /\ is_tomb e = false.
Proof.
  destruct o as [x|]; cbn [visible].
  - destruct (is_tomb x) eqn:E; split.
    + discriminate.
    + intros [H1 H2]. inversion H1; subst. congruence.
    + intros H. inversion H; subst. auto.
    + intros [H1 _]. exact H1.
  - split; [discriminate|]. intros [H _]. discriminate.
Qed.

Lemma dcmp_uniq l : dcmp l -> uniq l.
Proof.
  intros [_ Hc] e1 e2 H1 H2 Ek Es.
  destruct (Hc e1 e2 H1 H2) as [E|[H|H]]; [exact E| |]; exfalso;
    unfold ikey_lt in H; apply rg_ikey_ltb_iff in H; destruct H as [H|[_ H]]; try lia.
  - rewrite Ek in H. now apply key_lt_irrefl in H.
  - rewrite Ek in H. now apply key_lt_irrefl in H.
Qed.

(** per-key result of a scan over an overlay [ov] read at [so] on top of [ct] read at [S] *)
Definition overlay_get (ov ct : list entry) (so S : N) (k : key) : option entry :=
  visible (match newest k so ov with Some e => Some e | None => newest k S ct end).

(** (iv): the live group heads of the sorted union of the visible in-bounds entries are
    the Spec's answers, key by key *)
Lemma scan_equals_spec (ct ov : list entry) (S so : N) lo hi L :
  uniq ct -> uniq ov ->
  (forall x y, In x ov -> In y ct -> seq y < seq x) ->
  StronglySorted ikey_lt L ->
  (forall e, In e L <->
     In e (filter (fun e => in_bounds lo hi (ukey e) && (seq e <? so)) ov)
     \/ In e (filter (fun e => in_bounds lo hi (ukey e) && (seq e <? S)) ct)) ->
  live_out L = spec_list (overlay_get ov ct so S) lo hi (keys_of (ov ++ ct)).
Proof.
  intros Uc Uo Hnew HS HL.
  assert (Hg : forall k e, overlay_get ov ct so S k = Some e -> ukey e = k).
  { intros k e H. unfold overlay_get in H. apply visible_some in H. destruct H as [H _].
    destruct (newest k so ov) as [e0|] eqn:E0.
    - inversion H; subst. apply newest_some in E0. destruct E0 as [_ M].
      apply matches_iff in M. tauto.
    - apply newest_some in H. destruct H as [_ M]. apply matches_iff in M. tauto. }
  apply ksort_ext.
  - now apply live_out_ksort.
  - apply spec_list_ksort; [exact Hg|apply keys_of_sorted].
  - intros e. rewrite (live_out_in L e HS), (spec_list_in _ lo hi _ e Hg).
    assert (HLo : forall x, In x ov -> ukey x = ukey e -> in_bounds lo hi (ukey e) = true ->
                   seq x < so -> In x L).
    { intros x Hx Ek Eb Hs. apply HL. left. apply filter_In. split; [exact Hx|].
      rewrite Ek, Eb. cbn [andb]. now apply N.ltb_lt. }
    assert (HLc : forall x, In x ct -> ukey x = ukey e -> in_bounds lo hi (ukey e) = true ->
                   seq x < S -> In x L).
    { intros x Hx Ek Eb Hs. apply HL. right. apply filter_In. split; [exact Hx|].
      rewrite Ek, Eb. cbn [andb]. now apply N.ltb_lt. }
    split.
    + intros (Hin & Hnt & Hmax). apply HL in Hin.
      destruct Hin as [Hin|Hin]; apply filter_In in Hin; destruct Hin as [Hin Hp];
        apply andb_true_iff in Hp; destruct Hp as [Eb Hs]; apply N.ltb_lt in Hs.
      * split; [apply keys_of_in; exists e; split; [apply in_or_app; left; exact Hin|reflexivity]|].
        split; [exact Eb|]. unfold overlay_get.
        rewrite (newest_char (ukey e) so ov e Uo Hin).
        -- apply visible_some. auto.
        -- apply matches_iff. auto.
        -- intros e' He' M. apply matches_iff in M. destruct M as [Ek Hs'].
           apply Hmax; [|exact Ek]. now apply HLo.
      * split; [apply keys_of_in; exists e; split; [apply in_or_app; right; exact Hin|reflexivity]|].
        split; [exact Eb|]. unfold overlay_get.
        assert (En : newest (ukey e) so ov = None).
        { apply newest_none. intros e' He'. destruct (matches (ukey e) so e') eqn:M; [|reflexivity].
          exfalso. apply matches_iff in M. destruct M as [Ek Hs'].
          assert (Hle : seq e' <= seq e) by (apply Hmax; [now apply HLo|exact Ek]).
          specialize (Hnew e' e He' Hin). lia. }
        rewrite En, (newest_char (ukey e) S ct e Uc Hin).
        -- apply visible_some. auto.
        -- apply matches_iff. auto.
        -- intros e' He' M. apply matches_iff in M. destruct M as [Ek Hs'].
           apply Hmax; [|exact Ek]. now apply HLc.
    + intros (Hk & Eb & Hgv). unfold overlay_get in Hgv. apply visible_some in Hgv.
      destruct Hgv as [Hgv Hnt].
      destruct (newest (ukey e) so ov) as [e0|] eqn:E0.
      * inversion Hgv; subst e0. pose proof (newest_some _ _ _ _ E0) as [Hin M].
        apply matches_iff in M. destruct M as [_ Hs].
        split; [now apply HLo|]. split; [exact Hnt|].
        intros e' He' Ek. apply HL in He'.
        destruct He' as [He'|He']; apply filter_In in He'; destruct He' as [He' Hp];
          apply andb_true_iff in Hp; destruct Hp as [_ Hs']; apply N.ltb_lt in Hs'.
        -- eapply newest_max; [exact E0|exact He'|]. apply matches_iff. auto.
        -- specialize (Hnew e e' Hin He'). lia.
      * pose proof (newest_some _ _ _ _ Hgv) as [Hin M].
        apply matches_iff in M. destruct M as [_ Hs].
        split; [now apply HLc|]. split; [exact Hnt|].
        intros e' He' Ek. apply HL in He'.
        destruct He' as [He'|He']; apply filter_In in He'; destruct He' as [He' Hp];
          apply andb_true_iff in Hp; destruct Hp as [_ Hs']; apply N.ltb_lt in Hs'.
        -- exfalso. rewrite newest_none in E0. specialize (E0 e' He').
           assert (M : matches (ukey e) so e' = true) by (apply matches_iff; auto).
           congruence.
        -- eapply newest_max; [exact Hgv|exact He'|]. apply matches_iff. auto.
Qed.


(** * 11. Tables and runs under the invariant; run culling loses nothing *)

Lemma table_ok_facts t : table_ok t = true ->
  StronglySorted ikey_lt (ents t) /\ ents t <> [] /\
  forall e, In e (ents t) -> key_le (kmin t) (ukey e) /\ key_le (ukey e) (kmax t).
Proof.
  unfold table_ok, table_meta_ok. intros H. apply andb_true_iff in H. destruct H as [Hs Hm].
  apply rg_sorted_SS in Hs. split; [exact Hs|].
  destruct (ents t) as [|e0 rest] eqn:Ee; [discriminate|]. split; [discriminate|].
  do 5 (apply andb_true_iff in Hm; destruct Hm as [Hm _]).
  apply andb_true_iff in Hm. destruct Hm as [Hmin Hmax]. key_prop.
  rewrite Hmin, Hmax. intros e He. split.
  - destruct He as [<-|He]; [apply key_le_refl|].
    inversion Hs as [|? ? _ HF]; subst. rewrite Forall_forall in HF.
    apply rg_ikey_lt_key_le. auto.
  - destruct (rg_snoc_cases (e0 :: rest)) as [E|(l' & z & E)]; [discriminate|].
    rewrite E in *. rewrite last_last.
    apply in_app_or in He. destruct He as [He|[<-|[]]]; [|apply key_le_refl].
    apply rg_SS_app_inv in Hs. destruct Hs as (_ & _ & HF).
    apply rg_ikey_lt_key_le. apply HF; [exact He|left; reflexivity].
Qed.

Lemma table_ok_minmax t : table_ok t = true -> key_le (kmin t) (kmax t).
Proof.
  intros H. destruct (table_ok_facts t H) as (_ & Hne & Hb).
  destruct (ents t) as [|e0 rest]; [congruence|].
  destruct (Hb e0 (or_introl eq_refl)). eapply key_le_trans; eauto.
Qed.

(** table [t] lies entirely before table [t'] *)
Definition tlt (t t' : table) : Prop := key_lt (kmax t) (kmin t').

Lemma run_ok_facts r : run_ok r = true ->
  Forall (fun t => table_ok t = true) r /\ StronglySorted tlt r.
Proof.
  unfold run_ok. destruct r as [|t0 r0]; [discriminate|].
  intros H. apply andb_true_iff in H. destruct H as [Hf Hd].
  assert (HF : Forall (fun t => table_ok t = true) (t0 :: r0)).
  { rewrite Forall_forall. now apply forallb_forall. }
  split; [exact HF|]. clear Hf. revert HF Hd. generalize (t0 :: r0). clear.
  induction l as [|t r IH]; intros HF Hd; [constructor|].
  inversion HF as [|? ? Ht HF']; subst.
  destruct r as [|t' r]; [repeat constructor|].
  cbn [run_disjoint_b] in Hd. apply andb_true_iff in Hd. destruct Hd as [Hlt Hd]. key_prop.
  specialize (IH HF' Hd). constructor; [exact IH|].
  inversion IH as [|? ? _ HFt]; subst. inversion HF' as [|? ? Ht' _]; subst.
  constructor; [exact Hlt|]. rewrite Forall_forall in *. intros t'' Hin.
  unfold tlt in *. eapply key_lt_trans; [exact Hlt|].
  eapply key_le_lt_trans; [apply table_ok_minmax; exact Ht'|auto].
Qed.

Lemma tlt_entries t t' e e' :
  table_ok t = true -> table_ok t' = true -> tlt t t' ->
  In e (ents t) -> In e' (ents t') -> ikey_lt e e'.
Proof.
  intros Ht Ht' Hlt He He'.
  destruct (table_ok_facts t Ht) as (_ & _ & Hb). destruct (table_ok_facts t' Ht') as (_ & _ & Hb').
  unfold ikey_lt. apply rg_ikey_ltb_iff. left.
  eapply key_le_lt_trans; [apply (Hb e He)|].
  eapply key_lt_le_trans; [exact Hlt|apply (Hb' e' He')].
Qed.

Lemma run_concat_sorted r :
  Forall (fun t => table_ok t = true) r -> StronglySorted tlt r ->
  StronglySorted ikey_lt (concat (map ents r)).
Proof.
  intros HF HS. induction HS as [|t r HS IH Hlt]; [constructor|].
  inversion HF as [|? ? Ht HF']; subst. cbn [map concat].
  apply rg_SS_app; [apply (table_ok_facts t Ht)|now apply IH|].
  intros x y Hx Hy. apply in_concat in Hy. destruct Hy as (l & Hl & Hy).
  apply in_map_iff in Hl. destruct Hl as (t' & <- & Ht'in).
  rewrite Forall_forall in Hlt, HF'. apply (tlt_entries t t' x y); auto.
Qed.

(** ** partition_point *)

Lemma pp_le {A} (p : A -> bool) l : (partition_point p l <= length l)%nat.
Proof. induction l as [|x l IH]; cbn; [lia|]. destruct (p x); cbn; lia. Qed.

Lemma pp_firstn {A} (p : A -> bool) l :
  Forall (fun x => p x = true) (firstn (partition_point p l) l).
Proof.
  induction l as [|x l IH]; cbn; [constructor|].
  destruct (p x) eqn:E; cbn; [constructor; assumption|constructor].
Qed.

Lemma pp_skipn {A} (p : A -> bool) l :
  match skipn (partition_point p l) l with [] => True | x :: _ => p x = false end.
Proof.
  induction l as [|x l IH]; cbn; [exact I|].
  destruct (p x) eqn:E; cbn; [exact IH|exact E].
Qed.

Lemma pp_all {A} (p : A -> bool) l : (forall x, p x = true) -> partition_point p l = length l.
Proof. intros H. induction l as [|x l IH]; cbn; [reflexivity|]. now rewrite H, IH. Qed.

Lemma pp_none {A} (p : A -> bool) l : (forall x, p x = false) -> partition_point p l = O.
Proof. intros H. destruct l as [|x l]; cbn; [reflexivity|]. now rewrite H. Qed.

(** the two partition predicates of range_overlap_indexes, uniformly in the bound kind *)
Definition plo (lo : bound) (t : table) : bool :=
  match lo with Unb => false | Incl k => key_ltb (kmax t) k | Excl k => key_leb (kmax t) k end.
Definition qhi (hi : bound) (t : table) : bool :=
  match hi with Unb => true | Incl k => key_leb (kmin t) k | Excl k => key_ltb (kmin t) k end.

Lemma roi_uniform r lo hi :
  range_overlap_indexes r lo hi =
  let i := partition_point (plo lo) r in
  if Nat.leb (length r) i then None
  else
    let idx := (i + partition_point (qhi hi) (skipn i r))%nat in
    if Nat.eqb idx 0 then None
    else if Nat.ltb (idx - 1) i then None else Some (i, (idx - 1)%nat).
Proof.
  unfold range_overlap_indexes.
  assert (Ei : match lo with
               | Incl k => partition_point (fun t => key_ltb (kmax t) k) r
               | Excl k => partition_point (fun t => key_leb (kmax t) k) r
               | Unb => O
               end = partition_point (plo lo) r).
  { destruct lo; cbn [plo]; try reflexivity. symmetry. now apply pp_none. }
  rewrite Ei. cbv zeta. set (i := partition_point (plo lo) r).
  destruct (Nat.leb (length r) i) eqn:El; [reflexivity|]. apply Nat.leb_gt in El.
  destruct hi as [k|k|].
  - change (qhi (Incl k)) with (fun t => key_leb (kmin t) k).
    destruct (Nat.eqb _ 0); reflexivity.
  - change (qhi (Excl k)) with (fun t => key_ltb (kmin t) k).
    destruct (Nat.eqb _ 0); reflexivity.
  - rewrite (pp_all (qhi Unb)) by reflexivity. rewrite skipn_length.
    replace (i + (length r - i))%nat with (length r) by lia.
    destruct (Nat.eqb_spec (length r) 0); [lia|]. reflexivity.
Qed.

Lemma roi_decomp r lo hi :
  exists pre win post, r = pre ++ win ++ post
    /\ Forall (fun t => plo lo t = true) pre
    /\ match win ++ post with [] => True | t :: _ => plo lo t = false end
    /\ Forall (fun t => qhi hi t = true) win
    /\ match post with [] => True | t :: _ => qhi hi t = false end
    /\ range_overlap_indexes r lo hi =
       match win with
       | [] => None
       | _ => Some (length pre, (length pre + length win - 1)%nat)
       end.
Proof.
  rewrite roi_uniform. cbv zeta.
  set (i := partition_point (plo lo) r). set (rest := skipn i r).
  set (n2 := partition_point (qhi hi) rest).
  exists (firstn i r), (firstn n2 rest), (skipn n2 rest).
  assert (Hi : (i <= length r)%nat) by apply pp_le.
  assert (Hn2 : (n2 <= length rest)%nat) by apply pp_le.
  assert (Hlr : length rest = (length r - i)%nat) by apply skipn_length.
  rewrite (firstn_skipn n2 rest). split; [symmetry; apply firstn_skipn|].
  split; [apply pp_firstn|]. split; [apply pp_skipn|]. split; [apply pp_firstn|].
  split; [apply pp_skipn|].
  rewrite (firstn_length_le r Hi).
  assert (Hlw : length (firstn n2 rest) = n2) by (now apply firstn_length_le).
  destruct (Nat.leb_spec (length r) i) as [Hle|Hgt].
  - assert (n2 = O) by lia. rewrite H. reflexivity.
  - destruct (Nat.eqb_spec (i + n2) 0) as [E0|E0].
    + assert (n2 = O) by lia. rewrite H. reflexivity.
    + destruct (Nat.ltb_spec (i + n2 - 1) i) as [Hlt|Hge].
      * assert (n2 = O) by lia. rewrite H. reflexivity.
      * destruct (firstn n2 rest) as [|w0 w'] eqn:Ew; [cbn in Hlw; lia|].
        rewrite Hlw. reflexivity.
Qed.

(** ** entries outside / inside the bounds, table-wise *)

Lemma tbl_lo_out lo t : table_ok t = true -> plo lo t = true ->
  forall e, In e (ents t) -> lo_ok lo (ukey e) = false.
Proof.
  intros Ht Hp e He. destruct (table_ok_facts t Ht) as (_ & _ & Hb).
  destruct (Hb e He) as [_ Hmax]. destruct lo as [k|k|]; cbn [plo lo_ok] in *; [| |discriminate].
  - key_prop. eapply key_le_lt_trans; eauto.
  - key_prop. eapply key_le_trans; eauto.
Qed.

Lemma tbl_hi_out hi t : table_ok t = true -> qhi hi t = false ->
  forall e, In e (ents t) -> hi_ok hi (ukey e) = false.
Proof.
  intros Ht Hq e He. destruct (table_ok_facts t Ht) as (_ & _ & Hb).
  destruct (Hb e He) as [Hmin _]. destruct hi as [k|k|]; cbn [qhi hi_ok] in *; [| |discriminate].
  - key_prop. eapply key_lt_le_trans; eauto.
  - key_prop. eapply key_le_trans; eauto.
Qed.

Lemma tbl_lo_in lo t0 t : table_ok t = true -> plo lo t0 = false -> tlt t0 t ->
  forall e, In e (ents t) -> lo_ok lo (ukey e) = true.
Proof.
  intros Ht Hp Hlt e He. destruct (table_ok_facts t Ht) as (_ & _ & Hb).
  destruct (Hb e He) as [Hmin _]. unfold tlt in Hlt.
  destruct lo as [k|k|]; cbn [plo lo_ok] in *; [| |reflexivity].
  - key_prop. apply key_lt_le. eapply key_le_lt_trans; [exact Hp|].
    eapply key_lt_le_trans; eauto.
  - key_prop. eapply key_lt_trans; [exact Hp|]. eapply key_lt_le_trans; eauto.
Qed.

Lemma tbl_hi_in hi t1 t : table_ok t = true -> qhi hi t1 = true -> tlt t t1 ->
  forall e, In e (ents t) -> hi_ok hi (ukey e) = true.
Proof.
  intros Ht Hq Hlt e He. destruct (table_ok_facts t Ht) as (_ & _ & Hb).
  destruct (Hb e He) as [_ Hmax]. unfold tlt in Hlt.
  destruct hi as [k|k|]; cbn [qhi hi_ok] in *; [| |reflexivity].
  - key_prop. apply key_lt_le. eapply key_le_lt_trans; [exact Hmax|].
    eapply key_lt_le_trans; eauto.
  - key_prop. eapply key_le_lt_trans; [exact Hmax|]. eapply key_lt_trans; eauto.
Qed.

Lemma qhi_mono hi t t' : key_le (kmin t) (kmin t') -> qhi hi t = false -> qhi hi t' = false.
Proof.
  intros Hle Hq. destruct hi as [k|k|]; cbn [qhi] in *; [| |discriminate]; key_prop.
  - eapply key_lt_le_trans; eauto.
  - eapply key_le_trans; eauto.
Qed.

Definition fQ (lo hi : bound) (ts : list table) : list entry :=
  filter (fun e => in_bounds lo hi (ukey e)) (concat (map ents ts)).

Lemma fQ_app lo hi a b : fQ lo hi (a ++ b) = fQ lo hi a ++ fQ lo hi b.
Proof. unfold fQ. now rewrite map_app, concat_app, filter_app. Qed.

Lemma fQ_cons lo hi t ts : fQ lo hi (t :: ts) = table_range t lo hi ++ fQ lo hi ts.
Proof. unfold fQ, table_range. cbn [map concat]. now rewrite filter_app. Qed.

Lemma rg_filter_nil {A} (p : A -> bool) l : (forall x, In x l -> p x = false) -> filter p l = [].
Proof.
  induction l as [|x l IH]; intros H; [reflexivity|]. cbn [filter].
  rewrite (H x (or_introl eq_refl)). apply IH. intros y Hy. apply H. right. exact Hy.
Qed.

Lemma rg_filter_all {A} (p : A -> bool) l : (forall x, In x l -> p x = true) -> filter p l = l.
Proof.
  induction l as [|x l IH]; intros H; [reflexivity|]. cbn [filter].
  rewrite (H x (or_introl eq_refl)). f_equal. apply IH. intros y Hy. apply H. right. exact Hy.
Qed.

Lemma fQ_nil lo hi ts :
  (forall t e, In t ts -> In e (ents t) -> in_bounds lo hi (ukey e) = false) -> fQ lo hi ts = [].
Proof.
  intros H. unfold fQ. apply rg_filter_nil. intros e He.
  apply in_concat in He. destruct He as (l & Hl & He). apply in_map_iff in Hl.
  destruct Hl as (t & <- & Ht). eauto.
Qed.

Lemma fQ_all lo hi ts :
  (forall t e, In t ts -> In e (ents t) -> in_bounds lo hi (ukey e) = true) ->
  fQ lo hi ts = concat (map ents ts).
Proof.
  intros H. unfold fQ. apply rg_filter_all. intros e He.
  apply in_concat in He. destruct He as (l & Hl & He). apply in_map_iff in Hl.
  destruct Hl as (t & <- & Ht). eauto.
Qed.

Lemma rg_skipn_app_length {A} (a b : list A) : skipn (length a) (a ++ b) = b.
Proof. induction a as [|x a IH]; [reflexivity|exact IH]. Qed.

Lemma rg_firstn_app_length {A} (a b : list A) : firstn (length a) (a ++ b) = a.
Proof. induction a as [|x a IH]; [reflexivity|]. cbn. now rewrite IH. Qed.

Lemma rg_nth_error_app_length {A} (a b : list A) x : nth_error (a ++ x :: b) (length a) = Some x.
Proof. induction a as [|y a IH]; [reflexivity|exact IH]. Qed.

Definition olist (o : option (list entry)) : list entry :=
  match o with Some l => l | None => [] end.

(** (iii) RunReader yields exactly the in-bounds entries of the run: the culled window
    loses nothing, and the unbounded inner tables add nothing out of bounds *)
Lemma run_reader_items_exact r lo hi :
  Forall (fun t => table_ok t = true) r -> StronglySorted tlt r ->
  olist (run_reader_items r lo hi) = fQ lo hi r.
Proof.
  intros HF HS. unfold run_reader_items.
  destruct (roi_decomp r lo hi) as (pre & win & post & Er & Hpre & Hhd & Hwin & Hpost & Eroi).
  rewrite Eroi. subst r.
  apply rg_SS_app_inv in HS. destruct HS as (_ & HS & _).
  apply rg_SS_app_inv in HS. destruct HS as (HSw & HSp & Hwp).
  apply Forall_app in HF. destruct HF as [HFpre HF]. apply Forall_app in HF. destruct HF as [HFw HFp].
  rewrite Forall_forall in HFpre, HFw, HFp, Hpre, Hwin.
  rewrite !fQ_app.
  assert (Epre : fQ lo hi pre = []).
  { apply fQ_nil. intros t e Ht He. unfold in_bounds.
    rewrite (tbl_lo_out lo t (HFpre t Ht) (Hpre t Ht) e He). reflexivity. }
  assert (Epost : fQ lo hi post = []).
  { apply fQ_nil. intros t e Ht He. unfold in_bounds.
    destruct post as [|p0 post']; [contradiction|].
    assert (Hq : qhi hi t = false).
    { destruct Ht as [<-|Ht]; [exact Hpost|]. apply (qhi_mono hi p0 t); [|exact Hpost].
      inversion HSp as [|? ? _ HFp0]; subst. rewrite Forall_forall in HFp0.
      specialize (HFp0 t Ht). unfold tlt in HFp0. apply key_lt_le.
      eapply key_le_lt_trans; [apply table_ok_minmax; apply HFp; left; reflexivity|exact HFp0]. }
    rewrite (tbl_hi_out hi t (HFp t Ht) Hq e He). apply andb_false_r. }
  rewrite Epre, Epost, app_nil_r. cbn [app].
  destruct win as [|w0 w']; [reflexivity|].
  cbn [olist]. unfold tbl_range_at. cbn [app] in Hhd |- *.
  rewrite (rg_nth_error_app_length pre (w' ++ post) w0).
  rewrite fQ_cons. f_equal.
  cbn [length]. replace (length pre + S (length w') - 1)%nat with (length pre + length w')%nat by lia.
  destruct (rg_snoc_cases w') as [->|(mids & wl & ->)].
  - cbn [length]. rewrite Nat.add_0_r, Nat.ltb_irrefl. reflexivity.
  - rewrite app_length. cbn [length].
    destruct (Nat.ltb_spec (length pre) (length pre + (length mids + 1))); [|lia].
    assert (Emid : mid_tables (pre ++ w0 :: (mids ++ [wl]) ++ post) (length pre)
                              (length pre + (length mids + 1)) = mids).
    { unfold mid_tables.
      replace (pre ++ w0 :: (mids ++ [wl]) ++ post) with ((pre ++ [w0]) ++ mids ++ [wl] ++ post)
        by (rewrite <- !app_assoc; reflexivity).
      replace (S (length pre)) with (length (pre ++ [w0])) by (rewrite app_length; cbn; lia).
      rewrite rg_skipn_app_length.
      replace (length pre + (length mids + 1) - length pre - 1)%nat with (length mids) by lia.
      apply rg_firstn_app_length. }
    rewrite Emid.
    assert (Elast : nth_error (pre ++ w0 :: (mids ++ [wl]) ++ post)
                              (length pre + (length mids + 1)) = Some wl).
    { assert (E : pre ++ w0 :: (mids ++ [wl]) ++ post = (pre ++ w0 :: mids) ++ wl :: post).
      { rewrite <- !app_assoc. cbn [app]. reflexivity. }
      rewrite E.
      assert (E' : (length pre + (length mids + 1))%nat = length (pre ++ w0 :: mids)).
      { rewrite app_length. cbn [length]. lia. }
      rewrite E'. apply rg_nth_error_app_length. }
    rewrite Elast. rewrite fQ_app, fQ_cons. unfold fQ at 2. cbn [map concat filter].
    rewrite app_nil_r. f_equal.
    symmetry. apply fQ_all. intros t e Ht He. unfold in_bounds.
    inversion HSw as [|? ? HSw' HFw0]; subst. rewrite Forall_forall in HFw0.
    apply rg_SS_app_inv in HSw'. destruct HSw' as (_ & _ & Hml).
    assert (Htw : In t (w0 :: mids ++ [wl])) by (right; apply in_or_app; left; exact Ht).
    rewrite (tbl_lo_in lo w0 t (HFw t Htw) Hhd) ; [| apply HFw0; apply in_or_app; left; exact Ht | exact He].
    rewrite (tbl_hi_in hi wl t (HFw t Htw)); [reflexivity| | |exact He].
    + apply Hwin. right. apply in_or_app. right. left. reflexivity.
    + apply Hml; [exact Ht|left; reflexivity].
Qed.

Lemma kr_overlaps_eq t lo hi :
  kr_overlaps (kmin t) (kmax t) lo hi = negb (plo lo t) && qhi hi t.
Proof.
  unfold kr_overlaps.
  destruct lo as [a|a|], hi as [b|b|]; cbn [plo qhi negb andb];
    rewrite ?key_leb_ltb, ?negb_involutive, ?andb_true_r; reflexivity.
Qed.

Lemma rg_filter_and {A} (p q : A -> bool) l :
  filter (fun x => p x && q x) l = filter q (filter p l).
Proof.
  induction l as [|x l IH]; [reflexivity|]. cbn [filter].
  destruct (p x); cbn [andb filter]; [destruct (q x)|]; now rewrite IH.
Qed.

(** the visibility predicate of a scan: inside the user-key bounds and below the snapshot *)
Definition PS (lo hi : bound) (S : N) (e : entry) : bool :=
  in_bounds lo hi (ukey e) && (seq e <? S).

Lemma run_source_exact r lo hi S : run_ok r = true ->
  olist (run_source r lo hi S) = filter (PS lo hi S) (concat (map ents r)).
Proof.
  intros Hok. destruct (run_ok_facts r Hok) as [HF HS].
  unfold PS. rewrite rg_filter_and. fold (fQ lo hi r).
  rewrite <- (run_reader_items_exact r lo hi HF HS).
  unfold run_source, sfilter, seqno_filter.
  destruct r as [|t [|t' r']]; [discriminate| |].
  - rewrite kr_overlaps_eq. inversion HF as [|? ? Ht _]; subst.
    rewrite (run_reader_items_exact [t] lo hi HF HS). rewrite fQ_cons. unfold fQ. cbn [map concat filter].
    rewrite app_nil_r.
    destruct (plo lo t) eqn:Ep; cbn [negb andb olist].
    + unfold table_range. rewrite (rg_filter_nil _ (ents t)); [reflexivity|].
      intros e He. unfold in_bounds. now rewrite (tbl_lo_out lo t Ht Ep e He).
    + destruct (qhi hi t) eqn:Eq; cbn [olist]; [reflexivity|].
      unfold table_range. rewrite (rg_filter_nil _ (ents t)); [reflexivity|].
      intros e He. unfold in_bounds. rewrite (tbl_hi_out hi t Ht Eq e He). apply andb_false_r.
  - destruct (run_reader_items (t :: t' :: r') lo hi); reflexivity.
Qed.


(** * 12. The superversion invariant: sorted containers, pairwise distinct InternalKeys *)

Lemma inv_unpack sv : check_inv_sv sv = true ->
  sorted_b (ments (active sv)) = true
  /\ (forall m, In m (sealed sv) -> sorted_b (ments m) = true)
  /\ (forall r, In r (all_runs (ver sv)) -> run_ok r = true)
  /\ recency_b (containers sv) = true.
Proof.
  unfold check_inv_sv. intros H.
  apply andb_true_iff in H. destruct H as [H Hrec].
  apply andb_true_iff in H. destruct H as [H _].
  apply andb_true_iff in H. destruct H as [H Hruns].
  apply andb_true_iff in H. destruct H as [H _].
  apply andb_true_iff in H. destruct H as [Ha Hs].
  repeat split; auto.
  - intros m Hm. rewrite forallb_forall in Hs. auto.
  - intros r Hr. rewrite forallb_forall in Hruns. auto.
Qed.

Lemma inv_table_ok sv t : check_inv_sv sv = true -> In t (all_tables (ver sv)) -> table_ok t = true.
Proof.
  intros H Ht. destruct (inv_unpack sv H) as (_ & _ & Hruns & _).
  unfold all_tables in Ht. apply in_concat in Ht. destruct Ht as (r & Hr & Ht).
  destruct (run_ok_facts r (Hruns r Hr)) as [HF _]. rewrite Forall_forall in HF. auto.
Qed.

Lemma inv_containers_sorted sv : check_inv_sv sv = true ->
  Forall (StronglySorted ikey_lt) (containers sv).
Proof.
  intros H. destruct (inv_unpack sv H) as (Ha & Hs & _ & _).
  unfold containers. constructor; [now apply rg_sorted_SS|].
  apply Forall_app. split; rewrite Forall_forall; intros l Hl; apply in_map_iff in Hl;
    destruct Hl as (x & <- & Hx).
  - apply rg_sorted_SS. apply Hs. now apply in_rev.
  - apply (table_ok_facts x). eapply inv_table_ok; eauto.
Qed.

Lemma recency_dcmp cs :
  Forall (StronglySorted ikey_lt) cs -> recency_b cs = true -> dcmp (concat cs).
Proof.
  induction 1 as [|c cs Hc HF IH]; intros Hr; [split; [constructor|contradiction]|].
  cbn [recency_b] in Hr. apply andb_true_iff in Hr. destruct Hr as [Hn Hr].
  cbn [concat]. apply dcmp_app; [now apply dcmp_sorted|now apply IH|].
  intros x y Hx Hy. apply in_concat in Hy. destruct Hy as (c' & Hc' & Hy).
  rewrite forallb_forall in Hn. specialize (Hn c' Hc'). unfold newer_than in Hn.
  rewrite forallb_forall in Hn. specialize (Hn x Hx).
  rewrite forallb_forall in Hn. specialize (Hn y Hy).
  apply cmp_of_newer. intros Ek. apply orb_true_iff in Hn. destruct Hn as [Hn|Hn].
  - apply negb_true_iff in Hn. key_prop. contradiction.
  - now apply N.ltb_lt.
Qed.

Lemma inv_dcmp sv : check_inv_sv sv = true -> dcmp (content sv).
Proof.
  intros H. apply recency_dcmp; [now apply inv_containers_sorted|].
  now destruct (inv_unpack sv H) as (_ & _ & _ & Hr).
Qed.

(** * 13. The sources of a scan *)

Lemma mt_source_eq l lo hi S :
  (forall e, In e l -> seq e <= MAX_SEQNO) ->
  sfilter S (mt_range l lo hi) = filter (PS lo hi S) l.
Proof.
  intros Hs. unfold sfilter, mt_range, seqno_filter, PS. rewrite <- rg_filter_and.
  apply filter_ext_in. intros e He. now rewrite bounds_widening by auto.
Qed.

Lemma mt_source_sorted l lo hi S :
  sorted_b l = true -> StronglySorted ikey_lt (sfilter S (mt_range l lo hi)).
Proof. intros H. unfold sfilter, mt_range. now apply rg_SS_filter, rg_SS_filter, rg_sorted_SS. Qed.

Definition run_srcs (lo hi : bound) (S : N) (rs : list run) : list (list entry) :=
  flat_map (fun r => match run_source r lo hi S with Some l => [l] | None => [] end) rs.

Lemma run_srcs_concat lo hi S rs :
  (forall r, In r rs -> run_ok r = true) ->
  concat (run_srcs lo hi S rs) = filter (PS lo hi S) (concat (map ents (concat rs))).
Proof.
  induction rs as [|r rs IH]; intros Hok; [reflexivity|].
  unfold run_srcs in *. cbn [flat_map concat]. rewrite concat_app, map_app, concat_app, filter_app.
  rewrite IH by (intros r' Hr'; apply Hok; right; exact Hr').
  f_equal. rewrite <- (run_source_exact r lo hi S) by (apply Hok; left; reflexivity).
  destruct (run_source r lo hi S); cbn [concat olist]; [apply app_nil_r|reflexivity].
Qed.

Lemma run_srcs_sorted lo hi S rs :
  (forall r, In r rs -> run_ok r = true) ->
  Forall (StronglySorted ikey_lt) (run_srcs lo hi S rs).
Proof.
  intros Hok. unfold run_srcs. rewrite Forall_forall. intros l Hl.
  apply in_flat_map in Hl. destruct Hl as (r & Hr & Hl).
  pose proof (run_source_exact r lo hi S (Hok r Hr)) as E.
  destruct (run_source r lo hi S) as [l'|]; [|contradiction].
  destruct Hl as [<-|[]]. cbn [olist] in E. rewrite E. apply rg_SS_filter.
  destruct (run_ok_facts r (Hok r Hr)). now apply run_concat_sorted.
Qed.

Lemma rg_filter_concat_map {A B} (p : B -> bool) (f : A -> list B) l :
  filter p (concat (map f l)) = concat (map (fun x => filter p (f x)) l).
Proof.
  induction l as [|x l IH]; [reflexivity|]. cbn [map concat]. now rewrite filter_app, IH.
Qed.

Lemma rg_perm_concat_rev {A B} (f : A -> list B) l :
  Permutation (concat (map f (rev l))) (concat (map f l)).
Proof.
  induction l as [|x l IH]; [apply Permutation_refl|].
  cbn [rev map concat]. rewrite map_app, concat_app. cbn [map concat]. rewrite app_nil_r.
  eapply perm_trans; [apply Permutation_app_comm|]. now apply Permutation_app_head.
Qed.

(** the overlay part of a scan: (entries, its snapshot seqno) *)
Definition eph_ov (eph : option (memtable * N)) : list entry * N :=
  match eph with Some (m, so) => (ments m, so) | None => ([], 0) end.

Definition eph_ok (sv : superversion) (eph : option (memtable * N)) : Prop :=
  match eph with
  | None => True
  | Some (m, so) =>
      sorted_b (ments m) = true
      /\ (forall e, In e (ments m) -> seq e < MAX_SEQNO)
      /\ (forall x y, In x (ments m) -> In y (content sv) -> seq y < seq x)
  end.

Lemma range_sources_perm sv eph lo hi S :
  check_inv_sv sv = true -> (forall e, In e (content sv) -> seq e < MAX_SEQNO) ->
  eph_ok sv eph ->
  Permutation (concat (range_sources sv eph lo hi S))
    (filter (PS lo hi (snd (eph_ov eph))) (fst (eph_ov eph)) ++ filter (PS lo hi S) (content sv)).
Proof.
  intros Hinv Hmax Heph. destruct (inv_unpack sv Hinv) as (_ & _ & Hruns & _).
  unfold range_sources. fold (run_srcs lo hi S (all_runs (ver sv))).
  rewrite !concat_app, (run_srcs_concat lo hi S _ Hruns).
  fold (all_tables (ver sv)).
  assert (Hc : forall l, In l (containers sv) -> forall e, In e l -> seq e <= MAX_SEQNO).
  { intros l Hl e He. apply N.lt_le_incl. apply Hmax. unfold content. apply in_concat. eauto. }
  assert (Ea : sfilter S (mt_range (ments (active sv)) lo hi) = filter (PS lo hi S) (ments (active sv))).
  { apply mt_source_eq. apply Hc. left. reflexivity. }
  assert (Es : map (fun m => sfilter S (mt_range (ments m) lo hi)) (sealed sv)
               = map (fun m => filter (PS lo hi S) (ments m)) (sealed sv)).
  { apply map_ext_in. intros m Hm. apply mt_source_eq. apply Hc. right.
    apply in_or_app. left. apply in_map. now apply in_rev in Hm. }
  rewrite Es. cbn [concat]. rewrite Ea, app_nil_r.
  assert (Eo : concat match eph with
                      | Some (m, s) => [sfilter s (mt_range (ments m) lo hi)]
                      | None => []
                      end = filter (PS lo hi (snd (eph_ov eph))) (fst (eph_ov eph))).
  { destruct eph as [[m so]|]; [|reflexivity]. cbn [concat eph_ov fst snd]. rewrite app_nil_r.
    apply mt_source_eq. intros e He. apply N.lt_le_incl. now apply Heph. }
  rewrite Eo. unfold content, containers. cbn [concat].
  rewrite concat_app, !filter_app.
  set (T := filter (PS lo hi S) (concat (map ents (all_tables (ver sv))))).
  set (A := filter (PS lo hi S) (ments (active sv))).
  set (O := filter (PS lo hi (snd (eph_ov eph))) (fst (eph_ov eph))).
  rewrite rg_filter_concat_map.
  set (Sd := concat (map (fun m => filter (PS lo hi S) (ments m)) (sealed sv))).
  set (Sd' := concat (map (fun m => filter (PS lo hi S) (ments m)) (rev (sealed sv)))).
  assert (HSd : Permutation Sd Sd') by (apply Permutation_sym; apply rg_perm_concat_rev).
  eapply perm_trans; [apply Permutation_app_comm|].
  rewrite (app_assoc O), (app_assoc (O ++ A)). apply Permutation_app_tail.
  eapply perm_trans; [apply Permutation_app_comm|].
  apply Permutation_app; [apply Permutation_app_comm|exact HSd].
Qed.

Lemma range_sources_sorted sv eph lo hi S :
  check_inv_sv sv = true -> eph_ok sv eph ->
  Forall (StronglySorted ikey_lt) (range_sources sv eph lo hi S).
Proof.
  intros Hinv Heph. destruct (inv_unpack sv Hinv) as (Ha & Hs & Hruns & _).
  unfold range_sources. fold (run_srcs lo hi S (all_runs (ver sv))).
  apply Forall_app. split; [now apply run_srcs_sorted|].
  apply Forall_app. split.
  - rewrite Forall_forall. intros l Hl. apply in_map_iff in Hl. destruct Hl as (m & <- & Hm).
    apply mt_source_sorted. auto.
  - constructor; [now apply mt_source_sorted|].
    destruct eph as [[m so]|]; [|constructor].
    constructor; [|constructor]. apply mt_source_sorted. apply Heph.
Qed.

(** * 14. Main theorems *)

(** general form: any interleaving of next / next_back over a superversion with an
    optional overlay memtable yields, from either end, the Spec's per-key answers *)
Theorem range_exact_gen sv eph lo hi S ps :
  check_inv_sv sv = true ->
  (forall e, In e (content sv) -> seq e < MAX_SEQNO) ->
  eph_ok sv eph ->
  sv_range_run sv eph lo hi S ps =
  deque_run (spec_list (overlay_get (fst (eph_ov eph)) (content sv) (snd (eph_ov eph)) S)
                       lo hi (keys_of (fst (eph_ov eph) ++ content sv))) ps.
Proof.
  intros Hinv Hmax Heph.
  set (ov := fst (eph_ov eph)). set (so := snd (eph_ov eph)).
  pose proof (range_sources_perm sv eph lo hi S Hinv Hmax Heph) as HP.
  fold ov so in HP.
  pose proof (range_sources_sorted sv eph lo hi S Hinv Heph) as HSs.
  pose proof (inv_dcmp sv Hinv) as Dc.
  assert (Dov : dcmp ov).
  { subst ov. destruct eph as [[m s]|]; cbn [eph_ov fst].
    - apply dcmp_sorted. apply rg_sorted_SS. apply Heph.
    - split; [constructor|contradiction]. }
  assert (Hnew : forall x y, In x ov -> In y (content sv) -> seq y < seq x).
  { subst ov. destruct eph as [[m s]|]; cbn [eph_ov fst]; [apply Heph|contradiction]. }
  assert (Dall : dcmp (concat (range_sources sv eph lo hi S))).
  { eapply dcmp_perm; [apply Permutation_sym; exact HP|].
    apply dcmp_app; [now apply dcmp_filter|now apply dcmp_filter|].
    intros x y Hx Hy. apply filter_In in Hx, Hy. apply cmp_of_newer. intros _.
    apply Hnew; tauto. }
  destruct (rg_isort_spec _ Dall) as [HSL HPL].
  set (L := rg_isort (concat (range_sources sv eph lo hi S))) in *.
  unfold sv_range_run, tree_iter_new, range_fuel.
  rewrite (pipeline_deque _ L _ ps HSs HSL HPL)
    by (rewrite (Permutation_length HPL); lia).
  f_equal. apply scan_equals_spec; auto using dcmp_uniq.
  intros e. unfold PS in HP. split.
  - intros He. eapply Permutation_in in He; [|exact HPL].
    eapply Permutation_in in He; [|exact HP]. now apply in_app_or in He.
  - intros He. eapply Permutation_in; [apply Permutation_sym; exact HPL|].
    eapply Permutation_in; [apply Permutation_sym; exact HP|]. now apply in_or_app.
Qed.

(** MAIN: without overlay, any interleaving of next / next_back yields exactly the live
    pairs of the ordered-map Spec inside the bounds, each once, ascending from the front
    and descending from the back *)
Theorem range_exact : forall sv lo hi S ps, check_inv_sv sv = true ->
  (forall e, In e (content sv) -> seq e < MAX_SEQNO) ->
  sv_range_run sv None lo hi S ps = deque_run (spec_range (content sv) lo hi S) ps.
Proof.
  intros sv lo hi S ps Hinv Hmax.
  rewrite (range_exact_gen sv None lo hi S ps Hinv Hmax I). reflexivity.
Qed.

Lemma live_out_length L : (length (live_out L) <= length L)%nat.
Proof.
  unfold live_out. eapply Nat.le_trans with (m := length (heads L)).
  - induction (heads L) as [|x l IH]; cbn [filter length]; [lia|].
    destruct (nt x); cbn [length]; lia.
  - unfold heads. generalize (@None key). induction L as [|x L IH]; intros p; [cbn; lia|].
    cbn [heads_from length]. specialize (IH (Some (ukey x))).
    destruct p as [k|]; [destruct (key_eqb k (ukey x))|]; cbn [length]; lia.
Qed.

Lemma deque_run_front_all l : forall n, (length l < n)%nat ->
  deque_run l (repeat Front n) = map Some l ++ repeat None (n - length l).
Proof.
  induction l as [|x l IH]; intros n Hn.
  - cbn [length map app]. rewrite Nat.sub_0_r. clear Hn.
    induction n as [|n IHn]; [reflexivity|]. cbn [repeat deque_run ohd tl]. now rewrite IHn.
  - destruct n as [|n]; [cbn in Hn; lia|]. cbn [repeat deque_run ohd tl length map app Nat.sub].
    f_equal. apply IH. cbn [length] in Hn. lia.
Qed.

Theorem range_exact_front sv lo hi S : check_inv_sv sv = true ->
  (forall e, In e (content sv) -> seq e < MAX_SEQNO) ->
  sv_range sv lo hi S = spec_range (content sv) lo hi S.
Proof.
  intros Hinv Hmax. unfold sv_range.
  pose proof (range_sources_perm sv None lo hi S Hinv Hmax I) as HP.
  pose proof (range_sources_sorted sv None lo hi S Hinv I) as HSs.
  pose proof (inv_dcmp sv Hinv) as Dc.
  assert (Dall : dcmp (concat (range_sources sv None lo hi S))).
  { eapply dcmp_perm; [apply Permutation_sym; exact HP|]. cbn [eph_ov fst snd filter app].
    now apply dcmp_filter. }
  destruct (rg_isort_spec _ Dall) as [HSL HPL].
  set (L := rg_isort (concat (range_sources sv None lo hi S))) in *.
  assert (Hlen : (length L < range_fuel sv None lo hi S)%nat).
  { unfold range_fuel. rewrite (Permutation_length HPL). lia. }
  rewrite (collect_front_TR _ _ _ (live_out L)).
  - rewrite spec_range_list.
    change (spec_list (fun k => spec_get (content sv) k S) lo hi (keys_of (content sv)))
      with (spec_list (overlay_get [] (content sv) 0 S) lo hi (keys_of ([] ++ content sv))).
    apply scan_equals_spec; auto using dcmp_uniq.
    + intros e1 e2 [].
    + contradiction.
    + intros e. cbn [eph_ov fst snd filter app] in HP. unfold PS in HP. split.
      * intros He. right. eapply Permutation_in; [exact HP|]. eapply Permutation_in; eauto.
      * intros [[]|He]. eapply Permutation_in; [apply Permutation_sym; exact HPL|].
        eapply Permutation_in; [apply Permutation_sym; exact HP|]. exact He.
  - unfold tree_iter_new. now apply tree_iter_TR.
  - eapply Nat.le_lt_trans; [apply live_out_length|exact Hlen].
Qed.

Theorem range_exact_back sv lo hi S n : check_inv_sv sv = true ->
  (forall e, In e (content sv) -> seq e < MAX_SEQNO) ->
  sv_range_run sv None lo hi S (repeat Back n) =
  deque_run (spec_range (content sv) lo hi S) (repeat Back n).
Proof. intros. now apply range_exact. Qed.

Lemma newest_snapshot_irrelevant k S S' l :
  (forall e, In e l -> seq e < S) -> S <= S' -> newest k S l = newest k S' l.
Proof.
  intros Hall Hle. induction l as [|e l IH]; [reflexivity|]. cbn [newest].
  rewrite IH by (intros x Hx; apply Hall; right; exact Hx).
  assert (E : matches k S e = matches k S' e).
  { unfold matches. f_equal. specialize (Hall e (or_introl eq_refl)).
    destruct (N.ltb_spec (seq e) S), (N.ltb_spec (seq e) S'); try reflexivity; lia. }
  now rewrite E.
Qed.

(** overlay: an overlay memtable newer than everything in the tree, read at its own
    snapshot seqno [so], shadows the tree key by key *)
Theorem overlay_shadows sv m so lo hi S ps :
  check_inv_sv sv = true ->
  (forall e, In e (content sv) -> seq e < MAX_SEQNO) ->
  sorted_b (ments m) = true ->
  (forall e, In e (ments m) -> seq e < MAX_SEQNO) ->
  (forall x y, In x (ments m) -> In y (content sv) -> seq y < seq x) ->
  sv_range_run sv (Some (m, so)) lo hi S ps =
  deque_run (spec_list (overlay_get (ments m) (content sv) so S) lo hi
                       (keys_of (ments m ++ content sv))) ps.
Proof.
  intros Hinv Hmax Hs Hm Hnew.
  apply (range_exact_gen sv (Some (m, so)) lo hi S ps Hinv Hmax). cbn. auto.
Qed.

(** ... and when the tree snapshot sees the whole tree and is not above the overlay's,
    that is the Spec over [ments overlay ++ content sv] at the overlay's snapshot *)
Corollary overlay_shadows_spec sv m so lo hi S ps :
  check_inv_sv sv = true ->
  (forall e, In e (content sv) -> seq e < MAX_SEQNO) ->
  sorted_b (ments m) = true ->
  (forall e, In e (ments m) -> seq e < MAX_SEQNO) ->
  (forall x y, In x (ments m) -> In y (content sv) -> seq y < seq x) ->
  (forall e, In e (content sv) -> seq e < S) -> S <= so ->
  sv_range_run sv (Some (m, so)) lo hi S ps =
  deque_run (spec_range (ments m ++ content sv) lo hi so) ps.
Proof.
  intros Hinv Hmax Hs Hm Hnew Hall Hle.
  rewrite (overlay_shadows sv m so lo hi S ps Hinv Hmax Hs Hm Hnew).
  f_equal. rewrite spec_range_list. unfold spec_list. apply flat_map_ext. intros k.
  destruct (in_bounds lo hi k); [|reflexivity]. f_equal.
  unfold overlay_get, spec_get. f_equal.
  pose proof (inv_dcmp sv Hinv) as Dc.
  assert (Dm : dcmp (ments m)) by (apply dcmp_sorted; now apply rg_sorted_SS).
  assert (U : uniq (ments m ++ content sv)).
  { apply dcmp_uniq. apply dcmp_app; auto. intros x y Hx Hy. apply cmp_of_newer.
    intros _. now apply Hnew. }
  rewrite (newest_app k so (ments m) (content sv) U).
  - destruct (newest k so (ments m)); [reflexivity|].
    apply newest_snapshot_irrelevant; auto.
  - intros e e' He He' _ _. now apply Hnew.
Qed.


(** * 15. Corollaries (abstract_tree.rs) *)

Corollary range_exact_front_run sv lo hi S n : check_inv_sv sv = true ->
  (forall e, In e (content sv) -> seq e < MAX_SEQNO) ->
  (length (spec_range (content sv) lo hi S) < n)%nat ->
  sv_range_run sv None lo hi S (repeat Front n) =
  map Some (spec_range (content sv) lo hi S)
  ++ repeat None (n - length (spec_range (content sv) lo hi S)).
Proof. intros Hinv Hmax Hn. rewrite range_exact by assumption. now apply deque_run_front_all. Qed.

(** first_key_value = the Spec's smallest live pair *)
Corollary first_key_value sv S : check_inv_sv sv = true ->
  (forall e, In e (content sv) -> seq e < MAX_SEQNO) ->
  sv_first_key_value sv None S = ohd (spec_range (content sv) Unb Unb S).
Proof.
  intros Hinv Hmax. unfold sv_first_key_value. rewrite range_exact by assumption.
  cbn [deque_run]. destruct (ohd _); reflexivity.
Qed.

(** last_key_value = the Spec's largest live pair *)
Corollary last_key_value sv S : check_inv_sv sv = true ->
  (forall e, In e (content sv) -> seq e < MAX_SEQNO) ->
  sv_last_key_value sv None S = olast (spec_range (content sv) Unb Unb S).
Proof.
  intros Hinv Hmax. unfold sv_last_key_value. rewrite range_exact by assumption.
  cbn [deque_run]. destruct (olast _); reflexivity.
Qed.

Corollary len sv S : check_inv_sv sv = true ->
  (forall e, In e (content sv) -> seq e < MAX_SEQNO) ->
  sv_len sv S = length (spec_range (content sv) Unb Unb S).
Proof. intros Hinv Hmax. unfold sv_len. now rewrite range_exact_front. Qed.

Corollary is_empty sv S : check_inv_sv sv = true ->
  (forall e, In e (content sv) -> seq e < MAX_SEQNO) ->
  (sv_is_empty sv None S = true <-> spec_range (content sv) Unb Unb S = []).
Proof.
  intros Hinv Hmax. unfold sv_is_empty. rewrite first_key_value by assumption.
  destruct (spec_range (content sv) Unb Unb S); cbn [ohd]; split; congruence.
Qed.

(** ... with an overlay (the [index] argument of these functions) *)
Corollary first_key_value_overlay sv m so S : check_inv_sv sv = true ->
  (forall e, In e (content sv) -> seq e < MAX_SEQNO) ->
  sorted_b (ments m) = true -> (forall e, In e (ments m) -> seq e < MAX_SEQNO) ->
  (forall x y, In x (ments m) -> In y (content sv) -> seq y < seq x) ->
  sv_first_key_value sv (Some (m, so)) S =
  ohd (spec_list (overlay_get (ments m) (content sv) so S) Unb Unb (keys_of (ments m ++ content sv))).
Proof.
  intros Hinv Hmax Hs Hm Hnew. unfold sv_first_key_value.
  rewrite overlay_shadows by assumption. cbn [deque_run]. destruct (ohd _); reflexivity.
Qed.

(** the pairs handed to the caller by Tree::create_range *)
Corollary range_exact_kv sv lo hi S : check_inv_sv sv = true ->
  (forall e, In e (content sv) -> seq e < MAX_SEQNO) ->
  map kv_of (sv_range sv lo hi S) = map kv_of (spec_range (content sv) lo hi S).
Proof. intros. now rewrite range_exact_front. Qed.

(** * 16. Examples and replayed unit tests *)

Module RangeExamples.
  Definition E (k : N) (s : N) (t : vtype) (v : N) : entry := mkE [k] s t [v].
  Definition a := 97. Definition b := 98. Definition c := 99. Definition d := 100.
  Definition e_ := 101.

  (** a table with the metadata its entries imply *)
  Definition mk_table (id : N) (l : list entry) : table :=
    match l with
    | [] => mkT id 0 [] [] [] 0 0 0 0 0
    | e0 :: _ => mkT id 0 l (ukey e0) (ukey (last l e0)) (min_seq l) (max_seq l)
                     (N.of_nat (length l)) (count_b is_tomb l) (count_b is_weak l)
    end.

  Definition t1 := mk_table 1 [E a 1 Value 1; E b 2 Tomb 0; E b 1 Value 2].
  Definition t2 := mk_table 2 [E c 3 Value 3; E c 2 Value 2; E d 1 Value 9].
  Definition t3 := mk_table 3 [E e_ 2 Value 3; E e_ 1 Tomb 0].
  Definition t4 := mk_table 4 [E a 5 Tomb 0; E d 4 Value 7].

  (** L0 holds a single-table run, L1 a three-table run *)
  Definition sv_ex : superversion :=
    mkSV 100 (mkM 3 [E a 9 Value 4; E c 10 Tomb 0])
      [mkM 1 [E b 6 Value 5; E c 7 Value 1]; mkM 2 [E b 8 WeakTomb 0; E e_ 8 Value 8]]
      (mkV 0 [[[t4]]; [[t1; t2; t3]]; []; []; []; []; []]).

  Example sv_ex_inv : check_inv_sv sv_ex = true.
  Proof. vm_compute. reflexivity. Qed.

  Example sv_ex_seqs : forall e, In e (content sv_ex) -> seq e < MAX_SEQNO.
  Proof.
    assert (H : forallb (fun e => seq e <? MAX_SEQNO) (content sv_ex) = true)
      by (vm_compute; reflexivity).
    rewrite forallb_forall in H. intros e He. apply N.ltb_lt. auto.
  Qed.

  (** an instance of [range_exact], computed on both sides *)
  Example range_exact_instance_1 :
    sv_range_run sv_ex None Unb Unb 100 [Front; Back; Back; Front; Back]
    = [Some (E a 9 Value 4); Some (E e_ 8 Value 8); Some (E d 4 Value 7); None; None]
    /\ deque_run (spec_range (content sv_ex) Unb Unb 100) [Front; Back; Back; Front; Back]
    = [Some (E a 9 Value 4); Some (E e_ 8 Value 8); Some (E d 4 Value 7); None; None].
  Proof. split; vm_compute; reflexivity. Qed.

  (** an older snapshot and a bounded range: b@6 is live at snapshot 8, c@7 too *)
  Example range_exact_instance_2 :
    sv_range_run sv_ex None (Excl [a]) (Incl [d]) 8 [Back; Front; Front; Back]
    = [Some (E d 4 Value 7); Some (E b 6 Value 5); Some (E c 7 Value 1); None]
    /\ spec_range (content sv_ex) (Excl [a]) (Incl [d]) 8
       = [E b 6 Value 5; E c 7 Value 1; E d 4 Value 7].
  Proof. split; vm_compute; reflexivity. Qed.

  (** inverted range: nothing, no panic *)
  Example range_inverted : sv_range_run sv_ex None (Incl [d]) (Incl [b]) 100 [Front; Back] = [None; None].
  Proof. vm_compute. reflexivity. Qed.

  (** an overlay memtable newer than the tree: deletes a, overwrites d, adds [102] *)
  Definition ov_ex : memtable := mkM 9 [E a 50 Tomb 0; E d 51 Value 70; E 102 52 Value 71].

  Example ov_ex_ok :
    sorted_b (ments ov_ex) = true
    /\ forallb (fun x => forallb (fun y => seq y <? seq x) (content sv_ex)) (ments ov_ex) = true
    /\ forallb (fun e => seq e <? MAX_SEQNO) (ments ov_ex) = true.
  Proof. repeat split; vm_compute; reflexivity. Qed.

  Example overlay_instance :
    sv_range_run sv_ex (Some (ov_ex, MAX_SEQNO)) Unb Unb 100 [Front; Front; Front; Front]
    = [Some (E d 51 Value 70); Some (E e_ 8 Value 8); Some (E 102 52 Value 71); None]
    /\ spec_range (ments ov_ex ++ content sv_ex) Unb Unb MAX_SEQNO
       = [E d 51 Value 70; E e_ 8 Value 8; E 102 52 Value 71].
  Proof. split; vm_compute; reflexivity. Qed.

  Example corollaries_instance :
    sv_first_key_value sv_ex None 100 = Some (E a 9 Value 4)
    /\ sv_last_key_value sv_ex None 100 = Some (E e_ 8 Value 8)
    /\ sv_len sv_ex 100 = 3%nat /\ sv_is_empty sv_ex None 100 = false
    /\ sv_is_empty sv_ex None 1 = true.
  Proof. repeat split; vm_compute; reflexivity. Qed.

  (** bounds_widening on concrete probes *)
  Example widening_instance :
    map (ikey_in_range (Incl [b]) (Excl [d])) [E a 1 Value 0; E b 9 Value 0; E b 0 Value 0; E c 5 Tomb 0; E d 0 Value 0]
    = [false; true; true; true; false].
  Proof. vm_compute. reflexivity. Qed.

  (** *** mvcc_stream.rs unit tests, over a plain vector iterator *)
  Definition vec_next (fuel : nat) (st : dep (list entry)) :=
    mvcc_next (list entry) src_next fuel st.
  Definition vec_next_back (fuel : nat) (st : dep (list entry)) :=
    mvcc_next_back (list entry) src_next_back fuel st.

  Fixpoint vec_pulls (fuel : nat) (st : dep (list entry)) (ps : list pull) : list (option entry) :=
    match ps with
    | [] => []
    | p :: ps' =>
        let (o, st') := match p with Front => vec_next fuel st | Back => vec_next_back fuel st end in
        o :: vec_pulls fuel st' ps'
    end.

  Definition mvcc_run (v : list entry) (ps : list pull) : list (option entry) :=
    vec_pulls (S (length v)) (mkDep v Unpeeked Unpeeked) ps.

  Fixpoint somes (l : list (option entry)) : list entry :=
    match l with [] => [] | Some x :: l' => x :: somes l' | None :: l' => somes l' end.

  (** test_reverse!: forwards reversed = backwards *)
  Definition test_reverse (v : list entry) : Prop :=
    rev (somes (mvcc_run v (repeat Front (S (length v)))))
    = somes (mvcc_run v (repeat Back (S (length v)))).

  (** mvcc_queue_reverse_almost_gone *)
  Definition v_almost_gone : list entry :=
    [E a 0 Value a; E b 1 Tomb 0; E b 0 Value b; E c 1 Tomb 0; E c 0 Value c;
     E d 1 Tomb 0; E d 0 Value d; E e_ 1 Tomb 0; E e_ 0 Value e_].

  Example mvcc_queue_reverse_almost_gone :
    mvcc_run v_almost_gone [Front; Front; Front; Front; Front; Front; Back]
    = [Some (E a 0 Value a); Some (E b 1 Tomb 0); Some (E c 1 Tomb 0); Some (E d 1 Tomb 0);
       Some (E e_ 1 Tomb 0); None; None]
    /\ test_reverse v_almost_gone.
  Proof. split; vm_compute; reflexivity. Qed.

  (** mvcc_stream_simple_multi_keys (the stream! macro counts seqnos down from 999) *)
  Definition v_multi : list entry :=
    [E a 999 Value 1; E a 998 Value 0; E b 999 Value 1; E b 998 Value 0;
     E c 999 Value 2; E c 998 Value 1; E c 997 Value 0].

  Example mvcc_stream_simple_multi_keys :
    mvcc_run v_multi [Front; Front; Front; Front; Back]
    = [Some (E a 999 Value 1); Some (E b 999 Value 1); Some (E c 999 Value 2); None; None]
    /\ test_reverse v_multi.
  Proof. split; vm_compute; reflexivity. Qed.

  (** mvcc_stream_tombstone *)
  Definition v_tomb : list entry := [E a 999 Tomb 0; E a 998 Value 0].

  Example mvcc_stream_tombstone :
    mvcc_run v_tomb [Front; Front; Back] = [Some (E a 999 Tomb 0); None; None]
    /\ test_reverse v_tomb.
  Proof. split; vm_compute; reflexivity. Qed.

  (** the two ends meeting inside one key's slab *)
  Example mvcc_meet_in_slab :
    mvcc_run [E a 1 Value 0; E b 3 Value 3; E b 2 Value 2; E b 1 Value 1] [Front; Back; Front; Back]
    = [Some (E a 1 Value 0); Some (E b 3 Value 3); None; None]
    /\ mvcc_run [E a 1 Value 0; E b 3 Value 3; E b 2 Value 2; E b 1 Value 1; E c 1 Value 0]
                [Front; Back; Front; Front; Back]
       = [Some (E a 1 Value 0); Some (E c 1 Value 0); Some (E b 3 Value 3); None; None].
  Proof. split; vm_compute; reflexivity. Qed.

  (** *** merge.rs: merge_simple, plus a two-ended interleaving *)
  Example merge_simple :
    let m0 := merger_new [[E a 0 Value 0]; [E b 0 Value 0]] in
    let (o1, m1) := merge_next m0 in
    let (o2, m2) := merge_next m1 in
    let (o3, _) := merge_next m2 in
    [o1; o2; o3] = [Some (E a 0 Value 0); Some (E b 0 Value 0); None].
  Proof. vm_compute. reflexivity. Qed.

  Example merge_interleaved :
    let m0 := merger_new [[E a 3 Value 0; E c 1 Value 0; E d 7 Value 0]; [E b 2 Value 0]; []] in
    let (o1, m1) := merge_next_back m0 in
    let (o2, m2) := merge_next m1 in
    let (o3, m3) := merge_next m2 in
    let (o4, m4) := merge_next_back m3 in
    let (o5, _) := merge_next m4 in
    [o1; o2; o3; o4; o5]
    = [Some (E d 7 Value 0); Some (E a 3 Value 0); Some (E b 2 Value 0); Some (E c 1 Value 0); None].
  Proof. vm_compute. reflexivity. Qed.

  (** *** version/run.rs: run_range_culling *)
  Definition fake (id mn mx : N) : table := mkT id 0 [] [mn] [mx] 0 0 0 0 0.
  Definition run4 : run := [fake 0 97 100; fake 1 101 106; fake 2 107 111; fake 3 112 122].

  Example run_range_culling :
    range_overlap_indexes run4 Unb Unb = Some (0, 3)%nat
    /\ range_overlap_indexes run4 (Incl [97]) (Incl [97]) = Some (0, 0)%nat
    /\ range_overlap_indexes run4 (Incl [97]) (Excl [100]) = Some (0, 0)%nat
    /\ range_overlap_indexes run4 (Incl [97]) (Incl [103]) = Some (0, 1)%nat
    /\ range_overlap_indexes run4 (Incl [106]) (Incl [106]) = Some (1, 1)%nat
    /\ range_overlap_indexes run4 (Incl [122]) (Incl [122; 122; 122]) = Some (3, 3)%nat
    /\ range_overlap_indexes run4 (Incl [122]) Unb = Some (3, 3)%nat
    /\ range_overlap_indexes run4 (Incl [122; 122; 122]) (Incl [122; 122; 122; 122]) = None.
  Proof. repeat split; vm_compute; reflexivity. Qed.
End RangeExamples.


(** * 16b. RunReader (run_reader.rs) is a deque over [run_reader_items]

    The Merger model consumes every source as a list popped from either end.  For a
    multi-table run the real source is RunReader's lo/hi state machine; this section
    shows the two coincide for every interleaving, so the list view loses nothing. *)

Lemma rg_skipn_nth_cons {A} (l : list A) : forall n x,
  nth_error l n = Some x -> skipn n l = x :: skipn (S n) l.
Proof.
  induction l as [|y l IH]; intros n x H; [destruct n; discriminate|].
  destruct n as [|n]; cbn in *; [now inversion H|]. now apply IH.
Qed.

Lemma rg_nth_error_skipn {A} (l : list A) : forall n k,
  nth_error (skipn n l) k = nth_error l (n + k).
Proof.
  induction l as [|y l IH]; intros n k.
  - rewrite skipn_nil. destruct k, n; reflexivity.
  - destruct n as [|n]; [reflexivity|]. cbn [skipn Nat.add nth_error]. apply IH.
Qed.

Lemma rg_firstn_S_snoc {A} (l : list A) : forall k x,
  nth_error l k = Some x -> firstn (S k) l = firstn k l ++ [x].
Proof.
  induction l as [|y l IH]; intros k x H; [destruct k; discriminate|].
  destruct k as [|k]; cbn in *; [now inversion H|]. f_equal. now apply IH.
Qed.

Lemma rg_nth_error_lt {A} (l : list A) n : (n < length l)%nat -> exists x, nth_error l n = Some x.
Proof.
  intros H. destruct (nth_error l n) as [x|] eqn:E; [eauto|].
  apply nth_error_None in E. lia.
Qed.

Lemma mid_tables_nil r lo hi : (hi <= S lo)%nat -> mid_tables r lo hi = [].
Proof.
  intros H. unfold mid_tables. replace (hi - lo - 1)%nat with O by lia. reflexivity.
Qed.

Lemma mid_tables_front r lo hi :
  (S lo < hi)%nat -> (hi <= length r)%nat ->
  concat (map ents (mid_tables r lo hi)) =
  tbl_iter_at r (S lo) ++ concat (map ents (mid_tables r (S lo) hi)).
Proof.
  intros H1 H2. unfold mid_tables, tbl_iter_at.
  destruct (rg_nth_error_lt r (S lo)) as (t & Et); [lia|]. rewrite Et.
  rewrite (rg_skipn_nth_cons r (S lo) t Et).
  replace (hi - lo - 1)%nat with (S (hi - S lo - 1)) by lia. reflexivity.
Qed.

Lemma mid_tables_back r lo hi :
  (S lo < hi)%nat -> (hi <= length r)%nat ->
  concat (map ents (mid_tables r lo hi)) =
  concat (map ents (mid_tables r lo (hi - 1))) ++ tbl_iter_at r (hi - 1).
Proof.
  intros H1 H2. unfold mid_tables, tbl_iter_at.
  destruct (rg_nth_error_lt r (hi - 1)) as (t & Et); [lia|]. rewrite Et.
  replace (hi - lo - 1)%nat with (S (hi - 1 - lo - 1)) by lia.
  rewrite (rg_firstn_S_snoc _ _ t).
  - rewrite map_app, concat_app. cbn [map concat]. now rewrite app_nil_r.
  - rewrite rg_nth_error_skipn. replace (S lo + (hi - 1 - lo - 1))%nat with (hi - 1)%nat by lia.
    exact Et.
Qed.

(** what a RunReader still holds *)
Definition RRI (s : run_reader) (l : list entry) : Prop :=
  match rr_lo_reader s, rr_hi_reader s with
  | Some a, Some b =>
      (rr_lo s < rr_hi s)%nat /\ (rr_hi s <= length (rr_run s))%nat
      /\ l = a ++ concat (map ents (mid_tables (rr_run s) (rr_lo s) (rr_hi s))) ++ b
  | Some a, None => (rr_hi s <= rr_lo s)%nat /\ l = a
  | None, Some b => (rr_hi s <= rr_lo s)%nat /\ l = b
  | None, None => l = []
  end.

(** bound on the number of loop turns *)
Definition rr_mu (s : run_reader) : nat :=
  match rr_lo_reader s, rr_hi_reader s with
  | Some _, Some _ => (rr_hi s - rr_lo s + 2)%nat
  | Some _, None => 2%nat
  | None, Some _ => 2%nat
  | None, None => 1%nat
  end.

Lemma rr_next_spec fuel : forall s l, RRI s l -> (rr_mu s <= fuel)%nat ->
  exists s', rr_next fuel s = (ohd l, s') /\ RRI s' (tl l) /\ (rr_mu s' <= rr_mu s)%nat.
Proof.
  induction fuel as [|fuel IH]; intros [r lo hi lr hr] l H Hmu.
  { unfold rr_mu in Hmu. cbn in Hmu. destruct lr, hr; lia. }
  unfold RRI, rr_mu in H, Hmu. cbn [rr_run rr_lo rr_hi rr_lo_reader rr_hi_reader] in H, Hmu.
  cbn [rr_next rr_run rr_lo rr_hi rr_lo_reader rr_hi_reader].
  destruct lr as [a|], hr as [b|].
  - destruct H as (Hlt & Hlen & ->). destruct a as [|x a']; cbn [src_next].
    + destruct (Nat.ltb_spec (S lo) hi) as [Hlt'|Hge].
      * destruct (IH (mkRR r (S lo) hi (Some (tbl_iter_at r (S lo))) (Some b))
                     ([] ++ concat (map ents (mid_tables r lo hi)) ++ b)) as (s' & E & H' & Hm).
        { unfold RRI. cbn [rr_run rr_lo rr_hi rr_lo_reader rr_hi_reader].
          repeat split; auto. cbn [app]. rewrite mid_tables_front by assumption.
          now rewrite app_assoc. }
        { unfold rr_mu. cbn [rr_run rr_lo rr_hi rr_lo_reader rr_hi_reader]. lia. }
        exists s'. split; [exact E|]. split; [exact H'|].
        unfold rr_mu in *. cbn [rr_run rr_lo rr_hi rr_lo_reader rr_hi_reader] in *. lia.
      * destruct (IH (mkRR r (S lo) hi None (Some b))
                     ([] ++ concat (map ents (mid_tables r lo hi)) ++ b)) as (s' & E & H' & Hm).
        { unfold RRI. cbn [rr_run rr_lo rr_hi rr_lo_reader rr_hi_reader].
          split; [lia|]. now rewrite mid_tables_nil by lia. }
        { unfold rr_mu. cbn [rr_run rr_lo rr_hi rr_lo_reader rr_hi_reader]. lia. }
        exists s'. split; [exact E|]. split; [exact H'|].
        unfold rr_mu in *. cbn [rr_run rr_lo rr_hi rr_lo_reader rr_hi_reader] in *. lia.
    + eexists. split; [reflexivity|]. split.
      * unfold RRI. cbn [rr_run rr_lo rr_hi rr_lo_reader rr_hi_reader tl app]. auto.
      * unfold rr_mu. cbn [rr_run rr_lo rr_hi rr_lo_reader rr_hi_reader]. lia.
  - destruct H as (Hle & ->). destruct a as [|x a']; cbn [src_next].
    + destruct (Nat.ltb_spec (S lo) hi) as [Hlt'|Hge]; [lia|].
      destruct (IH (mkRR r (S lo) hi None None) []) as (s' & E & H' & Hm).
      { reflexivity. }
      { unfold rr_mu. cbn. lia. }
      exists s'. split; [exact E|]. split; [exact H'|].
      unfold rr_mu in *. cbn [rr_run rr_lo rr_hi rr_lo_reader rr_hi_reader] in *. lia.
    + eexists. split; [reflexivity|]. split.
      * unfold RRI. cbn [rr_run rr_lo rr_hi rr_lo_reader rr_hi_reader tl]. auto.
      * unfold rr_mu. cbn [rr_run rr_lo rr_hi rr_lo_reader rr_hi_reader]. lia.
  - destruct H as (Hle & ->). destruct b as [|x b']; cbn [src_next].
    + eexists. split; [reflexivity|]. split.
      * unfold RRI. cbn [rr_run rr_lo rr_hi rr_lo_reader rr_hi_reader tl]. auto.
      * unfold rr_mu. cbn [rr_run rr_lo rr_hi rr_lo_reader rr_hi_reader]. lia.
    + eexists. split; [reflexivity|]. split.
      * unfold RRI. cbn [rr_run rr_lo rr_hi rr_lo_reader rr_hi_reader tl]. auto.
      * unfold rr_mu. cbn [rr_run rr_lo rr_hi rr_lo_reader rr_hi_reader]. lia.
  - subst l. eexists. split; [reflexivity|]. split; [reflexivity|]. unfold rr_mu. cbn. lia.
Qed.

Lemma src_next_back_nil_or_snoc l :
  (l = [] /\ src_next_back l = (None, [])) \/
  (exists l' x, l = l' ++ [x] /\ src_next_back l = (Some x, l')).
Proof.
  destruct (rg_snoc_cases l) as [->|(l' & x & ->)]; [left; auto|right].
  exists l', x. split; [reflexivity|apply src_next_back_snoc].
Qed.

Lemma rr_next_back_spec fuel : forall s l, RRI s l -> (rr_mu s <= fuel)%nat ->
  exists s', rr_next_back fuel s = (olast l, s') /\ RRI s' (removelast l)
             /\ (rr_mu s' <= rr_mu s)%nat.
Proof.
  induction fuel as [|fuel IH]; intros [r lo hi lr hr] l H Hmu.
  { unfold rr_mu in Hmu. cbn in Hmu. destruct lr, hr; lia. }
  unfold RRI, rr_mu in H, Hmu. cbn [rr_run rr_lo rr_hi rr_lo_reader rr_hi_reader] in H, Hmu.
  cbn [rr_next_back rr_run rr_lo rr_hi rr_lo_reader rr_hi_reader].
  destruct lr as [a|], hr as [b|].
  - destruct H as (Hlt & Hlen & ->).
    destruct (src_next_back_nil_or_snoc b) as [[-> Eb]|(b' & x & -> & Eb)]; rewrite Eb.
    + rewrite app_nil_r.
      destruct (Nat.ltb_spec lo (hi - 1)) as [Hlt'|Hge].
      * destruct (IH (mkRR r lo (hi - 1) (Some a) (Some (tbl_iter_at r (hi - 1))))
                     (a ++ concat (map ents (mid_tables r lo hi)))) as (s' & E & H' & Hm).
        { unfold RRI. cbn [rr_run rr_lo rr_hi rr_lo_reader rr_hi_reader].
          repeat split; auto; try lia. rewrite mid_tables_back by lia. reflexivity. }
        { unfold rr_mu. cbn [rr_run rr_lo rr_hi rr_lo_reader rr_hi_reader]. lia. }
        exists s'. split; [exact E|]. split; [exact H'|].
        unfold rr_mu in *. cbn [rr_run rr_lo rr_hi rr_lo_reader rr_hi_reader] in *. lia.
      * destruct (IH (mkRR r lo (hi - 1) (Some a) None)
                     (a ++ concat (map ents (mid_tables r lo hi)))) as (s' & E & H' & Hm).
        { unfold RRI. cbn [rr_run rr_lo rr_hi rr_lo_reader rr_hi_reader].
          split; [lia|]. rewrite mid_tables_nil by lia. apply app_nil_r. }
        { unfold rr_mu. cbn [rr_run rr_lo rr_hi rr_lo_reader rr_hi_reader]. lia. }
        exists s'. split; [exact E|]. split; [exact H'|].
        unfold rr_mu in *. cbn [rr_run rr_lo rr_hi rr_lo_reader rr_hi_reader] in *. lia.
    + rewrite !app_assoc, olast_snoc, rg_removelast_app_last, <- !app_assoc.
      eexists. split; [reflexivity|]. split.
      * unfold RRI. cbn [rr_run rr_lo rr_hi rr_lo_reader rr_hi_reader]. auto.
      * unfold rr_mu. cbn [rr_run rr_lo rr_hi rr_lo_reader rr_hi_reader]. lia.
  - destruct H as (Hle & ->).
    destruct (src_next_back_nil_or_snoc a) as [[-> Ea]|(a' & x & -> & Ea)]; rewrite Ea.
    + eexists. split; [reflexivity|]. split.
      * unfold RRI. cbn [rr_run rr_lo rr_hi rr_lo_reader rr_hi_reader removelast]. auto.
      * unfold rr_mu. cbn [rr_run rr_lo rr_hi rr_lo_reader rr_hi_reader]. lia.
    + rewrite olast_snoc, rg_removelast_app_last.
      eexists. split; [reflexivity|]. split.
      * unfold RRI. cbn [rr_run rr_lo rr_hi rr_lo_reader rr_hi_reader]. auto.
      * unfold rr_mu. cbn [rr_run rr_lo rr_hi rr_lo_reader rr_hi_reader]. lia.
  - destruct H as (Hle & ->).
    destruct (src_next_back_nil_or_snoc b) as [[-> Eb]|(b' & x & -> & Eb)]; rewrite Eb.
    + destruct (Nat.ltb_spec lo (hi - 1)) as [Hlt'|Hge]; [lia|].
      destruct (IH (mkRR r lo (hi - 1) None None) []) as (s' & E & H' & Hm).
      { reflexivity. }
      { unfold rr_mu. cbn. lia. }
      exists s'. split; [exact E|]. split; [exact H'|].
      unfold rr_mu in *. cbn [rr_run rr_lo rr_hi rr_lo_reader rr_hi_reader] in *. lia.
    + rewrite olast_snoc, rg_removelast_app_last.
      eexists. split; [reflexivity|]. split.
      * unfold RRI. cbn [rr_run rr_lo rr_hi rr_lo_reader rr_hi_reader]. auto.
      * unfold rr_mu. cbn [rr_run rr_lo rr_hi rr_lo_reader rr_hi_reader]. lia.
  - subst l. eexists. split; [reflexivity|]. split; [reflexivity|]. unfold rr_mu. cbn. lia.
Qed.

Lemma rr_pulls_deque fuel ps : forall s l, RRI s l -> (rr_mu s <= fuel)%nat ->
  rr_pulls fuel s ps = deque_run l ps.
Proof.
  induction ps as [|p ps IH]; intros s l H Hmu; [reflexivity|].
  cbn [rr_pulls deque_run]. destruct p.
  - destruct (rr_next_spec fuel s l H Hmu) as (s' & E & H' & Hm). rewrite E.
    f_equal. apply IH; [exact H'|lia].
  - destruct (rr_next_back_spec fuel s l H Hmu) as (s' & E & H' & Hm). rewrite E.
    f_equal. apply IH; [exact H'|lia].
Qed.

Lemma roi_bounds r lo hi i j :
  range_overlap_indexes r lo hi = Some (i, j) -> (i <= j)%nat /\ (j < length r)%nat.
Proof.
  rewrite roi_uniform. cbv zeta.
  set (i0 := partition_point (plo lo) r).
  pose proof (pp_le (qhi hi) (skipn i0 r)) as Hn. rewrite skipn_length in Hn.
  destruct (Nat.leb_spec (length r) i0); [discriminate|].
  destruct (Nat.eqb_spec (i0 + partition_point (qhi hi) (skipn i0 r)) 0); [discriminate|].
  destruct (Nat.ltb_spec (i0 + partition_point (qhi hi) (skipn i0 r) - 1) i0); [discriminate|].
  intros E. inversion E; subst. lia.
Qed.

(** any interleaving of next / next_back on a freshly built RunReader pops
    [run_reader_items] from either end (and RunReader::new returns None exactly when
    [run_reader_items] does) *)
Theorem run_reader_deque r lo hi ps :
  match rr_new r lo hi, run_reader_items r lo hi with
  | Some s, Some l => rr_pulls (rr_fuel r) s ps = deque_run l ps
  | None, None => True
  | _, _ => False
  end.
Proof.
  unfold rr_new, run_reader_items.
  destruct (range_overlap_indexes r lo hi) as [[i j]|] eqn:E; [|exact I].
  destruct (roi_bounds r lo hi i j E) as [Hij Hj].
  apply rr_pulls_deque.
  - unfold RRI. cbn [rr_run rr_lo rr_hi rr_lo_reader rr_hi_reader].
    destruct (Nat.ltb_spec i j) as [Hlt|Hge].
    + repeat split; auto; lia.
    + split; [lia|]. apply app_nil_r.
  - unfold rr_mu, rr_fuel. cbn [rr_run rr_lo rr_hi rr_lo_reader rr_hi_reader].
    destruct (Nat.ltb i j); lia.
Qed.

(** run_reader.rs: run_reader_basic (four flushed tables a-c, d-f, g-i, j-l) *)
Module RunReaderExamples.
  Import RangeExamples.
  Definition V (k : N) : entry := mkE [k] 0 Value [].
  Definition lvl : run :=
    [mk_table 0 [V 97; V 98; V 99]; mk_table 1 [V 100; V 101; V 102];
     mk_table 2 [V 103; V 104; V 105]; mk_table 3 [V 106; V 107; V 108]].

  Definition keys_run (lo hi : bound) (ps : list pull) : list (option key) :=
    match rr_new lvl lo hi with
    | Some s => map (option_map ukey) (rr_pulls (rr_fuel lvl) s ps)
    | None => []
    end.

  Example run_reader_basic_pingpong :
    keys_run Unb Unb [Front; Back; Front; Back; Front; Back; Front; Back; Front; Back; Front; Back; Front]
    = [Some [97]; Some [108]; Some [98]; Some [107]; Some [99]; Some [106]; Some [100];
       Some [105]; Some [101]; Some [104]; Some [102]; Some [103]; None].
  Proof. vm_compute. reflexivity. Qed.

  Example run_reader_basic_from_g :
    keys_run (Incl [103]) Unb (repeat Front 7)
    = [Some [103]; Some [104]; Some [105]; Some [106]; Some [107]; Some [108]; None]
    /\ keys_run (Incl [103]) Unb (repeat Back 7)
    = [Some [108]; Some [107]; Some [106]; Some [105]; Some [104]; Some [103]; None].
  Proof. split; vm_compute; reflexivity. Qed.

  (** run_reader_skip *)
  Example run_reader_skip :
    rr_new lvl (Incl [121]) (Incl [122]) = None /\ rr_new lvl (Incl [121]) Unb = None.
  Proof. split; vm_compute; reflexivity. Qed.
End RunReaderExamples.

(** * 17. Assumptions *)
Print Assumptions bounds_widening.
Print Assumptions pipeline_deque.
Print Assumptions run_reader_items_exact.
Print Assumptions run_reader_deque.
Print Assumptions range_exact_gen.
Print Assumptions range_exact.
Print Assumptions range_exact_front.
Print Assumptions range_exact_back.
Print Assumptions overlay_shadows.
Print Assumptions overlay_shadows_spec.
Print Assumptions first_key_value.
Print Assumptions last_key_value.
Print Assumptions len.
Print Assumptions is_empty.
