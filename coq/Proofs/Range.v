(** Exactness of the range-scan read path (Model/Range.v) against the ordered-map Spec
    (Model/Entry.v: [spec_range]) for every interleaving of next / next_back. *)
From LsmV Require Import Model.Range Proofs.Newest.
From Coq Require Import Permutation Sorting.Sorted PeanoNat.
Open Scope N_scope.
Arguments N.add : simpl never.
Arguments N.sub : simpl never.
Arguments N.mul : simpl never.
Arguments N.ltb : simpl never.
Arguments N.leb : simpl never.
Arguments N.eqb : simpl never.

(** * 1. InternalKey order *)

Lemma rg_ikey_ltb_iff a b :
  ikey_ltb a b = true <-> key_lt (ukey a) (ukey b) \/ (ukey a = ukey b /\ seq b < seq a).
Proof.
  unfold ikey_ltb, key_lt. destruct (key_cmp (ukey a) (ukey b)) eqn:E.
  - apply key_cmp_eq in E. rewrite N.ltb_lt. split.
    + intros H. right. auto.
    + intros [H|[_ H]]; [discriminate|exact H].
  - split; auto.
  - split; [discriminate|]. intros [H|[H _]]; [discriminate|].
    apply key_cmp_eq in H. congruence.
Qed.

Lemma rg_ikey_ltb_false a b :
  ikey_ltb a b = false <-> key_lt (ukey b) (ukey a) \/ (ukey a = ukey b /\ seq a <= seq b).
Proof.
  unfold ikey_ltb. destruct (key_cmp (ukey a) (ukey b)) eqn:E.
  - apply key_cmp_eq in E. rewrite N.ltb_ge. split.
    + intros H. right. auto.
    + intros [H|[_ H]]; [|exact H]. rewrite E in H. now apply key_lt_irrefl in H.
  - split; [discriminate|]. intros [H|[H _]].
    + exfalso. eapply key_lt_irrefl. eapply key_lt_trans; [exact E|exact H].
    + apply key_cmp_eq in H. congruence.
  - split; auto. intros _. left. now apply key_lt_gt.
Qed.

Lemma rg_ikey_lt_irrefl a : ~ ikey_lt a a.
Proof.
  unfold ikey_lt. rewrite rg_ikey_ltb_iff. intros [H|[_ H]]; [now apply key_lt_irrefl in H|lia].
Qed.

Lemma rg_ikey_lt_trans a b c : ikey_lt a b -> ikey_lt b c -> ikey_lt a c.
Proof.
  unfold ikey_lt. rewrite !rg_ikey_ltb_iff.
  intros [H1|[E1 H1]] [H2|[E2 H2]].
  - left. eapply key_lt_trans; eauto.
  - left. now rewrite <- E2.
  - left. now rewrite E1.
  - right. split; [congruence|lia].
Qed.

Lemma rg_ikey_lt_asym a b : ikey_lt a b -> ikey_lt b a -> False.
Proof. intros H1 H2. eapply rg_ikey_lt_irrefl. eapply rg_ikey_lt_trans; eauto. Qed.

(** negative transitivity: ikey_ltb is a strict weak order *)
Lemma rg_ikey_nlt_trans a b c :
  ikey_ltb b a = false -> ikey_ltb c b = false -> ikey_ltb c a = false.
Proof.
  rewrite !rg_ikey_ltb_false.
  intros [H1|[E1 H1]] [H2|[E2 H2]].
  - left. eapply key_lt_trans; eauto.
  - left. now rewrite E2.
  - left. now rewrite <- E1.
  - right. split; [congruence|lia].
Qed.

Lemma rg_ikey_lt_key_le a b : ikey_lt a b -> key_le (ukey a) (ukey b).
Proof.
  unfold ikey_lt. rewrite rg_ikey_ltb_iff. intros [H|[H _]].
  - now apply key_lt_le.
  - rewrite H. apply key_le_refl.
Qed.

Lemma rg_ikey_lt_nlt a b : ikey_lt a b -> ikey_ltb b a = false.
Proof.
  intros H. destruct (ikey_ltb b a) eqn:E; [|reflexivity].
  exfalso. eapply rg_ikey_lt_asym; eauto.
Qed.

(** * 2. Generic list lemmas *)

Lemma rg_SS_filter {A} (R : A -> A -> Prop) p l :
  StronglySorted R l -> StronglySorted R (filter p l).
Proof.
  induction 1 as [|x l HS IH HF]; simpl; [constructor|].
  destruct (p x); [|exact IH]. constructor; [exact IH|].
  rewrite Forall_forall in *. intros y Hy. apply filter_In in Hy. apply HF. tauto.
Qed.

Lemma rg_SS_app_inv {A} (R : A -> A -> Prop) a b :
  StronglySorted R (a ++ b) ->
  StronglySorted R a /\ StronglySorted R b /\ (forall x y, In x a -> In y b -> R x y).
Proof.
  induction a as [|x a IH]; simpl; intros H.
  - repeat split; [constructor|exact H|contradiction].
  - inversion H as [|? ? HS HF]; subst. destruct (IH HS) as (Ha & Hb & Hab).
    rewrite Forall_forall in HF. repeat split.
    + constructor; [exact Ha|]. rewrite Forall_forall. intros y Hy. apply HF.
      apply in_or_app. auto.
    + exact Hb.
    + intros x' y [->|Hx] Hy; [apply HF; apply in_or_app; auto|auto].
Qed.

Lemma rg_SS_app {A} (R : A -> A -> Prop) a b :
  StronglySorted R a -> StronglySorted R b -> (forall x y, In x a -> In y b -> R x y) ->
  StronglySorted R (a ++ b).
Proof.
  induction a as [|x a IH]; simpl; intros Ha Hb Hab; [exact Hb|].
  inversion Ha as [|? ? HS HF]; subst. constructor.
  - apply IH; auto.
  - rewrite Forall_forall in *. intros y Hy. apply in_app_or in Hy. destruct Hy; auto.
Qed.

Lemma rg_SS_tl {A} (R : A -> A -> Prop) l : StronglySorted R l -> StronglySorted R (tl l).
Proof. destruct 1; simpl; [constructor|assumption]. Qed.

Lemma rg_removelast_app_last {A} (l : list A) x : removelast (l ++ [x]) = l.
Proof. rewrite removelast_app by discriminate. simpl. apply app_nil_r. Qed.

Lemma rg_last_app_last {A} (l : list A) x d : last (l ++ [x]) d = x.
Proof. apply last_last. Qed.

(** a non-empty list splits off its last element *)
Lemma rg_snoc_cases {A} (l : list A) : l = [] \/ exists l' x, l = l' ++ [x].
Proof.
  destruct l as [|a l]; [left; reflexivity|right].
  exists (removelast (a :: l)), (last (a :: l) a). apply app_removelast_last. discriminate.
Qed.

Lemma rg_SS_removelast {A} (R : A -> A -> Prop) l :
  StronglySorted R l -> StronglySorted R (removelast l).
Proof.
  intros H. destruct (rg_snoc_cases l) as [->|(l' & x & ->)]; [exact H|].
  rewrite rg_removelast_app_last. now apply rg_SS_app_inv in H.
Qed.

Lemma rg_sorted_SS l : sorted_b l = true -> StronglySorted ikey_lt l.
Proof.
  induction l as [|e l IH]; [constructor|].
  destruct l as [|e' l]; [intros _; repeat constructor|].
  intros H. change (ikey_ltb e e' && sorted_b (e' :: l) = true) in H.
  apply andb_true_iff in H. destruct H as [H1 H2]. specialize (IH H2).
  constructor; [exact IH|]. inversion IH as [|? ? HS HF]; subst.
  constructor; [exact H1|]. rewrite Forall_forall in *. intros y Hy.
  eapply rg_ikey_lt_trans; [exact H1|auto].
Qed.

Lemma rg_SS_NoDup l : StronglySorted ikey_lt l -> NoDup l.
Proof.
  induction 1 as [|x l HS IH HF]; constructor; [|exact IH].
  intros Hin. rewrite Forall_forall in HF. apply (rg_ikey_lt_irrefl x). auto.
Qed.

(** a member of a strictly sorted list below all others is its head *)
Lemma rg_sorted_min_head l e :
  StronglySorted ikey_lt l -> In e l -> (forall x, In x l -> ikey_ltb x e = false) ->
  exists l', l = e :: l'.
Proof.
  intros HS Hin Hmin. destruct l as [|h l']; [contradiction|].
  destruct Hin as [->|Hin]; [eauto|]. exfalso.
  inversion HS as [|? ? _ HF]; subst. rewrite Forall_forall in HF.
  specialize (HF e Hin). specialize (Hmin h (or_introl eq_refl)).
  unfold ikey_lt in HF. congruence.
Qed.

Lemma rg_sorted_max_last l e :
  StronglySorted ikey_lt l -> In e l -> (forall x, In x l -> ikey_ltb e x = false) ->
  exists l', l = l' ++ [e].
Proof.
  intros HS Hin Hmax. destruct (rg_snoc_cases l) as [->|(l' & x & ->)]; [contradiction|].
  apply in_app_or in Hin. destruct Hin as [Hin|[->|[]]]; [|eauto]. exfalso.
  apply rg_SS_app_inv in HS. destruct HS as (_ & _ & HF).
  specialize (HF e x Hin (or_introl eq_refl)).
  assert (Hx : In x (l' ++ [x])) by (apply in_or_app; right; left; reflexivity).
  specialize (Hmax x Hx). unfold ikey_lt in HF. congruence.
Qed.

(** two members of a strictly sorted list are equal or strictly ordered *)
Lemma rg_sorted_trich l a b :
  StronglySorted ikey_lt l -> In a l -> In b l -> a = b \/ ikey_lt a b \/ ikey_lt b a.
Proof.
  induction 1 as [|x l HS IH HF]; [contradiction|].
  rewrite Forall_forall in HF. intros [->|Ha] [->|Hb]; auto.
Qed.

(** * 3. Bound widening *)

Theorem bounds_widening lo hi e :
  seq e <= MAX_SEQNO -> ikey_in_range lo hi e = in_bounds lo hi (ukey e).
Proof.
  intros Hs. unfold ikey_in_range, in_bounds. f_equal.
  - destruct lo as [k|k|]; simpl; [| |reflexivity].
    + unfold before_probe, key_leb. rewrite (key_cmp_antisym (ukey e) k).
      destruct (key_cmp (ukey e) k); simpl; try reflexivity.
      apply negb_true_iff. apply N.ltb_ge. exact Hs.
    + unfold after_probe, key_ltb. rewrite (key_cmp_antisym (ukey e) k).
      destruct (key_cmp (ukey e) k); simpl; try reflexivity.
      apply N.ltb_ge. lia.
  - destruct hi as [k|k|]; simpl; [| |reflexivity].
    + unfold after_probe, key_leb.
      destruct (key_cmp (ukey e) k); simpl; try reflexivity.
      apply negb_true_iff. apply N.ltb_ge. lia.
    + unfold before_probe, key_ltb.
      destruct (key_cmp (ukey e) k); simpl; try reflexivity.
      apply N.ltb_ge. exact Hs.
Qed.

(** inverted and empty ranges select nothing *)
Lemma in_bounds_inverted lo hi k a b :
  (lo = Incl a \/ lo = Excl a) -> (hi = Incl b \/ hi = Excl b) -> key_lt b a ->
  in_bounds lo hi k = false.
Proof.
  intros Hlo Hhi Hba. unfold in_bounds.
  destruct (lo_ok lo k) eqn:E1; [|reflexivity]. destruct (hi_ok hi k) eqn:E2; [|reflexivity].
  exfalso. assert (A : key_le a k).
  { destruct Hlo as [-> | ->]; simpl in E1; key_prop; [exact E1|now apply key_lt_le]. }
  assert (B : key_le k b).
  { destruct Hhi as [-> | ->]; simpl in E2; key_prop; [exact E2|now apply key_lt_le]. }
  eapply key_lt_irrefl. eapply key_lt_le_trans; [exact Hba|]. eapply key_le_trans; eauto.
Qed.

Lemma in_bounds_empty a k :
  in_bounds (Excl a) (Excl a) k = false /\ in_bounds (Incl a) (Excl a) k = false
  /\ in_bounds (Excl a) (Incl a) k = false.
Proof.
  unfold in_bounds; simpl. unfold key_ltb, key_leb. rewrite (key_cmp_antisym k a).
  destruct (key_cmp k a); simpl; auto.
Qed.

Corollary mt_range_inverted l lo hi a b :
  (forall e, In e l -> seq e <= MAX_SEQNO) ->
  (lo = Incl a \/ lo = Excl a) -> (hi = Incl b \/ hi = Excl b) -> key_lt b a ->
  mt_range l lo hi = [].
Proof.
  intros Hs Hlo Hhi Hba. unfold mt_range.
  induction l as [|e l IH]; [reflexivity|]. simpl.
  rewrite bounds_widening by (apply Hs; left; reflexivity).
  rewrite (in_bounds_inverted lo hi (ukey e) a b Hlo Hhi Hba).
  apply IH. intros x Hx. apply Hs. right. exact Hx.
Qed.

(** * 4. Deque semantics and the generic layers *)

Definition ohd (l : list entry) : option entry :=
  match l with [] => None | x :: _ => Some x end.
Definition olast (l : list entry) : option entry :=
  match l with [] => None | x :: _ => Some (last l x) end.

(** deque semantics: pops from either end of a list *)
Fixpoint deque_run (l : list entry) (ps : list pull) : list (option entry) :=
  match ps with
  | [] => []
  | Front :: ps' => ohd l :: deque_run (tl l) ps'
  | Back :: ps' => olast l :: deque_run (removelast l) ps'
  end.

Lemma olast_snoc l x : olast (l ++ [x]) = Some x.
Proof.
  destruct l as [|a l]; [reflexivity|]. simpl app. unfold olast.
  f_equal. change (a :: l ++ [x]) with ((a :: l) ++ [x]). apply last_last.
Qed.

(** the drop of the leading block of key [k] *)
Fixpoint drop_key (k : key) (l : list entry) : list entry :=
  match l with
  | [] => []
  | e :: l' => if key_eqb (ukey e) k then drop_key k l' else l
  end.

Lemma drop_key_length k l : (length (drop_key k l) <= length l)%nat.
Proof.
  induction l as [|e l IH]; simpl; [lia|]. destruct (key_eqb (ukey e) k); simpl; lia.
Qed.

(** what MvccStream::next_back does, on the reversed remaining stream: [t] is the popped
    tail, [rl] the rest, newest-last *)
Fixpoint back_scan (t : entry) (rl : list entry) : entry * list entry :=
  match rl with
  | [] => (t, [])
  | p :: rl' => if key_ltb (ukey p) (ukey t) then (t, rl) else back_scan p rl'
  end.

Lemma back_scan_length t rl : (length (snd (back_scan t rl)) <= length rl)%nat.
Proof.
  revert t; induction rl as [|p rl IH]; intros t; simpl; [lia|].
  destruct (key_ltb (ukey p) (ukey t)); simpl; [lia|]. specialize (IH p). lia.
Qed.

Definition mvcc_back_out (l : list entry) : option entry :=
  match rev l with [] => None | t :: rl => Some (fst (back_scan t rl)) end.
Definition mvcc_back_rest (l : list entry) : list entry :=
  match rev l with [] => [] | t :: rl => rev (snd (back_scan t rl)) end.

Section LayerProofs.
  Variable I : Type.
  Variable inext inext_back : I -> option entry * I.
  (** [R it l]: the inner iterator [it] behaves as a deque holding [l] *)
  Variable R : I -> list entry -> Prop.
  Hypothesis Hnext : forall it l, R it l ->
    exists it', inext it = (ohd l, it') /\ R it' (tl l).
  Hypothesis Hback : forall it l, R it l ->
    exists it', inext_back it = (olast l, it') /\ R it' (removelast l).

  Definition pv (p : maybe_peeked) : list entry :=
    match peeked_value p with Some x => [x] | None => [] end.

  (** the peekable holds [front-peeked ++ inner ++ back-peeked]; a peeked [None] records
      that the inner iterator is exhausted *)
  Definition DR (d : dep I) (l : list entry) : Prop :=
    exists lm, R (d_iter d) lm /\ l = pv (d_front d) ++ lm ++ pv (d_back d)
      /\ (d_front d = Peeked None -> lm = []) /\ (d_back d = Peeked None -> lm = []).

  Lemma dep_next_spec d l : DR d l ->
    exists d', dep_next I inext d = (ohd l, d') /\ DR d' (tl l).
  Proof.
    intros (lm & HR & -> & Hf & Hb). unfold dep_next.
    destruct d as [it f b]; simpl in *.
    destruct f as [|[x|]].
    - (* Unpeeked *)
      destruct (Hnext _ _ HR) as (it' & E & HR'). rewrite E.
      destruct lm as [|y lm]; simpl in *.
      + exists (mkDep it' Unpeeked Unpeeked). split.
        * unfold pv. destruct (peeked_value b); reflexivity.
        * exists []. simpl. repeat split; auto.
          unfold pv. destruct (peeked_value b); reflexivity.
      + exists (mkDep it' Unpeeked b). split; [reflexivity|].
        exists lm. simpl. repeat split; auto; [discriminate|].
        intros Hb'. specialize (Hb Hb'). discriminate.
    - (* Peeked (Some x) *)
      exists (mkDep it Unpeeked b). split; [reflexivity|].
      exists lm. simpl. repeat split; auto. discriminate.
    - (* Peeked None *)
      specialize (Hf eq_refl). subst lm. simpl.
      exists (mkDep it Unpeeked Unpeeked). split.
      + unfold pv. destruct (peeked_value b); reflexivity.
      + exists []. simpl. repeat split; auto; try discriminate.
        unfold pv. destruct (peeked_value b); reflexivity.
  Qed.

  Lemma olast_mid f lm b :
    olast (f ++ lm ++ pv b) =
    match peeked_value b with
    | Some y => Some y
    | None => olast (f ++ lm)
    end.
  Proof.
    unfold pv. destruct (peeked_value b) as [y|].
    - rewrite app_assoc. apply olast_snoc.
    - now rewrite !app_nil_r.
  Qed.

  Lemma removelast_mid f lm b :
    removelast (f ++ lm ++ pv b) =
    match peeked_value b with
    | Some y => f ++ lm
    | None => removelast (f ++ lm)
    end.
  Proof.
    unfold pv. destruct (peeked_value b) as [y|].
    - rewrite app_assoc. apply rg_removelast_app_last.
    - now rewrite !app_nil_r.
  Qed.

  Lemma olast_pv_app f lm : lm <> [] -> olast (pv f ++ lm) = olast lm.
  Proof.
    intros Hne. destruct (rg_snoc_cases lm) as [->|(l' & x & ->)]; [congruence|].
    rewrite app_assoc, !olast_snoc. reflexivity.
  Qed.

  Lemma removelast_pv_app f lm : lm <> [] -> removelast (pv f ++ lm) = pv f ++ removelast lm.
  Proof. intros Hne. now apply removelast_app. Qed.

  Lemma olast_pv f : olast (pv f) = peeked_value f.
  Proof. unfold pv. destruct (peeked_value f); reflexivity. Qed.

  Lemma removelast_pv f : removelast (pv f) = [].
  Proof. unfold pv. destruct (peeked_value f); reflexivity. Qed.

  Lemma dep_next_back_spec d l : DR d l ->
    exists d', dep_next_back I inext_back d = (olast l, d') /\ DR d' (removelast l).
  Proof.
    intros (lm & HR & -> & Hf & Hb). unfold dep_next_back.
    destruct d as [it f b]; cbn [d_iter d_front d_back] in *.
    rewrite olast_mid, removelast_mid.
    destruct b as [|[y|]]; cbn [peeked_value].
    - (* Unpeeked *)
      destruct (Hback _ _ HR) as (it' & E & HR'). rewrite E.
      destruct (rg_snoc_cases lm) as [->|(lm' & y & ->)].
      + cbn [olast]. rewrite app_nil_r, olast_pv, removelast_pv.
        exists (mkDep it' Unpeeked Unpeeked). split; [reflexivity|].
        exists []. cbn [d_iter d_front d_back removelast] in *. repeat split; auto.
      + rewrite olast_snoc. rewrite rg_removelast_app_last in HR'.
        rewrite app_assoc, olast_snoc, rg_removelast_app_last.
        exists (mkDep it' f Unpeeked). split; [reflexivity|].
        exists lm'. cbn [d_iter d_front d_back]. repeat split; auto.
        * unfold pv at 2. cbn [peeked_value]. now rewrite app_nil_r.
        * intros Hf'. specialize (Hf Hf'). destruct lm'; discriminate.
        * discriminate.
    - (* Peeked (Some y) *)
      exists (mkDep it f Unpeeked). split; [reflexivity|].
      exists lm. cbn [d_iter d_front d_back]. repeat split; auto; [|discriminate].
      unfold pv at 2. cbn [peeked_value]. now rewrite app_nil_r.
    - (* Peeked None *)
      specialize (Hb eq_refl). subst lm.
      rewrite app_nil_r, olast_pv, removelast_pv.
      exists (mkDep it Unpeeked Unpeeked). split; [reflexivity|].
      exists []. cbn [d_iter d_front d_back]. repeat split; auto; discriminate.
  Qed.

  Lemma dep_peek_back_spec d l : DR d l ->
    exists d', dep_peek_back I inext_back d = (olast l, d') /\ DR d' l.
  Proof.
    intros (lm & HR & -> & Hf & Hb). unfold dep_peek_back.
    destruct d as [it f b]; cbn [d_iter d_front d_back] in *.
    destruct b as [|[y|]].
    - destruct (Hback _ _ HR) as (it' & E & HR'). rewrite E.
      cbn [d_iter d_front d_back peeked_value].
      unfold pv at 2. cbn [peeked_value]. rewrite app_nil_r.
      destruct (rg_snoc_cases lm) as [->|(lm' & y & ->)].
      + cbn [olast removelast] in *. rewrite app_nil_r, olast_pv.
        exists (mkDep it' f (Peeked None)). split; [reflexivity|].
        exists []. cbn [d_iter d_front d_back]. repeat split; auto.
      + rewrite olast_snoc in *. rewrite rg_removelast_app_last in HR'.
        rewrite app_assoc, olast_snoc.
        exists (mkDep it' f (Peeked (Some y))). split; [reflexivity|].
        exists lm'. cbn [d_iter d_front d_back]. repeat split; auto.
        * unfold pv at 3. cbn [peeked_value]. now rewrite <- app_assoc.
        * intros Hf'. specialize (Hf Hf'). destruct lm'; discriminate.
        * discriminate.
    - exists (mkDep it f (Peeked (Some y))). split.
      + rewrite olast_mid. reflexivity.
      + exists lm. cbn [d_iter d_front d_back]. repeat split; auto.
    - specialize (Hb eq_refl). subst lm. cbn [d_iter d_front d_back peeked_value].
      unfold pv at 2. cbn [peeked_value]. rewrite !app_nil_r, olast_pv.
      exists (mkDep it f (Peeked None)). split; [reflexivity|].
      exists []. cbn [d_iter d_front d_back]. repeat split; auto.
      unfold pv at 3. cbn [peeked_value app]. now rewrite app_nil_r.
  Qed.

  Lemma dep_next_if_spec p d l : DR d l ->
    exists d', dep_next_if I inext p d =
      (match l with x :: _ => if p x then Some x else None | [] => None end, d')
      /\ DR d' (match l with x :: l' => if p x then l' else l | [] => [] end).
  Proof.
    intros H. unfold dep_next_if.
    destruct (dep_next_spec _ _ H) as (d' & E & (lm & HR & El & Hf & Hb)). rewrite E.
    destruct l as [|x l']; simpl in *.
    - exists (mkDep (d_iter d') (Peeked None) (d_back d')). split; [reflexivity|].
      symmetry in El. apply app_eq_nil in El. destruct El as [E1 E2].
      apply app_eq_nil in E2. destruct E2 as [E2 E3]. subst lm.
      exists []. simpl. repeat split; auto; try (now rewrite E3).
    - destruct (p x).
      + exists d'. split; [reflexivity|]. exists lm. auto.
      + exists (mkDep (d_iter d') (Peeked (Some x)) (d_back d')). split; [reflexivity|].
        (* after dep_next the front slot is Unpeeked *)
        assert (Hfu : d_front d' = Unpeeked).
        { revert E. unfold dep_next. destruct (d_front d) as [|[?|]].
          - destruct (inext (d_iter d)) as [[?|] ?]; intros E; inversion E; reflexivity.
          - intros E; inversion E; reflexivity.
          - intros E; inversion E; reflexivity. }
        rewrite Hfu in El. simpl in El.
        exists lm. simpl. repeat split; auto; [|discriminate].
        unfold pv at 1. simpl. now rewrite El.
  Qed.

  Lemma drain_spec fuel k d l : DR d l -> (length l < fuel)%nat ->
    DR (drain_key_min I inext fuel k d) (drop_key k l).
  Proof.
    revert d l; induction fuel as [|fuel IH]; intros d l H Hlen; [lia|].
    cbn [drain_key_min]. destruct (dep_next_if_spec (fun kv => key_eqb (ukey kv) k) _ _ H) as (d' & E & H').
    rewrite E. destruct l as [|x l']; simpl in *; [exact H'|].
    destruct (key_eqb (ukey x) k).
    - apply IH; [exact H'|lia].
    - exact H'.
  Qed.

  Lemma mvcc_next_spec fuel d l : DR d l -> (length l <= fuel)%nat ->
    exists d', mvcc_next I inext fuel d = (ohd l, d')
      /\ DR d' (match l with x :: l' => drop_key (ukey x) l' | [] => [] end).
  Proof.
    intros H Hlen. unfold mvcc_next.
    destruct (dep_next_spec _ _ H) as (d' & E & H'). rewrite E.
    destruct l as [|x l']; simpl in *; [eauto|].
    eexists. split; [reflexivity|]. apply drain_spec; [exact H'|lia].
  Qed.

  Lemma mvcc_next_back_spec fuel d l : DR d l -> (length l < fuel)%nat ->
    exists d', mvcc_next_back I inext_back fuel d = (mvcc_back_out l, d')
      /\ DR d' (mvcc_back_rest l).
  Proof.
    unfold mvcc_back_out, mvcc_back_rest.
    revert d l; induction fuel as [|fuel IH]; intros d l H Hlen; [lia|].
    cbn [mvcc_next_back]. destruct (dep_next_back_spec _ _ H) as (d1 & E1 & H1). rewrite E1.
    destruct (rg_snoc_cases l) as [->|(l1 & t & ->)]; [simpl; eauto|].
    rewrite olast_snoc. rewrite rg_removelast_app_last in H1.
    rewrite rev_app_distr. simpl rev. simpl app. cbv iota.
    destruct (dep_peek_back_spec _ _ H1) as (d2 & E2 & H2). rewrite E2.
    destruct (rg_snoc_cases l1) as [->|(l2 & p & ->)]; [simpl; eauto|].
    rewrite olast_snoc. rewrite rev_app_distr. simpl rev. simpl app. cbv iota.
    simpl back_scan. destruct (key_ltb (ukey p) (ukey t)).
    - exists d2. split; [reflexivity|]. simpl. rewrite rev_involutive. exact H2.
    - assert (Hlen2 : (length (l2 ++ [p]) < fuel)%nat).
      { rewrite !app_length in Hlen. rewrite app_length. simpl in *. lia. }
      destruct (IH d2 (l2 ++ [p]) H2 Hlen2) as (d3 & E3 & H3).
      rewrite rev_app_distr in E3, H3. simpl in E3, H3. eauto.
  Qed.
End LayerProofs.

(** * 5. What MvccStream computes: the first entry of every user-key group *)

Fixpoint heads_from (prev : option key) (l : list entry) : list entry :=
  match l with
  | [] => []
  | e :: l' =>
      let rest := heads_from (Some (ukey e)) l' in
      match prev with
      | Some k => if key_eqb k (ukey e) then rest else e :: rest
      | None => e :: rest
      end
  end.

Definition heads (l : list entry) : list entry := heads_from None l.

(** sorted by user key (not strictly) *)
Definition ksorted (l : list entry) : Prop :=
  StronglySorted (fun a b => key_le (ukey a) (ukey b)) l.

Definition nt (e : entry) : bool := negb (is_tomb e).
Definition live_out (l : list entry) : list entry := filter nt (heads l).

Lemma heads_from_drop k l : heads_from (Some k) l = heads (drop_key k l).
Proof.
  induction l as [|e l IH]; [reflexivity|]. cbn [heads_from drop_key].
  rewrite (key_eqb_sym k (ukey e)). destruct (key_eqb (ukey e) k) eqn:E.
  - apply key_eqb_eq in E. rewrite E. exact IH.
  - unfold heads. cbn [heads_from]. reflexivity.
Qed.

Lemma heads_cons x l : heads (x :: l) = x :: heads (drop_key (ukey x) l).
Proof. unfold heads at 1. cbn [heads_from]. now rewrite heads_from_drop. Qed.

Definition lastkey (prev : option key) (l : list entry) : option key :=
  match olast l with Some e => Some (ukey e) | None => prev end.

Lemma lastkey_cons prev e l : lastkey prev (e :: l) = lastkey (Some (ukey e)) l.
Proof.
  unfold lastkey. destruct (rg_snoc_cases l) as [->|(l' & x & ->)]; [reflexivity|].
  change (e :: l' ++ [x]) with ((e :: l') ++ [x]). now rewrite !olast_snoc.
Qed.

Lemma heads_from_snoc prev l t :
  heads_from prev (l ++ [t]) =
  heads_from prev l ++
  match lastkey prev l with
  | Some k => if key_eqb k (ukey t) then [] else [t]
  | None => [t]
  end.
Proof.
  revert prev; induction l as [|e l IH]; intros prev.
  - cbn [app heads_from]. unfold lastkey. cbn [olast].
    destruct prev as [k|]; [destruct (key_eqb k (ukey t))|]; reflexivity.
  - cbn [app heads_from]. rewrite IH, lastkey_cons.
    destruct prev as [k|]; [destruct (key_eqb k (ukey e))|]; reflexivity.
Qed.

Lemma ksorted_drop_key k l : ksorted l -> ksorted (drop_key k l).
Proof.
  induction 1 as [|x l HS IH HF]; cbn [drop_key]; [constructor|].
  destruct (key_eqb (ukey x) k); [exact IH|]. now constructor.
Qed.

Lemma back_scan_suffix t rl : exists pre, rl = pre ++ snd (back_scan t rl).
Proof.
  revert t; induction rl as [|p rl IH]; intros t; cbn [back_scan].
  - exists []. reflexivity.
  - destruct (key_ltb (ukey p) (ukey t)).
    + exists []. reflexivity.
    + destruct (IH p) as (pre & E). exists (p :: pre). cbn [app]. now rewrite <- E.
Qed.

Lemma back_scan_heads rl t :
  ksorted (rev rl ++ [t]) ->
  heads (rev rl ++ [t]) = heads (rev (snd (back_scan t rl))) ++ [fst (back_scan t rl)].
Proof.
  revert t; induction rl as [|p rl IH]; intros t HS; [reflexivity|].
  cbn [back_scan rev] in *. unfold heads at 1. rewrite heads_from_snoc.
  unfold lastkey. rewrite olast_snoc.
  destruct (key_ltb (ukey p) (ukey t)) eqn:E.
  - cbn [fst snd rev]. key_prop.
    destruct (key_eqb (ukey p) (ukey t)) eqn:E2; [|reflexivity].
    key_prop. rewrite E2 in E. now apply key_lt_irrefl in E.
  - assert (Ek : ukey p = ukey t).
    { key_prop. apply key_le_antisym; [|exact E].
      apply rg_SS_app_inv in HS. destruct HS as (_ & _ & HF).
      apply (HF p t); [apply in_or_app; right|]; left; reflexivity. }
    rewrite Ek, key_eqb_refl, app_nil_r. apply IH.
    now apply rg_SS_app_inv in HS.
Qed.

Lemma mvcc_back_heads l : ksorted l ->
  olast (heads l) = mvcc_back_out l /\ removelast (heads l) = heads (mvcc_back_rest l).
Proof.
  intros HS. unfold mvcc_back_out, mvcc_back_rest.
  destruct (rg_snoc_cases l) as [->|(l1 & t & ->)]; [split; reflexivity|].
  rewrite rev_app_distr. cbn [rev app].
  rewrite <- (rev_involutive l1) in HS |- * at 1.
  rewrite <- (rev_involutive l1) at 3.
  rewrite (back_scan_heads (rev l1) t HS).
  rewrite olast_snoc, rg_removelast_app_last. split; reflexivity.
Qed.

Lemma mvcc_back_rest_ksorted l : ksorted l -> ksorted (mvcc_back_rest l).
Proof.
  intros HS. unfold mvcc_back_rest.
  destruct (rg_snoc_cases l) as [->|(l1 & t & ->)]; [constructor|].
  rewrite rev_app_distr. cbn [rev app].
  destruct (back_scan_suffix t (rev l1)) as (pre & E).
  apply rg_SS_app_inv in HS. destruct HS as (HS & _ & _).
  rewrite <- (rev_involutive l1), E, rev_app_distr in HS.
  now apply rg_SS_app_inv in HS.
Qed.

Lemma mvcc_back_rest_length l : l <> [] -> (length (mvcc_back_rest l) < length l)%nat.
Proof.
  intros Hne. unfold mvcc_back_rest.
  destruct (rg_snoc_cases l) as [->|(l1 & t & ->)]; [congruence|].
  rewrite rev_app_distr. cbn [rev app]. rewrite rev_length, app_length. cbn [length].
  pose proof (back_scan_length t (rev l1)) as H. rewrite rev_length in H. lia.
Qed.

Section LiveProofs.
  Variable I : Type.
  Variable inext inext_back : I -> option entry * I.
  Variable R : I -> list entry -> Prop.
  Hypothesis Hnext : forall it l, R it l ->
    exists it', inext it = (ohd l, it') /\ R it' (tl l).
  Hypothesis Hback : forall it l, R it l ->
    exists it', inext_back it = (olast l, it') /\ R it' (removelast l).

  Notation DR := (DR I R).

  Lemma live_next_spec fuel d l : DR d l -> ksorted l -> (length l < fuel)%nat ->
    exists d' l', live_next I inext fuel d = (ohd (live_out l), d')
      /\ DR d' l' /\ ksorted l' /\ (length l' <= length l)%nat
      /\ live_out l' = tl (live_out l).
  Proof.
    revert d l; induction fuel as [|fuel IH]; intros d l H HS Hlen; [lia|].
    cbn [live_next].
    destruct (mvcc_next_spec I inext R Hnext (S fuel) d l H) as (d1 & E1 & H1); [lia|].
    rewrite E1. destruct l as [|x lr].
    - exists d1, []. cbn. repeat split; auto; try constructor.
    - cbn [ohd]. unfold live_out. rewrite heads_cons. cbn [filter].
      assert (HS1 : ksorted (drop_key (ukey x) lr)).
      { apply ksorted_drop_key. now inversion HS. }
      pose proof (drop_key_length (ukey x) lr) as Hl. cbn [length] in Hlen.
      fold (nt x). destruct (nt x) eqn:En; cbn [negb].
      + exists d1, (drop_key (ukey x) lr). cbn [ohd tl length]. repeat split; auto; try lia.
      + destruct (IH d1 _ H1 HS1) as (d' & l' & E & H' & HS' & Hl' & Ho); [lia|].
        exists d', l'. unfold live_out in *. cbn [length]. repeat split; auto; try lia.
  Qed.

  Lemma live_next_back_spec fuel d l : DR d l -> ksorted l -> (length l < fuel)%nat ->
    exists d' l', live_next_back I inext_back fuel d = (olast (live_out l), d')
      /\ DR d' l' /\ ksorted l' /\ (length l' <= length l)%nat
      /\ live_out l' = removelast (live_out l).
  Proof.
    revert d l; induction fuel as [|fuel IH]; intros d l H HS Hlen; [lia|].
    cbn [live_next_back].
    destruct (mvcc_next_back_spec I inext_back R Hback (S fuel) d l H Hlen) as (d1 & E1 & H1).
    rewrite E1. destruct (mvcc_back_heads l HS) as [Eo Er].
    pose proof (mvcc_back_rest_ksorted l HS) as HS1.
    destruct (rg_snoc_cases l) as [->|(l1 & t & El)].
    - exists d1, []. cbn. repeat split; auto.
    - assert (Hne : l <> []) by (subst l; destruct l1; discriminate).
      pose proof (mvcc_back_rest_length l Hne) as Hl.
      unfold live_out.
      destruct (rg_snoc_cases (heads l)) as [Eh|(hl & h & Eh)].
      + exfalso. destruct l as [|a0 l0]; [congruence|]. rewrite heads_cons in Eh. discriminate.
      + rewrite Eh in Eo, Er. rewrite olast_snoc in Eo. rewrite rg_removelast_app_last in Er.
        rewrite <- Eo. rewrite Eh, filter_app. cbn [filter]. fold (nt h).
        destruct (nt h) eqn:En; cbn [negb].
        * exists d1, (mvcc_back_rest l). rewrite olast_snoc, rg_removelast_app_last, <- Er.
          repeat split; auto; try lia.
        * rewrite app_nil_r.
          destruct (IH d1 _ H1 HS1) as (d' & l' & E & H' & HS' & Hl' & Ho); [lia|].
          exists d', l'. unfold live_out in *. rewrite <- Er in E, Ho.
          repeat split; auto; try lia.
  Qed.

  (** the tree iterator holds [o] (abstractly): some key-sorted stream [l] shorter than
      the fuel whose live group heads are [o] *)
  Definition TR (fuel : nat) (d : dep I) (o : list entry) : Prop :=
    exists l, DR d l /\ ksorted l /\ (length l < fuel)%nat /\ o = live_out l.

  Lemma live_next_TR fuel d o : TR fuel d o ->
    exists d', live_next I inext fuel d = (ohd o, d') /\ TR fuel d' (tl o).
  Proof.
    intros (l & H & HS & Hlen & ->).
    destruct (live_next_spec fuel d l H HS Hlen) as (d' & l' & E & H' & HS' & Hl' & Ho).
    exists d'. split; [exact E|]. exists l'. repeat split; auto; try lia.
  Qed.

  Lemma live_next_back_TR fuel d o : TR fuel d o ->
    exists d', live_next_back I inext_back fuel d = (olast o, d') /\ TR fuel d' (removelast o).
  Proof.
    intros (l & H & HS & Hlen & ->).
    destruct (live_next_back_spec fuel d l H HS Hlen) as (d' & l' & E & H' & HS' & Hl' & Ho).
    exists d'. split; [exact E|]. exists l'. repeat split; auto; try lia.
  Qed.
End LiveProofs.

(** * 6. The Merger behaves as a deque over the sorted union of its sources *)

(** abstract state of one source: (item held in the heap as front, items still in the
    iterator, item held in the heap as back) *)
Definition tri := (list entry * list entry * list entry)%type.
Definition fr (t : tri) : list entry := fst (fst t).
Definition mid (t : tri) : list entry := snd (fst t).
Definition bk (t : tri) : list entry := snd t.
Definition rem (t : tri) : list entry := fr t ++ mid t ++ bk t.

Fixpoint iflat {X : Type} (g : nat -> tri -> list X) (k : nat) (ts : list tri) : list X :=
  match ts with
  | [] => []
  | t :: ts' => g k t ++ iflat g (S k) ts'
  end.

Definition hg (i : nat) (t : tri) : heap := map (pair i) (fr t ++ bk t).
Definition heap_of (ts : list tri) : heap := iflat hg 0 ts.
Definition all_rem (ts : list tri) : list entry := iflat (fun _ t => rem t) 0 ts.

Definition tri_ok (ilo ihi : bool) (t : tri) : Prop :=
  (length (fr t) <= 1)%nat /\ (length (bk t) <= 1)%nat
  /\ StronglySorted ikey_lt (rem t)
  /\ (ilo = false -> fr t = []) /\ (ihi = false -> bk t = [])
  /\ (ilo = true -> fr t = [] -> mid t = [])
  /\ (ihi = true -> bk t = [] -> mid t = []).

Definition MRI (ilo ihi : bool) (srcs : list (list entry)) (h : heap) (L : list entry) : Prop :=
  exists ts, srcs = map mid ts /\ Permutation h (heap_of ts)
    /\ Forall (tri_ok ilo ihi) ts
    /\ Permutation L (all_rem ts) /\ StronglySorted ikey_lt L.

Definition MR (m : merger) (L : list entry) : Prop :=
  MRI (m_ilo m) (m_ihi m) (m_srcs m) (m_heap m) L.

Lemma iflat_ctx {X : Type} (g : nat -> tri -> list X) ts : forall k i t,
  nth_error ts i = Some t ->
  exists A B, iflat g k ts = A ++ g (k + i)%nat t ++ B
    /\ forall t', iflat g k (set_nth i t' ts) = A ++ g (k + i)%nat t' ++ B.
Proof.
  induction ts as [|t0 ts IH]; intros k i t Hn; [destruct i; discriminate|].
  destruct i as [|i]; cbn [nth_error] in Hn.
  - inversion Hn; subst t0. exists [], (iflat g (S k) ts). rewrite Nat.add_0_r.
    split; [reflexivity|]. intros t'. reflexivity.
  - destruct (IH (S k) i t Hn) as (A & B & E1 & E2).
    exists (g k t0 ++ A), B. rewrite <- Nat.add_succ_comm. cbn [iflat set_nth].
    split.
    + rewrite E1. now rewrite app_assoc.
    + intros t'. rewrite E2. now rewrite app_assoc.
Qed.

Lemma in_iflat {X : Type} (g : nat -> tri -> list X) ts : forall k x,
  In x (iflat g k ts) <-> exists i t, nth_error ts i = Some t /\ In x (g (k + i)%nat t).
Proof.
  induction ts as [|t0 ts IH]; intros k x; cbn [iflat].
  - split; [contradiction|]. intros (i & t & Hn & _). destruct i; discriminate.
  - rewrite in_app_iff, IH. split.
    + intros [H|(i & t & Hn & H)].
      * exists O, t0. rewrite Nat.add_0_r. auto.
      * exists (S i), t. rewrite <- Nat.add_succ_comm. auto.
    + intros (i & t & Hn & H). destruct i as [|i]; cbn [nth_error] in Hn.
      * inversion Hn; subst. rewrite Nat.add_0_r in H. auto.
      * right. exists i, t. rewrite <- Nat.add_succ_comm in H. auto.
Qed.

Lemma in_heap_of ts i e :
  In (i, e) (heap_of ts) <-> exists t, nth_error ts i = Some t /\ In e (fr t ++ bk t).
Proof.
  unfold heap_of. rewrite in_iflat. split.
  - intros (j & t & Hn & H). cbn [Nat.add] in H. unfold hg in H.
    apply in_map_iff in H. destruct H as (x & Ex & Hx). inversion Ex; subst. eauto.
  - intros (t & Hn & H). exists i, t. split; [exact Hn|]. cbn [Nat.add]. unfold hg.
    now apply in_map.
Qed.

Lemma in_all_rem ts e :
  In e (all_rem ts) <-> exists i t, nth_error ts i = Some t /\ In e (rem t).
Proof. unfold all_rem. apply in_iflat. Qed.

Lemma map_set_nth {A B : Type} (f : A -> B) i x l :
  map f (set_nth i x l) = set_nth i (f x) (map f l).
Proof.
  revert i; induction l as [|y l IH]; intros i; [destruct i; reflexivity|].
  destruct i; cbn [set_nth map]; [reflexivity|]. now rewrite IH.
Qed.

Lemma nth_map_error {A B : Type} (f : A -> B) l i x d :
  nth_error l i = Some x -> nth i (map f l) d = f x.
Proof.
  revert i; induction l as [|y l IH]; intros i Hn; [destruct i; discriminate|].
  destruct i; cbn in *; [now inversion Hn|auto].
Qed.

Lemma Forall_set_nth {A : Type} (P : A -> Prop) i x l :
  Forall P l -> P x -> Forall P (set_nth i x l).
Proof.
  intros HF Hx. revert i; induction HF as [|y l Hy HF IH]; intros i; [destruct i; constructor|].
  destruct i; cbn [set_nth]; constructor; auto.
Qed.

Lemma Forall_nth_error {A : Type} (P : A -> Prop) l i x :
  Forall P l -> nth_error l i = Some x -> P x.
Proof. intros HF Hn. rewrite Forall_forall in HF. apply HF. eapply nth_error_In; eauto. Qed.

(** ** the heap *)

Lemma heap_pop_min_spec h :
  match heap_pop_min h with
  | None => h = []
  | Some (x, r) =>
      Permutation h (x :: r) /\ forall y, In y h -> ikey_ltb (snd y) (snd x) = false
  end.
Proof.
  induction h as [|x h IH]; cbn [heap_pop_min]; [reflexivity|].
  destruct (heap_pop_min h) as [[y r]|].
  - destruct IH as [HP Hmin].
    destruct (ikey_ltb (snd y) (snd x)) eqn:E.
    + split.
      * eapply perm_trans; [apply perm_skip; exact HP|apply perm_swap].
      * intros z [<-|Hz]; [now apply rg_ikey_lt_nlt|auto].
    + split; [apply Permutation_refl|].
      intros z [<-|Hz].
      * destruct (ikey_ltb (snd x) (snd x)) eqn:E2; [|reflexivity].
        now apply rg_ikey_lt_irrefl in E2.
      * eapply rg_ikey_nlt_trans; [exact E|auto].
  - subst h. split; [apply Permutation_refl|].
    intros z [<-|[]]. destruct (ikey_ltb (snd x) (snd x)) eqn:E2; [|reflexivity].
    now apply rg_ikey_lt_irrefl in E2.
Qed.

Lemma heap_pop_max_spec h :
  match heap_pop_max h with
  | None => h = []
  | Some (x, r) =>
      Permutation h (x :: r) /\ forall y, In y h -> ikey_ltb (snd x) (snd y) = false
  end.
Proof.
  induction h as [|x h IH]; cbn [heap_pop_max]; [reflexivity|].
  destruct (heap_pop_max h) as [[y r]|].
  - destruct IH as [HP Hmax].
    destruct (ikey_ltb (snd x) (snd y)) eqn:E.
    + split.
      * eapply perm_trans; [apply perm_skip; exact HP|apply perm_swap].
      * intros z [<-|Hz]; [now apply rg_ikey_lt_nlt|auto].
    + split; [apply Permutation_refl|].
      intros z [<-|Hz].
      * destruct (ikey_ltb (snd x) (snd x)) eqn:E2; [|reflexivity].
        now apply rg_ikey_lt_irrefl in E2.
      * eapply rg_ikey_nlt_trans; [apply Hmax; exact Hz|exact E].
  - subst h. split; [apply Permutation_refl|].
    intros z [<-|[]]. destruct (ikey_ltb (snd x) (snd x)) eqn:E2; [|reflexivity].
    now apply rg_ikey_lt_irrefl in E2.
Qed.

(** ** lazy initialisation *)

Definition push_of (i : nat) (o : option entry) : heap :=
  match o with Some x => [(i, x)] | None => [] end.

Definition lo_step (t : tri) : tri :=
  match src_next (mid t) with (Some x, m') => ([x], m', bk t) | (None, _) => t end.
Definition hi_step (t : tri) : tri :=
  match src_next_back (mid t) with (Some x, m') => (fr t, m', [x]) | (None, _) => t end.

Lemma src_next_back_snoc l x : src_next_back (l ++ [x]) = (Some x, l).
Proof.
  destruct l as [|a l]; [reflexivity|]. cbn [app src_next_back].
  change (a :: l ++ [x]) with ((a :: l) ++ [x]).
  now rewrite last_last, rg_removelast_app_last.
Qed.

Lemma init_from_spec pop step (P : tri -> Prop) :
  (forall t, P t ->
     match pop (mid t) with
     | (Some x, m') => mid (step t) = m' /\ forall i, Permutation (hg i (step t)) ((i, x) :: hg i t)
     | (None, m') => step t = t /\ m' = mid t
     end) ->
  forall ts, Forall P ts -> forall idx h X, Permutation h (X ++ iflat hg idx ts) ->
    fst (init_from pop idx (map mid ts) h) = map mid (map step ts)
    /\ Permutation (snd (init_from pop idx (map mid ts) h)) (X ++ iflat hg idx (map step ts)).
Proof.
  intros Hstep ts HF. induction HF as [|t ts Ht HF IH]; intros idx h X HP.
  - cbn. split; [reflexivity|exact HP].
  - cbn [map init_from iflat] in *. specialize (Hstep t Ht).
    destruct (pop (mid t)) as [[x|] m'].
    + destruct Hstep as [Em Hh].
      assert (HP' : Permutation ((idx, x) :: h) ((X ++ hg idx (step t)) ++ iflat hg (S idx) ts)).
      { rewrite <- app_assoc.
        eapply perm_trans; [apply perm_skip; exact HP|].
        eapply perm_trans; [apply Permutation_middle|].
        apply Permutation_app_head. rewrite !app_comm_cons.
        apply Permutation_app_tail. apply Permutation_sym. apply Hh. }
      destruct (IH (S idx) _ _ HP') as [E1 E2].
      destruct (init_from pop (S idx) (map mid ts) ((idx, x) :: h)) as [rest' h''].
      cbn [fst snd] in *. split.
      * now rewrite Em, E1.
      * now rewrite <- app_assoc in E2.
    + destruct Hstep as [Et Em]. rewrite Et.
      assert (HP' : Permutation h ((X ++ hg idx t) ++ iflat hg (S idx) ts)).
      { now rewrite <- app_assoc. }
      destruct (IH (S idx) _ _ HP') as [E1 E2].
      destruct (init_from pop (S idx) (map mid ts) h) as [rest' h''].
      cbn [fst snd] in *. split.
      * now rewrite Em, E1.
      * now rewrite <- app_assoc in E2.
Qed.

Lemma all_rem_map_ext f ts :
  (forall t, In t ts -> rem (f t) = rem t) -> all_rem (map f ts) = all_rem ts.
Proof.
  unfold all_rem. generalize O. induction ts as [|t ts IH]; intros k H; [reflexivity|].
  cbn [map iflat]. rewrite H by (left; reflexivity). f_equal. apply IH.
  intros t' Ht'. apply H. right. exact Ht'.
Qed.

Lemma lo_step_rem t : fr t = [] -> rem (lo_step t) = rem t.
Proof.
  destruct t as [[f m] b]. unfold lo_step, rem, fr, mid, bk. cbn [fst snd]. intros ->.
  destruct m as [|x m]; reflexivity.
Qed.

Lemma hi_step_rem t : bk t = [] -> rem (hi_step t) = rem t.
Proof.
  destruct t as [[f m] b]. unfold hi_step, rem, fr, mid, bk. cbn [fst snd]. intros ->.
  destruct (rg_snoc_cases m) as [->|(m' & x & ->)]; [reflexivity|].
  rewrite src_next_back_snoc. cbn [fst snd]. rewrite ?app_nil_r, <- ?app_assoc. reflexivity.
Qed.

Lemma init_lo_MRI ihi srcs h L :
  MRI false ihi srcs h L ->
  MRI true ihi (fst (init_from src_next O srcs h)) (snd (init_from src_next O srcs h)) L.
Proof.
  intros (ts & -> & Hh & Hok & HL & HSS).
  assert (Hfr : Forall (fun t => fr t = []) ts).
  { rewrite Forall_forall in *. intros t Ht. destruct (Hok t Ht) as (_ & _ & _ & H & _). auto. }
  destruct (init_from_spec src_next lo_step (fun t => fr t = [])) with (ts := ts) (idx := O)
    (h := h) (X := @nil (nat * entry)) as [E1 E2]; [|exact Hfr|exact Hh|].
  { intros [[f m] b]. unfold lo_step, hg, fr, mid, bk. cbn [fst snd]. intros ->.
    destruct m as [|x m]; cbn [src_next fst snd]; [split; reflexivity|].
    split; [reflexivity|]. intros i. apply Permutation_refl. }
  exists (map lo_step ts). split; [exact E1|]. split; [exact E2|]. split; [|split; [|exact HSS]].
  - rewrite Forall_forall in *. intros t' Ht'. apply in_map_iff in Ht'.
    destruct Ht' as (t & <- & Ht). specialize (Hok t Ht).
    destruct t as [[f m] b]. unfold tri_ok, lo_step, rem, fr, mid, bk in *. cbn [fst snd] in *.
    destruct Hok as (Hf & Hb & HS & Hlo & Hhi & _ & Hbm). specialize (Hlo eq_refl). subst f.
    destruct m as [|x m]; cbn [src_next fst snd length app] in *.
    + repeat split; auto.
    + repeat split; auto; try discriminate. intros Hi Hb0. specialize (Hbm Hi Hb0). discriminate.
  - rewrite all_rem_map_ext; [exact HL|]. intros t Ht. apply lo_step_rem.
    rewrite Forall_forall in Hfr. auto.
Qed.

Lemma init_hi_MRI ilo srcs h L :
  MRI ilo false srcs h L ->
  MRI ilo true (fst (init_from src_next_back O srcs h)) (snd (init_from src_next_back O srcs h)) L.
Proof.
  intros (ts & -> & Hh & Hok & HL & HSS).
  assert (Hbk : Forall (fun t => bk t = []) ts).
  { rewrite Forall_forall in *. intros t Ht. destruct (Hok t Ht) as (_ & _ & _ & _ & H & _). auto. }
  destruct (init_from_spec src_next_back hi_step (fun t => bk t = [])) with (ts := ts) (idx := O)
    (h := h) (X := @nil (nat * entry)) as [E1 E2]; [|exact Hbk|exact Hh|].
  { intros [[f m] b]. unfold hi_step, hg, fr, mid, bk. cbn [fst snd]. intros ->.
    destruct (rg_snoc_cases m) as [->|(m' & x & ->)]; [split; reflexivity|].
    rewrite src_next_back_snoc. cbn [fst snd].
    split; [reflexivity|]. intros i. rewrite app_nil_r, map_app. cbn [map].
    apply Permutation_sym. apply Permutation_cons_append. }
  exists (map hi_step ts). split; [exact E1|]. split; [exact E2|]. split; [|split; [|exact HSS]].
  - rewrite Forall_forall in *. intros t' Ht'. apply in_map_iff in Ht'.
    destruct Ht' as (t & <- & Ht). specialize (Hok t Ht).
    destruct t as [[f m] b]. unfold tri_ok, hi_step, rem, fr, mid, bk in *. cbn [fst snd] in *.
    destruct Hok as (Hf & Hb & HS & Hlo & Hhi & Hfm & _). specialize (Hhi eq_refl). subst b.
    destruct (rg_snoc_cases m) as [->|(m' & x & ->)].
    + cbn [src_next_back fst snd length app] in *. repeat split; auto.
    + rewrite src_next_back_snoc. cbn [fst snd length]. rewrite app_nil_r in HS.
      repeat split; auto; try discriminate; try (now rewrite <- ?app_assoc in HS).
      intros Hi Hf0. specialize (Hfm Hi Hf0). destruct m'; discriminate.
  - rewrite all_rem_map_ext; [exact HL|]. intros t Ht. apply hi_step_rem.
    rewrite Forall_forall in Hbk. auto.
Qed.

(** ** popping *)

Lemma tri_head_in_heap ihi t a r :
  tri_ok true ihi t -> rem t = a :: r -> In a (fr t ++ bk t).
Proof.
  destruct t as [[f m] b]. unfold tri_ok, rem, fr, mid, bk. cbn [fst snd].
  intros (_ & _ & _ & _ & _ & Hfm & _) E.
  destruct f as [|x f].
  - rewrite (Hfm eq_refl eq_refl) in E. cbn [app] in *. rewrite E. left. reflexivity.
  - cbn [app] in E. inversion E; subst. left. reflexivity.
Qed.

Lemma tri_last_in_heap ilo t a r :
  tri_ok ilo true t -> rem t = r ++ [a] -> In a (fr t ++ bk t).
Proof.
  destruct t as [[f m] b]. unfold tri_ok, rem, fr, mid, bk. cbn [fst snd].
  intros (_ & _ & _ & _ & _ & _ & Hbm) E.
  destruct (rg_snoc_cases b) as [->|(b' & x & ->)].
  - rewrite (Hbm eq_refl eq_refl) in E. rewrite !app_nil_r in *. rewrite E.
    apply in_or_app. right. left. reflexivity.
  - rewrite !app_assoc in E. apply app_inj_tail in E. destruct E as [_ ->].
    apply in_or_app. right. apply in_or_app. right. left. reflexivity.
Qed.

Lemma tri_pop_front ihi t e r :
  tri_ok true ihi t -> rem t = e :: r ->
  exists t', mid t' = snd (src_next (mid t)) /\ rem t' = r /\ tri_ok true ihi t'
    /\ forall i, Permutation ((i, e) :: hg i t') (push_of i (fst (src_next (mid t))) ++ hg i t).
Proof.
  destruct t as [[f m] b]. unfold tri_ok, rem, hg, fr, mid, bk. cbn [fst snd].
  intros (Hf & Hb & HS & Hlo & Hhi & Hfm & Hbm) E.
  destruct f as [|a [|a2 f2]]; [| |cbn [length] in Hf; lia].
  - specialize (Hfm eq_refl eq_refl). subst m. cbn [app] in E.
    destruct b as [|b0 [|b1 b2]]; [discriminate| |cbn [length] in Hb; lia].
    inversion E; subst b0 r.
    exists ([], [], []). cbn [fst snd src_next app length map push_of].
    repeat split; auto; try constructor.
  - cbn [app] in E. inversion E; subst a r. inversion HS as [|? ? HS' _]; subst.
    destruct m as [|x m'].
    + exists ([], [], b). cbn [fst snd src_next app length map push_of].
      repeat split; auto; try lia.
    + exists ([x], m', b). cbn [fst snd src_next app length map push_of] in *.
      repeat split; auto; try discriminate.
      * intros Hi Hb0. specialize (Hbm Hi Hb0). discriminate.
      * intros i. apply perm_swap.
Qed.

Lemma tri_pop_back ilo t e r :
  tri_ok ilo true t -> rem t = r ++ [e] ->
  exists t', mid t' = snd (src_next_back (mid t)) /\ rem t' = r /\ tri_ok ilo true t'
    /\ forall i, Permutation ((i, e) :: hg i t') (push_of i (fst (src_next_back (mid t))) ++ hg i t).
Proof.
  destruct t as [[f m] b]. unfold tri_ok, rem, hg, fr, mid, bk. cbn [fst snd].
  intros (Hf & Hb & HS & Hlo & Hhi & Hfm & Hbm) E.
  destruct b as [|a [|a2 b2]]; [| |cbn [length] in Hb; lia].
  - specialize (Hbm eq_refl eq_refl). subst m. rewrite !app_nil_r in *.
    destruct f as [|f0 [|f1 f2]]; [destruct r; discriminate| |cbn [length] in Hf; lia].
    assert (r = [] /\ f0 = e) as [-> ->].
    { destruct r as [|r0 r]; [inversion E; auto|].
      inversion E as [[E1 E2]]. destruct r; discriminate. }
    exists ([], [], []). cbn [fst snd src_next_back app length map push_of].
    repeat split; auto; try constructor.
  - rewrite !app_assoc in E. apply app_inj_tail in E. destruct E as [<- ->].
    rewrite !app_assoc in HS. apply rg_SS_app_inv in HS. destruct HS as (HS' & _ & _).
    destruct (rg_snoc_cases m) as [->|(m' & x & ->)].
    + exists (f, [], []). cbn [fst snd src_next_back app length map push_of].
      rewrite !app_nil_r in *. repeat split; auto; try lia.
      intros i. rewrite map_app. cbn [map]. apply Permutation_cons_append.
    + rewrite src_next_back_snoc. exists (f, m', [x]). cbn [fst snd app length map push_of].
      repeat split; auto; try discriminate.
      * intros Hi Hf0. specialize (Hfm Hi Hf0). destruct m'; discriminate.
      * intros i. rewrite !map_app. cbn [map].
        eapply perm_trans; [apply perm_skip; apply Permutation_sym; apply Permutation_cons_append|].
        eapply perm_trans; [apply perm_swap|].
        apply perm_skip. apply Permutation_cons_append.
Qed.

Lemma heap_of_nil_rem ilo ihi ts :
  ilo = true \/ ihi = true ->
  Forall (tri_ok ilo ihi) ts -> heap_of ts = [] -> all_rem ts = [].
Proof.
  intros Hflag. unfold heap_of, all_rem. generalize O.
  induction ts as [|t ts IH]; intros k HF E; [reflexivity|].
  cbn [iflat] in *. apply app_eq_nil in E. destruct E as [E1 E2].
  inversion HF as [|? ? Ht HF']; subst. rewrite (IH _ HF' E2), app_nil_r.
  unfold hg in E1. apply map_eq_nil in E1. apply app_eq_nil in E1. destruct E1 as [Ef Eb].
  destruct Ht as (_ & _ & _ & _ & _ & Hfm & Hbm). unfold rem. rewrite Ef, Eb.
  destruct Hflag as [->| ->]; [rewrite (Hfm eq_refl Ef)|rewrite (Hbm eq_refl Eb)]; reflexivity.
Qed.

(** the heap update shared by both directions *)
Lemma heap_update h h' i e o A B (gt gt' : heap) :
  Permutation h ((i, e) :: h') -> Permutation h (A ++ gt ++ B) ->
  Permutation ((i, e) :: gt') (push_of i o ++ gt) ->
  Permutation (push_of i o ++ h') (A ++ gt' ++ B).
Proof.
  intros H1 H2 H3. apply (Permutation_cons_inv (a := (i, e))).
  eapply perm_trans; [apply Permutation_middle|].
  eapply perm_trans; [apply Permutation_app_head; apply Permutation_sym; exact H1|].
  eapply perm_trans; [apply Permutation_app_head; exact H2|].
  eapply perm_trans; [apply Permutation_app_swap_app|].
  apply Permutation_sym. eapply perm_trans; [apply Permutation_middle|].
  apply Permutation_app_head.
  change ((i, e) :: gt' ++ B) with (((i, e) :: gt') ++ B). rewrite (app_assoc (push_of i o)).
  apply Permutation_app_tail. exact H3.
Qed.

Lemma pop_min_MRI ihi srcs h L :
  MRI true ihi srcs h L ->
  match heap_pop_min h with
  | None => L = []
  | Some ((i, e), h') =>
      exists L', L = e :: L' /\
        MRI true ihi (set_nth i (snd (src_next (nth i srcs []))) srcs)
            (push_of i (fst (src_next (nth i srcs []))) ++ h') L'
  end.
Proof.
  intros (ts & -> & Hh & Hok & HL & HSS).
  pose proof (heap_pop_min_spec h) as Hp.
  destruct (heap_pop_min h) as [[[i e] h']|].
  - destruct Hp as [HP Hmin].
    assert (Hin : In (i, e) (heap_of ts)).
    { eapply Permutation_in; [exact Hh|]. eapply Permutation_in; [apply Permutation_sym; exact HP|].
      left. reflexivity. }
    apply in_heap_of in Hin. destruct Hin as (t & Hn & Hin).
    pose proof (Forall_nth_error _ _ _ _ Hok Hn) as Ht.
    assert (HeL : forall x, In x (rem t) -> In x L).
    { intros x Hx. eapply Permutation_in; [apply Permutation_sym; exact HL|].
      apply in_all_rem. eauto. }
    assert (Her : In e (rem t)).
    { unfold rem. apply in_app_or in Hin. apply in_or_app.
      destruct Hin; [left|right; apply in_or_app; right]; assumption. }
    assert (HminL : forall x, In x L -> ikey_ltb x e = false).
    { intros x Hx. eapply Permutation_in in Hx; [|exact HL].
      apply in_all_rem in Hx. destruct Hx as (j & tj & Hnj & Hxj).
      pose proof (Forall_nth_error _ _ _ _ Hok Hnj) as Htj.
      destruct (rem tj) as [|a r] eqn:Er; [contradiction|].
      pose proof (tri_head_in_heap _ _ _ _ Htj Er) as Ha.
      assert (Hah : In (j, a) h).
      { eapply Permutation_in; [apply Permutation_sym; exact Hh|]. apply in_heap_of. eauto. }
      specialize (Hmin _ Hah). cbn [snd] in Hmin.
      destruct Hxj as [<-|Hxr]; [exact Hmin|].
      destruct Htj as (_ & _ & HSj & _). rewrite Er in HSj. inversion HSj as [|? ? _ HFj]; subst.
      rewrite Forall_forall in HFj. specialize (HFj x Hxr).
      destruct (ikey_ltb x e) eqn:Exe; [|reflexivity]. exfalso.
      assert (Hae : ikey_lt a e) by (eapply rg_ikey_lt_trans; eauto).
      unfold ikey_lt in Hae. congruence. }
    destruct (rg_sorted_min_head L e HSS (HeL e Her) HminL) as (L' & ->).
    exists L'. split; [reflexivity|].
    assert (HSt : StronglySorted ikey_lt (rem t)) by (destruct Ht as (_ & _ & H & _); exact H).
    destruct (rg_sorted_min_head (rem t) e HSt Her) as (r & Er).
    { intros x Hx. apply HminL. auto. }
    destruct (tri_pop_front ihi t e r Ht Er) as (t' & Em & Er' & Ht' & Hperm).
    rewrite (nth_map_error mid ts i t [] Hn).
    exists (set_nth i t' ts). split; [|split; [|split; [|split]]].
    + now rewrite map_set_nth, Em.
    + destruct (iflat_ctx hg ts O i t Hn) as (A & B & E1 & E2). unfold heap_of. rewrite E2.
      cbn [Nat.add] in *. eapply heap_update; [exact HP| |apply Hperm].
      unfold heap_of in Hh. now rewrite E1 in Hh.
    + apply Forall_set_nth; assumption.
    + destruct (iflat_ctx (fun _ t => rem t) ts O i t Hn) as (A & B & E1 & E2).
      unfold all_rem in *. rewrite E2, Er'. rewrite E1, Er in HL. cbn [app] in HL.
      eapply Permutation_cons_app_inv. exact HL.
    + now inversion HSS.
  - subst h. apply Permutation_nil in Hh.
    rewrite (heap_of_nil_rem true ihi ts) in HL; auto.
    now apply Permutation_sym, Permutation_nil in HL.
Qed.

Lemma pop_max_MRI ilo srcs h L :
  MRI ilo true srcs h L ->
  match heap_pop_max h with
  | None => L = []
  | Some ((i, e), h') =>
      exists L', L = L' ++ [e] /\
        MRI ilo true (set_nth i (snd (src_next_back (nth i srcs []))) srcs)
            (push_of i (fst (src_next_back (nth i srcs []))) ++ h') L'
  end.
Proof.
  intros (ts & -> & Hh & Hok & HL & HSS).
  pose proof (heap_pop_max_spec h) as Hp.
  destruct (heap_pop_max h) as [[[i e] h']|].
  - destruct Hp as [HP Hmax].
    assert (Hin : In (i, e) (heap_of ts)).
    { eapply Permutation_in; [exact Hh|]. eapply Permutation_in; [apply Permutation_sym; exact HP|].
      left. reflexivity. }
    apply in_heap_of in Hin. destruct Hin as (t & Hn & Hin).
    pose proof (Forall_nth_error _ _ _ _ Hok Hn) as Ht.
    assert (HeL : forall x, In x (rem t) -> In x L).
    { intros x Hx. eapply Permutation_in; [apply Permutation_sym; exact HL|].
      apply in_all_rem. eauto. }
    assert (Her : In e (rem t)).
    { unfold rem. apply in_app_or in Hin. apply in_or_app.
      destruct Hin; [left|right; apply in_or_app; right]; assumption. }
    assert (HmaxL : forall x, In x L -> ikey_ltb e x = false).
    { intros x Hx. eapply Permutation_in in Hx; [|exact HL].
      apply in_all_rem in Hx. destruct Hx as (j & tj & Hnj & Hxj).
      pose proof (Forall_nth_error _ _ _ _ Hok Hnj) as Htj.
      destruct (rg_snoc_cases (rem tj)) as [Er|(r & a & Er)]; [rewrite Er in Hxj; contradiction|].
      pose proof (tri_last_in_heap _ _ _ _ Htj Er) as Ha.
      assert (Hah : In (j, a) h).
      { eapply Permutation_in; [apply Permutation_sym; exact Hh|]. apply in_heap_of. eauto. }
      specialize (Hmax _ Hah). cbn [snd] in Hmax.
      rewrite Er in Hxj. apply in_app_or in Hxj.
      destruct Hxj as [Hxr|[<-|[]]]; [|exact Hmax].
      destruct Htj as (_ & _ & HSj & _). rewrite Er in HSj.
      apply rg_SS_app_inv in HSj. destruct HSj as (_ & _ & HFj).
      specialize (HFj x a Hxr (or_introl eq_refl)).
      destruct (ikey_ltb e x) eqn:Exe; [|reflexivity]. exfalso.
      assert (Hae : ikey_lt e a) by (eapply rg_ikey_lt_trans; eauto).
      unfold ikey_lt in Hae. congruence. }
    destruct (rg_sorted_max_last L e HSS (HeL e Her) HmaxL) as (L' & ->).
    exists L'. split; [reflexivity|].
    assert (HSt : StronglySorted ikey_lt (rem t)) by (destruct Ht as (_ & _ & H & _); exact H).
    destruct (rg_sorted_max_last (rem t) e HSt Her) as (r & Er).
    { intros x Hx. apply HmaxL. auto. }
    destruct (tri_pop_back ilo t e r Ht Er) as (t' & Em & Er' & Ht' & Hperm).
    rewrite (nth_map_error mid ts i t [] Hn).
    exists (set_nth i t' ts). split; [|split; [|split; [|split]]].
    + now rewrite map_set_nth, Em.
    + destruct (iflat_ctx hg ts O i t Hn) as (A & B & E1 & E2). unfold heap_of. rewrite E2.
      cbn [Nat.add] in *. eapply heap_update; [exact HP| |apply Hperm].
      unfold heap_of in Hh. now rewrite E1 in Hh.
    + apply Forall_set_nth; assumption.
    + destruct (iflat_ctx (fun _ t => rem t) ts O i t Hn) as (A & B & E1 & E2).
      unfold all_rem in *. rewrite E2, Er'. rewrite E1, Er in HL.
      rewrite app_assoc. apply Permutation_cons_app_inv with (a := e).
      eapply perm_trans; [apply Permutation_cons_append|].
      eapply perm_trans; [exact HL|]. rewrite <- !app_assoc. cbn [app]. apply Permutation_refl.
    + now apply rg_SS_app_inv in HSS.
  - subst h. apply Permutation_nil in Hh.
    rewrite (heap_of_nil_rem ilo true ts) in HL; auto.
    now apply Permutation_sym, Permutation_nil in HL.
Qed.

Lemma merge_next_spec m L : MR m L ->
  exists m', merge_next m = (ohd L, m') /\ MR m' (tl L).
Proof.
  unfold MR, merge_next. destruct m as [srcs h ilo ihi]. cbn [m_srcs m_heap m_ilo m_ihi].
  intros H.
  assert (H1 : exists srcs1 h1,
    (if ilo then mkMg srcs h ilo ihi
     else let (srcs', h') := init_from src_next O srcs h in mkMg srcs' h' true ihi)
    = mkMg srcs1 h1 true ihi /\ MRI true ihi srcs1 h1 L).
  { destruct ilo.
    - exists srcs, h. auto.
    - apply init_lo_MRI in H. destruct (init_from src_next O srcs h) as [s' h'].
      exists s', h'. auto. }
  destruct H1 as (srcs1 & h1 & -> & H1). cbn [m_srcs m_heap m_ilo m_ihi].
  pose proof (pop_min_MRI _ _ _ _ H1) as Hp. destruct (heap_pop_min h1) as [[[i e] h']|].
  - destruct Hp as (L' & -> & Hp).
    destruct (src_next (nth i srcs1 [])) as [o s'] eqn:E. cbn [fst snd] in Hp.
    eexists. split; [reflexivity|]. cbn [tl m_srcs m_heap m_ilo m_ihi].
    destruct o; exact Hp.
  - subst L. eexists. split; [reflexivity|]. exact H1.
Qed.

Lemma merge_next_back_spec m L : MR m L ->
  exists m', merge_next_back m = (olast L, m') /\ MR m' (removelast L).
Proof.
  unfold MR, merge_next_back. destruct m as [srcs h ilo ihi]. cbn [m_srcs m_heap m_ilo m_ihi].
  intros H.
  assert (H1 : exists srcs1 h1,
    (if ihi then mkMg srcs h ilo ihi
     else let (srcs', h') := init_from src_next_back O srcs h in mkMg srcs' h' ilo true)
    = mkMg srcs1 h1 ilo true /\ MRI ilo true srcs1 h1 L).
  { destruct ihi.
    - exists srcs, h. auto.
    - apply init_hi_MRI in H. destruct (init_from src_next_back O srcs h) as [s' h'].
      exists s', h'. auto. }
  destruct H1 as (srcs1 & h1 & -> & H1). cbn [m_srcs m_heap m_ilo m_ihi].
  pose proof (pop_max_MRI _ _ _ _ H1) as Hp. destruct (heap_pop_max h1) as [[[i e] h']|].
  - destruct Hp as (L' & -> & Hp).
    destruct (src_next_back (nth i srcs1 [])) as [o s'] eqn:E. cbn [fst snd] in Hp.
    eexists. split; [rewrite olast_snoc; reflexivity|].
    rewrite rg_removelast_app_last. cbn [m_srcs m_heap m_ilo m_ihi].
    destruct o; exact Hp.
  - subst L. eexists. split; [reflexivity|]. exact H1.
Qed.

(** a fresh merger over sorted sources whose sorted union is [L] *)
Lemma merger_new_MR srcs L :
  Forall (StronglySorted ikey_lt) srcs -> StronglySorted ikey_lt L ->
  Permutation L (concat srcs) -> MR (merger_new srcs) L.
Proof.
  intros HF HSS HP. unfold MR, merger_new. cbn [m_srcs m_heap m_ilo m_ihi].
  exists (map (fun s => ([], s, [])) srcs).
  assert (E1 : forall k, iflat hg k (map (fun s => ([], s, [])) srcs) = []).
  { clear. induction srcs as [|s srcs IH]; intros k; [reflexivity|].
    cbn [map iflat]. rewrite IH. reflexivity. }
  assert (E2 : forall k, iflat (fun _ t => rem t) k (map (fun s => ([], s, [])) srcs) = concat srcs).
  { clear. induction srcs as [|s srcs IH]; intros k; [reflexivity|].
    cbn [map iflat concat]. rewrite IH. unfold rem, fr, mid, bk. cbn [fst snd app].
    now rewrite app_nil_r. }
  split; [|split; [|split; [|split]]].
  - rewrite map_map. cbn. now rewrite map_id.
  - unfold heap_of. rewrite E1. apply Permutation_refl.
  - rewrite Forall_forall in *. intros t Ht. apply in_map_iff in Ht.
    destruct Ht as (s & <- & Hs). unfold tri_ok, rem, fr, mid, bk. cbn [fst snd app length].
    rewrite app_nil_r. repeat split; auto; discriminate.
  - unfold all_rem. now rewrite E2.
  - exact HSS.
Qed.
