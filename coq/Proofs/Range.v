(** Exactness of the range-scan read path (Model/Range.v) against the ordered-map Spec
    (Model/Entry.v: [spec_range]) for every interleaving of next / next_back. *)
From LsmV Require Import Model.Range Proofs.Newest.
From Coq Require Import Permutation Sorting.Sorted.
Open Scope N_scope.
Arguments N.add : simpl never.
Arguments N.sub : simpl never.
Arguments N.mul : simpl never.
Arguments N.ltb : simpl never.
Arguments N.leb : simpl never.
Arguments N.eqb : simpl never.

(** * 1. InternalKey order *)

Lemma rg_ikey_ltb_iff a b :
  ikey_ltb a b = true <-> key_lt (ukey a) (ukey b) \/ (ukey a = ukey b /\ seq b < seq a).
Proof.
  unfold ikey_ltb, key_lt. destruct (key_cmp (ukey a) (ukey b)) eqn:E.
  - apply key_cmp_eq in E. rewrite N.ltb_lt. split.
    + intros H. right. auto.
    + intros [H|[_ H]]; [discriminate|exact H].
  - split; auto.
  - split; [discriminate|]. intros [H|[H _]]; [discriminate|].
    apply key_cmp_eq in H. congruence.
Qed.

Lemma rg_ikey_ltb_false a b :
  ikey_ltb a b = false <-> key_lt (ukey b) (ukey a) \/ (ukey a = ukey b /\ seq a <= seq b).
Proof.
  unfold ikey_ltb. destruct (key_cmp (ukey a) (ukey b)) eqn:E.
  - apply key_cmp_eq in E. rewrite N.ltb_ge. split.
    + intros H. right. auto.
    + intros [H|[_ H]]; [|exact H]. rewrite E in H. now apply key_lt_irrefl in H.
  - split; [discriminate|]. intros [H|[H _]].
    + exfalso. eapply key_lt_irrefl. eapply key_lt_trans; [exact E|exact H].
    + apply key_cmp_eq in H. congruence.
  - split; auto. intros _. left. now apply key_lt_gt.
Qed.

Lemma rg_ikey_lt_irrefl a : ~ ikey_lt a a.
Proof.
  unfold ikey_lt. rewrite rg_ikey_ltb_iff. intros [H|[_ H]]; [now apply key_lt_irrefl in H|lia].
Qed.

Lemma rg_ikey_lt_trans a b c : ikey_lt a b -> ikey_lt b c -> ikey_lt a c.
Proof.
  unfold ikey_lt. rewrite !rg_ikey_ltb_iff.
  intros [H1|[E1 H1]] [H2|[E2 H2]].
  - left. eapply key_lt_trans; eauto.
  - left. now rewrite <- E2.
  - left. now rewrite E1.
  - right. split; [congruence|lia].
Qed.

Lemma rg_ikey_lt_asym a b : ikey_lt a b -> ikey_lt b a -> False.
Proof. intros H1 H2. eapply rg_ikey_lt_irrefl. eapply rg_ikey_lt_trans; eauto. Qed.

(** negative transitivity: ikey_ltb is a strict weak order *)
Lemma rg_ikey_nlt_trans a b c :
  ikey_ltb b a = false -> ikey_ltb c b = false -> ikey_ltb c a = false.
Proof.
  rewrite !rg_ikey_ltb_false.
  intros [H1|[E1 H1]] [H2|[E2 H2]].
  - left. eapply key_lt_trans; eauto.
  - left. now rewrite E2.
  - left. now rewrite <- E1.
  - right. split; [congruence|lia].
Qed.

Lemma rg_ikey_lt_key_le a b : ikey_lt a b -> key_le (ukey a) (ukey b).
Proof.
  unfold ikey_lt. rewrite rg_ikey_ltb_iff. intros [H|[H _]].
  - now apply key_lt_le.
  - rewrite H. apply key_le_refl.
Qed.

Lemma rg_ikey_lt_nlt a b : ikey_lt a b -> ikey_ltb b a = false.
Proof.
  intros H. destruct (ikey_ltb b a) eqn:E; [|reflexivity].
  exfalso. eapply rg_ikey_lt_asym; eauto.
Qed.

(** * 2. Generic list lemmas *)

Lemma rg_SS_filter {A} (R : A -> A -> Prop) p l :
  StronglySorted R l -> StronglySorted R (filter p l).
Proof.
  induction 1 as [|x l HS IH HF]; simpl; [constructor|].
  destruct (p x); [|exact IH]. constructor; [exact IH|].
  rewrite Forall_forall in *. intros y Hy. apply filter_In in Hy. apply HF. tauto.
Qed.

Lemma rg_SS_app_inv {A} (R : A -> A -> Prop) a b :
  StronglySorted R (a ++ b) ->
  StronglySorted R a /\ StronglySorted R b /\ (forall x y, In x a -> In y b -> R x y).
Proof.
  induction a as [|x a IH]; simpl; intros H.
  - repeat split; [constructor|exact H|contradiction].
  - inversion H as [|? ? HS HF]; subst. destruct (IH HS) as (Ha & Hb & Hab).
    rewrite Forall_forall in HF. repeat split.
    + constructor; [exact Ha|]. rewrite Forall_forall. intros y Hy. apply HF.
      apply in_or_app. auto.
    + exact Hb.
    + intros x' y [->|Hx] Hy; [apply HF; apply in_or_app; auto|auto].
Qed.

Lemma rg_SS_app {A} (R : A -> A -> Prop) a b :
  StronglySorted R a -> StronglySorted R b -> (forall x y, In x a -> In y b -> R x y) ->
  StronglySorted R (a ++ b).
Proof.
  induction a as [|x a IH]; simpl; intros Ha Hb Hab; [exact Hb|].
  inversion Ha as [|? ? HS HF]; subst. constructor.
  - apply IH; auto.
  - rewrite Forall_forall in *. intros y Hy. apply in_app_or in Hy. destruct Hy; auto.
Qed.

Lemma rg_SS_tl {A} (R : A -> A -> Prop) l : StronglySorted R l -> StronglySorted R (tl l).
Proof. destruct 1; simpl; [constructor|assumption]. Qed.

Lemma rg_removelast_app_last {A} (l : list A) x : removelast (l ++ [x]) = l.
Proof. rewrite removelast_app by discriminate. simpl. apply app_nil_r. Qed.

Lemma rg_last_app_last {A} (l : list A) x d : last (l ++ [x]) d = x.
Proof. apply last_last. Qed.

(** a non-empty list splits off its last element *)
Lemma rg_snoc_cases {A} (l : list A) : l = [] \/ exists l' x, l = l' ++ [x].
Proof.
  destruct l as [|a l]; [left; reflexivity|right].
  exists (removelast (a :: l)), (last (a :: l) a). apply app_removelast_last. discriminate.
Qed.

Lemma rg_SS_removelast {A} (R : A -> A -> Prop) l :
  StronglySorted R l -> StronglySorted R (removelast l).
Proof.
  intros H. destruct (rg_snoc_cases l) as [->|(l' & x & ->)]; [exact H|].
  rewrite rg_removelast_app_last. now apply rg_SS_app_inv in H.
Qed.

Lemma rg_sorted_SS l : sorted_b l = true -> StronglySorted ikey_lt l.
Proof.
  induction l as [|e l IH]; [constructor|].
  destruct l as [|e' l]; [intros _; repeat constructor|].
  intros H. change (ikey_ltb e e' && sorted_b (e' :: l) = true) in H.
  apply andb_true_iff in H. destruct H as [H1 H2]. specialize (IH H2).
  constructor; [exact IH|]. inversion IH as [|? ? HS HF]; subst.
  constructor; [exact H1|]. rewrite Forall_forall in *. intros y Hy.
  eapply rg_ikey_lt_trans; [exact H1|auto].
Qed.

Lemma rg_SS_NoDup l : StronglySorted ikey_lt l -> NoDup l.
Proof.
  induction 1 as [|x l HS IH HF]; constructor; [|exact IH].
  intros Hin. rewrite Forall_forall in HF. apply (rg_ikey_lt_irrefl x). auto.
Qed.

(** a member of a strictly sorted list below all others is its head *)
Lemma rg_sorted_min_head l e :
  StronglySorted ikey_lt l -> In e l -> (forall x, In x l -> ikey_ltb x e = false) ->
  exists l', l = e :: l'.
Proof.
  intros HS Hin Hmin. destruct l as [|h l']; [contradiction|].
  destruct Hin as [->|Hin]; [eauto|]. exfalso.
  inversion HS as [|? ? _ HF]; subst. rewrite Forall_forall in HF.
  specialize (HF e Hin). specialize (Hmin h (or_introl eq_refl)).
  unfold ikey_lt in HF. congruence.
Qed.

Lemma rg_sorted_max_last l e :
  StronglySorted ikey_lt l -> In e l -> (forall x, In x l -> ikey_ltb e x = false) ->
  exists l', l = l' ++ [e].
Proof.
  intros HS Hin Hmax. destruct (rg_snoc_cases l) as [->|(l' & x & ->)]; [contradiction|].
  apply in_app_or in Hin. destruct Hin as [Hin|[->|[]]]; [|eauto]. exfalso.
  apply rg_SS_app_inv in HS. destruct HS as (_ & _ & HF).
  specialize (HF e x Hin (or_introl eq_refl)).
  assert (Hx : In x (l' ++ [x])) by (apply in_or_app; right; left; reflexivity).
  specialize (Hmax x Hx). unfold ikey_lt in HF. congruence.
Qed.

(** two members of a strictly sorted list are equal or strictly ordered *)
Lemma rg_sorted_trich l a b :
  StronglySorted ikey_lt l -> In a l -> In b l -> a = b \/ ikey_lt a b \/ ikey_lt b a.
Proof.
  induction 1 as [|x l HS IH HF]; [contradiction|].
  rewrite Forall_forall in HF. intros [->|Ha] [->|Hb]; auto.
Qed.

(** * 3. Bound widening *)

Theorem bounds_widening lo hi e :
  seq e <= MAX_SEQNO -> ikey_in_range lo hi e = in_bounds lo hi (ukey e).
Proof.
  intros Hs. unfold ikey_in_range, in_bounds. f_equal.
  - destruct lo as [k|k|]; simpl; [| |reflexivity].
    + unfold before_probe, key_leb. rewrite (key_cmp_antisym (ukey e) k).
      destruct (key_cmp (ukey e) k); simpl; try reflexivity.
      apply negb_true_iff. apply N.ltb_ge. exact Hs.
    + unfold after_probe, key_ltb. rewrite (key_cmp_antisym (ukey e) k).
      destruct (key_cmp (ukey e) k); simpl; try reflexivity.
      apply N.ltb_ge. lia.
  - destruct hi as [k|k|]; simpl; [| |reflexivity].
    + unfold after_probe, key_leb.
      destruct (key_cmp (ukey e) k); simpl; try reflexivity.
      apply negb_true_iff. apply N.ltb_ge. lia.
    + unfold before_probe, key_ltb.
      destruct (key_cmp (ukey e) k); simpl; try reflexivity.
      apply N.ltb_ge. exact Hs.
Qed.

(** inverted and empty ranges select nothing *)
Lemma in_bounds_inverted lo hi k a b :
  (lo = Incl a \/ lo = Excl a) -> (hi = Incl b \/ hi = Excl b) -> key_lt b a ->
  in_bounds lo hi k = false.
Proof.
  intros Hlo Hhi Hba. unfold in_bounds.
  destruct (lo_ok lo k) eqn:E1; [|reflexivity]. destruct (hi_ok hi k) eqn:E2; [|reflexivity].
  exfalso. assert (A : key_le a k).
  { destruct Hlo as [-> | ->]; simpl in E1; key_prop; [exact E1|now apply key_lt_le]. }
  assert (B : key_le k b).
  { destruct Hhi as [-> | ->]; simpl in E2; key_prop; [exact E2|now apply key_lt_le]. }
  eapply key_lt_irrefl. eapply key_lt_le_trans; [exact Hba|]. eapply key_le_trans; eauto.
Qed.

Lemma in_bounds_empty a k :
  in_bounds (Excl a) (Excl a) k = false /\ in_bounds (Incl a) (Excl a) k = false
  /\ in_bounds (Excl a) (Incl a) k = false.
Proof.
  unfold in_bounds; simpl. unfold key_ltb, key_leb. rewrite (key_cmp_antisym k a).
  destruct (key_cmp k a); simpl; auto.
Qed.

Corollary mt_range_inverted l lo hi a b :
  (forall e, In e l -> seq e <= MAX_SEQNO) ->
  (lo = Incl a \/ lo = Excl a) -> (hi = Incl b \/ hi = Excl b) -> key_lt b a ->
  mt_range l lo hi = [].
Proof.
  intros Hs Hlo Hhi Hba. unfold mt_range.
  induction l as [|e l IH]; [reflexivity|]. simpl.
  rewrite bounds_widening by (apply Hs; left; reflexivity).
  rewrite (in_bounds_inverted lo hi (ukey e) a b Hlo Hhi Hba).
  apply IH. intros x Hx. apply Hs. right. exact Hx.
Qed.
