(** Prefix scans: [prefix_to_range p] selects exactly the keys that start with [p]. *)
From Coq Require Import PeanoNat.
From LsmV Require Import Base.Bytes Model.Entry Model.Prefix.
Open Scope N_scope.
Arguments N.add : simpl never.
Arguments N.sub : simpl never.
Arguments N.mul : simpl never.
Arguments N.ltb : simpl never.
Arguments N.leb : simpl never.
Arguments N.eqb : simpl never.
Arguments N.compare : simpl never.

Definition wf_key (k : key) : Prop := Forall (fun b => b < 256) k.

(** ** [is_prefix] is what it says *)

Lemma is_prefix_spec p k : is_prefix p k = true <-> exists s, k = p ++ s.
Proof.
  revert k; induction p as [|x p IH]; intros k; cbn [is_prefix].
  - split; [intros _; now exists k | reflexivity].
  - destruct k as [|y k].
    + split; [discriminate | intros [s Hs]; discriminate].
    + rewrite andb_true_iff, N.eqb_eq, IH. split.
      * intros [-> [s ->]]. now exists s.
      * intros [s Hs]. cbn in Hs. injection Hs as -> ->. split; [reflexivity | now exists s].
Qed.

Lemma is_prefix_app p s : is_prefix p (p ++ s) = true.
Proof. apply is_prefix_spec. now exists s. Qed.

Lemma is_prefix_skipn p k : is_prefix p k = true -> k = p ++ skipn (length p) k.
Proof.
  intros H. apply is_prefix_spec in H as [s ->].
  rewrite skipn_app, skipn_all, Nat.sub_diag. reflexivity.
Qed.

(** ** the reversed loop equals a structural recursion from the front *)

Fixpoint upper_key (p : key) : option key :=
  match p with
  | [] => None
  | b :: p' =>
      match upper_key p' with
      | Some e => Some (b :: e)
      | None => if b <? 255 then Some [b + 1] else None
      end
  end.

Lemma upper_loop_snoc r b :
  upper_loop (r ++ [b]) =
  match upper_loop r with
  | Some e => Some (b :: e)
  | None => if b <? 255 then Some [b + 1] else None
  end.
Proof.
  induction r as [|c r IH]; cbn [upper_loop app].
  - reflexivity.
  - destruct (c <? 255) eqn:Ec.
    + rewrite rev_app_distr. reflexivity.
    + exact IH.
Qed.

Lemma upper_loop_rev p : upper_loop (rev p) = upper_key p.
Proof.
  induction p as [|b p IH]; cbn [rev upper_key]; [reflexivity|].
  rewrite upper_loop_snoc, IH. reflexivity.
Qed.

(** ** exactness *)

Lemma key_cmp_cons x a y b :
  key_cmp (x :: a) (y :: b) = match x ?= y with Eq => key_cmp a b | c => c end.
Proof. reflexivity. Qed.

Lemma upper_key_exact p : wf_key p -> forall k, wf_key k ->
  match upper_key p with
  | Some u => key_leb p k && key_ltb k u
  | None => key_leb p k
  end = is_prefix p k.
Proof.
  intros Hp. induction Hp as [|b p Hb Hp IH]; intros k Hk.
  - cbn. now destruct k.
  - destruct Hk as [|c k Hc Hk]; cbn [upper_key is_prefix].
    + destruct (upper_key p); [|destruct (b <? 255)]; reflexivity.
    + specialize (IH k Hk).
      unfold key_leb, key_ltb in *. rewrite !key_cmp_cons.
      destruct (upper_key p) as [u|].
      * rewrite key_cmp_cons. rewrite (N.compare_antisym b c).
        destruct (N.compare_spec b c) as [->|Hlt|Hgt]; cbn [CompOpp].
        -- rewrite N.eqb_refl. exact IH.
        -- replace (b =? c) with false by (symmetry; apply N.eqb_neq; lia). reflexivity.
        -- replace (b =? c) with false by (symmetry; apply N.eqb_neq; lia). reflexivity.
      * destruct (b <? 255) eqn:Eb.
        -- apply N.ltb_lt in Eb. rewrite key_cmp_cons.
           destruct (N.compare_spec b c) as [->|Hlt|Hgt].
           ++ rewrite N.eqb_refl.
              replace (c ?= c + 1) with Lt by (symmetry; apply N.compare_lt_iff; lia).
              rewrite andb_true_r. exact IH.
           ++ replace (b =? c) with false by (symmetry; apply N.eqb_neq; lia).
              destruct (N.compare_spec c (b + 1)) as [E|Hlt'|Hgt']; [|lia|reflexivity].
              now destruct k.
           ++ replace (b =? c) with false by (symmetry; apply N.eqb_neq; lia). reflexivity.
        -- apply N.ltb_ge in Eb.
           destruct (N.compare_spec b c) as [->|Hlt|Hgt].
           ++ rewrite N.eqb_refl. exact IH.
           ++ lia.
           ++ replace (b =? c) with false by (symmetry; apply N.eqb_neq; lia). reflexivity.
Qed.

(** the upper bound alone, next to [Incl p] *)
Lemma prefix_upper_range_exact p k : wf_key p -> wf_key k ->
  lo_ok (Incl p) k && hi_ok (prefix_upper_range p) k = is_prefix p k.
Proof.
  intros Hp Hk. unfold prefix_upper_range. rewrite upper_loop_rev.
  pose proof (upper_key_exact p Hp k Hk) as H.
  destruct (upper_key p); cbn [lo_ok hi_ok]; [exact H | now rewrite andb_true_r].
Qed.

(** MAIN.  (The hypothesis [p <> []] of the requested statement is not needed.) *)
Theorem prefix_to_range_exact : forall p k,
  Forall (fun b => b < 256) p -> Forall (fun b => b < 256) k ->
  let '(lo, hi) := prefix_to_range p in in_bounds lo hi k = is_prefix p k.
Proof.
  intros p k Hp Hk. destruct p as [|b p]; [reflexivity|].
  cbn [prefix_to_range]. apply prefix_upper_range_exact; assumption.
Qed.

Theorem prefix_to_range_empty : prefix_to_range [] = (Unb, Unb).
Proof. reflexivity. Qed.

(** all-0xFF prefixes have no upper bound, everything else has an exclusive one *)
Theorem prefix_upper_range_unbounded p :
  prefix_upper_range p = Unb <-> Forall (fun b => 255 <= b) p.
Proof.
  unfold prefix_upper_range. rewrite upper_loop_rev.
  induction p as [|b p IH]; cbn [upper_key].
  - split; [constructor | reflexivity].
  - destruct (upper_key p) as [u|].
    + split; [discriminate|]. intros H. inversion H; subst.
      destruct IH as [_ IH]. specialize (IH H3). discriminate.
    + destruct (b <? 255) eqn:Eb.
      * apply N.ltb_lt in Eb. split; [discriminate|]. intros H. inversion H; subst. lia.
      * apply N.ltb_ge in Eb. split; [|reflexivity]. intros _. constructor; [exact Eb|].
        now apply IH.
Qed.

(** Both well-formedness hypotheses are needed: on non-bytes the model (like any
    arithmetic on unbounded numbers) stops agreeing with "starts with". *)
Example prefix_to_range_needs_wf_prefix :
  let '(lo, hi) := prefix_to_range [300] in
  in_bounds lo hi [301] = true /\ is_prefix [300] [301] = false.
Proof. vm_compute. split; reflexivity. Qed.

Example prefix_to_range_needs_wf_key :
  let '(lo, hi) := prefix_to_range [255] in
  in_bounds lo hi [256] = true /\ is_prefix [255] [256] = false.
Proof. vm_compute. split; reflexivity. Qed.

(** ** replay of the unit tests in src/range.rs (b"abc" = [97;98;99]) *)
Example prefix_to_range_basic :
  prefix_to_range [97;98;99] = (Incl [97;98;99], Excl [97;98;100]).
Proof. vm_compute. reflexivity. Qed.
Example prefix_to_range_empty_test : prefix_to_range [] = (Unb, Unb).
Proof. vm_compute. reflexivity. Qed.
Example prefix_to_range_single_char : prefix_to_range [97] = (Incl [97], Excl [98]).
Proof. vm_compute. reflexivity. Qed.
Example prefix_to_range_1 : prefix_to_range [0;250] = (Incl [0;250], Excl [0;251]).
Proof. vm_compute. reflexivity. Qed.
Example prefix_to_range_2 : prefix_to_range [0;250;50] = (Incl [0;250;50], Excl [0;250;51]).
Proof. vm_compute. reflexivity. Qed.
Example prefix_to_range_3 : prefix_to_range [255;255;255] = (Incl [255;255;255], Unb).
Proof. vm_compute. reflexivity. Qed.
Example prefix_to_range_char_max : prefix_to_range [0;255] = (Incl [0;255], Excl [1]).
Proof. vm_compute. reflexivity. Qed.
Example prefix_to_range_char_max_2 : prefix_to_range [0;2;255] = (Incl [0;2;255], Excl [0;3]).
Proof. vm_compute. reflexivity. Qed.

(** a concrete instance of the main theorem's hypotheses, with carry *)
Example prefix_to_range_exact_instance :
  let p := [7;255;255] in
  Forall (fun b => b < 256) p /\
  (let '(lo, hi) := prefix_to_range p in
   in_bounds lo hi [7;255;255;0] = true /\ in_bounds lo hi [7;255;254;255] = false /\
   in_bounds lo hi [8] = false /\ in_bounds lo hi [7;255;255] = true).
Proof. split; [repeat constructor | vm_compute; repeat split; reflexivity]. Qed.

(** ** [prefixed_range] (src/util.rs): prefix plus a range on the remainder *)

Lemma key_cmp_app p a b : key_cmp (p ++ a) (p ++ b) = key_cmp a b.
Proof. induction p as [|x p IH]; cbn; [reflexivity|]. now rewrite N.compare_refl. Qed.

Lemma key_cmp_app_nil p a : key_cmp p (p ++ a) <> Gt.
Proof.
  rewrite <- (app_nil_r p) at 1. rewrite key_cmp_app. destruct a; cbn; congruence.
Qed.

Lemma key_cmp_not_prefix p a k :
  is_prefix p k = false -> key_cmp (p ++ a) k = key_cmp p k /\ key_cmp p k <> Eq.
Proof.
  revert k; induction p as [|x p IH]; intros k H; cbn [is_prefix] in H; [discriminate|].
  destruct k as [|y k]; cbn [app].
  - cbn. split; congruence.
  - rewrite !key_cmp_cons. destruct (N.compare_spec x y) as [->|Hlt|Hgt].
    + rewrite N.eqb_refl in H. cbn in H. now apply IH.
    + split; congruence.
    + split; congruence.
Qed.

Lemma lo_ok_fused p lo s :
  lo_ok (bound_map (fused p) lo) (p ++ s) = lo_ok lo s.
Proof.
  destruct lo as [a|a|]; cbn [bound_map lo_ok]; unfold fused, key_leb, key_ltb;
    rewrite ?key_cmp_app; reflexivity.
Qed.

Lemma hi_ok_fused p hi s :
  hi_ok (bound_map (fused p) hi) (p ++ s) = hi_ok hi s.
Proof.
  destruct hi as [a|a|]; cbn [bound_map hi_ok]; unfold fused, key_leb, key_ltb;
    rewrite ?key_cmp_app; reflexivity.
Qed.

(** a fused lower bound can only be satisfied by keys [> p] or with prefix [p];
    a fused upper bound only by keys [< p] or with prefix [p] *)
Lemma lo_ok_fused_np p lo k : lo <> Unb -> is_prefix p k = false ->
  lo_ok (bound_map (fused p) lo) k = true -> key_cmp p k = Lt.
Proof.
  intros Hlo Hnp H.
  destruct lo as [a|a|]; [| |congruence]; cbn [bound_map lo_ok] in H; unfold fused in H;
    destruct (key_cmp_not_prefix p a k Hnp) as [E Hne];
    unfold key_leb, key_ltb in H; rewrite E in H; destruct (key_cmp p k); congruence.
Qed.

Lemma hi_ok_fused_np p hi k : hi <> Unb -> is_prefix p k = false ->
  hi_ok (bound_map (fused p) hi) k = true -> key_cmp p k = Gt.
Proof.
  intros Hhi Hnp H.
  destruct hi as [a|a|]; [| |congruence]; cbn [bound_map hi_ok] in H; unfold fused in H;
    destruct (key_cmp_not_prefix p a k Hnp) as [E Hne];
    unfold key_leb, key_ltb in H; rewrite (key_cmp_antisym (p ++ a) k), E in H;
    destruct (key_cmp p k); cbn in H; congruence.
Qed.

Theorem prefixed_range_exact : forall p lo hi k,
  p <> [] -> Forall (fun b => b < 256) p -> Forall (fun b => b < 256) k ->
  let '(lo', hi') := prefixed_range p lo hi in
  in_bounds lo' hi' k = is_prefix p k && in_bounds lo hi (skipn (length p) k).
Proof.
  intros p lo hi k Hne Hp Hk.
  destruct p as [|b0 p0]; [congruence|]. set (p := b0 :: p0) in *.
  assert (Hup := prefix_upper_range_exact p k Hp Hk).
  cbn [lo_ok] in Hup.
  assert (Hcase : forall lo' hi',
     (is_prefix p k = true ->
        lo_ok lo' k = lo_ok lo (skipn (length p) k) /\
        hi_ok hi' k = hi_ok hi (skipn (length p) k)) ->
     (is_prefix p k = false -> lo_ok lo' k && hi_ok hi' k = false) ->
     in_bounds lo' hi' k = is_prefix p k && in_bounds lo hi (skipn (length p) k)).
  { intros lo' hi' H1 H2. unfold in_bounds. destruct (is_prefix p k) eqn:E.
    - destruct (H1 eq_refl) as [-> ->]. reflexivity.
    - now rewrite H2. }
  assert (Hpre : is_prefix p k = true -> key_leb p k = true).
  { intros E. rewrite (is_prefix_skipn _ _ E). unfold key_leb.
    pose proof (key_cmp_app_nil p (skipn (length p) k)) as H.
    destruct (key_cmp p (p ++ skipn (length p) k)); congruence. }
  assert (Hupper_pre : is_prefix p k = true -> hi_ok (prefix_upper_range p) k = true).
  { intros E. rewrite E, (Hpre E) in Hup. exact Hup. }
  assert (Hfl : forall l, is_prefix p k = true ->
            lo_ok (bound_map (fused p) l) k = lo_ok l (skipn (length p) k)).
  { intros l E. rewrite (is_prefix_skipn _ _ E) at 1. apply lo_ok_fused. }
  assert (Hfh : forall h, is_prefix p k = true ->
            hi_ok (bound_map (fused p) h) k = hi_ok h (skipn (length p) k)).
  { intros h E. rewrite (is_prefix_skipn _ _ E) at 1. apply hi_ok_fused. }
  (* not a prefix: fused lower + fused upper is contradictory *)
  assert (Hboth : forall l h, l <> Unb -> h <> Unb -> is_prefix p k = false ->
            lo_ok (bound_map (fused p) l) k && hi_ok (bound_map (fused p) h) k = false).
  { intros l h Hl Hh E.
    destruct (lo_ok (bound_map (fused p) l) k) eqn:E1; [|reflexivity].
    destruct (hi_ok (bound_map (fused p) h) k) eqn:E2; [|reflexivity].
    pose proof (lo_ok_fused_np p l k Hl E E1). pose proof (hi_ok_fused_np p h k Hh E E2).
    congruence. }
  assert (Hlo_up : forall l, l <> Unb -> is_prefix p k = false ->
            lo_ok (bound_map (fused p) l) k && hi_ok (prefix_upper_range p) k = false).
  { intros l Hl E.
    destruct (lo_ok (bound_map (fused p) l) k) eqn:E1; [|reflexivity].
    pose proof (lo_ok_fused_np p l k Hl E E1) as Hc. rewrite E in Hup.
    unfold key_leb in Hup. rewrite Hc in Hup. exact Hup. }
  assert (Hp_hi : forall h, h <> Unb -> is_prefix p k = false ->
            lo_ok (Incl p) k && hi_ok (bound_map (fused p) h) k = false).
  { intros h Hh E. cbn [lo_ok].
    destruct (hi_ok (bound_map (fused p) h) k) eqn:E2; [|apply andb_false_r].
    pose proof (hi_ok_fused_np p h k Hh E E2) as Hc. unfold key_leb. now rewrite Hc. }
  unfold prefixed_range. fold p. cbv iota.
  destruct lo as [a|a|]; destruct hi as [c|c|];
    apply Hcase;
    try (intros E; split;
         first [ apply Hfl; exact E | apply Hfh; exact E
               | cbn [lo_ok]; now apply Hpre | cbn [hi_ok]; now apply Hupper_pre ]);
    try (apply Hboth; congruence); try (apply Hlo_up; congruence);
    try (intros E; rewrite E in Hup; exact Hup);
    try (apply Hp_hi; congruence).
Qed.

(** replay of src/util.rs tests (b"abc" = [97;98;99]) *)
Example prefixed_range_1 :
  prefixed_range [97;98;99] (Incl [5]) (Incl [9]) = (Incl [97;98;99;5], Incl [97;98;99;9]).
Proof. vm_compute. reflexivity. Qed.
Example prefixed_range_3 :
  prefixed_range [97;98;99] (Incl [5]) Unb = (Incl [97;98;99;5], Excl [97;98;100]).
Proof. vm_compute. reflexivity. Qed.
Example prefixed_range_4 :
  prefixed_range [97;98;99] Unb (Excl [9]) = (Incl [97;98;99], Excl [97;98;99;9]).
Proof. vm_compute. reflexivity. Qed.
Example prefixed_range_7 :
  prefixed_range [97;98;99] Unb Unb = (Incl [97;98;99], Excl [97;98;100]).
Proof. vm_compute. reflexivity. Qed.

(** the empty prefix ignores the range (doc comment says it panics): *)
Example prefixed_range_empty_prefix_ignores_range :
  prefixed_range [] (Incl [5]) (Incl [9]) = (Unb, Unb).
Proof. reflexivity. Qed.

Print Assumptions prefix_to_range_exact.
Print Assumptions prefix_to_range_empty.
Print Assumptions prefix_upper_range_unbounded.
Print Assumptions prefixed_range_exact.
