(** C14: visibility of an ingested table (all entries carry the global seqno g). *)
From LsmV Require Import Model.Tree Proofs.Newest Proofs.Lookup.
Open Scope N_scope.

(** an ingested table: every entry's effective seqno is the table's global seqno *)
Definition ingested (t : table) (g : N) : Prop :=
  gseq t = g /\ forall e, In e (ents t) -> seq e = g.

(** invisible to every snapshot taken before the ingestion finished (S <= g) ... *)
Lemma ingested_invisible flt t g k S :
  table_ok t = true -> (forall e, In e (ents t) -> flt (tid t) (ukey e) = true) ->
  ingested t g -> S <= g -> table_get flt t k S = None.
Proof.
  intros T F [_ A] LE. rewrite (table_get_newest flt t k S T F).
  apply newest_none. intros e HI. unfold matches.
  rewrite (A e HI). destruct (key_eqb (ukey e) k); simpl; auto.
  apply N.ltb_ge. exact LE.
Qed.

(** ... and to every later snapshot (S > g) it acts as |batch| writes at seqno g: all of
    its entries at once *)
Lemma ingested_visible flt t g k S :
  table_ok t = true -> (forall e, In e (ents t) -> flt (tid t) (ukey e) = true) ->
  ingested t g -> g < S ->
  forall e, In e (ents t) -> ukey e = k -> table_get flt t k S = Some e.
Proof.
  intros T F [_ A] LT e HI K. rewrite (table_get_newest flt t k S T F).
  destruct (table_ok_inv t T) as [Srt _].
  apply newest_char.
  - now apply sorted_uniq.
  - exact HI.
  - apply matches_iff. split; auto. rewrite (A e HI). exact LT.
  - intros e' HI' M'. rewrite (A e HI), (A e' HI'). lia.
Qed.

(** all-or-nothing: visibility of the batch flips for all keys at the same S *)
Theorem ingested_atomic flt t g :
  table_ok t = true -> (forall e, In e (ents t) -> flt (tid t) (ukey e) = true) ->
  ingested t g ->
  forall S, (S <= g -> forall k, table_get flt t k S = None) /\
            (g < S -> forall e, In e (ents t) -> table_get flt t (ukey e) S = Some e).
Proof.
  intros T F I S. split.
  - intros LE k. eapply ingested_invisible; eauto.
  - intros LT e HI. eapply ingested_visible; eauto.
Qed.
