(** C11: reads are functions of the LOGICAL content only (a multiset of entries), never of
    block size, restart interval, hash index, partitioning, pinning, filter policy or
    how tables are cut: two structurally sound superversions holding the same entries
    read identically. *)
From LsmV Require Import Model.Tree Model.Range Proofs.Newest Proofs.Lookup Proofs.Cert Proofs.Range.
From Coq Require Import Permutation Sorted.
Open Scope N_scope.

Lemma sorted_key_lists_eq (a b : list key) :
  StronglySorted key_lt a -> StronglySorted key_lt b ->
  (forall k, In k a <-> In k b) -> a = b.
Proof.
  revert b. induction a as [|x a IH]; intros b Sa Sb E.
  - destruct b as [|y b]; auto. exfalso. apply (proj2 (E y)). now left.
  - destruct b as [|y b]; [exfalso; apply (proj1 (E x)); now left|].
    inversion Sa as [|? ? Sa' Fa]; subst. inversion Sb as [|? ? Sb' Fb]; subst.
    rewrite Forall_forall in Fa, Fb.
    assert (x = y).
    { destruct (proj1 (E x) (or_introl eq_refl)) as [->|Hx]; auto.
      destruct (proj2 (E y) (or_introl eq_refl)) as [->|Hy]; auto.
      exfalso. apply (key_lt_irrefl x). eapply key_lt_trans; [apply (Fa y Hy)|apply (Fb x Hx)]. }
    subst y. f_equal. apply IH; auto.
    intros k. split; intros H.
    + destruct (proj1 (E k) (or_intror H)) as [->|]; auto.
      exfalso. apply (key_lt_irrefl k). now apply Fa.
    + destruct (proj2 (E k) (or_intror H)) as [->|]; auto.
      exfalso. apply (key_lt_irrefl k). now apply Fb.
Qed.

Lemma keys_of_perm l l' : Permutation l l' -> keys_of l = keys_of l'.
Proof.
  intros P. apply sorted_key_lists_eq; try apply keys_of_sorted.
  intros k. rewrite !keys_of_in. split; intros (e & HI & E); exists e; split; auto.
  - eapply Permutation_in; eauto.
  - eapply Permutation_in; [apply Permutation_sym|]; eauto.
Qed.

Lemma spec_get_perm l l' k S : uniq l -> Permutation l l' -> spec_get l k S = spec_get l' k S.
Proof. intros U P. unfold spec_get. now rewrite (newest_perm k S l l' U P). Qed.

Lemma spec_range_perm l l' lo hi S :
  uniq l -> Permutation l l' -> spec_range l lo hi S = spec_range l' lo hi S.
Proof.
  intros U P. unfold spec_range. rewrite (keys_of_perm l l' P).
  apply flat_map_ext. intros k. now rewrite (spec_get_perm l l' k S U P).
Qed.

(** point reads *)
Theorem config_independent_get : forall flt flt' sv sv',
  check_inv_sv sv = true -> check_inv_sv sv' = true ->
  filter_sound flt sv -> filter_sound flt' sv' ->
  Permutation (content sv) (content sv') ->
  forall k S, sv_get flt sv k S = sv_get flt' sv' k S.
Proof.
  intros flt flt' sv sv' I I' F F' P k S.
  rewrite (sv_get_sound flt sv I F k S), (sv_get_sound flt' sv' I' F' k S).
  apply spec_get_perm; auto. now apply content_uniq.
Qed.

(** scans, any bounds, any next/next_back interleaving *)
Theorem config_independent_range : forall sv sv' lo hi S ps,
  check_inv_sv sv = true -> check_inv_sv sv' = true ->
  (forall e, In e (content sv) -> seq e < MAX_SEQNO) ->
  Permutation (content sv) (content sv') ->
  sv_range_run sv None lo hi S ps = sv_range_run sv' None lo hi S ps.
Proof.
  intros sv sv' lo hi S ps I I' M P.
  rewrite (range_exact sv lo hi S ps I M).
  rewrite (range_exact sv' lo hi S ps I').
  - f_equal. apply spec_range_perm; auto. now apply content_uniq.
  - intros e HI. apply M. eapply Permutation_in; [apply Permutation_sym|]; eauto.
Qed.
