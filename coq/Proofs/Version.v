(** Version transformations preserve the structural invariant.
    Model: Model/Version.v (optimize_runs, Run::push, with_new_l0_run, with_dropped,
    with_merge, with_moved). *)
From LsmV Require Import Model.Version.
From Coq Require Import Permutation PeanoNat.
Open Scope N_scope.
Arguments N.add : simpl never.
Arguments N.sub : simpl never.
Arguments N.ltb : simpl never.
Arguments N.leb : simpl never.
Arguments N.eqb : simpl never.

(** * 0. Small list facts *)

Lemma vs_forallb_concat {A} (f : A -> bool) (ll : list (list A)) :
  forallb f (concat ll) = forallb (forallb f) ll.
Proof.
  induction ll as [|l ll IH]; cbn [concat forallb]; [reflexivity|].
  now rewrite forallb_app, IH.
Qed.

Lemma vs_concat_concat {A} (lll : list (list (list A))) :
  concat (concat lll) = concat (map (@concat A) lll).
Proof.
  induction lll as [|ll lll IH]; cbn [concat map]; [reflexivity|].
  now rewrite concat_app, IH.
Qed.

Lemma vs_in_concat_cons {A} (x : A) l ll : In x (concat (l :: ll)) <-> In x l \/ In x (concat ll).
Proof. cbn [concat]. apply in_app_iff. Qed.

Lemma vs_filter_concat {A} (p : A -> bool) (ll : list (list A)) :
  filter p (concat ll) = concat (map (filter p) ll).
Proof.
  induction ll as [|l ll IH]; cbn [concat map filter]; [reflexivity|].
  now rewrite filter_app, IH.
Qed.

Lemma vs_perm_filter_split {A} (p : A -> bool) (l : list A) :
  Permutation (filter p l ++ filter (fun x => negb (p x)) l) l.
Proof.
  induction l as [|x l IH]; cbn [filter app]; [constructor|].
  destruct (p x); cbn [negb app].
  - now constructor.
  - apply Permutation_sym, Permutation_cons_app, Permutation_sym, IH.
Qed.

Lemma vs_perm_concat_Forall2 {A} (ll ll' : list (list A)) :
  Forall2 (@Permutation A) ll ll' -> Permutation (concat ll) (concat ll').
Proof.
  induction 1; cbn [concat]; [constructor|]. now apply Permutation_app.
Qed.

(** * 1. Keys of a well-formed table lie inside its key range *)

Lemma vs_ikey_ltb_le a b : ikey_ltb a b = true -> key_le (ukey a) (ukey b).
Proof.
  unfold ikey_ltb, key_le. destruct (key_cmp (ukey a) (ukey b)); congruence.
Qed.

Lemma vs_sorted_tail e l : sorted_b (e :: l) = true -> sorted_b l = true.
Proof.
  cbn [sorted_b]. destruct l as [|e' l]; [reflexivity|].
  intros H. apply andb_true_iff in H. tauto.
Qed.

Lemma vs_sorted_head_le e l :
  sorted_b (e :: l) = true -> forall x, In x l -> key_le (ukey e) (ukey x).
Proof.
  revert e; induction l as [|e' l IH]; intros e H x HI; [contradiction|].
  cbn [sorted_b] in H. apply andb_true_iff in H. destruct H as [H1 H2].
  apply vs_ikey_ltb_le in H1. destruct HI as [->|HI]; [assumption|].
  eapply key_le_trans; [exact H1|]. now apply IH.
Qed.

Lemma vs_sorted_last_ge d l :
  sorted_b l = true -> forall x, In x l -> key_le (ukey x) (ukey (last l d)).
Proof.
  induction l as [|e l IH]; intros H x HI; [contradiction|].
  destruct l as [|e' l].
  - destruct HI as [->|[]]. cbn [last]. apply key_le_refl.
  - change (last (e :: e' :: l) d) with (last (e' :: l) d).
    pose proof (vs_sorted_tail _ _ H) as Ht.
    destruct HI as [->|HI].
    + eapply key_le_trans; [|apply (IH Ht e'); now left].
      eapply vs_sorted_head_le; [exact H|now left].
    + now apply IH.
Qed.

(** the abstract facts about a table that the layout proofs need *)
Definition tkeys_ok (t : table) : Prop :=
  key_le (kmin t) (kmax t) /\
  forall e, In e (ents t) -> key_le (kmin t) (ukey e) /\ key_le (ukey e) (kmax t).

Lemma vs_table_ok_keys t : table_ok t = true -> tkeys_ok t.
Proof.
  unfold table_ok, table_meta_ok. intros H. apply andb_true_iff in H. destruct H as [Hs Hm].
  destruct (ents t) as [|e0 l] eqn:E; [discriminate|].
  repeat (apply andb_true_iff in Hm; destruct Hm as [Hm ?]).
  key_prop.
  assert (Hall : forall e, In e (e0 :: l) ->
            key_le (kmin t) (ukey e) /\ key_le (ukey e) (kmax t)).
  { intros e HI. rewrite Hm, H4. split.
    - destruct HI as [->|HI]; [apply key_le_refl|]. eapply vs_sorted_head_le; eauto.
    - now apply vs_sorted_last_ge. }
  unfold tkeys_ok. rewrite E. split; [|exact Hall].
  destruct (Hall e0 (or_introl eq_refl)) as [A B]. eapply key_le_trans; eauto.
Qed.

Definition tnewer (a b : table) : Prop := newer_than (ents a) (ents b) = true.

Lemma vs_kr_overlaps_sym a b : kr_overlaps a b = kr_overlaps b a.
Proof. unfold kr_overlaps. apply andb_comm. Qed.

(** two tables sharing a user key have overlapping key ranges; contrapositive: *)
Lemma vs_no_overlap_newer a b :
  tkeys_ok a -> tkeys_ok b -> kr_overlaps a b = false -> tnewer a b.
Proof.
  intros [_ Ka] [_ Kb] Ho. unfold tnewer, newer_than.
  apply forallb_forall. intros e He. apply forallb_forall. intros e' He'.
  destruct (key_eqb (ukey e) (ukey e')) eqn:E; [|reflexivity]. exfalso.
  key_prop. destruct (Ka e He) as [A1 A2]. destruct (Kb e' He') as [B1 B2].
  rewrite <- E in B1, B2.
  unfold kr_overlaps in Ho. apply andb_false_iff in Ho. destruct Ho as [Ho|Ho]; key_prop.
  - eapply key_lt_irrefl. eapply key_le_lt_trans; [exact A2|].
    eapply key_lt_le_trans; [exact Ho|exact B1].
  - eapply key_lt_irrefl. eapply key_le_lt_trans; [exact B2|].
    eapply key_lt_le_trans; [exact Ho|exact A1].
Qed.

(** * 2. Runs: strong sortedness by min key and pairwise non-overlap *)

Fixpoint ksorted (r : run) : Prop :=
  match r with
  | [] => True
  | a :: r' => Forall (fun y => key_le (kmin a) (kmin y)) r' /\ ksorted r'
  end.

Fixpoint pairwise_no (r : run) : Prop :=
  match r with
  | [] => True
  | a :: r' => Forall (fun y => kr_overlaps a y = false) r' /\ pairwise_no r'
  end.

Lemma vs_pairwise_no_perm r r' : Permutation r r' -> pairwise_no r -> pairwise_no r'.
Proof.
  induction 1 as [|x l l' P IH|x y l|l l' l'' P1 IH1 P2 IH2]; cbn [pairwise_no]; auto.
  - intros [H1 H2]. split; [|auto]. eapply Permutation_Forall; eauto.
  - intros [H1 [H2 H3]]. inversion H1 as [|? ? Hxy H1']; subst.
    split; [constructor; [now rewrite vs_kr_overlaps_sym|assumption]|]. split; assumption.
Qed.

Lemma vs_pairwise_no_snoc r x :
  pairwise_no r -> Forall (fun a => kr_overlaps a x = false) r -> pairwise_no (r ++ [x]).
Proof.
  induction r as [|a r IH]; cbn [app pairwise_no]; intros H F.
  - split; constructor.
  - destruct H as [H1 H2]. inversion F as [|? ? Fa Fr]; subst. split; [|auto].
    apply Forall_app. split; [assumption|]. constructor; [assumption|constructor].
Qed.

Lemma vs_pairwise_no_filter p r : pairwise_no r -> pairwise_no (filter p r).
Proof.
  induction r as [|a r IH]; cbn [filter pairwise_no]; [auto|]. intros [H1 H2].
  destruct (p a); cbn [pairwise_no]; [|auto]. split; [|auto].
  apply Forall_forall. intros y Hy. apply filter_In in Hy. destruct Hy as [Hy _].
  rewrite Forall_forall in H1. auto.
Qed.

Lemma vs_ksorted_filter p r : ksorted r -> ksorted (filter p r).
Proof.
  induction r as [|a r IH]; cbn [filter ksorted]; [auto|]. intros [H1 H2].
  destruct (p a); cbn [ksorted]; [|auto]. split; [|auto].
  apply Forall_forall. intros y Hy. apply filter_In in Hy. destruct Hy as [Hy _].
  rewrite Forall_forall in H1. auto.
Qed.

Lemma vs_insert_kmin_perm t r : Permutation (insert_kmin t r) (t :: r).
Proof.
  induction r as [|x r IH]; cbn [insert_kmin]; [reflexivity|].
  destruct (key_leb (kmin t) (kmin x)); [reflexivity|].
  eapply perm_trans; [apply perm_skip, IH|apply perm_swap].
Qed.

Lemma vs_sort_kmin_perm r : Permutation (sort_kmin r) r.
Proof.
  induction r as [|x r IH]; cbn [sort_kmin fold_right]; [constructor|].
  eapply perm_trans; [apply vs_insert_kmin_perm|]. now constructor.
Qed.

Lemma vs_run_push_perm r t : Permutation (run_push r t) (t :: r).
Proof.
  unfold run_push. eapply perm_trans; [apply vs_sort_kmin_perm|].
  apply Permutation_sym, Permutation_cons_append.
Qed.

Lemma vs_insert_kmin_sorted t r : ksorted r -> ksorted (insert_kmin t r).
Proof.
  induction r as [|x r IH]; cbn [insert_kmin ksorted]; intros H.
  - split; constructor.
  - destruct H as [H1 H2]. destruct (key_leb (kmin t) (kmin x)) eqn:C; key_prop.
    + cbn [ksorted]. split; [|split; assumption].
      constructor; [assumption|].
      eapply Forall_impl; [|exact H1]. cbn beta. intros y Hy. eapply key_le_trans; eauto.
    + cbn [ksorted]. split; [|auto].
      eapply Permutation_Forall; [apply Permutation_sym, vs_insert_kmin_perm|].
      constructor; [now apply key_lt_le|assumption].
Qed.

Lemma vs_sort_kmin_sorted r : ksorted (sort_kmin r).
Proof.
  induction r as [|x r IH]; cbn [sort_kmin fold_right]; [exact I|].
  now apply vs_insert_kmin_sorted.
Qed.

Definition krange_ok (t : table) : Prop := key_le (kmin t) (kmax t).

Lemma vs_disjoint_of_sorted r :
  Forall krange_ok r -> ksorted r -> pairwise_no r -> run_disjoint_b r = true.
Proof.
  induction r as [|a r IH]; intros F S P; [reflexivity|].
  cbn [run_disjoint_b]. destruct r as [|b r]; [reflexivity|].
  cbn [ksorted] in S. cbn [pairwise_no] in P.
  destruct S as [S1 S2]. destruct P as [P1 P2].
  inversion F as [|? ? Fa Fr]; subst.
  apply andb_true_iff. split; [|apply IH; assumption].
  inversion S1 as [|? ? Sab _]; subst. inversion P1 as [|? ? Pab _]; subst.
  inversion Fr as [|? ? Fb _]; subst. unfold krange_ok in Fb.
  unfold kr_overlaps in Pab. apply andb_false_iff in Pab. destruct Pab as [C|C]; key_prop.
  - assumption.
  - exfalso. eapply key_lt_irrefl. eapply key_lt_le_trans; [exact C|].
    eapply key_le_trans; eauto.
Qed.

Lemma vs_disjoint_head a r :
  Forall krange_ok r -> run_disjoint_b (a :: r) = true ->
  Forall (fun y => key_lt (kmax a) (kmin y)) r.
Proof.
  revert a; induction r as [|b r IH]; intros a F H; [constructor|].
  cbn [run_disjoint_b] in H. apply andb_true_iff in H. destruct H as [H1 H2]. key_prop.
  inversion F as [|? ? Fb Fr]; subst. constructor; [assumption|].
  eapply Forall_impl; [|apply (IH b Fr H2)]. cbn beta. intros y Hy.
  eapply key_lt_trans; [exact H1|]. eapply key_le_lt_trans; [exact Fb|exact Hy].
Qed.

Lemma vs_disjoint_tail a r : run_disjoint_b (a :: r) = true -> run_disjoint_b r = true.
Proof.
  cbn [run_disjoint_b]. destruct r as [|b r]; [reflexivity|].
  intros H. apply andb_true_iff in H. tauto.
Qed.

Lemma vs_sorted_of_disjoint r :
  Forall krange_ok r -> run_disjoint_b r = true -> ksorted r /\ pairwise_no r.
Proof.
  induction r as [|a r IH]; intros F H; [split; exact I|].
  inversion F as [|? ? Fa Fr]; subst.
  pose proof (vs_disjoint_head a r Fr H) as Hh.
  destruct (IH Fr (vs_disjoint_tail _ _ H)) as [S P].
  cbn [ksorted pairwise_no]. split; (split; [|assumption]).
  - eapply Forall_impl; [|exact Hh]. cbn beta. intros y Hy.
    apply key_lt_le. eapply key_le_lt_trans; [exact Fa|exact Hy].
  - eapply Forall_impl; [|exact Hh]. cbn beta. intros y Hy.
    unfold kr_overlaps. apply andb_false_iff. left. now key_prop.
Qed.

Lemma vs_krange_of_table_ok r : forallb table_ok r = true -> Forall krange_ok r.
Proof.
  rewrite forallb_forall, Forall_forall. intros H t Ht.
  destruct (vs_table_ok_keys t (H t Ht)) as [K _]. exact K.
Qed.

Lemma vs_run_ok_parts r :
  run_ok r = true <-> r <> [] /\ forallb table_ok r = true /\ run_disjoint_b r = true.
Proof.
  unfold run_ok. destruct r as [|a r].
  - split; [discriminate|]. intros [H _]. now contradiction H.
  - rewrite andb_true_iff. split; [intros [A B]|intros [_ [A B]]]; repeat split; auto.
    discriminate.
Qed.

Lemma vs_run_ok_pairwise_no r : run_ok r = true -> pairwise_no r.
Proof.
  intros H. apply vs_run_ok_parts in H. destruct H as [_ [T D]].
  apply vs_sorted_of_disjoint; auto using vs_krange_of_table_ok.
Qed.

(** [Run::push] of a table that overlaps nothing in the run keeps the run legal *)
Lemma vs_run_push_ok r t :
  forallb table_ok r = true -> run_disjoint_b r = true -> table_ok t = true ->
  run_overlaps t r = false -> run_ok (run_push r t) = true.
Proof.
  intros T D Tt No.
  assert (P : Permutation (run_push r t) (t :: r)) by apply vs_run_push_perm.
  assert (Tall : forallb table_ok (run_push r t) = true).
  { apply forallb_forall. intros x Hx. eapply Permutation_in in Hx; [|exact P].
    destruct Hx as [<-|Hx]; [assumption|]. rewrite forallb_forall in T. auto. }
  apply vs_run_ok_parts. split; [|split; [assumption|]].
  - intros E. rewrite E in P. apply Permutation_nil in P. discriminate.
  - apply vs_disjoint_of_sorted.
    + now apply vs_krange_of_table_ok.
    + apply vs_sort_kmin_sorted.
    + destruct (vs_sorted_of_disjoint r (vs_krange_of_table_ok _ T) D) as [_ Pn].
      eapply vs_pairwise_no_perm; [apply Permutation_sym, vs_sort_kmin_perm|].
      apply vs_pairwise_no_snoc; [assumption|].
      apply Forall_forall. intros a Ha. rewrite vs_kr_overlaps_sym.
      unfold run_overlaps in No.
      destruct (kr_overlaps t a) eqn:E; [|reflexivity].
      assert (existsb (fun x => kr_overlaps t x) r = true) by (apply existsb_exists; eauto).
      congruence.
Qed.

(** filtering a legal run leaves a legal run, or nothing *)
Lemma vs_filter_opt_run_ok p r : opt_run_ok r = true -> opt_run_ok (filter p r) = true.
Proof.
  unfold opt_run_ok. intros H. apply andb_true_iff in H. destruct H as [T D].
  assert (T' : forallb table_ok (filter p r) = true).
  { apply forallb_forall. intros x Hx. apply filter_In in Hx. destruct Hx as [Hx _].
    rewrite forallb_forall in T. auto. }
  apply andb_true_iff. split; [assumption|].
  destruct (vs_sorted_of_disjoint r (vs_krange_of_table_ok _ T) D) as [S P].
  apply vs_disjoint_of_sorted; auto using vs_krange_of_table_ok, vs_ksorted_filter,
    vs_pairwise_no_filter.
Qed.

Lemma vs_run_ok_opt r : run_ok r = true -> opt_run_ok r = true.
Proof.
  intros H. apply vs_run_ok_parts in H. destruct H as [_ [T D]].
  unfold opt_run_ok. now rewrite T, D.
Qed.

Lemma vs_opt_run_ok_run_new ts : opt_run_ok ts = true -> forallb run_ok (run_new ts) = true.
Proof.
  destruct ts as [|t ts]; [reflexivity|]. intros H. cbn [run_new forallb].
  unfold opt_run_ok in H. unfold run_ok. now rewrite H.
Qed.

(** * 3. [place]: an equivalent structural recursion *)

Fixpoint place' (rs : list run) (t : table) : list run :=
  match rs with
  | [] => [[t]]
  | r :: rs' =>
      if existsb (run_overlaps t) rs then r :: place' rs' t else run_push r t :: rs'
  end.

Lemma vs_rposition_none {A} (p : A -> bool) l : rposition p l = None <-> existsb p l = false.
Proof.
  induction l as [|x l IH]; cbn [rposition existsb]; [tauto|].
  destruct (rposition p l) as [i|].
  - split; [discriminate|]. intros H. apply orb_false_iff in H. destruct H as [_ H].
    apply IH in H. discriminate.
  - assert (E : existsb p l = false) by now apply IH.
    rewrite E, orb_false_r. destruct (p x); split; congruence.
Qed.

Lemma vs_place_eq rs t : place rs t = place' rs t.
Proof.
  unfold place. induction rs as [|r rs IH]; [reflexivity|].
  cbn [rposition]. destruct (rposition (run_overlaps t) rs) as [i|] eqn:R.
  - cbn [push_at place']. cbn [existsb].
    assert (E : existsb (run_overlaps t) rs = true).
    { destruct (existsb (run_overlaps t) rs) eqn:E; [reflexivity|].
      apply vs_rposition_none in E. congruence. }
    rewrite E, orb_true_r. f_equal. exact IH.
  - assert (E : existsb (run_overlaps t) rs = false) by now apply vs_rposition_none.
    cbn [place' existsb]. rewrite E, orb_false_r.
    destruct (run_overlaps t r) eqn:O.
    + cbn [push_at]. f_equal. exact IH.
    + reflexivity.
Qed.

Definition opt_fold (ts : list table) (acc : list run) : list run := fold_left place' ts acc.

Lemma vs_fold_place_eq r acc : fold_left place r acc = fold_left place' r acc.
Proof.
  revert acc. induction r as [|t r IH]; intros acc; [reflexivity|].
  cbn [fold_left]. now rewrite vs_place_eq, IH.
Qed.

Lemma vs_fold_concat rs acc :
  fold_left (fun new_runs r => fold_left place r new_runs) rs acc
  = fold_left place' (concat rs) acc.
Proof.
  revert acc. induction rs as [|r rs IH]; intros acc; [reflexivity|].
  cbn [fold_left concat]. now rewrite fold_left_app, IH, vs_fold_place_eq.
Qed.

Lemma vs_optimize_runs_big rs :
  (2 <= length rs)%nat -> optimize_runs rs = opt_fold (concat rs) [].
Proof.
  intros L. unfold optimize_runs.
  destruct (Nat.leb (length rs) 1) eqn:C; [apply Nat.leb_le in C; lia|].
  apply vs_fold_concat.
Qed.

Lemma optimize_runs_small rs : (length rs <= 1)%nat -> optimize_runs rs = rs.
Proof.
  intros L. unfold optimize_runs. apply Nat.leb_le in L. now rewrite L.
Qed.

Lemma vs_optimize_runs_cases rs :
  optimize_runs rs = rs \/ ((2 <= length rs)%nat /\ optimize_runs rs = opt_fold (concat rs) []).
Proof.
  destruct (Nat.leb (length rs) 1) eqn:C.
  - left. apply optimize_runs_small. now apply Nat.leb_le.
  - right. apply Nat.leb_gt in C. split; [lia|]. apply vs_optimize_runs_big. lia.
Qed.

(** * 4. Theorem 1: the tables are merely rearranged *)

Lemma vs_place'_perm rs t : Permutation (concat (place' rs t)) (t :: concat rs).
Proof.
  induction rs as [|r rs IH]; [reflexivity|].
  cbn [place']. destruct (existsb (run_overlaps t) (r :: rs)); cbn [concat].
  - eapply perm_trans; [apply Permutation_app_head, IH|].
    apply Permutation_sym, Permutation_middle.
  - change (t :: r ++ concat rs) with ((t :: r) ++ concat rs).
    apply Permutation_app_tail, vs_run_push_perm.
Qed.

Lemma vs_opt_fold_perm ts acc : Permutation (concat (opt_fold ts acc)) (concat acc ++ ts).
Proof.
  revert acc; induction ts as [|t ts IH]; intros acc; cbn [opt_fold fold_left].
  - now rewrite app_nil_r.
  - eapply perm_trans; [apply IH|].
    eapply perm_trans; [apply Permutation_app_tail, vs_place'_perm|].
    cbn [app]. apply Permutation_middle.
Qed.

Theorem optimize_runs_perm rs : Permutation (concat (optimize_runs rs)) (concat rs).
Proof.
  destruct (vs_optimize_runs_cases rs) as [->|[_ ->]]; [reflexivity|].
  apply (vs_opt_fold_perm (concat rs) []).
Qed.

(** * 5. Theorem 2: every rebuilt run is a legal run *)

Lemma vs_place'_run_ok rs t :
  forallb run_ok rs = true -> table_ok t = true -> forallb run_ok (place' rs t) = true.
Proof.
  induction rs as [|r rs IH]; intros H Tt.
  - cbn [place' forallb run_ok run_disjoint_b]. now rewrite Tt.
  - cbn [forallb] in H. apply andb_true_iff in H. destruct H as [Hr Hrs].
    cbn [place']. destruct (existsb (run_overlaps t) (r :: rs)) eqn:E; cbn [forallb].
    + rewrite Hr, IH; auto.
    + rewrite Hrs, andb_true_r. cbn [existsb] in E. apply orb_false_iff in E.
      destruct E as [E _]. apply vs_run_ok_parts in Hr. destruct Hr as [_ [T D]].
      now apply vs_run_push_ok.
Qed.

Lemma vs_opt_fold_run_ok ts acc :
  forallb run_ok acc = true -> forallb table_ok ts = true ->
  forallb run_ok (opt_fold ts acc) = true.
Proof.
  revert acc; induction ts as [|t ts IH]; intros acc Ha Ht; [exact Ha|].
  cbn [forallb] in Ht. apply andb_true_iff in Ht. destruct Ht as [Ht Hts].
  cbn [opt_fold fold_left]. apply IH; [|assumption]. now apply vs_place'_run_ok.
Qed.

(** no assumption at all on the shape of the input runs when there are at least two *)
Theorem optimize_runs_run_ok rs :
  (2 <= length rs)%nat -> forallb table_ok (concat rs) = true ->
  forallb run_ok (optimize_runs rs) = true.
Proof.
  intros L T. rewrite vs_optimize_runs_big by assumption.
  now apply vs_opt_fold_run_ok.
Qed.

(** both cases together: legal runs in, legal runs out *)
Corollary optimize_runs_run_ok_gen rs :
  forallb run_ok rs = true -> forallb run_ok (optimize_runs rs) = true.
Proof.
  intros H. destruct (vs_optimize_runs_cases rs) as [->|[L _]]; [assumption|].
  apply optimize_runs_run_ok; [assumption|].
  rewrite vs_forallb_concat. apply forallb_forall. intros r Hr.
  rewrite forallb_forall in H. specialize (H r Hr).
  apply vs_run_ok_parts in H. tauto.
Qed.

(** * 6. Theorem 3: overlapping tables keep their relative order, in distinct runs *)

Definition occurs_before {A} (l : list A) (a b : A) : Prop :=
  exists l1 l2 l3, l = l1 ++ a :: l2 ++ b :: l3.

Definition in_earlier_run (rs : list run) (a b : table) : Prop :=
  exists R1 ra R2 rb R3, rs = R1 ++ ra :: R2 ++ rb :: R3 /\ In a ra /\ In b rb.

Fixpoint runs_before (rs : list run) (a b : table) : Prop :=
  match rs with
  | [] => False
  | r :: rs' => (In a r /\ In b (concat rs')) \/ runs_before rs' a b
  end.

Lemma vs_runs_before_earlier rs a b : runs_before rs a b -> in_earlier_run rs a b.
Proof.
  induction rs as [|r rs IH]; cbn [runs_before]; [contradiction|].
  intros [[Ha Hb]|H].
  - apply in_concat in Hb. destruct Hb as [rb [Hrb Hb]].
    apply in_split in Hrb. destruct Hrb as [R2 [R3 ->]].
    exists [], r, R2, rb, R3. auto.
  - destruct (IH H) as (R1 & ra & R2 & rb & R3 & -> & Ha & Hb).
    exists (r :: R1), ra, R2, rb, R3. auto.
Qed.

Lemma vs_runs_before_occurs rs a b : runs_before rs a b -> occurs_before (concat rs) a b.
Proof.
  induction rs as [|r rs IH]; cbn [runs_before]; [contradiction|].
  intros [[Ha Hb]|H]; cbn [concat].
  - apply in_split in Ha. destruct Ha as [l1 [l2 ->]].
    apply in_split in Hb. destruct Hb as [m1 [m2 ->]].
    exists l1, (l2 ++ m1), m2. now rewrite <- !app_assoc.
  - destruct (IH H) as (l1 & l2 & l3 & ->).
    exists (r ++ l1), l2, l3. now rewrite <- app_assoc.
Qed.

Lemma vs_place'_in rs t x : In x (concat (place' rs t)) <-> x = t \/ In x (concat rs).
Proof.
  split; intros H.
  - eapply Permutation_in in H; [|apply vs_place'_perm]. destruct H; auto.
  - eapply Permutation_in; [apply Permutation_sym, vs_place'_perm|]. destruct H; [left|right]; auto.
Qed.

Lemma vs_run_push_in r t x : In x (run_push r t) <-> x = t \/ In x r.
Proof.
  split; intros H.
  - eapply Permutation_in in H; [|apply vs_run_push_perm]. destruct H; auto.
  - eapply Permutation_in; [apply Permutation_sym, vs_run_push_perm|]. destruct H; [left|right]; auto.
Qed.

Lemma vs_place'_mono rs x a b : runs_before rs a b -> runs_before (place' rs x) a b.
Proof.
  induction rs as [|r rs IH]; cbn [runs_before]; [contradiction|].
  intros H. cbn [place']. destruct (existsb (run_overlaps x) (r :: rs)); cbn [runs_before].
  - destruct H as [[Ha Hb]|H]; [left|right; auto].
    split; [assumption|]. apply vs_place'_in. now right.
  - destruct H as [[Ha Hb]|H]; [left|right; auto].
    split; [|assumption]. apply vs_run_push_in. now right.
Qed.

Lemma vs_place'_new rs x a :
  In a (concat rs) -> kr_overlaps x a = true -> runs_before (place' rs x) a x.
Proof.
  induction rs as [|r rs IH]; intros Ha Ho; [contradiction|].
  cbn [place'].
  assert (E : existsb (run_overlaps x) (r :: rs) = true).
  { apply in_concat in Ha. destruct Ha as [ra [Hra Ha]].
    apply existsb_exists. exists ra. split; [assumption|].
    apply existsb_exists. exists a. auto. }
  rewrite E. cbn [runs_before]. apply vs_in_concat_cons in Ha. destruct Ha as [Ha|Ha].
  - left. split; [assumption|]. apply vs_place'_in. now left.
  - right. now apply IH.
Qed.

Lemma vs_opt_fold_mono ts acc a b : runs_before acc a b -> runs_before (opt_fold ts acc) a b.
Proof.
  revert acc; induction ts as [|t ts IH]; intros acc H; [exact H|].
  cbn [opt_fold fold_left]. apply IH. now apply vs_place'_mono.
Qed.

Lemma vs_opt_fold_acc_before ts acc a b :
  In a (concat acc) -> In b ts -> kr_overlaps a b = true -> runs_before (opt_fold ts acc) a b.
Proof.
  revert acc; induction ts as [|t ts IH]; intros acc Ha Hb Ho; [contradiction|].
  cbn [opt_fold fold_left]. destruct Hb as [->|Hb].
  - apply vs_opt_fold_mono. apply vs_place'_new; [assumption|]. now rewrite vs_kr_overlaps_sym.
  - apply IH; [|assumption|assumption]. apply vs_place'_in. now right.
Qed.

Lemma vs_opt_fold_order ts acc a b :
  occurs_before ts a b -> kr_overlaps a b = true -> runs_before (opt_fold ts acc) a b.
Proof.
  revert acc; induction ts as [|t ts IH]; intros acc (l1 & l2 & l3 & E) Ho.
  - destruct l1; discriminate.
  - cbn [opt_fold fold_left]. destruct l1 as [|y l1]; cbn [app] in E; inversion E; subst.
    + apply vs_opt_fold_acc_before; [|apply in_or_app; right; now left|assumption].
      apply vs_place'_in. now left.
    + apply IH; [|assumption]. exists l1, l2, l3. reflexivity.
Qed.

Lemma vs_pairwise_no_occurs r a b : pairwise_no r -> occurs_before r a b -> kr_overlaps a b = false.
Proof.
  intros P (l1 & l2 & l3 & ->). induction l1 as [|x l1 IH]; cbn [app pairwise_no] in P.
  - destruct P as [P _]. rewrite Forall_forall in P. apply P.
    apply in_or_app. right. now left.
  - destruct P as [_ P]. auto.
Qed.

(** [t] before [t'] anywhere in the input (same run or not) and overlapping: [t] ends up
    in a strictly earlier run, hence also earlier in iteration order.  The side
    condition only concerns the degenerate case of fewer than two runs, where the input is
    returned as is: then its (at most one) run must not contain two overlapping tables. *)
Theorem optimize_runs_order rs t t' :
  ((length rs <= 1)%nat -> Forall pairwise_no rs) ->
  occurs_before (concat rs) t t' -> kr_overlaps t t' = true ->
  in_earlier_run (optimize_runs rs) t t' /\ occurs_before (concat (optimize_runs rs)) t t'.
Proof.
  intros Hsmall Hb Ho.
  destruct (Nat.leb (length rs) 1) eqn:C.
  - apply Nat.leb_le in C. exfalso. specialize (Hsmall C).
    destruct rs as [|r [|r' rs]]; cbn [length] in C; [| |lia].
    + destruct Hb as (l1 & l2 & l3 & E). destruct l1; discriminate.
    + cbn [concat] in Hb. rewrite app_nil_r in Hb. inversion Hsmall as [|? ? P _]; subst.
      rewrite (vs_pairwise_no_occurs r t t' P Hb) in Ho. discriminate.
  - apply Nat.leb_gt in C. rewrite vs_optimize_runs_big by lia.
    pose proof (vs_opt_fold_order (concat rs) [] t t' Hb Ho) as H.
    split; [now apply vs_runs_before_earlier|now apply vs_runs_before_occurs].
Qed.

Corollary optimize_runs_order_run_ok rs t t' :
  forallb run_ok rs = true ->
  occurs_before (concat rs) t t' -> kr_overlaps t t' = true ->
  in_earlier_run (optimize_runs rs) t t' /\ occurs_before (concat (optimize_runs rs)) t t'.
Proof.
  intros H. apply optimize_runs_order. intros _.
  apply Forall_forall. intros r Hr. rewrite forallb_forall in H.
  apply vs_run_ok_pairwise_no. auto.
Qed.

(** * 7. Theorem 4: the recency order survives re-packing *)

Definition trec (ts : list table) : Prop := recency_b (map ents ts) = true.

Lemma vs_trec_cons a ts : trec (a :: ts) <-> Forall (tnewer a) ts /\ trec ts.
Proof.
  unfold trec. cbn [map recency_b]. rewrite andb_true_iff, forallb_forall, Forall_forall.
  split; intros [H1 H2]; (split; [|assumption]).
  - intros x Hx. apply H1. now apply in_map.
  - intros c Hc. apply in_map_iff in Hc. destruct Hc as [x [<- Hx]]. now apply H1.
Qed.

Lemma vs_trec_app a b :
  trec (a ++ b) <-> trec a /\ trec b /\ (forall x y, In x a -> In y b -> tnewer x y).
Proof.
  induction a as [|x a IH]; cbn [app].
  - split; [intros H|tauto]. split; [reflexivity|]. split; [assumption|]. intros x y [].
  - rewrite !vs_trec_cons, IH, Forall_app. rewrite !Forall_forall. split.
    + intros [[H1 H2] [H3 [H4 H5]]]. repeat split; auto.
      intros x' y [<-|Hx] Hy; auto.
    + intros [[H1 H2] [H3 H4]]. repeat split; auto.
      * intros y Hy. apply H4; [now left|assumption].
      * intros x' y Hx Hy. apply H4; [now right|assumption].
Qed.

Lemma vs_trec_filter p ts : trec ts -> trec (filter p ts).
Proof.
  induction ts as [|a ts IH]; cbn [filter]; [auto|].
  rewrite vs_trec_cons. intros [H1 H2]. destruct (p a); [|auto].
  apply vs_trec_cons. split; [|auto].
  apply Forall_forall. intros y Hy. apply filter_In in Hy. destruct Hy as [Hy _].
  rewrite Forall_forall in H1. auto.
Qed.

(** groups (runs of a level, or levels of a version) in lookup order: everything in a
    group is newer than everything in the later groups *)
Fixpoint grp_rec (gs : list (list table)) : Prop :=
  match gs with
  | [] => True
  | g :: gs' => (forall a b, In a g -> In b (concat gs') -> tnewer a b) /\ grp_rec gs'
  end.

Lemma vs_trec_concat gs : trec (concat gs) <-> Forall trec gs /\ grp_rec gs.
Proof.
  induction gs as [|g gs IH]; cbn [concat grp_rec].
  - split; [intros _; split; [constructor|exact I]|reflexivity].
  - rewrite vs_trec_app, IH. split.
    + intros [H1 [[H2 H3] H4]]. repeat split; auto.
    + intros [H1 [H2 H3]]. inversion H1; subst. repeat split; auto.
Qed.

Lemma vs_grp_rec_perm gs gs' :
  Forall2 (@Permutation table) gs' gs -> grp_rec gs -> grp_rec gs'.
Proof.
  induction 1 as [|g' g gs' gs P F IH]; cbn [grp_rec]; [auto|].
  intros [H1 H2]. split; [|auto]. intros a b Ha Hb. apply H1.
  - eapply Permutation_in; eauto.
  - eapply Permutation_in; [apply vs_perm_concat_Forall2; exact F|assumption].
Qed.

Lemma vs_pairwise_no_trec r : Forall tkeys_ok r -> pairwise_no r -> trec r.
Proof.
  induction r as [|a r IH]; intros F P; [reflexivity|].
  inversion F as [|? ? Fa Fr]; subst. cbn [pairwise_no] in P. destruct P as [P1 P2].
  apply vs_trec_cons. split; [|auto].
  rewrite Forall_forall in *. intros y Hy. apply vs_no_overlap_newer; auto.
Qed.

Lemma vs_run_ok_tkeys r : run_ok r = true -> Forall tkeys_ok r.
Proof.
  intros H. apply vs_run_ok_parts in H. destruct H as [_ [T _]].
  rewrite forallb_forall in T. apply Forall_forall. intros t Ht.
  apply vs_table_ok_keys. auto.
Qed.

Lemma vs_runs_ok_tkeys rs : forallb run_ok rs = true -> Forall tkeys_ok (concat rs).
Proof.
  intros H. apply Forall_forall. intros t Ht. apply in_concat in Ht.
  destruct Ht as [r [Hr Ht]]. rewrite forallb_forall in H.
  pose proof (vs_run_ok_tkeys r (H r Hr)) as F. rewrite Forall_forall in F. auto.
Qed.

Lemma vs_run_ok_trec r : run_ok r = true -> trec r.
Proof.
  intros H. apply vs_pairwise_no_trec; auto using vs_run_ok_tkeys, vs_run_ok_pairwise_no.
Qed.

Lemma vs_runs_trec rs : forallb run_ok rs = true -> grp_rec rs -> trec (concat rs).
Proof.
  intros H G. apply vs_trec_concat. split; [|assumption].
  apply Forall_forall. intros r Hr. rewrite forallb_forall in H. apply vs_run_ok_trec. auto.
Qed.

Lemma vs_place'_grp_rec rs x :
  forallb run_ok rs = true -> table_ok x = true -> grp_rec rs ->
  (forall a, In a (concat rs) -> tnewer a x) -> grp_rec (place' rs x).
Proof.
  induction rs as [|r rs IH]; intros Hok Tx G Hnew.
  - cbn [place' grp_rec]. split; [|exact I]. intros a b _ [].
  - cbn [forallb] in Hok. apply andb_true_iff in Hok. destruct Hok as [Hr Hrs].
    cbn [grp_rec] in G. destruct G as [G1 G2].
    cbn [place']. destruct (existsb (run_overlaps x) (r :: rs)) eqn:E; cbn [grp_rec].
    + split.
      * intros a b Ha Hb. apply vs_place'_in in Hb. destruct Hb as [->|Hb].
        -- apply Hnew. apply vs_in_concat_cons. now left.
        -- now apply G1.
      * apply IH; auto. intros a Ha. apply Hnew. apply vs_in_concat_cons. now right.
    + split; [|assumption]. intros a b Ha Hb. apply vs_run_push_in in Ha.
      destruct Ha as [->|Ha]; [|now apply G1].
      pose proof (vs_runs_ok_tkeys rs Hrs) as K. rewrite Forall_forall in K.
      apply vs_no_overlap_newer; [now apply vs_table_ok_keys|now apply K|].
      cbn [existsb] in E. apply orb_false_iff in E. destruct E as [_ E].
      destruct (kr_overlaps x b) eqn:O; [|reflexivity].
      apply in_concat in Hb. destruct Hb as [rb [Hrb Hb]].
      assert (existsb (run_overlaps x) rs = true).
      { apply existsb_exists. exists rb. split; [assumption|].
        apply existsb_exists. exists b. auto. }
      congruence.
Qed.

Lemma vs_opt_fold_grp_rec ts acc :
  forallb run_ok acc = true -> forallb table_ok ts = true -> grp_rec acc ->
  (forall a x, In a (concat acc) -> In x ts -> tnewer a x) -> trec ts ->
  grp_rec (opt_fold ts acc).
Proof.
  revert acc; induction ts as [|t ts IH]; intros acc Hok Ht G Hnew R; [exact G|].
  cbn [forallb] in Ht. apply andb_true_iff in Ht. destruct Ht as [Ht Hts].
  apply vs_trec_cons in R. destruct R as [R1 R2]. rewrite Forall_forall in R1.
  cbn [opt_fold fold_left]. apply IH; auto.
  - now apply vs_place'_run_ok.
  - apply vs_place'_grp_rec; auto. intros a Ha. apply Hnew; [assumption|now left].
  - intros a x Ha Hx. apply vs_place'_in in Ha. destruct Ha as [->|Ha].
    + now apply R1.
    + apply Hnew; [assumption|now right].
Qed.

(** proved directly as a fold invariant (not via Theorem 3, whose value-based statement
    is too weak when the same table value occurs twice) *)
Theorem optimize_runs_recency rs :
  forallb table_ok (concat rs) = true ->
  recency_b (map ents (concat rs)) = true ->
  recency_b (map ents (concat (optimize_runs rs))) = true.
Proof.
  intros T R. destruct (vs_optimize_runs_cases rs) as [->|[L E]]; [assumption|].
  rewrite E. apply vs_runs_trec.
  - now apply vs_opt_fold_run_ok.
  - apply vs_opt_fold_grp_rec; auto; [exact I|intros a x []].
Qed.

(** * 8. The level invariant and the whole-version invariant *)

Definition level_inv (rs : list run) : Prop :=
  forallb run_ok rs = true /\ recency_b (map ents (concat rs)) = true.

Theorem optimize_runs_level_inv rs : level_inv rs -> level_inv (optimize_runs rs).
Proof.
  intros [H R]. split; [now apply optimize_runs_run_ok_gen|].
  apply optimize_runs_recency; [|assumption].
  rewrite vs_forallb_concat. apply forallb_forall. intros r Hr.
  rewrite forallb_forall in H. specialize (H r Hr). apply vs_run_ok_parts in H. tauto.
Qed.

Lemma vs_nodup_N_b l : nodup_N_b l = true <-> NoDup l.
Proof.
  induction l as [|x l IH]; cbn [nodup_N_b]; [split; [constructor|reflexivity]|].
  rewrite andb_true_iff, negb_true_iff, IH. split.
  - intros [H1 H2]. constructor; [|assumption]. intros HI.
    assert (existsb (N.eqb x) l = true).
    { apply existsb_exists. exists x. split; [assumption|apply N.eqb_refl]. }
    congruence.
  - intros H. inversion H as [|? ? H1 H2]; subst. split; [|assumption].
    destruct (existsb (N.eqb x) l) eqn:E; [|reflexivity].
    apply existsb_exists in E. destruct E as [y [Hy E]]. apply N.eqb_eq in E. now subst.
Qed.

Definition levels_inv (ls : list level) : Prop :=
  Forall (fun l => forallb run_ok l = true) ls /\
  NoDup (map tid (tables_of ls)) /\
  trec (tables_of ls).

Lemma vs_version_inv_iff v :
  version_inv v = true <-> length (levels v) = 7%nat /\ levels_inv (levels v).
Proof.
  unfold version_inv, levels_inv, all_tables, all_runs, tables_of, trec.
  rewrite !andb_true_iff, N.eqb_eq, vs_nodup_N_b, vs_forallb_concat.
  rewrite forallb_forall, Forall_forall.
  split; intros H; repeat split; try tauto; try lia.
Qed.

(** how one level of the result relates to the level before [optimize_runs] *)
Definition lvl_rel (p l' : level) : Prop :=
  forallb run_ok p = true -> trec (concat p) ->
  forallb run_ok l' = true /\ trec (concat l') /\ Permutation (concat l') (concat p).

Lemma vs_lvl_rel_refl p : lvl_rel p p.
Proof. intros H R. auto. Qed.

Lemma vs_lvl_rel_opt p : lvl_rel p (optimize_runs p).
Proof.
  intros H R. destruct (optimize_runs_level_inv p (conj H R)) as [H' R'].
  split; [assumption|]. split; [assumption|apply optimize_runs_perm].
Qed.

Lemma vs_lvl_rel_map_opt ps : Forall2 lvl_rel ps (map optimize_runs ps).
Proof.
  induction ps as [|p ps IH]; cbn [map]; constructor; auto using vs_lvl_rel_opt.
Qed.

Lemma vs_lvl_rel_map_id ps : Forall2 lvl_rel ps ps.
Proof.
  induction ps as [|p ps IH]; constructor; auto using vs_lvl_rel_refl.
Qed.

Lemma vs_tables_of_eq (ls : list level) : tables_of ls = concat (map (@concat table) ls).
Proof. unfold tables_of. apply (vs_concat_concat ls). Qed.

Lemma vs_levels_rel_inv pre ls' :
  Forall2 lvl_rel pre ls' -> levels_inv pre -> levels_inv ls'.
Proof.
  intros F [Hok [Hnd Hrec]].
  rewrite vs_tables_of_eq in Hnd, Hrec.
  apply vs_trec_concat in Hrec. destruct Hrec as [Hr Hg].
  assert (F' : Forall2 (fun p l' => forallb run_ok l' = true /\ trec (concat l') /\
                                  Permutation (concat l') (concat p)) pre ls').
  { clear Hnd Hg. induction F as [|p l' pre ls' Hpl F IH]; [constructor|].
    inversion Hok; subst. cbn [map] in Hr. inversion Hr; subst.
    constructor; [apply Hpl; assumption|apply IH; assumption]. }
  assert (P : Forall2 (@Permutation table) (map (@concat table) ls') (map (@concat table) pre)).
  { clear -F'. induction F' as [|p l' pre ls' H F IH]; cbn [map]; constructor; tauto. }
  repeat split.
  - clear -F'. induction F' as [|p l' pre ls' H F IH]; constructor; tauto.
  - rewrite vs_tables_of_eq. eapply Permutation_NoDup; [|exact Hnd].
    apply Permutation_map, Permutation_sym, vs_perm_concat_Forall2. exact P.
  - rewrite vs_tables_of_eq. apply vs_trec_concat. split.
    + clear -F'. induction F' as [|p l' pre ls' H F IH]; cbn [map]; constructor; tauto.
    + eapply vs_grp_rec_perm; eauto.
Qed.

(** ** the levels right after [retain] / [Run::new] insertion, before [optimize_runs] *)

Lemma vs_concat_retain ids l : concat (retain_runs ids l) = kept ids (concat l).
Proof.
  unfold retain_runs, kept, run_retain. induction l as [|r l IH]; [reflexivity|].
  cbn [map filter concat]. rewrite filter_app, <- IH.
  destruct (filter (fun t => negb (id_in ids t)) r) as [|x r']; reflexivity.
Qed.

Lemma vs_tables_of_cons l ls : tables_of (l :: ls) = concat l ++ tables_of ls.
Proof. unfold tables_of. cbn [concat]. apply concat_app. Qed.

Lemma vs_tables_of_app ls1 ls2 : tables_of (ls1 ++ ls2) = tables_of ls1 ++ tables_of ls2.
Proof. unfold tables_of. now rewrite !concat_app. Qed.

Lemma vs_kept_app ids a b : kept ids (a ++ b) = kept ids a ++ kept ids b.
Proof. apply filter_app. Qed.

Lemma vs_tables_of_retain ids ls :
  tables_of (map (retain_runs ids) ls) = kept ids (tables_of ls).
Proof.
  induction ls as [|l ls IH]; [reflexivity|].
  cbn [map]. now rewrite !vs_tables_of_cons, vs_kept_app, vs_concat_retain, IH.
Qed.

Lemma vs_retain_runs_ok ids l :
  forallb run_ok l = true -> forallb run_ok (retain_runs ids l) = true.
Proof.
  intros H. apply forallb_forall. intros r Hr. unfold retain_runs in Hr.
  apply filter_In in Hr. destruct Hr as [Hr Hne]. apply in_map_iff in Hr.
  destruct Hr as [r0 [<- Hr0]]. rewrite forallb_forall in H. specialize (H r0 Hr0).
  pose proof (vs_filter_opt_run_ok (fun t => negb (id_in ids t)) r0 (vs_run_ok_opt _ H)) as O.
  unfold run_retain in *. unfold opt_run_ok in O. unfold run_ok.
  destruct (filter (fun t => negb (id_in ids t)) r0); [discriminate|assumption].
Qed.

Lemma vs_nodup_map_filter (p : table -> bool) ts :
  NoDup (map tid ts) -> NoDup (map tid (filter p ts)).
Proof.
  induction ts as [|a ts IH]; cbn [map filter]; [auto|].
  intros H. inversion H as [|? ? H1 H2]; subst.
  destruct (p a); cbn [map]; [|auto]. constructor; [|auto].
  intros HI. apply H1. apply in_map_iff in HI. destruct HI as [y [E Hy]].
  apply filter_In in Hy. destruct Hy as [Hy _]. apply in_map_iff. eauto.
Qed.

Lemma vs_retain_levels_inv ids ls : levels_inv ls -> levels_inv (map (retain_runs ids) ls).
Proof.
  intros [Hok [Hnd Hrec]]. repeat split.
  - apply Forall_forall. intros l' Hl'. apply in_map_iff in Hl'. destruct Hl' as [l [<- Hl]].
    rewrite Forall_forall in Hok. apply vs_retain_runs_ok. auto.
  - rewrite vs_tables_of_retain. now apply vs_nodup_map_filter.
  - rewrite vs_tables_of_retain. now apply vs_trec_filter.
Qed.

(** * 9. with_dropped *)

Theorem with_dropped_inv v ids :
  version_inv v = true -> version_inv (with_dropped v ids) = true.
Proof.
  rewrite !vs_version_inv_iff. intros [L I]. unfold with_dropped. cbn [levels].
  split; [now rewrite map_length|].
  rewrite <- (map_map (retain_runs ids) optimize_runs).
  eapply vs_levels_rel_inv; [apply vs_lvl_rel_map_opt|]. now apply vs_retain_levels_inv.
Qed.

Lemma with_dropped_vid v ids : vid (with_dropped v ids) = vid v + 1.
Proof. reflexivity. Qed.

(** * 10. with_new_l0_run *)

Lemma vs_concat_run_new ts : concat (run_new ts) = ts.
Proof. destruct ts; cbn [run_new concat]; [reflexivity|apply app_nil_r]. Qed.

Lemma vs_all_newer_iff xs ys :
  all_newer xs ys = true <-> (forall x y, In x xs -> In y ys -> tnewer x y).
Proof.
  unfold all_newer, tnewer. rewrite forallb_forall. split.
  - intros H x y Hx Hy. specialize (H x Hx). rewrite forallb_forall in H. auto.
  - intros H x Hx. apply forallb_forall. auto.
Qed.

Lemma vs_opt_run_ok_trec ts : opt_run_ok ts = true -> trec ts.
Proof.
  unfold opt_run_ok. intros H. apply andb_true_iff in H. destruct H as [T D].
  destruct (vs_sorted_of_disjoint ts (vs_krange_of_table_ok _ T) D) as [_ P].
  apply vs_pairwise_no_trec; [|assumption].
  rewrite forallb_forall in T. apply Forall_forall. intros t Ht. apply vs_table_ok_keys. auto.
Qed.

Theorem with_new_l0_run_inv v tables :
  version_inv v = true -> l0_choice_ok v tables = true ->
  version_inv (with_new_l0_run v tables) = true.
Proof.
  intros Hv Hc. pose proof Hv as Hv'. rewrite vs_version_inv_iff in Hv'. destruct Hv' as [L I].
  unfold l0_choice_ok in Hc. apply andb_true_iff in Hc. destruct Hc as [Hc Hnew].
  apply andb_true_iff in Hc. destruct Hc as [Hrun Hfresh].
  unfold with_new_l0_run. unfold all_tables, all_runs in Hfresh, Hnew.
  fold (tables_of (levels v)) in Hfresh, Hnew.
  destruct (levels v) as [|l0 rest] eqn:E; [assumption|].
  apply vs_version_inv_iff. cbn [levels]. split; [exact L|].
  apply (vs_levels_rel_inv ((run_new tables ++ l0) :: rest)).
  - constructor; [apply vs_lvl_rel_opt|apply vs_lvl_rel_map_id].
  - destruct I as [Hok [Hnd Hrec]].
    assert (Et : tables_of ((run_new tables ++ l0) :: rest) = tables ++ tables_of (l0 :: rest)).
    { rewrite !vs_tables_of_cons, concat_app, vs_concat_run_new. now rewrite app_assoc. }
    repeat split.
    + inversion Hok as [|? ? H0 Hr]; subst. constructor; [|assumption].
      rewrite forallb_app, H0, andb_true_r. now apply vs_opt_run_ok_run_new.
    + rewrite Et. now apply vs_nodup_N_b.
    + rewrite Et. apply vs_trec_app. split; [now apply vs_opt_run_ok_trec|].
      split; [assumption|]. now apply vs_all_newer_iff.
Qed.

(** the statement as asked: the new tables form a [run_ok] run, with fresh ids, newer
    than everything in the version *)
Corollary with_new_l0_run_inv' v tables :
  version_inv v = true ->
  run_ok tables = true ->
  nodup_N_b (map tid (tables ++ all_tables v)) = true ->
  (forall n t, In n tables -> In t (all_tables v) -> newer_than (ents n) (ents t) = true) ->
  version_inv (with_new_l0_run v tables) = true.
Proof.
  intros Hv Hr Hf Hn. apply with_new_l0_run_inv; [assumption|].
  unfold l0_choice_ok. rewrite (vs_run_ok_opt _ Hr), Hf. cbn [andb].
  now apply vs_all_newer_iff.
Qed.

Lemma with_new_l0_run_vid v tables :
  levels v <> [] -> vid (with_new_l0_run v tables) = vid v + 1.
Proof. unfold with_new_l0_run. destruct (levels v); [congruence|reflexivity]. Qed.

(** * 11. The shared loop of with_merge / with_moved *)

(** the levels as they are right before the per-level [optimize_runs]; [d] counts down to
    the destination level; [ins] are the runs spliced in front of it *)
Fixpoint pre_levels (d : nat) (ids : list N) (ins : list run) (ls : list level)
  {struct ls} : list level :=
  match ls with
  | [] => []
  | l :: ls' =>
      match d with
      | O => (ins ++ retain_runs ids l) :: map (retain_runs ids) ls'
      | S d' => retain_runs ids l :: pre_levels d' ids ins ls'
      end
  end.

Lemma vs_rebuild_past idx ids ins dest ls :
  (dest < idx)%nat ->
  rebuild_from idx ids ins dest ls = map optimize_runs (map (retain_runs ids) ls).
Proof.
  revert idx; induction ls as [|l ls IH]; intros idx Hlt; [reflexivity|].
  cbn [rebuild_from map]. assert (E : Nat.eqb idx dest = false) by (apply Nat.eqb_neq; lia).
  rewrite E. f_equal. apply IH. lia.
Qed.

Lemma vs_rebuild_shape idx ids ins dest ls :
  (idx <= dest)%nat ->
  rebuild_from idx ids ins dest ls = map optimize_runs (pre_levels (dest - idx) ids ins ls).
Proof.
  revert idx; induction ls as [|l ls IH]; intros idx Hle; [reflexivity|].
  cbn [rebuild_from pre_levels]. destruct (dest - idx)%nat as [|d'] eqn:D.
  - assert (idx = dest) by lia. subst idx. rewrite Nat.eqb_refl. cbn [map]. f_equal.
    apply vs_rebuild_past. lia.
  - assert (E : Nat.eqb idx dest = false) by (apply Nat.eqb_neq; lia).
    rewrite E. cbn [map]. f_equal. rewrite IH by lia. do 2 f_equal. lia.
Qed.

Lemma vs_pre_levels_length d ids ins ls : length (pre_levels d ids ins ls) = length ls.
Proof.
  revert d; induction ls as [|l ls IH]; intros d; [reflexivity|].
  destruct d; cbn [pre_levels length]; [now rewrite map_length|now rewrite IH].
Qed.

Lemma vs_pre_levels_out d ids ins ls :
  (length ls <= d)%nat -> pre_levels d ids ins ls = map (retain_runs ids) ls.
Proof.
  revert d; induction ls as [|l ls IH]; intros d Hle; [reflexivity|].
  cbn [length] in Hle. destruct d as [|d]; [lia|].
  cbn [pre_levels map]. f_equal. apply IH. lia.
Qed.

Lemma vs_pre_levels_tables d ids ins ls :
  (d < length ls)%nat ->
  tables_of (pre_levels d ids ins ls)
  = kept ids (tables_of (firstn d ls)) ++ concat ins ++ kept ids (tables_of (skipn d ls)).
Proof.
  revert d; induction ls as [|l ls IH]; intros d Hlt; [cbn [length] in Hlt; lia|].
  destruct d as [|d]; cbn [pre_levels firstn skipn].
  - rewrite !vs_tables_of_cons, concat_app, vs_concat_retain,
      vs_tables_of_retain, vs_kept_app.
    change (kept ids (tables_of [])) with (@nil table). cbn [app]. now rewrite app_assoc.
  - cbn [length] in Hlt. rewrite !vs_tables_of_cons, IH by lia.
    now rewrite vs_kept_app, vs_concat_retain, app_assoc.
Qed.

Lemma vs_pre_levels_runs_ok d ids ins ls :
  forallb run_ok ins = true ->
  Forall (fun l => forallb run_ok l = true) ls ->
  Forall (fun l => forallb run_ok l = true) (pre_levels d ids ins ls).
Proof.
  intros Hn. revert d; induction ls as [|l ls IH]; intros d H; [constructor|].
  inversion H as [|? ? Hl Hls]; subst. destruct d as [|d]; cbn [pre_levels]; constructor.
  - rewrite forallb_app, Hn, vs_retain_runs_ok; auto.
  - apply Forall_forall. intros l' Hl'. apply in_map_iff in Hl'. destruct Hl' as [l0 [<- Hl0]].
    rewrite Forall_forall in Hls. apply vs_retain_runs_ok. auto.
  - now apply vs_retain_runs_ok.
  - now apply IH.
Qed.

(** the heart of with_merge_inv / with_moved_inv *)
Lemma vs_pre_levels_inv d ids ins ls :
  (d < length ls)%nat ->
  levels_inv ls ->
  forallb run_ok ins = true -> trec (concat ins) ->
  NoDup (map tid (concat ins ++ kept ids (tables_of ls))) ->
  all_newer (kept ids (tables_of (firstn d ls))) (concat ins) = true ->
  all_newer (concat ins) (kept ids (tables_of (skipn d ls))) = true ->
  levels_inv (pre_levels d ids ins ls).
Proof.
  intros Hd [Hok [Hnd Hrec]] Hn Hnr Hfresh Hup Hdown.
  assert (Es : tables_of ls = tables_of (firstn d ls) ++ tables_of (skipn d ls)).
  { now rewrite <- vs_tables_of_app, firstn_skipn. }
  rewrite vs_all_newer_iff in Hup, Hdown.
  repeat split.
  - now apply vs_pre_levels_runs_ok.
  - rewrite vs_pre_levels_tables by assumption.
    eapply Permutation_NoDup; [|exact Hfresh]. apply Permutation_map.
    rewrite Es, vs_kept_app. apply Permutation_app_swap_app.
  - rewrite vs_pre_levels_tables by assumption.
    rewrite Es in Hrec. apply (vs_trec_filter (fun t => negb (id_in ids t))) in Hrec.
    rewrite filter_app in Hrec. apply vs_trec_app in Hrec. destruct Hrec as [Ra [Rb Rab]].
    apply vs_trec_app. split; [exact Ra|]. split.
    + apply vs_trec_app. split; [exact Hnr|]. split; [exact Rb|exact Hdown].
    + intros x y Hx Hy. apply in_app_or in Hy. destruct Hy as [Hy|Hy]; [now apply Hup|].
      now apply Rab.
Qed.

Lemma vs_rebuild_inv ids ins dest ls :
  levels_inv ls ->
  forallb run_ok ins = true -> trec (concat ins) ->
  NoDup (map tid (concat ins ++ kept ids (tables_of ls))) ->
  all_newer (kept ids (tables_of (firstn dest ls))) (concat ins) = true ->
  all_newer (concat ins) (kept ids (tables_of (skipn dest ls))) = true ->
  levels_inv (rebuild_from O ids ins dest ls) /\
  length (rebuild_from O ids ins dest ls) = length ls.
Proof.
  intros I Hn Hnr Hfresh Hup Hdown.
  rewrite vs_rebuild_shape by lia. rewrite Nat.sub_0_r.
  split; [|now rewrite map_length, vs_pre_levels_length].
  eapply vs_levels_rel_inv; [apply vs_lvl_rel_map_opt|].
  destruct (Nat.ltb dest (length ls)) eqn:C.
  - apply Nat.ltb_lt in C. now apply vs_pre_levels_inv.
  - apply Nat.ltb_ge in C. rewrite vs_pre_levels_out by assumption.
    now apply vs_retain_levels_inv.
Qed.

(** * 12. with_merge *)

Theorem with_merge_inv v old_ids new_tables dest :
  version_inv v = true -> merge_choice_ok v old_ids new_tables dest = true ->
  version_inv (with_merge v old_ids new_tables dest) = true.
Proof.
  rewrite !vs_version_inv_iff. intros [L I] Hc.
  unfold merge_choice_ok, place_ok in Hc.
  apply andb_true_iff in Hc. destruct Hc as [Hc Hp].
  apply andb_true_iff in Hc. destruct Hc as [Hrun Hfresh].
  apply andb_true_iff in Hp. destruct Hp as [Hup Hdown].
  apply vs_nodup_N_b in Hfresh.
  destruct (vs_rebuild_inv old_ids (run_new new_tables) dest (levels v) I) as [I' L'];
    rewrite ?vs_concat_run_new;
    auto using vs_opt_run_ok_run_new, vs_opt_run_ok_trec.
  unfold with_merge. cbn [levels]. split; [now rewrite L'|exact I'].
Qed.

Lemma with_merge_vid v old_ids new_tables dest :
  vid (with_merge v old_ids new_tables dest) = vid v + 1.
Proof. reflexivity. Qed.

(** * 13. with_moved *)

Lemma vs_levels_table_ok ls t :
  Forall (fun l => forallb run_ok l = true) ls -> In t (tables_of ls) -> table_ok t = true.
Proof.
  intros Hok Ht. unfold tables_of in Ht. apply in_concat in Ht. destruct Ht as [r [Hr Ht]].
  apply in_concat in Hr. destruct Hr as [l [Hl Hr]].
  rewrite Forall_forall in Hok. specialize (Hok l Hl).
  rewrite forallb_forall in Hok. specialize (Hok r Hr). apply vs_run_ok_parts in Hok.
  destruct Hok as [_ [T _]]. rewrite forallb_forall in T. auto.
Qed.

Lemma vs_moved_runs_eq ts : moved_runs ts = map (fun t => [t]) ts.
Proof.
  unfold moved_runs. induction ts as [|t ts IH]; [reflexivity|].
  change (flat_map (fun t => run_new [t]) (t :: ts))
    with ([t] :: flat_map (fun t => run_new [t]) ts).
  cbn [map]. now rewrite IH.
Qed.

Lemma vs_concat_moved_runs ts : concat (moved_runs ts) = ts.
Proof.
  rewrite vs_moved_runs_eq. induction ts as [|t ts IH]; [reflexivity|].
  cbn [map concat app]. now rewrite IH.
Qed.

Lemma vs_moved_runs_ok ts :
  forallb table_ok ts = true -> forallb run_ok (moved_runs ts) = true.
Proof.
  rewrite vs_moved_runs_eq. induction ts as [|t ts IH]; [reflexivity|].
  cbn [forallb map]. intros H. apply andb_true_iff in H. destruct H as [Ht Hts].
  rewrite (IH Hts), andb_true_r. cbn [run_ok forallb run_disjoint_b]. now rewrite Ht.
Qed.

(** facts about the moved tables that follow from the invariant of [v] alone *)
Lemma vs_affected_facts ids ls :
  levels_inv ls ->
  let aff := filter (id_in ids) (tables_of ls) in
  forallb table_ok aff = true /\ trec aff /\
  NoDup (map tid (aff ++ kept ids (tables_of ls))).
Proof.
  intros [Hok [Hnd Hrec]] aff. split; [|split].
  - apply forallb_forall. intros t Ht. apply filter_In in Ht. destruct Ht as [Ht _].
    eapply vs_levels_table_ok; eauto.
  - now apply vs_trec_filter.
  - eapply Permutation_NoDup; [|exact Hnd].
    apply Permutation_map, Permutation_sym. apply vs_perm_filter_split.
Qed.

(** current with_moved: the placement condition is all that is needed *)
Theorem with_moved_inv v ids dest :
  version_inv v = true -> move_choice_ok v ids dest = true ->
  version_inv (with_moved v ids dest) = true.
Proof.
  intros Hv Hc. unfold with_moved.
  destruct (Nat.eqb (length (filter (id_in ids) (all_tables v))) (length ids)); [|assumption].
  rewrite vs_version_inv_iff in *. destruct Hv as [L I].
  unfold move_choice_ok, place_ok in Hc.
  apply andb_true_iff in Hc. destruct Hc as [Hup Hdown].
  change (all_tables v) with (tables_of (levels v)) in *.
  destruct (vs_affected_facts ids (levels v) I) as [Ht [Hr Hfresh]].
  set (aff := filter (id_in ids) (tables_of (levels v))) in *.
  destruct (vs_rebuild_inv ids (moved_runs aff) dest (levels v) I) as [I' L'];
    rewrite ?vs_concat_moved_runs; auto using vs_moved_runs_ok.
  cbn [levels]. split; [now rewrite L'|exact I'].
Qed.

(** pre-fix with_moved: needed the moved tables to form a legal run in addition *)
Theorem with_moved_old_inv v ids dest :
  version_inv v = true -> move_choice_ok_old v ids dest = true ->
  version_inv (with_moved_old v ids dest) = true.
Proof.
  intros Hv Hc. unfold with_moved_old.
  destruct (Nat.eqb (length (filter (id_in ids) (all_tables v))) (length ids)); [|assumption].
  rewrite vs_version_inv_iff in *. destruct Hv as [L I].
  unfold move_choice_ok_old, place_ok in Hc.
  apply andb_true_iff in Hc. destruct Hc as [Hdis Hp].
  apply andb_true_iff in Hp. destruct Hp as [Hup Hdown].
  change (all_tables v) with (tables_of (levels v)) in *.
  destruct (vs_affected_facts ids (levels v) I) as [Ht [Hr Hfresh]].
  set (aff := filter (id_in ids) (tables_of (levels v))) in *.
  assert (Hrun : opt_run_ok aff = true) by (unfold opt_run_ok; now rewrite Ht, Hdis).
  destruct (vs_rebuild_inv ids (run_new aff) dest (levels v) I) as [I' L'];
    rewrite ?vs_concat_run_new; auto using vs_opt_run_ok_run_new.
  cbn [levels]. split; [now rewrite L'|exact I'].
Qed.

(** * 13b. The conditions are exact: necessity of [place_ok] (and of freshness and
    [table_ok] of the inserted tables) for a destination level that exists *)

Lemma vs_pre_levels_split d ids ins ls :
  (d < length ls)%nat ->
  exists ld B, skipn d ls = ld :: B /\
    pre_levels d ids ins ls
    = map (retain_runs ids) (firstn d ls)
      ++ (ins ++ retain_runs ids ld) :: map (retain_runs ids) B.
Proof.
  revert d; induction ls as [|l ls IH]; intros d Hlt; [cbn [length] in Hlt; lia|].
  destruct d as [|d]; cbn [pre_levels firstn skipn map app].
  - exists l, ls. split; reflexivity.
  - cbn [length] in Hlt. destruct (IH d) as (ld & B & E1 & E2); [lia|].
    exists ld, B. split; [assumption|]. now rewrite E2.
Qed.

Lemma vs_grp_rec_split G1 g G2 :
  grp_rec (G1 ++ g :: G2) ->
  (forall x y, In x (concat G1) -> In y g -> tnewer x y) /\
  (forall x y, In x g -> In y (concat G2) -> tnewer x y).
Proof.
  induction G1 as [|h G1 IH]; cbn [app grp_rec concat].
  - intros [H1 _]. split; [intros x y []|exact H1].
  - intros [H1 H2]. destruct (IH H2) as [A B]. split; [|exact B].
    intros x y Hx Hy. apply in_app_or in Hx. destruct Hx as [Hx|Hx]; [|now apply A].
    apply H1; [assumption|]. rewrite concat_app. apply in_or_app. right.
    cbn [concat]. apply in_or_app. now left.
Qed.

Lemma vs_trec_occurs l a b : trec l -> occurs_before l a b -> tnewer a b.
Proof.
  intros R (l1 & l2 & l3 & ->). apply vs_trec_app in R. destruct R as [_ [R _]].
  apply vs_trec_cons in R. destruct R as [R _]. rewrite Forall_forall in R.
  apply R. apply in_or_app. right. now left.
Qed.

Lemma vs_map_opt_perm (pre : list level) :
  Forall2 (@Permutation table) (map (@concat table) pre)
          (map (@concat table) (map optimize_runs pre)).
Proof.
  induction pre as [|p pre IH]; cbn [map]; constructor; [|exact IH].
  apply Permutation_sym, optimize_runs_perm.
Qed.

(** [ins]: the runs spliced at the front of level [dest] (one run for with_merge, one
    run per table for with_moved) *)
Theorem rebuild_choice_necessary v ids ins dest :
  version_inv v = true -> (dest < length (levels v))%nat ->
  version_inv (mkV (vid v + 1) (rebuild_from O ids ins dest (levels v))) = true ->
  forallb table_ok (concat ins) = true /\
  nodup_N_b (map tid (concat ins ++ kept ids (all_tables v))) = true /\
  place_ok v ids (concat ins) dest = true.
Proof.
  rewrite !vs_version_inv_iff. cbn [levels]. intros [L I] Hd [_ [Hok' [Hnd' Hrec']]].
  change (all_tables v) with (tables_of (levels v)).
  set (ls := levels v) in *.
  rewrite vs_rebuild_shape in Hok', Hnd', Hrec' by lia. rewrite Nat.sub_0_r in *.
  set (pre := pre_levels dest ids ins ls) in *.
  assert (P : Permutation (tables_of pre) (tables_of (map optimize_runs pre))).
  { rewrite !vs_tables_of_eq. apply vs_perm_concat_Forall2, vs_map_opt_perm. }
  assert (Et : tables_of pre = kept ids (tables_of (firstn dest ls)) ++ concat ins
                               ++ kept ids (tables_of (skipn dest ls))).
  { now apply vs_pre_levels_tables. }
  assert (Es : tables_of ls = tables_of (firstn dest ls) ++ tables_of (skipn dest ls)).
  { now rewrite <- vs_tables_of_app, firstn_skipn. }
  assert (Tnew : forall n, In n (concat ins) -> table_ok n = true).
  { intros n Hn. apply (vs_levels_table_ok (map optimize_runs pre)); [assumption|].
    eapply Permutation_in; [exact P|]. rewrite Et. apply in_or_app. right.
    apply in_or_app. now left. }
  split; [apply forallb_forall; exact Tnew|]. split.
  - apply vs_nodup_N_b. eapply Permutation_NoDup; [|exact Hnd'].
    apply Permutation_map. eapply perm_trans; [apply Permutation_sym; exact P|].
    rewrite Et, Es, vs_kept_app. apply Permutation_app_swap_app.
  - destruct (vs_pre_levels_split dest ids ins ls Hd) as (ld & B & Esk & Epre).
    rewrite vs_tables_of_eq in Hrec'. apply vs_trec_concat in Hrec'.
    destruct Hrec' as [Hlv Hg].
    assert (Hg' : grp_rec (map (@concat table) pre)).
    { eapply vs_grp_rec_perm; [apply vs_map_opt_perm|exact Hg]. }
    fold pre in Epre. rewrite Epre in Hg'. rewrite map_app in Hg'. cbn [map] in Hg'.
    apply vs_grp_rec_split in Hg'. destruct Hg' as [Hup Hdown].
    rewrite <- !vs_tables_of_eq, !vs_tables_of_retain in Hup, Hdown.
    rewrite concat_app, vs_concat_retain in Hup, Hdown.
    unfold place_ok. fold ls. apply andb_true_iff. split; apply vs_all_newer_iff.
    + intros x n Hx Hn. apply Hup; [assumption|]. apply in_or_app. now left.
    + intros n y Hn Hy. rewrite Esk, vs_tables_of_cons, vs_kept_app in Hy.
      apply in_app_or in Hy. destruct Hy as [Hy|Hy];
        [|apply Hdown; [apply in_or_app; now left|assumption]].
      (* same level: the order theorem *)
      destruct (kr_overlaps n y) eqn:O.
      * assert (Hin : In (optimize_runs (ins ++ retain_runs ids ld))
                         (map optimize_runs pre)).
        { rewrite Epre, map_app. apply in_or_app. right. now left. }
        rewrite Forall_forall in Hlv.
        assert (Rd : trec (concat (optimize_runs (ins ++ retain_runs ids ld)))).
        { apply Hlv. now apply in_map. }
        eapply vs_trec_occurs; [exact Rd|].
        rewrite <- vs_concat_retain in Hy.
        destruct ins as [|i0 ins']; [contradiction|].
        destruct (retain_runs ids ld) as [|r0 rs0] eqn:Er; [contradiction|].
        rewrite vs_optimize_runs_big by (rewrite app_length; cbn [length]; lia).
        apply vs_runs_before_occurs. apply vs_opt_fold_order; [|assumption].
        rewrite concat_app. apply in_split in Hn. destruct Hn as [a1 [a2 ->]].
        apply in_split in Hy. destruct Hy as [b1 [b2 ->]].
        exists a1, (a2 ++ b1), b2. now rewrite <- !app_assoc.
      * apply vs_no_overlap_newer; [apply vs_table_ok_keys; auto| |assumption].
        apply vs_table_ok_keys. destruct I as [Hok _].
        apply (vs_levels_table_ok ls); [assumption|]. rewrite Es. apply in_or_app. right.
        rewrite Esk, vs_tables_of_cons. apply in_or_app. left.
        apply filter_In in Hy. tauto.
Qed.

(** so, for an existing destination level and a vector of new tables that is a legal
    run (or empty), the condition of with_merge_inv is necessary and sufficient *)
Corollary with_merge_inv_iff v old_ids new_tables dest :
  version_inv v = true -> (dest < length (levels v))%nat -> run_disjoint_b new_tables = true ->
  (version_inv (with_merge v old_ids new_tables dest) = true
   <-> merge_choice_ok v old_ids new_tables dest = true).
Proof.
  intros Hv Hd Hdis. split; [|now apply with_merge_inv].
  intros H. destruct (rebuild_choice_necessary v old_ids _ dest Hv Hd H) as [T [F P]].
  rewrite vs_concat_run_new in T, F, P.
  unfold merge_choice_ok, opt_run_ok. now rewrite T, Hdis, F, P.
Qed.

(** current with_moved: [move_choice_ok] (= [place_ok] of the moved tables) is exactly
    what is needed, with no side condition on the moved tables *)
Corollary with_moved_inv_iff v ids dest :
  version_inv v = true -> (dest < length (levels v))%nat ->
  length (filter (id_in ids) (all_tables v)) = length ids ->       (* the assert_eq! holds *)
  (version_inv (with_moved v ids dest) = true <-> move_choice_ok v ids dest = true).
Proof.
  intros Hv Hd Hlen. split; [|now apply with_moved_inv].
  unfold with_moved. rewrite Hlen, Nat.eqb_refl. intros H.
  destruct (rebuild_choice_necessary v ids _ dest Hv Hd H) as [_ [_ P]].
  rewrite vs_concat_moved_runs in P. exact P.
Qed.

(** * 14. The link to [check_inv_sv] *)

Lemma vs_recency_app_r a b : recency_b (a ++ b) = true -> recency_b b = true.
Proof.
  induction a as [|c a IH]; cbn [app recency_b]; [auto|].
  intros H. apply andb_true_iff in H. tauto.
Qed.

(** [version_inv] is exactly the whole-version part of [check_inv_sv] *)
Lemma check_inv_sv_version_inv sv : check_inv_sv sv = true -> version_inv (ver sv) = true.
Proof.
  unfold check_inv_sv, version_inv, containers. intros H.
  apply andb_true_iff in H. destruct H as [H Hrec].
  apply andb_true_iff in H. destruct H as [H Hnd].
  apply andb_true_iff in H. destruct H as [H Hok].
  apply andb_true_iff in H. destruct H as [_ Hlen].
  rewrite Hlen, Hok, Hnd. cbn [andb].
  apply (vs_recency_app_r (ments (active sv) :: map ments (rev (sealed sv)))). exact Hrec.
Qed.

(** * 15. Examples *)

(** ** 15.1 the unit tests of src/version/optimize.rs, replayed
    ([s(id, min, max)]: only id and key range matter; keys are the ASCII bytes) *)
Definition ft (id : N) (mn mx : N) : table := mkT id 0 [] [mn] [mx] 0 0 0 0 0.
Notation "'ca'" := 97 (only parsing).  Notation "'cb'" := 98 (only parsing).
Notation "'cc'" := 99 (only parsing).  Notation "'cd'" := 100 (only parsing).
Notation "'cf'" := 102 (only parsing). Notation "'cm'" := 109 (only parsing).
Notation "'cp'" := 112 (only parsing). Notation "'cz'" := 122 (only parsing).

Example optimize_runs_empty : optimize_runs [] = [].
Proof. vm_compute; reflexivity. Qed.

Example optimize_runs_one : optimize_runs [[ft 0 ca cb]] = [[ft 0 ca cb]].
Proof. vm_compute; reflexivity. Qed.

Example optimize_runs_two_overlap :
  optimize_runs [[ft 0 ca cb]; [ft 1 ca cb]] = [[ft 0 ca cb]; [ft 1 ca cb]].
Proof. vm_compute; reflexivity. Qed.

Example optimize_runs_two_overlap_2 :
  optimize_runs [[ft 0 ca cz]; [ft 1 cc cf]] = [[ft 0 ca cz]; [ft 1 cc cf]].
Proof. vm_compute; reflexivity. Qed.

Example optimize_runs_two_overlap_3 :
  optimize_runs [[ft 0 cc cf]; [ft 1 ca cz]] = [[ft 0 cc cf]; [ft 1 ca cz]].
Proof. vm_compute; reflexivity. Qed.

Example optimize_runs_two_disjoint :
  optimize_runs [[ft 0 ca cc]; [ft 1 cd cf]] = [[ft 0 ca cc; ft 1 cd cf]].
Proof. vm_compute; reflexivity. Qed.

Example optimize_runs_two_disjoint_2 :
  optimize_runs [[ft 1 cd cf]; [ft 0 ca cc]] = [[ft 0 ca cc; ft 1 cd cf]].
Proof. vm_compute; reflexivity. Qed.

Example optimize_runs_overlap_transitive :
  optimize_runs [[ft 2 cm cp]; [ft 1 ca cz]; [ft 0 ca cc]]
  = [[ft 2 cm cp]; [ft 1 ca cz]; [ft 0 ca cc]].
Proof. vm_compute; reflexivity. Qed.

(** key_range.rs tests: key_range_overlap, key_range_overlap_edge, key_range_no_overlap *)
Example key_range_overlap : kr_overlaps (ft 0 ca cf) (ft 1 cb 104) = true.
Proof. vm_compute; reflexivity. Qed.
Example key_range_overlap_edge : kr_overlaps (ft 0 ca cf) (ft 1 cf 116) = true.
Proof. vm_compute; reflexivity. Qed.
Example key_range_no_overlap : kr_overlaps (ft 0 ca cf) (ft 1 103 116) = false.
Proof. vm_compute; reflexivity. Qed.

(** [Run::push] keeps the vector sorted by min key; ties keep insertion order (stable) *)
Example run_push_sorted :
  run_push [ft 0 ca cb; ft 1 cm cp] (ft 2 cd cf) = [ft 0 ca cb; ft 2 cd cf; ft 1 cm cp].
Proof. vm_compute; reflexivity. Qed.
Example run_push_stable :
  run_push [ft 0 ca cb; ft 1 cd cp] (ft 2 cd cf) = [ft 0 ca cb; ft 1 cd cp; ft 2 cd cf].
Proof. vm_compute; reflexivity. Qed.

(** a table pushed behind the LAST overlapping run, not the first free one *)
Example optimize_runs_behind_last :
  optimize_runs [[ft 0 ca cc]; [ft 1 ca cz]; [ft 2 cm cp]]
  = [[ft 0 ca cc]; [ft 1 ca cz]; [ft 2 cm cp]].
Proof. vm_compute; reflexivity. Qed.

(** ** 15.2 well-formed tables: the hypotheses of the theorems are satisfiable *)

Definition mk_table (id : N) (es : list entry) : table :=
  match es with
  | [] => mkT id 0 [] [] [] 0 0 0 0 0
  | e0 :: _ =>
      mkT id 0 es (ukey e0) (ukey (last es e0)) (min_seq es) (max_seq es)
          (N.of_nat (length es)) (count_b is_tomb es) (count_b is_weak es)
  end.
Definition ev (k s : N) : entry := mkE [k] s Value [s].

Definition T1 := mk_table 1 [ev 1 9].
Definition T2 := mk_table 2 [ev 1 5; ev 3 5].
Definition T3 := mk_table 3 [ev 1 3; ev 2 3].
Definition T4 := mk_table 4 [ev 5 2; ev 6 2].
Definition T5 := mk_table 5 [ev 6 1; ev 9 1].

(** L0 = [T1], L1 = [T2], L2 = [T3 T4] [T5] (T5 overlaps T4 on key 6), L3..L6 empty *)
Definition v0 : version := mkV 7 [[[T1]]; [[T2]]; [[T3; T4]; [T5]]; []; []; []; []].

Example v0_inv : version_inv v0 = true.
Proof. vm_compute; reflexivity. Qed.

(** Theorems 1, 2, 4 on L2 of v0 with a third run: its table (key 4) overlaps nothing and
    is packed into the first run; T5 stays behind T4 *)
Definition T6 := mk_table 6 [ev 4 0].
Example optimize_level_instance :
  let rs := [[T3; T4]; [T5]; [T6]] in
  forallb table_ok (concat rs) = true /\
  recency_b (map ents (concat rs)) = true /\
  optimize_runs rs = [[T3; T6; T4]; [T5]] /\
  forallb run_ok (optimize_runs rs) = true /\
  recency_b (map ents (concat (optimize_runs rs))) = true.
Proof. vm_compute; repeat split; reflexivity. Qed.

(** Theorem 3: T2 before T3 in the input and overlapping: distinct output runs, same order;
    the non-overlapping T4 joins T2's run *)
Example optimize_order_instance :
  let rs := [[T2]; [T3; T4]] in
  occurs_before (concat rs) T2 T3 /\ kr_overlaps T2 T3 = true /\
  optimize_runs rs = [[T2; T4]; [T3]].
Proof.
  cbn zeta. split; [exists [], [], [T4]; reflexivity|]. split; vm_compute; reflexivity.
Qed.

(** with_dropped *)
Example with_dropped_instance :
  with_dropped v0 [2; 4] = mkV 8 [[[T1]]; []; [[T3; T5]]; []; []; []; []] /\
  version_inv (with_dropped v0 [2; 4]) = true.
Proof. split; vm_compute; reflexivity. Qed.

(** with_new_l0_run: a flushed memtable with the newest seqnos *)
Definition T0 := mk_table 10 [ev 1 12; ev 4 11].
Example with_new_l0_run_instance :
  l0_choice_ok v0 [T0] = true /\
  levels (with_new_l0_run v0 [T0]) = [[[T0]; [T1]]; [[T2]]; [[T3; T4]; [T5]]; []; []; []; []] /\
  version_inv (with_new_l0_run v0 [T0]) = true.
Proof. repeat split; vm_compute; reflexivity. Qed.

(** ... and a stale "new" table (older than T1 for key 1) is rejected by the condition and
    does break the invariant *)
Example with_new_l0_run_stale :
  let stale := mk_table 11 [ev 1 8] in
  l0_choice_ok v0 [stale] = false /\ version_inv (with_new_l0_run v0 [stale]) = false.
Proof. split; vm_compute; reflexivity. Qed.

(** with_merge: compact L1 = {T2} and the overlapping T3 of L2 into L2 *)
Definition T23 := mk_table 23 [ev 1 5; ev 2 3; ev 3 5].
Example with_merge_instance :
  merge_choice_ok v0 [2; 3] [T23] 2 = true /\
  levels (with_merge v0 [2; 3] [T23] 2) = [[[T1]]; []; [[T23; T4]; [T5]]; []; []; []; []] /\
  version_inv (with_merge v0 [2; 3] [T23] 2) = true.
Proof. repeat split; vm_compute; reflexivity. Qed.

(** merging L0+L1 = {T1, T2} into L3, past L2 which still holds key 1 in T3: condition
    false, invariant broken (T3's stale key 1 now shadows the merged table) *)
Definition T12 := mk_table 12 [ev 1 9; ev 3 5].
Example with_merge_past_overlap :
  merge_choice_ok v0 [1; 2] [T12] 3 = false /\
  version_inv (with_merge v0 [1; 2] [T12] 3) = false /\
  runs_get (fun _ _ => true) (all_runs (with_merge v0 [1; 2] [T12] 3)) [1] 100 = Some (ev 1 3).
Proof. repeat split; vm_compute; reflexivity. Qed.

(** a destination level that does not exist: the new tables vanish (mod.rs: with_merge
    never meets [dest_level]); the structural invariant still holds *)
Example with_merge_dest_out_of_range :
  levels (with_merge v0 [2; 3] [T23] 7) = [[[T1]]; []; [[T4]; [T5]]; []; []; []; []].
Proof. vm_compute; reflexivity. Qed.

(** with_moved: a trivial move of T2 from L1 to the front of L2 is fine ... *)
Example with_moved_instance :
  move_choice_ok v0 [2] 2 = true /\
  levels (with_moved v0 [2] 2) = [[[T1]]; []; [[T2; T4]; [T3; T5]]; []; []; []; []] /\
  version_inv (with_moved v0 [2] 2) = true.
Proof. repeat split; vm_compute; reflexivity. Qed.

(** ... but a MoveDown-style move of T2 from L1 to L3, past L2 whose T3 overlaps it, puts
    the older version of key 1 (seq 3, in T3) in front of the newer one (seq 5, in T2):
    [move_choice_ok] is false, [recency_b] is violated, and a point read goes wrong. *)
Example with_moved_past_overlap_refuted :
  version_inv v0 = true /\
  move_choice_ok v0 [2] 3 = false /\
  levels (with_moved v0 [2] 3) = [[[T1]]; []; [[T3; T4]; [T5]]; [[T2]]; []; []; []] /\
  forallb run_ok (all_runs (with_moved v0 [2] 3)) = true /\
  recency_b (map ents (all_tables (with_moved v0 [2] 3))) = false /\
  version_inv (with_moved v0 [2] 3) = false.
Proof. repeat split; vm_compute; reflexivity. Qed.

Example with_moved_past_overlap_read :
  let v := with_dropped v0 [1] in          (* no T1, so key 1 lives in T2 (seq 5), T3 (seq 3) *)
  version_inv v = true /\
  runs_get (fun _ _ => true) (all_runs v) [1] 100 = Some (ev 1 5) /\
  runs_get (fun _ _ => true) (all_runs (with_moved v [2] 3)) [1] 100 = Some (ev 1 3).
Proof. repeat split; vm_compute; reflexivity. Qed.

(** PRE-FIX witness (with_moved_old = with_moved of 3.1.9 as shipped): moving two tables
    that do not form a sorted disjoint run (iter_tables order T2, T3: overlapping) into an
    empty level: the single run of the level is not a legal run, and [optimize_runs]
    returns it unchanged because there is only one *)
Example with_moved_old_bad_run :
  version_inv v0 = true /\
  move_choice_ok_old v0 [2; 3] 4 = false /\
  levels (with_moved_old v0 [2; 3] 4) = [[[T1]]; []; [[T4]; [T5]]; []; [[T2; T3]]; []; []] /\
  forallb run_ok (all_runs (with_moved_old v0 [2; 3] 4)) = false /\
  version_inv (with_moved_old v0 [2; 3] 4) = false.
Proof. repeat split; vm_compute; reflexivity. Qed.

(** the same move on the CURRENT with_moved: each table enters as its own run, the two
    overlapping tables stay in two runs (T2 first), the invariant holds *)
Example with_moved_two_overlapping :
  move_choice_ok v0 [2; 3] 4 = true /\
  levels (with_moved v0 [2; 3] 4) = [[[T1]]; []; [[T4]; [T5]]; []; [[T2]; [T3]]; []; []] /\
  version_inv (with_moved v0 [2; 3] 4) = true.
Proof. repeat split; vm_compute; reflexivity. Qed.

(** exactly one moved table into an empty level: [optimize_runs] takes its
    [len <= 1] shortcut, the lone single-table run is legal *)
Example with_moved_single_into_empty :
  move_choice_ok v0 [5] 4 = true /\
  levels (with_moved v0 [5] 4) = [[[T1]]; [[T2]]; [[T3; T4]]; []; [[T5]]; []; []] /\
  version_inv (with_moved v0 [5] 4) = true.
Proof. repeat split; vm_compute; reflexivity. Qed.

(** disjoint moved tables are packed back into one run by [optimize_runs] *)
Example with_moved_two_disjoint :
  move_choice_ok v0 [3; 5] 4 = true /\
  levels (with_moved v0 [3; 5] 4) = [[[T1]]; [[T2]]; [[T4]]; []; [[T3; T5]]; []; []] /\
  version_inv (with_moved v0 [3; 5] 4) = true /\
  (* whereas moving T4 (key 6, seq 2) below the T5 that stays (key 6, seq 1) is refused *)
  move_choice_ok v0 [3; 4] 4 = false /\ version_inv (with_moved v0 [3; 4] 4) = false.
Proof. repeat split; vm_compute; reflexivity. Qed.

(** the defect as found on the crate: put b; flush; put a, c; flush; MoveDown(0, 3);
    get b.  L0 holds two overlapping runs [Tac] (newer) and [Tb]. *)
Definition Tb := mk_table 1 [ev 98 0].
Definition Tac := mk_table 2 [ev 97 1; ev 99 2].
Definition vd : version := mkV 2 [[[Tac]; [Tb]]; []; []; []; []; []; []].
Example with_moved_defect_replay :
  version_inv vd = true /\
  runs_get (fun _ _ => true) (all_runs vd) [98] 100 = Some (ev 98 0) /\
  (* pre-fix: one illegal run [Tac; Tb]; Run::get_for_key stops at Tac: b is lost *)
  levels (with_moved_old vd [1; 2] 3) = [[]; []; []; [[Tac; Tb]]; []; []; []] /\
  version_inv (with_moved_old vd [1; 2] 3) = false /\
  runs_get (fun _ _ => true) (all_runs (with_moved_old vd [1; 2] 3)) [98] 100 = None /\
  (* current code: two runs, invariant holds, b is found *)
  move_choice_ok vd [1; 2] 3 = true /\
  levels (with_moved vd [1; 2] 3) = [[]; []; []; [[Tac]; [Tb]]; []; []; []] /\
  version_inv (with_moved vd [1; 2] 3) = true /\
  runs_get (fun _ _ => true) (all_runs (with_moved vd [1; 2] 3)) [98] 100 = Some (ev 98 0).
Proof. repeat split; vm_compute; reflexivity. Qed.

(** the [assert_eq!] of with_moved: unknown id, no new version *)
Example with_moved_invalid_ids : with_moved v0 [2; 99] 3 = v0.
Proof. vm_compute; reflexivity. Qed.

(** * 16. Assumptions *)
Print Assumptions optimize_runs_perm.
Print Assumptions optimize_runs_run_ok.
Print Assumptions optimize_runs_run_ok_gen.
Print Assumptions optimize_runs_order.
Print Assumptions optimize_runs_recency.
Print Assumptions optimize_runs_level_inv.
Print Assumptions with_dropped_inv.
Print Assumptions with_new_l0_run_inv.
Print Assumptions with_new_l0_run_inv'.
Print Assumptions with_merge_inv.
Print Assumptions with_moved_inv.
Print Assumptions with_moved_old_inv.
Print Assumptions rebuild_choice_necessary.
Print Assumptions with_merge_inv_iff.
Print Assumptions with_moved_inv_iff.
Print Assumptions check_inv_sv_version_inv.
