(** Version transformations preserve the structural invariant.
    Model: Model/Version.v (optimize_runs, Run::push, with_new_l0_run, with_dropped,
    with_merge, with_moved). *)
From LsmV Require Import Model.Version.
From Coq Require Import Permutation PeanoNat.
Open Scope N_scope.
Arguments N.add : simpl never.
Arguments N.sub : simpl never.
Arguments N.ltb : simpl never.
Arguments N.leb : simpl never.
Arguments N.eqb : simpl never.

(** * 0. Small list facts *)

Lemma vs_forallb_concat {A} (f : A -> bool) (ll : list (list A)) :
  forallb f (concat ll) = forallb (forallb f) ll.
Proof.
  induction ll as [|l ll IH]; cbn [concat forallb]; [reflexivity|].
  now rewrite forallb_app, IH.
Qed.

Lemma vs_concat_concat {A} (lll : list (list (list A))) :
  concat (concat lll) = concat (map (@concat A) lll).
Proof.
  induction lll as [|ll lll IH]; cbn [concat map]; [reflexivity|].
  now rewrite concat_app, IH.
Qed.

Lemma vs_in_concat_cons {A} (x : A) l ll : In x (concat (l :: ll)) <-> In x l \/ In x (concat ll).
Proof. cbn [concat]. apply in_app_iff. Qed.

Lemma vs_filter_concat {A} (p : A -> bool) (ll : list (list A)) :
  filter p (concat ll) = concat (map (filter p) ll).
Proof.
  induction ll as [|l ll IH]; cbn [concat map filter]; [reflexivity|].
  now rewrite filter_app, IH.
Qed.

Lemma vs_perm_filter_split {A} (p : A -> bool) (l : list A) :
  Permutation (filter p l ++ filter (fun x => negb (p x)) l) l.
Proof.
  induction l as [|x l IH]; cbn [filter app]; [constructor|].
  destruct (p x); cbn [negb app].
  - now constructor.
  - apply Permutation_sym, Permutation_cons_app, Permutation_sym, IH.
Qed.

Lemma vs_perm_concat_Forall2 {A} (ll ll' : list (list A)) :
  Forall2 (@Permutation A) ll ll' -> Permutation (concat ll) (concat ll').
Proof.
  induction 1; cbn [concat]; [constructor|]. now apply Permutation_app.
Qed.

(** * 1. Keys of a well-formed table lie inside its key range *)

Lemma vs_ikey_ltb_le a b : ikey_ltb a b = true -> key_le (ukey a) (ukey b).
Proof.
  unfold ikey_ltb, key_le. destruct (key_cmp (ukey a) (ukey b)); congruence.
Qed.

Lemma vs_sorted_tail e l : sorted_b (e :: l) = true -> sorted_b l = true.
Proof.
  cbn [sorted_b]. destruct l as [|e' l]; [reflexivity|].
  intros H. apply andb_true_iff in H. tauto.
Qed.

Lemma vs_sorted_head_le e l :
  sorted_b (e :: l) = true -> forall x, In x l -> key_le (ukey e) (ukey x).
Proof.
  revert e; induction l as [|e' l IH]; intros e H x HI; [contradiction|].
  cbn [sorted_b] in H. apply andb_true_iff in H. destruct H as [H1 H2].
  apply vs_ikey_ltb_le in H1. destruct HI as [->|HI]; [assumption|].
  eapply key_le_trans; [exact H1|]. now apply IH.
Qed.

Lemma vs_sorted_last_ge d l :
  sorted_b l = true -> forall x, In x l -> key_le (ukey x) (ukey (last l d)).
Proof.
  induction l as [|e l IH]; intros H x HI; [contradiction|].
  destruct l as [|e' l].
  - destruct HI as [->|[]]. cbn [last]. apply key_le_refl.
  - change (last (e :: e' :: l) d) with (last (e' :: l) d).
    pose proof (vs_sorted_tail _ _ H) as Ht.
    destruct HI as [->|HI].
    + eapply key_le_trans; [|apply (IH Ht e'); now left].
      eapply vs_sorted_head_le; [exact H|now left].
    + now apply IH.
Qed.

(** the abstract facts about a table that the layout proofs need *)
Definition tkeys_ok (t : table) : Prop :=
  key_le (kmin t) (kmax t) /\
  forall e, In e (ents t) -> key_le (kmin t) (ukey e) /\ key_le (ukey e) (kmax t).

Lemma vs_table_ok_keys t : table_ok t = true -> tkeys_ok t.
Proof.
  unfold table_ok, table_meta_ok. intros H. apply andb_true_iff in H. destruct H as [Hs Hm].
  destruct (ents t) as [|e0 l] eqn:E; [discriminate|].
  repeat (apply andb_true_iff in Hm; destruct Hm as [Hm ?]).
  key_prop.
  assert (Hall : forall e, In e (e0 :: l) ->
            key_le (kmin t) (ukey e) /\ key_le (ukey e) (kmax t)).
  { intros e HI. rewrite Hm, H4. split.
    - destruct HI as [->|HI]; [apply key_le_refl|]. eapply vs_sorted_head_le; eauto.
    - now apply vs_sorted_last_ge. }
  unfold tkeys_ok. rewrite E. split; [|exact Hall].
  destruct (Hall e0 (or_introl eq_refl)) as [A B]. eapply key_le_trans; eauto.
Qed.

Definition tnewer (a b : table) : Prop := newer_than (ents a) (ents b) = true.

Lemma vs_kr_overlaps_sym a b : kr_overlaps a b = kr_overlaps b a.
Proof. unfold kr_overlaps. apply andb_comm. Qed.

(** two tables sharing a user key have overlapping key ranges; contrapositive: *)
Lemma vs_no_overlap_newer a b :
  tkeys_ok a -> tkeys_ok b -> kr_overlaps a b = false -> tnewer a b.
Proof.
  intros [_ Ka] [_ Kb] Ho. unfold tnewer, newer_than.
  apply forallb_forall. intros e He. apply forallb_forall. intros e' He'.
  destruct (key_eqb (ukey e) (ukey e')) eqn:E; [|reflexivity]. exfalso.
  key_prop. destruct (Ka e He) as [A1 A2]. destruct (Kb e' He') as [B1 B2].
  rewrite <- E in B1, B2.
  unfold kr_overlaps in Ho. apply andb_false_iff in Ho. destruct Ho as [Ho|Ho]; key_prop.
  - eapply key_lt_irrefl. eapply key_le_lt_trans; [exact A2|].
    eapply key_lt_le_trans; [exact Ho|exact B1].
  - eapply key_lt_irrefl. eapply key_le_lt_trans; [exact B2|].
    eapply key_lt_le_trans; [exact Ho|exact A1].
Qed.

(** * 2. Runs: strong sortedness by min key and pairwise non-overlap *)

Fixpoint ksorted (r : run) : Prop :=
  match r with
  | [] => True
  | a :: r' => Forall (fun y => key_le (kmin a) (kmin y)) r' /\ ksorted r'
  end.

Fixpoint pairwise_no (r : run) : Prop :=
  match r with
  | [] => True
  | a :: r' => Forall (fun y => kr_overlaps a y = false) r' /\ pairwise_no r'
  end.

Lemma vs_pairwise_no_perm r r' : Permutation r r' -> pairwise_no r -> pairwise_no r'.
Proof.
  induction 1 as [|x l l' P IH|x y l|l l' l'' P1 IH1 P2 IH2]; cbn [pairwise_no]; auto.
  - intros [H1 H2]. split; [|auto]. eapply Permutation_Forall; eauto.
  - intros [H1 [H2 H3]]. inversion H1 as [|? ? Hxy H1']; subst.
    split; [constructor; [now rewrite vs_kr_overlaps_sym|assumption]|]. split; assumption.
Qed.

Lemma vs_pairwise_no_snoc r x :
  pairwise_no r -> Forall (fun a => kr_overlaps a x = false) r -> pairwise_no (r ++ [x]).
Proof.
  induction r as [|a r IH]; cbn [app pairwise_no]; intros H F.
  - split; constructor.
  - destruct H as [H1 H2]. inversion F as [|? ? Fa Fr]; subst. split; [|auto].
    apply Forall_app. split; [assumption|]. constructor; [assumption|constructor].
Qed.

Lemma vs_pairwise_no_filter p r : pairwise_no r -> pairwise_no (filter p r).
Proof.
  induction r as [|a r IH]; cbn [filter pairwise_no]; [auto|]. intros [H1 H2].
  destruct (p a); cbn [pairwise_no]; [|auto]. split; [|auto].
  apply Forall_forall. intros y Hy. apply filter_In in Hy. destruct Hy as [Hy _].
  rewrite Forall_forall in H1. auto.
Qed.

Lemma vs_ksorted_filter p r : ksorted r -> ksorted (filter p r).
Proof.
  induction r as [|a r IH]; cbn [filter ksorted]; [auto|]. intros [H1 H2].
  destruct (p a); cbn [ksorted]; [|auto]. split; [|auto].
  apply Forall_forall. intros y Hy. apply filter_In in Hy. destruct Hy as [Hy _].
  rewrite Forall_forall in H1. auto.
Qed.

Lemma vs_insert_kmin_perm t r : Permutation (insert_kmin t r) (t :: r).
Proof.
  induction r as [|x r IH]; cbn [insert_kmin]; [reflexivity|].
  destruct (key_leb (kmin t) (kmin x)); [reflexivity|].
  eapply perm_trans; [apply perm_skip, IH|apply perm_swap].
Qed.

Lemma vs_sort_kmin_perm r : Permutation (sort_kmin r) r.
Proof.
  induction r as [|x r IH]; cbn [sort_kmin fold_right]; [constructor|].
  eapply perm_trans; [apply vs_insert_kmin_perm|]. now constructor.
Qed.

Lemma vs_run_push_perm r t : Permutation (run_push r t) (t :: r).
Proof.
  unfold run_push. eapply perm_trans; [apply vs_sort_kmin_perm|].
  apply Permutation_sym, Permutation_cons_append.
Qed.

Lemma vs_insert_kmin_sorted t r : ksorted r -> ksorted (insert_kmin t r).
Proof.
  induction r as [|x r IH]; cbn [insert_kmin ksorted]; intros H.
  - split; constructor.
  - destruct H as [H1 H2]. destruct (key_leb (kmin t) (kmin x)) eqn:C; key_prop.
    + cbn [ksorted]. split; [|split; assumption].
      constructor; [assumption|].
      eapply Forall_impl; [|exact H1]. cbn beta. intros y Hy. eapply key_le_trans; eauto.
    + cbn [ksorted]. split; [|auto].
      eapply Permutation_Forall; [apply Permutation_sym, vs_insert_kmin_perm|].
      constructor; [now apply key_lt_le|assumption].
Qed.

Lemma vs_sort_kmin_sorted r : ksorted (sort_kmin r).
Proof.
  induction r as [|x r IH]; cbn [sort_kmin fold_right]; [exact I|].
  now apply vs_insert_kmin_sorted.
Qed.

Definition krange_ok (t : table) : Prop := key_le (kmin t) (kmax t).

Lemma vs_disjoint_of_sorted r :
  Forall krange_ok r -> ksorted r -> pairwise_no r -> run_disjoint_b r = true.
Proof.
  induction r as [|a r IH]; intros F S P; [reflexivity|].
  cbn [run_disjoint_b]. destruct r as [|b r]; [reflexivity|].
  cbn [ksorted] in S. cbn [pairwise_no] in P.
  destruct S as [S1 S2]. destruct P as [P1 P2].
  inversion F as [|? ? Fa Fr]; subst.
  apply andb_true_iff. split; [|apply IH; assumption].
  inversion S1 as [|? ? Sab _]; subst. inversion P1 as [|? ? Pab _]; subst.
  inversion Fr as [|? ? Fb _]; subst. unfold krange_ok in Fb.
  unfold kr_overlaps in Pab. apply andb_false_iff in Pab. destruct Pab as [C|C]; key_prop.
  - assumption.
  - exfalso. eapply key_lt_irrefl. eapply key_lt_le_trans; [exact C|].
    eapply key_le_trans; eauto.
Qed.

Lemma vs_disjoint_head a r :
  Forall krange_ok r -> run_disjoint_b (a :: r) = true ->
  Forall (fun y => key_lt (kmax a) (kmin y)) r.
Proof.
  revert a; induction r as [|b r IH]; intros a F H; [constructor|].
  cbn [run_disjoint_b] in H. apply andb_true_iff in H. destruct H as [H1 H2]. key_prop.
  inversion F as [|? ? Fb Fr]; subst. constructor; [assumption|].
  eapply Forall_impl; [|apply (IH b Fr H2)]. cbn beta. intros y Hy.
  eapply key_lt_trans; [exact H1|]. eapply key_le_lt_trans; [exact Fb|exact Hy].
Qed.

Lemma vs_disjoint_tail a r : run_disjoint_b (a :: r) = true -> run_disjoint_b r = true.
Proof.
  cbn [run_disjoint_b]. destruct r as [|b r]; [reflexivity|].
  intros H. apply andb_true_iff in H. tauto.
Qed.

Lemma vs_sorted_of_disjoint r :
  Forall krange_ok r -> run_disjoint_b r = true -> ksorted r /\ pairwise_no r.
Proof.
  induction r as [|a r IH]; intros F H; [split; exact I|].
  inversion F as [|? ? Fa Fr]; subst.
  pose proof (vs_disjoint_head a r Fr H) as Hh.
  destruct (IH Fr (vs_disjoint_tail _ _ H)) as [S P].
  cbn [ksorted pairwise_no]. split; (split; [|assumption]).
  - eapply Forall_impl; [|exact Hh]. cbn beta. intros y Hy.
    apply key_lt_le. eapply key_le_lt_trans; [exact Fa|exact Hy].
  - eapply Forall_impl; [|exact Hh]. cbn beta. intros y Hy.
    unfold kr_overlaps. apply andb_false_iff. left. now key_prop.
Qed.

Lemma vs_krange_of_table_ok r : forallb table_ok r = true -> Forall krange_ok r.
Proof.
  rewrite forallb_forall, Forall_forall. intros H t Ht.
  destruct (vs_table_ok_keys t (H t Ht)) as [K _]. exact K.
Qed.

Lemma vs_run_ok_parts r :
  run_ok r = true <-> r <> [] /\ forallb table_ok r = true /\ run_disjoint_b r = true.
Proof.
  unfold run_ok. destruct r as [|a r].
  - split; [discriminate|]. intros [H _]. now contradiction H.
  - rewrite andb_true_iff. split; [intros [A B]|intros [_ [A B]]]; repeat split; auto.
    discriminate.
Qed.

Lemma vs_run_ok_pairwise_no r : run_ok r = true -> pairwise_no r.
Proof.
  intros H. apply vs_run_ok_parts in H. destruct H as [_ [T D]].
  apply vs_sorted_of_disjoint; auto using vs_krange_of_table_ok.
Qed.

(** [Run::push] of a table that overlaps nothing in the run keeps the run legal *)
Lemma vs_run_push_ok r t :
  forallb table_ok r = true -> run_disjoint_b r = true -> table_ok t = true ->
  run_overlaps t r = false -> run_ok (run_push r t) = true.
Proof.
  intros T D Tt No.
  assert (P : Permutation (run_push r t) (t :: r)) by apply vs_run_push_perm.
  assert (Tall : forallb table_ok (run_push r t) = true).
  { apply forallb_forall. intros x Hx. eapply Permutation_in in Hx; [|exact P].
    destruct Hx as [<-|Hx]; [assumption|]. rewrite forallb_forall in T. auto. }
  apply vs_run_ok_parts. split; [|split; [assumption|]].
  - intros E. rewrite E in P. apply Permutation_nil in P. discriminate.
  - apply vs_disjoint_of_sorted.
    + now apply vs_krange_of_table_ok.
    + apply vs_sort_kmin_sorted.
    + destruct (vs_sorted_of_disjoint r (vs_krange_of_table_ok _ T) D) as [_ Pn].
      eapply vs_pairwise_no_perm; [apply Permutation_sym, vs_sort_kmin_perm|].
      apply vs_pairwise_no_snoc; [assumption|].
      apply Forall_forall. intros a Ha. rewrite vs_kr_overlaps_sym.
      unfold run_overlaps in No.
      destruct (kr_overlaps t a) eqn:E; [|reflexivity].
      assert (existsb (fun x => kr_overlaps t x) r = true) by (apply existsb_exists; eauto).
      congruence.
Qed.

(** filtering a legal run leaves a legal run, or nothing *)
Lemma vs_filter_opt_run_ok p r : opt_run_ok r = true -> opt_run_ok (filter p r) = true.
Proof.
  unfold opt_run_ok. intros H. apply andb_true_iff in H. destruct H as [T D].
  assert (T' : forallb table_ok (filter p r) = true).
  { apply forallb_forall. intros x Hx. apply filter_In in Hx. destruct Hx as [Hx _].
    rewrite forallb_forall in T. auto. }
  apply andb_true_iff. split; [assumption|].
  destruct (vs_sorted_of_disjoint r (vs_krange_of_table_ok _ T) D) as [S P].
  apply vs_disjoint_of_sorted; auto using vs_krange_of_table_ok, vs_ksorted_filter,
    vs_pairwise_no_filter.
Qed.

Lemma vs_run_ok_opt r : run_ok r = true -> opt_run_ok r = true.
Proof.
  intros H. apply vs_run_ok_parts in H. destruct H as [_ [T D]].
  unfold opt_run_ok. now rewrite T, D.
Qed.

Lemma vs_opt_run_ok_run_new ts : opt_run_ok ts = true -> forallb run_ok (run_new ts) = true.
Proof.
  destruct ts as [|t ts]; [reflexivity|]. intros H. cbn [run_new forallb].
  unfold opt_run_ok in H. unfold run_ok. now rewrite H.
Qed.

(** * 3. [place]: an equivalent structural recursion *)

Fixpoint place' (rs : list run) (t : table) : list run :=
  match rs with
  | [] => [[t]]
  | r :: rs' =>
      if existsb (run_overlaps t) rs then r :: place' rs' t else run_push r t :: rs'
  end.

Lemma vs_rposition_none {A} (p : A -> bool) l : rposition p l = None <-> existsb p l = false.
Proof.
  induction l as [|x l IH]; cbn [rposition existsb]; [tauto|].
  destruct (rposition p l) as [i|].
  - split; [discriminate|]. intros H. apply orb_false_iff in H. destruct H as [_ H].
    apply IH in H. discriminate.
  - assert (E : existsb p l = false) by now apply IH.
    rewrite E, orb_false_r. destruct (p x); split; congruence.
Qed.

Lemma vs_place_eq rs t : place rs t = place' rs t.
Proof.
  unfold place. induction rs as [|r rs IH]; [reflexivity|].
  cbn [rposition]. destruct (rposition (run_overlaps t) rs) as [i|] eqn:R.
  - cbn [push_at place']. cbn [existsb].
    assert (E : existsb (run_overlaps t) rs = true).
    { destruct (existsb (run_overlaps t) rs) eqn:E; [reflexivity|].
      apply vs_rposition_none in E. congruence. }
    rewrite E, orb_true_r. f_equal. exact IH.
  - assert (E : existsb (run_overlaps t) rs = false) by now apply vs_rposition_none.
    cbn [place' existsb]. rewrite E, orb_false_r.
    destruct (run_overlaps t r) eqn:O.
    + cbn [push_at]. f_equal. exact IH.
    + reflexivity.
Qed.

Definition opt_fold (ts : list table) (acc : list run) : list run := fold_left place' ts acc.

Lemma vs_fold_place_eq r acc : fold_left place r acc = fold_left place' r acc.
Proof.
  revert acc. induction r as [|t r IH]; intros acc; [reflexivity|].
  cbn [fold_left]. now rewrite vs_place_eq, IH.
Qed.

Lemma vs_fold_concat rs acc :
  fold_left (fun new_runs r => fold_left place r new_runs) rs acc
  = fold_left place' (concat rs) acc.
Proof.
  revert acc. induction rs as [|r rs IH]; intros acc; [reflexivity|].
  cbn [fold_left concat]. now rewrite fold_left_app, IH, vs_fold_place_eq.
Qed.

Lemma vs_optimize_runs_big rs :
  (2 <= length rs)%nat -> optimize_runs rs = opt_fold (concat rs) [].
Proof.
  intros L. unfold optimize_runs.
  destruct (Nat.leb (length rs) 1) eqn:C; [apply Nat.leb_le in C; lia|].
  apply vs_fold_concat.
Qed.

Lemma optimize_runs_small rs : (length rs <= 1)%nat -> optimize_runs rs = rs.
Proof.
  intros L. unfold optimize_runs. apply Nat.leb_le in L. now rewrite L.
Qed.

Lemma vs_optimize_runs_cases rs :
  optimize_runs rs = rs \/ ((2 <= length rs)%nat /\ optimize_runs rs = opt_fold (concat rs) []).
Proof.
  destruct (Nat.leb (length rs) 1) eqn:C.
  - left. apply optimize_runs_small. now apply Nat.leb_le.
  - right. apply Nat.leb_gt in C. split; [lia|]. apply vs_optimize_runs_big. lia.
Qed.

(** * 4. Theorem 1: the tables are merely rearranged *)

Lemma vs_place'_perm rs t : Permutation (concat (place' rs t)) (t :: concat rs).
Proof.
  induction rs as [|r rs IH]; [reflexivity|].
  cbn [place']. destruct (existsb (run_overlaps t) (r :: rs)); cbn [concat].
  - eapply perm_trans; [apply Permutation_app_head, IH|].
    apply Permutation_sym, Permutation_middle.
  - change (t :: r ++ concat rs) with ((t :: r) ++ concat rs).
    apply Permutation_app_tail, vs_run_push_perm.
Qed.

Lemma vs_opt_fold_perm ts acc : Permutation (concat (opt_fold ts acc)) (concat acc ++ ts).
Proof.
  revert acc; induction ts as [|t ts IH]; intros acc; cbn [opt_fold fold_left].
  - now rewrite app_nil_r.
  - eapply perm_trans; [apply IH|].
    eapply perm_trans; [apply Permutation_app_tail, vs_place'_perm|].
    cbn [app]. apply Permutation_middle.
Qed.

Theorem optimize_runs_perm rs : Permutation (concat (optimize_runs rs)) (concat rs).
Proof.
  destruct (vs_optimize_runs_cases rs) as [->|[_ ->]]; [reflexivity|].
  apply (vs_opt_fold_perm (concat rs) []).
Qed.

(** * 5. Theorem 2: every rebuilt run is a legal run *)

Lemma vs_place'_run_ok rs t :
  forallb run_ok rs = true -> table_ok t = true -> forallb run_ok (place' rs t) = true.
Proof.
  induction rs as [|r rs IH]; intros H Tt.
  - cbn [place' forallb run_ok run_disjoint_b]. now rewrite Tt.
  - cbn [forallb] in H. apply andb_true_iff in H. destruct H as [Hr Hrs].
    cbn [place']. destruct (existsb (run_overlaps t) (r :: rs)) eqn:E; cbn [forallb].
    + rewrite Hr, IH; auto.
    + rewrite Hrs, andb_true_r. cbn [existsb] in E. apply orb_false_iff in E.
      destruct E as [E _]. apply vs_run_ok_parts in Hr. destruct Hr as [_ [T D]].
      now apply vs_run_push_ok.
Qed.

Lemma vs_opt_fold_run_ok ts acc :
  forallb run_ok acc = true -> forallb table_ok ts = true ->
  forallb run_ok (opt_fold ts acc) = true.
Proof.
  revert acc; induction ts as [|t ts IH]; intros acc Ha Ht; [exact Ha|].
  cbn [forallb] in Ht. apply andb_true_iff in Ht. destruct Ht as [Ht Hts].
  cbn [opt_fold fold_left]. apply IH; [|assumption]. now apply vs_place'_run_ok.
Qed.

(** no assumption at all on the shape of the input runs when there are at least two *)
Theorem optimize_runs_run_ok rs :
  (2 <= length rs)%nat -> forallb table_ok (concat rs) = true ->
  forallb run_ok (optimize_runs rs) = true.
Proof.
  intros L T. rewrite vs_optimize_runs_big by assumption.
  now apply vs_opt_fold_run_ok.
Qed.

(** both cases together: legal runs in, legal runs out *)
Corollary optimize_runs_run_ok_gen rs :
  forallb run_ok rs = true -> forallb run_ok (optimize_runs rs) = true.
Proof.
  intros H. destruct (vs_optimize_runs_cases rs) as [->|[L _]]; [assumption|].
  apply optimize_runs_run_ok; [assumption|].
  rewrite vs_forallb_concat. apply forallb_forall. intros r Hr.
  rewrite forallb_forall in H. specialize (H r Hr).
  apply vs_run_ok_parts in H. tauto.
Qed.

(** * 6. Theorem 3: overlapping tables keep their relative order, in distinct runs *)

Definition occurs_before {A} (l : list A) (a b : A) : Prop :=
  exists l1 l2 l3, l = l1 ++ a :: l2 ++ b :: l3.

Definition in_earlier_run (rs : list run) (a b : table) : Prop :=
  exists R1 ra R2 rb R3, rs = R1 ++ ra :: R2 ++ rb :: R3 /\ In a ra /\ In b rb.

Fixpoint runs_before (rs : list run) (a b : table) : Prop :=
  match rs with
  | [] => False
  | r :: rs' => (In a r /\ In b (concat rs')) \/ runs_before rs' a b
  end.

Lemma vs_runs_before_earlier rs a b : runs_before rs a b -> in_earlier_run rs a b.
Proof.
  induction rs as [|r rs IH]; cbn [runs_before]; [contradiction|].
  intros [[Ha Hb]|H].
  - apply in_concat in Hb. destruct Hb as [rb [Hrb Hb]].
    apply in_split in Hrb. destruct Hrb as [R2 [R3 ->]].
    exists [], r, R2, rb, R3. auto.
  - destruct (IH H) as (R1 & ra & R2 & rb & R3 & -> & Ha & Hb).
    exists (r :: R1), ra, R2, rb, R3. auto.
Qed.

Lemma vs_runs_before_occurs rs a b : runs_before rs a b -> occurs_before (concat rs) a b.
Proof.
  induction rs as [|r rs IH]; cbn [runs_before]; [contradiction|].
  intros [[Ha Hb]|H]; cbn [concat].
  - apply in_split in Ha. destruct Ha as [l1 [l2 ->]].
    apply in_split in Hb. destruct Hb as [m1 [m2 ->]].
    exists l1, (l2 ++ m1), m2. now rewrite <- !app_assoc.
  - destruct (IH H) as (l1 & l2 & l3 & ->).
    exists (r ++ l1), l2, l3. now rewrite <- app_assoc.
Qed.

Lemma vs_place'_in rs t x : In x (concat (place' rs t)) <-> x = t \/ In x (concat rs).
Proof.
  split; intros H.
  - eapply Permutation_in in H; [|apply vs_place'_perm]. destruct H; auto.
  - eapply Permutation_in; [apply Permutation_sym, vs_place'_perm|]. destruct H; [left|right]; auto.
Qed.

Lemma vs_run_push_in r t x : In x (run_push r t) <-> x = t \/ In x r.
Proof.
  split; intros H.
  - eapply Permutation_in in H; [|apply vs_run_push_perm]. destruct H; auto.
  - eapply Permutation_in; [apply Permutation_sym, vs_run_push_perm|]. destruct H; [left|right]; auto.
Qed.

Lemma vs_place'_mono rs x a b : runs_before rs a b -> runs_before (place' rs x) a b.
Proof.
  induction rs as [|r rs IH]; cbn [runs_before]; [contradiction|].
  intros H. cbn [place']. destruct (existsb (run_overlaps x) (r :: rs)); cbn [runs_before].
  - destruct H as [[Ha Hb]|H]; [left|right; auto].
    split; [assumption|]. apply vs_place'_in. now right.
  - destruct H as [[Ha Hb]|H]; [left|right; auto].
    split; [|assumption]. apply vs_run_push_in. now right.
Qed.

Lemma vs_place'_new rs x a :
  In a (concat rs) -> kr_overlaps x a = true -> runs_before (place' rs x) a x.
Proof.
  induction rs as [|r rs IH]; intros Ha Ho; [contradiction|].
  cbn [place'].
  assert (E : existsb (run_overlaps x) (r :: rs) = true).
  { apply in_concat in Ha. destruct Ha as [ra [Hra Ha]].
    apply existsb_exists. exists ra. split; [assumption|].
    apply existsb_exists. exists a. auto. }
  rewrite E. cbn [runs_before]. apply vs_in_concat_cons in Ha. destruct Ha as [Ha|Ha].
  - left. split; [assumption|]. apply vs_place'_in. now left.
  - right. now apply IH.
Qed.

Lemma vs_opt_fold_mono ts acc a b : runs_before acc a b -> runs_before (opt_fold ts acc) a b.
Proof.
  revert acc; induction ts as [|t ts IH]; intros acc H; [exact H|].
  cbn [opt_fold fold_left]. apply IH. now apply vs_place'_mono.
Qed.

Lemma vs_opt_fold_acc_before ts acc a b :
  In a (concat acc) -> In b ts -> kr_overlaps a b = true -> runs_before (opt_fold ts acc) a b.
Proof.
  revert acc; induction ts as [|t ts IH]; intros acc Ha Hb Ho; [contradiction|].
  cbn [opt_fold fold_left]. destruct Hb as [->|Hb].
  - apply vs_opt_fold_mono. apply vs_place'_new; [assumption|]. now rewrite vs_kr_overlaps_sym.
  - apply IH; [|assumption|assumption]. apply vs_place'_in. now right.
Qed.

Lemma vs_opt_fold_order ts acc a b :
  occurs_before ts a b -> kr_overlaps a b = true -> runs_before (opt_fold ts acc) a b.
Proof.
  revert acc; induction ts as [|t ts IH]; intros acc (l1 & l2 & l3 & E) Ho.
  - destruct l1; discriminate.
  - cbn [opt_fold fold_left]. destruct l1 as [|y l1]; cbn [app] in E; inversion E; subst.
    + apply vs_opt_fold_acc_before; [|apply in_or_app; right; now left|assumption].
      apply vs_place'_in. now left.
    + apply IH; [|assumption]. exists l1, l2, l3. reflexivity.
Qed.

Lemma vs_pairwise_no_occurs r a b : pairwise_no r -> occurs_before r a b -> kr_overlaps a b = false.
Proof.
  intros P (l1 & l2 & l3 & ->). induction l1 as [|x l1 IH]; cbn [app pairwise_no] in P.
  - destruct P as [P _]. rewrite Forall_forall in P. apply P.
    apply in_or_app. right. now left.
  - destruct P as [_ P]. auto.
Qed.

(** [t] before [t'] anywhere in the input (same run or not) and overlapping: [t] ends up
    in a strictly earlier run, hence also earlier in iteration order.  The side
    condition only concerns the degenerate case of fewer than two runs, where the input is
    returned as is: then its (at most one) run must not contain two overlapping tables. *)
Theorem optimize_runs_order rs t t' :
  ((length rs <= 1)%nat -> Forall pairwise_no rs) ->
  occurs_before (concat rs) t t' -> kr_overlaps t t' = true ->
  in_earlier_run (optimize_runs rs) t t' /\ occurs_before (concat (optimize_runs rs)) t t'.
Proof.
  intros Hsmall Hb Ho.
  destruct (Nat.leb (length rs) 1) eqn:C.
  - apply Nat.leb_le in C. exfalso. specialize (Hsmall C).
    destruct rs as [|r [|r' rs]]; cbn [length] in C; [| |lia].
    + destruct Hb as (l1 & l2 & l3 & E). destruct l1; discriminate.
    + cbn [concat] in Hb. rewrite app_nil_r in Hb. inversion Hsmall as [|? ? P _]; subst.
      rewrite (vs_pairwise_no_occurs r t t' P Hb) in Ho. discriminate.
  - apply Nat.leb_gt in C. rewrite vs_optimize_runs_big by lia.
    pose proof (vs_opt_fold_order (concat rs) [] t t' Hb Ho) as H.
    split; [now apply vs_runs_before_earlier|now apply vs_runs_before_occurs].
Qed.

Corollary optimize_runs_order_run_ok rs t t' :
  forallb run_ok rs = true ->
  occurs_before (concat rs) t t' -> kr_overlaps t t' = true ->
  in_earlier_run (optimize_runs rs) t t' /\ occurs_before (concat (optimize_runs rs)) t t'.
Proof.
  intros H. apply optimize_runs_order. intros _.
  apply Forall_forall. intros r Hr. rewrite forallb_forall in H.
  apply vs_run_ok_pairwise_no. auto.
Qed.
