(** Theorems about the compaction stream model [cstream] / [run_stream]
    (Model/Stream.v; Rust: src/compaction/stream.rs, CompactionStream::next, drain_key).

    Contents
      0. definitions [ssorted], [filter_all], replay of the crate's unit tests
      1. the InternalKey order and strictly sorted lists
      2. one-step decomposition of [cstream] ([emit_dec], [cstream_cons])
      3. shape of the output: keys/seqnos, subsequence, sortedness      (results 4)
      4. [cstream_top_view_noweak], [cstream_top_view_refuted_weak]     (result 2)
      5. [cstream_mvcc], [cstream_mvcc_tomb]                            (result 3)
      6. [cstream_filter_domain]                                        (result 5)
      7. accounting: [cstream_log_exact] and consequences               (result 6)
      8. [merge_sorted_perm], [merge_sorted_sorted]
      9. per-key locality, the single-delete discipline: [cstream_weak_top],
         [cstream_weak_view_with_deeper], [cstream_old_resurrects]
    The model is the stream after the repair of finding F3 (weak tombstone + value: only
    the pair is dropped; [drain_key] stops at a weak tombstone unless evicting);
    [cstream_old] is the shipped 3.1.9 behaviour. *)
From LsmV Require Import Model.Entry Model.Stream Proofs.Newest.
From Coq Require Import Permutation.
Open Scope N_scope.
Local Arguments N.add : simpl never.
Local Arguments N.sub : simpl never.
Local Arguments N.mul : simpl never.
Local Arguments N.ltb : simpl never.
Local Arguments N.leb : simpl never.
Local Arguments N.eqb : simpl never.

(** * 0. Definitions *)

(** same as [Tree.sorted_b]; restated to avoid importing Tree *)
Fixpoint ssorted (l : list entry) : bool :=
  match l with
  | [] => true
  | e :: l' => match l' with [] => true | e' :: _ => ikey_ltb e e' && ssorted l' end
  end.

(** the input with the filter applied to every entry *)
Definition filter_all (flt : entry -> verdict) (l : list entry) : list entry :=
  flat_map (fun e => match fst (apply_filter flt e) with Some e' => [e'] | None => [] end) l.

(** ** Replay of the unit tests of src/compaction/stream.rs
    ([stream!] gives seqnos 999, 998, ... per key in order of appearance) *)
Module Examples.
  Definition ka : key := [97].  Definition kb : key := [98].  Definition kc : key := [99].
  Definition s_old : list N := [111;108;100].
  Definition s_new : list N := [110;101;119].
  Definition s_newnew : list N := [110;101;119;110;101;119].
  Definition s_val : list N := [118;97;108].
  Definition s_other : list N := [111;116;104;101;114].
  Definition V k s v := mkE k s Value v.
  Definition T k s := mkE k s Tomb [].
  Definition Wt k s := mkE k s WeakTomb [].

  (* compaction_stream_expired_callback_1 (output and drop-callback log) *)
  Example ex_expired_callback_1 :
    run_stream 1000 false no_filter [T ka 999; T ka 998; T ka 997]
    = ([T ka 999], [T ka 998; T ka 997]).
  Proof. vm_compute; reflexivity. Qed.

  (* compaction_stream_queue_weak_tombstones *)
  Example ex_queue_weak_tombstones :
    fst (run_stream 1050 false no_filter
           [Wt ka 999; V ka 998 s_old; Wt kb 999; V kb 998 s_old; Wt kc 999; V kc 998 s_old])
    = [].
  Proof. vm_compute; reflexivity. Qed.

  (* compaction_stream_tombstone_no_gc *)
  Example ex_tombstone_no_gc :
    fst (run_stream 1000000 false no_filter [T ka 999; T kb 999; T kc 999])
    = [T ka 999; T kb 999; T kc 999].
  Proof. vm_compute; reflexivity. Qed.

  (* compaction_stream_old_tombstone *)
  Example ex_old_tombstone :
    fst (run_stream 998 false no_filter
           [T ka 999; T ka 998; T kb 999; T kb 998; T kc 999; T kc 998])
    = [T ka 999; T ka 998; T kb 999; T kb 998; T kc 999; T kc 998].
  Proof. vm_compute; reflexivity. Qed.

  (* compaction_stream_tombstone_overwrite_gc *)
  Example ex_tombstone_overwrite_gc :
    fst (run_stream 999 false no_filter [V ka 999 s_val; T ka 998]) = [V ka 999 s_val].
  Proof. vm_compute; reflexivity. Qed.

  (* compaction_stream_weak_tombstone_simple *)
  Example ex_weak_tombstone_simple :
    fst (run_stream 0 false no_filter [Wt ka 999; V ka 998 s_old])
    = [Wt ka 999; V ka 998 s_old].
  Proof. vm_compute; reflexivity. Qed.

  (* compaction_stream_weak_tombstone_no_gc *)
  Example ex_weak_tombstone_no_gc :
    fst (run_stream 998 false no_filter [Wt ka 999; V ka 998 s_old])
    = [Wt ka 999; V ka 998 s_old].
  Proof. vm_compute; reflexivity. Qed.

  (* compaction_stream_weak_tombstone_evict *)
  Example ex_weak_tombstone_evict :
    fst (run_stream 999 false no_filter [Wt ka 999; V ka 998 s_old]) = [].
  Proof. vm_compute; reflexivity. Qed.

  (* compaction_stream_weak_tombstone_evict_next_value *)
  Example ex_weak_tombstone_evict_next_value :
    fst (run_stream 999 false no_filter [Wt ka 999; V ka 998 s_old; V kb 999 s_other])
    = [V kb 999 s_other].
  Proof. vm_compute; reflexivity. Qed.

  (* compaction_stream_no_evict_simple *)
  Example ex_no_evict_simple :
    fst (run_stream 0 false no_filter [V ka 999 s_old; V kb 999 s_old; V kc 999 s_old])
    = [V ka 999 s_old; V kb 999 s_old; V kc 999 s_old].
  Proof. vm_compute; reflexivity. Qed.

  (* compaction_stream_no_evict_simple_multi_keys *)
  Example ex_no_evict_simple_multi_keys :
    fst (run_stream 0 false no_filter
           [V ka 999 s_new; V ka 998 s_old; V kb 999 s_new; V kb 998 s_old;
            V kc 999 s_newnew; V kc 998 s_new; V kc 997 s_old])
    = [V ka 999 s_new; V ka 998 s_old; V kb 999 s_new; V kb 998 s_old;
       V kc 999 s_newnew; V kc 998 s_new; V kc 997 s_old].
  Proof. vm_compute; reflexivity. Qed.

  (* compaction_stream_filter_1: user key "b" -> Drop; value < "7" -> Replace(Tombstone, "") *)
  Definition flt1 (e : entry) : verdict :=
    if key_eqb (ukey e) kb then Drop
    else if key_ltb (val e) [55] then Replace Tomb [] else Keep.

  Example ex_filter_1 :
    run_stream 995 false flt1
      [V ka 999 [57]; V ka 998 [56]; V ka 997 [55]; V ka 996 [54]; V ka 995 [53];
       V ka 994 [52]; V kb 999 [98]]
    = ([V ka 999 [57]; V ka 998 [56]; V ka 997 [55]; T ka 996; T ka 995],
       [V ka 996 [54]; V ka 995 [53]; V ka 994 [52]; V kb 999 [98]]).
  Proof. vm_compute; reflexivity. Qed.
  (* after the repair of F3: only the pair (W@3, V@2) is cancelled, W@1 stays *)
  Example ex_weak_pair_only :
    run_stream 1000 false no_filter [Wt ka 3; V ka 2 [2]; Wt ka 1] = ([Wt ka 1], [V ka 2 [2]]).
  Proof. vm_compute; reflexivity. Qed.

  (* a weak tombstone also cancels a separated value (Ind) *)
  Example ex_weak_pair_ind :
    run_stream 1000 false no_filter [Wt ka 3; mkE ka 2 Ind [2]; Wt ka 1]
    = ([Wt ka 1], [mkE ka 2 Ind [2]]).
  Proof. vm_compute; reflexivity. Qed.

  (* drain_key stops at a weak tombstone unless evicting *)
  Example ex_drain_stops_at_weak :
    run_stream 1000 false no_filter [V ka 5 [5]; Wt ka 4; V ka 3 [3]] = ([V ka 5 [5]], [V ka 3 [3]])
    /\ run_stream 1000 false no_filter [V ka 5 [5]; Wt ka 4] = ([V ka 5 [5]; Wt ka 4], [])
    /\ run_stream 1000 true no_filter [V ka 5 [5]; Wt ka 4] = ([V ka 5 [5]], [Wt ka 4]).
  Proof. vm_compute; auto. Qed.

  (* end-to-end two-step history V0 W1 V2 W3: the flush of [V@2; W@1] keeps both; a later
     merge with everything cancels completely; a merge without V@0 (deeper) keeps W@1 *)
  Example ex_two_step :
    fst (run_stream 1000 false no_filter [V ka 2 [2]; Wt ka 1]) = [V ka 2 [2]; Wt ka 1]
    /\ fst (run_stream 1000 false no_filter [Wt ka 3; V ka 2 [2]; Wt ka 1; V ka 0 [0]]) = []
    /\ fst (run_stream 1000 false no_filter [Wt ka 3; V ka 2 [2]; Wt ka 1]) = [Wt ka 1].
  Proof. vm_compute; auto. Qed.
End Examples.

(** the conjunction asked for as [cstream_examples] *)
Theorem cstream_examples :
  let '(ka, kb, kc) := (Examples.ka, Examples.kb, Examples.kc) in
  let V := Examples.V in let T := Examples.T in let Wt := Examples.Wt in
  let old := Examples.s_old in
  run_stream 1000 false no_filter [T ka 999; T ka 998; T ka 997]
    = ([T ka 999], [T ka 998; T ka 997])
  /\ fst (run_stream 1050 false no_filter
            [Wt ka 999; V ka 998 old; Wt kb 999; V kb 998 old; Wt kc 999; V kc 998 old]) = []
  /\ fst (run_stream 1000000 false no_filter [T ka 999; T kb 999; T kc 999])
       = [T ka 999; T kb 999; T kc 999]
  /\ fst (run_stream 998 false no_filter
            [T ka 999; T ka 998; T kb 999; T kb 998; T kc 999; T kc 998])
       = [T ka 999; T ka 998; T kb 999; T kb 998; T kc 999; T kc 998]
  /\ fst (run_stream 999 false no_filter [V ka 999 Examples.s_val; T ka 998])
       = [V ka 999 Examples.s_val]
  /\ fst (run_stream 0 false no_filter [Wt ka 999; V ka 998 old]) = [Wt ka 999; V ka 998 old]
  /\ fst (run_stream 999 false no_filter [Wt ka 999; V ka 998 old]) = []
  /\ run_stream 995 false Examples.flt1
       [V ka 999 [57]; V ka 998 [56]; V ka 997 [55]; V ka 996 [54]; V ka 995 [53];
        V ka 994 [52]; V kb 999 [98]]
     = ([V ka 999 [57]; V ka 998 [56]; V ka 997 [55]; T ka 996; T ka 995],
        [V ka 996 [54]; V ka 995 [53]; V ka 994 [52]; V kb 999 [98]]).
Proof. vm_compute. repeat split; reflexivity. Qed.

(** * 1. The InternalKey order; strictly sorted lists *)

Lemma ikey_ltb_spec a b :
  ikey_ltb a b = true <->
  key_lt (ukey a) (ukey b) \/ (ukey a = ukey b /\ seq b < seq a).
Proof.
  unfold ikey_ltb, key_lt. destruct (key_cmp (ukey a) (ukey b)) eqn:C.
  - apply key_cmp_eq in C. rewrite N.ltb_lt. split.
    + intros H. right. auto.
    + intros [H|[_ H]]; [discriminate | exact H].
  - split; auto.
  - split; [discriminate|]. intros [H|[H _]]; [discriminate|].
    apply key_cmp_eq in H. congruence.
Qed.

Lemma ikey_ltb_trans a b c :
  ikey_ltb a b = true -> ikey_ltb b c = true -> ikey_ltb a c = true.
Proof.
  rewrite !ikey_ltb_spec. intros [H1|[E1 H1]] [H2|[E2 H2]].
  - left. eapply key_lt_trans; eauto.
  - left. rewrite <- E2. exact H1.
  - left. rewrite E1. exact H2.
  - right. split; [congruence | lia].
Qed.

Lemma ikey_ltb_irrefl' a b : ukey a = ukey b -> seq a = seq b -> ikey_ltb a b = false.
Proof.
  intros Ek Es. destruct (ikey_ltb a b) eqn:H; [|reflexivity].
  apply ikey_ltb_spec in H. destruct H as [H|[_ H]].
  - rewrite Ek in H. now apply key_lt_irrefl in H.
  - lia.
Qed.

(** [ikey_ltb] only looks at user key and seqno *)
Lemma ikey_ltb_ext a a' b b' :
  ukey a = ukey a' -> seq a = seq a' -> ukey b = ukey b' -> seq b = seq b' ->
  ikey_ltb a b = ikey_ltb a' b'.
Proof. unfold ikey_ltb. intros -> -> -> ->. reflexivity. Qed.

Lemma ikey_ltb_key_le a b : ikey_ltb a b = true -> key_le (ukey a) (ukey b).
Proof.
  rewrite ikey_ltb_spec. intros [H|[H _]].
  - now apply key_lt_le.
  - rewrite H. apply key_le_refl.
Qed.

Lemma ikey_total a b :
  ikey_ltb a b = false -> ikey_eqb a b = false -> ikey_ltb b a = true.
Proof.
  unfold ikey_ltb, ikey_eqb, key_eqb. rewrite (key_cmp_antisym (ukey a) (ukey b)).
  destruct (key_cmp (ukey a) (ukey b)); simpl; try congruence.
  intros H1 H2. apply N.ltb_ge in H1. apply N.eqb_neq in H2. apply N.ltb_lt. lia.
Qed.

Lemma ikey_eqb_spec a b : ikey_eqb a b = true <-> ukey a = ukey b /\ seq a = seq b.
Proof. unfold ikey_eqb. now rewrite andb_true_iff, key_eqb_eq, N.eqb_eq. Qed.

Lemma ssorted_cons e l :
  ssorted (e :: l) = true <->
  (Forall (fun x => ikey_ltb e x = true) l /\ ssorted l = true).
Proof.
  revert e. induction l as [|x l IH]; intros e.
  - simpl. split; auto.
  - change (ssorted (e :: x :: l)) with (ikey_ltb e x && ssorted (x :: l)).
    rewrite andb_true_iff. split.
    + intros [H1 H2]. split; [|exact H2].
      constructor; [exact H1|].
      apply IH in H2. destruct H2 as [H2 _].
      eapply Forall_impl; [|exact H2]. intros y Hy. eapply ikey_ltb_trans; eauto.
    + intros [H1 H2]. split; [|exact H2]. now inversion H1.
Qed.

Lemma ssorted_tail e l : ssorted (e :: l) = true -> ssorted l = true.
Proof. intros H. now apply ssorted_cons in H. Qed.

Lemma ssorted_head_lt e l x :
  ssorted (e :: l) = true -> In x l -> ikey_ltb e x = true.
Proof.
  intros H HI. apply ssorted_cons in H. destruct H as [H _].
  rewrite Forall_forall in H. auto.
Qed.

Lemma ssorted_key_le e l x :
  ssorted (e :: l) = true -> In x (e :: l) -> key_le (ukey e) (ukey x).
Proof.
  intros H [->|HI]; [apply key_le_refl|].
  apply ikey_ltb_key_le. eapply ssorted_head_lt; eauto.
Qed.

Lemma ssorted_same_key_seq e l x :
  ssorted (e :: l) = true -> In x l -> ukey x = ukey e -> seq x < seq e.
Proof.
  intros H HI E. pose proof (ssorted_head_lt _ _ _ H HI) as L.
  apply ikey_ltb_spec in L. destruct L as [L|[_ L]]; [|exact L].
  rewrite E in L. now apply key_lt_irrefl in L.
Qed.

Lemma ssorted_app_l a b : ssorted (a ++ b) = true -> ssorted a = true.
Proof.
  induction a as [|x a IH]; [reflexivity|].
  change ((x :: a) ++ b) with (x :: (a ++ b)). rewrite !ssorted_cons.
  intros [H1 H2]. split; [|auto].
  rewrite Forall_forall in *. intros y Hy. apply H1. apply in_or_app. auto.
Qed.

Lemma ssorted_app_r a b : ssorted (a ++ b) = true -> ssorted b = true.
Proof.
  induction a as [|x a IH]; [auto|].
  change ((x :: a) ++ b) with (x :: (a ++ b)). intros H. apply ssorted_tail in H. auto.
Qed.

Lemma ssorted_app_lt a b x y :
  ssorted (a ++ b) = true -> In x a -> In y b -> ikey_ltb x y = true.
Proof.
  induction a as [|z a IH]; [contradiction|].
  change ((z :: a) ++ b) with (z :: (a ++ b)). intros H [->|HI] Hy.
  - eapply ssorted_head_lt; eauto. apply in_or_app. auto.
  - apply IH; auto. eapply ssorted_tail; eauto.
Qed.

(** strictly sorted lists have pairwise distinct (user key, seqno) *)
Lemma ssorted_uniq l : ssorted l = true -> uniq l.
Proof.
  induction l as [|x l IH]; intros H e1 e2 H1 H2 Ek Es; [contradiction|].
  pose proof (ssorted_tail _ _ H) as Ht.
  destruct H1 as [->|H1], H2 as [->|H2]; auto.
  - pose proof (ssorted_head_lt _ _ _ H H2) as L.
    rewrite (ikey_ltb_irrefl' _ _ Ek Es) in L. discriminate.
  - pose proof (ssorted_head_lt _ _ _ H H1) as L.
    rewrite (ikey_ltb_irrefl' e2 e1) in L; [discriminate| |]; auto.
  - apply IH; auto.
Qed.

Lemma ssorted_NoDup l : ssorted l = true -> NoDup l.
Proof.
  induction l as [|x l IH]; intros H; constructor.
  - intros HI. pose proof (ssorted_head_lt _ _ _ H HI) as L.
    rewrite ikey_ltb_irrefl' in L; [discriminate| |]; reflexivity.
  - apply IH. eapply ssorted_tail; eauto.
Qed.

Lemma uniq_incl o l : uniq l -> incl o l -> uniq o.
Proof. intros U I e1 e2 H1 H2. apply U; apply I; assumption. Qed.

(** * 2. One-step decomposition of [cstream] *)

(** a non-tombstone: an inline value or a value separated into a blob file *)
Definition is_val (e : entry) : bool := negb (is_tomb e).

(** what happens to a head that survived the filter, given the rest of the input:
    (is it emitted?, mode for the rest) *)
Definition emit_dec (W : N) (evict : bool) (head : entry) (rest : list entry)
  : bool * dmode :=
  match rest with
  | [] => (negb (is_tomb head && evict), NoDrain)
  | peeked :: _ =>
      if key_ltb (ukey head) (ukey peeked) then (negb (is_tomb head && evict), NoDrain)
      else if seq peeked <? W then
        if is_strong_tomb head && evict then (false, Drain (ukey head))
        else if is_val peeked && is_weak_tomb head then (false, DropNext)
        else (true, Drain (ukey head))
      else (true, NoDrain)
  end.

Definition olist (b : bool) (h : entry) : list entry := if b then [h] else [].

Lemma cstream_cons W evict flt dr e rest :
  cstream W evict flt dr (e :: rest) =
  if draining evict dr e then
    let '(o, d) := cstream W evict flt (after_drop dr) rest in (o, e :: d)
  else match apply_filter flt e with
       | (None, lg) => let '(o, d) := cstream W evict flt NoDrain rest in (o, lg ++ d)
       | (Some head, lg) =>
           let '(o, d) := cstream W evict flt (snd (emit_dec W evict head rest)) rest in
           (olist (fst (emit_dec W evict head rest)) head ++ o, lg ++ d)
       end.
Proof.
  cbn [cstream]. destruct (draining evict dr e); [reflexivity|].
  destruct (apply_filter flt e) as [[head|] lg]; [|reflexivity].
  unfold emit_dec, olist. destruct rest as [|peeked rest'].
  - cbn [cstream snd fst].
    destruct (is_tomb head && evict); cbn [negb app]; rewrite ?app_nil_r; reflexivity.
  - destruct (key_ltb (ukey head) (ukey peeked)).
    + cbn [fst snd]. destruct (cstream W evict flt NoDrain (peeked :: rest')) as [o d].
      destruct (is_tomb head && evict); reflexivity.
    + destruct (seq peeked <? W).
      * destruct (is_strong_tomb head && evict).
        { cbn [fst snd].
          destruct (cstream W evict flt (Drain (ukey head)) (peeked :: rest')) as [o d].
          reflexivity. }
        unfold is_val. destruct (negb (is_tomb peeked) && is_weak_tomb head); cbn [fst snd].
        { destruct (cstream W evict flt DropNext (peeked :: rest')) as [o d]. reflexivity. }
        destruct (cstream W evict flt (Drain (ukey head)) (peeked :: rest')) as [o d].
        reflexivity.
      * cbn [fst snd]. destruct (cstream W evict flt NoDrain (peeked :: rest')) as [o d].
        reflexivity.
Qed.

Definition outs W evict flt dr l : list entry := fst (cstream W evict flt dr l).
Definition logs W evict flt dr l : list entry := snd (cstream W evict flt dr l).

Lemma outs_nil W evict flt dr : outs W evict flt dr [] = [].
Proof. reflexivity. Qed.

Lemma outs_cons W evict flt dr e rest :
  outs W evict flt dr (e :: rest) =
  if draining evict dr e then outs W evict flt (after_drop dr) rest
  else match fst (apply_filter flt e) with
       | None => outs W evict flt NoDrain rest
       | Some head =>
           olist (fst (emit_dec W evict head rest)) head
           ++ outs W evict flt (snd (emit_dec W evict head rest)) rest
       end.
Proof.
  unfold outs. rewrite cstream_cons. destruct (draining evict dr e).
  - destruct (cstream W evict flt (after_drop dr) rest); reflexivity.
  - destruct (apply_filter flt e) as [[head|] lg]; cbn [fst].
    + destruct (cstream W evict flt (snd (emit_dec W evict head rest)) rest); reflexivity.
    + destruct (cstream W evict flt NoDrain rest); reflexivity.
Qed.

Lemma logs_cons W evict flt dr e rest :
  logs W evict flt dr (e :: rest) =
  if draining evict dr e then e :: logs W evict flt (after_drop dr) rest
  else match fst (apply_filter flt e) with
       | None => snd (apply_filter flt e) ++ logs W evict flt NoDrain rest
       | Some head =>
           snd (apply_filter flt e)
           ++ logs W evict flt (snd (emit_dec W evict head rest)) rest
       end.
Proof.
  unfold logs. rewrite cstream_cons. destruct (draining evict dr e).
  - destruct (cstream W evict flt (after_drop dr) rest); reflexivity.
  - destruct (apply_filter flt e) as [[head|] lg]; cbn [fst snd].
    + destruct (cstream W evict flt (snd (emit_dec W evict head rest)) rest); reflexivity.
    + destruct (cstream W evict flt NoDrain rest); reflexivity.
Qed.

Lemma run_stream_outs W evict flt l out log :
  run_stream W evict flt l = (out, log) ->
  out = outs W evict flt NoDrain l /\ log = logs W evict flt NoDrain l.
Proof. unfold run_stream, outs, logs. intros ->. auto. Qed.

(** facts about the filter step *)
Lemma apply_filter_some flt e h :
  fst (apply_filter flt e) = Some h -> ukey h = ukey e /\ seq h = seq e.
Proof.
  unfold apply_filter. destruct (is_tomb e).
  - cbn. intros H; inversion H; auto.
  - destruct (flt e); cbn; intros H; inversion H; auto.
Qed.

Lemma apply_filter_no_filter e : apply_filter no_filter e = (Some e, []).
Proof. unfold apply_filter, no_filter. destruct (is_tomb e); reflexivity. Qed.

Lemma filter_all_no_filter l : filter_all no_filter l = l.
Proof.
  induction l as [|e l IH]; [reflexivity|].
  unfold filter_all in *. cbn [flat_map]. rewrite apply_filter_no_filter. cbn [fst].
  rewrite IH. reflexivity.
Qed.

(** all the ways the filter step can go *)
Lemma apply_filter_cases flt e :
  (apply_filter flt e = (Some e, [])) \/
  (is_tomb e = false /\ flt e = Drop /\ apply_filter flt e = (None, [e])) \/
  (is_tomb e = false /\ exists t v, flt e = Replace t v /\
      apply_filter flt e = (Some (mkE (ukey e) (seq e) t v), [e])).
Proof.
  unfold apply_filter. destruct (is_tomb e); [left; reflexivity|].
  destruct (flt e) as [|t v|].
  - left; reflexivity.
  - right; right. split; [reflexivity|]. exists t, v. auto.
  - right; left. auto.
Qed.

(** invariants on the mode *)
Definition dr_ok (dr : dmode) (l : list entry) : Prop :=
  match dr with
  | Drain k => forall x, In x l -> key_le k (ukey x)
  | _ => True
  end.
Definition drW (W : N) (dr : dmode) (l : list entry) : Prop :=
  match dr with
  | Drain k => forall x, In x l -> ukey x = k -> seq x < W
  | DropNext => match l with p :: _ => seq p < W | [] => True end
  | NoDrain => True
  end.

Lemma dr_ok_tail dr e l : dr_ok dr (e :: l) -> dr_ok (after_drop dr) l.
Proof. destruct dr; cbn; auto. Qed.
Lemma drW_tail W dr e l : drW W dr (e :: l) -> drW W (after_drop dr) l.
Proof. destruct dr; cbn; auto. Qed.

Lemma draining_key evict k e : draining evict (Drain k) e = true -> ukey e = k.
Proof. cbn [draining]. intros H. apply andb_true_iff in H. destruct H as [H _]. now key_prop. Qed.

Lemma emit_dec_dr W evict h rest :
  snd (emit_dec W evict h rest) = NoDrain \/ snd (emit_dec W evict h rest) = Drain (ukey h) \/
  snd (emit_dec W evict h rest) = DropNext.
Proof.
  unfold emit_dec. destruct rest as [|p r]; [auto|].
  destruct (key_ltb (ukey h) (ukey p)); [auto|]. destruct (seq p <? W); [|auto].
  destruct (is_strong_tomb h && evict); [auto|].
  destruct (is_val p && is_weak_tomb h); auto.
Qed.

Lemma ssorted_peek_same_key e p r h :
  ssorted (e :: p :: r) = true -> ukey h = ukey e -> key_ltb (ukey h) (ukey p) = false ->
  ukey p = ukey e.
Proof.
  intros HS Ek KL. key_prop. apply key_le_antisym; [congruence|].
  eapply ssorted_key_le; eauto. right; now left.
Qed.

Lemma emit_dec_inv W evict e h rest :
  ssorted (e :: rest) = true -> ukey h = ukey e ->
  dr_ok (snd (emit_dec W evict h rest)) rest /\ drW W (snd (emit_dec W evict h rest)) rest /\
  (snd (emit_dec W evict h rest) = DropNext ->
   is_weak_tomb h = true /\
   exists p r, rest = p :: r /\ ukey p = ukey e /\ is_val p = true /\ seq p < W).
Proof.
  intros HS Ek. unfold emit_dec. destruct rest as [|p r].
  { cbn. repeat split; auto; discriminate. }
  destruct (key_ltb (ukey h) (ukey p)) eqn:KL.
  { cbn. repeat split; auto; discriminate. }
  destruct (seq p <? W) eqn:C.
  2:{ cbn. repeat split; auto; discriminate. }
  apply N.ltb_lt in C.
  pose proof (ssorted_peek_same_key _ _ _ _ HS Ek KL) as Ep.
  assert (dr_ok (Drain (ukey h)) (p :: r) /\ drW W (Drain (ukey h)) (p :: r)) as [HD1 HD2].
  { split.
    - intros x HI. rewrite Ek. eapply ssorted_key_le; eauto. now right.
    - intros x HI Ex. destruct HI as [->|HI]; [exact C|].
      assert (seq x < seq p); [|lia].
      eapply ssorted_same_key_seq; [eapply ssorted_tail; eauto | exact HI | congruence]. }
  destruct (is_strong_tomb h && evict).
  { cbn [snd]. repeat split; auto; discriminate. }
  destruct (is_val p && is_weak_tomb h) eqn:WP; cbn [snd].
  - apply andb_true_iff in WP. destruct WP as [WP1 WP2].
    split; [exact I|]. split; [exact C|]. intros _. split; [exact WP2|].
    exists p, r. auto.
  - repeat split; auto; discriminate.
Qed.

(** a head that is not emitted is a tombstone; either a whole-key drain follows (only
    with [evict]), or it was the last version of its key, or it is the weak-pair case *)
Lemma emit_dec_false W evict e h rest :
  ssorted (e :: rest) = true -> ukey h = ukey e ->
  fst (emit_dec W evict h rest) = false ->
  is_tomb h = true /\
  ((snd (emit_dec W evict h rest) = Drain (ukey h) /\ evict = true) \/
   (forall x, In x rest -> key_lt (ukey h) (ukey x)) \/
   (snd (emit_dec W evict h rest) = DropNext /\ is_weak_tomb h = true)).
Proof.
  intros HS Ek. unfold emit_dec. destruct rest as [|p r].
  - cbn [fst snd]. intros H. apply negb_false_iff, andb_true_iff in H. destruct H as [H _].
    split; [exact H|]. right; left. intros x [].
  - destruct (key_ltb (ukey h) (ukey p)) eqn:KL.
    + cbn [fst snd]. intros H. apply negb_false_iff, andb_true_iff in H. destruct H as [H _].
      split; [exact H|]. right; left. intros x HI. key_prop.
      eapply key_lt_le_trans; [exact KL|].
      eapply ssorted_key_le; [eapply ssorted_tail; eauto | exact HI].
    + destruct (seq p <? W); cbn [fst snd]; [|discriminate].
      destruct (is_strong_tomb h && evict) eqn:SE.
      * cbn [fst snd]. intros _. apply andb_true_iff in SE. destruct SE as [SE1 SE2].
        split; [|left; auto].
        unfold is_tomb, is_strong_tomb in *. destruct (ty h); try discriminate; reflexivity.
      * destruct (is_val p && is_weak_tomb h) eqn:WP; cbn [fst snd]; [|discriminate].
        intros _. apply andb_true_iff in WP. destruct WP as [_ WP].
        split; [|right; right; auto].
        unfold is_tomb, is_weak_tomb in *. destruct (ty h); try discriminate; reflexivity.
Qed.

(** a non-tombstone head is always emitted *)
Lemma emit_dec_nontomb W evict h rest :
  is_tomb h = false -> fst (emit_dec W evict h rest) = true.
Proof.
  unfold emit_dec, is_tomb, is_strong_tomb, is_weak_tomb.
  destruct rest as [|p r].
  - intros ->. reflexivity.
  - destruct (key_ltb (ukey h) (ukey p)); [intros ->; reflexivity|].
    destruct (seq p <? W); [|reflexivity].
    destruct (ty h); try discriminate; intros _; cbn; rewrite ?andb_false_r; reflexivity.
Qed.

(** * 3. Shape of the output *)

(** [subik o l]: [o] is obtained from [l] by deleting entries and replacing kept entries
    by entries with the same (user key, seqno) *)
Inductive subik : list entry -> list entry -> Prop :=
| subik_nil : subik [] []
| subik_skip o e l : subik o l -> subik o (e :: l)
| subik_keep h o e l : ukey h = ukey e -> seq h = seq e -> subik o l -> subik (h :: o) (e :: l).

(** plain subsequence *)
Inductive subseq : list entry -> list entry -> Prop :=
| subseq_nil : subseq [] []
| subseq_skip o e l : subseq o l -> subseq o (e :: l)
| subseq_keep e o l : subseq o l -> subseq (e :: o) (e :: l).

Lemma subseq_subik o l : subseq o l -> subik o l.
Proof.
  induction 1; [apply subik_nil | apply subik_skip; auto | apply subik_keep; auto].
Qed.

Lemma subseq_incl o l : subseq o l -> incl o l.
Proof.
  induction 1 as [|o e l H IH|e o l H IH]; intros x HI.
  - exact HI.
  - right. auto.
  - destruct HI as [->|HI]; [now left | right; auto].
Qed.

Lemma subseq_refl l : subseq l l.
Proof. induction l; [apply subseq_nil | apply subseq_keep; auto]. Qed.

Lemma subseq_nil_l l : subseq [] l.
Proof. induction l; constructor; auto. Qed.

Lemma subseq_app a a' b b' : subseq a a' -> subseq b b' -> subseq (a ++ b) (a' ++ b').
Proof.
  induction 1; cbn [app]; intros; [auto | apply subseq_skip; auto | apply subseq_keep; auto].
Qed.

Lemma subik_app a a' b b' : subik a a' -> subik b b' -> subik (a ++ b) (a' ++ b').
Proof.
  induction 1; cbn [app]; intros; [auto | apply subik_skip; auto | apply subik_keep; auto].
Qed.

Lemma subik_nil_l l : subik [] l.
Proof. induction l; constructor; auto. Qed.

Lemma subik_in o l h :
  subik o l -> In h o -> exists x, In x l /\ ukey h = ukey x /\ seq h = seq x.
Proof.
  induction 1 as [|o e l H IH|h' o e l Ek Es H IH]; intros HI.
  - contradiction.
  - destruct (IH HI) as (x & A & B). exists x. split; [now right | exact B].
  - destruct HI as [->|HI].
    + exists e. split; [now left | auto].
    + destruct (IH HI) as (x & A & B). exists x. split; [now right | exact B].
Qed.

Lemma subik_ssorted o l : subik o l -> ssorted l = true -> ssorted o = true.
Proof.
  induction 1 as [|o e l H IH|h o e l Ek Es H IH]; intros HS.
  - reflexivity.
  - apply IH. eapply ssorted_tail; eauto.
  - apply ssorted_cons. split.
    + apply Forall_forall. intros y Hy.
      destruct (subik_in _ _ _ H Hy) as (x & A & B & C).
      rewrite (ikey_ltb_ext h e y x); auto. eapply ssorted_head_lt; eauto.
    + apply IH. eapply ssorted_tail; eauto.
Qed.

Lemma outs_subik W evict flt l : forall dr, subik (outs W evict flt dr l) l.
Proof.
  induction l as [|e rest IH]; intros dr; [constructor|].
  rewrite outs_cons. destruct (draining evict dr e).
  - constructor. apply IH.
  - destruct (fst (apply_filter flt e)) as [h|] eqn:AF.
    + apply apply_filter_some in AF. destruct AF as [Ek Es].
      unfold olist. destruct (fst (emit_dec W evict h rest)); cbn [app].
      * apply subik_keep; auto.
      * apply subik_skip. apply IH.
    + apply subik_skip. apply IH.
Qed.

Lemma outs_subseq W evict l : forall dr, subseq (outs W evict no_filter dr l) l.
Proof.
  induction l as [|e rest IH]; intros dr; [constructor|].
  rewrite outs_cons. destruct (draining evict dr e).
  - constructor. apply IH.
  - rewrite apply_filter_no_filter. cbn [fst].
    unfold olist. destruct (fst (emit_dec W evict e rest)); cbn [app];
      [apply subseq_keep | apply subseq_skip]; apply IH.
Qed.

(** the drop-callback log is a subsequence of the input (any filter, any input) *)
Lemma logs_subseq W evict flt l : forall dr, subseq (logs W evict flt dr l) l.
Proof.
  induction l as [|e rest IH]; intros dr; [constructor|].
  rewrite logs_cons. destruct (draining evict dr e).
  - apply subseq_keep. apply IH.
  - destruct (apply_filter_cases flt e) as [AF|[(_ & _ & AF)|(_ & t & v & _ & AF)]];
      rewrite AF; cbn [fst snd app];
      [apply subseq_skip | apply subseq_keep | apply subseq_keep]; apply IH.
Qed.

(** ** Result 4 *)

Theorem cstream_out_sorted W evict flt l out log :
  ssorted l = true -> run_stream W evict flt l = (out, log) -> ssorted out = true.
Proof.
  intros HS HR. apply run_stream_outs in HR. destruct HR as [-> _].
  eapply subik_ssorted; [apply outs_subik | exact HS].
Qed.

Theorem cstream_out_keys W evict flt l out log :
  run_stream W evict flt l = (out, log) ->
  forall h, In h out -> exists e, In e l /\ ukey h = ukey e /\ seq h = seq e.
Proof.
  intros HR h HI. apply run_stream_outs in HR. destruct HR as [-> _].
  eapply subik_in; [apply outs_subik | exact HI].
Qed.

(** an emitted entry is the input entry itself, or the filter's replacement of it:
    a replacement keeps user key and seqno *)
Theorem cstream_replace_keeps_seq W evict flt l out log :
  run_stream W evict flt l = (out, log) ->
  forall h, In h out ->
  In h l \/ exists e t v, In e l /\ is_tomb e = false /\ flt e = Replace t v /\
                          h = mkE (ukey e) (seq e) t v.
Proof.
  intros HR h HI. apply run_stream_outs in HR. destruct HR as [-> _]. clear log.
  revert HI. generalize NoDrain as dr. induction l as [|e rest IH]; intros dr HI.
  - contradiction.
  - rewrite outs_cons in HI. destruct (draining evict dr e).
    + destruct (IH _ HI) as [A|(e0 & t & v & A & B)]; [left; now right|].
      right. exists e0, t, v. split; [now right | exact B].
    + assert (forall dr', In h (outs W evict flt dr' rest) ->
              In h (e :: rest) \/ exists e0 t v, In e0 (e :: rest) /\ is_tomb e0 = false /\
                 flt e0 = Replace t v /\ h = mkE (ukey e0) (seq e0) t v) as Hrest.
      { intros dr' HI'. destruct (IH _ HI') as [A|(e0 & t & v & A & B)]; [left; now right|].
        right. exists e0, t, v. split; [now right | exact B]. }
      destruct (apply_filter_cases flt e) as [AF|[(_ & _ & AF)|(NT & t & v & Hf & AF)]];
        rewrite AF in HI; cbn [fst] in HI.
      * apply in_app_or in HI. destruct HI as [HI|HI]; [|eauto].
        unfold olist in HI. destruct (fst (emit_dec W evict e rest)); [|contradiction].
        destruct HI as [<-|[]]. left; now left.
      * eauto.
      * apply in_app_or in HI. destruct HI as [HI|HI]; [|eauto].
        unfold olist in HI.
        destruct (fst (emit_dec W evict _ rest)); [|contradiction].
        destruct HI as [<-|[]]. right. exists e, t, v. split; [now left | auto].
Qed.

Theorem cstream_out_subseq W evict l out log :
  run_stream W evict no_filter l = (out, log) -> subseq out l.
Proof.
  intros HR. apply run_stream_outs in HR. destruct HR as [-> _]. apply outs_subseq.
Qed.

Theorem cstream_out_in W evict l out log :
  run_stream W evict no_filter l = (out, log) -> forall h, In h out -> In h l.
Proof. intros HR. apply subseq_incl. eapply cstream_out_subseq; eauto. Qed.

Theorem cstream_log_subseq W evict flt l out log :
  run_stream W evict flt l = (out, log) -> subseq log l.
Proof.
  intros HR. apply run_stream_outs in HR. destruct HR as [_ ->]. apply logs_subseq.
Qed.

Example cstream_out_sorted_ex :
  let l := [Examples.V Examples.ka 999 [57]; Examples.V Examples.ka 996 [54];
            Examples.V Examples.ka 994 [52]; Examples.V Examples.kb 999 [98]] in
  ssorted l = true /\ ssorted (fst (run_stream 995 false Examples.flt1 l)) = true /\
  fst (run_stream 995 false Examples.flt1 l)
  = [Examples.V Examples.ka 999 [57]; Examples.T Examples.ka 996].
Proof. vm_compute. auto. Qed.

(** * 4. A snapshot above all versions of a key (result 2) *)

Lemma newest_cons_nomatch k S h o : matches k S h = false -> newest k S (h :: o) = newest k S o.
Proof. intros M. cbn [newest]. rewrite M. reflexivity. Qed.

Lemma newest_cons_nokey k S h o : ukey h <> k -> newest k S (h :: o) = newest k S o.
Proof.
  intros NE. apply newest_cons_nomatch. unfold matches.
  apply key_eqb_neq in NE. rewrite NE. reflexivity.
Qed.

Lemma newest_skip_prefix k S a b :
  (forall h, In h a -> matches k S h = false) -> newest k S (a ++ b) = newest k S b.
Proof.
  induction a as [|x a IH]; intros H; [reflexivity|].
  cbn [app]. rewrite newest_cons_nomatch; [|apply H; now left].
  apply IH. intros h HI. apply H. now right.
Qed.

Lemma newest_nokey k S o : (forall h, In h o -> ukey h <> k) -> newest k S o = None.
Proof.
  intros H. apply newest_none. intros e HI. unfold matches.
  pose proof (H e HI) as NE. apply key_eqb_neq in NE. rewrite NE. reflexivity.
Qed.

Lemma newest_head k S h o :
  ukey h = k -> seq h < S -> (forall x, In x o -> ukey x = k -> seq x < seq h) ->
  newest k S (h :: o) = Some h.
Proof.
  intros Ek Es Hlt. cbn [newest].
  assert (matches k S h = true) as M by (apply matches_iff; auto). rewrite M.
  destruct (newest k S o) as [r|] eqn:R; [|reflexivity].
  destruct (newest_some _ _ _ _ R) as [RI RM]. apply matches_iff in RM. destruct RM as [Rk _].
  specialize (Hlt r RI Rk). apply N.ltb_lt in Hlt. rewrite Hlt. reflexivity.
Qed.

Lemma filter_all_cons flt e l :
  filter_all flt (e :: l) =
  match fst (apply_filter flt e) with Some h => h :: filter_all flt l | None => filter_all flt l end.
Proof. unfold filter_all. cbn [flat_map]. destruct (fst (apply_filter flt e)); reflexivity. Qed.

Lemma filter_all_subik flt l : subik (filter_all flt l) l.
Proof.
  induction l as [|e l IH]; [constructor|]. rewrite filter_all_cons.
  destruct (fst (apply_filter flt e)) as [h|] eqn:AF.
  - apply apply_filter_some in AF. destruct AF. apply subik_keep; auto.
  - apply subik_skip; auto.
Qed.

Lemma filter_all_in_tail flt e l x : In x (filter_all flt l) -> In x (filter_all flt (e :: l)).
Proof.
  intros HI. rewrite filter_all_cons. destruct (fst (apply_filter flt e)); [now right | exact HI].
Qed.

(** during a whole-key drain with [evict] nothing of key [k] is emitted
    (without [evict] the drain stops at a weak tombstone, which becomes a head) *)
Lemma drain_no_key W flt k l :
  ssorted l = true -> dr_ok (Drain k) l ->
  forall h, In h (outs W true flt (Drain k) l) -> ukey h <> k.
Proof.
  induction l as [|e rest IH]; intros HS OK h HI; [contradiction|].
  destruct (draining true (Drain k) e) eqn:D.
  - rewrite outs_cons, D in HI. cbn [after_drop] in HI. apply IH; auto.
    + eapply ssorted_tail; eauto.
    + intros x Hx. apply OK. now right.
  - cbn [draining orb] in D. rewrite andb_true_r in D. key_prop.
    destruct (subik_in _ _ _ (outs_subik W true flt (e :: rest) (Drain k)) HI)
      as (x & XI & Xk & _).
    assert (key_lt k (ukey x)) as L.
    { eapply key_lt_le_trans; [|eapply ssorted_key_le; eauto].
      pose proof (OK e (or_introl eq_refl)) as LE.
      apply key_le_lteq in LE. destruct LE as [LE|LE]; [exact LE | congruence]. }
    intros E. rewrite Xk, E in *. now apply key_lt_irrefl in L.
Qed.

(** the mode does not concern key [k] *)
Definition dr_nok (k : key) (dr : dmode) (l : list entry) : Prop :=
  match dr with
  | Drain k' => k' <> k
  | DropNext => match l with e :: _ => ukey e <> k | [] => True end
  | NoDrain => True
  end.

Lemma dr_nok_after k dr e l : dr_nok k dr (e :: l) -> dr_nok k (after_drop dr) l.
Proof. destruct dr; cbn; auto. Qed.

Lemma top_gen W evict flt k S : forall l dr,
  ssorted l = true -> dr_ok dr l -> dr_nok k dr l ->
  (forall e, In e l -> ukey e = k -> seq e < S) ->
  (forall x, In x (filter_all flt l) -> ukey x = k -> is_weak_tomb x = false) ->
  visible (newest k S (outs W evict flt dr l)) = visible (newest k S (filter_all flt l)).
Proof.
  induction l as [|e rest IH]; intros dr HS OK ND HSn NW; [reflexivity|].
  pose proof (ssorted_tail _ _ HS) as HS'.
  assert (forall x, In x rest -> ukey x = k -> seq x < S) as HSn'
      by (intros x HI; apply HSn; now right).
  assert (forall x, In x (filter_all flt rest) -> ukey x = k -> is_weak_tomb x = false) as NW'
      by (intros x HI; apply NW; now apply filter_all_in_tail).
  rewrite outs_cons. rewrite filter_all_cons in *.
  destruct (draining evict dr e) eqn:D.
  - (* e is dropped by the mode; its key is not k *)
    assert (ukey e <> k) as NE.
    { destruct dr as [|k'|]; [discriminate| |exact ND].
      apply draining_key in D. cbn in ND. congruence. }
    rewrite (IH (after_drop dr) HS' (dr_ok_tail _ _ _ OK) (dr_nok_after _ _ _ _ ND) HSn' NW').
    destruct (fst (apply_filter flt e)) as [h|] eqn:AF; [|reflexivity].
    apply apply_filter_some in AF. destruct AF as [Ek _].
    rewrite newest_cons_nokey; [reflexivity | congruence].
  - destruct (fst (apply_filter flt e)) as [h|] eqn:AF.
    2:{ apply IH; cbn; auto. }
    apply apply_filter_some in AF. destruct AF as [Ek Es].
    destruct (emit_dec_inv W evict e h rest HS Ek) as (OK' & _ & DN).
    destruct (key_eq_dec (ukey e) k) as [E|NE].
    + (* the head of key k *)
      assert (newest k S (h :: filter_all flt rest) = Some h) as R.
      { apply newest_head; [congruence | rewrite Es; apply HSn; auto; now left |].
        intros x XI Xk.
        destruct (subik_in _ _ _ (filter_all_subik flt rest) XI) as (y & YI & Yk & Ys).
        rewrite Es, Ys. eapply ssorted_same_key_seq; eauto. congruence. }
      rewrite R.
      destruct (fst (emit_dec W evict h rest)) eqn:B; unfold olist; cbn [app].
      * rewrite newest_head; [reflexivity | congruence | rewrite Es; apply HSn; auto; now left |].
        intros x XI Xk.
        destruct (subik_in _ _ _ (outs_subik W evict flt rest _) XI) as (y & YI & Yk & Ys).
        rewrite Es, Ys. eapply ssorted_same_key_seq; eauto. congruence.
      * destruct (emit_dec_false W evict e h rest HS Ek B) as [TB Hno].
        cbn [visible]. rewrite TB.
        destruct Hno as [[Hd Hev]|[Hgt|[_ Hw]]].
        -- rewrite newest_nokey; [reflexivity|]. intros x XI.
           rewrite Hd in XI, OK'. subst evict. rewrite <- E, <- Ek.
           eapply drain_no_key; eauto.
        -- rewrite newest_nokey; [reflexivity|]. intros x XI.
           destruct (subik_in _ _ _ (outs_subik W evict flt rest _) XI) as (y & YI & Yk & _).
           specialize (Hgt y YI). intros Xk. rewrite <- Yk, Xk, Ek, E in Hgt.
           now apply key_lt_irrefl in Hgt.
        -- exfalso. rewrite (NW h) in Hw; [discriminate | now left | congruence].
    + (* a head of another key *)
      assert (ukey h <> k) as NEh by congruence.
      rewrite (newest_cons_nokey k S h (filter_all flt rest) NEh).
      rewrite <- (IH (snd (emit_dec W evict h rest))); auto.
      * unfold olist. destruct (fst (emit_dec W evict h rest)); cbn [app]; [|reflexivity].
        rewrite newest_cons_nokey; auto.
      * destruct (emit_dec_dr W evict h rest) as [Hd|[Hd|Hd]]; rewrite Hd; cbn; auto.
        destruct (DN Hd) as (_ & p & r & -> & Ep & _). congruence.
Qed.

(** The unguarded statement is false for the repaired stream, by design: a weak tombstone
    cancels exactly one value, so an undisciplined history (two values under one weak
    tombstone) resurrects the older value. *)
Lemma cstream_top_view_refuted_weak :
  exists W evict flt l out log k S, ssorted l = true /\
    run_stream W evict flt l = (out, log) /\
    (forall e, In e l -> ukey e = k -> seq e < S) /\
    visible (newest k S out) <> visible (newest k S (filter_all flt l)).
Proof.
  exists 1000, false, no_filter,
    [Examples.Wt Examples.ka 3; Examples.V Examples.ka 2 [2]; Examples.V Examples.ka 1 [1]],
    [Examples.V Examples.ka 1 [1]], [Examples.V Examples.ka 2 [2]], Examples.ka, 100.
  split; [reflexivity|]. split; [vm_compute; reflexivity|]. split.
  - intros e [<-|[<-|[<-|[]]]] _; reflexivity.
  - vm_compute. discriminate.
Qed.

(** (a) true as soon as key [k] has no weak tombstone after filtering *)
Theorem cstream_top_view_noweak : forall W evict flt l out log, ssorted l = true ->
  run_stream W evict flt l = (out, log) ->
  forall k S, (forall e, In e l -> ukey e = k -> seq e < S) ->
  (forall e, In e (filter_all flt l) -> ukey e = k -> ty e <> WeakTomb) ->
  visible (newest k S out) = visible (newest k S (filter_all flt l)).
Proof.
  intros W evict flt l out log HS HR k S HSn NW.
  apply run_stream_outs in HR. destruct HR as [-> _].
  apply top_gen; cbn; auto.
  intros x HI Hk. specialize (NW x HI Hk). unfold is_weak_tomb.
  destruct (ty x); try reflexivity. congruence.
Qed.

Corollary cstream_top_view_nofilter : forall W evict l out log, ssorted l = true ->
  run_stream W evict no_filter l = (out, log) ->
  forall k S, (forall e, In e l -> ukey e = k -> seq e < S) ->
  (forall e, In e l -> ukey e = k -> ty e <> WeakTomb) ->
  visible (newest k S out) = visible (newest k S l).
Proof.
  intros W evict l out log HS HR k S HSn NW.
  rewrite (cstream_top_view_noweak _ _ _ _ _ _ HS HR k S HSn); rewrite filter_all_no_filter; auto.
Qed.

(** instances: strong tombstone over an expired value under eviction (both vanish);
    filter Drop on the newest entry (the older version resurfaces on both sides);
    filter Replace-by-tombstone under eviction *)
Example cstream_top_view_ex1 :
  let l := [Examples.T Examples.ka 5; Examples.V Examples.ka 4 [1]] in
  ssorted l = true /\ fst (run_stream 10 true no_filter l) = [] /\
  visible (newest Examples.ka 100 (fst (run_stream 10 true no_filter l))) = None /\
  visible (newest Examples.ka 100 l) = None.
Proof. vm_compute. auto. Qed.

Example cstream_top_view_ex2 :
  let flt := fun e => if seq e =? 5 then Drop else Keep in
  let l := [Examples.V Examples.ka 5 [2]; Examples.V Examples.ka 4 [1]] in
  ssorted l = true /\
  visible (newest Examples.ka 100 (fst (run_stream 10 true flt l)))
    = Some (Examples.V Examples.ka 4 [1]) /\
  visible (newest Examples.ka 100 (filter_all flt l)) = Some (Examples.V Examples.ka 4 [1]).
Proof. vm_compute. auto. Qed.

Example cstream_top_view_ex3 :
  let flt := fun e => if seq e =? 5 then Replace Tomb [] else Keep in
  let l := [Examples.V Examples.ka 5 [2]; Examples.V Examples.ka 4 [1]] in
  ssorted l = true /\ run_stream 10 true flt l = ([], [Examples.V Examples.ka 5 [2]; Examples.V Examples.ka 4 [1]]) /\
  visible (newest Examples.ka 100 (filter_all flt l)) = None.
Proof. vm_compute. auto. Qed.

(** * 5. Versions at or above the watermark (result 3) *)

(** the stream only peeks one entry ahead: the output on [l1 ++ e :: l2] is an output on
    [l1] followed by the output on [e :: l2] from some mode satisfying the invariants *)
Lemma outs_split W evict : forall l1 dr e l2,
  ssorted (l1 ++ e :: l2) = true -> drW W dr (l1 ++ e :: l2) -> dr_ok dr (l1 ++ e :: l2) ->
  exists dr1 o1,
    outs W evict no_filter dr (l1 ++ e :: l2) = o1 ++ outs W evict no_filter dr1 (e :: l2)
    /\ drW W dr1 (e :: l2) /\ dr_ok dr1 (e :: l2) /\ subseq o1 l1.
Proof.
  induction l1 as [|x l1 IH]; intros dr e l2 HS DW OK.
  - exists dr, []. cbn [app]. repeat split; auto. constructor.
  - cbn [app] in *. pose proof (ssorted_tail _ _ HS) as HS'.
    rewrite outs_cons. destruct (draining evict dr x).
    + destruct (IH (after_drop dr) e l2 HS' (drW_tail _ _ _ _ DW) (dr_ok_tail _ _ _ OK))
        as (dr1 & o1 & E & A & B & C).
      exists dr1, o1. rewrite E. repeat split; auto. now apply subseq_skip.
    + rewrite apply_filter_no_filter. cbn [fst].
      destruct (emit_dec_inv W evict x x _ HS eq_refl) as (OK' & DW' & _).
      destruct (IH _ e l2 HS' DW' OK') as (dr1 & o1 & E & A & B & C).
      exists dr1, (olist (fst (emit_dec W evict x (l1 ++ e :: l2))) x ++ o1).
      rewrite E, app_assoc. repeat split; auto.
      unfold olist. destruct (fst (emit_dec W evict x (l1 ++ e :: l2))); cbn [app];
        [now apply subseq_keep | now apply subseq_skip].
Qed.

Lemma nodrain_above_W W evict dr e l :
  drW W dr (e :: l) -> W <= seq e -> draining evict dr e = false.
Proof.
  intros DW HW. destruct dr as [|k'|]; [reflexivity| |].
  - destruct (draining evict (Drain k') e) eqn:D; [|reflexivity].
    apply draining_key in D. specialize (DW e (or_introl eq_refl) D). lia.
  - cbn in DW. lia.
Qed.

(** an entry at or above the watermark always becomes a head; [emit_dec] then decides *)
Lemma mvcc_gen W evict l1 e l2 :
  ssorted (l1 ++ e :: l2) = true -> W <= seq e ->
  let out := outs W evict no_filter NoDrain (l1 ++ e :: l2) in
  (fst (emit_dec W evict e l2) = true -> In e out) /\
  (fst (emit_dec W evict e l2) = false -> snd (emit_dec W evict e l2) <> DropNext ->
   forall h, In h out -> ukey h = ukey e -> seq e < seq h) /\
  (snd (emit_dec W evict e l2) = DropNext ->
   exists p l3, l2 = p :: l3 /\ ukey p = ukey e /\
     forall h, In h out -> ukey h = ukey e -> seq e < seq h \/ seq h < seq p).
Proof.
  intros HS HW out. subst out.
  destruct (outs_split W evict l1 NoDrain e l2 HS I I) as (dr1 & o1 & E & DW1 & OK1 & SUB).
  rewrite E, outs_cons, (nodrain_above_W _ _ _ _ _ DW1 HW), apply_filter_no_filter. cbn [fst].
  pose proof (ssorted_app_r _ _ HS) as HS2.
  assert (forall h, In h o1 -> ukey h = ukey e -> seq e < seq h) as Ho1.
  { intros h HI Hk. apply (subseq_incl _ _ SUB) in HI.
    assert (ikey_ltb h e = true) as L by (eapply ssorted_app_lt; eauto; now left).
    apply ikey_ltb_spec in L. destruct L as [L|[_ L]]; [|exact L].
    rewrite Hk in L. now apply key_lt_irrefl in L. }
  destruct (emit_dec_inv W evict e e l2 HS2 eq_refl) as (OK' & _ & DN).
  split; [|split].
  - intros B. rewrite B. apply in_or_app. right. now left.
  - intros B NDN. rewrite B. unfold olist. cbn [app]. intros h HI Hk.
    apply in_app_or in HI. destruct HI as [HI|HI]; [auto|]. exfalso.
    destruct (emit_dec_false W evict e e l2 HS2 eq_refl B) as [_ [[Hd Hev]|[Hgt|[Hd _]]]].
    + rewrite Hd in HI, OK'. subst evict.
      eapply (drain_no_key W no_filter (ukey e) l2); eauto. eapply ssorted_tail; eauto.
    + destruct (subik_in _ _ _ (outs_subik W evict no_filter l2 _) HI) as (y & YI & Yk & _).
      specialize (Hgt y YI). rewrite <- Yk, Hk in Hgt. now apply key_lt_irrefl in Hgt.
    + contradiction.
  - intros Hd. destruct (DN Hd) as (_ & p & l3 & -> & Ep & _ & _).
    exists p, l3. split; [reflexivity|]. split; [exact Ep|].
    assert (fst (emit_dec W evict e (p :: l3)) = false) as B.
    { revert Hd. unfold emit_dec. destruct (key_ltb (ukey e) (ukey p)); [discriminate|].
      destruct (seq p <? W); [|discriminate].
      destruct (is_strong_tomb e && evict); [discriminate|].
      destruct (is_val p && is_weak_tomb e); [reflexivity | discriminate]. }
    rewrite B, Hd. unfold olist. cbn [app]. rewrite outs_cons. cbn [draining after_drop].
    intros h HI Hk. apply in_app_or in HI. destruct HI as [HI|HI]; [left; auto|]. right.
    destruct (subik_in _ _ _ (outs_subik W evict no_filter l3 _) HI) as (y & YI & Yk & Ys).
    rewrite Ys. eapply ssorted_same_key_seq; [eapply ssorted_tail; eauto | exact YI | congruence].
Qed.

Lemma newest_of_in k S l out e :
  ssorted l = true -> subseq out l -> newest k S l = Some e -> In e out ->
  newest k S out = Some e.
Proof.
  intros HS SUB HN HI. destruct (newest_some _ _ _ _ HN) as [_ HM].
  apply newest_char; auto.
  - eapply uniq_incl; [apply ssorted_uniq; eauto | apply subseq_incl; auto].
  - intros e' HI' HM'. eapply newest_max; eauto. eapply subseq_incl; eauto.
Qed.

Theorem cstream_mvcc : forall W evict l out log, ssorted l = true ->
  run_stream W evict no_filter l = (out, log) ->
  forall k S e, newest k S l = Some e -> W <= seq e ->
  is_tomb e = false -> newest k S out = Some e.
Proof.
  intros W evict l out log HS HR k S e HN HW NT.
  pose proof (cstream_out_subseq _ _ _ _ _ HR) as SUB.
  apply run_stream_outs in HR. destruct HR as [-> _].
  destruct (newest_some _ _ _ _ HN) as [HI _].
  apply in_split in HI. destruct HI as (l1 & l2 & ->).
  eapply newest_of_in; eauto.
  apply (mvcc_gen W evict l1 e l2 HS HW). now apply emit_dec_nontomb.
Qed.

(** the next older version of the same key, found with the Spec's [newest] *)
Lemma newest_succ l1 e l2 :
  ssorted (l1 ++ e :: l2) = true ->
  newest (ukey e) (seq e) (l1 ++ e :: l2) =
  match l2 with
  | [] => None
  | p :: _ => if key_ltb (ukey e) (ukey p) then None else Some p
  end.
Proof.
  intros HS. rewrite newest_skip_prefix.
  2:{ intros h HI. destruct (matches (ukey e) (seq e) h) eqn:M; [|reflexivity].
      apply matches_iff in M. destruct M as [Mk Ms].
      assert (ikey_ltb h e = true) as L by (eapply ssorted_app_lt; eauto; now left).
      apply ikey_ltb_spec in L. destruct L as [L|[_ L]]; [|lia].
      rewrite Mk in L. now apply key_lt_irrefl in L. }
  rewrite newest_cons_nomatch.
  2:{ unfold matches. rewrite N.ltb_irrefl. apply andb_false_r. }
  pose proof (ssorted_app_r _ _ HS) as HS2.
  destruct l2 as [|p r]; [reflexivity|].
  destruct (key_ltb (ukey e) (ukey p)) eqn:KL.
  - apply newest_nokey. intros h HI E. key_prop.
    assert (key_lt (ukey e) (ukey h)) as L.
    { eapply key_lt_le_trans; [exact KL|].
      eapply ssorted_key_le; [eapply ssorted_tail; eauto | exact HI]. }
    rewrite E in L. now apply key_lt_irrefl in L.
  - pose proof (ssorted_peek_same_key e p r e HS2 eq_refl KL) as Ep.
    apply newest_head; auto.
    + eapply ssorted_same_key_seq; eauto. now left.
    + intros x XI Xk. eapply ssorted_same_key_seq; [eapply ssorted_tail; eauto| |]; auto.
      congruence.
Qed.

Lemma newest_same_matches k S S' o :
  (forall x, In x o -> matches k S x = matches k S' x) -> newest k S o = newest k S' o.
Proof.
  induction o as [|x o IH]; intros H; [reflexivity|].
  cbn [newest]. rewrite (H x (or_introl eq_refl)), IH; [reflexivity|].
  intros y Hy. apply H. now right.
Qed.

(** What a snapshot [S] reads after the stream when the newest version [e] visible at [S]
    is a tombstone at or above the watermark.  With [p] the next older version of the key:
    - [e] is the oldest version: removed iff [evict];
    - [p] is below the watermark and [e] is a strong tombstone and [evict]: [e] and
      everything older is removed;
    - [p] is below the watermark, [e] is weak and [p] is not a tombstone (an inline or a
      separated value): exactly the pair [e], [p]
      is removed, the snapshot then reads whatever the stream left of the versions
      older than [p];
    - otherwise [e] is emitted. *)
Definition tomb_fate (W : N) (evict : bool) (e : entry) (l out : list entry) : option entry :=
  match newest (ukey e) (seq e) l with
  | None => if evict then None else Some e
  | Some p =>
      if seq p <? W then
        if is_strong_tomb e && evict then None
        else if is_val p && is_weak_tomb e then newest (ukey e) (seq p) out
        else Some e
      else Some e
  end.

Theorem cstream_mvcc_tomb : forall W evict l out log, ssorted l = true ->
  run_stream W evict no_filter l = (out, log) ->
  forall k S e, newest k S l = Some e -> W <= seq e -> is_tomb e = true ->
  newest k S out = tomb_fate W evict e l out.
Proof.
  intros W evict l out log HS HR k S e HN HW TB.
  pose proof (cstream_out_subseq _ _ _ _ _ HR) as SUB.
  apply run_stream_outs in HR. destruct HR as [-> _].
  destruct (newest_some _ _ _ _ HN) as [HI HM].
  pose proof HM as HM'. apply matches_iff in HM'. destruct HM' as [Ek ES].
  apply in_split in HI. destruct HI as (l1 & l2 & ->).
  destruct (mvcc_gen W evict l1 e l2 HS HW) as (Hem & Hdr & Hdn).
  set (out := outs W evict no_filter NoDrain (l1 ++ e :: l2)) in *.
  (* the three outcomes *)
  assert (fst (emit_dec W evict e l2) = true -> newest k S out = Some e) as A.
  { intros B. eapply newest_of_in; eauto. }
  assert (fst (emit_dec W evict e l2) = false -> snd (emit_dec W evict e l2) <> DropNext ->
          newest k S out = None) as B.
  { intros B NDN. apply newest_none. intros h HI.
    destruct (matches k S h) eqn:M; [|reflexivity]. exfalso.
    pose proof (newest_max _ _ _ _ HN h (subseq_incl _ _ SUB h HI) M) as LE.
    apply matches_iff in M. destruct M as [Mk _].
    specialize (Hdr B NDN h HI). rewrite Mk, Ek in Hdr. specialize (Hdr eq_refl). lia. }
  assert (snd (emit_dec W evict e l2) = DropNext ->
          exists p l3, l2 = p :: l3 /\ newest k S out = newest k (seq p) out) as C.
  { intros Hd. destruct (Hdn Hd) as (p & l3 & -> & Ep & Hh). exists p, l3.
    split; [reflexivity|]. apply newest_same_matches. intros x HI.
    assert (seq p < seq e) as Lp.
    { eapply ssorted_same_key_seq; [eapply ssorted_app_r; eauto | now left | exact Ep]. }
    unfold matches. destruct (key_eqb (ukey x) k) eqn:K; [|reflexivity]. cbn [andb].
    key_prop. specialize (Hh x HI). rewrite K, Ek in Hh. destruct (Hh eq_refl) as [L|L].
    - assert (seq x <? S = false) as ->.
      { apply N.ltb_ge. destruct (N.lt_ge_cases (seq x) S) as [LT|GE]; [|exact GE]. exfalso.
        assert (matches k S x = true) as M by (apply matches_iff; auto).
        pose proof (newest_max _ _ _ _ HN x (subseq_incl _ _ SUB x HI) M). lia. }
      symmetry. apply N.ltb_ge. lia.
    - assert (seq x <? S = true) as -> by (apply N.ltb_lt; lia).
      symmetry. apply N.ltb_lt. lia. }
  clearbody out. unfold tomb_fate. rewrite <- Ek in A, B, C |- *.
  rewrite (newest_succ _ _ _ HS).
  unfold emit_dec in A, B, C. destruct l2 as [|p r].
  - cbn [fst snd] in *. rewrite TB in *. destruct evict; cbn in *.
    + apply B; [reflexivity | discriminate].
    + apply A; reflexivity.
  - destruct (key_ltb (ukey e) (ukey p)).
    + cbn [fst snd] in *. rewrite TB in *. destruct evict; cbn in *.
      * apply B; [reflexivity | discriminate].
      * apply A; reflexivity.
    + destruct (seq p <? W); [|apply A; reflexivity].
      destruct (is_strong_tomb e && evict).
      * apply B; [reflexivity | discriminate].
      * destruct (is_val p && is_weak_tomb e); [|apply A; reflexivity].
        destruct (C eq_refl) as (p' & l3 & Ep' & R). injection Ep' as <- <-. exact R.
Qed.

(** a strong tombstone (or any tombstone outside the weak-pair rule) at or above the
    watermark keeps hiding its key at every snapshot at which it was the newest version *)
Corollary cstream_mvcc_tomb_hidden : forall W evict l out log, ssorted l = true ->
  run_stream W evict no_filter l = (out, log) ->
  forall k S e, newest k S l = Some e -> W <= seq e -> is_tomb e = true ->
  is_weak_tomb e = false ->
  visible (newest k S out) = None.
Proof.
  intros W evict l out log HS HR k S e HN HW TB NW.
  rewrite (cstream_mvcc_tomb _ _ _ _ _ HS HR k S e HN HW TB). unfold tomb_fate.
  destruct (newest (ukey e) (seq e) l) as [p|].
  - rewrite NW, andb_false_r.
    destruct (seq p <? W); [destruct (is_strong_tomb e && evict)|]; cbn [visible];
      rewrite ?TB; reflexivity.
  - destruct evict; cbn [visible]; rewrite ?TB; reflexivity.
Qed.

(** both together: if the version visible at [S] is at or above the watermark and is not
    a weak tombstone, the read at [S] is unchanged (values and deletions alike) *)
Corollary cstream_mvcc_view : forall W evict l out log, ssorted l = true ->
  run_stream W evict no_filter l = (out, log) ->
  forall k S e, newest k S l = Some e -> W <= seq e -> is_weak_tomb e = false ->
  visible (newest k S out) = visible (newest k S l).
Proof.
  intros W evict l out log HS HR k S e HN HW NW. rewrite HN.
  destruct (is_tomb e) eqn:TB.
  - rewrite (cstream_mvcc_tomb_hidden _ _ _ _ _ HS HR k S e HN HW TB NW).
    cbn [visible]. now rewrite TB.
  - now rewrite (cstream_mvcc _ _ _ _ _ HS HR k S e HN HW TB).
Qed.

(** without the guard it fails (again only for undisciplined weak deletes): the pair
    [W@10, V@3] goes, [V@2] resurfaces *)
Lemma cstream_mvcc_view_refuted_weak :
  exists W evict l k S e, ssorted l = true /\ newest k S l = Some e /\ W <= seq e /\
    visible (newest k S (fst (run_stream W evict no_filter l))) <> visible (newest k S l).
Proof.
  exists 5, false,
    [Examples.Wt Examples.ka 10; Examples.V Examples.ka 3 [3]; Examples.V Examples.ka 2 [2]],
    Examples.ka, 11, (Examples.Wt Examples.ka 10).
  vm_compute. repeat split; discriminate.
Qed.

(** NOT true for every snapshot [S >= W]: the newest version below the watermark is
    dropped as soon as any newer version exists, even one the snapshot cannot see
    (stream.rs, [next]: only [peeked.seqno < gc_seqno_threshold] is tested) *)
Lemma cstream_snapshot_above_W_refuted :
  exists W evict l k S, ssorted l = true /\ W <= S /\
    visible (newest k S (fst (run_stream W evict no_filter l))) <> visible (newest k S l).
Proof.
  exists 6, false, [Examples.V Examples.ka 10 [2]; Examples.V Examples.ka 5 [1]],
         Examples.ka, 7.
  vm_compute. repeat split; discriminate.
Qed.

Example cstream_mvcc_ex :
  let l := [Examples.T Examples.ka 10; Examples.V Examples.ka 8 [1]; Examples.V Examples.ka 3 [0]] in
  ssorted l = true /\ newest Examples.ka 9 l = Some (Examples.V Examples.ka 8 [1]) /\
  run_stream 5 true no_filter l
  = ([Examples.T Examples.ka 10; Examples.V Examples.ka 8 [1]], [Examples.V Examples.ka 3 [0]]).
Proof. vm_compute. auto. Qed.

(** strong tombstone, evict, successor below the watermark: dropped with everything older;
    weak tombstone over an expired Value: exactly the pair is dropped (the older strong
    tombstone below becomes visible to the snapshot); weak tombstone over an expired
    strong tombstone: emitted *)
Example cstream_mvcc_tomb_ex :
  let ka := Examples.ka in
  let l1 := [Examples.T ka 10; Examples.V ka 3 [0]] in
  let l2 := [Examples.Wt ka 10; Examples.V ka 3 [0]; Examples.T ka 2] in
  let l3 := [Examples.Wt ka 10; Examples.T ka 3] in
  (ssorted l1 = true /\ fst (run_stream 5 true no_filter l1) = [] /\
   tomb_fate 5 true (Examples.T ka 10) l1 [] = None) /\
  (fst (run_stream 5 false no_filter l1) = [Examples.T ka 10] /\
   tomb_fate 5 false (Examples.T ka 10) l1 [Examples.T ka 10] = Some (Examples.T ka 10)) /\
  (ssorted l2 = true /\ fst (run_stream 5 false no_filter l2) = [Examples.T ka 2] /\
   tomb_fate 5 false (Examples.Wt ka 10) l2 [Examples.T ka 2] = Some (Examples.T ka 2)) /\
  (ssorted l3 = true /\ fst (run_stream 5 false no_filter l3) = [Examples.Wt ka 10] /\
   tomb_fate 5 false (Examples.Wt ka 10) l3 [Examples.Wt ka 10] = Some (Examples.Wt ka 10)).
Proof. vm_compute. repeat split; reflexivity. Qed.

(** * 6. The filter is never consulted on a tombstone (result 5) *)

Lemma apply_filter_ext flt flt' e :
  (is_tomb e = false -> flt e = flt' e) -> apply_filter flt e = apply_filter flt' e.
Proof.
  unfold apply_filter. destruct (is_tomb e); [reflexivity|].
  intros H. rewrite (H eq_refl). reflexivity.
Qed.

(** sharper form: agreement is only needed on the non-tombstone entries of the input *)
Theorem cstream_filter_domain_in W evict flt flt' : forall l dr,
  (forall e, In e l -> is_tomb e = false -> flt e = flt' e) ->
  cstream W evict flt dr l = cstream W evict flt' dr l.
Proof.
  induction l as [|e rest IH]; intros dr H; [reflexivity|].
  assert (forall dr', cstream W evict flt dr' rest = cstream W evict flt' dr' rest) as IH'.
  { intros dr'. apply IH. intros x HI. apply H. now right. }
  rewrite !cstream_cons. rewrite (apply_filter_ext flt flt' e) by (apply H; now left).
  destruct (draining evict dr e); [now rewrite IH'|].
  destruct (apply_filter flt' e) as [[h|] lg]; now rewrite IH'.
Qed.

Theorem cstream_filter_domain W evict flt flt' dr l :
  (forall e, is_tomb e = false -> flt e = flt' e) ->
  cstream W evict flt dr l = cstream W evict flt' dr l.
Proof. intros H. apply cstream_filter_domain_in. auto. Qed.

Example cstream_filter_domain_ex :
  let f1 := fun e : entry => if is_tomb e then Drop else Replace Ind [1] in
  let f2 := fun e : entry => Replace Ind [1] in
  let l := [Examples.T Examples.ka 9; Examples.V Examples.ka 8 [3]; Examples.Wt Examples.kb 7] in
  (forall e, is_tomb e = false -> f1 e = f2 e) /\
  run_stream 0 false f1 l = run_stream 0 false f2 l /\
  run_stream 0 false f1 l
  = ([Examples.T Examples.ka 9; mkE Examples.ka 8 Ind [1]; Examples.Wt Examples.kb 7],
     [Examples.V Examples.ka 8 [3]]).
Proof.
  split; [|vm_compute; auto]. intros e H. cbv beta. rewrite H. reflexivity.
Qed.

(** * 7. Accounting: every input entry ends in exactly one place (result 6) *)

(** [h] is the filter's replacement of some logged non-tombstone entry *)
Definition is_repl (flt : entry -> verdict) (log : list entry) (h : entry) : Prop :=
  exists e t v, In e log /\ is_tomb e = false /\ flt e = Replace t v /\
                h = mkE (ukey e) (seq e) t v.

Lemma is_repl_mono flt log log' h :
  incl log log' -> is_repl flt log h -> is_repl flt log' h.
Proof. intros I (e & t & v & A & B). exists e, t, v. split; [apply I; exact A | exact B]. Qed.

Lemma perm_mid (e : entry) l a b : Permutation l (a ++ b) -> Permutation (e :: l) (a ++ e :: b).
Proof. apply Permutation_cons_app. Qed.

Lemma account_gen W evict flt : forall l dr,
  exists kept silent repl,
    Permutation l (kept ++ logs W evict flt dr l ++ silent) /\
    forallb is_tomb silent = true /\
    Permutation (outs W evict flt dr l) (kept ++ repl) /\
    Forall (is_repl flt (logs W evict flt dr l)) repl /\
    subseq kept l.
Proof.
  induction l as [|e rest IH]; intros dr.
  - exists [], [], []. cbn. repeat split; auto. constructor.
  - rewrite outs_cons, logs_cons.
    (* the three ways an entry can be logged without (or with) a replacement *)
    assert (forall dr', exists kept silent repl,
      Permutation (e :: rest) (kept ++ (e :: logs W evict flt dr' rest) ++ silent) /\
      forallb is_tomb silent = true /\
      Permutation (outs W evict flt dr' rest) (kept ++ repl) /\
      Forall (is_repl flt (e :: logs W evict flt dr' rest)) repl /\
      subseq kept (e :: rest)) as Hlogged.
    { intros dr'. destruct (IH dr') as (kept & silent & repl & P1 & TS & P2 & FR & SK).
      exists kept, silent, repl. repeat split; auto.
      - cbn [app]. now apply perm_mid.
      - eapply Forall_impl; [|exact FR]. intros h. apply is_repl_mono. intros x; now right.
      - now apply subseq_skip. }
    destruct (draining evict dr e); [apply Hlogged|].
    destruct (apply_filter_cases flt e) as [AF|[(_ & _ & AF)|(NT & t & v & Hf & AF)]];
      rewrite AF; cbn [fst snd app].
    + (* kept as is, or silently removed (then it is a tombstone) *)
      destruct (IH (snd (emit_dec W evict e rest)))
        as (kept & silent & repl & P1 & TS & P2 & FR & SK).
      destruct (fst (emit_dec W evict e rest)) eqn:B; unfold olist; cbn [app].
      * exists (e :: kept), silent, repl. repeat split; auto.
        -- cbn [app]. now constructor.
        -- cbn [app]. now constructor.
        -- now apply subseq_keep.
      * exists kept, (e :: silent), repl. repeat split; auto.
        -- rewrite app_assoc. apply perm_mid. now rewrite <- app_assoc.
        -- cbn [forallb]. rewrite TS, andb_true_r.
           destruct (is_tomb e) eqn:TB; [reflexivity|].
           rewrite (emit_dec_nontomb W evict e rest TB) in B. discriminate.
        -- now apply subseq_skip.
    + apply Hlogged.
    + (* replaced: logged; the replacement is emitted or silently removed *)
      set (h := mkE (ukey e) (seq e) t v) in *.
      destruct (Hlogged (snd (emit_dec W evict h rest)))
        as (kept & silent & repl & P1 & TS & P2 & FR & SK).
      destruct (fst (emit_dec W evict h rest)); unfold olist; cbn [app].
      * exists kept, silent, (h :: repl). repeat split; auto.
        -- now apply perm_mid.
        -- constructor; [|exact FR]. exists e, t, v. repeat split; auto. now left.
      * exists kept, silent, repl. repeat split; auto.
Qed.

(** Every input entry ends in exactly one of three places: [kept] (emitted unchanged),
    the drop-callback [log], or [silent] (removed without a callback) -- and only
    tombstones are ever removed silently.  The output consists of the kept entries and
    of replacements [mkE (ukey e) (seq e) t v] of logged non-tombstone entries [e] with
    [flt e = Replace t v].  (Holds for every input; sortedness is not needed.) *)
Theorem cstream_log_exact : forall W evict flt l out log,
  run_stream W evict flt l = (out, log) ->
  exists kept silent repl,
    Permutation l (kept ++ log ++ silent) /\
    forallb is_tomb silent = true /\
    Permutation out (kept ++ repl) /\
    Forall (is_repl flt log) repl /\
    subseq kept l.
Proof.
  intros W evict flt l out log HR. apply run_stream_outs in HR. destruct HR as [-> ->].
  apply account_gen.
Qed.

Lemma vtype_eq_dec (a b : vtype) : {a = b} + {a <> b}.
Proof. decide equality. Defined.

Lemma entry_eq_dec (a b : entry) : {a = b} + {a <> b}.
Proof.
  decide equality; try apply (list_eq_dec N.eq_dec); try apply N.eq_dec;
    try apply vtype_eq_dec.
Defined.

Lemma NoDup_app_r' {A} (a b : list A) : NoDup (a ++ b) -> NoDup b.
Proof.
  induction a as [|y a IH]; intros ND; [exact ND|].
  cbn [app] in ND. inversion ND; subst. auto.
Qed.

Lemma NoDup_app_l' {A} (a b : list A) : NoDup (a ++ b) -> NoDup a.
Proof.
  induction a as [|y a IH]; intros ND; [constructor|].
  cbn [app] in ND. inversion ND as [|? ? NI ND']; subst. constructor; auto.
  intros HI. apply NI. apply in_or_app. now left.
Qed.

Lemma NoDup_app_disj (a b : list entry) x : NoDup (a ++ b) -> In x a -> In x b -> False.
Proof.
  induction a as [|y a IH]; intros ND HA HB; [contradiction|].
  cbn [app] in ND. inversion ND as [|? ? NI ND']; subst.
  destruct HA as [->|HA].
  - apply NI. apply in_or_app. now right.
  - eauto.
Qed.

(** the consequence needed for blob GC: a non-tombstone input entry is either emitted
    unchanged and never reported, or reported exactly once -- and then anything emitted
    under its internal key is the filter's replacement of it *)
Theorem cstream_log_exact_nontomb : forall W evict flt l out log, ssorted l = true ->
  run_stream W evict flt l = (out, log) ->
  forall e, In e l -> is_tomb e = false ->
  (In e out /\ ~ In e log) \/
  (count_occ entry_eq_dec log e = 1%nat /\
   forall h, In h out -> ukey h = ukey e -> seq h = seq e ->
             exists t v, flt e = Replace t v /\ h = mkE (ukey e) (seq e) t v).
Proof.
  intros W evict flt l out log HS HR e HI NT.
  destruct (cstream_log_exact _ _ _ _ _ _ HR) as (kept & silent & repl & P1 & TS & P2 & FR & _).
  pose proof (Permutation_NoDup P1 (ssorted_NoDup _ HS)) as ND.
  pose proof (ssorted_uniq _ HS) as U.
  assert (forall x, In x kept -> In x l) as KL.
  { intros x Hx. eapply Permutation_in; [apply Permutation_sym; exact P1|].
    apply in_or_app. now left. }
  assert (forall x, In x log -> In x l) as LL.
  { intros x Hx. eapply Permutation_in; [apply Permutation_sym; exact P1|].
    apply in_or_app. right. apply in_or_app. now left. }
  pose proof (Permutation_in _ P1 HI) as HI'.
  apply in_app_or in HI'. destruct HI' as [HK|HI'].
  - left. split.
    + eapply Permutation_in; [apply Permutation_sym; exact P2|]. apply in_or_app. now left.
    + intros HL. eapply (NoDup_app_disj _ _ e ND HK). apply in_or_app. now left.
  - apply in_app_or in HI'. destruct HI' as [HL|HSil].
    + right. split.
      * apply NoDup_count_occ'; [|exact HL].
        eapply NoDup_app_l'. eapply NoDup_app_r'. exact ND.
      * intros h Hh Hk Hs. pose proof (Permutation_in _ P2 Hh) as Hh'.
        apply in_app_or in Hh'. destruct Hh' as [Hh'|Hh'].
        -- exfalso. assert (h = e) as -> by (apply U; auto).
           eapply (NoDup_app_disj _ _ e ND Hh'). apply in_or_app. now left.
        -- rewrite Forall_forall in FR. destruct (FR h Hh') as (e0 & t & v & A & B & C & D).
           assert (e0 = e) as ->.
           { apply U; auto; rewrite D in Hk, Hs; cbn in Hk, Hs; auto. }
           exists t, v. auto.
    + exfalso. rewrite forallb_forall in TS. rewrite (TS e HSil) in NT. discriminate.
Qed.

(** counting form, for arbitrary (also unsorted, also duplicate-carrying) input *)
Theorem cstream_log_count : forall W evict flt l out log,
  run_stream W evict flt l = (out, log) ->
  exists kept, subseq kept l /\ incl kept out /\
  forall e, is_tomb e = false ->
    count_occ entry_eq_dec l e
    = (count_occ entry_eq_dec kept e + count_occ entry_eq_dec log e)%nat.
Proof.
  intros W evict flt l out log HR.
  destruct (cstream_log_exact _ _ _ _ _ _ HR) as (kept & silent & repl & P1 & TS & P2 & _ & SK).
  exists kept. split; [exact SK|]. split.
  - intros x Hx. eapply Permutation_in; [apply Permutation_sym; exact P2|].
    apply in_or_app. now left.
  - intros e NT.
    rewrite (proj1 (Permutation_count_occ entry_eq_dec _ _) P1 e), !count_occ_app.
    assert (count_occ entry_eq_dec silent e = 0%nat) as ->.
    { apply count_occ_not_In. intros HI. rewrite forallb_forall in TS.
      rewrite (TS e HI) in NT. discriminate. }
    lia.
Qed.

Example cstream_log_exact_ex :
  let ka := Examples.ka in
  let flt := fun e : entry => if seq e =? 9 then Replace Ind [7] else Keep in
  let l := [Examples.V ka 9 [1]; Examples.V ka 8 [2]; Examples.Wt ka 7; Examples.V ka 3 [3];
            Examples.V ka 2 [4]; Examples.T Examples.kb 5] in
  ssorted l = true /\
  run_stream 5 true flt l
  = ([mkE ka 9 Ind [7]; Examples.V ka 8 [2]; Examples.V ka 2 [4]],
     [Examples.V ka 9 [1]; Examples.V ka 3 [3]]).
  (* kept = [V a 8; V a 2]; log as shown; silent = [W a 7; T b 5]; repl = [Ind a 9];
     the weak tombstone W a 7 cancels exactly V a 3 *)
Proof. vm_compute. auto. Qed.

(** * 8. The merge of several sources *)

Lemma ins_sorted_perm e l : Permutation (ins_sorted e l) (e :: l).
Proof.
  induction l as [|x l IH]; cbn [ins_sorted]; [apply Permutation_refl|].
  destruct (ikey_ltb x e || ikey_eqb x e); [|apply Permutation_refl].
  eapply perm_trans; [apply perm_skip; exact IH | apply perm_swap].
Qed.

Lemma fold_ins_perm src acc : Permutation (fold_right ins_sorted acc src) (src ++ acc).
Proof.
  induction src as [|e s IH]; cbn [fold_right app]; [apply Permutation_refl|].
  eapply perm_trans; [apply ins_sorted_perm | apply perm_skip; exact IH].
Qed.

Theorem merge_sorted_perm srcs : Permutation (merge_sorted srcs) (concat srcs).
Proof.
  induction srcs as [|s r IH]; [apply Permutation_refl|].
  unfold merge_sorted in *. cbn [fold_right concat].
  eapply perm_trans; [apply fold_ins_perm | apply Permutation_app_head; exact IH].
Qed.

(** the internal key *)
Definition ik (e : entry) : key * N := (ukey e, seq e).

Lemma ins_sorted_ssorted e l :
  ssorted l = true -> (forall x, In x l -> ik x <> ik e) -> ssorted (ins_sorted e l) = true.
Proof.
  induction l as [|x l IH]; intros HS HD; [reflexivity|].
  cbn [ins_sorted]. destruct (ikey_ltb x e) eqn:L; cbn [orb].
  - apply ssorted_cons. split.
    + apply Forall_forall. intros y Hy.
      apply (Permutation_in _ (ins_sorted_perm e l)) in Hy. destruct Hy as [<-|Hy]; [exact L|].
      eapply ssorted_head_lt; eauto.
    + apply IH; [eapply ssorted_tail; eauto|]. intros y Hy. apply HD. now right.
  - destruct (ikey_eqb x e) eqn:Q.
    + exfalso. apply ikey_eqb_spec in Q. destruct Q as [Qk Qs].
      apply (HD x (or_introl eq_refl)). unfold ik. congruence.
    + pose proof (ikey_total _ _ L Q) as L'. apply ssorted_cons. split; [|exact HS].
      constructor; [exact L'|]. apply Forall_forall. intros y Hy.
      eapply ikey_ltb_trans; [exact L'|]. eapply ssorted_head_lt; eauto.
Qed.

Lemma fold_ins_ssorted src : forall acc,
  ssorted acc = true -> NoDup (map ik (src ++ acc)) ->
  ssorted (fold_right ins_sorted acc src) = true.
Proof.
  induction src as [|e s IH]; intros acc HS ND; [exact HS|].
  cbn [fold_right app map] in *. inversion ND as [|? ? NI ND']; subst.
  apply ins_sorted_ssorted; [apply IH; auto|].
  intros x Hx E. apply NI. rewrite <- E. apply in_map.
  eapply Permutation_in; [apply fold_ins_perm | exact Hx].
Qed.

(** insertion-based merge: the result is strictly sorted as soon as all internal keys
    are pairwise distinct (the sources need not even be sorted) *)
Theorem merge_sorted_sorted_nodup srcs :
  NoDup (map ik (concat srcs)) -> ssorted (merge_sorted srcs) = true.
Proof.
  induction srcs as [|s r IH]; intros ND; [reflexivity|].
  cbn [concat] in ND.
  assert (ssorted (merge_sorted r) = true) as HS.
  { apply IH. rewrite map_app in ND. eapply NoDup_app_r'; eauto. }
  unfold merge_sorted in *. cbn [fold_right]. apply fold_ins_ssorted; [exact HS|].
  eapply Permutation_NoDup; [|exact ND].
  apply Permutation_map. apply Permutation_app_head. apply Permutation_sym.
  apply (merge_sorted_perm r).
Qed.

Lemma NoDup_app_intro {A} (a b : list A) :
  NoDup a -> NoDup b -> (forall x, In x a -> In x b -> False) -> NoDup (a ++ b).
Proof.
  induction a as [|y a IH]; intros NA NB D; [exact NB|].
  cbn [app]. inversion NA as [|? ? NI NA']; subst. constructor.
  - intros HI. apply in_app_or in HI. destruct HI as [HI|HI]; [auto|].
    apply (D y); [now left | exact HI].
  - apply IH; auto. intros x HA HB. apply (D x); [now right | exact HB].
Qed.

Lemma ssorted_NoDup_ik l : ssorted l = true -> NoDup (map ik l).
Proof.
  induction l as [|e l IH]; intros HS; cbn [map]; constructor.
  - intros HI. apply in_map_iff in HI. destruct HI as (x & E & HI).
    pose proof (ssorted_head_lt _ _ _ HS HI) as L.
    unfold ik in E. injection E as Ek Es.
    rewrite ikey_ltb_irrefl' in L; [discriminate | congruence | congruence].
  - apply IH. eapply ssorted_tail; eauto.
Qed.

(** internal keys pairwise distinct across sources *)
Fixpoint disjoint_srcs (srcs : list (list entry)) : Prop :=
  match srcs with
  | [] => True
  | s :: r => (forall a b, In a s -> In b (concat r) -> ik a <> ik b) /\ disjoint_srcs r
  end.

Lemma srcs_NoDup_ik srcs :
  Forall (fun s => ssorted s = true) srcs -> disjoint_srcs srcs ->
  NoDup (map ik (concat srcs)).
Proof.
  induction srcs as [|s r IH]; intros HF HD; [constructor|].
  cbn [concat]. rewrite map_app. inversion HF as [|? ? Hs Hr]; subst.
  destruct HD as [HD1 HD2]. apply NoDup_app_intro.
  - now apply ssorted_NoDup_ik.
  - auto.
  - intros x HA HB. apply in_map_iff in HA, HB.
    destruct HA as (a & <- & HA), HB as (b & E & HB). apply (HD1 a b HA HB). congruence.
Qed.

Theorem merge_sorted_sorted srcs :
  Forall (fun s => ssorted s = true) srcs -> disjoint_srcs srcs ->
  ssorted (merge_sorted srcs) = true.
Proof. intros HF HD. apply merge_sorted_sorted_nodup. now apply srcs_NoDup_ik. Qed.

Example merge_sorted_ex :
  let ka := Examples.ka in let kb := Examples.kb in
  let s1 := [Examples.V ka 9 [1]; Examples.V kb 4 [2]] in
  let s2 := [Examples.T ka 10; Examples.V ka 3 [3]; Examples.V kb 7 [4]] in
  ssorted s1 = true /\ ssorted s2 = true /\
  merge_sorted [s1; s2]
  = [Examples.T ka 10; Examples.V ka 9 [1]; Examples.V ka 3 [3]; Examples.V kb 7 [4];
     Examples.V kb 4 [2]].
Proof. vm_compute. auto. Qed.

(** * 9. Per-key locality and the single-delete discipline *)

(** the versions of key [k], newest first *)
Definition kents (k : key) (l : list entry) : list entry :=
  filter (fun e => key_eqb (ukey e) k) l.

Lemma kents_cons k e l :
  kents k (e :: l) = if key_eqb (ukey e) k then e :: kents k l else kents k l.
Proof. reflexivity. Qed.

Lemma kents_app k a b : kents k (a ++ b) = kents k a ++ kents k b.
Proof.
  induction a as [|x a IH]; [reflexivity|]. cbn [app]. rewrite !kents_cons, IH.
  destruct (key_eqb (ukey x) k); reflexivity.
Qed.

Lemma kents_in k l x : In x (kents k l) <-> In x l /\ ukey x = k.
Proof. unfold kents. rewrite filter_In, key_eqb_eq. tauto. Qed.

Lemma kents_nil k l : (forall x, In x l -> ukey x <> k) -> kents k l = [].
Proof.
  induction l as [|e l IH]; intros H; [reflexivity|]. rewrite kents_cons.
  assert (key_eqb (ukey e) k = false) as -> by (apply key_eqb_neq; apply H; now left).
  apply IH. intros x HI. apply H. now right.
Qed.

Lemma kents_subseq k l : subseq (kents k l) l.
Proof.
  induction l as [|e l IH]; [constructor|]. rewrite kents_cons.
  destruct (key_eqb (ukey e) k); [now apply subseq_keep | now apply subseq_skip].
Qed.

Lemma kents_ssorted k l : ssorted l = true -> ssorted (kents k l) = true.
Proof. apply subik_ssorted. apply subseq_subik, kents_subseq. Qed.

(** the mode as seen by the versions of key [k] *)
Definition dr_for (k : key) (dr : dmode) (l : list entry) : dmode :=
  match dr with
  | DropNext => match l with
                | e :: _ => if key_eqb (ukey e) k then DropNext else NoDrain
                | [] => NoDrain
                end
  | d => d
  end.

Lemma outs_drain_irrelevant W evict flt k' xs :
  (forall x, In x xs -> ukey x <> k') ->
  outs W evict flt (Drain k') xs = outs W evict flt NoDrain xs.
Proof.
  destruct xs as [|x r]; intros H; [reflexivity|]. rewrite !outs_cons. cbn [draining].
  assert (key_eqb (ukey x) k' = false) as -> by (apply key_eqb_neq; apply H; now left).
  reflexivity.
Qed.

Lemma emit_dec_kents W evict e h rest k :
  ssorted (e :: rest) = true -> ukey h = ukey e -> ukey e = k ->
  emit_dec W evict h (kents k rest) =
  (fst (emit_dec W evict h rest), dr_for k (snd (emit_dec W evict h rest)) rest).
Proof.
  intros HS Ek E. destruct rest as [|p r]; [reflexivity|].
  destruct (key_ltb (ukey h) (ukey p)) eqn:KL.
  - assert (kents k (p :: r) = []) as ->.
    { apply kents_nil. intros x HI Xk. key_prop.
      assert (key_lt (ukey h) (ukey x)) as L.
      { eapply key_lt_le_trans; [exact KL|].
        eapply ssorted_key_le; [eapply ssorted_tail; eauto | exact HI]. }
      rewrite Ek, E, Xk in L. now apply key_lt_irrefl in L. }
    unfold emit_dec. rewrite KL. reflexivity.
  - pose proof (ssorted_peek_same_key _ _ _ _ HS Ek KL) as Ep.
    assert (key_eqb (ukey p) k = true) as Kp by (apply key_eqb_eq; congruence).
    rewrite kents_cons, Kp. unfold emit_dec. rewrite KL.
    destruct (seq p <? W); [|reflexivity].
    destruct (is_strong_tomb h && evict); [reflexivity|].
    destruct (is_val p && is_weak_tomb h); cbn [fst snd dr_for]; rewrite ?Kp; reflexivity.
Qed.

(** the stream treats every key independently: its output restricted to key [k] is its
    output on the versions of [k] alone *)
Lemma key_local_gen W evict flt k : forall l dr,
  ssorted l = true -> dr_ok dr l ->
  kents k (outs W evict flt dr l) = outs W evict flt (dr_for k dr l) (kents k l).
Proof.
  induction l as [|e rest IH]; intros dr HS OK.
  - destruct dr; reflexivity.
  - pose proof (ssorted_tail _ _ HS) as HS'.
    assert (forall k', (k' = k -> forall x, In x rest -> ukey x <> k) ->
            outs W evict flt (Drain k') (kents k rest) = outs W evict flt NoDrain (kents k rest))
      as Hirr.
    { intros k' Hk'. apply outs_drain_irrelevant. intros x HI E.
      apply kents_in in HI. destruct HI as [HI Xk].
      apply (Hk' (eq_trans (eq_sym E) Xk) x HI Xk). }
    rewrite outs_cons, kents_cons.
    destruct (draining evict dr e) eqn:D.
    + rewrite (IH _ HS' (dr_ok_tail _ _ _ OK)).
      destruct (key_eqb (ukey e) k) eqn:K.
      * destruct dr as [|k'|]; [discriminate| |].
        -- cbn [dr_for after_drop]. rewrite outs_cons, D. reflexivity.
        -- cbn [dr_for]. rewrite K. rewrite outs_cons. reflexivity.
      * destruct dr as [|k'|]; [discriminate| |].
        -- reflexivity.
        -- cbn [dr_for after_drop]. rewrite K. reflexivity.
    + assert (dr_for k dr (e :: rest) = dr) as ->
          by (destruct dr; [reflexivity | reflexivity | discriminate]).
      assert (ukey e <> k ->
              outs W evict flt dr (kents k rest) = outs W evict flt NoDrain (kents k rest)) as Hdr.
      { intros NE. destruct dr as [|k'|]; [reflexivity| |discriminate].
        apply Hirr. intros -> x HI Xk.
        pose proof (OK e (or_introl eq_refl)) as LE. apply key_le_lteq in LE.
        destruct LE as [LT|EQ]; [|congruence].
        assert (key_lt k (ukey x)) as L.
        { eapply key_lt_le_trans; [exact LT|]. eapply ssorted_key_le; eauto. now right. }
        rewrite Xk in L. now apply key_lt_irrefl in L. }
      destruct (fst (apply_filter flt e)) as [h|] eqn:AF.
      * destruct (apply_filter_some _ _ _ AF) as [Ek Es].
        destruct (emit_dec_inv W evict e h rest HS Ek) as (OK' & _ & DN).
        rewrite kents_app, (IH _ HS' OK').
        destruct (key_eqb (ukey e) k) eqn:K.
        -- key_prop. rewrite outs_cons, D, AF.
           rewrite (emit_dec_kents W evict e h rest k HS Ek K). cbn [fst snd].
           f_equal. unfold olist. destruct (fst (emit_dec W evict h rest)); [|reflexivity].
           rewrite kents_cons.
           assert (key_eqb (ukey h) k = true) as -> by (apply key_eqb_eq; congruence).
           reflexivity.
        -- key_prop.
           assert (kents k (olist (fst (emit_dec W evict h rest)) h) = []) as ->.
           { apply kents_nil. unfold olist. destruct (fst (emit_dec W evict h rest)).
             - intros x [<-|[]]. congruence.
             - intros x []. }
           cbn [app]. rewrite (Hdr K).
           destruct (emit_dec_dr W evict h rest) as [Hd|[Hd|Hd]]; rewrite Hd.
           ++ reflexivity.
           ++ cbn [dr_for]. apply Hirr. intros E. congruence.
           ++ destruct (DN Hd) as (_ & p & r & -> & Ep & _). cbn [dr_for].
              assert (key_eqb (ukey p) k = false) as -> by (apply key_eqb_neq; congruence).
              reflexivity.
      * rewrite (IH NoDrain HS' I). cbn [dr_for].
        destruct (key_eqb (ukey e) k) eqn:K.
        -- rewrite outs_cons, D, AF. reflexivity.
        -- key_prop. symmetry. apply Hdr. exact K.
Qed.

Theorem cstream_key_local : forall W evict flt l k, ssorted l = true ->
  kents k (fst (run_stream W evict flt l)) = fst (run_stream W evict flt (kents k l)).
Proof.
  intros W evict flt l k HS. unfold run_stream.
  apply (key_local_gen W evict flt k l NoDrain HS I).
Qed.

(** ** The single-delete discipline *)

(** weak tombstone or (inline / separated) value *)
Definition wv (e : entry) : bool := is_weak_tomb e || is_val e.

(** newest first: weak tombstones and non-tombstones strictly alternate; no strong
    tombstone occurs *)
Fixpoint alternating (xs : list entry) : bool :=
  match xs with
  | [] => true
  | x :: r =>
      wv x
      && match r with
         | [] => true
         | y :: _ => negb (Bool.eqb (is_weak_tomb x) (is_weak_tomb y))
         end
      && alternating r
  end.

Fixpoint last_value (xs : list entry) : bool :=
  match xs with
  | [] => false
  | x :: r => match r with [] => is_val x | _ :: _ => last_value r end
  end.

(** what the stream does to a disciplined key history [xs], giving [o]:
    entries are kept, adjacent (weak tombstone, value) pairs are cancelled; only with
    [evict] (last level): everything below a kept value may be collected, and a final
    weak tombstone is removed *)
Inductive wred (evict : bool) : list entry -> list entry -> Prop :=
| wr_nil : wred evict [] []
| wr_keep x o xs : wred evict o xs -> wred evict (x :: o) (x :: xs)
| wr_pair w v o xs : is_weak_tomb w = true -> is_val v = true ->
    wred evict o xs -> wred evict o (w :: v :: xs)
| wr_drain x xs : evict = true -> is_val x = true -> wred evict [x] (x :: xs)
| wr_last w : evict = true -> is_weak_tomb w = true -> wred evict [] [w].

Lemma wv_cases x : wv x = true -> is_val x = true \/ is_weak_tomb x = true.
Proof. unfold wv. intros H. apply orb_true_iff in H. tauto. Qed.

Lemma val_facts x : is_val x = true ->
  is_weak_tomb x = false /\ is_tomb x = false /\ is_strong_tomb x = false.
Proof.
  unfold is_val, is_weak_tomb, is_tomb, is_strong_tomb.
  destruct (ty x); cbn; try discriminate; auto.
Qed.

Lemma weak_facts x : is_weak_tomb x = true ->
  is_val x = false /\ is_tomb x = true /\ is_strong_tomb x = false.
Proof.
  unfold is_val, is_weak_tomb, is_tomb, is_strong_tomb.
  destruct (ty x); cbn; try discriminate; auto.
Qed.

Lemma alt_cons_inv1 x r : alternating (x :: r) = true -> wv x = true /\ alternating r = true.
Proof.
  cbn [alternating]. intros H. apply andb_true_iff in H. destruct H as [H H2].
  apply andb_true_iff in H. destruct H as [H1 _]. auto.
Qed.

Lemma alt_cons_inv x y r :
  alternating (x :: y :: r) = true ->
  alternating (y :: r) = true /\
  ((is_val x = true /\ is_weak_tomb y = true) \/ (is_weak_tomb x = true /\ is_val y = true)).
Proof.
  intros H. destruct (alt_cons_inv1 _ _ H) as [Wx HA]. split; [exact HA|].
  destruct (alt_cons_inv1 _ _ HA) as [Wy _].
  change (alternating (x :: y :: r))
    with (wv x && negb (Bool.eqb (is_weak_tomb x) (is_weak_tomb y)) && alternating (y :: r)) in H.
  apply andb_true_iff in H. destruct H as [H _]. apply andb_true_iff in H. destruct H as [_ H].
  destruct (wv_cases _ Wx) as [Ex|Ex], (wv_cases _ Wy) as [Ey|Ey]; auto.
  - destruct (val_facts _ Ex) as (Ax & _), (val_facts _ Ey) as (Ay & _).
    rewrite Ax, Ay in H. discriminate.
  - rewrite Ex, Ey in H. discriminate.
Qed.

Lemma alt_cons_intro x z :
  wv x = true -> alternating z = true ->
  (forall y t, z = y :: t -> is_weak_tomb x <> is_weak_tomb y) -> alternating (x :: z) = true.
Proof.
  intros Wx HA H. cbn [alternating]. rewrite Wx, HA, andb_true_r. cbn [andb].
  destruct z as [|y t]; [reflexivity|]. specialize (H y t eq_refl).
  destruct (is_weak_tomb x), (is_weak_tomb y); try reflexivity; congruence.
Qed.

Lemma alt_app_l a b : alternating (a ++ b) = true -> alternating a = true.
Proof.
  induction a as [|x a IH]; [reflexivity|]. cbn [app]. intros H.
  destruct (alt_cons_inv1 _ _ H) as [Wx HA]. specialize (IH HA).
  apply alt_cons_intro; auto. intros y t ->. cbn [app] in H.
  destruct (alt_cons_inv _ _ _ H) as [_ [[Ex Ey]|[Ex Ey]]].
  - destruct (val_facts _ Ex) as (-> & _). rewrite Ey. discriminate.
  - destruct (val_facts _ Ey) as (-> & _). rewrite Ex. discriminate.
Qed.

Lemma outs_drain_all W flt k xs :
  (forall x, In x xs -> ukey x = k) -> outs W true flt (Drain k) xs = [].
Proof.
  induction xs as [|x r IH]; intros H; [reflexivity|]. rewrite outs_cons. cbn [draining orb].
  assert (key_eqb (ukey x) k = true) as -> by (apply key_eqb_eq; apply H; now left).
  cbn [andb after_drop]. apply IH. intros y Hy. apply H. now right.
Qed.

Lemma outs_drain_stops W flt k p r :
  is_weak_tomb p = true ->
  outs W false flt (Drain k) (p :: r) = outs W false flt NoDrain (p :: r).
Proof.
  intros Hw. rewrite !outs_cons. cbn [draining orb]. rewrite Hw. cbn [negb].
  rewrite andb_false_r. reflexivity.
Qed.

Lemma key_ltb_irrefl k : key_ltb k k = false.
Proof. unfold key_ltb. now rewrite key_cmp_refl. Qed.

(** the stream on a disciplined single-key history *)
Lemma weak_single W evict k : forall n xs, (length xs <= n)%nat ->
  ssorted xs = true -> (forall x, In x xs -> ukey x = k) -> alternating xs = true ->
  wred evict (outs W evict no_filter NoDrain xs) xs.
Proof.
  induction n as [|n IH]; intros xs Hlen HS HK HA.
  - destruct xs; [constructor | cbn in Hlen; lia].
  - destruct xs as [|x rest]; [constructor|].
    rewrite outs_cons. cbn [draining]. rewrite apply_filter_no_filter. cbn [fst].
    destruct rest as [|p r].
    + unfold emit_dec. cbn [fst snd]. rewrite outs_nil, app_nil_r.
      destruct (alt_cons_inv1 _ _ HA) as [Wx _].
      destruct (wv_cases _ Wx) as [Ex|Ex].
      * destruct (val_facts _ Ex) as (_ & -> & _). cbn. apply wr_keep, wr_nil.
      * destruct (weak_facts _ Ex) as (_ & -> & _). destruct evict; cbn.
        -- now apply wr_last.
        -- apply wr_keep, wr_nil.
    + destruct (alt_cons_inv _ _ _ HA) as [HA' Kinds].
      pose proof (ssorted_tail _ _ HS) as HS'.
      assert (forall y, In y (p :: r) -> ukey y = k) as HK' by (intros y Hy; apply HK; now right).
      assert (ukey x = k) as Kx by (apply HK; now left).
      assert (ukey p = k) as Kp by (apply HK'; now left).
      cbn [length] in Hlen.
      unfold emit_dec. rewrite Kx, Kp, key_ltb_irrefl.
      destruct (seq p <? W).
      * destruct Kinds as [[Ex Ep]|[Ex Ep]].
        -- (* value over an expired weak tombstone *)
           destruct (val_facts _ Ex) as (Wx & _ & ->).
           destruct (weak_facts _ Ep) as (-> & _ & _). cbn [andb fst snd olist app].
           destruct evict.
           ++ rewrite outs_drain_all; [|exact HK']. now apply wr_drain.
           ++ rewrite (outs_drain_stops W no_filter k p r Ep).
              apply wr_keep. apply IH; auto. cbn [length]. lia.
        -- (* weak tombstone over an expired value: exactly the pair goes *)
           destruct (weak_facts _ Ex) as (_ & _ & ->). rewrite Ep, Ex.
           cbn [andb fst snd olist app]. rewrite outs_cons. cbn [draining after_drop].
           apply wr_pair; auto. apply IH.
           ++ lia.
           ++ eapply ssorted_tail; eauto.
           ++ intros y Hy. apply HK'. now right.
           ++ now destruct (alt_cons_inv1 _ _ HA').
      * cbn [fst snd olist app]. apply wr_keep. apply IH; auto. cbn [length]. lia.
Qed.

Lemma wred_subseq evict o xs : wred evict o xs -> subseq o xs.
Proof.
  induction 1.
  - constructor.
  - now apply subseq_keep.
  - now apply subseq_skip, subseq_skip.
  - apply subseq_keep, subseq_nil_l.
  - apply subseq_skip, subseq_nil.
Qed.

(** head shape: the output starts like the input, up to cancelled pairs *)
Definition hk (o xs : list entry) : Prop :=
  match xs with
  | [] => o = []
  | x :: _ => if is_val x then exists t, o = x :: t
              else o = [] \/ exists w t, o = w :: t /\ is_weak_tomb w = true
  end.

Lemma hk_refl z : alternating z = true -> hk z z.
Proof.
  destruct z as [|x t]; [reflexivity|]. intros HA. cbn [hk].
  destruct (alt_cons_inv1 _ _ HA) as [Wx _]. destruct (wv_cases _ Wx) as [Ex|Ex].
  - rewrite Ex. eauto.
  - destruct (weak_facts _ Ex) as (-> & _). right. eauto.
Qed.

Lemma wred_alt evict o xs : wred evict o xs ->
  forall d, alternating (xs ++ d) = true -> (evict = true -> d = []) ->
  alternating (o ++ d) = true /\ hk (o ++ d) (xs ++ d).
Proof.
  induction 1 as [|x o xs HR IH|w v o xs Hw Hv HR IH|x xs Hev Hv|w Hev Hw]; intros d HA Hd.
  - cbn [app] in *. split; [exact HA | now apply hk_refl].
  - cbn [app] in *. destruct (alt_cons_inv1 _ _ HA) as [Wx HA'].
    destruct (IH d HA' Hd) as [A1 A2]. split.
    + apply alt_cons_intro; auto. intros y t Ey.
      destruct (xs ++ d) as [|z zs] eqn:Z.
      * cbn [hk] in A2. rewrite A2 in Ey. discriminate.
      * destruct (alt_cons_inv _ _ _ HA) as [_ Kinds]. cbn [hk] in A2.
        destruct Kinds as [[Ex Ez]|[Ex Ez]].
        -- destruct (weak_facts _ Ez) as (Vz & _). rewrite Vz in A2.
           destruct (val_facts _ Ex) as (-> & _).
           destruct A2 as [A2|(w & t' & A2 & Hw)]; rewrite A2 in Ey; [discriminate|].
           injection Ey as <- _. rewrite Hw. discriminate.
        -- rewrite Ez in A2. destruct A2 as (t' & A2). rewrite A2 in Ey. injection Ey as <- _.
           destruct (val_facts _ Ez) as (-> & _). rewrite Ex. discriminate.
    + cbn [hk]. destruct (wv_cases _ Wx) as [Ex|Ex].
      * rewrite Ex. eauto.
      * destruct (weak_facts _ Ex) as (-> & _). right. eauto.
  - cbn [app] in *. destruct (alt_cons_inv _ _ _ HA) as [HA1 _].
    destruct (alt_cons_inv1 _ _ HA1) as [_ HA2].
    destruct (IH d HA2 Hd) as [A1 A2]. split; [exact A1|].
    cbn [hk]. destruct (weak_facts _ Hw) as (-> & _).
    destruct (xs ++ d) as [|z zs] eqn:Z.
    * left. exact A2.
    * cbn [hk] in A2. destruct (alt_cons_inv _ _ _ HA1) as [_ [[_ Ez]|[Ev _]]].
      -- destruct (weak_facts _ Ez) as (Vz & _). rewrite Vz in A2. exact A2.
      -- destruct (weak_facts _ Ev) as (Vv & _). rewrite Vv in Hv. discriminate.
  - rewrite (Hd Hev) in *. rewrite app_nil_r in *. cbn [app].
    destruct (alt_cons_inv1 _ _ HA) as [Wx _]. split.
    + cbn [alternating]. rewrite Wx. reflexivity.
    + cbn [hk]. rewrite Hv. eauto.
  - rewrite (Hd Hev) in *. cbn [app]. split; [reflexivity|].
    cbn [hk]. destruct (weak_facts _ Hw) as (-> & _). now left.
Qed.

Lemma hk_visible o xs :
  hk o xs -> alternating xs = true -> visible (hd_error o) = visible (hd_error xs).
Proof.
  destruct xs as [|x t]; cbn [hk]; [intros ->; reflexivity|]. intros H HA.
  destruct (alt_cons_inv1 _ _ HA) as [Wx _]. destruct (wv_cases _ Wx) as [Ex|Ex].
  - rewrite Ex in H. destruct H as (t' & ->). reflexivity.
  - destruct (weak_facts _ Ex) as (Vx & Tx & _). rewrite Vx in H. cbn [hd_error visible].
    rewrite Tx. destruct H as [->|(w & t' & -> & Hw)]; [reflexivity|].
    cbn [hd_error visible]. destruct (weak_facts _ Hw) as (_ & -> & _). reflexivity.
Qed.

Lemma wred_empty evict o xs :
  wred evict o xs -> o = [] -> xs = [] \/ evict = true \/ last_value xs = true.
Proof.
  induction 1 as [|x o xs HR IH|w v o xs Hw Hv HR IH|x xs Hev Hv|w Hev Hw]; intros E.
  - now left.
  - discriminate.
  - right. destruct (IH E) as [->|[H|H]].
    + right. exact Hv.
    + now left.
    + right. destruct xs as [|y ys]; [discriminate|]. exact H.
  - discriminate.
  - right; now left.
Qed.

(** the exact effect of the stream on a disciplined key *)
Theorem cstream_weak_red : forall W evict l out log k, ssorted l = true ->
  run_stream W evict no_filter l = (out, log) -> alternating (kents k l) = true ->
  wred evict (kents k out) (kents k l).
Proof.
  intros W evict l out log k HS HR HA. apply run_stream_outs in HR. destruct HR as [-> _].
  rewrite (key_local_gen W evict no_filter k l NoDrain HS I). cbn [dr_for].
  apply (weak_single W evict k (length (kents k l))); auto.
  - now apply kents_ssorted.
  - intros x HI. now apply kents_in in HI.
Qed.

(** in a sorted list, a snapshot above all versions of [k] reads the first version of [k] *)
Lemma newest_hd k S o :
  ssorted o = true -> (forall e, In e o -> ukey e = k -> seq e < S) ->
  newest k S o = hd_error (kents k o).
Proof.
  intros HS HSn. rewrite newest_filter_key. fold (kents k o).
  pose proof (kents_ssorted k o HS) as HS'.
  assert (forall x, In x (kents k o) -> ukey x = k /\ seq x < S) as HK.
  { intros x HI. apply kents_in in HI. destruct HI. auto. }
  destruct (kents k o) as [|y r]; [reflexivity|]. cbn [hd_error].
  destruct (HK y (or_introl eq_refl)) as [Yk Ys].
  apply newest_head; auto. intros x XI Xk.
  eapply ssorted_same_key_seq; eauto. congruence.
Qed.

(** (b) single delete: a disciplined key keeps its reading, keeps the discipline, and
    vanishes completely only at the last level or when its pairs cancel completely
    ([is_val x = negb (is_tomb x)]) *)
Theorem cstream_weak_top : forall W evict l out log k, ssorted l = true ->
  run_stream W evict no_filter l = (out, log) -> alternating (kents k l) = true ->
  subseq (kents k out) (kents k l) /\
  alternating (kents k out) = true /\
  hk (kents k out) (kents k l) /\
  (kents k out = [] -> kents k l = [] \/ evict = true \/ last_value (kents k l) = true) /\
  (forall S, (forall e, In e l -> ukey e = k -> seq e < S) ->
     match kents k l with
     | [] => newest k S out = None
     | x :: _ => if negb (is_tomb x) then newest k S out = Some x
                 else visible (newest k S out) = None
     end).
Proof.
  intros W evict l out log k HS HR HA.
  pose proof (cstream_weak_red _ _ _ _ _ k HS HR HA) as RED.
  assert (evict = true -> @nil entry = []) as Hnil by reflexivity.
  pose proof (wred_alt _ _ _ RED [] ) as ALT. rewrite !app_nil_r in ALT.
  destruct (ALT HA Hnil) as [A1 A2].
  split; [eapply wred_subseq; eauto|]. split; [exact A1|]. split; [exact A2|].
  split; [intros E; eapply wred_empty; eauto|].
  intros S HSn.
  assert (newest k S out = hd_error (kents k out)) as ->.
  { apply newest_hd; [eapply cstream_out_sorted; eauto|].
    intros e HI. apply HSn. eapply cstream_out_in; eauto. }
  destruct (kents k l) as [|x t] eqn:KL; cbn [hk] in A2.
  - rewrite A2. reflexivity.
  - change (negb (is_tomb x)) with (is_val x). destruct (is_val x) eqn:Vx.
    + destruct A2 as (t' & ->). reflexivity.
    + destruct A2 as [->|(w & t' & -> & Hw)]; [reflexivity|]. cbn [hd_error visible].
      destruct (weak_facts _ Hw) as (_ & -> & _). reflexivity.
Qed.

(** composition with what lies beneath the compaction output: if the key's whole
    history (compacted part, then [deeper]) is disciplined, the reading is unchanged and
    the whole history stays disciplined.  With [evict] (last level) nothing lies deeper. *)
Theorem cstream_weak_view_with_deeper : forall W evict l out log k deeper, ssorted l = true ->
  run_stream W evict no_filter l = (out, log) ->
  alternating (kents k l ++ deeper) = true -> (evict = true -> deeper = []) ->
  visible (hd_error (kents k out ++ deeper)) = visible (hd_error (kents k l ++ deeper)) /\
  alternating (kents k out ++ deeper) = true.
Proof.
  intros W evict l out log k deeper HS HR HA Hd.
  pose proof (cstream_weak_red _ _ _ _ _ k HS HR (alt_app_l _ _ HA)) as RED.
  destruct (wred_alt _ _ _ RED deeper HA Hd) as [A1 A2].
  split; [now apply hk_visible | exact A1].
Qed.

(** (c) the finding (F3): the stream as shipped in 3.1.9 breaks a disciplined history.
    History of key a, oldest first: put@0, remove_weak@1, put@2, remove_weak@3; [V@0] lies
    in a deeper table, the rest is compacted with a high watermark.  The shipped stream
    drops [W@1] together with the pair ([W@3], [V@2]), so [V@0] becomes visible again;
    the repaired stream keeps [W@1]. *)
Lemma cstream_old_resurrects :
  exists W l deeper k,
    ssorted (l ++ deeper) = true /\ alternating (kents k (l ++ deeper)) = true /\
    visible (hd_error (kents k l ++ deeper)) = None /\
    fst (cstream_old W false no_filter None l) = [] /\
    visible (hd_error (kents k (fst (cstream_old W false no_filter None l)) ++ deeper))
      = Some (Examples.V Examples.ka 0 [0]) /\
    fst (run_stream W false no_filter l) = [Examples.Wt Examples.ka 1] /\
    visible (hd_error (kents k (fst (run_stream W false no_filter l)) ++ deeper)) = None.
Proof.
  exists 1000,
    [Examples.Wt Examples.ka 3; Examples.V Examples.ka 2 [2]; Examples.Wt Examples.ka 1],
    [Examples.V Examples.ka 0 [0]], Examples.ka.
  vm_compute. repeat split; reflexivity.
Qed.

Example cstream_weak_ex :
  let ka := Examples.ka in
  let l := [Examples.V ka 9 [9]; Examples.Wt ka 8; Examples.V ka 7 [7]; Examples.Wt ka 4;
            Examples.V ka 3 [3]; Examples.Wt ka 2; Examples.V Examples.kb 5 [5]] in
  ssorted l = true /\ alternating (kents ka l) = true /\
  fst (run_stream 5 false no_filter l)
    = [Examples.V ka 9 [9]; Examples.Wt ka 8; Examples.V ka 7 [7]; Examples.Wt ka 2;
       Examples.V Examples.kb 5 [5]] /\
  fst (run_stream 5 true no_filter l)
    = [Examples.V ka 9 [9]; Examples.Wt ka 8; Examples.V ka 7 [7]; Examples.V Examples.kb 5 [5]].
Proof. vm_compute. auto. Qed.

(** * Assumptions *)
Print Assumptions cstream_examples.
Print Assumptions cstream_top_view_refuted_weak.
Print Assumptions cstream_top_view_noweak.
Print Assumptions cstream_top_view_nofilter.
Print Assumptions cstream_mvcc.
Print Assumptions cstream_mvcc_tomb.
Print Assumptions cstream_mvcc_tomb_hidden.
Print Assumptions cstream_mvcc_view.
Print Assumptions cstream_mvcc_view_refuted_weak.
Print Assumptions cstream_snapshot_above_W_refuted.
Print Assumptions cstream_out_sorted.
Print Assumptions cstream_out_keys.
Print Assumptions cstream_replace_keeps_seq.
Print Assumptions cstream_out_subseq.
Print Assumptions cstream_out_in.
Print Assumptions cstream_log_subseq.
Print Assumptions cstream_filter_domain.
Print Assumptions cstream_filter_domain_in.
Print Assumptions cstream_log_exact.
Print Assumptions cstream_log_exact_nontomb.
Print Assumptions cstream_log_count.
Print Assumptions merge_sorted_perm.
Print Assumptions merge_sorted_sorted_nodup.
Print Assumptions merge_sorted_sorted.
Print Assumptions cstream_key_local.
Print Assumptions cstream_weak_red.
Print Assumptions cstream_weak_top.
Print Assumptions cstream_weak_view_with_deeper.
Print Assumptions cstream_old_resurrects.
