(** Property C10: every byte of a guarded region is covered by a check.

    For every hash function [h128] (xxh3 is a parameter): a damaged file is rejected, or
    read exactly as before, or the damage is a hash collision (explicit disjunct).
    Model: Model/Integrity.v. *)
From LsmV Require Import Base.Bytes Model.Ints Proofs.Ints Model.DataBlock Proofs.DataBlock
  Model.VersionCodec Proofs.VersionCodec Model.Integrity.
From Coq Require Import Arith PeanoNat.
Open Scope N_scope.
Arguments N.add : simpl never.
Arguments N.sub : simpl never.
Arguments N.mul : simpl never.
Arguments N.ltb : simpl never.
Arguments N.leb : simpl never.
Arguments N.eqb : simpl never.
Arguments N.pow : simpl never.
Arguments N.div : simpl never.
Arguments N.modulo : simpl never.

(** * A. Lists, [mutate], [truncate], [pread] *)

Lemma list_N_eqb_iff a : forall b, list_N_eqb a b = true <-> a = b.
Proof.
  induction a as [|x a IH]; intros [|y b]; cbn [list_N_eqb]; split; intros H;
    try discriminate; try reflexivity.
  - apply andb_true_iff in H. destruct H as [H1 H2]. apply N.eqb_eq in H1.
    apply IH in H2. now subst.
  - inversion H; subst. rewrite N.eqb_refl. cbn [andb]. now apply IH.
Qed.

Lemma list_N_dec (a b : list N) : {a = b} + {a <> b}.
Proof. apply list_eq_dec. apply N.eq_dec. Qed.

Lemma app_eq_len {A} (a a' x x' : list A) :
  length a = length a' -> a ++ x = a' ++ x' -> a = a' /\ x = x'.
Proof.
  revert a'; induction a as [|y a IH]; intros [|y' a'] L E; cbn in L; try discriminate.
  - now split.
  - cbn [app] in E. inversion E; subst. destruct (IH a' ltac:(lia) H1) as [-> ->]. now split.
Qed.

Lemma mutate_length l p b : length (mutate l p b) = length l.
Proof.
  unfold mutate. destruct (Nat.ltb p (length l)) eqn:E; [|reflexivity].
  apply Nat.ltb_lt in E. rewrite app_length. cbn [length].
  rewrite firstn_length, skipn_length. lia.
Qed.

Lemma mutate_app_l a c p b : (p < length a)%nat -> mutate (a ++ c) p b = mutate a p b ++ c.
Proof.
  intros H. unfold mutate.
  assert (E1 : Nat.ltb p (length (a ++ c)) = true) by (apply Nat.ltb_lt; rewrite app_length; lia).
  assert (E2 : Nat.ltb p (length a) = true) by (now apply Nat.ltb_lt).
  rewrite E1, E2. rewrite firstn_app, skipn_app.
  replace (p - length a)%nat with O by lia. replace (S p - length a)%nat with O by lia.
  cbn [firstn skipn]. rewrite app_nil_r, <- app_assoc. reflexivity.
Qed.

Lemma mutate_app_r a c p b :
  (length a <= p)%nat -> mutate (a ++ c) p b = a ++ mutate c (p - length a) b.
Proof.
  intros H. unfold mutate. rewrite app_length.
  destruct (Nat.ltb (p - length a) (length c)) eqn:E.
  - apply Nat.ltb_lt in E.
    assert (E1 : Nat.ltb p (length a + length c) = true) by (apply Nat.ltb_lt; lia).
    rewrite E1. rewrite firstn_app, skipn_app.
    rewrite (firstn_all2 a) by lia. rewrite (skipn_all2 a) by lia.
    replace (S p - length a)%nat with (S (p - length a)) by lia.
    cbn [app]. rewrite <- app_assoc. reflexivity.
  - apply Nat.ltb_ge in E.
    assert (E1 : Nat.ltb p (length a + length c) = false) by (apply Nat.ltb_ge; lia).
    rewrite E1. reflexivity.
Qed.

(** a position inside the middle part of [pre ++ B ++ post] *)
Lemma mutate_middle pre B post p b :
  (length pre <= p < length pre + length B)%nat ->
  mutate (pre ++ B ++ post) p b = pre ++ mutate B (p - length pre) b ++ post.
Proof.
  intros H. rewrite mutate_app_r by lia. f_equal. apply mutate_app_l. lia.
Qed.

Lemma Forall_firstn_ {A} (P : A -> Prop) l : forall n, Forall P l -> Forall P (firstn n l).
Proof.
  induction l as [|x l IH]; intros [|n] H; cbn [firstn]; try constructor.
  - now inversion H.
  - apply IH. now inversion H.
Qed.

Lemma Forall_skipn_ {A} (P : A -> Prop) l : forall n, Forall P l -> Forall P (skipn n l).
Proof.
  induction l as [|x l IH]; intros [|n] H; cbn [skipn]; try assumption.
  apply IH. now inversion H.
Qed.

Lemma mutate_wf l p b : bytes_wf l -> b < 256 -> bytes_wf (mutate l p b).
Proof.
  intros Hl Hb. unfold mutate. destruct (Nat.ltb p (length l)); [|exact Hl].
  unfold bytes_wf in *. apply Forall_app. split.
  - now apply Forall_firstn_.
  - constructor; [exact Hb|]. now apply Forall_skipn_.
Qed.

Lemma pread_app pre B post : pread (pre ++ B ++ post) (length pre) (length B) = Some B.
Proof.
  unfold pread. rewrite skipn_app, skipn_all, Nat.sub_diag. cbn [skipn app].
  rewrite firstn_app, firstn_all, Nat.sub_diag. cbn [firstn]. rewrite app_nil_r.
  now rewrite Nat.eqb_refl.
Qed.

Lemma pread_short file off size :
  (0 < size)%nat -> (length file < off + size)%nat -> pread file off size = None.
Proof.
  intros H0 H. unfold pread.
  assert (L : (length (firstn size (skipn off file)) < size)%nat).
  { rewrite firstn_length, skipn_length. lia. }
  destruct (Nat.eqb (length (firstn size (skipn off file))) size) eqn:E; [|reflexivity].
  apply Nat.eqb_eq in E. lia.
Qed.

Lemma truncate_length l n : length (truncate l n) = Nat.min n (length l).
Proof. apply firstn_length. Qed.

(** a segment that does not contain the mutated position is not affected *)
Lemma segment_mutate_outside file off size p b :
  (p < off \/ off + size <= p)%nat ->
  firstn size (skipn off (mutate file p b)) = firstn size (skipn off file).
Proof.
  intros H. unfold mutate. destruct (Nat.ltb p (length file)) eqn:Ep; [|reflexivity].
  apply Nat.ltb_lt in Ep.
  rewrite <- (firstn_skipn p file) at 3.
  assert (Hs : skipn p file = nth p file 0 :: skipn (S p) file).
  { clear H. revert file Ep. induction p as [|p IH]; intros [|x f] L; cbn [length] in L;
      try lia; [reflexivity|]. cbn [skipn nth]. apply IH. lia. }
  rewrite Hs.
  destruct H as [H|H].
  - (* the segment starts after p *)
    rewrite !skipn_app. rewrite firstn_length_le by lia.
    rewrite (skipn_all2 (firstn p file)) by (rewrite firstn_length; lia).
    cbn [app]. replace (off - p)%nat with (S (off - p - 1)) by lia. reflexivity.
  - (* the segment ends before p *)
    rewrite !skipn_app. rewrite firstn_length_le by lia.
    replace (off - p)%nat with O by lia. cbn [skipn].
    rewrite !firstn_app. rewrite skipn_length, firstn_length_le by lia.
    replace (size - (p - off))%nat with O by lia. reflexivity.
Qed.

Lemma skipn_mutate_before file k p b :
  (p < k)%nat -> skipn k (mutate file p b) = skipn k file.
Proof.
  intros H.
  pose proof (segment_mutate_outside file k (length file) p b (or_introl H)) as E.
  rewrite firstn_all2 in E by (rewrite skipn_length, mutate_length; lia).
  rewrite firstn_all2 in E by (rewrite skipn_length; lia). exact E.
Qed.

(** a read that lies entirely outside the mutated position is not affected *)
Lemma pread_mutate_outside file off size p b :
  (p < off \/ off + size <= p)%nat ->
  pread (mutate file p b) off size = pread file off size.
Proof. intros H. unfold pread. now rewrite segment_mutate_outside. Qed.

Lemma firstn_app_exact {A} (a r : list A) n : length a = n -> firstn n (a ++ r) = a.
Proof. intros <-. apply firstn_app_len. Qed.

Lemma skipn_app_exact {A} (a r : list A) n : length a = n -> skipn n (a ++ r) = r.
Proof. intros <-. rewrite skipn_app, skipn_all, Nat.sub_diag. reflexivity. Qed.

Lemma read_le_spec w l n r :
  read_le w l = Some (n, r) -> exists a, l = a ++ r /\ length a = w /\ n = le_value a.
Proof.
  unfold read_le. destruct (take_bytes w l) as [[a r']|] eqn:E; [|discriminate].
  intros H. inversion H; subst. apply take_bytes_spec in E. destruct E as [-> L].
  exists a. repeat split; assumption.
Qed.

Lemma read_le_app a r : read_le (length a) (a ++ r) = Some (le_value a, r).
Proof. unfold read_le. now rewrite take_bytes_app. Qed.

Lemma trunc_idem bits n : trunc bits (trunc bits n) = trunc bits n.
Proof. unfold trunc. apply N.mod_mod. apply pow2_nz. Qed.

Lemma trunc_lt bits n : trunc bits n < 2 ^ bits.
Proof. unfold trunc. apply N.mod_lt. apply pow2_nz. Qed.

(** * B. Blocks *)

Section WithHash.
Variable h128 : list N -> N.
(** the digest is a u128 *)
Hypothesis h128_range : forall l, h128 l < 2 ^ 128.

Lemma decode_header_x_opt bytes :
  decode_header h128 bytes =
  match decode_header_x h128 bytes with BOk p => Some p | BErr _ => None end.
Proof.
  unfold decode_header, decode_header_x.
  destruct (take_bytes 4 bytes) as [[magic r1]|]; [|reflexivity].
  destruct (negb (list_N_eqb magic MAGIC_BYTES)); [reflexivity|].
  destruct (read_u8 r1) as [[bt r2]|]; [|reflexivity].
  destruct (block_type_of_tag bt); [|reflexivity].
  destruct (read_u128_le r2) as [[cs r3]|]; [|reflexivity].
  destruct (read_u32_le r3) as [[dl r4]|]; [|reflexivity].
  destruct (read_u32_le r4) as [[ul r5]|]; [|reflexivity].
  destruct (read_u32_le r5) as [[ex r6]|]; [|reflexivity].
  cbv zeta. destruct (trunc 32 (h128 (firstn 29 bytes)) =? ex); reflexivity.
Qed.

Definition header_ok (h : header) : Prop :=
  h_checksum h < 2 ^ 128 /\ h_data_length h < 2 ^ 32 /\ h_uncompressed_length h < 2 ^ 32.

Lemma header_body_length h : length (header_body h) = 29%nat.
Proof.
  unfold header_body. rewrite !app_length. unfold write_u8, write_u128_le, write_u32_le.
  rewrite !le_bytes_length. reflexivity.
Qed.

(** the stored header checksum *)
Definition header_chk (h : header) : list N :=
  write_u32_le (trunc 32 (h128 (header_body h))).

Lemma header_chk_length h : length (header_chk h) = 4%nat.
Proof. unfold header_chk, write_u32_le. apply le_bytes_length. Qed.

Lemma header_chk_value h : le_value (header_chk h) = trunc 32 (h128 (header_body h)).
Proof.
  unfold header_chk, write_u32_le. rewrite le_value_le_bytes.
  change (2 ^ (8 * N.of_nat 4)) with (2 ^ 32). apply trunc_idem.
Qed.

Lemma encode_header_split h : encode_header h128 h = header_body h ++ header_chk h.
Proof. reflexivity. Qed.

(** a header whose 29 checksummed bytes are intact, with ANY 4 bytes in the checksum slot *)
Lemma decode_header_x_valid h c rest :
  header_ok h -> length c = 4%nat ->
  decode_header_x h128 (header_body h ++ c ++ rest) =
  if trunc 32 (h128 (header_body h)) =? le_value c then BOk (h, rest) else BErr XChecksumMismatch.
Proof.
  intros (Hc & Hd & Hu) Lc. unfold decode_header_x.
  assert (FB : firstn 29 (header_body h ++ c ++ rest) = header_body h).
  { rewrite <- (header_body_length h). apply firstn_app_len. }
  rewrite FB. unfold header_body at 1. rewrite <- !app_assoc.
  change 4%nat with (length MAGIC_BYTES). rewrite take_bytes_app.
  change (list_N_eqb MAGIC_BYTES MAGIC_BYTES) with true. cbn [negb].
  rewrite read_write_u8 by (destruct (h_type h); cbn; lia).
  rewrite block_type_of_tag_tag.
  unfold read_u128_le, write_u128_le. rewrite (le_roundtrip _ 16 _ Hc).
  unfold read_u32_le, write_u32_le. rewrite (le_roundtrip _ 4 _ Hd), (le_roundtrip _ 4 _ Hu).
  rewrite <- Lc. rewrite read_le_app. cbv zeta.
  destruct (trunc 32 (h128 (header_body h)) =? le_value c); [|reflexivity].
  destruct h; reflexivity.
Qed.

(** whenever a header is accepted, the stored u32 equals the low 32 bits of the digest
    of the first 29 bytes *)
Lemma decode_header_x_inv hb c rest h r :
  length hb = 29%nat -> length c = 4%nat ->
  decode_header_x h128 (hb ++ c ++ rest) = BOk (h, r) ->
  trunc 32 (h128 hb) = le_value c /\ r = rest.
Proof.
  intros Lh Lc. unfold decode_header_x.
  assert (FB : firstn 29 (hb ++ c ++ rest) = hb).
  { rewrite <- Lh. apply firstn_app_len. }
  rewrite FB.
  destruct (take_bytes 4 (hb ++ c ++ rest)) as [[magic r1]|] eqn:E1; [|discriminate].
  destruct (negb (list_N_eqb magic MAGIC_BYTES)); [discriminate|].
  destruct (read_u8 r1) as [[bt r2]|] eqn:E2; [|discriminate].
  destruct (block_type_of_tag bt); [|discriminate].
  destruct (read_u128_le r2) as [[cs r3]|] eqn:E3; [|discriminate].
  destruct (read_u32_le r3) as [[dl r4]|] eqn:E4; [|discriminate].
  destruct (read_u32_le r4) as [[ul r5]|] eqn:E5; [|discriminate].
  destruct (read_u32_le r5) as [[ex r6]|] eqn:E6; [|discriminate].
  cbv zeta. destruct (trunc 32 (h128 hb) =? ex) eqn:E7; [|discriminate].
  intros H. inversion H; subst. apply N.eqb_eq in E7.
  apply take_bytes_spec in E1. destruct E1 as [E1 L1].
  apply read_le_spec in E2, E3, E4, E5, E6.
  destruct E2 as (a2 & -> & L2 & _). destruct E3 as (a3 & -> & L3 & _).
  destruct E4 as (a4 & -> & L4 & _). destruct E5 as (a5 & -> & L5 & _).
  destruct E6 as (a6 & -> & L6 & ->).
  assert (E : hb ++ (c ++ rest) = (magic ++ a2 ++ a3 ++ a4 ++ a5) ++ (a6 ++ r)).
  { rewrite E1. rewrite <- !app_assoc. reflexivity. }
  apply app_eq_len in E; [|rewrite !app_length; lia].
  destruct E as [_ E]. apply app_eq_len in E; [|lia]. destruct E as [-> ->].
  split; [exact E7|reflexivity].
Qed.

(** what [Block::from_file] does with the buffer it has read *)
Definition block_of_buf (buf : list N) : bres block :=
  match decode_header_x h128 buf with BErr e => BErr e | BOk (h, _) =>
  let data := skipn header_serialized_len buf in
  if h128 data =? h_checksum h then BOk (mkBlock h data) else BErr XChecksumMismatch
  end.

Lemma block_from_file_buf file off size buf :
  pread file off size = Some buf -> block_from_file h128 file off size = block_of_buf buf.
Proof. intros H. unfold block_from_file, block_of_buf. now rewrite H. Qed.

Lemma skipn_33 (hb c p : list N) : length hb = 29%nat -> length c = 4%nat ->
  skipn header_serialized_len (hb ++ c ++ p) = p.
Proof.
  intros Lh Lc. rewrite app_assoc.
  replace header_serialized_len with (length (hb ++ c))
    by (unfold header_serialized_len; rewrite app_length; lia).
  rewrite skipn_app, skipn_all, Nat.sub_diag. reflexivity.
Qed.

(** intact 29 header bytes, anything in the checksum slot and as payload *)
Lemma block_of_buf_valid_body h c p :
  header_ok h -> length c = 4%nat ->
  block_of_buf (header_body h ++ c ++ p) =
  if trunc 32 (h128 (header_body h)) =? le_value c
  then if h128 p =? h_checksum h then BOk (mkBlock h p) else BErr XChecksumMismatch
  else BErr XChecksumMismatch.
Proof.
  intros Hok Lc. unfold block_of_buf. rewrite decode_header_x_valid by assumption.
  destruct (trunc 32 (h128 (header_body h)) =? le_value c); [|reflexivity].
  rewrite skipn_33 by (try apply header_body_length; assumption). reflexivity.
Qed.

(** REGION 1 (bytes 0..28: magic, type, data checksum, both lengths) replaced *)
Lemma block_body_region_guarded h p hb' :
  length hb' = 29%nat ->
  (exists e, block_of_buf (hb' ++ header_chk h ++ p) = BErr e)
  \/ hb' = header_body h
  \/ (hb' <> header_body h /\ trunc 32 (h128 hb') = trunc 32 (h128 (header_body h))).
Proof.
  intros L. destruct (list_N_dec hb' (header_body h)) as [E|NE]; [right; left; exact E|].
  unfold block_of_buf.
  destruct (decode_header_x h128 (hb' ++ header_chk h ++ p)) as [[h' r]|e] eqn:D.
  - apply decode_header_x_inv in D; [|exact L|apply header_chk_length].
    destruct D as [D _]. rewrite header_chk_value in D. right; right. split; assumption.
  - left. exists e. reflexivity.
Qed.

Lemma check_block_type_err ty (r : bres block) e :
  r = BErr e -> check_block_type ty r = BErr e.
Proof. intros ->. reflexivity. Qed.

(** a block as it lies in a file: header (29 + 4 bytes) and payload *)
Definition block_bytes (h : header) (payload : list N) : list N :=
  encode_header h128 h ++ payload.

Lemma block_bytes_length h p : length (block_bytes h p) = (33 + length p)%nat.
Proof.
  unfold block_bytes. rewrite app_length, encode_header_split, app_length,
    header_body_length, header_chk_length. reflexivity.
Qed.

(** ** Theorem 1: every byte of a block is guarded ([Block::from_file] + type check).

    The block lies at [length pre] in any file, its handle has the right size. For EVERY
    position inside its 33 + |payload| bytes and EVERY replacement byte, the load is an
    error, or returns exactly what it returned before, or
    - (payload collision) another payload of the same length has the same 128-bit digest, or
    - (header collision) other 29 header bytes have a digest with the same low 32 bits. *)
Theorem block_byte_guarded pre h payload post pos b ty :
  h_checksum h = h128 payload -> h_data_length h < 2 ^ 32 -> h_uncompressed_length h < 2 ^ 32 ->
  (length pre <= pos < length pre + (33 + length payload))%nat ->
  let file := pre ++ block_bytes h payload ++ post in
  let size := (33 + length payload)%nat in
  let r := load_block h128 file (length pre) size ty in
  let r' := load_block h128 (mutate file pos b) (length pre) size ty in
  (exists e, r' = BErr e)
  \/ r' = r
  \/ (exists p', p' <> payload /\ length p' = length payload /\ h128 p' = h128 payload)
  \/ (exists hb', hb' <> header_body h /\ length hb' = 29%nat
                  /\ trunc 32 (h128 hb') = trunc 32 (h128 (header_body h))).
Proof.
  intros Hck Hd Hu Hpos file size r r'.
  assert (Hok : header_ok h).
  { split; [rewrite Hck; apply h128_range|split; assumption]. }
  set (B := block_bytes h payload) in *.
  assert (LB : length B = size) by apply block_bytes_length.
  set (i := (pos - length pre)%nat).
  assert (Hi : (i < size)%nat) by (unfold i; lia).
  assert (Ef : mutate file pos b = pre ++ mutate B i b ++ post).
  { unfold file, i. apply mutate_middle. lia. }
  assert (Pr : pread file (length pre) size = Some B).
  { unfold file. rewrite <- LB. apply pread_app. }
  assert (Pr' : pread (mutate file pos b) (length pre) size = Some (mutate B i b)).
  { rewrite Ef. rewrite <- LB, <- (mutate_length B i b). apply pread_app. }
  assert (Er : r = check_block_type (ty) (block_of_buf B)).
  { unfold r, load_block. now rewrite (block_from_file_buf _ _ _ _ Pr). }
  assert (Er' : r' = check_block_type (ty) (block_of_buf (mutate B i b))).
  { unfold r', load_block. now rewrite (block_from_file_buf _ _ _ _ Pr'). }
  assert (EB : B = header_body h ++ header_chk h ++ payload).
  { unfold B, block_bytes. rewrite encode_header_split, <- app_assoc. reflexivity. }
  pose proof (header_body_length h) as Lhb. pose proof (header_chk_length h) as Lck.
  destruct (Nat.ltb i 29) eqn:C1.
  - (* one of the 29 checksummed header bytes *)
    apply Nat.ltb_lt in C1.
    assert (EB' : mutate B i b = mutate (header_body h) i b ++ header_chk h ++ payload).
    { rewrite EB. apply mutate_app_l. lia. }
    destruct (block_body_region_guarded h payload (mutate (header_body h) i b)) as [[e He]|[He|He]].
    + rewrite mutate_length. exact Lhb.
    + left. exists e. rewrite Er', EB'. now apply check_block_type_err.
    + right; left. rewrite Er, Er', EB', He, <- EB. reflexivity.
    + right; right; right. exists (mutate (header_body h) i b).
      destruct He as [He1 He2]. split; [exact He1|]. split; [|exact He2].
      rewrite mutate_length. exact Lhb.
  - apply Nat.ltb_ge in C1. destruct (Nat.ltb i 33) eqn:C2.
    + (* one of the 4 bytes of the stored header checksum *)
      apply Nat.ltb_lt in C2.
      assert (EB' : mutate B i b = header_body h ++ mutate (header_chk h) (i - 29) b ++ payload).
      { rewrite EB. rewrite mutate_app_r by lia. rewrite Lhb. f_equal. apply mutate_app_l. lia. }
      assert (V : block_of_buf B =
                  if h128 payload =? h_checksum h then BOk (mkBlock h payload) else BErr XChecksumMismatch).
      { rewrite EB, block_of_buf_valid_body by assumption.
        rewrite header_chk_value, N.eqb_refl. reflexivity. }
      rewrite Er', EB', block_of_buf_valid_body by (try rewrite mutate_length; assumption).
      destruct (trunc 32 (h128 (header_body h)) =? le_value (mutate (header_chk h) (i - 29) b)).
      * right; left. rewrite Er, V. reflexivity.
      * left. eexists. reflexivity.
    + (* a payload byte *)
      apply Nat.ltb_ge in C2.
      assert (EB' : mutate B i b = header_body h ++ header_chk h ++ mutate payload (i - 33) b).
      { rewrite EB. rewrite mutate_app_r by lia. rewrite Lhb. f_equal.
        rewrite mutate_app_r by lia. rewrite Lck. f_equal. f_equal. lia. }
      set (p' := mutate payload (i - 33) b) in *.
      rewrite Er', EB', block_of_buf_valid_body by assumption.
      rewrite header_chk_value, N.eqb_refl.
      destruct (h128 p' =? h_checksum h) eqn:E.
      * apply N.eqb_eq in E. destruct (list_N_dec p' payload) as [Ep|NEp].
        -- right; left. rewrite Er, EB, block_of_buf_valid_body by assumption.
           rewrite header_chk_value, N.eqb_refl, Ep, Hck, N.eqb_refl. reflexivity.
        -- right; right; left. exists p'. split; [exact NEp|]. split.
           ++ unfold p'. apply mutate_length.
           ++ now rewrite E.
      * left. eexists. reflexivity.
Qed.

(** any truncation that cuts into the block: the pread comes back short, io error *)
Theorem block_truncation_guarded pre h payload post len ty :
  (len < length pre + (33 + length payload))%nat ->
  load_block h128 (truncate (pre ++ block_bytes h payload ++ post) len)
             (length pre) (33 + length payload) ty = BErr XEof.
Proof.
  intros H. unfold load_block, block_from_file.
  rewrite pread_short; [reflexivity|lia|].
  rewrite truncate_length. lia.
Qed.

(** damage elsewhere in the file is irrelevant to this block *)
Lemma block_outside_unchanged file off size ty pos b :
  (pos < off \/ off + size <= pos)%nat ->
  load_block h128 (mutate file pos b) off size ty = load_block h128 file off size ty.
Proof.
  intros H. unfold load_block, block_from_file. now rewrite pread_mutate_outside.
Qed.

(** what the WRITER produces ([Block::write_into]) satisfies the hypotheses and loads *)
Lemma encode_block_is_block_bytes t p :
  encode_block h128 t p =
  block_bytes (mkH t (h128 p) (trunc 32 (N.of_nat (length p))) (trunc 32 (N.of_nat (length p)))) p.
Proof. reflexivity. Qed.

Theorem encode_block_loads pre t p post :
  load_block h128 (pre ++ encode_block h128 t p ++ post) (length pre) (33 + length p) t
  = BOk (mkBlock (mkH t (h128 p) (trunc 32 (N.of_nat (length p))) (trunc 32 (N.of_nat (length p)))) p).
Proof.
  rewrite encode_block_is_block_bytes.
  set (h := mkH t (h128 p) (trunc 32 (N.of_nat (length p))) (trunc 32 (N.of_nat (length p)))).
  assert (Hok : header_ok h).
  { split; [apply h128_range|split; apply trunc_lt]. }
  unfold load_block.
  rewrite (block_from_file_buf _ _ _ (block_bytes h p)).
  - unfold block_bytes. rewrite encode_header_split, <- app_assoc.
    rewrite block_of_buf_valid_body by (try apply header_chk_length; assumption).
    rewrite header_chk_value, N.eqb_refl. cbn [h_checksum h]. rewrite N.eqb_refl.
    cbn [check_block_type b_header h_type h]. rewrite N.eqb_refl. reflexivity.
  - rewrite <- block_bytes_length with (h := h). apply pread_app.
Qed.

(** ** The sequential path: [Block::from_reader] (table scanner, blob file metadata).
    Here the header's [data_length] delimits the payload. *)

Lemma header_body_region_guarded h tail hb' :
  length hb' = 29%nat ->
  (exists e, decode_header_x h128 (hb' ++ header_chk h ++ tail) = BErr e)
  \/ hb' = header_body h
  \/ (hb' <> header_body h /\ trunc 32 (h128 hb') = trunc 32 (h128 (header_body h))).
Proof.
  intros L. destruct (list_N_dec hb' (header_body h)) as [E|NE]; [right; left; exact E|].
  destruct (decode_header_x h128 (hb' ++ header_chk h ++ tail)) as [[h' r]|e] eqn:D.
  - apply decode_header_x_inv in D; [|exact L|apply header_chk_length].
    destruct D as [D _]. rewrite header_chk_value in D. right; right. split; assumption.
  - left. exists e. reflexivity.
Qed.

Lemma block_from_reader_valid_body h c p rest :
  header_ok h -> length c = 4%nat -> length p = N.to_nat (h_data_length h) ->
  block_from_reader h128 (header_body h ++ c ++ p ++ rest) =
  if trunc 32 (h128 (header_body h)) =? le_value c
  then if h128 p =? h_checksum h then BOk (mkBlock h p, rest) else BErr XChecksumMismatch
  else BErr XChecksumMismatch.
Proof.
  intros Hok Lc Lp. unfold block_from_reader. rewrite decode_header_x_valid by assumption.
  destruct (trunc 32 (h128 (header_body h)) =? le_value c); [|reflexivity].
  rewrite <- Lp, take_bytes_app. reflexivity.
Qed.

Theorem block_reader_byte_guarded h payload rest i b :
  h_checksum h = h128 payload -> h_data_length h = N.of_nat (length payload) ->
  h_data_length h < 2 ^ 32 -> h_uncompressed_length h < 2 ^ 32 ->
  (i < 33 + length payload)%nat ->
  let l := block_bytes h payload ++ rest in
  let r' := block_from_reader h128 (mutate l i b) in
  (exists e, r' = BErr e)
  \/ r' = block_from_reader h128 l
  \/ (exists p', p' <> payload /\ length p' = length payload /\ h128 p' = h128 payload)
  \/ (exists hb', hb' <> header_body h /\ length hb' = 29%nat
                  /\ trunc 32 (h128 hb') = trunc 32 (h128 (header_body h))).
Proof.
  intros Hck Hdl Hd Hu Hi l r'.
  assert (Hok : header_ok h).
  { split; [rewrite Hck; apply h128_range|split; assumption]. }
  assert (Lp : length payload = N.to_nat (h_data_length h)) by (rewrite Hdl; lia).
  pose proof (header_body_length h) as Lhb. pose proof (header_chk_length h) as Lck.
  assert (El : l = header_body h ++ header_chk h ++ payload ++ rest).
  { unfold l, block_bytes. rewrite encode_header_split, <- !app_assoc. reflexivity. }
  assert (V : block_from_reader h128 l = BOk (mkBlock h payload, rest)).
  { rewrite El, block_from_reader_valid_body by assumption.
    rewrite header_chk_value, N.eqb_refl, Hck, N.eqb_refl. reflexivity. }
  destruct (Nat.ltb i 29) eqn:C1.
  - apply Nat.ltb_lt in C1.
    assert (El' : mutate l i b = mutate (header_body h) i b ++ header_chk h ++ payload ++ rest).
    { rewrite El. apply mutate_app_l. lia. }
    destruct (header_body_region_guarded h (payload ++ rest) (mutate (header_body h) i b))
      as [[e He]|[He|He]].
    + rewrite mutate_length. exact Lhb.
    + left. exists e. unfold r', block_from_reader. rewrite El', He. reflexivity.
    + right; left. unfold r'. rewrite El', He, <- El. reflexivity.
    + right; right; right. exists (mutate (header_body h) i b).
      destruct He as [He1 He2]. split; [exact He1|]. split; [|exact He2].
      rewrite mutate_length. exact Lhb.
  - apply Nat.ltb_ge in C1. destruct (Nat.ltb i 33) eqn:C2.
    + apply Nat.ltb_lt in C2.
      assert (El' : mutate l i b
                    = header_body h ++ mutate (header_chk h) (i - 29) b ++ payload ++ rest).
      { rewrite El. rewrite mutate_app_r by lia. rewrite Lhb. f_equal. apply mutate_app_l. lia. }
      unfold r'. rewrite El', block_from_reader_valid_body
        by (try rewrite mutate_length; assumption).
      destruct (trunc 32 (h128 (header_body h)) =? le_value (mutate (header_chk h) (i - 29) b)).
      * right; left. rewrite V, Hck, N.eqb_refl. reflexivity.
      * left. eexists. reflexivity.
    + apply Nat.ltb_ge in C2.
      assert (El' : mutate l i b
                    = header_body h ++ header_chk h ++ mutate payload (i - 33) b ++ rest).
      { rewrite El. rewrite mutate_app_r by lia. rewrite Lhb. f_equal.
        rewrite mutate_app_r by lia. rewrite Lck. f_equal.
        replace (i - 29 - 4)%nat with (i - 33)%nat by lia. apply mutate_app_l. lia. }
      set (p' := mutate payload (i - 33) b) in *.
      assert (Lp' : length p' = N.to_nat (h_data_length h)).
      { unfold p'. rewrite mutate_length. exact Lp. }
      unfold r'. rewrite El', block_from_reader_valid_body by assumption.
      rewrite header_chk_value, N.eqb_refl.
      destruct (h128 p' =? h_checksum h) eqn:E.
      * apply N.eqb_eq in E. destruct (list_N_dec p' payload) as [Ep|NEp].
        -- right; left. rewrite V, Ep. reflexivity.
        -- right; right; left. exists p'. split; [exact NEp|]. split.
           ++ unfold p'. apply mutate_length.
           ++ now rewrite E.
      * left. eexists. reflexivity.
Qed.

(** cutting into a block that is read sequentially: EOF in the header or in the payload *)
Theorem block_reader_truncation_guarded h payload rest len :
  h_checksum h = h128 payload -> h_data_length h = N.of_nat (length payload) ->
  h_data_length h < 2 ^ 32 -> h_uncompressed_length h < 2 ^ 32 ->
  (len < 33 + length payload)%nat ->
  exists e, block_from_reader h128 (truncate (block_bytes h payload ++ rest) len) = BErr e.
Proof.
  intros Hck Hdl Hd Hu Hlen.
  assert (Hok : header_ok h).
  { split; [rewrite Hck; apply h128_range|split; assumption]. }
  pose proof (block_bytes_length h payload) as LB.
  assert (Et : truncate (block_bytes h payload ++ rest) len = firstn len (block_bytes h payload)).
  { unfold truncate. rewrite firstn_app. replace (len - length (block_bytes h payload))%nat with O by lia.
    cbn [firstn]. apply app_nil_r. }
  rewrite Et. unfold block_bytes. rewrite encode_header_split, <- app_assoc.
  pose proof (header_body_length h) as Lhb. pose proof (header_chk_length h) as Lck.
  destruct (Nat.ltb len 33) eqn:C.
  - (* inside the header: some fixed-width read hits EOF *)
    apply Nat.ltb_lt in C. unfold block_from_reader.
    destruct (decode_header_x h128 (firstn len (header_body h ++ header_chk h ++ payload)))
      as [[h' r]|e] eqn:D; [|eexists; reflexivity].
    exfalso. unfold decode_header_x in D.
    set (t := firstn len (header_body h ++ header_chk h ++ payload)) in *.
    assert (Lt : (length t < 33)%nat) by (unfold t; rewrite firstn_length; lia).
    destruct (take_bytes 4 t) as [[magic r1]|] eqn:E1; [|discriminate].
    destruct (negb (list_N_eqb magic MAGIC_BYTES)); [discriminate|].
    destruct (read_u8 r1) as [[bt r2]|] eqn:E2; [|discriminate].
    destruct (block_type_of_tag bt); [|discriminate].
    destruct (read_u128_le r2) as [[cs r3]|] eqn:E3; [|discriminate].
    destruct (read_u32_le r3) as [[dl r4]|] eqn:E4; [|discriminate].
    destruct (read_u32_le r4) as [[ul r5]|] eqn:E5; [|discriminate].
    destruct (read_u32_le r5) as [[ex r6]|] eqn:E6; [|discriminate].
    apply take_bytes_spec in E1. destruct E1 as [E1 L1].
    apply read_le_spec in E2, E3, E4, E5, E6.
    destruct E2 as (a2 & -> & L2 & _). destruct E3 as (a3 & -> & L3 & _).
    destruct E4 as (a4 & -> & L4 & _). destruct E5 as (a5 & -> & L5 & _).
    destruct E6 as (a6 & -> & L6 & _).
    rewrite E1 in Lt. rewrite !app_length in Lt. lia.
  - (* inside the payload: the header is intact, the payload read hits EOF *)
    apply Nat.ltb_ge in C.
    assert (Ef : firstn len (header_body h ++ header_chk h ++ payload)
                 = header_body h ++ header_chk h ++ firstn (len - 33) payload).
    { rewrite firstn_app, Lhb. rewrite (firstn_all2 (header_body h)) by lia. f_equal.
      rewrite firstn_app, Lck. rewrite (firstn_all2 (header_chk h)) by lia. f_equal.
      f_equal. lia. }
    rewrite Ef. unfold block_from_reader.
    rewrite decode_header_x_valid by assumption. rewrite header_chk_value, N.eqb_refl.
    rewrite take_bytes_short; [eexists; reflexivity|].
    rewrite firstn_length, Hdl. lia.
Qed.

(** * C. The version file and [current] *)

Lemma rd_app a r : rd (length a) (a ++ r) = Ok (le_value a, r).
Proof. unfold rd. now rewrite read_le_app. Qed.

Lemma rd_app_w w a r : length a = w -> rd w (a ++ r) = Ok (le_value a, r).
Proof. intros <-. apply rd_app. Qed.

Lemma read_version_ok_inv cur vb x :
  read_version h128 cur vb = BOk x ->
  x = vb /\ exists id, read_current cur = BOk (id, h128 vb).
Proof.
  unfold read_version, check_version_bytes.
  destruct (read_current cur) as [[id ck]|e]; [|discriminate].
  destruct (h128 vb =? ck) eqn:E; [|discriminate].
  apply N.eqb_eq in E. intros H. inversion H; subst. split; [reflexivity|]. now exists id.
Qed.

(** ** Theorem 2a. With the CURRENT guard, WHATEVER happens to the version file -- one
    byte, many bytes, truncation, extension: [vb'] is arbitrary -- the bytes that recovery
    goes on to parse are the original ones, or recovery fails, or [vb'] collides with the
    original under [h128]. *)
Theorem version_file_guarded cur vb vb' :
  read_version h128 cur vb = BOk vb ->
  let r' := read_version h128 cur vb' in
  (exists e, r' = BErr e) \/ r' = BOk vb \/ (vb' <> vb /\ h128 vb' = h128 vb).
Proof.
  intros H r'. apply read_version_ok_inv in H. destruct H as [_ [id Hc]].
  unfold r', read_version, check_version_bytes. rewrite Hc.
  destruct (h128 vb' =? h128 vb) eqn:E.
  - apply N.eqb_eq in E. destruct (list_N_dec vb' vb) as [->|NE].
    + right; left. reflexivity.
    + right; right. split; assumption.
  - left. eexists. reflexivity.
Qed.

Corollary version_file_byte_guarded cur vb pos b :
  read_version h128 cur vb = BOk vb ->
  let r' := read_version h128 cur (mutate vb pos b) in
  (exists e, r' = BErr e) \/ r' = BOk vb
  \/ (mutate vb pos b <> vb /\ h128 (mutate vb pos b) = h128 vb).
Proof. apply version_file_guarded. Qed.

Corollary version_file_truncation_guarded cur vb len :
  read_version h128 cur vb = BOk vb -> (len < length vb)%nat ->
  let r' := read_version h128 cur (truncate vb len) in
  (exists e, r' = BErr e) \/ (truncate vb len <> vb /\ h128 (truncate vb len) = h128 vb).
Proof.
  intros H Hl r'. destruct (version_file_guarded cur vb (truncate vb len) H) as [E|[E|E]].
  - left. exact E.
  - exfalso. fold r' in E. unfold r', read_version in E.
    destruct (read_current cur) as [[id ck]|e]; [|discriminate].
    unfold check_version_bytes in E. destruct (h128 (truncate vb len) =? ck); [|discriminate].
    inversion E as [E']. apply (f_equal (@length N)) in E'. rewrite truncate_length in E'. lia.
  - right. exact E.
Qed.

(** the same for everything recovery computes from the accepted bytes *)
Corollary recover_version_guarded cur vb vb' :
  read_version h128 cur vb = BOk vb ->
  let r' := recover_version h128 cur vb' in
  (exists e, r' = BErr e) \/ r' = recover_version h128 cur vb
  \/ (vb' <> vb /\ h128 vb' = h128 vb).
Proof.
  intros H r'. destruct (version_file_guarded cur vb vb' H) as [[e E]|[E|E]].
  - left. exists e. unfold r', recover_version. now rewrite E.
  - right; left. unfold r', recover_version. now rewrite E, H.
  - right; right. exact E.
Qed.

(** ** Theorem 2b. The [current] file (25 bytes: id, checksum, checksum type). *)

Lemma read_current_parts (a k : list N) c rest :
  length a = 8%nat -> length k = 16%nat ->
  read_current (a ++ k ++ c :: rest) =
  if negb (c =? 0) then BErr (XInvalidTag c) else BOk (le_value a, le_value k).
Proof.
  intros La Lk. unfold read_current. rewrite (rd_app_w 8 a _ La), (rd_app_w 16 k _ Lk).
  change (c :: rest) with ([c] ++ rest). rewrite (rd_app_w 1 [c] rest eq_refl).
  cbn [le_value]. replace (c + 256 * 0) with c by lia. reflexivity.
Qed.

Lemma encode_current_parts id ck :
  encode_current id ck = write_u64_le id ++ write_u128_le ck ++ [0].
Proof. reflexivity. Qed.

Theorem current_file_guarded dir id vb pos b :
  id < 2 ^ 64 -> dir_lookup id dir = Some vb ->
  let cur := encode_current id (h128 vb) in
  let r' := read_version_dir h128 dir (mutate cur pos b) in
  read_version_dir h128 dir cur = BOk vb
  /\ ((exists e, r' = BErr e) \/ r' = BOk vb
      \/ (exists vb', vb' <> vb /\ h128 vb' = h128 vb)).
Proof.
  intros Hid Hl cur r'.
  set (a := write_u64_le id). set (k := write_u128_le (h128 vb)).
  assert (La : length a = 8%nat) by apply le_bytes_length.
  assert (Lk : length k = 16%nat) by apply le_bytes_length.
  assert (Va : le_value a = id).
  { unfold a, write_u64_le. apply le_lossless_iff. exact Hid. }
  assert (Vk : le_value k = h128 vb).
  { unfold k, write_u128_le. apply le_lossless_iff. apply h128_range. }
  assert (Ec : cur = a ++ k ++ [0]) by reflexivity.
  assert (R0 : read_version_dir h128 dir cur = BOk vb).
  { unfold read_version_dir. rewrite Ec, read_current_parts by assumption.
    change (negb (0 =? 0)) with false. cbv iota. rewrite Va, Hl, Vk.
    unfold check_version_bytes. now rewrite N.eqb_refl. }
  split; [exact R0|].
  destruct (Nat.ltb pos 8) eqn:C1.
  - (* the version id: another file is selected (or none) *)
    apply Nat.ltb_lt in C1.
    assert (E : mutate cur pos b = mutate a pos b ++ k ++ [0]).
    { rewrite Ec. apply mutate_app_l. lia. }
    unfold r', read_version_dir. rewrite E, read_current_parts
      by (try rewrite mutate_length; assumption).
    change (negb (0 =? 0)) with false. cbv iota.
    destruct (dir_lookup (le_value (mutate a pos b)) dir) as [vb'|]; [|left; eexists; reflexivity].
    unfold check_version_bytes. rewrite Vk.
    destruct (h128 vb' =? h128 vb) eqn:Eh; [|left; eexists; reflexivity].
    apply N.eqb_eq in Eh. destruct (list_N_dec vb' vb) as [->|NE].
    + right; left. reflexivity.
    + right; right. exists vb'. split; assumption.
  - apply Nat.ltb_ge in C1. destruct (Nat.ltb pos 24) eqn:C2.
    + (* the stored checksum *)
      apply Nat.ltb_lt in C2.
      assert (E : mutate cur pos b = a ++ mutate k (pos - 8) b ++ [0]).
      { rewrite Ec. rewrite mutate_app_r by lia. rewrite La. f_equal. apply mutate_app_l. lia. }
      unfold r', read_version_dir. rewrite E, read_current_parts
        by (try rewrite mutate_length; assumption).
      change (negb (0 =? 0)) with false. cbv iota. rewrite Va, Hl.
      unfold check_version_bytes.
      destruct (h128 vb =? le_value (mutate k (pos - 8) b)).
      * right; left. reflexivity.
      * left. eexists. reflexivity.
    + apply Nat.ltb_ge in C2. destruct (Nat.eqb pos 24) eqn:C3.
      * (* the checksum type *)
        apply Nat.eqb_eq in C3. subst pos.
        assert (E : mutate cur 24 b = a ++ k ++ [b]).
        { rewrite Ec. rewrite mutate_app_r by lia. rewrite La. f_equal.
          all: try (rewrite mutate_app_r by lia; rewrite Lk; reflexivity). }
        unfold r', read_version_dir. rewrite E, read_current_parts by assumption.
        destruct (b =? 0) eqn:Eb.
        -- cbn [negb]. rewrite Va, Hl, Vk. unfold check_version_bytes. rewrite N.eqb_refl.
           right; left. reflexivity.
        -- left. eexists. reflexivity.
      * (* past the end: nothing to replace *)
        apply Nat.eqb_neq in C3.
        assert (E : mutate cur pos b = cur).
        { unfold mutate. assert (L : length cur = 25%nat) by reflexivity. rewrite L.
          assert (F : Nat.ltb pos 25 = false) by (apply Nat.ltb_ge; lia). now rewrite F. }
        right; left. unfold r'. rewrite E. exact R0.
Qed.

(** a shortened [current] is an io error (UnexpectedEof) *)
Theorem current_truncation_guarded dir id ck len :
  (len < 25)%nat ->
  read_version_dir h128 dir (truncate (encode_current id ck) len) = BErr XEof.
Proof.
  intros H. unfold read_version_dir, read_current.
  set (t := truncate (encode_current id ck) len).
  assert (Lt : (length t < 25)%nat).
  { unfold t. rewrite truncate_length. lia. }
  destruct (rd 8 t) as [[idv r1]|e1] eqn:E1.
  2:{ unfold rd in E1. destruct (read_le 8 t); [discriminate|]. inversion E1. reflexivity. }
  destruct (rd 16 r1) as [[ckv r2]|e2] eqn:E2.
  2:{ unfold rd in E2. destruct (read_le 16 r1); [discriminate|]. inversion E2. reflexivity. }
  destruct (rd 1 r2) as [[ct r3]|e3] eqn:E3.
  2:{ unfold rd in E3. destruct (read_le 1 r2); [discriminate|]. inversion E3. reflexivity. }
  exfalso. unfold rd in E1, E2, E3.
  destruct (read_le 8 t) as [[x1 y1]|] eqn:F1; [|discriminate]. inversion E1; subst.
  destruct (read_le 16 r1) as [[x2 y2]|] eqn:F2; [|discriminate]. inversion E2; subst.
  destruct (read_le 1 r2) as [[x3 y3]|] eqn:F3; [|discriminate]. inversion E3; subst.
  apply read_le_spec in F1, F2, F3.
  destruct F1 as (a1 & Ea & L1 & _). destruct F2 as (a2 & -> & L2 & _).
  destruct F3 as (a3 & -> & L3 & _). rewrite Ea, !app_length in Lt. lia.
Qed.

(** * D. The sfa trailer and table of contents *)

(** a decoder that reads a non-empty prefix and does not look at what follows *)
Definition pfx_det {A} (dec : list N -> res (A * list N)) : Prop :=
  forall l a r, dec l = Ok (a, r) ->
  exists c, l = c ++ r /\ c <> [] /\ forall r', dec (c ++ r') = Ok (a, r').

Lemma rd_pfx w l n r :
  rd w l = Ok (n, r) ->
  exists c, l = c ++ r /\ length c = w /\ forall r', rd w (c ++ r') = Ok (n, r').
Proof.
  unfold rd. destruct (read_le w l) as [[n' r0]|] eqn:E; [|discriminate].
  intros H. inversion H; subst. apply read_le_spec in E. destruct E as (a & -> & L & ->).
  exists a. split; [reflexivity|]. split; [exact L|]. intros r'.
  fold (rd w (a ++ r')). now apply rd_app_w.
Qed.

Lemma decode_items_zero {A} (dec : list N -> res (A * list N)) f l :
  decode_items dec f 0 l = Ok ([], l).
Proof. destruct f; reflexivity. Qed.

Lemma decode_items_pfx {A} (dec : list N -> res (A * list N)) :
  pfx_det dec ->
  forall f count l items r,
    decode_items dec f count l = Ok (items, r) ->
    exists c, l = c ++ r /\ (length items <= length c)%nat /\
      forall r' f', (length items <= f')%nat ->
                    decode_items dec f' count (c ++ r') = Ok (items, r').
Proof.
  intros PD. induction f as [|f IH]; intros count l items r H.
  - cbn [decode_items] in H. destruct (count =? 0) eqn:E.
    + apply N.eqb_eq in E. subst count. inversion H; subst. exists []. split; [reflexivity|].
      split; [cbn; lia|]. intros r' f' _. apply decode_items_zero.
    + destruct (dec l) as [[a l1]|e]; discriminate.
  - cbn [decode_items] in H. destruct (count =? 0) eqn:E.
    + apply N.eqb_eq in E. subst count. inversion H; subst. exists []. split; [reflexivity|].
      split; [cbn; lia|]. intros r' f' _. apply decode_items_zero.
    + destruct (dec l) as [[a l1]|e] eqn:D; [|discriminate].
      destruct (decode_items dec f (count - 1) l1) as [[ri l2]|e] eqn:R; [|discriminate].
      inversion H; subst. apply PD in D. destruct D as (c1 & -> & NE & D).
      apply IH in R. destruct R as (c2 & -> & Lc & R).
      exists (c1 ++ c2). split; [now rewrite app_assoc|]. split.
      * cbn [length]. rewrite app_length. destruct c1; [congruence|cbn [length]; lia].
      * intros r' f' Hf. destruct f' as [|f']; [cbn [length] in Hf; lia|].
        cbn [decode_items]. rewrite E. rewrite <- app_assoc. rewrite D.
        rewrite R by (cbn [length] in Hf; lia). reflexivity.
Qed.

Lemma sfa_read_toc_entry_pfx : pfx_det sfa_read_toc_entry.
Proof.
  intros l a r H. unfold sfa_read_toc_entry in H.
  destruct (rd 8 l) as [[pos l1]|e] eqn:E1; [|discriminate].
  destruct (rd 8 l1) as [[len l2]|e] eqn:E2; [|discriminate].
  destruct (rd 2 l2) as [[nlen l3]|e] eqn:E3; [|discriminate].
  destruct (take_bytes (N.to_nat nlen) l3) as [[name l4]|] eqn:E4; [|discriminate].
  inversion H; subst.
  apply rd_pfx in E1, E2, E3.
  destruct E1 as (c1 & -> & L1 & P1). destruct E2 as (c2 & -> & L2 & P2).
  destruct E3 as (c3 & -> & L3 & P3). apply take_bytes_spec in E4. destruct E4 as [-> L4].
  exists (c1 ++ c2 ++ c3 ++ name). split; [now rewrite <- !app_assoc|]. split.
  - destruct c1; [discriminate|discriminate].
  - intros r'. unfold sfa_read_toc_entry. rewrite <- !app_assoc. rewrite P1, P2, P3.
    rewrite <- L4, take_bytes_app. reflexivity.
Qed.

Lemma key_eqb_true_eq a b : key_eqb a b = true -> a = b.
Proof. apply key_eqb_eq. Qed.

(** the ToC reader consumes [tb] and its result is a function of [tb] alone *)
Lemma sfa_read_toc_pfx file pos entries tb :
  sfa_read_toc file pos = Ok (entries, tb) ->
  (exists rest, skipN pos file = tb ++ rest) /\
  forall file' pos' rest', skipN pos' file' = tb ++ rest' ->
                           sfa_read_toc file' pos' = Ok (entries, tb).
Proof.
  unfold sfa_read_toc. set (l := skipN pos file).
  destruct (take_bytes 4 l) as [[magic l1]|] eqn:E1; [|discriminate].
  destruct (negb (key_eqb magic [84; 79; 67; 33])) eqn:EM; [discriminate|].
  destruct (rd 4 l1) as [[count l2]|e] eqn:E2; [|discriminate].
  destruct (decode_items sfa_read_toc_entry (length l2) count l2) as [[es l3]|e] eqn:E3;
    [|discriminate].
  intros H. injection H as He Htb. subst es.
  apply take_bytes_spec in E1. destruct E1 as [El L1].
  apply rd_pfx in E2. destruct E2 as (a & -> & La & P2).
  apply (decode_items_pfx _ sfa_read_toc_entry_pfx) in E3.
  destruct E3 as (c & Ec & Lc & P3).
  assert (Etb : firstn (length l - length l3) l = magic ++ a ++ c).
  { assert (El' : l = (magic ++ a ++ c) ++ l3) by (rewrite El, Ec; now rewrite <- !app_assoc).
    rewrite El'. apply firstn_app_exact. rewrite !app_length. lia. }
  rewrite Etb in Htb. subst tb. split.
  - exists l3. rewrite El, Ec. now rewrite <- !app_assoc.
  - intros file' pos' rest' H'. rewrite H'. rewrite <- !app_assoc.
    rewrite <- L1 at 1. rewrite take_bytes_app. rewrite EM. rewrite P2.
    rewrite P3 by (rewrite app_length; lia).
    f_equal. f_equal.
    assert (El' : magic ++ a ++ c ++ rest' = (magic ++ a ++ c) ++ rest')
      by (now rewrite <- !app_assoc).
    rewrite El'. apply firstn_app_exact. rewrite !app_length. lia.
Qed.

Lemma skipN_app (body rest : list N) : skipN (N.of_nat (length body)) (body ++ rest) = rest.
Proof.
  unfold skipN. rewrite app_length.
  replace (N.min (N.of_nat (length body)) (N.of_nat (length body + length rest)))
    with (N.of_nat (length body)) by lia.
  rewrite Nat2N.id. now apply skipn_app_exact.
Qed.

Lemma rd_spec w l n r :
  rd w l = Ok (n, r) -> exists a, l = a ++ r /\ length a = w /\ n = le_value a.
Proof.
  unfold rd. destruct (read_le w l) as [[n' r0]|] eqn:E; [|discriminate].
  intros H. inversion H; subst. now apply read_le_spec.
Qed.

Lemma sfa_trailer_length ck p tl : length (sfa_trailer ck p tl) = 38%nat.
Proof.
  unfold sfa_trailer. rewrite !app_length.
  unfold write_u8, write_u128_le, write_u64_le. rewrite !le_bytes_length. reflexivity.
Qed.

Lemma sfa_read_trailer_encode X ck p tl :
  ck < 2 ^ 128 -> p < 2 ^ 64 -> sfa_read_trailer (X ++ sfa_trailer ck p tl) = Ok (ck, p).
Proof.
  intros Hc Hp. unfold sfa_read_trailer. rewrite app_length, sfa_trailer_length.
  assert (F : Nat.ltb (length X + 38) 38 = false) by (apply Nat.ltb_ge; lia).
  rewrite F. replace (length X + 38 - 38)%nat with (length X) by lia.
  rewrite skipn_app_exact by reflexivity. unfold sfa_trailer.
  change 4%nat with (length [83; 70; 65; 33]). rewrite take_bytes_app.
  change (negb (key_eqb [83; 70; 65; 33] [83; 70; 65; 33])) with false. cbv iota.
  rewrite rd1 by lia. change (negb (1 =? 1)) with false. cbv iota.
  rewrite rd1 by lia. change (negb (0 =? 0)) with false. cbv iota.
  rewrite rd16 by exact Hc. rewrite rd8 by exact Hp. reflexivity.
Qed.

(** which bytes of the last 38 the two returned fields come from *)
Lemma sfa_read_trailer_proj file ck p :
  sfa_read_trailer file = Ok (ck, p) ->
  (38 <= length file)%nat /\
  let t := skipn (length file - 38) file in
  ck = le_value (firstn 16 (skipn 6 t)) /\ p = le_value (firstn 8 (skipn 22 t)).
Proof.
  unfold sfa_read_trailer. destruct (Nat.ltb (length file) 38) eqn:F; [discriminate|].
  apply Nat.ltb_ge in F. set (t := skipn (length file - 38) file).
  destruct (take_bytes 4 t) as [[magic t1]|] eqn:E0; [|discriminate].
  destruct (negb (key_eqb magic [83; 70; 65; 33])); [discriminate|].
  destruct (rd 1 t1) as [[ver t2]|e] eqn:E1; [|discriminate].
  destruct (negb (ver =? 1)); [discriminate|].
  destruct (rd 1 t2) as [[ct t3]|e] eqn:E2; [|discriminate].
  destruct (negb (ct =? 0)); [discriminate|].
  destruct (rd 16 t3) as [[ck' t4]|e] eqn:E3; [|discriminate].
  destruct (rd 8 t4) as [[p' t5]|e] eqn:E4; [|discriminate].
  intros H. inversion H; subst ck' p'. split; [exact F|].
  apply take_bytes_spec in E0. destruct E0 as [Et L0].
  apply rd_spec in E1, E2, E3, E4.
  destruct E1 as (c1 & -> & L1 & _). destruct E2 as (c2 & -> & L2 & _).
  destruct E3 as (c3 & -> & L3 & ->). destruct E4 as (c4 & -> & L4 & ->).
  cbv zeta. rewrite Et. split.
  - replace (magic ++ c1 ++ c2 ++ c3 ++ c4 ++ t5) with ((magic ++ c1 ++ c2) ++ c3 ++ c4 ++ t5)
      by (now rewrite <- !app_assoc).
    rewrite skipn_app_exact by (rewrite !app_length; lia).
    now rewrite firstn_app_exact by exact L3.
  - replace (magic ++ c1 ++ c2 ++ c3 ++ c4 ++ t5) with ((magic ++ c1 ++ c2 ++ c3) ++ c4 ++ t5)
      by (now rewrite <- !app_assoc).
    rewrite skipn_app_exact by (rewrite !app_length; lia).
    now rewrite firstn_app_exact by exact L4.
Qed.

Lemma sfa_read_trailer_ext f f' :
  length f = length f' -> skipn (length f - 38) f = skipn (length f' - 38) f' ->
  sfa_read_trailer f = sfa_read_trailer f'.
Proof.
  intros L E. rewrite <- L in E. unfold sfa_read_trailer. rewrite <- L, <- E. reflexivity.
Qed.

Lemma sfa_open_ok_inv file entries :
  sfa_open h128 file = BOk entries ->
  exists ck p tb, sfa_read_trailer file = Ok (ck, p) /\
                  sfa_read_toc file p = Ok (entries, tb) /\ h128 tb = ck.
Proof.
  unfold sfa_open. destruct (sfa_read_trailer file) as [[ck p]|e] eqn:E1; [|discriminate].
  destruct (sfa_read_toc file p) as [[es tb]|e] eqn:E2; [|discriminate].
  destruct (h128 tb =? ck) eqn:E; [|discriminate].
  intros H. injection H as He. subst es. apply N.eqb_eq in E.
  exists ck, p, tb. split; [reflexivity|]. split; [exact E2|exact E].
Qed.

Lemma bres_cases {A} (r : bres A) : (exists a, r = BOk a) \/ (exists e, r = BErr e).
Proof. destruct r; [left|right]; eexists; reflexivity. Qed.

Lemma skipn_skipn_ {A} x y (l : list A) : skipn x (skipn y l) = skipn (y + x) l.
Proof.
  revert l; induction y as [|y IH]; intros l; [reflexivity|].
  destruct l as [|a l]; cbn [skipn plus]; [now rewrite skipn_nil|apply IH].
Qed.

(** an sfa archive: section payloads, table of contents, 38-byte trailer whose checksum
    field is the digest of the ToC bytes and whose [toc_pos] points at them *)
Definition sfa_file (body toc : list N) (tl : N) : list N :=
  body ++ toc ++ sfa_trailer (h128 toc) (N.of_nat (length body)) tl.

(** ** Theorem 3. EVERY byte of an sfa archive, as far as [sfa::Reader] is concerned:
    after any single-byte mutation, opening the archive fails, or yields the same table
    of contents, or other ToC bytes collide with the original ones under [h128].
    (For bytes of the section payloads the answer is always "the same ToC": sfa does not
    look at them, see [sfa_payload_unguarded].) *)
Theorem sfa_guarded body toc tl entries pos b :
  N.of_nat (length body) < 2 ^ 64 ->
  let file := sfa_file body toc tl in
  sfa_read_toc file (N.of_nat (length body)) = Ok (entries, toc) ->
  let r' := sfa_open h128 (mutate file pos b) in
  sfa_open h128 file = BOk entries /\
  ((exists e, r' = BErr e) \/ r' = BOk entries
   \/ (exists c', c' <> toc /\ h128 c' = h128 toc)).
Proof.
  intros Hb file Htoc r'.
  set (pb := N.of_nat (length body)) in *.
  set (T := sfa_trailer (h128 toc) pb tl).
  assert (Ef : file = (body ++ toc) ++ T) by (unfold file, sfa_file; now rewrite <- app_assoc).
  assert (LT : length T = 38%nat) by apply sfa_trailer_length.
  assert (Lf : length file = (length body + length toc + 38)%nat).
  { rewrite Ef, !app_length, LT. reflexivity. }
  assert (F1 : sfa_read_trailer file = Ok (h128 toc, pb)).
  { rewrite Ef. apply sfa_read_trailer_encode; [apply h128_range|exact Hb]. }
  assert (F2 : sfa_open h128 file = BOk entries).
  { unfold sfa_open. rewrite F1, Htoc, N.eqb_refl. reflexivity. }
  split; [exact F2|].
  destruct (bres_cases r') as [[es' Hr]|[e He]]; [|left; exists e; exact He].
  pose proof Hr as Hr0. apply sfa_open_ok_inv in Hr.
  destruct Hr as (ck' & p' & tb' & T' & C' & Hh).
  set (file' := mutate file pos b) in *.
  assert (Lf' : length file' = length file) by apply mutate_length.
  assert (Sk : skipN pb file = toc ++ T).
  { unfold file, sfa_file, pb. apply skipN_app. }
  destruct (sfa_read_toc_pfx _ _ _ _ Htoc) as [_ Puse].
  destruct (sfa_read_toc_pfx _ _ _ _ C') as [_ Puse'].
  assert (Claim : ck' = h128 toc \/ (p' = pb /\ exists T2, skipN pb file' = toc ++ T2)).
  { destruct (Nat.ltb pos (length body + length toc)) eqn:Cp.
    - apply Nat.ltb_lt in Cp. left.
      assert (E : sfa_read_trailer file' = sfa_read_trailer file).
      { apply sfa_read_trailer_ext; [exact Lf'|]. rewrite Lf'. unfold file'.
        apply skipn_mutate_before. lia. }
      rewrite E, F1 in T'. now inversion T'.
    - apply Nat.ltb_ge in Cp.
      apply sfa_read_trailer_proj in T'. destruct T' as [_ [Hck' Hp']].
      apply sfa_read_trailer_proj in F1. destruct F1 as [_ [Hck Hp]].
      rewrite skipn_skipn_ in Hck', Hp', Hck, Hp. rewrite Lf' in Hck', Hp'.
      set (i := (pos - (length body + length toc))%nat).
      destruct (Nat.ltb i 6 || Nat.leb 22 i) eqn:Ci.
      + left. rewrite Hck', Hck. unfold file'. f_equal.
        apply segment_mutate_outside.
        apply orb_true_iff in Ci. destruct Ci as [Ci|Ci];
          [apply Nat.ltb_lt in Ci|apply Nat.leb_le in Ci]; unfold i in Ci; lia.
      + right. apply orb_false_iff in Ci. destruct Ci as [Ci1 Ci2].
        apply Nat.ltb_ge in Ci1. apply Nat.leb_gt in Ci2. split.
        * rewrite Hp', Hp. unfold file'. f_equal. apply segment_mutate_outside.
          unfold i in Ci2. lia.
        * exists (mutate T i b). unfold file'. rewrite Ef.
          rewrite mutate_app_r by (rewrite app_length; lia).
          rewrite app_length. fold i. rewrite <- app_assoc. unfold pb. apply skipN_app. }
  destruct Claim as [Eck|[Ep [T2 Sk']]].
  - rewrite Eck in Hh. destruct (list_N_dec tb' toc) as [Et|NE].
    + subst tb'. specialize (Puse' file pb T Sk). rewrite Htoc in Puse'.
      inversion Puse'; subst es'. right; left. exact Hr0.
    + right; right. exists tb'. split; assumption.
  - specialize (Puse file' pb T2 Sk'). rewrite Ep, Puse in C'.
    inversion C'; subst es'. right; left. exact Hr0.
Qed.

(** sfa itself does not protect section payloads: any mutation there is invisible to it *)
Theorem sfa_payload_unguarded body toc tl entries pos b :
  N.of_nat (length body) < 2 ^ 64 -> (pos < length body)%nat ->
  let file := sfa_file body toc tl in
  sfa_read_toc file (N.of_nat (length body)) = Ok (entries, toc) ->
  sfa_open h128 (mutate file pos b) = BOk entries.
Proof.
  intros Hb Hpos file Htoc.
  set (pb := N.of_nat (length body)) in *.
  set (T := sfa_trailer (h128 toc) pb tl).
  assert (Ef' : mutate file pos b = (mutate body pos b ++ toc) ++ T).
  { unfold file, sfa_file. rewrite mutate_app_l by exact Hpos. now rewrite <- app_assoc. }
  assert (Lb : N.of_nat (length (mutate body pos b)) = pb) by (now rewrite mutate_length).
  destruct (sfa_read_toc_pfx _ _ _ _ Htoc) as [_ Puse].
  unfold sfa_open. rewrite Ef'. unfold T at 1.
  rewrite sfa_read_trailer_encode by (try apply h128_range; exact Hb).
  rewrite (Puse _ pb T).
  - now rewrite N.eqb_refl.
  - rewrite <- app_assoc. rewrite <- Lb. apply skipN_app.
Qed.

(** neither does it read the trailer's last field (toc_len) *)
Theorem sfa_toc_len_unread body toc tl entries pos b :
  N.of_nat (length body) < 2 ^ 64 ->
  (length body + length toc + 30 <= pos)%nat ->
  let file := sfa_file body toc tl in
  sfa_read_toc file (N.of_nat (length body)) = Ok (entries, toc) ->
  sfa_open h128 (mutate file pos b) = BOk entries.
Proof.
  intros Hb Hpos file Htoc.
  set (pb := N.of_nat (length body)) in *.
  set (T := sfa_trailer (h128 toc) pb tl).
  assert (LT : length T = 38%nat) by apply sfa_trailer_length.
  set (i := (pos - (length body + length toc))%nat).
  assert (Ef' : mutate file pos b = (body ++ toc) ++ mutate T i b).
  { unfold file, sfa_file. fold pb. fold T. rewrite app_assoc.
    rewrite mutate_app_r by (rewrite app_length; lia). rewrite app_length. reflexivity. }
  (* the first 30 bytes of the trailer are intact *)
  assert (ET : mutate T i b = firstn 30 T ++ mutate (skipn 30 T) (i - 30) b).
  { rewrite <- (firstn_skipn 30 T) at 1. rewrite mutate_app_r; rewrite firstn_length, LT.
    - reflexivity.
    - unfold i. lia. }
  assert (ET2 : exists x, mutate (skipn 30 T) (i - 30) b = x /\ length x = 8%nat).
  { eexists. split; [reflexivity|]. rewrite mutate_length, skipn_length, LT. reflexivity. }
  destruct ET2 as (x & Ex & Lx). rewrite Ex in ET.
  assert (E30 : firstn 30 T = [83; 70; 65; 33] ++ write_u8 1 ++ write_u8 0
                              ++ write_u128_le (h128 toc) ++ write_u64_le pb).
  { unfold T, sfa_trailer. rewrite !app_assoc. apply firstn_app_exact.
    rewrite !app_length. unfold write_u8, write_u128_le, write_u64_le.
    rewrite !le_bytes_length. reflexivity. }
  destruct (sfa_read_toc_pfx _ _ _ _ Htoc) as [_ Puse].
  assert (Tr : sfa_read_trailer (mutate file pos b) = Ok (h128 toc, pb)).
  { assert (L30 : length (firstn 30 T ++ x) = 38%nat).
    { rewrite app_length, firstn_length, LT, Lx. reflexivity. }
    rewrite Ef', ET. unfold sfa_read_trailer. rewrite app_length, L30.
    assert (F : Nat.ltb (length (body ++ toc) + 38) 38 = false) by (apply Nat.ltb_ge; lia).
    rewrite F.
    replace (length (body ++ toc) + 38 - 38)%nat with (length (body ++ toc)) by lia.
    rewrite skipn_app_exact by reflexivity. rewrite E30, <- !app_assoc.
    change 4%nat with (length [83; 70; 65; 33]). rewrite take_bytes_app.
    change (negb (key_eqb [83; 70; 65; 33] [83; 70; 65; 33])) with false. cbv iota.
    rewrite rd1 by lia. change (negb (1 =? 1)) with false. cbv iota.
    rewrite rd1 by lia. change (negb (0 =? 0)) with false. cbv iota.
    rewrite rd16 by apply h128_range. rewrite rd8 by exact Hb. reflexivity. }
  unfold sfa_open. rewrite Tr. rewrite (Puse _ pb (mutate T i b)).
  - now rewrite N.eqb_refl.
  - rewrite Ef', <- app_assoc. unfold pb. apply skipN_app.
Qed.

(** * E. Blob frames ([Reader::get]) *)

Lemma take_bytes_app_w w (a r : list N) : length a = w -> take_bytes w (a ++ r) = Some (a, r).
Proof. intros <-. apply take_bytes_app. Qed.

Lemma read_le_app_w w (a r : list N) : length a = w -> read_le w (a ++ r) = Some (le_value a, r).
Proof. intros <-. apply read_le_app. Qed.

Lemma take_bytes_firstn n (l : list N) :
  (n <= length l)%nat -> take_bytes n l = Some (firstn n l, skipn n l).
Proof.
  intros H. rewrite <- (firstn_skipn n l) at 1. apply take_bytes_app_w.
  rewrite firstn_length. lia.
Qed.

(** what [Reader::get] computes from the seven parts of the frame it has read *)
Definition blob_parts_result (dbg : bool) (klen : nat) (m k kl rv body : list N) : bres (list N) :=
  if negb (list_N_eqb m BLOB_HEADER_MAGIC) then BErr XInvalidHeader else
  match take_bytes (N.to_nat (le_value kl)) body with
  | None => BErr XEof
  | Some (fkey, _) =>
      let raw := skipn klen body in
      if h128 (fkey ++ raw) =? le_value k
      then if dbg && negb (le_value rv =? trunc 32 (N.of_nat (length raw)))
           then BErr XPanic else BOk raw
      else BErr XChecksumMismatch
  end.

Lemma read_blob_frame_parts dbg pre post (m k s kl rv od body key : list N) odsz :
  length m = 4%nat -> length k = 16%nat -> length s = 8%nat -> length kl = 2%nat ->
  length rv = 4%nat -> length od = 4%nat -> length body = (length key + odsz)%nat ->
  read_blob_frame h128 dbg (pre ++ (m ++ k ++ s ++ kl ++ rv ++ od ++ body) ++ post)
                  (length pre) odsz key
  = blob_parts_result dbg (length key) m k kl rv body.
Proof.
  intros Lm Lk Ls Lkl Lrv Lod Lb. unfold read_blob_frame, blob_parts_result.
  set (F := m ++ k ++ s ++ kl ++ rv ++ od ++ body).
  assert (LF : length F = (odsz + (BLOB_HEADER_LEN + length key))%nat).
  { unfold F, BLOB_HEADER_LEN. rewrite !app_length. lia. }
  rewrite <- LF, pread_app. unfold F at 1.
  rewrite (take_bytes_app_w 4 m _ Lm).
  destruct (negb (list_N_eqb m BLOB_HEADER_MAGIC)); [reflexivity|].
  unfold read_u128_le, read_u64_le, read_u16_le, read_u32_le.
  rewrite (read_le_app_w 16 k _ Lk), (read_le_app_w 8 s _ Ls), (read_le_app_w 2 kl _ Lkl),
    (read_le_app_w 4 rv _ Lrv), (read_le_app_w 4 od _ Lod).
  assert (Sk : skipn (BLOB_HEADER_LEN + length key) F = skipn (length key) body).
  { unfold F. replace (m ++ k ++ s ++ kl ++ rv ++ od ++ body)
      with ((m ++ k ++ s ++ kl ++ rv ++ od) ++ body) by (now rewrite <- !app_assoc).
    rewrite <- skipn_skipn_. rewrite skipn_app_exact; [reflexivity|].
    unfold BLOB_HEADER_LEN. rewrite !app_length. lia. }
  rewrite Sk. reflexivity.
Qed.

Lemma take_bytes_none_or n (l : list N) :
  take_bytes n l = None \/ exists a r, take_bytes n l = Some (a, r) /\ l = a ++ r /\ length a = n.
Proof.
  destruct (take_bytes n l) as [[a r]|] eqn:E; [|now left].
  right. exists a, r. split; [reflexivity|]. now apply take_bytes_spec.
Qed.

(** ** Theorem 4. Every byte of a blob frame, as far as a point read is concerned.
    The frame was written by [Writer::write] for [key], [value]; the value handle
    (offset, on-disk size) is the right one. After any single-byte mutation inside the
    frame, the read fails, or returns [value], or some other byte string collides with
    [key ++ value] under [h128]. *)
Theorem blob_frame_guarded dbg pre post key seqno value pos b :
  N.of_nat (length key) < 2 ^ 16 ->
  let F := encode_blob_frame h128 key seqno value (trunc 32 (N.of_nat (length value))) in
  (length pre <= pos < length pre + length F)%nat ->
  let file := pre ++ F ++ post in
  let r' := read_blob_frame h128 dbg (mutate file pos b) (length pre) (length value) key in
  read_blob_frame h128 dbg file (length pre) (length value) key = BOk value /\
  ((exists e, r' = BErr e) \/ r' = BOk value
   \/ (exists x, x <> key ++ value /\ h128 x = h128 (key ++ value))).
Proof.
  intros Hk F Hpos file r'.
  set (m := BLOB_HEADER_MAGIC). set (k := write_u128_le (h128 (key ++ value))).
  set (s := write_u64_le seqno). set (kl := write_u16_le (trunc 16 (N.of_nat (length key)))).
  set (rv := write_u32_le (trunc 32 (N.of_nat (length value)))).
  set (od := write_u32_le (trunc 32 (N.of_nat (length value)))).
  set (body := key ++ value).
  assert (EF : F = m ++ k ++ s ++ kl ++ rv ++ od ++ body) by reflexivity.
  assert (Lm : length m = 4%nat) by reflexivity.
  assert (Lk : length k = 16%nat) by apply le_bytes_length.
  assert (Ls : length s = 8%nat) by apply le_bytes_length.
  assert (Lkl : length kl = 2%nat) by apply le_bytes_length.
  assert (Lrv : length rv = 4%nat) by apply le_bytes_length.
  assert (Lod : length od = 4%nat) by apply le_bytes_length.
  assert (Lb : length body = (length key + length value)%nat) by apply app_length.
  assert (LF : length F = (38 + length body)%nat).
  { rewrite EF, !app_length. lia. }
  assert (Vk : le_value k = h128 (key ++ value)).
  { unfold k, write_u128_le. apply le_lossless_iff. apply h128_range. }
  assert (Vkl : N.to_nat (le_value kl) = length key).
  { unfold kl, write_u16_le. rewrite le_value_le_bytes.
    change (2 ^ (8 * N.of_nat 2)) with (2 ^ 16). unfold trunc. rewrite N.mod_mod by apply pow2_nz.
    rewrite N.mod_small by exact Hk. apply Nat2N.id. }
  assert (Vrv : le_value rv = trunc 32 (N.of_nat (length value))).
  { unfold rv, write_u32_le. rewrite le_value_le_bytes.
    change (2 ^ (8 * N.of_nat 4)) with (2 ^ 32). apply trunc_idem. }
  assert (Sv : skipn (length key) body = value).
  { unfold body. now apply skipn_app_exact. }
  (* with intact magic, key length and key/value bytes *)
  assert (G : forall k' rv',
    blob_parts_result dbg (length key) m k' kl rv' body =
    if h128 (key ++ value) =? le_value k'
    then if dbg && negb (le_value rv' =? trunc 32 (N.of_nat (length value)))
         then BErr XPanic else BOk value
    else BErr XChecksumMismatch).
  { intros k' rv'. unfold blob_parts_result.
    change (negb (list_N_eqb m BLOB_HEADER_MAGIC)) with false. cbv iota.
    rewrite Vkl. unfold body at 1. rewrite take_bytes_app. cbv zeta. rewrite Sv. reflexivity. }
  assert (G0 : blob_parts_result dbg (length key) m k kl rv body = BOk value).
  { rewrite G, Vk, N.eqb_refl, Vrv, N.eqb_refl. cbn [negb]. rewrite andb_false_r. reflexivity. }
  assert (R0 : read_blob_frame h128 dbg file (length pre) (length value) key = BOk value).
  { unfold file. rewrite EF. rewrite read_blob_frame_parts by assumption. exact G0. }
  split; [exact R0|].
  set (i := (pos - length pre)%nat).
  assert (Hi : (i < 38 + length body)%nat) by (unfold i; lia).
  assert (Ef : mutate file pos b = pre ++ mutate F i b ++ post).
  { unfold file, i. apply mutate_middle. lia. }
  unfold r'. rewrite Ef.
  destruct (Nat.ltb i 4) eqn:C1.
  { (* magic *)
    apply Nat.ltb_lt in C1.
    assert (E : mutate F i b = mutate m i b ++ k ++ s ++ kl ++ rv ++ od ++ body).
    { rewrite EF. apply mutate_app_l. lia. }
    rewrite E, read_blob_frame_parts by (try rewrite mutate_length; assumption).
    destruct (list_N_eqb (mutate m i b) BLOB_HEADER_MAGIC) eqn:Em.
    - apply list_N_eqb_iff in Em. rewrite Em. right; left. exact G0.
    - left. unfold blob_parts_result. rewrite Em. eexists. reflexivity. }
  apply Nat.ltb_ge in C1. destruct (Nat.ltb i 20) eqn:C2.
  { (* stored checksum *)
    apply Nat.ltb_lt in C2.
    assert (E : mutate F i b = m ++ mutate k (i - 4) b ++ s ++ kl ++ rv ++ od ++ body).
    { rewrite EF. rewrite mutate_app_r by lia. f_equal. apply mutate_app_l. lia. }
    rewrite E, read_blob_frame_parts by (try rewrite mutate_length; assumption).
    rewrite G. destruct (h128 (key ++ value) =? le_value (mutate k (i - 4) b)).
    - right; left. rewrite Vrv, N.eqb_refl. cbn [negb]. rewrite andb_false_r. reflexivity.
    - left. eexists. reflexivity. }
  apply Nat.ltb_ge in C2. destruct (Nat.ltb i 28) eqn:C3.
  { (* seqno: not looked at *)
    apply Nat.ltb_lt in C3.
    assert (E : mutate F i b = m ++ k ++ mutate s (i - 20) b ++ kl ++ rv ++ od ++ body).
    { rewrite EF. rewrite mutate_app_r by lia. f_equal. rewrite mutate_app_r by lia. f_equal.
      rewrite Lm, Lk. replace (i - 4 - 16)%nat with (i - 20)%nat by lia. apply mutate_app_l. lia. }
    rewrite E, read_blob_frame_parts by (try rewrite mutate_length; assumption).
    right; left. exact G0. }
  apply Nat.ltb_ge in C3.
  assert (EF2 : F = (m ++ k ++ s) ++ kl ++ rv ++ od ++ body) by (rewrite EF; now rewrite <- !app_assoc).
  assert (L3 : length (m ++ k ++ s) = 28%nat) by (rewrite !app_length; lia).
  destruct (Nat.ltb i 30) eqn:C4.
  { (* key length: selects the key bytes that are hashed *)
    apply Nat.ltb_lt in C4.
    assert (E : mutate F i b = m ++ k ++ s ++ mutate kl (i - 28) b ++ rv ++ od ++ body).
    { rewrite EF2. rewrite mutate_app_r by lia. rewrite L3. rewrite mutate_app_l by lia.
      now rewrite <- !app_assoc. }
    rewrite E, read_blob_frame_parts by (try rewrite mutate_length; assumption).
    unfold blob_parts_result.
    change (negb (list_N_eqb m BLOB_HEADER_MAGIC)) with false. cbv iota.
    set (n' := N.to_nat (le_value (mutate kl (i - 28) b))).
    destruct (take_bytes_none_or n' body) as [En|(fk & rest & En & Eb & Lfk)]; rewrite En.
    - left. eexists. reflexivity.
    - cbv zeta. rewrite Sv, Vk.
      destruct (h128 (fk ++ value) =? h128 (key ++ value)) eqn:Eh; [|left; eexists; reflexivity].
      apply N.eqb_eq in Eh. destruct (list_N_dec (fk ++ value) (key ++ value)) as [Ex|NEx].
      + right; left. rewrite Vrv, N.eqb_refl. cbn [negb]. rewrite andb_false_r. reflexivity.
      + right; right. exists (fk ++ value). split; assumption. }
  apply Nat.ltb_ge in C4. destruct (Nat.ltb i 34) eqn:C5.
  { (* real value length: only a debug assertion *)
    apply Nat.ltb_lt in C5.
    assert (E : mutate F i b = m ++ k ++ s ++ kl ++ mutate rv (i - 30) b ++ od ++ body).
    { rewrite EF2. rewrite mutate_app_r by lia. rewrite L3. rewrite mutate_app_r by lia.
      rewrite Lkl. replace (i - 28 - 2)%nat with (i - 30)%nat by lia.
      rewrite mutate_app_l by lia. now rewrite <- !app_assoc. }
    rewrite E, read_blob_frame_parts by (try rewrite mutate_length; assumption).
    rewrite G, Vk, N.eqb_refl.
    destruct (dbg && negb (le_value (mutate rv (i - 30) b) =? trunc 32 (N.of_nat (length value)))).
    - left. eexists. reflexivity.
    - right; left. reflexivity. }
  apply Nat.ltb_ge in C5. destruct (Nat.ltb i 38) eqn:C6.
  { (* on-disk value length: not looked at *)
    apply Nat.ltb_lt in C6.
    assert (E : mutate F i b = m ++ k ++ s ++ kl ++ rv ++ mutate od (i - 34) b ++ body).
    { rewrite EF2. rewrite mutate_app_r by lia. rewrite L3. rewrite mutate_app_r by lia.
      rewrite Lkl. rewrite mutate_app_r by lia. rewrite Lrv.
      replace (i - 28 - 2 - 4)%nat with (i - 34)%nat by lia.
      rewrite mutate_app_l by lia. now rewrite <- !app_assoc. }
    rewrite E, read_blob_frame_parts by (try rewrite mutate_length; assumption).
    right; left. exact G0. }
  apply Nat.ltb_ge in C6.
  (* key and value bytes: covered by the frame checksum *)
  set (body' := mutate body (i - 38) b).
  assert (Lb' : length body' = (length key + length value)%nat).
  { unfold body'. rewrite mutate_length. exact Lb. }
  assert (E : mutate F i b = m ++ k ++ s ++ kl ++ rv ++ od ++ body').
  { rewrite EF2. rewrite mutate_app_r by lia. rewrite L3. rewrite mutate_app_r by lia.
    rewrite Lkl. rewrite mutate_app_r by lia. rewrite Lrv. rewrite mutate_app_r by lia.
    rewrite Lod. replace (i - 28 - 2 - 4 - 4)%nat with (i - 38)%nat by lia.
    now rewrite <- !app_assoc. }
  rewrite E, read_blob_frame_parts by assumption.
  unfold blob_parts_result.
  change (negb (list_N_eqb m BLOB_HEADER_MAGIC)) with false. cbv iota.
  rewrite Vkl, take_bytes_firstn by lia. cbv zeta. rewrite firstn_skipn, Vk.
  destruct (h128 body' =? h128 (key ++ value)) eqn:Eh; [|left; eexists; reflexivity].
  apply N.eqb_eq in Eh. destruct (list_N_dec body' body) as [Ex|NEx].
  - right; left. rewrite Ex, Sv, Vrv, N.eqb_refl. cbn [negb]. rewrite andb_false_r. reflexivity.
  - right; right. exists body'. split; assumption.
Qed.

(** ** What the sfa WRITER produces satisfies the hypotheses of Theorem 3 *)

Definition toc_entry_ok (e : list N * N * N) : Prop :=
  match e with (n, pos, len) => pos < 2 ^ 64 /\ len < 2 ^ 64 /\ N.of_nat (length n) < 2 ^ 16 end.

Lemma sfa_read_toc_entry_encode e r :
  toc_entry_ok e -> sfa_read_toc_entry (sfa_toc_entry e ++ r) = Ok (e, r).
Proof.
  destruct e as [[n pos] len]. intros (Hp & Hl & Hn). unfold sfa_read_toc_entry, sfa_toc_entry.
  rewrite <- !app_assoc. rewrite rd8 by exact Hp. rewrite rd8 by exact Hl. rewrite rd2 by exact Hn.
  rewrite Nat2N.id, take_bytes_app. reflexivity.
Qed.

Lemma sfa_toc_entries_length secs : forall pos, length (sfa_toc_entries pos secs) = length secs.
Proof.
  induction secs as [|[n p] secs IH]; intros pos; cbn [sfa_toc_entries length]; [reflexivity|].
  now rewrite IH.
Qed.

Lemma sfa_toc_entry_len e : (1 <= length (sfa_toc_entry e))%nat.
Proof.
  destruct e as [[n pos] len]. unfold sfa_toc_entry. rewrite !app_length.
  unfold write_u64_le. rewrite !le_bytes_length. lia.
Qed.

Lemma sfa_read_toc_encode secs body rest :
  N.of_nat (length secs) < 2 ^ 32 ->
  (forall e, In e (sfa_toc_entries 0 secs) -> toc_entry_ok e) ->
  sfa_read_toc (body ++ sfa_toc secs ++ rest) (N.of_nat (length body))
  = Ok (sfa_toc_entries 0 secs, sfa_toc secs).
Proof.
  intros Hn He. unfold sfa_read_toc. rewrite skipN_app.
  set (es := sfa_toc_entries 0 secs).
  assert (Et : sfa_toc secs = [84; 79; 67; 33] ++ write_u32_le (N.of_nat (length es))
                              ++ flat_map sfa_toc_entry es).
  { unfold sfa_toc, es. now rewrite sfa_toc_entries_length. }
  rewrite Et, <- !app_assoc.
  rewrite (take_bytes_app_w 4 [84; 79; 67; 33] _ eq_refl).
  change (negb (key_eqb [84; 79; 67; 33] [84; 79; 67; 33])) with false. cbv iota.
  rewrite rd4 by (unfold es; now rewrite sfa_toc_entries_length).
  rewrite decode_items_roundtrip_len.
  - f_equal. f_equal.
    replace ([84; 79; 67; 33] ++ write_u32_le (N.of_nat (length es)) ++ flat_map sfa_toc_entry es ++ rest)
      with (([84; 79; 67; 33] ++ write_u32_le (N.of_nat (length es)) ++ flat_map sfa_toc_entry es) ++ rest)
      by (now rewrite <- !app_assoc).
    apply firstn_app_exact. rewrite !app_length. lia.
  - intros a r Hin. apply sfa_read_toc_entry_encode. now apply He.
  - intros a _. apply sfa_toc_entry_len.
Qed.

(** sufficient, checkable conditions on the sections *)
Definition sfa_secs_ok (secs : list section) : Prop :=
  N.of_nat (length secs) < 2 ^ 32 /\ N.of_nat (length (sfa_body secs)) < 2 ^ 64 /\
  Forall (fun s => N.of_nat (length (fst s)) < 2 ^ 16) secs.

Lemma sfa_toc_entries_ok secs : forall pos,
  Forall (fun s => N.of_nat (length (fst s)) < 2 ^ 16) secs ->
  pos + N.of_nat (length (sfa_body secs)) < 2 ^ 64 ->
  forall e, In e (sfa_toc_entries pos secs) -> toc_entry_ok e.
Proof.
  induction secs as [|[n p] secs IH]; intros pos Hn Hb e Hin; [destruct Hin|].
  cbn [sfa_toc_entries] in Hin. unfold sfa_body in Hb. cbn [flat_map snd] in Hb.
  rewrite app_length in Hb. fold (sfa_body secs) in Hb. inversion Hn; subst.
  destruct Hin as [<-|Hin].
  - cbn [fst] in *. repeat split; try assumption; lia.
  - eapply IH; [eassumption| |exact Hin]. lia.
Qed.

Theorem sfa_encode_opens secs :
  sfa_secs_ok secs ->
  sfa_encode secs (h128 (sfa_toc secs))
  = sfa_file (sfa_body secs) (sfa_toc secs) (N.of_nat (length (sfa_toc secs)))
  /\ sfa_read_toc (sfa_encode secs (h128 (sfa_toc secs))) (N.of_nat (length (sfa_body secs)))
     = Ok (sfa_toc_entries 0 secs, sfa_toc secs)
  /\ sfa_open h128 (sfa_encode secs (h128 (sfa_toc secs))) = BOk (sfa_toc_entries 0 secs).
Proof.
  intros (Hn & Hb & Hnames).
  assert (E : sfa_encode secs (h128 (sfa_toc secs))
              = sfa_file (sfa_body secs) (sfa_toc secs) (N.of_nat (length (sfa_toc secs))))
    by reflexivity.
  assert (R : sfa_read_toc (sfa_encode secs (h128 (sfa_toc secs))) (N.of_nat (length (sfa_body secs)))
              = Ok (sfa_toc_entries 0 secs, sfa_toc secs)).
  { rewrite E. unfold sfa_file. apply sfa_read_toc_encode; [exact Hn|].
    apply sfa_toc_entries_ok; [exact Hnames|lia]. }
  split; [exact E|]. split; [exact R|].
  rewrite E in R |- *.
  exact (proj1 (sfa_guarded (sfa_body secs) (sfa_toc secs) _ _ O 0 Hb R)).
Qed.

(** * F. A whole table file in regions *)

Fixpoint contiguous (off : nat) (rs : list region) (e : nat) : Prop :=
  match rs with
  | [] => off = e
  | r :: rs' => region_off r = off /\ contiguous (off + region_len r) rs' e
  end.

Lemma contiguous_app rs1 : forall off mid rs2 e,
  contiguous off rs1 mid -> contiguous mid rs2 e -> contiguous off (rs1 ++ rs2) e.
Proof.
  induction rs1 as [|r rs1 IH]; intros off mid rs2 e H1 H2; cbn [contiguous app] in *.
  - now subst.
  - destruct H1 as [Ho H1]. split; [exact Ho|]. eapply IH; eassumption.
Qed.

Lemma contiguous_off_ge rs : forall off e r,
  contiguous off rs e -> In r rs -> (off <= region_off r)%nat.
Proof.
  induction rs as [|r0 rs IH]; intros off e r H Hin; [destruct Hin|].
  cbn [contiguous] in H. destruct H as [Ho H]. destruct Hin as [<-|Hin]; [lia|].
  specialize (IH _ _ _ H Hin). lia.
Qed.

(** a contiguous layout: every offset lies in exactly one region *)
Lemma contiguous_locate rs : forall off e pos,
  contiguous off rs e -> (off <= pos < e)%nat ->
  exists r, locate pos rs = Some r /\ In r rs /\ in_region pos r = true /\
            forall r', In r' rs -> in_region pos r' = true -> r' = r.
Proof.
  induction rs as [|r rs IH]; intros off e pos H Hp.
  - cbn [contiguous] in H. lia.
  - cbn [contiguous] in H. destruct H as [Ho H]. destruct (in_region pos r) eqn:I.
    + exists r. split; [cbn [locate]; now rewrite I|]. split; [now left|].
      split; [exact I|]. intros r' [<-|Hin] I'; [reflexivity|].
      pose proof (contiguous_off_ge _ _ _ _ H Hin) as G.
      unfold in_region in I, I'. apply andb_true_iff in I, I'.
      destruct I as [_ I2], I' as [I1' _]. apply Nat.ltb_lt in I2. apply Nat.leb_le in I1'. lia.
    + assert (Hp' : (off + region_len r <= pos < e)%nat).
      { unfold in_region in I. apply andb_false_iff in I. destruct I as [I|I].
        - apply Nat.leb_gt in I. lia.
        - apply Nat.ltb_ge in I. lia. }
      destruct (IH _ _ _ H Hp') as (r0 & L & Hin & I0 & U).
      exists r0. split; [cbn [locate]; rewrite I; exact L|]. split; [now right|].
      split; [exact I0|]. intros r' [<-|Hin'] I'; [congruence|]. now apply U.
Qed.

Lemma encode_block_length t p : length (encode_block h128 t p) = (33 + length p)%nat.
Proof. rewrite encode_block_is_block_bytes. apply block_bytes_length. Qed.

Lemma tcontent_bytes_length c : length (tcontent_bytes h128 c) = tcontent_len c.
Proof.
  destruct c as [bs|r]; [|reflexivity]. cbn [tcontent_bytes tcontent_len].
  induction bs as [|[t p] bs IH]; [reflexivity|].
  cbn [flat_map fold_right fst snd]. rewrite app_length, encode_block_length, IH.
  unfold header_serialized_len. lia.
Qed.

Lemma sfa_body_length secs :
  length (sfa_body (tsections_plain h128 secs)) = sections_len secs.
Proof.
  unfold sfa_body, tsections_plain.
  induction secs as [|[n c] secs IH]; [reflexivity|].
  cbn [map flat_map snd fst sections_len fold_right].
  rewrite app_length, tcontent_bytes_length. fold (sections_len secs). now rewrite IH.
Qed.

Lemma sfa_toc_entries_flat_length ss : forall pos,
  length (flat_map sfa_toc_entry (sfa_toc_entries pos ss))
  = fold_right (fun (s : section) a => (18 + length (fst s) + a)%nat) O ss.
Proof.
  induction ss as [|[n p] ss IH]; intros pos; [reflexivity|].
  cbn [sfa_toc_entries flat_map fold_right fst]. rewrite app_length, IH.
  unfold sfa_toc_entry. rewrite !app_length. unfold write_u64_le, write_u16_le.
  rewrite !le_bytes_length. lia.
Qed.

Lemma sfa_toc_length secs : length (sfa_toc (tsections_plain h128 secs)) = toc_len secs.
Proof.
  assert (E : fold_right (fun (s : section) a => (18 + length (fst s) + a)%nat) O
                         (tsections_plain h128 secs)
              = fold_right (fun (s : tsection) a => (18 + length (fst s) + a)%nat) O secs).
  { unfold tsections_plain. induction secs as [|[n c] secs IH]; [reflexivity|].
    cbn [map fold_right fst]. now rewrite IH. }
  unfold sfa_toc, toc_len. rewrite !app_length, sfa_toc_entries_flat_length, E.
  unfold write_u32_le. rewrite le_bytes_length. cbn [length]. unfold tsection. lia.
Qed.

Lemma table_file_length secs :
  length (table_file_bytes h128 secs) = (sections_len secs + toc_len secs + 38)%nat.
Proof.
  unfold table_file_bytes, sfa_encode. cbv zeta.
  rewrite !app_length, sfa_body_length, sfa_toc_length, sfa_trailer_length. lia.
Qed.

Lemma block_regions_contig bs : forall off,
  contiguous off (block_regions off bs) (off + tcontent_len (TBlocks bs)).
Proof.
  induction bs as [|[t p] bs IH]; intros off; cbn [block_regions contiguous tcontent_len fold_right].
  - lia.
  - split; [reflexivity|]. cbn [region_len snd].
    replace (off + (header_serialized_len + length p
             + fold_right (fun tb a => (header_serialized_len + length (snd tb) + a)%nat) O bs))%nat
      with ((off + (header_serialized_len + length p)) + tcontent_len (TBlocks bs))%nat
      by (cbn [tcontent_len]; lia).
    apply IH.
Qed.

Lemma section_regions_contig secs : forall off,
  contiguous off (section_regions off secs) (off + sections_len secs).
Proof.
  induction secs as [|[n c] secs IH]; intros off.
  - cbn. lia.
  - cbn [section_regions]. apply contiguous_app with (mid := (off + tcontent_len c)%nat).
    + destruct c as [bs|r].
      * apply block_regions_contig.
      * cbn [contiguous region_off region_len tcontent_len]. split; reflexivity.
    + change (off + sections_len ((n, c) :: secs))%nat
        with (off + (tcontent_len c + sections_len secs))%nat.
      rewrite Nat.add_assoc. apply IH.
Qed.

Lemma regions_contig secs :
  contiguous 0 (regions_of_table_file secs) (sections_len secs + toc_len secs + 38).
Proof.
  unfold regions_of_table_file. cbv zeta.
  apply contiguous_app with (mid := sections_len secs).
  - exact (section_regions_contig secs 0).
  - cbn [contiguous region_off region_len]. repeat split; lia.
Qed.

(** where a region's bytes are *)
Lemma block_regions_in bs : forall off r,
  In r (block_regions off bs) ->
  exists pre t p post,
    tcontent_bytes h128 (TBlocks bs) = pre ++ encode_block h128 t p ++ post /\
    r = RBlock (off + length pre) (33 + length p).
Proof.
  induction bs as [|[t p] bs IH]; intros off r Hin; [destruct Hin|].
  cbn [block_regions] in Hin. destruct Hin as [<-|Hin].
  - exists [], t, p, (tcontent_bytes h128 (TBlocks bs)). split; [reflexivity|].
    cbn [length]. now rewrite Nat.add_0_r.
  - apply IH in Hin. destruct Hin as (pre & t' & p' & post & E & ->).
    exists (encode_block h128 t p ++ pre), t', p', post. split.
    + cbn [tcontent_bytes flat_map fst snd] in *. rewrite E. now rewrite <- app_assoc.
    + rewrite app_length, encode_block_length. unfold header_serialized_len. f_equal. lia.
Qed.

Definition plain_body (secs : list tsection) : list N := sfa_body (tsections_plain h128 secs).

Lemma plain_body_cons n c secs :
  plain_body ((n, c) :: secs) = tcontent_bytes h128 c ++ plain_body secs.
Proof. reflexivity. Qed.

Lemma section_regions_in secs : forall off r,
  In r (section_regions off secs) ->
  (exists pre t p post,
      plain_body secs = pre ++ encode_block h128 t p ++ post /\
      r = RBlock (off + length pre) (33 + length p))
  \/ (exists pre name raw post,
      plain_body secs = pre ++ raw ++ post /\
      r = RRaw name (off + length pre) (length raw) /\ In (name, TRaw raw) secs).
Proof.
  induction secs as [|[n c] secs IH]; intros off r Hin; [destruct Hin|].
  cbn [section_regions] in Hin. apply in_app_or in Hin. destruct Hin as [Hin|Hin].
  - destruct c as [bs|raw].
    + left. apply block_regions_in in Hin. destruct Hin as (pre & t & p & post & E & ->).
      exists pre, t, p, (post ++ plain_body secs). split; [|reflexivity].
      rewrite plain_body_cons, E. now rewrite <- !app_assoc.
    + right. destruct Hin as [<-|[]]. exists [], n, raw, (plain_body secs).
      split; [reflexivity|]. split; [cbn [length]; now rewrite Nat.add_0_r|now left].
  - apply IH in Hin. destruct Hin as [(pre & t & p & post & E & ->)|(pre & name & raw & post & E & -> & Hs)].
    + left. exists (tcontent_bytes h128 c ++ pre), t, p, post. split.
      * rewrite plain_body_cons, E. now rewrite <- app_assoc.
      * rewrite app_length, tcontent_bytes_length. f_equal. lia.
    + right. exists (tcontent_bytes h128 c ++ pre), name, raw, post. split.
      * rewrite plain_body_cons, E. now rewrite <- app_assoc.
      * split; [|now right]. rewrite app_length, tcontent_bytes_length. f_equal. lia.
Qed.

(** which bytes of the file a region denotes, per kind *)
Definition region_layout (secs : list tsection) (file : list N) (r : region) : Prop :=
  match r with
  | RBlock off len =>
      exists pre t p post, file = pre ++ encode_block h128 t p ++ post /\
                           off = length pre /\ len = (33 + length p)%nat
  | RRaw name off len =>
      exists pre raw post, file = pre ++ raw ++ post /\ off = length pre /\ len = length raw /\
                           In (name, TRaw raw) secs
  | RToc off len => off = sections_len secs /\ len = toc_len secs
  | RTrailer off len => off = (sections_len secs + toc_len secs)%nat /\ len = 30%nat
  | RUnread off len => off = (sections_len secs + toc_len secs + 30)%nat /\ len = 8%nat
  end.

Lemma table_region_layout secs r :
  In r (regions_of_table_file secs) ->
  region_layout secs (table_file_bytes h128 secs) r.
Proof.
  unfold regions_of_table_file. cbv zeta. intros Hin. apply in_app_or in Hin.
  set (tail := sfa_toc (tsections_plain h128 secs)
               ++ sfa_trailer (h128 (sfa_toc (tsections_plain h128 secs)))
                    (N.of_nat (length (plain_body secs)))
                    (N.of_nat (length (sfa_toc (tsections_plain h128 secs))))).
  assert (E : table_file_bytes h128 secs = plain_body secs ++ tail) by reflexivity.
  destruct Hin as [Hin|Hin].
  - apply section_regions_in in Hin.
    destruct Hin as [(pre & t & p & post & Eb & ->)|(pre & name & raw & post & Eb & -> & Hs)].
    + cbn [region_layout]. exists pre, t, p, (post ++ tail). split; [|split; reflexivity].
      rewrite E, Eb. now rewrite <- !app_assoc.
    + cbn [region_layout]. exists pre, raw, (post ++ tail). split; [|repeat split; assumption].
      rewrite E, Eb. now rewrite <- !app_assoc.
  - destruct Hin as [<-|[<-|[<-|[]]]]; cbn [region_layout]; split; reflexivity.
Qed.

(** ** Theorem 5. Every byte offset of a table file lies in exactly one region, and each
    region kind has its guard:
    - [RBlock]: a complete encoded block => [block_byte_guarded] (and
      [block_reader_byte_guarded] for the compaction scanner);
    - [RToc], [RTrailer], [RUnread]: the sfa framing => [sfa_guarded]
      ([RUnread] = toc_len, never read: [sfa_toc_len_unread]);
    - [RRaw]: NO guard at all; what reads it gets the mutated bytes
      ([raw_region_unguarded]). In a table file these are "linked_blob_files" (read by
      [Table::list_blob_file_references], model [read_linked_blob_files]) and
      "table_version" (read by nothing). *)
Theorem table_file_covered secs pos :
  let file := table_file_bytes h128 secs in
  let rs := regions_of_table_file secs in
  (pos < length file)%nat ->
  exists r, locate pos rs = Some r /\ In r rs /\ in_region pos r = true /\
            (forall r', In r' rs -> in_region pos r' = true -> r' = r) /\
            region_layout secs file r.
Proof.
  intros file rs Hpos. unfold file in Hpos. rewrite table_file_length in Hpos.
  destruct (contiguous_locate _ _ _ pos (regions_contig secs) ltac:(lia)) as (r & L & Hin & I & U).
  exists r. repeat split; try assumption. now apply table_region_layout.
Qed.

(** the guard of a block region, instantiated *)
Corollary table_block_region_guarded secs off len pos b ty :
  In (RBlock off len) (regions_of_table_file secs) ->
  (off <= pos < off + len)%nat ->
  let file := table_file_bytes h128 secs in
  let r' := load_block h128 (mutate file pos b) off len ty in
  (exists e, r' = BErr e)
  \/ r' = load_block h128 file off len ty
  \/ (exists p p', p' <> p /\ length p' = length p /\ h128 p' = h128 p)
  \/ (exists hb hb' : list N, hb' <> hb /\ length hb' = 29%nat
                  /\ trunc 32 (h128 hb') = trunc 32 (h128 hb)).
Proof.
  intros Hin Hpos file r'. apply table_region_layout in Hin. cbn [region_layout] in Hin.
  destruct Hin as (pre & t & p & post & E & -> & ->).
  unfold r', file. rewrite E, encode_block_is_block_bytes.
  set (h := mkH t (h128 p) (trunc 32 (N.of_nat (length p))) (trunc 32 (N.of_nat (length p)))).
  destruct (block_byte_guarded pre h p post pos b ty eq_refl (trunc_lt _ _) (trunc_lt _ _) Hpos)
    as [H|[H|[H|H]]].
  - left. exact H.
  - right; left. exact H.
  - right; right; left. exists p. exact H.
  - right; right; right. exists (header_body h). exact H.
Qed.

(** a raw region has NO guard: a pread of the region returns the damaged bytes *)
Theorem raw_region_unguarded pre raw post pos b :
  (length pre <= pos < length pre + length raw)%nat ->
  pread (mutate (pre ++ raw ++ post) pos b) (length pre) (length raw)
  = Some (mutate raw (pos - length pre) b).
Proof.
  intros H. rewrite mutate_middle by exact H.
  rewrite <- (mutate_length raw (pos - length pre) b) at 1. apply pread_app.
Qed.

(** the sfa framing of a table file, every byte *)
Corollary table_sfa_guarded secs pos b :
  sfa_secs_ok (tsections_plain h128 secs) ->
  let file := table_file_bytes h128 secs in
  let r' := sfa_open h128 (mutate file pos b) in
  (exists e, r' = BErr e) \/ r' = sfa_open h128 file
  \/ (exists c c', c' <> c /\ h128 c' = h128 c).
Proof.
  intros Hok file r'. destruct (sfa_encode_opens _ Hok) as (E & R & O).
  unfold r', file, table_file_bytes. cbv zeta. rewrite O. rewrite E in R |- *.
  destruct Hok as (_ & Hb & _).
  destruct (sfa_guarded _ _ _ _ pos b Hb R) as [_ [H|[H|H]]].
  - left. exact H.
  - right; left. exact H.
  - right; right. exists (sfa_toc (tsections_plain h128 secs)). exact H.
Qed.

End WithHash.

(** * G. Concrete instances (toy hashes stand in for xxh3) *)

(** a polynomial hash reduced to 128 bits *)
Definition toyh (l : list N) : N := fold_left (fun a b => a * 257 + b) l 1 mod 2 ^ 128.

Lemma toyh_range l : toyh l < 2 ^ 128.
Proof. unfold toyh. apply N.mod_lt. apply pow2_nz. Qed.

(** a useless hash: only the length; every same-length change is a collision *)
Definition lenh (l : list N) : N := N.of_nat (length l).

Definition is_err {A} (r : bres A) : bool := match r with BErr _ => true | BOk _ => false end.

(** ** Blocks *)

Definition ex_payload : list N := [97; 98; 99; 100; 101; 102].
Definition ex_pre : list N := [7; 7; 7].
Definition ex_file : list N := ex_pre ++ encode_block toyh BData ex_payload ++ [9; 9].

(** src/table/block/mod.rs test [block_roundtrip_uncompressed]: b"abcdefabcdefabcdef" *)
Example block_roundtrip_uncompressed :
  let data := ex_payload ++ ex_payload ++ ex_payload in
  match block_from_reader toyh (encode_block toyh BData data) with
  | BOk (blk, rest) => list_N_eqb (b_data blk) data && list_N_eqb rest []
  | BErr _ => false
  end = true.
Proof. vm_compute. reflexivity. Qed.

Example load_block_ex :
  length (encode_block toyh BData ex_payload) = 39%nat /\
  (match load_block toyh ex_file 3 39 BData with
   | BOk blk => list_N_eqb (b_data blk) ex_payload | BErr _ => false end) = true /\
  (* wrong expected type: util.rs l.81-86 *)
  load_block toyh ex_file 3 39 BIndex = BErr (XInvalidTag 0) /\
  (* handle pointing one byte off: the magic does not match *)
  load_block toyh ex_file 4 39 BData = BErr XInvalidHeader /\
  (* handle reaching past the end of the file *)
  load_block toyh ex_file 3 42 BData = BErr XEof.
Proof. vm_compute. repeat split; reflexivity. Qed.

(** replace the byte at [pos] by a DIFFERENT one: original + d (mod 256), 0 < d < 256 *)
Definition bump (file : list N) (pos : nat) (d : N) : list N :=
  mutate file pos ((nth pos file 0 + d) mod 256).

(** every single position of the block, three different replacement bytes each: all
    rejected *)
Example block_all_positions_rejected :
  forallb (fun pos =>
    forallb (fun d => is_err (load_block toyh (bump ex_file pos d) 3 39 BData))
            [1; 128; 255])
    (seq 3 39) = true.
Proof. vm_compute. reflexivity. Qed.

(** which check fires where: magic -> InvalidHeader, type tag -> InvalidTag (unknown tag)
    or ChecksumMismatch (header digest), everything else -> ChecksumMismatch *)
Example block_error_kinds :
  load_block toyh (mutate ex_file 3 0) 3 39 BData = BErr XInvalidHeader /\
  load_block toyh (mutate ex_file 7 9) 3 39 BData = BErr (XInvalidTag 9) /\
  load_block toyh (mutate ex_file 7 1) 3 39 BData = BErr XChecksumMismatch /\
  load_block toyh (mutate ex_file 30 1) 3 39 BData = BErr XChecksumMismatch /\
  load_block toyh (mutate ex_file 40 1) 3 39 BData = BErr XChecksumMismatch /\
  load_block toyh (truncate ex_file 41) 3 39 BData = BErr XEof /\
  (* outside the block: no effect *)
  load_block toyh (mutate ex_file 0 1) 3 39 BData = load_block toyh ex_file 3 39 BData.
Proof. vm_compute. repeat split; reflexivity. Qed.

(** the hypotheses of [block_byte_guarded] hold for what the writer produces *)
Example block_byte_guarded_instance :
  let h := mkH BData (toyh ex_payload) 6 6 in
  ex_file = ex_pre ++ (encode_header toyh h ++ ex_payload) ++ [9; 9] /\
  h_checksum h = toyh ex_payload /\ h_data_length h < 2 ^ 32 /\ h_uncompressed_length h < 2 ^ 32.
Proof. vm_compute. repeat split; reflexivity. Qed.

(** the collision disjuncts are not vacuous: under the length-only "hash" a damaged
    payload is accepted with DIFFERENT content *)
Example collision_disjunct_needed :
  let file := encode_block lenh BData ex_payload in
  match load_block lenh (mutate file 35 0) 0 39 BData with
  | BOk blk => negb (list_N_eqb (b_data blk) ex_payload)
  | BErr _ => false
  end = true.
Proof. vm_compute. reflexivity. Qed.

(** the sequential reader: a cut-off block is an error at every length *)
Example block_reader_truncations :
  forallb (fun len => is_err (block_from_reader toyh (truncate (encode_block toyh BData ex_payload) len)))
          (seq 0 39) = true.
Proof. vm_compute. reflexivity. Qed.

(** ** sfa *)

Definition ex_secs : list section := [([97], [1; 2; 3]); ([98; 99], [4; 5])].
Definition ex_sfa : list N := sfa_encode ex_secs (toyh (sfa_toc ex_secs)).

Example sfa_open_ex :
  length ex_sfa = 90%nat /\
  sfa_open toyh ex_sfa = BOk [([97], 0, 3); ([98; 99], 3, 2)] /\
  (* section payload bytes 0..4: sfa does not notice *)
  forallb (fun pos => match sfa_open toyh (bump ex_sfa pos 200) with
                      | BOk es => Nat.eqb (length es) 2 | BErr _ => false end) (seq 0 5) = true /\
  (* ToC bytes 5..51 and trailer bytes 52..81: rejected *)
  forallb (fun pos => is_err (sfa_open toyh (bump ex_sfa pos 200))) (seq 5 77) = true /\
  (* toc_len, bytes 82..89: never read *)
  forallb (fun pos => negb (is_err (sfa_open toyh (bump ex_sfa pos 200)))) (seq 82 8) = true /\
  (* every truncation is rejected here *)
  forallb (fun len => is_err (sfa_open toyh (truncate ex_sfa len))) (seq 0 90) = true.
Proof. vm_compute. repeat split; reflexivity. Qed.

Example sfa_error_kinds :
  sfa_open toyh (mutate ex_sfa 52 0) = BErr XInvalidHeader /\      (* "SFA!" *)
  sfa_open toyh (mutate ex_sfa 56 2) = BErr XInvalidVersion /\     (* version *)
  sfa_open toyh (mutate ex_sfa 57 1) = BErr (XInvalidTag 1) /\     (* checksum type *)
  sfa_open toyh (mutate ex_sfa 58 0) = BErr XChecksumMismatch /\   (* toc checksum *)
  sfa_open toyh (mutate ex_sfa 74 6) = BErr XInvalidVersion /\     (* toc_pos: no "TOC!" there *)
  sfa_open toyh (mutate ex_sfa 5 0) = BErr XInvalidVersion /\      (* "TOC!" *)
  sfa_open toyh (mutate ex_sfa 13 9) = BErr XChecksumMismatch /\   (* an entry's pos *)
  sfa_open toyh [1; 2; 3] = BErr XEof.
Proof. vm_compute. repeat split; reflexivity. Qed.

Example sfa_guarded_instance :
  sfa_secs_ok ex_secs.
Proof.
  split; [vm_compute; reflexivity|]. split; [vm_compute; reflexivity|].
  repeat constructor.
Qed.

(** ** The version file *)

Definition ex_v : vfile := mkVfile TStandard [[[mkVtab 1 7 0]; [mkVtab 2 9 0]]] [] [].
Definition ex_vb : list N := version_file_bytes ex_v (toyh (sfa_toc (encode_version ex_v))).
Definition ex_cur : list N := encode_current 5 (toyh ex_vb).

Example read_version_ex :
  length ex_cur = 25%nat /\
  read_version toyh ex_cur ex_vb = BOk ex_vb /\
  recover_version toyh ex_cur ex_vb = BOk ex_v /\
  read_version_dir toyh [(4, [1; 2]); (5, ex_vb)] ex_cur = BOk ex_vb /\
  (* current names a file that does not exist / another file *)
  read_version_dir toyh [(4, [1; 2]); (5, ex_vb)] (mutate ex_cur 0 6) = BErr XNotFound /\
  read_version_dir toyh [(4, [1; 2]); (5, ex_vb)] (mutate ex_cur 0 4) = BErr XChecksumMismatch /\
  read_version_dir toyh [(5, ex_vb)] (mutate ex_cur 24 1) = BErr (XInvalidTag 1) /\
  read_version_dir toyh [(5, ex_vb)] (truncate ex_cur 24) = BErr XEof.
Proof. vm_compute. repeat split; reflexivity. Qed.

(** EVERY byte of the version file, and every truncation: rejected by the current guard *)
Example version_all_positions_rejected :
  forallb (fun pos => is_err (read_version toyh ex_cur (bump ex_vb pos 1)))
          (seq 0 (length ex_vb)) = true /\
  forallb (fun len => is_err (read_version toyh ex_cur (truncate ex_vb len)))
          (seq 0 (length ex_vb)) = true.
Proof. vm_compute. split; reflexivity. Qed.

(** ** Theorem 2c (REFUTATION of the guard of 3.1.9 as released).
    With [read_version_old] (only the id is read from [current], only the sfa ToC is
    checksummed) byte 40 of this version file -- the low byte of the first table's
    [global_seqno] in the "tables" section -- can be changed from 0 to 16: recovery
    succeeds and returns a DIFFERENT version (decoded through
    [decode_tables_section]); the current guard rejects the same file. *)
Theorem version_file_old_refuted :
  exists (h : list N -> N) cur vb pos b v v',
    (forall l, h l < 2 ^ 128) /\
    recover_version h cur vb = BOk v /\
    recover_version_old h cur vb = BOk v /\
    recover_version_old h cur (mutate vb pos b) = BOk v' /\
    map (map (map vt_gseq)) (vf_levels v) = [[[0]; [0]]] /\
    map (map (map vt_gseq)) (vf_levels v') = [[[16]; [0]]] /\
    recover_version h cur (mutate vb pos b) = BErr XChecksumMismatch.
Proof.
  exists toyh, ex_cur, ex_vb, 40%nat, 16, ex_v,
    (mkVfile TStandard [[[mkVtab 1 7 16]; [mkVtab 2 9 0]]] [] []).
  split; [exact toyh_range|]. vm_compute. repeat split; reflexivity.
Qed.

(** the bytes of the old format that are accepted silently: everything except the ToC
    and the trailer fields, i.e. ALL section payloads *)
Example version_old_unguarded_positions :
  filter (fun pos => negb (is_err (recover_version_old toyh ex_cur (bump ex_vb pos 1))))
         (seq 0 (length ex_vb))
  = seq 0 9      (* the five small sections, incl. tree_type: Standard -> Blob *)
    ++ [11%nat]  (* a run's table count 1 -> 2: the next run is swallowed as a table *)
    ++ seq 15 8 ++ seq 24 24   (* table 1: id; checksum and global_seqno *)
    ++ seq 52 8 ++ seq 61 24   (* table 2: id; checksum and global_seqno *)
    ++ seq 367 8.              (* the trailer's toc_len *)
Proof. vm_compute. reflexivity. Qed.

(** ** Blob frames *)

Definition ex_frame : list N := encode_blob_frame toyh [97] 0 ex_payload 6.

(** src/vlog/blob_file/reader.rs test [blob_reader_roundtrip]: key "a", value "abcdef" *)
Example blob_reader_roundtrip :
  length ex_frame = 45%nat /\
  read_blob_frame toyh true ex_frame 0 6 [97] = BOk ex_payload /\
  read_blob_frame toyh true ([1; 2] ++ ex_frame ++ [3]) 2 6 [97] = BOk ex_payload /\
  (* handle one byte off / file cut / wrong key LENGTH on the caller's side *)
  read_blob_frame toyh true ([1; 2] ++ ex_frame ++ [3]) 1 6 [97] = BErr XInvalidHeader /\
  read_blob_frame toyh true (truncate ex_frame 44) 0 6 [97] = BErr XEof /\
  read_blob_frame toyh true ex_frame 0 5 [97; 97] = BErr XChecksumMismatch /\
  (* the caller's key BYTES are never compared with the frame's *)
  read_blob_frame toyh true ex_frame 0 6 [122] = BOk ex_payload.
Proof. vm_compute. repeat split; reflexivity. Qed.

(** the positions of the frame whose mutation a point read accepts (always with the
    original value, by [blob_frame_guarded]): seqno 20..27 and on-disk length 34..37;
    without debug assertions also the real value length 30..33 *)
Example blob_get_accepted_positions :
  filter (fun pos => negb (is_err (read_blob_frame toyh true (bump ex_frame pos 1) 0 6 [97])))
         (seq 0 45) = seq 20 8 ++ seq 34 4 /\
  filter (fun pos => negb (is_err (read_blob_frame toyh false (bump ex_frame pos 1) 0 6 [97])))
         (seq 0 45) = seq 20 8 ++ seq 30 8 /\
  forallb (fun pos => match read_blob_frame toyh false (bump ex_frame pos 1) 0 6 [97] with
                      | BOk v => list_N_eqb v ex_payload | BErr _ => true end) (seq 0 45) = true /\
  read_blob_frame toyh true (mutate ex_frame 30 7) 0 6 [97] = BErr XPanic.
Proof. vm_compute. repeat split; reflexivity. Qed.

(** src/vlog/blob_file/scanner.rs test [blob_scanner], one frame then the metadata magic *)
Example blob_scanner_ex :
  scan_blob_frame toyh (ex_frame ++ META_HEADER_MAGIC)
  = BOk (Some (mkScan [97] 0 ex_payload 6, META_HEADER_MAGIC)) /\
  scan_blob_frame toyh META_HEADER_MAGIC = BOk None /\
  scan_blob_frame toyh [] = BErr XEof.
Proof. vm_compute. repeat split; reflexivity. Qed.

(** ** Theorem 4b (the header fields OUTSIDE the frame checksum, for the scanner used by
    blob-file rewriting, compaction/worker.rs l.444-447): [seqno] and [real_val_len] are
    returned as found. REFUTED: a mutated seqno / uncompressed length is accepted and
    handed on (the merge scanner orders entries by (key, Reverse(seqno)),
    vlog/blob_file/merge.rs l.34-35, and the rewritten frame carries the new values). *)
Theorem blob_scan_seqno_refuted :
  exists (h : list N -> N) key seqno value pos b e' rest,
    (forall l, h l < 2 ^ 128) /\
    let F := encode_blob_frame h key seqno value (trunc 32 (N.of_nat (length value))) in
    scan_blob_frame h (mutate F pos b) = BOk (Some (e', rest)) /\
    se_key e' = key /\ se_value e' = value /\ se_seqno e' <> seqno.
Proof.
  exists toyh, [97], 0, ex_payload, 20%nat, 5, (mkScan [97] 5 ex_payload 6), [].
  split; [exact toyh_range|]. vm_compute. repeat split; try reflexivity. discriminate.
Qed.

Theorem blob_scan_real_len_refuted :
  exists (h : list N -> N) key seqno value pos b e' rest,
    (forall l, h l < 2 ^ 128) /\
    let F := encode_blob_frame h key seqno value (trunc 32 (N.of_nat (length value))) in
    scan_blob_frame h (mutate F pos b) = BOk (Some (e', rest)) /\
    se_key e' = key /\ se_value e' = value /\
    se_uncompressed_len e' <> N.of_nat (length value).
Proof.
  exists toyh, [97], 0, ex_payload, 30%nat, 9, (mkScan [97] 0 ex_payload 9), [].
  split; [exact toyh_range|]. vm_compute. repeat split; try reflexivity. discriminate.
Qed.

(** all other bytes of the frame are rejected by the scanner in this instance: the two
    length fields change which bytes are hashed *)
Example blob_scan_accepted_positions :
  filter (fun pos => negb (is_err (scan_blob_frame toyh (bump ex_frame pos 1 ++ META_HEADER_MAGIC))))
         (seq 0 45) = seq 20 8 ++ seq 30 4.
Proof. vm_compute. reflexivity. Qed.

(** ** A whole table file *)

Definition ex_linked : list N :=
  write_u32_le 1 ++ write_u64_le 7 ++ write_u64_le 10 ++ write_u64_le 100 ++ write_u64_le 90.

Definition ex_tsecs : list tsection :=
  [ (n_data, TBlocks [(BData, [1; 2; 3]); (BData, [4])]);
    (n_tli, TBlocks [(BIndex, [5])]);
    (n_linked_blob_files, TRaw ex_linked);
    (n_table_version, TRaw [3]);
    (n_meta, TBlocks [(BMeta, [9; 9])]) ].

Definition ex_table : list N := table_file_bytes toyh ex_tsecs.

Example table_regions_ex :
  regions_of_table_file ex_tsecs =
  [ RBlock 0 36; RBlock 36 34; RBlock 70 34; RRaw n_linked_blob_files 104 36;
    RRaw n_table_version 140 1; RBlock 141 35; RToc 176 139; RTrailer 315 30; RUnread 345 8 ] /\
  length ex_table = 353%nat /\
  (* every offset lies in exactly one region *)
  forallb (fun pos => Nat.eqb (length (filter (in_region pos) (regions_of_table_file ex_tsecs))) 1)
          (seq 0 353) = true /\
  locate 105 (regions_of_table_file ex_tsecs) = Some (RRaw n_linked_blob_files 104 36) /\
  locate 353 (regions_of_table_file ex_tsecs) = None.
Proof. vm_compute. repeat split; reflexivity. Qed.

Example open_table_ex :
  (match open_table toyh ex_table with
   | BOk (rg, meta) =>
       (fst (tr_tli rg) =? 70) && (snd (tr_tli rg) =? 34)
       && (fst (tr_meta rg) =? 141) && (snd (tr_meta rg) =? 35)
       && match tr_linked_blob_files rg with Some (p, l) => (p =? 104) && (l =? 36) | None => false end
       && match tr_index rg with None => true | Some _ => false end
       && list_N_eqb (b_data meta) [9; 9]
   | BErr _ => false end) = true /\
  read_linked_blob_files ex_table 104 36 = BOk [(7, 10, 100, 90)] /\
  sfa_secs_ok (tsections_plain toyh ex_tsecs).
Proof.
  split; [vm_compute; reflexivity|]. split; [vm_compute; reflexivity|].
  split; [vm_compute; reflexivity|]. split; [vm_compute; reflexivity|]. repeat constructor.
Qed.

(** per region kind, every position (different byte): blocks, ToC, trailer -> the
    corresponding load / open is an error; toc_len -> nothing notices (nothing reads it);
    raw regions -> nothing notices, and what reads them sees other content *)
Example table_all_positions :
  forallb (fun pos => is_err (load_block toyh (bump ex_table pos 1) 0 36 BData)) (seq 0 36) = true /\
  forallb (fun pos => is_err (load_block toyh (bump ex_table pos 1) 36 34 BData)) (seq 36 34) = true /\
  forallb (fun pos => is_err (load_block toyh (bump ex_table pos 1) 70 34 BIndex)) (seq 70 34) = true /\
  forallb (fun pos => is_err (open_table toyh (bump ex_table pos 1))) (seq 141 35) = true /\
  forallb (fun pos => is_err (open_table toyh (bump ex_table pos 1))) (seq 176 169) = true /\
  forallb (fun pos => negb (is_err (open_table toyh (bump ex_table pos 1)))) (seq 345 8) = true /\
  forallb (fun pos => negb (is_err (open_table toyh (bump ex_table pos 1)))) (seq 104 37) = true.
Proof. vm_compute. repeat split; reflexivity. Qed.

(** ** Theorem 5b. The raw region "linked_blob_files" is UNGUARDED: a changed byte is
    accepted by [Table::recover] and [list_blob_file_references] returns a different
    list (here the blob file id 7 -> 8; consumers: version/mod.rs l.442 (which blob
    files a version keeps alive) and [Table::referenced_blob_bytes], i.e. blob GC). *)
Theorem linked_blob_files_refuted :
  exists (h : list N -> N) secs pos b off size items items',
    (forall l, h l < 2 ^ 128) /\
    let file := table_file_bytes h secs in
    In (RRaw n_linked_blob_files off size) (regions_of_table_file secs) /\
    (off <= pos < off + size)%nat /\
    read_linked_blob_files file off size = BOk items /\
    read_linked_blob_files (mutate file pos b) off size = BOk items' /\
    items' <> items /\
    is_err (open_table h (mutate file pos b)) = false.
Proof.
  exists toyh, ex_tsecs, 108%nat, 8, 104%nat, 36%nat, [(7, 10, 100, 90)], [(8, 10, 100, 90)].
  split; [exact toyh_range|]. cbv zeta.
  split; [vm_compute; tauto|]. split; [lia|].
  split; [vm_compute; reflexivity|]. split; [vm_compute; reflexivity|].
  split; [discriminate|vm_compute; reflexivity].
Qed.

(** * H. Blob frames: the exact list of unguarded header fields *)

Section BlobFields.
Variable h128 : list N -> N.
Hypothesis h128_range : forall l, h128 l < 2 ^ 128.

(** [Reader::get] never looks at [seqno] (20..27) and [on_disk_val_len] (34..37):
    whatever stands there, the result is the same *)
Theorem blob_get_seqno_disk_len_unread dbg pre post (m k s s' kl rv od od' body key : list N) odsz :
  length m = 4%nat -> length k = 16%nat -> length s = 8%nat -> length s' = 8%nat ->
  length kl = 2%nat -> length rv = 4%nat -> length od = 4%nat -> length od' = 4%nat ->
  length body = (length key + odsz)%nat ->
  read_blob_frame h128 dbg (pre ++ (m ++ k ++ s' ++ kl ++ rv ++ od' ++ body) ++ post)
                  (length pre) odsz key
  = read_blob_frame h128 dbg (pre ++ (m ++ k ++ s ++ kl ++ rv ++ od ++ body) ++ post)
                    (length pre) odsz key.
Proof. intros. now rewrite !read_blob_frame_parts. Qed.

(** without debug assertions it does not look at [real_val_len] (30..33) either *)
Theorem blob_get_real_len_unread_release pre post (m k s kl rv rv' od body key : list N) odsz :
  length m = 4%nat -> length k = 16%nat -> length s = 8%nat ->
  length kl = 2%nat -> length rv = 4%nat -> length rv' = 4%nat -> length od = 4%nat ->
  length body = (length key + odsz)%nat ->
  read_blob_frame h128 false (pre ++ (m ++ k ++ s ++ kl ++ rv' ++ od ++ body) ++ post)
                  (length pre) odsz key
  = read_blob_frame h128 false (pre ++ (m ++ k ++ s ++ kl ++ rv ++ od ++ body) ++ post)
                    (length pre) odsz key.
Proof. intros. rewrite !read_blob_frame_parts by assumption. reflexivity. Qed.

(** what [Scanner::next] computes from the parts of a frame *)
Lemma scan_blob_frame_parts (m k s kl rv od rest : list N) :
  length m = 4%nat -> length k = 16%nat -> length s = 8%nat -> length kl = 2%nat ->
  length rv = 4%nat -> length od = 4%nat ->
  scan_blob_frame h128 (m ++ k ++ s ++ kl ++ rv ++ od ++ rest) =
  if list_N_eqb m META_HEADER_MAGIC then BOk None else
  if negb (list_N_eqb m BLOB_HEADER_MAGIC) then BErr XInvalidHeader else
  match take_bytes (N.to_nat (le_value kl)) rest with None => BErr XEof | Some (fkey, r7) =>
  match take_bytes (N.to_nat (le_value od)) r7 with None => BErr XEof | Some (v, r8) =>
  if h128 (fkey ++ v) =? le_value k
  then BOk (Some (mkScan fkey (le_value s) v (le_value rv), r8))
  else BErr XChecksumMismatch
  end end.
Proof.
  intros Lm Lk Ls Lkl Lrv Lod. unfold scan_blob_frame.
  rewrite (take_bytes_app_w 4 m _ Lm).
  destruct (list_N_eqb m META_HEADER_MAGIC); [reflexivity|].
  destruct (negb (list_N_eqb m BLOB_HEADER_MAGIC)); [reflexivity|].
  unfold read_u128_le, read_u64_le, read_u16_le, read_u32_le.
  rewrite (read_le_app_w 16 k _ Lk), (read_le_app_w 8 s _ Ls), (read_le_app_w 2 kl _ Lkl),
    (read_le_app_w 4 rv _ Lrv), (read_le_app_w 4 od _ Lod).
  reflexivity.
Qed.

(** one changed byte cannot turn "BLOB" into "META" *)
Lemma blob_magic_not_meta i b :
  list_N_eqb (mutate BLOB_HEADER_MAGIC i b) META_HEADER_MAGIC = false.
Proof.
  destruct (list_N_eqb (mutate BLOB_HEADER_MAGIC i b) META_HEADER_MAGIC) eqn:E; [|reflexivity].
  exfalso. apply list_N_eqb_iff in E.
  pose proof (f_equal (fun l => nth 0 l 0) E) as E0.
  pose proof (f_equal (fun l => nth 1 l 0) E) as E1.
  destruct i as [|[|i]]; cbn in E0, E1; try discriminate.
  destruct i as [|[|i]]; cbn in E0, E1; discriminate.
Qed.

(** ** Theorem 4c. Every byte of a blob frame, as far as the SCANNER is concerned.
    After any single-byte mutation inside the frame, the scan step fails, or returns an
    entry with the SAME key, value and rest of input -- whose [seqno] can differ only if
    the mutation hit bytes 20..27 and whose [uncompressed_len] only if it hit bytes
    30..33 -- or some other byte string collides with [key ++ value] under [h128]. *)
Theorem blob_scan_guarded key seqno value rest i b :
  N.of_nat (length key) < 2 ^ 16 -> N.of_nat (length value) < 2 ^ 32 -> seqno < 2 ^ 64 ->
  let ul := trunc 32 (N.of_nat (length value)) in
  let F := encode_blob_frame h128 key seqno value ul in
  (i < length F)%nat ->
  let r' := scan_blob_frame h128 (mutate (F ++ rest) i b) in
  scan_blob_frame h128 (F ++ rest) = BOk (Some (mkScan key seqno value ul, rest)) /\
  ((exists e, r' = BErr e)
   \/ (exists sq ul', r' = BOk (Some (mkScan key sq value ul', rest))
                      /\ ((i < 20 \/ 28 <= i)%nat -> sq = seqno)
                      /\ ((i < 30 \/ 34 <= i)%nat -> ul' = ul))
   \/ (exists x, x <> key ++ value /\ h128 x = h128 (key ++ value))).
Proof.
  intros Hk Hv Hs ul F Hi r'.
  set (m := BLOB_HEADER_MAGIC). set (k := write_u128_le (h128 (key ++ value))).
  set (s := write_u64_le seqno). set (kl := write_u16_le (trunc 16 (N.of_nat (length key)))).
  set (rv := write_u32_le ul). set (od := write_u32_le (trunc 32 (N.of_nat (length value)))).
  set (body := key ++ value).
  assert (EF : F ++ rest = m ++ k ++ s ++ kl ++ rv ++ od ++ body ++ rest).
  { unfold F, encode_blob_frame. fold m k s kl rv od body. now rewrite <- !app_assoc. }
  assert (Lm : length m = 4%nat) by reflexivity.
  assert (Lk : length k = 16%nat) by apply le_bytes_length.
  assert (Ls : length s = 8%nat) by apply le_bytes_length.
  assert (Lkl : length kl = 2%nat) by apply le_bytes_length.
  assert (Lrv : length rv = 4%nat) by apply le_bytes_length.
  assert (Lod : length od = 4%nat) by apply le_bytes_length.
  assert (Lb : length body = (length key + length value)%nat) by apply app_length.
  assert (LF : length F = (38 + length body)%nat).
  { unfold F, encode_blob_frame. fold m k s kl rv od body. rewrite !app_length. lia. }
  assert (Vk : le_value k = h128 (key ++ value)).
  { unfold k, write_u128_le. apply le_lossless_iff. apply h128_range. }
  assert (Vs : le_value s = seqno).
  { unfold s, write_u64_le. apply le_lossless_iff. exact Hs. }
  assert (Vkl : N.to_nat (le_value kl) = length key).
  { unfold kl, write_u16_le. rewrite le_value_le_bytes.
    change (2 ^ (8 * N.of_nat 2)) with (2 ^ 16). unfold trunc. rewrite N.mod_mod by apply pow2_nz.
    rewrite N.mod_small by exact Hk. apply Nat2N.id. }
  assert (Vrv : le_value rv = ul).
  { unfold rv, write_u32_le. rewrite le_value_le_bytes.
    change (2 ^ (8 * N.of_nat 4)) with (2 ^ 32). apply trunc_idem. }
  assert (Vod : N.to_nat (le_value od) = length value).
  { unfold od, write_u32_le. rewrite le_value_le_bytes.
    change (2 ^ (8 * N.of_nat 4)) with (2 ^ 32). unfold trunc. rewrite N.mod_mod by apply pow2_nz.
    rewrite N.mod_small by exact Hv. apply Nat2N.id. }
  (* with intact magic, both lengths and key/value bytes *)
  assert (G : forall k' s' rv',
    length k' = 16%nat -> length s' = 8%nat -> length rv' = 4%nat ->
    scan_blob_frame h128 (m ++ k' ++ s' ++ kl ++ rv' ++ od ++ body ++ rest) =
    if h128 (key ++ value) =? le_value k'
    then BOk (Some (mkScan key (le_value s') value (le_value rv'), rest))
    else BErr XChecksumMismatch).
  { intros k' s' rv' Lk' Ls' Lrv'. rewrite scan_blob_frame_parts by assumption.
    change (list_N_eqb m META_HEADER_MAGIC) with false.
    change (negb (list_N_eqb m BLOB_HEADER_MAGIC)) with false. cbv iota.
    rewrite Vkl. unfold body. rewrite <- app_assoc, take_bytes_app.
    rewrite Vod, take_bytes_app. reflexivity. }
  assert (R0 : scan_blob_frame h128 (F ++ rest) = BOk (Some (mkScan key seqno value ul, rest))).
  { rewrite EF, G by assumption. rewrite Vk, N.eqb_refl, Vs, Vrv. reflexivity. }
  split; [exact R0|].
  assert (Same : forall r, r = BOk (Some (mkScan key seqno value ul, rest)) ->
    exists sq ul', r = BOk (Some (mkScan key sq value ul', rest))
                   /\ ((i < 20 \/ 28 <= i)%nat -> sq = seqno)
                   /\ ((i < 30 \/ 34 <= i)%nat -> ul' = ul)).
  { intros r ->. exists seqno, ul. repeat split; reflexivity. }
  unfold r'. rewrite EF.
  destruct (Nat.ltb i 4) eqn:C1.
  { apply Nat.ltb_lt in C1. rewrite mutate_app_l by lia.
    destruct (list_N_dec (mutate m i b) m) as [Em|NEm].
    - rewrite Em, <- EF. right; left. apply Same. exact R0.
    - left. rewrite scan_blob_frame_parts by (try rewrite mutate_length; assumption).
      unfold m at 1. rewrite blob_magic_not_meta.
      assert (Ef : list_N_eqb (mutate m i b) BLOB_HEADER_MAGIC = false).
      { destruct (list_N_eqb (mutate m i b) BLOB_HEADER_MAGIC) eqn:E; [|reflexivity].
        apply list_N_eqb_iff in E. contradiction. }
      rewrite Ef. eexists. reflexivity. }
  apply Nat.ltb_ge in C1. destruct (Nat.ltb i 20) eqn:C2.
  { apply Nat.ltb_lt in C2. rewrite mutate_app_r by lia. rewrite Lm, mutate_app_l by lia.
    rewrite G by (try rewrite mutate_length; assumption).
    destruct (h128 (key ++ value) =? le_value (mutate k (i - 4) b)).
    - right; left. apply Same. now rewrite Vs, Vrv.
    - left. eexists. reflexivity. }
  apply Nat.ltb_ge in C2.
  assert (E2 : m ++ k ++ s ++ kl ++ rv ++ od ++ body ++ rest
               = (m ++ k) ++ s ++ kl ++ rv ++ od ++ body ++ rest) by (now rewrite <- !app_assoc).
  assert (L2 : length (m ++ k) = 20%nat) by (rewrite app_length; lia).
  destruct (Nat.ltb i 28) eqn:C3.
  { (* seqno: returned as found *)
    apply Nat.ltb_lt in C3. rewrite E2, mutate_app_r by lia. rewrite L2, mutate_app_l by lia.
    rewrite <- app_assoc. rewrite G by (try rewrite mutate_length; assumption).
    rewrite Vk, N.eqb_refl. right; left.
    exists (le_value (mutate s (i - 20) b)), ul. rewrite Vrv.
    split; [reflexivity|]. split; [lia|reflexivity]. }
  apply Nat.ltb_ge in C3.
  assert (E3 : m ++ k ++ s ++ kl ++ rv ++ od ++ body ++ rest
               = (m ++ k ++ s) ++ kl ++ rv ++ od ++ body ++ rest) by (now rewrite <- !app_assoc).
  assert (L3 : length (m ++ k ++ s) = 28%nat) by (rewrite !app_length; lia).
  destruct (Nat.ltb i 30) eqn:C4.
  { (* key length *)
    apply Nat.ltb_lt in C4. rewrite E3, mutate_app_r by lia. rewrite L3, mutate_app_l by lia.
    rewrite <- !app_assoc.
    rewrite scan_blob_frame_parts by (try rewrite mutate_length; assumption).
    change (list_N_eqb m META_HEADER_MAGIC) with false.
    change (negb (list_N_eqb m BLOB_HEADER_MAGIC)) with false. cbv iota.
    set (n' := N.to_nat (le_value (mutate kl (i - 28) b))).
    destruct (take_bytes_none_or n' (body ++ rest)) as [En|(fk & r7 & En & Eb & Lfk)]; rewrite En.
    - left. eexists. reflexivity.
    - rewrite Vod.
      destruct (take_bytes_none_or (length value) r7) as [En2|(v & r8 & En2 & Eb2 & Lv)]; rewrite En2.
      + left. eexists. reflexivity.
      + rewrite Vk. destruct (h128 (fk ++ v) =? h128 (key ++ value)) eqn:Eh;
          [|left; eexists; reflexivity].
        apply N.eqb_eq in Eh. destruct (list_N_dec (fk ++ v) (key ++ value)) as [Ex|NEx].
        * (* same hashed bytes: then the same split, since |v| = |value| *)
          assert (Lfk' : length fk = length key).
          { apply (f_equal (@length N)) in Ex. rewrite !app_length in Ex. lia. }
          apply app_eq_len in Ex; [|exact Lfk']. destruct Ex as [-> ->].
          assert (r8 = rest).
          { subst r7. unfold body in Eb. rewrite <- !app_assoc in Eb.
            apply app_inv_head in Eb. apply app_inv_head in Eb. now symmetry. }
          subst r8. right; left. apply Same. now rewrite Vs, Vrv.
        * right; right. exists (fk ++ v). split; assumption. }
  apply Nat.ltb_ge in C4. destruct (Nat.ltb i 34) eqn:C5.
  { (* real value length: returned as found *)
    apply Nat.ltb_lt in C5. rewrite E3, mutate_app_r by lia. rewrite L3.
    rewrite mutate_app_r by lia. rewrite Lkl, mutate_app_l by lia. rewrite <- !app_assoc.
    rewrite G by (try rewrite mutate_length; assumption).
    rewrite Vk, N.eqb_refl. right; left.
    exists seqno, (le_value (mutate rv (i - 28 - 2) b)). rewrite Vs.
    split; [reflexivity|]. split; [reflexivity|lia]. }
  apply Nat.ltb_ge in C5. destruct (Nat.ltb i 38) eqn:C6.
  { (* on-disk value length: delimits the value that is hashed *)
    apply Nat.ltb_lt in C6. rewrite E3, mutate_app_r by lia. rewrite L3.
    rewrite mutate_app_r by lia. rewrite Lkl. rewrite mutate_app_r by lia. rewrite Lrv.
    rewrite mutate_app_l by lia. rewrite <- !app_assoc.
    rewrite scan_blob_frame_parts by (try rewrite mutate_length; assumption).
    change (list_N_eqb m META_HEADER_MAGIC) with false.
    change (negb (list_N_eqb m BLOB_HEADER_MAGIC)) with false. cbv iota.
    rewrite Vkl. unfold body. rewrite <- app_assoc, take_bytes_app.
    set (n' := N.to_nat (le_value (mutate od (i - 28 - 2 - 4) b))).
    destruct (take_bytes_none_or n' (value ++ rest)) as [En|(v & r8 & En & Eb & Lv)]; rewrite En.
    - left. eexists. reflexivity.
    - rewrite Vk. destruct (h128 (key ++ v) =? h128 (key ++ value)) eqn:Eh;
        [|left; eexists; reflexivity].
      apply N.eqb_eq in Eh. destruct (list_N_dec (key ++ v) (key ++ value)) as [Ex|NEx].
      + apply app_inv_head in Ex. subst v. apply app_inv_head in Eb. subst r8.
        right; left. apply Same. now rewrite Vs, Vrv.
      + right; right. exists (key ++ v). split; assumption. }
  apply Nat.ltb_ge in C6.
  (* key and value bytes *)
  rewrite E3, mutate_app_r by lia. rewrite L3.
  rewrite mutate_app_r by lia. rewrite Lkl. rewrite mutate_app_r by lia. rewrite Lrv.
  rewrite mutate_app_r by lia. rewrite Lod. rewrite mutate_app_l by (rewrite LF in Hi; lia).
  set (body' := mutate body (i - 28 - 2 - 4 - 4) b).
  assert (Lb' : length body' = (length key + length value)%nat).
  { unfold body'. rewrite mutate_length. exact Lb. }
  rewrite <- !app_assoc.
  rewrite scan_blob_frame_parts by assumption.
  change (list_N_eqb m META_HEADER_MAGIC) with false.
  change (negb (list_N_eqb m BLOB_HEADER_MAGIC)) with false. cbv iota.
  rewrite Vkl, Vod.
  assert (Eb' : body' ++ rest = firstn (length key) body'
                                ++ firstn (length value) (skipn (length key) body') ++ rest).
  { rewrite (firstn_all2 (skipn (length key) body')) by (rewrite skipn_length; lia).
    now rewrite app_assoc, firstn_skipn. }
  rewrite Eb'.
  rewrite take_bytes_app_w by (rewrite firstn_length; lia).
  rewrite take_bytes_app_w by (rewrite firstn_length, skipn_length; lia).
  rewrite (firstn_all2 (skipn (length key) body')) by (rewrite skipn_length; lia).
  rewrite firstn_skipn, Vk.
  destruct (h128 body' =? h128 (key ++ value)) eqn:Eh; [|left; eexists; reflexivity].
  apply N.eqb_eq in Eh. destruct (list_N_dec body' body) as [Ex|NEx].
  - right; left. apply Same. rewrite Ex. unfold body.
    rewrite firstn_app_exact by reflexivity. rewrite skipn_app_exact by reflexivity.
    now rewrite Vs, Vrv.
  - right; right. exists body'. split; assumption.
Qed.

End BlobFields.

(** * I. Opening a table ([Table::recover]): every byte of the file *)

Section OpenTable.
Variable h128 : list N -> N.
Hypothesis h128_range : forall l, h128 l < 2 ^ 128.

(** any hash collision of the three kinds that protect a table file's metadata *)
Definition some_collision : Prop :=
  (exists c c' : list N, c' <> c /\ h128 c' = h128 c)
  \/ (exists hb hb' : list N, hb' <> hb /\ length hb = 29%nat /\ length hb' = 29%nat
                              /\ trunc 32 (h128 hb') = trunc 32 (h128 hb)).

(** [file] is an sfa archive whose "meta" handle points at an encoded block: after ANY
    single-byte mutation ANYWHERE in the file, [Table::recover]'s first steps (trailer,
    ToC, regions, meta block) fail, or produce the same regions and the same meta block,
    or there is a collision. (Mutations in data/index/filter blocks and raw regions
    are "the same" here: they are not read at open time.) *)
Theorem open_table_guarded body toc tl entries rg pre h payload post pos b :
  N.of_nat (length body) < 2 ^ 64 ->
  let file := sfa_file h128 body toc tl in
  sfa_read_toc file (N.of_nat (length body)) = Ok (entries, toc) ->
  parse_regions entries = BOk rg ->
  file = pre ++ block_bytes h128 h payload ++ post ->
  N.to_nat (fst (tr_meta rg)) = length pre ->
  N.to_nat (snd (tr_meta rg)) = (33 + length payload)%nat ->
  h_checksum h = h128 payload -> h_data_length h < 2 ^ 32 -> h_uncompressed_length h < 2 ^ 32 ->
  let r' := open_table h128 (mutate file pos b) in
  (exists e, r' = BErr e) \/ r' = open_table h128 file \/ some_collision.
Proof.
  intros Hb file Htoc Hrg Ef Hoff Hsz Hck Hdl Hul r'.
  destruct (sfa_guarded h128 h128_range body toc tl entries pos b Hb Htoc) as [O [H|[H|H]]].
  - left. destruct H as [e H]. exists e. fold file in H. unfold r', open_table. now rewrite H.
  - fold file in H, O. unfold r', open_table. rewrite H, O, Hrg, Hoff, Hsz.
    destruct (Nat.leb (length pre) pos && Nat.ltb pos (length pre + (33 + length payload))) eqn:C.
    + apply andb_true_iff in C. destruct C as [C1 C2].
      apply Nat.leb_le in C1. apply Nat.ltb_lt in C2.
      pose proof (block_byte_guarded h128 h128_range pre h payload post pos b BMeta
                    Hck Hdl Hul (conj C1 C2)) as G.
      cbv zeta in G. rewrite <- Ef in G.
      destruct G as [[e G]|[G|[G|G]]].
      * left. exists e. now rewrite G.
      * right; left. now rewrite G.
      * right; right. left. destruct G as (p' & G1 & _ & G2). exists payload, p'. now split.
      * right; right. right. destruct G as (hb' & G1 & G2 & G3).
        exists (header_body h), hb'. split; [exact G1|]. split; [apply header_body_length|].
        split; assumption.
    + right; left. rewrite block_outside_unchanged; [reflexivity|].
      apply andb_false_iff in C. destruct C as [C|C].
      * apply Nat.leb_gt in C. left. exact C.
      * apply Nat.ltb_ge in C. right. exact C.
  - right; right. left. destruct H as (c' & H1 & H2). exists toc, c'. now split.
Qed.

(** ** Truncation of an sfa archive: the trailer is found relative to the END of the
    file, so a cut file is opened only if the 38 bytes before the cut happen to start
    with a trailer ("SFA!", version 1, checksum type 0) ... *)
Theorem sfa_truncation_partial file len es :
  sfa_open h128 (truncate file len) = BOk es ->
  (38 <= len)%nat /\
  firstn 6 (skipn (Nat.min len (length file) - 38) (truncate file len)) = [83; 70; 65; 33; 1; 0].
Proof.
  intros H. apply sfa_open_ok_inv in H. destruct H as (ck & p & tb & T & _ & _).
  unfold sfa_read_trailer in T. rewrite truncate_length in T.
  destruct (Nat.ltb (Nat.min len (length file)) 38) eqn:F; [discriminate|].
  apply Nat.ltb_ge in F. split; [lia|].
  set (t := skipn (Nat.min len (length file) - 38) (truncate file len)) in *.
  destruct (take_bytes 4 t) as [[magic t1]|] eqn:E0; [|discriminate].
  destruct (negb (key_eqb magic [83; 70; 65; 33])) eqn:EM; [discriminate|].
  destruct (rd 1 t1) as [[ver t2]|e] eqn:E1; [|discriminate].
  destruct (negb (ver =? 1)) eqn:EV; [discriminate|].
  destruct (rd 1 t2) as [[ct t3]|e] eqn:E2; [|discriminate].
  destruct (negb (ct =? 0)) eqn:EC; [discriminate|].
  apply take_bytes_spec in E0. destruct E0 as [Et L0].
  apply rd_spec in E1, E2. destruct E1 as (c1 & -> & L1 & V1). destruct E2 as (c2 & -> & L2 & V2).
  apply negb_false_iff in EM, EV, EC. apply key_eqb_eq in EM. apply N.eqb_eq in EV, EC.
  subst magic. rewrite V1 in EV. rewrite V2 in EC. rewrite Et.
  destruct c1 as [|x1 [|? ?]]; try discriminate. destruct c2 as [|x2 [|? ?]]; try discriminate.
  cbn [le_value] in EV, EC. cbn [app firstn]. repeat f_equal; lia.
Qed.

End OpenTable.

(** ... which CAN happen (REFUTATION of "every truncation of an sfa archive is rejected
    by sfa itself"): a section payload that contains a complete smaller archive. Cutting
    the outer file right after it yields a valid archive with a different ToC. The
    whole-file digest (checked for version files only) is what excludes this. *)
Theorem sfa_truncation_refuted :
  exists (h : list N -> N) secs len es es',
    (forall l, h l < 2 ^ 128) /\
    let file := sfa_encode secs (h (sfa_toc secs)) in
    (len < length file)%nat /\
    sfa_open h file = BOk es /\ sfa_open h (truncate file len) = BOk es' /\ es' <> es.
Proof.
  set (inner := sfa_encode [([97], [1])] (toyh (sfa_toc [([97], [1])]))).
  exists toyh, [([120], inner ++ [0])], (length inner),
    [([120], 0, 67)], [([97], 0, 1)].
  split; [exact toyh_range|]. vm_compute. repeat split; try reflexivity; try lia. discriminate.
Qed.

(** ** A whole blob file: "data" (frames), "meta" ("META" + meta block), ToC, trailer *)

Definition ex_blob_secs : list section :=
  [ (n_data, ex_frame ++ encode_blob_frame toyh [98] 1 [1; 2] 2);
    (n_meta, META_HEADER_MAGIC ++ encode_block toyh BMeta [1; 2; 3]) ].
Definition ex_blob_file : list N := sfa_encode ex_blob_secs (toyh (sfa_toc ex_blob_secs)).

Example open_blob_file_ex :
  length ex_blob_file = 216%nat /\
  (match open_blob_file toyh ex_blob_file with
   | BOk blk => list_N_eqb (b_data blk) [1; 2; 3] | BErr _ => false end) = true /\
  read_blob_frame toyh true ex_blob_file 45 2 [98] = BOk [1; 2] /\
  (* frames 0..85: not looked at when the file is opened *)
  forallb (fun pos => negb (is_err (open_blob_file toyh (bump ex_blob_file pos 1)))) (seq 0 86) = true /\
  (* "META", meta block, ToC, trailer up to toc_pos: rejected *)
  forallb (fun pos => is_err (open_blob_file toyh (bump ex_blob_file pos 1))) (seq 86 122) = true /\
  (* the scan stops at the "META" magic, it does not use the ToC *)
  (match scan_blob_frame toyh ex_blob_file with
   | BOk (Some (e, r)) =>
       match scan_blob_frame toyh r with
       | BOk (Some (e2, r2)) =>
           match scan_blob_frame toyh r2 with BOk None => true | _ => false end
       | _ => false end
   | _ => false end) = true.
Proof. vm_compute. repeat split; reflexivity. Qed.

(** * Assumptions *)
Print Assumptions block_byte_guarded.
Print Assumptions block_truncation_guarded.
Print Assumptions block_outside_unchanged.
Print Assumptions encode_block_loads.
Print Assumptions block_reader_byte_guarded.
Print Assumptions block_reader_truncation_guarded.
Print Assumptions version_file_guarded.
Print Assumptions version_file_byte_guarded.
Print Assumptions version_file_truncation_guarded.
Print Assumptions recover_version_guarded.
Print Assumptions current_file_guarded.
Print Assumptions current_truncation_guarded.
Print Assumptions version_file_old_refuted.
Print Assumptions sfa_guarded.
Print Assumptions sfa_payload_unguarded.
Print Assumptions sfa_toc_len_unread.
Print Assumptions sfa_encode_opens.
Print Assumptions sfa_truncation_partial.
Print Assumptions sfa_truncation_refuted.
Print Assumptions blob_frame_guarded.
Print Assumptions blob_get_seqno_disk_len_unread.
Print Assumptions blob_get_real_len_unread_release.
Print Assumptions blob_scan_guarded.
Print Assumptions blob_scan_seqno_refuted.
Print Assumptions blob_scan_real_len_refuted.
Print Assumptions table_file_covered.
Print Assumptions table_block_region_guarded.
Print Assumptions table_sfa_guarded.
Print Assumptions raw_region_unguarded.
Print Assumptions linked_blob_files_refuted.
Print Assumptions open_table_guarded.
