(** FIFO compaction choice: what is dropped, in which order, and how much. *)
From Coq Require Import Permutation Sorted.
From LsmV Require Import Base.Bytes Model.Fifo.
Open Scope N_scope.
Arguments N.add : simpl never.
Arguments N.sub : simpl never.
Arguments N.mul : simpl never.
Arguments N.ltb : simpl never.
Arguments N.leb : simpl never.
Arguments N.eqb : simpl never.

(** ** sums *)

Lemma sum_by_app {A} (f : A -> N) l1 l2 : sum_by f (l1 ++ l2) = sum_by f l1 + sum_by f l2.
Proof. induction l1 as [|x l1 IH]; cbn [sum_by app]; [reflexivity|]. rewrite IH. lia. Qed.

Lemma sum_by_perm {A} (f : A -> N) l1 l2 : Permutation l1 l2 -> sum_by f l1 = sum_by f l2.
Proof. induction 1; cbn [sum_by]; lia. Qed.

Lemma sum_by_filter_le {A} (f : A -> N) p l : sum_by f (filter p l) <= sum_by f l.
Proof.
  induction l as [|x l IH]; cbn [filter sum_by]; [lia|].
  destruct (p x); cbn [sum_by]; lia.
Qed.

Lemma filter_perm {A} (p : A -> bool) l1 l2 :
  Permutation l1 l2 -> Permutation (filter p l1) (filter p l2).
Proof.
  induction 1 as [|x l1 l2 H IH|x y l|l1 l2 l3 H1 IH1 H2 IH2]; cbn [filter].
  - constructor.
  - destruct (p x); [now constructor | exact IH].
  - destruct (p x), (p y); try apply Permutation_refl. apply perm_swap.
  - eapply Permutation_trans; eauto.
Qed.

Lemma filter_none {A} (p : A -> bool) l : (forall x, In x l -> p x = false) -> filter p l = [].
Proof.
  induction l as [|x l IH]; cbn [filter]; [reflexivity|]. intros H.
  rewrite (H x (or_introl eq_refl)). apply IH. intros y Hy. apply H. now right.
Qed.

Lemma filter_partition_perm {A} (p : A -> bool) l :
  Permutation l (filter p l ++ filter (fun x => negb (p x)) l).
Proof.
  induction l as [|x l IH]; cbn [filter]; [constructor|].
  destruct (p x); cbn [negb app].
  - now constructor.
  - apply Permutation_cons_app. exact IH.
Qed.

(** ** the stable sort *)

Definition created_le (a b : finfo) : Prop := f_created a <= f_created b.

Lemma insert_perm t l : Permutation (t :: l) (insert_by_created t l).
Proof.
  induction l as [|x l IH]; cbn [insert_by_created]; [apply Permutation_refl|].
  destruct (f_created t <=? f_created x); [apply Permutation_refl|].
  eapply Permutation_trans; [apply perm_swap|]. now constructor.
Qed.

Lemma sort_perm l : Permutation l (sort_by_created l).
Proof.
  induction l as [|x l IH]; cbn [sort_by_created fold_right]; [constructor|].
  eapply Permutation_trans; [|apply insert_perm]. now constructor.
Qed.

Lemma insert_sorted t l :
  StronglySorted created_le l -> StronglySorted created_le (insert_by_created t l).
Proof.
  induction 1 as [|x l Hs IH Hf]; cbn [insert_by_created].
  - constructor; constructor.
  - destruct (f_created t <=? f_created x) eqn:E.
    + apply N.leb_le in E. constructor; [now constructor|].
      constructor; [exact E|]. eapply Forall_impl; [|exact Hf].
      intros a Ha. unfold created_le in *. lia.
    + apply N.leb_gt in E. constructor; [exact IH|].
      eapply Permutation_Forall; [apply insert_perm|].
      constructor; [unfold created_le; lia | exact Hf].
Qed.

Lemma sort_sorted l : StronglySorted created_le (sort_by_created l).
Proof.
  induction l as [|x l IH]; cbn [sort_by_created fold_right]; [constructor|].
  now apply insert_sorted.
Qed.

(** stability: the relative order of tables is only changed where the creation time
    demands it, i.e. the sub-list of tables with any given creation time is untouched *)
Lemma insert_filter_eq c t l :
  StronglySorted created_le l ->
  filter (fun x => f_created x =? c) (insert_by_created t l) =
  filter (fun x => f_created x =? c) (t :: l).
Proof.
  induction 1 as [|x l Hs IH Hf]; cbn [insert_by_created]; [reflexivity|].
  destruct (f_created t <=? f_created x) eqn:E; [reflexivity|]. apply N.leb_gt in E.
  cbn [filter] in *. rewrite IH.
  destruct (f_created t =? c) eqn:Et; destruct (f_created x =? c) eqn:Ex; try reflexivity.
  apply N.eqb_eq in Et, Ex. lia.
Qed.

Theorem sort_by_created_stable c l :
  filter (fun x => f_created x =? c) (sort_by_created l) = filter (fun x => f_created x =? c) l.
Proof.
  induction l as [|x l IH]; cbn [sort_by_created fold_right]; [reflexivity|].
  rewrite insert_filter_eq by apply sort_sorted. cbn [filter].
  fold (sort_by_created l). now rewrite IH.
Qed.

(** ** the accumulation loop *)

Fixpoint fifo_collect_rest (overshoot collected : N) (l : list finfo) : list finfo :=
  match l with
  | [] => []
  | t :: l' =>
      if overshoot <=? collected then l
      else fifo_collect_rest overshoot (collected + f_credit t) l'
  end.

Lemma collect_split o c l : l = fifo_collect o c l ++ fifo_collect_rest o c l.
Proof.
  revert c; induction l as [|t l IH]; intros c; cbn [fifo_collect fifo_collect_rest];
    [reflexivity|].
  destruct (o <=? c); [reflexivity|]. cbn [app]. f_equal. apply IH.
Qed.

(** the loop stops as soon as enough is collected: without its last pick it is short *)
Lemma collect_minimal o c l pre last :
  fifo_collect o c l = pre ++ [last] -> c + sum_by f_credit pre < o.
Proof.
  revert c pre; induction l as [|t l IH]; intros c pre; cbn [fifo_collect].
  - destruct pre; discriminate.
  - destruct (o <=? c) eqn:E; [destruct pre; discriminate|]. apply N.leb_gt in E.
    destruct pre as [|p pre]; cbn [app sum_by].
    + intros _. lia.
    + intros [= <- H]. apply IH in H. lia.
Qed.

(** it either takes everything or enough *)
Lemma collect_all_or_enough o c l :
  fifo_collect o c l = l \/ o <= c + sum_by f_credit (fifo_collect o c l).
Proof.
  revert c; induction l as [|t l IH]; intros c; cbn [fifo_collect]; [now left|].
  destruct (o <=? c) eqn:E.
  - apply N.leb_le in E. right. cbn [sum_by]. lia.
  - destruct (IH (c + f_credit t)) as [H|H].
    + left. now rewrite H.
    + right. cbn [sum_by]. lia.
Qed.

Lemma collect_nonempty o c l : c < o -> l <> [] -> fifo_collect o c l <> [].
Proof.
  intros H Hl. destruct l as [|t l]; [congruence|]. cbn [fifo_collect].
  replace (o <=? c) with false by (symmetry; apply N.leb_gt; lia). discriminate.
Qed.

Lemma no_elem_nil {X} (l : list X) : (forall x, ~ In x l) -> l = [].
Proof. destruct l as [|x l]; [reflexivity|]. intros H. destruct (H x). now left. Qed.

Lemma NoDup_app_inv {X} (l1 l2 : list X) :
  NoDup (l1 ++ l2) -> NoDup l1 /\ (forall x, In x l1 -> ~ In x l2).
Proof.
  induction l1 as [|a l1 IH]; cbn [app]; intros H.
  - split; [constructor | intros x []].
  - inversion H as [|? ? Ha Hnd]; subst. destruct (IH Hnd) as [H1 H2]. split.
    + constructor; [|exact H1]. intros Hin. apply Ha. apply in_or_app. now left.
    + intros x [->|Hx]; [|now apply H2]. intros Hin. apply Ha. apply in_or_app. now right.
Qed.

(** ** the choice *)

Section Choice.
Variables (limit : N) (ttl : option N) (now : N) (blob_total : N) (tables : list finfo).

Notation cutoff := (ttl_cutoff ttl now).
Notation Exp := (fifo_expired_tables ttl now tables).
Notation Alive := (fifo_alive_tables ttl now tables).
Notation Sel := (fifo_size_selected limit ttl now blob_total tables).
Notation SA := (fifo_size_after_ttl ttl now blob_total tables).
Notation result := (fifo_choose_full limit ttl now blob_total tables).

(** the non-expired tables the size pass leaves alone *)
Definition fifo_kept : list finfo :=
  if limit <? SA then fifo_collect_rest (SA - limit) 0 (sort_by_created Alive)
  else sort_by_created Alive.

Lemma selected_kept_split : sort_by_created Alive = Sel ++ fifo_kept.
Proof.
  unfold fifo_size_selected, fifo_kept. destruct (limit <? SA); [apply collect_split | reflexivity].
Qed.

(** every table is in exactly one of: expired, size-selected, kept *)
Theorem fifo_partition : Permutation tables (Exp ++ Sel ++ fifo_kept).
Proof.
  rewrite <- selected_kept_split.
  eapply Permutation_trans; [apply (filter_partition_perm (f_expired cutoff))|].
  apply Permutation_app_head. apply sort_perm.
Qed.

Lemma in_expired t : In t Exp <-> In t tables /\ f_expired cutoff t = true.
Proof. unfold fifo_expired_tables. apply filter_In. Qed.

Lemma in_alive t : In t Alive <-> In t tables /\ f_expired cutoff t = false.
Proof.
  unfold fifo_alive_tables. rewrite filter_In, negb_true_iff. reflexivity.
Qed.

Lemma in_selected t : In t Sel -> In t tables /\ f_expired cutoff t = false.
Proof.
  intros H. apply in_alive. eapply Permutation_in; [apply Permutation_sym, sort_perm|].
  rewrite selected_kept_split. apply in_or_app. now left.
Qed.

(** (a) nothing happens within the limits *)
Theorem fifo_nothing_within_limits :
  sum_by f_size tables + blob_total <= limit ->
  (forall t, In t tables -> f_expired cutoff t = false) ->
  result = [].
Proof.
  intros Hsz Hexp. unfold fifo_choose_full.
  assert (HE : Exp = []) by (apply filter_none; exact Hexp).
  rewrite HE. cbn [app]. unfold fifo_size_selected.
  replace (limit <? SA) with false; [reflexivity|].
  symmetry. apply N.ltb_ge. unfold fifo_size_after_ttl, fifo_db_size. lia.
Qed.

(** and conversely the result is empty ONLY if nothing is expired and the accounted size
    is within the limit or there is no live table to drop *)
Theorem fifo_nothing_iff :
  result = [] <->
  (forall t, In t tables -> f_expired cutoff t = false) /\
  (sum_by f_size tables + blob_total <= limit \/ tables = []).
Proof.
  split.
  - intros H. unfold fifo_choose_full in H. apply map_eq_nil in H.
    apply app_eq_nil in H as [HE HS].
    assert (Hexp : forall t, In t tables -> f_expired cutoff t = false).
    { intros t Ht. destruct (f_expired cutoff t) eqn:Et; [|reflexivity].
      assert (In t Exp) as Hin by (apply in_expired; auto). rewrite HE in Hin. destruct Hin. }
    split; [exact Hexp|].
    unfold fifo_size_selected in HS. unfold fifo_size_after_ttl, fifo_db_size in HS.
    rewrite HE in HS. cbn [sum_by] in HS. rewrite N.sub_0_r in HS.
    destruct (limit <? sum_by f_size tables + blob_total) eqn:El.
    + right. apply N.ltb_lt in El. apply no_elem_nil. intros t0 Ht0.
      revert HS. apply collect_nonempty; [lia|].
      intros Hnil. assert (In t0 Alive) as Hin by (apply in_alive; auto).
      eapply Permutation_in in Hin; [|apply sort_perm]. rewrite Hnil in Hin. destruct Hin.
    + left. now apply N.ltb_ge.
  - intros [Hexp [Hsz|Hnil]].
    + now apply fifo_nothing_within_limits.
    + unfold fifo_choose_full, fifo_size_selected, fifo_expired_tables, fifo_alive_tables.
      rewrite Hnil. cbn [filter sort_by_created fold_right app].
      destruct (limit <? _); reflexivity.
Qed.

(** (b) every expired table is dropped *)
Theorem fifo_expired_dropped t :
  In t tables -> f_expired cutoff t = true -> In (f_id t) result.
Proof.
  intros Ht He. unfold fifo_choose_full. apply in_map. apply in_or_app. left.
  apply in_expired. auto.
Qed.

(** (e) the result only names given tables, each at most once *)
Theorem fifo_choose_subset id : In id result -> In id (map f_id tables).
Proof.
  unfold fifo_choose_full. rewrite !in_map_iff. intros [t [Hid Hin]]. exists t. split; [exact Hid|].
  apply in_app_or in Hin as [Hin|Hin]; [now apply in_expired in Hin | now apply in_selected in Hin].
Qed.

Theorem fifo_choose_NoDup : NoDup (map f_id tables) -> NoDup result.
Proof.
  intros Hnd. unfold fifo_choose_full.
  assert (Hp : Permutation (map f_id tables) (map f_id (Exp ++ Sel) ++ map f_id fifo_kept)).
  { rewrite <- map_app, <- app_assoc. apply Permutation_map. apply fifo_partition. }
  eapply Permutation_NoDup in Hnd; [|exact Hp]. now apply NoDup_app_inv in Hnd.
Qed.

(** a kept table's id is not in the result (given unique ids) *)
Lemma fifo_kept_not_dropped t :
  NoDup (map f_id tables) -> In t fifo_kept -> ~ In (f_id t) result.
Proof.
  intros Hnd Hk Hin.
  assert (Hp : Permutation (map f_id tables) (map f_id (Exp ++ Sel) ++ map f_id fifo_kept)).
  { rewrite <- map_app, <- app_assoc. apply Permutation_map. apply fifo_partition. }
  eapply Permutation_NoDup in Hnd; [|exact Hp].
  apply NoDup_app_inv in Hnd as [_ Hnd]. apply (Hnd (f_id t) Hin). now apply in_map.
Qed.

(** (c) oldest first: every dropped table (expired or size-selected) is at most as young
    as every table that stays; "stays" = its id is not in the result *)
Theorem fifo_oldest_first r t :
  In r (Exp ++ Sel) -> In t tables -> ~ In (f_id t) result ->
  f_created r <= f_created t.
Proof.
  intros Hr Ht Hkeep.
  assert (Hte : f_expired cutoff t = false).
  { destruct (f_expired cutoff t) eqn:Ee; [|reflexivity]. exfalso. apply Hkeep.
    now apply fifo_expired_dropped. }
  apply in_app_or in Hr as [Hr|Hr].
  - (* r expired, t not *)
    apply in_expired in Hr as [_ Hr]. unfold f_expired in *.
    destruct cutoff as [c|]; [|discriminate]. apply N.leb_le in Hr. apply N.leb_gt in Hte. lia.
  - (* r size-selected: r sits before t in the sorted list *)
    assert (Htk : In t fifo_kept).
    { assert (In t (sort_by_created Alive)) as Hin.
      { eapply Permutation_in; [apply sort_perm|]. apply in_alive. auto. }
      rewrite selected_kept_split in Hin. apply in_app_or in Hin as [Hin|Hin]; [|exact Hin].
      exfalso. apply Hkeep. unfold fifo_choose_full. apply in_map. apply in_or_app. now right. }
    pose proof (sort_sorted Alive) as Hs. rewrite selected_kept_split in Hs.
    clear - Hs Hr Htk. induction Sel as [|x l IH]; [destruct Hr|].
    cbn [app] in Hs. inversion Hs as [|? ? Hs' Hf]; subst.
    destruct Hr as [->|Hr]; [|auto].
    rewrite Forall_forall in Hf. apply Hf. apply in_or_app. now right.
Qed.

(** (d1) minimality: take away the last size-selected table and the accounted size is
    still over the limit *)
Theorem fifo_minimal pre last :
  Sel = pre ++ [last] -> limit < SA - sum_by f_credit pre.
Proof.
  unfold fifo_size_selected. destruct (limit <? SA) eqn:El.
  - apply N.ltb_lt in El. intros H. apply collect_minimal in H. lia.
  - destruct pre; discriminate.
Qed.

(** (d2) sufficiency: afterwards the accounted size is within the limit, unless every
    non-expired table had to go *)
Theorem fifo_enough :
  SA - sum_by f_credit Sel <= limit \/ (Sel = sort_by_created Alive /\ fifo_kept = []).
Proof.
  unfold fifo_kept, fifo_size_selected. destruct (limit <? SA) eqn:El.
  - apply N.ltb_lt in El.
    destruct (collect_all_or_enough (SA - limit) 0 (sort_by_created Alive)) as [H|H].
    + right. split; [exact H|].
      pose proof (collect_split (SA - limit) 0 (sort_by_created Alive)) as Hs.
      rewrite H in Hs.
      rewrite <- (app_nil_r (sort_by_created Alive)) in Hs at 1.
      apply app_inv_head in Hs. now symmetry.
    + left. lia.
  - apply N.ltb_ge in El. left. cbn [sum_by]. lia.
Qed.
End Choice.

(** ** the case where blob bytes are exactly the tables' references *)

Section Exact.
Variables (limit : N) (ttl : option N) (now : N) (tables : list finfo).
Notation blob_total := (sum_by f_blob tables).
Notation cutoff := (ttl_cutoff ttl now).

Lemma sum_credit_split (l : list finfo) : sum_by f_credit l = sum_by f_size l + sum_by f_blob l.
Proof. induction l as [|x l IH]; cbn [sum_by]; [reflexivity|]. unfold f_credit at 1. lia. Qed.

(** then [size_after_ttl] is the size of the non-expired tables, without saturation *)
Lemma size_after_ttl_exact :
  fifo_size_after_ttl ttl now blob_total tables =
  sum_by f_credit (fifo_alive_tables ttl now tables).
Proof.
  unfold fifo_size_after_ttl, fifo_db_size. rewrite <- sum_credit_split.
  rewrite (sum_by_perm f_credit _ _ (filter_partition_perm (f_expired cutoff) tables)).
  rewrite sum_by_app. unfold fifo_expired_tables, fifo_alive_tables. lia.
Qed.

(** (a) *)
Theorem fifo_choose_nothing_within_limits :
  sum_by f_credit tables <= limit ->
  (forall t, In t tables -> f_expired cutoff t = false) ->
  fifo_choose limit ttl now tables = [].
Proof.
  intros H. apply fifo_nothing_within_limits. rewrite <- sum_credit_split. exact H.
Qed.

(** (d2) what stays fits: the tables whose id is not in the result weigh at most [limit] *)
Theorem fifo_choose_retained_within_limit :
  sum_by f_credit
    (filter (fun t => negb (existsb (N.eqb (f_id t)) (fifo_choose limit ttl now tables))) tables)
  <= limit.
Proof.
  set (res := fifo_choose limit ttl now tables).
  set (p := fun t => negb (existsb (N.eqb (f_id t)) res)).
  pose proof (fifo_partition limit ttl now blob_total tables) as Hp.
  rewrite (sum_by_perm f_credit _ _ (filter_perm p _ _ Hp)).
  rewrite app_assoc, filter_app, sum_by_app.
  assert (Hd : filter p (fifo_expired_tables ttl now tables ++
                         fifo_size_selected limit ttl now blob_total tables) = []).
  { apply filter_none. intros t Ht. unfold p. apply negb_false_iff. apply existsb_exists.
    exists (f_id t). split; [|apply N.eqb_refl]. unfold res, fifo_choose, fifo_choose_full.
    now apply in_map. }
  rewrite Hd. cbn [sum_by].
  eapply N.le_trans; [apply N.add_le_mono_l, sum_by_filter_le|].
  destruct (fifo_enough limit ttl now blob_total tables) as [H|[_ H]].
  - rewrite size_after_ttl_exact in H.
    rewrite (sum_by_perm f_credit _ _ (sort_perm (fifo_alive_tables ttl now tables))) in H.
    rewrite (selected_kept_split limit ttl now blob_total tables), sum_by_app in H. lia.
  - rewrite H. cbn [sum_by]. lia.
Qed.

(** (d1) and dropping one table less would not fit: the tables that stay plus the last
    size-selected one weigh more than [limit] *)
Theorem fifo_choose_minimal pre last :
  fifo_size_selected limit ttl now blob_total tables = pre ++ [last] ->
  limit < f_credit last + sum_by f_credit (fifo_kept limit ttl now blob_total tables).
Proof.
  intros H. pose proof (fifo_minimal limit ttl now blob_total tables pre last H) as Hm.
  rewrite size_after_ttl_exact in Hm.
  rewrite (sum_by_perm f_credit _ _ (sort_perm (fifo_alive_tables ttl now tables))) in Hm.
  rewrite (selected_kept_split limit ttl now blob_total tables), H, !sum_by_app in Hm.
  cbn [sum_by] in Hm. lia.
Qed.
End Exact.

(** ** expiry, in human units *)

Theorem expired_spec ttl now t :
  f_expired (ttl_cutoff ttl now) t = true <->
  exists s, ttl = Some s /\ 0 < s /\ f_created t <= now - s * 1000000000.
Proof.
  unfold ttl_cutoff, f_expired. destruct ttl as [s|].
  - destruct (0 <? s) eqn:Es.
    + apply N.ltb_lt in Es. rewrite N.leb_le. split.
      * intros H. exists s. auto.
      * intros [s' [[= <-] [_ H]]]. exact H.
    + apply N.ltb_ge in Es. split; [discriminate|]. intros [s' [[= <-] [H _]]]. lia.
  - split; [discriminate|]. intros [s' [[=] _]].
Qed.

(** when the clock is past the TTL: a table is expired iff it is at least [s] seconds old
    ([<=]: exactly [s] seconds old counts as expired) *)
Corollary expired_age s now t : 0 < s -> s * 1000000000 <= now ->
  (f_expired (ttl_cutoff (Some s) now) t = true <-> f_created t + s * 1000000000 <= now).
Proof.
  intros Hs Hn. rewrite expired_spec. split.
  - intros [s' [[= <-] [_ H]]]. lia.
  - intros H. exists s. repeat split; auto. lia.
Qed.

(** ** examples *)

(** fifo.rs test fifo_ttl: tables created at t=1000s and t=1005s, now = 1011s, TTL = 10s,
    no size limit: only the first is dropped (cutoff = 1001s). *)
Definition sec (n : N) : N := n * 1000000000.
Definition u64_max : N := 18446744073709551615.
Example fifo_ttl :
  fifo_choose u64_max (Some 10) (sec 1011) [mkF 0 (sec 1000) 300 0; mkF 1 (sec 1005) 300 0] = [0].
Proof. vm_compute. reflexivity. Qed.

(** fifo_empty_levels / fifo_compact_empty_tree_noop *)
Example fifo_empty_levels : fifo_choose 1 None (sec 5) [] = [] /\
                            fifo_choose 1000000 (Some 1) (sec 5) [] = [].
Proof. vm_compute. split; reflexivity. Qed.

(** fifo_below_limit *)
Example fifo_below_limit :
  fifo_choose u64_max None (sec 9)
    [mkF 0 (sec 1) 300 0; mkF 1 (sec 2) 300 0; mkF 2 (sec 3) 300 0; mkF 3 (sec 4) 300 0] = [].
Proof. vm_compute. reflexivity. Qed.

(** fifo_more_than_limit: limit = 1 drops something (here: everything) *)
Example fifo_more_than_limit :
  fifo_choose 1 None (sec 9)
    [mkF 0 (sec 1) 300 0; mkF 1 (sec 2) 300 0; mkF 2 (sec 3) 300 0; mkF 3 (sec 4) 300 0]
  = [0;1;2;3].
Proof. vm_compute. reflexivity. Qed.

(** fifo_ttl_then_limit_additional_drops_blob_unit: both expired at t = 10^7 s, TTL 1s *)
Example fifo_ttl_then_limit :
  fifo_choose 1 (Some 1) (sec 10000000) [mkF 0 (sec 100) 300 50; mkF 1 (sec 101) 300 50] = [0;1].
Proof. vm_compute. reflexivity. Qed.

(** tests/fifo_ttl.rs: fifo_ttl_no_drop_when_recent_or_disabled *)
Example fifo_ttl_no_drop_when_recent_or_disabled :
  let ts := [mkF 0 (sec 1000) 300 0; mkF 1 (sec 1001) 300 0] in
  fifo_choose u64_max (Some 15) (sec 1002) ts = [] /\
  fifo_choose u64_max None (sec 1002) ts = [] /\
  fifo_choose u64_max (Some 0) (sec 999999) ts = [].
Proof. vm_compute. repeat split; reflexivity. Qed.

(** tests/fifo_ttl.rs: fifo_limit_considers_blob_bytes: table files of 4 bytes would fit
    into limit = 20, the blob bytes push the tree over it *)
Example fifo_limit_considers_blob_bytes :
  let ts := [mkF 0 (sec 1) 4 30; mkF 1 (sec 2) 4 30; mkF 2 (sec 3) 4 30] in
  fifo_choose 40 None (sec 9) ts = [0;1] /\
  fifo_choose 40 None (sec 9) (map (fun t => mkF (f_id t) (f_created t) (f_size t) 0) ts) = [].
Proof. vm_compute. split; reflexivity. Qed.

(** size-selection goes by creation time, not by position in the run; ties keep run order;
    the loop stops at the first table that covers the overshoot *)
Example fifo_order :
  fifo_choose 250 None (sec 9)
    [mkF 0 (sec 5) 100 0; mkF 1 (sec 2) 100 0; mkF 2 (sec 7) 100 0; mkF 3 (sec 2) 100 0]
  = [1;3].
Proof. vm_compute. reflexivity. Qed.

(** an instance of all hypotheses used above *)
Example fifo_instance :
  let ts := [mkF 0 (sec 5) 100 10; mkF 1 (sec 2) 100 10; mkF 2 (sec 7) 100 10] in
  NoDup (map f_id ts) /\
  fifo_choose 200 (Some 3) (sec 6) ts = [1; 0] /\
  fifo_expired_tables (Some 3) (sec 6) ts = [mkF 1 (sec 2) 100 10] /\
  fifo_size_selected 200 (Some 3) (sec 6) (sum_by f_blob ts) ts = [] ++ [mkF 0 (sec 5) 100 10] /\
  fifo_kept 200 (Some 3) (sec 6) (sum_by f_blob ts) ts = [mkF 2 (sec 7) 100 10].
Proof.
  cbv zeta. split; [repeat constructor; cbn; intuition discriminate|].
  vm_compute. repeat split; reflexivity.
Qed.

(** NOTE: [db_size] counts every blob file of the version (fifo.rs:90,
    [total_compressed_bytes]) while a dropped table is credited with the blob bytes it
    references (fifo.rs:114, :140, [on_disk_bytes] of its linked files).  The clean
    statements above ([fifo_choose_*]) need the two accountings to agree.  If the version
    holds blob bytes that no L0 table accounts for (stale blobs not yet dropped, blobs
    referenced from tables outside L0), they can never be "collected" and FIFO drops every
    table of L0, however small: *)
Example fifo_unaccounted_blob_bytes_drop_everything :
  fifo_choose_full 1000 None (sec 9) 5000 [mkF 0 (sec 1) 10 0; mkF 1 (sec 2) 10 0] = [0;1] /\
  fifo_choose 1000 None (sec 9) [mkF 0 (sec 1) 10 0; mkF 1 (sec 2) 10 0] = [].
Proof. vm_compute. split; reflexivity. Qed.

(** Conversely, if the tables' credits add up to more than [blob_total], the loop stops
    while the real size (2 tables + 600 blob bytes = 800) is still over the limit: *)
Example fifo_shared_blob_bytes_stop_early :
  fifo_choose_full 500 None (sec 9) 600
    [mkF 0 (sec 1) 100 600; mkF 1 (sec 2) 100 600; mkF 2 (sec 3) 100 600] = [0].
Proof. vm_compute. reflexivity. Qed.

Print Assumptions fifo_partition.
Print Assumptions fifo_nothing_within_limits.
Print Assumptions fifo_nothing_iff.
Print Assumptions fifo_expired_dropped.
Print Assumptions fifo_oldest_first.
Print Assumptions fifo_minimal.
Print Assumptions fifo_enough.
Print Assumptions fifo_choose_subset.
Print Assumptions fifo_choose_NoDup.
Print Assumptions fifo_kept_not_dropped.
Print Assumptions fifo_choose_nothing_within_limits.
Print Assumptions fifo_choose_retained_within_limit.
Print Assumptions fifo_choose_minimal.
Print Assumptions sort_by_created_stable.
Print Assumptions expired_spec.
Print Assumptions expired_age.
