(** C18: the getters equal the true maxima over the stored entries. *)
From LsmV Require Import Model.Marks Proofs.Newest Proofs.Lookup.
Open Scope N_scope.

Lemma omax_assoc a b c : omax (omax a b) c = omax a (omax b c).
Proof. destruct a, b, c; simpl; try reflexivity. now rewrite N.max_assoc. Qed.

Lemma omax_comm a b : omax a b = omax b a.
Proof. destruct a, b; simpl; try reflexivity. now rewrite N.max_comm. Qed.

Lemma omax_none_r a : omax a None = a.
Proof. now destruct a. Qed.

Lemma max_seq_opt_acc l a :
  fold_left (fun acc e => opt_max acc (Some (seq e))) l a = omax a (max_seq_opt l).
Proof.
  unfold max_seq_opt. revert a. induction l as [|e l IH]; intros a; simpl.
  - now rewrite omax_none_r.
  - rewrite IH. rewrite (IH (Some (seq e))). now rewrite omax_assoc.
Qed.

Lemma max_seq_opt_app a b : max_seq_opt (a ++ b) = omax (max_seq_opt a) (max_seq_opt b).
Proof.
  unfold max_seq_opt at 1. rewrite fold_left_app. fold (max_seq_opt a).
  now rewrite max_seq_opt_acc.
Qed.

Lemma max_seq_acc l a : fold_left (fun a x => N.max a (seq x)) l a = N.max a (max_seq l).
Proof.
  unfold max_seq. revert a. induction l as [|e l IH]; intros a; simpl.
  - now rewrite N.max_0_r.
  - rewrite IH. rewrite (IH (N.max 0 (seq e))). rewrite N.max_0_l. now rewrite N.max_assoc.
Qed.

Lemma fold_opt_some l a :
  fold_left (fun acc e => opt_max acc (Some (seq e))) l (Some a)
  = Some (fold_left (fun a x => N.max a (seq x)) l a).
Proof.
  revert a. induction l as [|e l IH]; intros a; simpl; [reflexivity|]. apply IH.
Qed.

Lemma max_seq_opt_nonempty l : l <> [] -> max_seq_opt l = Some (max_seq l).
Proof.
  destruct l as [|e l]; [congruence|]. intros _.
  unfold max_seq_opt, max_seq. simpl. rewrite fold_opt_some. now rewrite N.max_0_l.
Qed.

Lemma mt_highest_exact m : mt_highest m = max_seq_opt (ments m).
Proof.
  unfold mt_highest. destruct (ments m) as [|e l] eqn:E; [reflexivity|].
  symmetry. apply max_seq_opt_nonempty. congruence.
Qed.

Lemma table_highest_exact t : table_ok t = true -> Some (shi t + gseq t) = max_seq_opt (ents t).
Proof.
  intros T. unfold table_ok in T. apply andb_true_iff in T. destruct T as [_ M].
  unfold table_meta_ok in M. destruct (ents t) as [|e0 l] eqn:E; [discriminate|].
  repeat (apply andb_true_iff in M; destruct M as [M ?]).
  match goal with H : (shi t + gseq t =? _) = true |- _ => apply N.eqb_eq in H; rewrite H end.
  symmetry. apply max_seq_opt_nonempty. congruence.
Qed.

Lemma fold_tables_exact ts a :
  forallb table_ok ts = true ->
  fold_left (fun acc t => omax acc (Some (shi t + gseq t))) ts a
  = omax a (max_seq_opt (concat (map ents ts))).
Proof.
  revert a. induction ts as [|t ts IH]; intros a F; simpl.
  - now rewrite omax_none_r.
  - simpl in F. apply andb_true_iff in F. destruct F as [T F].
    rewrite IH by assumption. rewrite max_seq_opt_app.
    rewrite (table_highest_exact t T). now rewrite omax_assoc.
Qed.

Lemma fold_mts_exact ms a :
  fold_left (fun acc m => omax acc (mt_highest m)) ms a
  = omax a (max_seq_opt (concat (map ments ms))).
Proof.
  revert a. induction ms as [|m ms IH]; intros a; simpl.
  - now rewrite omax_none_r.
  - rewrite IH. rewrite max_seq_opt_app, mt_highest_exact. now rewrite omax_assoc.
Qed.

Lemma all_tables_ok sv : check_inv_sv sv = true -> forallb table_ok (all_tables (ver sv)) = true.
Proof.
  intros I. unfold check_inv_sv in I.
  repeat (apply andb_true_iff in I; destruct I as [I ?]).
  match goal with H : forallb run_ok _ = true |- _ => rename H into R end.
  unfold all_tables. induction (all_runs (ver sv)) as [|r rs IH]; simpl; [reflexivity|].
  simpl in R. apply andb_true_iff in R. destruct R as [Rr Rs].
  rewrite forallb_app. rewrite IH by assumption. rewrite andb_true_r.
  unfold run_ok in Rr. destruct r; [discriminate|].
  apply andb_true_iff in Rr. tauto.
Qed.

(** get_highest_persisted_seqno = the largest sequence number actually stored in tables
    (None iff there is no table) *)
Theorem highest_persisted_exact sv :
  check_inv_sv sv = true -> impl_highest_persisted sv = highest_persisted sv.
Proof.
  intros I. unfold impl_highest_persisted, highest_persisted.
  rewrite fold_tables_exact by (now apply all_tables_ok). reflexivity.
Qed.

Theorem highest_memtable_exact sv : impl_highest_memtable sv = highest_memtable sv.
Proof.
  unfold impl_highest_memtable, highest_memtable.
  rewrite fold_mts_exact, mt_highest_exact, max_seq_opt_app. reflexivity.
Qed.

Theorem highest_exact sv :
  check_inv_sv sv = true -> impl_highest sv = highest_overall sv.
Proof.
  intros I. unfold impl_highest, highest_overall.
  now rewrite highest_persisted_exact, highest_memtable_exact.
Qed.

(** the marks are true maxima: attained and bounding *)
Lemma max_seq_opt_bound l e : In e l -> exists m, max_seq_opt l = Some m /\ seq e <= m.
Proof.
  intros HI. assert (l <> []) by (destruct l; [contradiction|congruence]).
  rewrite max_seq_opt_nonempty by assumption. eexists; split; [reflexivity|].
  unfold max_seq. clear H. revert HI. generalize 0.
  induction l as [|x l IH]; intros a HI; [contradiction|]. simpl.
  destruct HI as [->|HI].
  - rewrite max_seq_acc. lia.
  - now apply IH.
Qed.

Lemma max_seq_opt_attained l m : max_seq_opt l = Some m -> exists e, In e l /\ seq e = m.
Proof.
  destruct l as [|e0 l]; [discriminate|].
  rewrite max_seq_opt_nonempty by congruence. intros E; inversion E; subst; clear E.
  unfold max_seq. simpl. rewrite N.max_0_l.
  revert e0. induction l as [|x l IH]; intros e0; simpl.
  - exists e0; auto.
  - destruct (N.max_spec (seq e0) (seq x)) as [[_ ->]|[_ ->]].
    + destruct (IH x) as (e & HI & E). exists e. split; [|exact E]. simpl in *. tauto.
    + destruct (IH e0) as (e & HI & E). exists e. split; [|exact E]. simpl in *. tauto.
Qed.
