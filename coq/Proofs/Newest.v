(** Characterisation of the Spec's [newest] (order-independent under uniqueness of
    (user key, seqno)), used by every refinement proof. *)
From LsmV Require Import Model.Entry.
From Coq Require Import Permutation.
Open Scope N_scope.

Definition uniq (l : list entry) : Prop :=
  forall e1 e2, In e1 l -> In e2 l -> ukey e1 = ukey e2 -> seq e1 = seq e2 -> e1 = e2.

Lemma matches_iff k S e : matches k S e = true <-> ukey e = k /\ seq e < S.
Proof.
  unfold matches. rewrite andb_true_iff, key_eqb_eq, N.ltb_lt. tauto.
Qed.

Lemma newest_some k S l e :
  newest k S l = Some e -> In e l /\ matches k S e = true.
Proof.
  revert e; induction l as [|x l IH]; simpl; intros e H; [discriminate|].
  destruct (matches k S x) eqn:M.
  - destruct (newest k S l) as [e'|] eqn:R.
    + destruct (seq e' <? seq x).
      * inversion H; subst. auto.
      * inversion H; subst. destruct (IH e eq_refl). auto.
    + inversion H; subst. auto.
  - destruct (IH e H). auto.
Qed.

Lemma newest_max k S l e :
  newest k S l = Some e -> forall e', In e' l -> matches k S e' = true -> seq e' <= seq e.
Proof.
  revert e; induction l as [|x l IH]; simpl; intros e H e' HI HM; [contradiction|].
  destruct (matches k S x) eqn:M.
  - destruct (newest k S l) as [r|] eqn:R.
    + destruct (seq r <? seq x) eqn:C.
      * inversion H; subst. apply N.ltb_lt in C. destruct HI as [->|HI]; [lia|].
        specialize (IH r eq_refl e' HI HM). lia.
      * inversion H; subst. apply N.ltb_ge in C. destruct HI as [->|HI]; [lia|].
        apply (IH e eq_refl e' HI HM).
    + inversion H; subst. destruct HI as [->|HI]; [lia|].
      clear IH. exfalso. revert R e' HI HM. clear. induction l as [|y l IH]; simpl; [tauto|].
      intros R e' [->|HI] HM.
      * rewrite HM in R. destruct (newest k S l); [destruct (_ <? _)|]; discriminate.
      * destruct (matches k S y); [destruct (newest k S l); [destruct (_ <? _)|]; discriminate|].
        eauto.
  - destruct HI as [->|HI]; [congruence|]. eauto.
Qed.

Lemma newest_none k S l :
  newest k S l = None <-> (forall e, In e l -> matches k S e = false).
Proof.
  induction l as [|x l IH]; simpl; [tauto|].
  destruct (matches k S x) eqn:M.
  - split.
    + destruct (newest k S l); [destruct (_ <? _)|]; discriminate.
    + intros H. specialize (H x (or_introl eq_refl)). congruence.
  - rewrite IH. split; intros H e; [intros [->|HI]; auto | auto].
Qed.

Lemma newest_char k S l e :
  uniq l -> In e l -> matches k S e = true ->
  (forall e', In e' l -> matches k S e' = true -> seq e' <= seq e) ->
  newest k S l = Some e.
Proof.
  intros U HI HM Hmax.
  destruct (newest k S l) as [r|] eqn:R.
  - destruct (newest_some _ _ _ _ R) as [RI RM].
    pose proof (newest_max _ _ _ _ R e HI HM) as A.
    pose proof (Hmax r RI RM) as B.
    f_equal. apply U; auto.
    + apply matches_iff in HM, RM. destruct HM, RM; congruence.
    + lia.
  - rewrite newest_none in R. rewrite (R e HI) in HM. discriminate.
Qed.

Lemma uniq_perm l l' : Permutation l l' -> uniq l -> uniq l'.
Proof.
  intros P U e1 e2 H1 H2. apply Permutation_sym in P.
  apply U; eapply Permutation_in; eauto.
Qed.

Lemma newest_perm k S l l' :
  uniq l -> Permutation l l' -> newest k S l = newest k S l'.
Proof.
  intros U P.
  destruct (newest k S l) as [r|] eqn:R.
  - destruct (newest_some _ _ _ _ R) as [RI RM]. symmetry.
    apply newest_char; eauto using uniq_perm, Permutation_in.
    intros e' HI HM. eapply newest_max; eauto using Permutation_in, Permutation_sym.
  - symmetry. rewrite newest_none in *. intros e HI. apply R.
    eauto using Permutation_in, Permutation_sym.
Qed.

Lemma uniq_app_l a b : uniq (a ++ b) -> uniq a.
Proof. intros U e1 e2 H1 H2. apply U; apply in_or_app; auto. Qed.

Lemma uniq_app_r a b : uniq (a ++ b) -> uniq b.
Proof. intros U e1 e2 H1 H2. apply U; apply in_or_app; auto. Qed.

(** if every version of [k] in [a] is newer than every version of [k] in [b], a hit in
    [a] decides; otherwise [b] decides *)
Lemma newest_app k S a b :
  uniq (a ++ b) ->
  (forall e e', In e a -> In e' b -> ukey e = k -> ukey e' = k -> seq e' < seq e) ->
  newest k S (a ++ b) =
  match newest k S a with Some e => Some e | None => newest k S b end.
Proof.
  intros U Hnew.
  destruct (newest k S a) as [r|] eqn:R.
  - destruct (newest_some _ _ _ _ R) as [RI RM].
    apply newest_char; auto; [apply in_or_app; auto|].
    intros e' HI HM. apply in_app_or in HI. destruct HI as [HI|HI].
    + eapply newest_max; eauto.
    + apply matches_iff in HM, RM. destruct HM, RM.
      specialize (Hnew r e' RI HI H1 H). lia.
  - rewrite newest_none in R.
    destruct (newest k S b) as [r|] eqn:R2.
    + destruct (newest_some _ _ _ _ R2) as [RI RM].
      apply newest_char; auto; [apply in_or_app; auto|].
      intros e' HI HM. apply in_app_or in HI. destruct HI as [HI|HI].
      * rewrite (R e' HI) in HM. discriminate.
      * eapply newest_max; eauto.
    + rewrite newest_none in *. intros e HI. apply in_app_or in HI. destruct HI; auto.
Qed.

(** [newest] only depends on the entries of key [k] *)
Lemma newest_filter_key k S l :
  newest k S l = newest k S (filter (fun e => key_eqb (ukey e) k) l).
Proof.
  induction l as [|x l IH]; simpl; [reflexivity|].
  unfold matches at 1. destruct (key_eqb (ukey x) k) eqn:E; simpl.
  - unfold matches. rewrite E. simpl. rewrite IH. reflexivity.
  - exact IH.
Qed.

Lemma newest_ext k S l l' :
  uniq l -> uniq l' ->
  (forall e, ukey e = k -> (In e l <-> In e l')) ->
  newest k S l = newest k S l'.
Proof.
  intros U U' H.
  destruct (newest k S l) as [r|] eqn:R.
  - destruct (newest_some _ _ _ _ R) as [RI RM]. symmetry.
    pose proof RM as RM'. apply matches_iff in RM'. destruct RM' as [Rk _].
    apply newest_char; auto; [now apply H|].
    intros e' HI HM. pose proof HM as HM'. apply matches_iff in HM'. destruct HM' as [Ek _].
    eapply newest_max; eauto. now apply H.
  - symmetry. rewrite newest_none in *. intros e HI.
    destruct (matches k S e) eqn:M; auto.
    pose proof M as M'. apply matches_iff in M'. destruct M' as [Ek _].
    rewrite <- (R e); auto. now apply H.
Qed.
