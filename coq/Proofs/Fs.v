(** Crash-atomicity / failure-atomicity / reclamation theorems about [Model/Fs.v]. *)
From Coq Require Import List NArith Arith Bool Lia.
From LsmV Require Import Model.Fs.
Import ListNotations.
Open Scope N_scope.

(** * Boolean equalities *)
Lemma fname_eqb_eq a b : fname_eqb a b = true <-> a = b.
Proof.
  destruct a, b; simpl; try (split; congruence);
    rewrite N.eqb_eq; split; congruence.
Qed.

Lemma fname_eqb_refl a : fname_eqb a a = true.
Proof. now apply fname_eqb_eq. Qed.

Lemma fname_eqb_neq a b : fname_eqb a b = false <-> a <> b.
Proof. rewrite <- fname_eqb_eq. destruct (fname_eqb a b); split; congruence. Qed.

Lemma fname_eq_dec (a b : fname) : {a = b} + {a <> b}.
Proof.
  destruct (fname_eqb a b) eqn:E; [left; now apply fname_eqb_eq | right; now apply fname_eqb_neq].
Qed.

Lemma dname_eqb_eq a b : dname_eqb a b = true <-> a = b.
Proof. destruct a, b; simpl; split; congruence. Qed.

Lemma dname_eqb_refl a : dname_eqb a a = true.
Proof. now destruct a. Qed.

Lemma list_eqb_eq a b : list_eqb a b = true <-> a = b.
Proof.
  revert b; induction a as [|x a IH]; intros [|y b]; simpl; try (split; congruence).
  rewrite andb_true_iff, N.eqb_eq, IH. split; [intros [-> ->]; reflexivity | intros E; inversion E; auto].
Qed.

Lemma list_eqb_refl a : list_eqb a a = true.
Proof. now apply list_eqb_eq. Qed.

Lemma opt_eqb_eq a b : opt_eqb a b = true <-> a = b.
Proof.
  destruct a, b; simpl; try (split; congruence).
  rewrite N.eqb_eq; split; congruence.
Qed.

Lemma opt_is_true j o : opt_is j o = true <-> o = Some j.
Proof.
  destruct o; simpl; [|split; congruence].
  rewrite N.eqb_eq; split; congruence.
Qed.

Lemma upd_name_same m f v : upd_name m f v f = v.
Proof. unfold upd_name. now rewrite fname_eqb_refl. Qed.

Lemma upd_name_other m f v g : g <> f -> upd_name m f v g = m g.
Proof. unfold upd_name. intros H. apply fname_eqb_neq in H. now rewrite H. Qed.

Lemma upd_cont_same m i v : upd_cont m i v i = v.
Proof. unfold upd_cont. now rewrite N.eqb_refl. Qed.

Lemma upd_cont_other m i v j : j <> i -> upd_cont m i v j = m j.
Proof. unfold upd_cont. intros H. apply N.eqb_neq in H. now rewrite H. Qed.

(** * Crash images as a predicate *)
Definition entry_ok (s : fsstate) (f : fname) (e : option icontent) : Prop :=
  match e with
  | None => dns s f = None \/ vns s f = None
  | Some c => exists i, (dns s f = Some i \/ vns s f = Some i) /\
                        In c (crash_contents (dcont s i) (vcont s i))
  end.

(** [img] is what a process reopening the directory after a crash in state [s] may see:
    per directory entry independently the durable or the volatile binding; per inode the
    durable content or a (possibly torn) prefix of the volatile one extending it; a
    sub-directory is visible if durably linked, may be visible if only volatilely. *)
Definition is_crash_image (s : fsstate) (img : image) : Prop :=
  (forall d, ddirs s d = true -> idirs img d = true) /\
  (forall d, idirs img d = true -> ddirs s d = true \/ vdirs s d = true) /\
  (forall f, entry_ok s f (iget img f)).

(** * Contents *)
Lemma prefixes_spec l p : In p (prefixes l) <-> exists q, l = p ++ q.
Proof.
  revert p; induction l as [|x l IH]; intros p; simpl.
  - split.
    + intros [<-|[]]. now exists [].
    + intros [q E]. destruct p; [now left | discriminate].
  - split.
    + intros [<-|H]; [now exists (x :: l)|].
      apply in_map_iff in H as [p' [<- H]]. apply IH in H as [q ->]. now exists q.
    + intros [q E]. destruct p as [|y p]; [now left|]. right.
      simpl in E. inversion E; subst. apply in_map_iff. exists p. split; [reflexivity|].
      apply IH. now exists q.
Qed.

Lemma is_prefixb_refl d : is_prefixb d d = true.
Proof. induction d; simpl; [reflexivity|]. now rewrite N.eqb_refl. Qed.

Lemma crash_contents_durable d v : In (d, false) (crash_contents d v).
Proof. now left. Qed.

Lemma crash_contents_synced d c : In c (crash_contents d d) -> c = (d, false).
Proof.
  unfold crash_contents. intros [<-|H]; [reflexivity|].
  apply in_flat_map in H as [p [Hp Hc]].
  apply filter_In in Hp as [Hp Hl]. rewrite is_prefixb_refl in Hl.
  apply Nat.leb_le in Hl. apply prefixes_spec in Hp as [q E].
  assert (q = []) as ->.
  { apply (f_equal (@length N)) in E. rewrite app_length in E.
    destruct q; [reflexivity|simpl in E; lia]. }
  rewrite app_nil_r in E. subst p.
  rewrite Nat.ltb_irrefl in Hc. destruct Hc as [<-|[]]. reflexivity.
Qed.

(** * Well-formedness, stability, the invariant *)
Definition wf (s : fsstate) : Prop :=
  ddirs s Root = true /\
  forall f i, vns s f = Some i \/ dns s f = Some i -> i < next_ino s.

Definition stable (o : oracle) (s : fsstate) (f : fname) : Prop := stableb o s f = true.

Lemma stable_spec o s f :
  stable o s f <->
  exists i e, dns s f = Some i /\ vns s f = Some i /\ dcont s i = e /\ vcont s i = e /\
              expected o f = Some e /\ ddirs s (dir_of f) = true.
Proof.
  unfold stable, stableb. split.
  - destruct (dns s f) as [i|]; [|discriminate]. destruct (vns s f) as [j|]; [|discriminate].
    destruct (expected o f) as [e|]; [|rewrite andb_false_r; discriminate].
    rewrite !andb_true_iff, N.eqb_eq, !list_eqb_eq. intros [[[-> H1] H2] H3].
    exists j, e. repeat split; congruence.
  - intros (i & e & -> & -> & H1 & H2 & -> & H3).
    rewrite N.eqb_refl, H1, H2, list_eqb_refl, H3. reflexivity.
Qed.

(** what the (durable / volatile) [current] binding [ns] denotes *)
Definition cur_points (o : oracle) (s : fsstate) (ns : fname -> option N) (ov : option N) : Prop :=
  match ov with
  | Some v => exists i t, ns Current = Some i /\ dcont s i = [t] /\ vcont s i = [t] /\
                          current_points o t = Some v
  | None => ns Current = None
  end.

Definition pinned (o : oracle) (s : fsstate) (ov : option N) : Prop :=
  match ov with
  | Some v => version_contents o v <> None /\ forall f, In f (pnames o v) -> stable o s f
  | None => True
  end.

(** protocol invariant for protocol state [(dv, vv, _)] *)
Definition inv (o : oracle) (s : fsstate) (ps : pstate) : Prop :=
  let '(dv, vv, _) := ps in
  wf s /\ cur_points o s (dns s) dv /\ cur_points o s (vns s) vv /\
  pinned o s dv /\ pinned o s vv.

(** logical durable state of a consistent disk: [current] durable (= volatile), pointing
    to a complete durable version whose files are all complete & durable with durable
    directory entries *)
Definition disk_ok (o : oracle) (s : fsstate) (ov : option N) : Prop := inv o s (ov, ov, false).
Definition disk_consistent (o : oracle) (s : fsstate) : Prop := exists v, disk_ok o s (Some v).

(** * What recovery returns on a crash image of a state satisfying the invariant *)
Definition vsummary (o : oracle) (v : N) : rsummary :=
  match version_contents o v with
  | Some vd => SRec v (vd_tables vd) (vd_blobs vd)
  | None => SFailed
  end.

Definition osummary (o : oracle) (ov : option N) : rsummary :=
  match ov with Some v => vsummary o v | None => SFresh end.

Lemma crash_file_stable o s img f :
  stable o s f -> is_crash_image s img -> file_ok o img f = true.
Proof.
  intros Hs (Hd & _ & He). apply stable_spec in Hs as (i & e & H1 & H2 & H3 & H4 & H5 & H6).
  unfold file_ok, img_file. rewrite (Hd _ H6).
  specialize (He f). destruct (iget img f) as [c|]; simpl in He.
  - destruct He as (j & Hj & Hc).
    assert (j = i) as -> by (destruct Hj; congruence).
    rewrite H3, H4 in Hc. apply crash_contents_synced in Hc as ->.
    unfold complete. rewrite H5. simpl. apply list_eqb_refl.
  - destruct He; congruence.
Qed.

Lemma recover_pinned o img t r b v vd :
  img_file img Current = Some (t :: r, b) ->
  current_points o t = Some v ->
  version_contents o v = Some vd ->
  (forall f, In f (pnames o v) -> file_ok o img f = true) ->
  summary (recover_dir o img) = SRec v (vd_tables vd) (vd_blobs vd).
Proof.
  intros Hc Hp Hv Hf. unfold recover_dir. rewrite Hc, Hp.
  assert (Hpn : pnames o v = VersionFile v :: map TableFile (vd_tables vd) ++ map BlobFile (vd_blobs vd))
    by (unfold pnames; now rewrite Hv).
  rewrite (Hf (VersionFile v)) by (rewrite Hpn; now left). simpl negb. cbv iota.
  rewrite Hv.
  assert (Ht : forallb (fun id => file_ok o img (TableFile id)) (vd_tables vd) = true).
  { apply forallb_forall. intros id Hid. apply Hf. rewrite Hpn. right.
    apply in_or_app. left. now apply in_map. }
  assert (Hb : forallb (fun id => file_ok o img (BlobFile id)) (vd_blobs vd) = true).
  { apply forallb_forall. intros id Hid. apply Hf. rewrite Hpn. right.
    apply in_or_app. right. now apply in_map. }
  rewrite Ht, Hb. simpl negb. rewrite andb_false_r. cbv iota. simpl summary.
  destruct (idirs img Blobs) eqn:Eb; [reflexivity|].
  destruct (vd_blobs vd) as [|id bl] eqn:Ebl; [reflexivity|].
  exfalso. simpl in Hb. apply andb_true_iff in Hb as [Hb _].
  unfold file_ok, img_file in Hb. simpl dir_of in Hb. rewrite Eb in Hb. discriminate.
Qed.

Lemma inv_recover o s ps img :
  inv o s ps -> is_crash_image s img ->
  let '(dv, vv, _) := ps in
  summary (recover_dir o img) = osummary o dv \/ summary (recover_dir o img) = osummary o vv.
Proof.
  destruct ps as [[dv vv] pub]. intros (Hwf & Hcd & Hcv & Hpd & Hpv) Himg.
  pose proof Himg as (Hd & _ & He).
  assert (Hroot : idirs img Root = true) by (apply Hd; apply Hwf).
  assert (Hcur : img_file img Current = iget img Current)
    by (unfold img_file; simpl dir_of; now rewrite Hroot).
  (* it suffices to treat one binding [ns] that the image chose *)
  assert (Hgen : forall ov, pinned o s ov ->
            (match ov with
             | Some v => exists t, iget img Current = Some ([t], false) /\ current_points o t = Some v
             | None => iget img Current = None end) ->
            summary (recover_dir o img) = osummary o ov).
  { intros [v|] Hp Hi.
    - destruct Hi as (t & Hi & Ht). destruct Hp as [Hv Hp]. simpl. unfold vsummary.
      destruct (version_contents o v) as [vd|] eqn:Ev; [|congruence].
      apply (recover_pinned o img t [] false v vd); [now rewrite Hcur|assumption|assumption|].
      intros f Hf. eapply crash_file_stable; eauto.
    - simpl. unfold recover_dir. rewrite Hcur, Hi. reflexivity. }
  specialize (He Current). destruct (iget img Current) as [c|] eqn:Ec; simpl in He.
  - destruct He as (i & [Hi|Hi] & Hc).
    + left. apply Hgen; [assumption|]. destruct dv as [v|]; simpl in Hcd.
      * destruct Hcd as (i' & t & H1 & H2 & H3 & H4).
        assert (i' = i) as -> by congruence. rewrite H2, H3 in Hc.
        apply crash_contents_synced in Hc as ->. eauto.
      * congruence.
    + right. apply Hgen; [assumption|]. destruct vv as [v|]; simpl in Hcv.
      * destruct Hcv as (i' & t & H1 & H2 & H3 & H4).
        assert (i' = i) as -> by congruence. rewrite H2, H3 in Hc.
        apply crash_contents_synced in Hc as ->. eauto.
      * congruence.
  - destruct He as [Hn|Hn].
    + left. apply Hgen; [assumption|]. destruct dv as [v|]; simpl in Hcd; [|reflexivity].
      destruct Hcd as (i' & t & H1 & _). congruence.
    + right. apply Hgen; [assumption|]. destruct vv as [v|]; simpl in Hcv; [|reflexivity].
      destruct Hcv as (i' & t & H1 & _). congruence.
Qed.

(** * Frame lemmas: what an op leaves alone *)
Lemma wf_apply s op s' : apply s op = Some s' -> wf s -> wf s'.
Proof.
  intros Ha [Hr Hb]. destruct op; simpl in Ha.
  - inversion Ha; subst; clear Ha. split; simpl; auto.
  - destruct (negb (vdirs s (dir_of f))); [discriminate|].
    destruct (vns s f) as [i|] eqn:Ev.
    + destruct excl; [discriminate|]. inversion Ha; subst; clear Ha. split; simpl; auto.
    + inversion Ha; subst; clear Ha. split; simpl; auto.
      intros g i [H|H].
      * unfold upd_name in H. destruct (fname_eqb g f).
        -- inversion H; subst. lia.
        -- specialize (Hb g i (or_introl H)). lia.
      * specialize (Hb g i (or_intror H)). lia.
  - destruct (vns s f); [|discriminate]. inversion Ha; subst; clear Ha. split; simpl; auto.
  - destruct (vns s f); [|discriminate]. inversion Ha; subst; clear Ha. split; simpl; auto.
  - destruct (negb (vdirs s d)); [discriminate|]. inversion Ha; subst; clear Ha. split; simpl.
    + destruct (dname_eqb d Root); [now rewrite Hr|assumption].
    + intros g i [H|H]; [eauto|]. destruct (dname_eqb (dir_of g) d); eauto.
  - destruct (negb (dname_eqb (dir_of src) (dir_of dst))); [discriminate|].
    destruct (fname_eqb src dst).
    + destruct (vns s src); [|discriminate]. inversion Ha; subst. now split.
    + destruct (vns s src) as [i|] eqn:Ev; [|discriminate]. inversion Ha; subst; clear Ha.
      split; simpl; auto. intros g j [H|H]; [|eauto].
      unfold upd_name in H. destruct (fname_eqb g dst); [inversion H; subst; eauto|].
      destruct (fname_eqb g src); [discriminate|eauto].
  - destruct (vns s f) eqn:Ev; [|discriminate]. inversion Ha; subst; clear Ha.
    split; simpl; auto. intros g j [H|H]; [|eauto].
    unfold upd_name in H. destruct (fname_eqb g f); [discriminate|eauto].
Qed.

Definition untouched (s : fsstate) (f : fname) (op : fsop) : Prop :=
  forall g, In g (touched op) ->
            g <> f /\ match op with
                      | Create _ _ | Write _ _ => aliases s f g = false
                      | _ => True
                      end.

Lemma aliases_false s f g j i :
  aliases s f g = false -> vns s g = Some j -> vns s f = Some i \/ dns s f = Some i -> j <> i.
Proof.
  unfold aliases. intros Ha Hg Hf ->. rewrite Hg in Ha.
  apply orb_false_iff in Ha as [H1 H2].
  destruct Hf as [Hf|Hf]; rewrite Hf in *; simpl in *; rewrite N.eqb_refl in *; discriminate.
Qed.

Record keeps (s s' : fsstate) (f : fname) (op : fsop) : Prop := {
  k_vns : vns s' f = vns s f;
  k_dns : dns s' f = dns s f \/ (op = FsyncDir (dir_of f) /\ dns s' f = vns s f);
  k_cont : forall i, vns s f = Some i \/ dns s f = Some i ->
                     vcont s' i = vcont s i /\ (dcont s i = vcont s i -> dcont s' i = dcont s i);
  k_dirs : forall d, ddirs s d = true -> ddirs s' d = true
}.

Lemma apply_keeps s op s' f :
  apply s op = Some s' -> wf s -> untouched s f op -> keeps s s' f op.
Proof.
  intros Ha [_ Hb] Hu. destruct op; simpl in Ha.
  - inversion Ha; subst; clear Ha. split; simpl; auto.
  - destruct (Hu f0 (or_introl eq_refl)) as [Hne Hal].
    destruct (negb (vdirs s (dir_of f0))); [discriminate|].
    destruct (vns s f0) as [j|] eqn:Ev.
    + destruct excl; [discriminate|]. inversion Ha; subst; clear Ha. split; simpl; auto.
      intros i Hi. pose proof (aliases_false _ _ _ _ _ Hal Ev Hi) as Hji.
      rewrite upd_cont_other by congruence. auto.
    + inversion Ha; subst; clear Ha. split; simpl; auto.
      * apply upd_name_other. congruence.
      * intros i Hi. assert (i < next_ino s) by (eapply Hb; eauto).
        rewrite !upd_cont_other by lia. auto.
  - destruct (Hu f0 (or_introl eq_refl)) as [Hne Hal].
    destruct (vns s f0) as [j|] eqn:Ev; [|discriminate].
    inversion Ha; subst; clear Ha. split; simpl; auto.
    intros i Hi. pose proof (aliases_false _ _ _ _ _ Hal Ev Hi) as Hji.
    rewrite upd_cont_other by congruence. auto.
  - destruct (vns s f0) as [j|] eqn:Ev; [|discriminate].
    inversion Ha; subst; clear Ha. split; simpl; auto.
    intros i Hi. split; [reflexivity|]. intros E. unfold upd_cont.
    destruct (N.eqb i j) eqn:Eij; [apply N.eqb_eq in Eij; subst; auto|reflexivity].
  - destruct (negb (vdirs s d)); [discriminate|]. inversion Ha; subst; clear Ha.
    split; simpl; auto.
    + destruct (dname_eqb (dir_of f) d) eqn:Ed; [|now left].
      right. apply dname_eqb_eq in Ed. subst. auto.
    + intros e He. destruct (dname_eqb d Root); [now rewrite He|assumption].
  - destruct (Hu src (or_introl eq_refl)) as [Hne1 _].
    destruct (Hu dst (or_intror (or_introl eq_refl))) as [Hne2 _].
    destruct (negb (dname_eqb (dir_of src) (dir_of dst))); [discriminate|].
    destruct (fname_eqb src dst).
    + destruct (vns s src); [|discriminate]. inversion Ha; subst. split; auto.
    + destruct (vns s src) as [i|] eqn:Ev; [|discriminate]. inversion Ha; subst; clear Ha.
      split; simpl; auto.
      rewrite upd_name_other by congruence. apply upd_name_other. congruence.
  - destruct (Hu f0 (or_introl eq_refl)) as [Hne _].
    destruct (vns s f0) eqn:Ev; [|discriminate]. inversion Ha; subst; clear Ha.
    split; simpl; auto. apply upd_name_other. congruence.
Qed.

Lemma keeps_stable o s s' f op : keeps s s' f op -> stable o s f -> stable o s' f.
Proof.
  intros [Kv Kd Kc Kdir] Hs. apply stable_spec in Hs as (i & e & H1 & H2 & H3 & H4 & H5 & H6).
  apply stable_spec. exists i, e.
  destruct (Kc i (or_introl H2)) as [Kc1 Kc2].
  repeat split.
  - destruct Kd as [Kd|[_ Kd]]; congruence.
  - congruence.
  - rewrite Kc2; congruence.
  - congruence.
  - assumption.
  - auto.
Qed.

Lemma keeps_cur_vns o s s' op ov :
  keeps s s' Current op -> cur_points o s (vns s) ov -> cur_points o s' (vns s') ov.
Proof.
  intros [Kv Kd Kc Kdir]. destruct ov as [v|]; simpl.
  - intros (i & t & H1 & H2 & H3 & H4). exists i, t.
    destruct (Kc i (or_introl H1)) as [Kc1 Kc2].
    repeat split; try congruence. rewrite Kc2; congruence.
  - congruence.
Qed.

Lemma keeps_cur_dns o s s' op ov :
  keeps s s' Current op -> op <> FsyncDir Root ->
  cur_points o s (dns s) ov -> cur_points o s' (dns s') ov.
Proof.
  intros [Kv Kd Kc Kdir] Hop.
  assert (Kd' : dns s' Current = dns s Current).
  { destruct Kd as [Kd|[Kd _]]; [assumption|]. simpl in Kd. contradiction. }
  destruct ov as [v|]; simpl.
  - intros (i & t & H1 & H2 & H3 & H4). exists i, t.
    destruct (Kc i (or_intror H1)) as [Kc1 Kc2].
    repeat split; try congruence. rewrite Kc2; congruence.
  - congruence.
Qed.

Lemma safe_untouched s P op f : safe_op s P op = true -> In f P -> untouched s f op.
Proof.
  unfold safe_op, safe_name. intros H Hf g Hg.
  rewrite forallb_forall in H. specialize (H g Hg).
  rewrite forallb_forall in H. specialize (H f Hf).
  apply andb_true_iff in H as [H1 H2].
  apply negb_true_iff in H1, H2. apply fname_eqb_neq in H1.
  split; [congruence|]. destruct op; auto.
Qed.

(** generic (non-publishing, non-root-fsync) step *)
Lemma inv_safe_step o s ps op s' :
  inv o s ps -> safe_op s (protected o ps) op = true -> op <> FsyncDir Root ->
  apply s op = Some s' -> inv o s' ps.
Proof.
  destruct ps as [[dv vv] pub]. intros (Hwf & Hcd & Hcv & Hpd & Hpv) Hsafe Hop Ha.
  assert (HK : forall f, In f (protected o (dv, vv, pub)) -> keeps s s' f op).
  { intros f Hf. eapply apply_keeps; eauto. eapply safe_untouched; eauto. }
  assert (HP : forall ov, (forall f, In f (opnames o ov) -> In f (protected o (dv, vv, pub))) ->
                          pinned o s ov -> pinned o s' ov).
  { intros [v|] Hin; simpl; [|trivial]. intros [Hv Hst]. split; [assumption|].
    intros f Hf. eapply keeps_stable; [apply HK; apply Hin; exact Hf|auto]. }
  split; [|split; [|split; [|split]]].
  - eapply wf_apply; eauto.
  - eapply keeps_cur_dns; eauto. apply HK. now left.
  - eapply keeps_cur_vns; eauto. apply HK. now left.
  - apply HP; [|assumption]. intros f Hf. simpl. right. apply in_or_app. now left.
  - apply HP; [|assumption]. intros f Hf. simpl. right. apply in_or_app. now right.
Qed.

Lemma inv_fsync_root o s dv vv pub s' :
  inv o s (dv, vv, pub) -> apply s (FsyncDir Root) = Some s' -> inv o s' (vv, vv, pub).
Proof.
  intros (Hwf & Hcd & Hcv & Hpd & Hpv) Ha.
  assert (HK : forall f, keeps s s' f (FsyncDir Root)).
  { intros f. eapply apply_keeps; eauto. intros g []. }
  assert (HP : pinned o s' vv).
  { destruct vv as [v|]; simpl; [|trivial]. destruct Hpv as [Hv Hst]. split; [assumption|].
    intros f Hf. eapply keeps_stable; [apply HK|auto]. }
  assert (HC : cur_points o s' (vns s') vv) by (eapply keeps_cur_vns; eauto).
  split; [|split; [|split; [|split]]]; try assumption.
  - eapply wf_apply; eauto.
  - (* the durable [current] is now the volatile one *)
    simpl in Ha. destruct (negb (vdirs s Root)); [discriminate|].
    inversion Ha; subst; clear Ha. simpl in *. exact HC.
Qed.

Lemma publish_ok_spec o s dv vv pub k v1 :
  publish_ok o s (dv, vv, pub) k = Some v1 ->
  pub = false /\ dv = vv /\ version_contents o v1 <> None /\
  (forall f, In f (pnames o v1) -> stable o s f) /\
  exists it t, vns s (TempFile k) = Some it /\ dcont s it = [t] /\ vcont s it = [t] /\
               current_points o t = Some v1.
Proof.
  unfold publish_ok. destruct pub; simpl; [discriminate|].
  destruct (opt_eqb dv vv) eqn:E; simpl; [|discriminate]. apply opt_eqb_eq in E.
  unfold cur_of. rewrite upd_name_same.
  destruct (vns s (TempFile k)) as [it|] eqn:Et; [|discriminate].
  destruct (vcont s it) as [|t [|]] eqn:Ev; try discriminate.
  destruct (list_eqb (dcont s it) [t]) eqn:Ed; [|discriminate]. apply list_eqb_eq in Ed.
  destruct (current_points o t) as [v|] eqn:Ec; [|discriminate].
  destruct (forallb (stableb o s) (pnames o v)) eqn:Es; simpl; [|discriminate].
  destruct (version_contents o v) eqn:Evc; [|discriminate].
  intros H; inversion H; subst. repeat split; auto; try congruence.
  - intros f Hf. rewrite forallb_forall in Es. now apply Es.
  - exists it, t. auto.
Qed.

Lemma pnames_not_special o v f :
  In f (pnames o v) -> f <> Current /\ forall k, f <> TempFile k.
Proof.
  unfold pnames. destruct (version_contents o v) as [vd|]; [|intros []].
  intros [<-|H]; [split; [|intros k]; discriminate|].
  apply in_app_or in H as [H|H]; apply in_map_iff in H as (x & <- & _);
    (split; [|intros k]; discriminate).
Qed.

Lemma inv_publish o s dv vv pub k v1 s' :
  inv o s (dv, vv, pub) -> publish_ok o s (dv, vv, pub) k = Some v1 ->
  apply s (Rename (TempFile k) Current) = Some s' -> inv o s' (dv, Some v1, true).
Proof.
  intros (Hwf & Hcd & Hcv & Hpd & Hpv) Hp Ha.
  apply publish_ok_spec in Hp as (-> & <- & Hvc & Hst & it & t & Ht & Hd & Hv & Hc).
  assert (HK : forall f, f <> Current -> (forall k', f <> TempFile k') ->
                         keeps s s' f (Rename (TempFile k) Current)).
  { intros f H1 H2. eapply apply_keeps; eauto.
    intros g [<-|[<-|[]]]; split; auto. }
  assert (HP : forall ov, pinned o s ov -> pinned o s' ov).
  { intros [v|]; simpl; [|trivial]. intros [Hv' Hst']. split; [assumption|].
    intros f Hf. destruct (pnames_not_special _ _ _ Hf). eapply keeps_stable; [apply HK|]; auto. }
  simpl in Ha. rewrite Ht in Ha. inversion Ha; subst; clear Ha.
  split; [|split; [|split; [|split]]].
  - eapply (wf_apply s (Rename (TempFile k) Current)); [simpl; now rewrite Ht|assumption].
  - destruct dv as [v|]; simpl in *; assumption.
  - simpl. exists it, t. rewrite upd_name_same. auto.
  - apply HP in Hpd. destruct dv; simpl in *; assumption.
  - assert (Hq : pinned o s (Some v1)) by (split; assumption).
    apply HP in Hq. simpl in *. assumption.
Qed.

Lemma step_inv o s ps op ps' s' :
  inv o s ps -> proto_step o s ps op = Some ps' -> apply s op = Some s' -> inv o s' ps'.
Proof.
  intros Hi Hs Ha. destruct ps as [[dv vv] pub].
  assert (Hgen : forall op0, op0 = op -> op0 <> FsyncDir Root ->
            (if safe_op s (protected o (dv, vv, pub)) op0 then Some (dv, vv, pub) else None) = Some ps' ->
            inv o s' ps').
  { intros op0 -> Hne H.
    destruct (safe_op s (protected o (dv, vv, pub)) op) eqn:E; [|discriminate].
    inversion H; subst. eapply inv_safe_step; eauto. }
  destruct op as [d|f e|f t|f|d|src dst|f]; unfold proto_step in Hs;
    try (apply (Hgen _ eq_refl); [discriminate|exact Hs]).
  - destruct d; try (apply (Hgen _ eq_refl); [discriminate|exact Hs]).
    inversion Hs; subst. eapply inv_fsync_root; eauto.
  - destruct src as [|a|a|a|k|a]; try (apply (Hgen _ eq_refl); [discriminate|exact Hs]).
    destruct dst; try (apply (Hgen _ eq_refl); [discriminate|exact Hs]).
    destruct (publish_ok o s (dv, vv, pub) k) as [v1|] eqn:Ep; [|discriminate].
    inversion Hs; subst. eapply inv_publish; eauto.
Qed.

(** * Runs *)
Lemma proto_run_app o s ps a b :
  proto_run o s ps (a ++ b) =
  match proto_run o s ps a with
  | Some (s1, ps1) => proto_run o s1 ps1 b
  | None => None
  end.
Proof.
  revert s ps; induction a as [|op a IH]; intros s ps; simpl; [reflexivity|].
  destruct (proto_step o s ps op); [|reflexivity].
  destruct (apply s op); [|reflexivity]. apply IH.
Qed.

Lemma proto_run_run o s ps tr sf psf :
  proto_run o s ps tr = Some (sf, psf) -> run_fs s tr = Some sf.
Proof.
  revert s ps; induction tr as [|op tr IH]; intros s ps; simpl.
  - intros H; inversion H; reflexivity.
  - destruct (proto_step o s ps op); [|discriminate].
    destruct (apply s op); [|discriminate]. apply IH.
Qed.

Lemma proto_run_inv o s ps tr sf psf :
  inv o s ps -> proto_run o s ps tr = Some (sf, psf) -> inv o sf psf.
Proof.
  revert s ps; induction tr as [|op tr IH]; intros s ps Hi; simpl.
  - intros H; inversion H; subst; assumption.
  - destruct (proto_step o s ps op) as [ps'|] eqn:Es; [|discriminate].
    destruct (apply s op) as [s'|] eqn:Ea; [|discriminate].
    apply IH. eapply step_inv; eauto.
Qed.

Lemma proto_step_shape o s dv vv pub op dv' vv' pub' :
  proto_step o s (dv, vv, pub) op = Some (dv', vv', pub') ->
  (pub' = pub /\ vv' = vv /\ (dv' = dv \/ dv' = vv)) \/
  (pub = false /\ pub' = true /\ dv = vv /\ dv' = dv /\ exists v1, vv' = Some v1).
Proof.
  intros Hs.
  Ltac use_gen := match goal with Hs : context [safe_op _ _ ?x], Hgen : _ |- _ => exact (Hgen x Hs) end.
  assert (Hgen : forall op0,
            (if safe_op s (protected o (dv, vv, pub)) op0 then Some (dv, vv, pub) else None)
            = Some (dv', vv', pub') ->
            pub' = pub /\ vv' = vv /\ (dv' = dv \/ dv' = vv)).
  { intros op0 H. destruct (safe_op s (protected o (dv, vv, pub)) op0); [|discriminate].
    inversion H; subst. auto. }
  destruct op as [d|f e|f t|f|d|src dst|f]; unfold proto_step in Hs;
    try (left; use_gen).
  - destruct d; try (left; use_gen).
    inversion Hs; subst. left. split; [reflexivity|split; [reflexivity|now right]].
  - destruct src as [|a|a|a|k|a]; try (left; use_gen).
    destruct dst; try (left; use_gen).
    destruct (publish_ok o s (dv, vv, pub) k) as [v1|] eqn:Ep; [|discriminate].
    inversion Hs; subst. apply publish_ok_spec in Ep as (-> & -> & _). right. eauto 10.
Qed.

(** protocol states reachable from [(ov, ov, false)] *)
Definition reach0 (ov : option N) (ps : pstate) : Prop :=
  let '(dv, vv, pub) := ps in
  if pub then (dv = ov \/ dv = vv) /\ (exists v1, vv = Some v1) else dv = ov /\ vv = ov.

Lemma proto_run_reach0 o ov s ps tr sf psf :
  reach0 ov ps -> proto_run o s ps tr = Some (sf, psf) -> reach0 ov psf.
Proof.
  revert s ps; induction tr as [|op tr IH]; intros s ps Hr; simpl.
  - intros H; inversion H; subst; assumption.
  - destruct (proto_step o s ps op) as [ps'|] eqn:Es; [|discriminate].
    destruct (apply s op) as [s'|] eqn:Ea; [|discriminate].
    apply IH. destruct ps as [[dv vv] pub], ps' as [[dv' vv'] pub'].
    apply proto_step_shape in Es as [(E1 & E2 & Hd)|(E1 & E2 & E3 & E4 & v1 & E5)]; subst; simpl in *.
    + destruct pub.
      * destruct Hr as [Hr Hv]. split; [|assumption].
        destruct Hd as [E| E]; subst; [assumption|now right].
      * destruct Hr as [E1 E2]; subst. destruct Hd as [E| E]; subst; auto.
    + destruct Hr as [E _]; subst. split; [now left|eauto].
Qed.

Lemma proto_run_published o s dv vv tr sf dvf vvf pubf :
  proto_run o s (dv, vv, true) tr = Some (sf, (dvf, vvf, pubf)) -> vvf = vv /\ pubf = true.
Proof.
  revert s dv; induction tr as [|op tr IH]; intros s dv; cbn [proto_run].
  - intros H; inversion H; subst; auto.
  - destruct (proto_step o s (dv, vv, true) op) as [[[dv' vv'] pub']|] eqn:Es; [|discriminate].
    destruct (apply s op) as [s'|] eqn:Ea; [|discriminate].
    apply proto_step_shape in Es as [(E1 & E2 & Hd)|(? & _)]; [|discriminate].
    subst. apply IH.
Qed.

Lemma durable_is_crash_image s : is_crash_image s (durable_image s).
Proof.
  split; [|split]; simpl; auto.
  intros f. unfold entry_ok. destruct (dns s f) as [i|] eqn:E; [|now left].
  exists i. split; [now left|apply crash_contents_durable].
Qed.

Lemma cur_points_cur_of o s ns ov : cur_points o s ns ov -> cur_of o s ns = Some ov.
Proof.
  unfold cur_of. destruct ov as [v|]; simpl.
  - intros (i & t & -> & Hd & -> & Hc). rewrite Hd, Hc. simpl. now rewrite N.eqb_refl.
  - intros ->. reflexivity.
Qed.

Lemma osummary_not_failed o s ov : pinned o s ov -> osummary o ov <> SFailed.
Proof.
  destruct ov as [v|]; simpl; [|discriminate]. intros [Hv _]. unfold vsummary.
  destruct (version_contents o v); [discriminate|congruence].
Qed.

(** * Main results *)
Lemma inv_recover_durable o s ov pub :
  inv o s (ov, ov, pub) -> summary (recover_result_of o s) = osummary o ov.
Proof.
  intros Hi. pose proof (inv_recover o s _ (durable_image s) Hi (durable_is_crash_image s)) as H.
  simpl in H. unfold recover_result_of. tauto.
Qed.

Lemma crash_atomic_core o s ov tr sf dvf vvf pubf :
  inv o s (ov, ov, false) ->
  proto_run o s (ov, ov, false) tr = Some (sf, (dvf, vvf, pubf)) -> dvf = vvf ->
  summary (recover_result_of o s) = osummary o ov /\
  summary (recover_result_of o sf) = osummary o vvf /\
  inv o sf (vvf, vvf, pubf) /\
  forall n sn img,
    run_fs s (firstn n tr) = Some sn -> is_crash_image sn img ->
    (summary (recover_dir o img) = osummary o ov \/
     summary (recover_dir o img) = osummary o vvf) /\
    (length tr <= n -> summary (recover_dir o img) = osummary o vvf)%nat /\
    summary (recover_dir o img) <> SFailed /\
    exists psn, inv o sn psn.
Proof.
  intros Hi Hrun ->.
  pose proof (proto_run_inv _ _ _ _ _ _ Hi Hrun) as Hif.
  split; [eapply inv_recover_durable; eauto|].
  split; [eapply inv_recover_durable; eauto|].
  split; [assumption|].
  intros n sn img Hn Himg.
  rewrite <- (firstn_skipn n tr) in Hrun. rewrite proto_run_app in Hrun.
  destruct (proto_run o s (ov, ov, false) (firstn n tr)) as [[sn' psn]|] eqn:En; [|discriminate].
  pose proof (proto_run_run _ _ _ _ _ _ En) as Hr. rewrite Hr in Hn. inversion Hn; subst sn'.
  pose proof (proto_run_inv _ _ _ _ _ _ Hi En) as Hin.
  assert (Hreach : reach0 ov psn) by (eapply proto_run_reach0; [|exact En]; simpl; auto).
  pose proof (inv_recover o sn psn img Hin Himg) as Hrec.
  destruct psn as [[dvn vvn] pubn].
  assert (Hcases : summary (recover_dir o img) = osummary o ov \/
                   summary (recover_dir o img) = osummary o vvf).
  { simpl in Hreach. destruct pubn.
    - apply proto_run_published in Hrun as [-> _].
      destruct Hreach as [[->| ->] _]; tauto.
    - destruct Hreach as [-> ->]. tauto. }
  split; [exact Hcases|]. split; [|split].
  - intros Hlen. rewrite firstn_all2 in En by lia.
    rewrite skipn_all2 in Hrun by lia. simpl in Hrun. inversion Hrun; subst. tauto.
  - destruct Hin as (_ & _ & _ & Hpd & Hpv).
    destruct Hrec as [->| ->]; eapply osummary_not_failed; eauto.
  - eauto.
Qed.

(** [before] = what recovery returns on the durable state of [s]; [after] = same for
    the final state.  A crash at ANY point of a protocol-conforming trace (after any
    number [n] of its ops, in ANY crash image: any subset of the pending directory
    updates, any torn/partial unsynced content) recovers to exactly [before] or
    [after] (version id, table ids, blob file ids), never fails, never a mixture; and
    once the whole trace has run, only [after] is possible.  (Results are compared by
    [summary], i.e. ignoring which orphans recovery deleted.) *)
Theorem crash_atomic_generic o s tr :
  disk_consistent o s -> protocol_ok o s tr = true ->
  exists sf, run_fs s tr = Some sf /\ disk_consistent o sf /\
  forall n sn img,
    run_fs s (firstn n tr) = Some sn -> is_crash_image sn img ->
    (summary (recover_dir o img) = summary (recover_result_of o s) \/
     summary (recover_dir o img) = summary (recover_result_of o sf)) /\
    (length tr <= n -> summary (recover_dir o img) = summary (recover_result_of o sf))%nat /\
    summary (recover_dir o img) <> SFailed /\ summary (recover_dir o img) <> SFresh.
Proof.
  intros [v Hd] Hp. unfold disk_ok in Hd.
  pose proof Hd as (_ & Hcd & Hcv & _).
  unfold protocol_ok in Hp.
  rewrite (cur_points_cur_of _ _ _ _ Hcd), (cur_points_cur_of _ _ _ _ Hcv) in Hp.
  apply andb_true_iff in Hp as [_ Hp].
  destruct (proto_run o s (Some v, Some v, false) tr) as [[sf [[dvf vvf] pubf]]|] eqn:Er;
    [|discriminate].
  apply opt_eqb_eq in Hp.
  destruct (crash_atomic_core _ _ _ _ _ _ _ _ Hd Er Hp) as (Hb & Ha & Hif & Hall).
  assert (Hvvf : exists v', vvf = Some v').
  { assert (Hr0 : reach0 (Some v) (Some v, Some v, false)) by (simpl; auto).
    pose proof (proto_run_reach0 o (Some v) _ _ _ _ _ Hr0 Er) as Hr.
    simpl in Hr. subst dvf. destruct pubf.
    - apply Hr.
    - destruct Hr as [_ E]. eauto. }
  destruct Hvvf as [v' ->].
  exists sf. split; [eapply proto_run_run; eauto|]. split.
  { exists v'. unfold disk_ok. destruct Hif as (H1 & H2 & H3 & H4 & H5).
    repeat (split; try assumption). }
  intros n sn img Hn Himg.
  destruct (Hall n sn img Hn Himg) as (H1 & H2 & H3 & _).
  rewrite Hb, Ha. repeat split; try assumption.
  assert (Hnf : forall w, pinned o s (Some w) \/ pinned o sf (Some w) -> osummary o (Some w) <> SFresh).
  { intros w Hw. simpl. unfold vsummary. destruct (version_contents o w); discriminate. }
  destruct H1 as [->| ->]; apply Hnf; [left; apply Hd|right; apply Hif].
Qed.
