(** Crash-atomicity / failure-atomicity / reclamation theorems about [Model/Fs.v]. *)
From Coq Require Import List NArith Arith Bool Lia.
From LsmV Require Import Model.Fs.
Import ListNotations.
Open Scope N_scope.

(** * Boolean equalities *)
Lemma fname_eqb_eq a b : fname_eqb a b = true <-> a = b.
Proof.
  destruct a, b; simpl; try (split; congruence);
    rewrite N.eqb_eq; split; congruence.
Qed.

Lemma fname_eqb_refl a : fname_eqb a a = true.
Proof. now apply fname_eqb_eq. Qed.

Lemma fname_eqb_neq a b : fname_eqb a b = false <-> a <> b.
Proof. rewrite <- fname_eqb_eq. destruct (fname_eqb a b); split; congruence. Qed.

Lemma fname_eq_dec (a b : fname) : {a = b} + {a <> b}.
Proof.
  destruct (fname_eqb a b) eqn:E; [left; now apply fname_eqb_eq | right; now apply fname_eqb_neq].
Qed.

Lemma dname_eqb_eq a b : dname_eqb a b = true <-> a = b.
Proof. destruct a, b; simpl; split; congruence. Qed.

Lemma dname_eqb_refl a : dname_eqb a a = true.
Proof. now destruct a. Qed.

Lemma list_eqb_eq a b : list_eqb a b = true <-> a = b.
Proof.
  revert b; induction a as [|x a IH]; intros [|y b]; simpl; try (split; congruence).
  rewrite andb_true_iff, N.eqb_eq, IH. split; [intros [-> ->]; reflexivity | intros E; inversion E; auto].
Qed.

Lemma list_eqb_refl a : list_eqb a a = true.
Proof. now apply list_eqb_eq. Qed.

Lemma opt_eqb_eq a b : opt_eqb a b = true <-> a = b.
Proof.
  destruct a, b; simpl; try (split; congruence).
  rewrite N.eqb_eq; split; congruence.
Qed.

Lemma opt_is_true j o : opt_is j o = true <-> o = Some j.
Proof.
  destruct o; simpl; [|split; congruence].
  rewrite N.eqb_eq; split; congruence.
Qed.

Lemma upd_name_same m f v : upd_name m f v f = v.
Proof. unfold upd_name. now rewrite fname_eqb_refl. Qed.

Lemma upd_name_other m f v g : g <> f -> upd_name m f v g = m g.
Proof. unfold upd_name. intros H. apply fname_eqb_neq in H. now rewrite H. Qed.

Lemma upd_cont_same m i v : upd_cont m i v i = v.
Proof. unfold upd_cont. now rewrite N.eqb_refl. Qed.

Lemma upd_cont_other m i v j : j <> i -> upd_cont m i v j = m j.
Proof. unfold upd_cont. intros H. apply N.eqb_neq in H. now rewrite H. Qed.

(** * Crash images as a predicate *)
Definition entry_ok (s : fsstate) (f : fname) (e : option icontent) : Prop :=
  match e with
  | None => dns s f = None \/ vns s f = None
  | Some c => exists i, (dns s f = Some i \/ vns s f = Some i) /\
                        In c (crash_contents (dcont s i) (vcont s i))
  end.

(** [img] is what a process reopening the directory after a crash in state [s] may see:
    per directory entry independently the durable or the volatile binding; per inode the
    durable content or a (possibly torn) prefix of the volatile one extending it; a
    sub-directory is visible if durably linked, may be visible if only volatilely. *)
Definition is_crash_image (s : fsstate) (img : image) : Prop :=
  (forall d, ddirs s d = true -> idirs img d = true) /\
  (forall d, idirs img d = true -> ddirs s d = true \/ vdirs s d = true) /\
  (forall f, entry_ok s f (iget img f)).

(** * Contents *)
Lemma prefixes_spec l p : In p (prefixes l) <-> exists q, l = p ++ q.
Proof.
  revert p; induction l as [|x l IH]; intros p; simpl.
  - split.
    + intros [<-|[]]. now exists [].
    + intros [q E]. destruct p; [now left | discriminate].
  - split.
    + intros [<-|H]; [now exists (x :: l)|].
      apply in_map_iff in H as [p' [<- H]]. apply IH in H as [q ->]. now exists q.
    + intros [q E]. destruct p as [|y p]; [now left|]. right.
      simpl in E. inversion E; subst. apply in_map_iff. exists p. split; [reflexivity|].
      apply IH. now exists q.
Qed.

Lemma is_prefixb_refl d : is_prefixb d d = true.
Proof. induction d; simpl; [reflexivity|]. now rewrite N.eqb_refl. Qed.

Lemma crash_contents_durable d v : In (d, false) (crash_contents d v).
Proof. now left. Qed.

Lemma crash_contents_synced d c : In c (crash_contents d d) -> c = (d, false).
Proof.
  unfold crash_contents. intros [<-|H]; [reflexivity|].
  apply in_flat_map in H as [p [Hp Hc]].
  apply filter_In in Hp as [Hp Hl]. rewrite is_prefixb_refl in Hl.
  apply Nat.leb_le in Hl. apply prefixes_spec in Hp as [q E].
  assert (q = []) as ->.
  { apply (f_equal (@length N)) in E. rewrite app_length in E.
    destruct q; [reflexivity|simpl in E; lia]. }
  rewrite app_nil_r in E. subst p.
  rewrite Nat.ltb_irrefl in Hc. destruct Hc as [<-|[]]. reflexivity.
Qed.

(** * Well-formedness, stability, the invariant *)
Definition wf (s : fsstate) : Prop :=
  ddirs s Root = true /\
  forall f i, vns s f = Some i \/ dns s f = Some i -> i < next_ino s.

Definition stable (o : oracle) (s : fsstate) (f : fname) : Prop := stableb o s f = true.

Lemma stable_spec o s f :
  stable o s f <->
  exists i e, dns s f = Some i /\ vns s f = Some i /\ dcont s i = e /\ vcont s i = e /\
              expected o f = Some e /\ ddirs s (dir_of f) = true.
Proof.
  unfold stable, stableb. split.
  - destruct (dns s f) as [i|]; [|discriminate]. destruct (vns s f) as [j|]; [|discriminate].
    destruct (expected o f) as [e|]; [|rewrite andb_false_r; discriminate].
    rewrite !andb_true_iff, N.eqb_eq, !list_eqb_eq. intros [[[-> H1] H2] H3].
    exists j, e. repeat split; congruence.
  - intros (i & e & -> & -> & H1 & H2 & -> & H3).
    rewrite N.eqb_refl, H1, H2, list_eqb_refl, H3. reflexivity.
Qed.

(** what the (durable / volatile) [current] binding [ns] denotes *)
Definition cur_points (o : oracle) (s : fsstate) (ns : fname -> option N) (ov : option N) : Prop :=
  match ov with
  | Some v => exists i t, ns Current = Some i /\ dcont s i = [t] /\ vcont s i = [t] /\
                          current_points o t = Some v
  | None => ns Current = None
  end.

Definition pinned (o : oracle) (s : fsstate) (ov : option N) : Prop :=
  match ov with
  | Some v => version_contents o v <> None /\ forall f, In f (pnames o v) -> stable o s f
  | None => True
  end.

(** no hard links: the volatile namespace is injective, and the inode the durable
    [current] is bound to is not reachable through another volatile name *)
Definition vinj (s : fsstate) : Prop :=
  forall f g i, vns s f = Some i -> vns s g = Some i -> f = g.

Definition cur_excl (s : fsstate) : Prop :=
  forall g i, dns s Current = Some i -> vns s g = Some i -> g = Current.

(** protocol invariant for protocol state [(dv, vv, _)] *)
Definition inv (o : oracle) (s : fsstate) (ps : pstate) : Prop :=
  let '(dv, vv, _) := ps in
  (wf s /\ vinj s /\ cur_excl s) /\ cur_points o s (dns s) dv /\ cur_points o s (vns s) vv /\
  pinned o s dv /\ pinned o s vv.

(** logical durable state of a consistent disk: [current] durable (= volatile), pointing
    to a complete durable version whose files are all complete & durable with durable
    directory entries *)
Definition disk_ok (o : oracle) (s : fsstate) (ov : option N) : Prop := inv o s (ov, ov, false).
Definition disk_consistent (o : oracle) (s : fsstate) : Prop := exists v, disk_ok o s (Some v).

(** * What recovery returns on a crash image of a state satisfying the invariant *)
Definition vsummary (o : oracle) (v : N) : rsummary :=
  match version_contents o v with
  | Some vd => SRec v (vd_tables vd) (vd_blobs vd)
  | None => SFailed
  end.

Definition osummary (o : oracle) (ov : option N) : rsummary :=
  match ov with Some v => vsummary o v | None => SFresh end.

Lemma crash_file_stable o s img f :
  stable o s f -> is_crash_image s img -> file_ok o img f = true.
Proof.
  intros Hs (Hd & _ & He). apply stable_spec in Hs as (i & e & H1 & H2 & H3 & H4 & H5 & H6).
  unfold file_ok, img_file. rewrite (Hd _ H6).
  specialize (He f). destruct (iget img f) as [c|]; simpl in He.
  - destruct He as (j & Hj & Hc).
    assert (j = i) as -> by (destruct Hj; congruence).
    rewrite H3, H4 in Hc. apply crash_contents_synced in Hc as ->.
    unfold complete. rewrite H5. simpl. apply list_eqb_refl.
  - destruct He; congruence.
Qed.

Lemma recover_pinned o img t r b v vd :
  img_file img Current = Some (t :: r, b) ->
  current_points o t = Some v ->
  version_contents o v = Some vd ->
  (forall f, In f (pnames o v) -> file_ok o img f = true) ->
  summary (recover_dir o img) = SRec v (vd_tables vd) (vd_blobs vd).
Proof.
  intros Hc Hp Hv Hf. unfold recover_dir. rewrite Hc, Hp.
  assert (Hpn : pnames o v = VersionFile v :: map TableFile (vd_tables vd) ++ map BlobFile (vd_blobs vd))
    by (unfold pnames; now rewrite Hv).
  rewrite (Hf (VersionFile v)) by (rewrite Hpn; now left). simpl negb. cbv iota.
  rewrite Hv.
  assert (Ht : forallb (fun id => file_ok o img (TableFile id)) (vd_tables vd) = true).
  { apply forallb_forall. intros id Hid. apply Hf. rewrite Hpn. right.
    apply in_or_app. left. now apply in_map. }
  assert (Hb : forallb (fun id => file_ok o img (BlobFile id)) (vd_blobs vd) = true).
  { apply forallb_forall. intros id Hid. apply Hf. rewrite Hpn. right.
    apply in_or_app. right. now apply in_map. }
  rewrite Ht, Hb. simpl negb. rewrite andb_false_r. cbv iota. simpl summary.
  destruct (idirs img Blobs) eqn:Eb; [reflexivity|].
  destruct (vd_blobs vd) as [|id bl] eqn:Ebl; [reflexivity|].
  exfalso. simpl in Hb. apply andb_true_iff in Hb as [Hb _].
  unfold file_ok, img_file in Hb. simpl dir_of in Hb. rewrite Eb in Hb. discriminate.
Qed.

Lemma inv_recover o s ps img :
  inv o s ps -> is_crash_image s img ->
  let '(dv, vv, _) := ps in
  summary (recover_dir o img) = osummary o dv \/ summary (recover_dir o img) = osummary o vv.
Proof.
  destruct ps as [[dv vv] pub]. intros (Hwf & Hcd & Hcv & Hpd & Hpv) Himg.
  pose proof Himg as (Hd & _ & He).
  assert (Hroot : idirs img Root = true) by (apply Hd; apply Hwf).
  assert (Hcur : img_file img Current = iget img Current)
    by (unfold img_file; simpl dir_of; now rewrite Hroot).
  (* it suffices to treat one binding [ns] that the image chose *)
  assert (Hgen : forall ov, pinned o s ov ->
            (match ov with
             | Some v => exists t, iget img Current = Some ([t], false) /\ current_points o t = Some v
             | None => iget img Current = None end) ->
            summary (recover_dir o img) = osummary o ov).
  { intros [v|] Hp Hi.
    - destruct Hi as (t & Hi & Ht). destruct Hp as [Hv Hp]. simpl. unfold vsummary.
      destruct (version_contents o v) as [vd|] eqn:Ev; [|congruence].
      apply (recover_pinned o img t [] false v vd); [now rewrite Hcur|assumption|assumption|].
      intros f Hf. eapply crash_file_stable; eauto.
    - simpl. unfold recover_dir. rewrite Hcur, Hi. reflexivity. }
  specialize (He Current). destruct (iget img Current) as [c|] eqn:Ec; simpl in He.
  - destruct He as (i & [Hi|Hi] & Hc).
    + left. apply Hgen; [assumption|]. destruct dv as [v|]; simpl in Hcd.
      * destruct Hcd as (i' & t & H1 & H2 & H3 & H4).
        assert (i' = i) as -> by congruence. rewrite H2, H3 in Hc.
        apply crash_contents_synced in Hc as ->. eauto.
      * congruence.
    + right. apply Hgen; [assumption|]. destruct vv as [v|]; simpl in Hcv.
      * destruct Hcv as (i' & t & H1 & H2 & H3 & H4).
        assert (i' = i) as -> by congruence. rewrite H2, H3 in Hc.
        apply crash_contents_synced in Hc as ->. eauto.
      * congruence.
  - destruct He as [Hn|Hn].
    + left. apply Hgen; [assumption|]. destruct dv as [v|]; simpl in Hcd; [|reflexivity].
      destruct Hcd as (i' & t & H1 & _). congruence.
    + right. apply Hgen; [assumption|]. destruct vv as [v|]; simpl in Hcv; [|reflexivity].
      destruct Hcv as (i' & t & H1 & _). congruence.
Qed.

(** * Frame lemmas: what an op leaves alone *)
Lemma wf_apply s op s' : apply s op = Some s' -> wf s -> wf s'.
Proof.
  intros Ha [Hr Hb]. destruct op; simpl in Ha.
  - inversion Ha; subst; clear Ha. split; simpl; auto.
  - destruct (negb (vdirs s (dir_of f))); [discriminate|].
    destruct (vns s f) as [i|] eqn:Ev.
    + destruct excl; [discriminate|]. inversion Ha; subst; clear Ha. split; simpl; auto.
    + inversion Ha; subst; clear Ha. split; simpl; auto.
      intros g i [H|H].
      * unfold upd_name in H. destruct (fname_eqb g f).
        -- inversion H; subst. lia.
        -- specialize (Hb g i (or_introl H)). lia.
      * specialize (Hb g i (or_intror H)). lia.
  - destruct (vns s f); [|discriminate]. inversion Ha; subst; clear Ha. split; simpl; auto.
  - destruct (vns s f); [|discriminate]. inversion Ha; subst; clear Ha. split; simpl; auto.
  - destruct (negb (vdirs s d)); [discriminate|]. inversion Ha; subst; clear Ha. split; simpl.
    + destruct (dname_eqb d Root); [now rewrite Hr|assumption].
    + intros g i [H|H]; [eauto|]. destruct (dname_eqb (dir_of g) d); eauto.
  - destruct (negb (dname_eqb (dir_of src) (dir_of dst))); [discriminate|].
    destruct (fname_eqb src dst).
    + destruct (vns s src); [|discriminate]. inversion Ha; subst. now split.
    + destruct (vns s src) as [i|] eqn:Ev; [|discriminate]. inversion Ha; subst; clear Ha.
      split; simpl; auto. intros g j [H|H]; [|eauto].
      unfold upd_name in H. destruct (fname_eqb g dst); [inversion H; subst; eauto|].
      destruct (fname_eqb g src); [discriminate|eauto].
  - destruct (vns s f) eqn:Ev; [|discriminate]. inversion Ha; subst; clear Ha.
    split; simpl; auto. intros g j [H|H]; [|eauto].
    unfold upd_name in H. destruct (fname_eqb g f); [discriminate|eauto].
Qed.

Definition untouched (f : fname) (op : fsop) : Prop :=
  forall g, In g (touched op) -> g <> f.

(** no volatile name other than [f] is bound to an inode of [f] *)
Definition noalias (s : fsstate) (f : fname) : Prop :=
  forall g j, g <> f -> vns s g = Some j -> vns s f <> Some j /\ dns s f <> Some j.

Lemma noalias_neq s f g j i :
  noalias s f -> g <> f -> vns s g = Some j -> vns s f = Some i \/ dns s f = Some i -> j <> i.
Proof.
  intros Hn Hg Hj Hi ->. destruct (Hn g i Hg Hj) as [H1 H2]. destruct Hi; contradiction.
Qed.

Record keeps (s s' : fsstate) (f : fname) (op : fsop) : Prop := {
  k_vns : vns s' f = vns s f;
  k_dns : dns s' f = dns s f \/ (op = FsyncDir (dir_of f) /\ dns s' f = vns s f);
  k_cont : forall i, vns s f = Some i \/ dns s f = Some i ->
                     vcont s' i = vcont s i /\ (dcont s i = vcont s i -> dcont s' i = dcont s i);
  k_dirs : forall d, ddirs s d = true -> ddirs s' d = true
}.

Lemma apply_keeps s op s' f :
  apply s op = Some s' -> wf s -> noalias s f -> untouched f op -> keeps s s' f op.
Proof.
  intros Ha [_ Hb] Hna Hu. destruct op; simpl in Ha.
  - inversion Ha; subst; clear Ha. split; simpl; auto.
  - pose proof (Hu f0 (or_introl eq_refl)) as Hne.
    destruct (negb (vdirs s (dir_of f0))); [discriminate|].
    destruct (vns s f0) as [j|] eqn:Ev.
    + destruct excl; [discriminate|]. inversion Ha; subst; clear Ha. split; simpl; auto.
      intros i Hi. pose proof (noalias_neq _ _ _ _ _ Hna Hne Ev Hi) as Hji.
      rewrite upd_cont_other by congruence. auto.
    + inversion Ha; subst; clear Ha. split; simpl; auto.
      * apply upd_name_other. congruence.
      * intros i Hi. assert (i < next_ino s) by (eapply Hb; eauto).
        rewrite !upd_cont_other by lia. auto.
  - pose proof (Hu f0 (or_introl eq_refl)) as Hne.
    destruct (vns s f0) as [j|] eqn:Ev; [|discriminate].
    inversion Ha; subst; clear Ha. split; simpl; auto.
    intros i Hi. pose proof (noalias_neq _ _ _ _ _ Hna Hne Ev Hi) as Hji.
    rewrite upd_cont_other by congruence. auto.
  - destruct (vns s f0) as [j|] eqn:Ev; [|discriminate].
    inversion Ha; subst; clear Ha. split; simpl; auto.
    intros i Hi. split; [reflexivity|]. intros E. unfold upd_cont.
    destruct (N.eqb i j) eqn:Eij; [apply N.eqb_eq in Eij; subst; auto|reflexivity].
  - destruct (negb (vdirs s d)); [discriminate|]. inversion Ha; subst; clear Ha.
    split; simpl; auto.
    + destruct (dname_eqb (dir_of f) d) eqn:Ed; [|now left].
      right. apply dname_eqb_eq in Ed. subst. auto.
    + intros e He. destruct (dname_eqb d Root); [now rewrite He|assumption].
  - pose proof (Hu src (or_introl eq_refl)) as Hne1.
    pose proof (Hu dst (or_intror (or_introl eq_refl))) as Hne2.
    destruct (negb (dname_eqb (dir_of src) (dir_of dst))); [discriminate|].
    destruct (fname_eqb src dst).
    + destruct (vns s src); [|discriminate]. inversion Ha; subst. split; auto.
    + destruct (vns s src) as [i|] eqn:Ev; [|discriminate]. inversion Ha; subst; clear Ha.
      split; simpl; auto.
      rewrite upd_name_other by congruence. apply upd_name_other. congruence.
  - pose proof (Hu f0 (or_introl eq_refl)) as Hne.
    destruct (vns s f0) eqn:Ev; [|discriminate]. inversion Ha; subst; clear Ha.
    split; simpl; auto. apply upd_name_other. congruence.
Qed.

(** injectivity of the volatile namespace is preserved by every op *)
Lemma vinj_apply s op s' : apply s op = Some s' -> wf s -> vinj s -> vinj s'.
Proof.
  intros Ha [_ Hb] Hi. destruct op; simpl in Ha.
  - inversion Ha; subst; exact Hi.
  - destruct (negb (vdirs s (dir_of f))); [discriminate|].
    destruct (vns s f) as [j|] eqn:Ev.
    + destruct excl; [discriminate|]. inversion Ha; subst; exact Hi.
    + inversion Ha; subst; clear Ha. intros a b i. simpl. unfold upd_name.
      destruct (fname_eqb a f) eqn:Ea, (fname_eqb b f) eqn:Eb; intros H1 H2.
      * apply fname_eqb_eq in Ea, Eb. congruence.
      * inversion H1; subst. specialize (Hb b _ (or_introl H2)). lia.
      * inversion H2; subst. specialize (Hb a _ (or_introl H1)). lia.
      * eapply Hi; eauto.
  - destruct (vns s f); [|discriminate]. inversion Ha; subst; exact Hi.
  - destruct (vns s f); [|discriminate]. inversion Ha; subst; exact Hi.
  - destruct (negb (vdirs s d)); [discriminate|]. inversion Ha; subst; exact Hi.
  - destruct (negb (dname_eqb (dir_of src) (dir_of dst))); [discriminate|].
    destruct (fname_eqb src dst) eqn:Esd.
    + destruct (vns s src); [|discriminate]. inversion Ha; subst; exact Hi.
    + destruct (vns s src) as [j|] eqn:Ev; [|discriminate]. inversion Ha; subst; clear Ha.
      intros a b i. simpl. unfold upd_name.
      destruct (fname_eqb a dst) eqn:Ea, (fname_eqb b dst) eqn:Eb; intros H1 H2.
      * apply fname_eqb_eq in Ea, Eb. congruence.
      * inversion H1; subst. destruct (fname_eqb b src) eqn:Ebs; [discriminate|].
        apply fname_eqb_neq in Ebs. exfalso. apply Ebs. eapply Hi; eauto.
      * inversion H2; subst. destruct (fname_eqb a src) eqn:Eas; [discriminate|].
        apply fname_eqb_neq in Eas. exfalso. apply Eas. eapply Hi; eauto.
      * destruct (fname_eqb a src); [discriminate|]. destruct (fname_eqb b src); [discriminate|].
        eapply Hi; eauto.
  - destruct (vns s f) eqn:Ev; [|discriminate]. inversion Ha; subst; clear Ha.
    intros a b i. simpl. unfold upd_name.
    destruct (fname_eqb a f); [discriminate|]. destruct (fname_eqb b f); [discriminate|].
    apply Hi.
Qed.

Lemma keeps_stable o s s' f op : keeps s s' f op -> stable o s f -> stable o s' f.
Proof.
  intros [Kv Kd Kc Kdir] Hs. apply stable_spec in Hs as (i & e & H1 & H2 & H3 & H4 & H5 & H6).
  apply stable_spec. exists i, e.
  destruct (Kc i (or_introl H2)) as [Kc1 Kc2].
  repeat split.
  - destruct Kd as [Kd|[_ Kd]]; congruence.
  - congruence.
  - rewrite Kc2; congruence.
  - congruence.
  - assumption.
  - auto.
Qed.

Lemma keeps_cur_vns o s s' op ov :
  keeps s s' Current op -> cur_points o s (vns s) ov -> cur_points o s' (vns s') ov.
Proof.
  intros [Kv Kd Kc Kdir]. destruct ov as [v|]; simpl.
  - intros (i & t & H1 & H2 & H3 & H4). exists i, t.
    destruct (Kc i (or_introl H1)) as [Kc1 Kc2].
    repeat split; try congruence. rewrite Kc2; congruence.
  - congruence.
Qed.

Lemma keeps_cur_dns o s s' op ov :
  keeps s s' Current op -> op <> FsyncDir Root ->
  cur_points o s (dns s) ov -> cur_points o s' (dns s') ov.
Proof.
  intros [Kv Kd Kc Kdir] Hop.
  assert (Kd' : dns s' Current = dns s Current).
  { destruct Kd as [Kd|[Kd _]]; [assumption|]. simpl in Kd. contradiction. }
  destruct ov as [v|]; simpl.
  - intros (i & t & H1 & H2 & H3 & H4). exists i, t.
    destruct (Kc i (or_intror H1)) as [Kc1 Kc2].
    repeat split; try congruence. rewrite Kc2; congruence.
  - congruence.
Qed.

Lemma cur_excl_apply s op s' :
  apply s op = Some s' -> wf s -> vinj s -> cur_excl s -> untouched Current op -> cur_excl s'.
Proof.
  intros Ha [_ Hb] Hi Hc Hu. destruct op; simpl in Ha.
  - inversion Ha; subst; exact Hc.
  - pose proof (Hu f (or_introl eq_refl)) as Hne.
    destruct (negb (vdirs s (dir_of f))); [discriminate|].
    destruct (vns s f) as [j|] eqn:Ev.
    + destruct excl; [discriminate|]. inversion Ha; subst; exact Hc.
    + inversion Ha; subst; clear Ha. intros g i. simpl. unfold upd_name.
      destruct (fname_eqb g f); intros H1 H2; [|eapply Hc; eauto].
      inversion H2; subst. specialize (Hb Current _ (or_intror H1)). lia.
  - destruct (vns s f); [|discriminate]. inversion Ha; subst; exact Hc.
  - destruct (vns s f); [|discriminate]. inversion Ha; subst; exact Hc.
  - destruct (negb (vdirs s d)); [discriminate|]. inversion Ha; subst; clear Ha.
    intros g i. simpl. destruct d; simpl; intros H1 H2; try (eapply Hc; now eauto).
    symmetry. eapply Hi; eauto.
  - pose proof (Hu src (or_introl eq_refl)) as Hne1.
    pose proof (Hu dst (or_intror (or_introl eq_refl))) as Hne2.
    destruct (negb (dname_eqb (dir_of src) (dir_of dst))); [discriminate|].
    destruct (fname_eqb src dst) eqn:Esd.
    + destruct (vns s src); [|discriminate]. inversion Ha; subst; exact Hc.
    + destruct (vns s src) as [j|] eqn:Ev; [|discriminate]. inversion Ha; subst; clear Ha.
      intros g i. simpl. unfold upd_name. intros H1.
      destruct (fname_eqb g dst).
      * intros H2; inversion H2; subst. exfalso. apply Hne1. eapply Hc; eauto.
      * destruct (fname_eqb g src); [discriminate|]. eapply Hc; eauto.
  - destruct (vns s f) eqn:Ev; [|discriminate]. inversion Ha; subst; clear Ha.
    intros g i. simpl. unfold upd_name. intros H1.
    destruct (fname_eqb g f); [discriminate|]. eapply Hc; eauto.
Qed.

Lemma safe_untouched P op f : safe_op P op = true -> In f P -> untouched f op.
Proof.
  unfold safe_op, safe_name. intros H Hf g Hg ->.
  rewrite forallb_forall in H. specialize (H f Hg).
  apply negb_true_iff in H.
  assert (existsb (fname_eqb f) P = true); [|congruence].
  apply existsb_exists. exists f. split; [assumption|apply fname_eqb_refl].
Qed.

Lemma noalias_stable o s f : vinj s -> stable o s f -> noalias s f.
Proof.
  intros Hi Hs g j Hg Hj. apply stable_spec in Hs as (i & e & H1 & H2 & _).
  assert (j <> i) by (intros ->; apply Hg; eapply Hi; eauto).
  split; congruence.
Qed.

Lemma noalias_current s : vinj s -> cur_excl s -> noalias s Current.
Proof.
  intros Hi Hc g j Hg Hj. split; intros H; apply Hg; [eapply Hi; eauto|eapply Hc; eauto].
Qed.

(** generic (non-publishing, non-root-fsync) step *)
Lemma inv_safe_step o s ps op s' :
  inv o s ps -> safe_op (protected o ps) op = true -> op <> FsyncDir Root ->
  apply s op = Some s' -> inv o s' ps.
Proof.
  destruct ps as [[dv vv] pub]. intros ((Hwf & Hvi & Hce) & Hcd & Hcv & Hpd & Hpv) Hsafe Hop Ha.
  assert (HKc : keeps s s' Current op).
  { eapply apply_keeps; eauto; [now apply noalias_current|].
    eapply safe_untouched; eauto. now left. }
  assert (HP : forall ov, (forall f, In f (opnames o ov) -> In f (protected o (dv, vv, pub))) ->
                          pinned o s ov -> pinned o s' ov).
  { intros [v|] Hin; simpl; [|trivial]. intros [Hv Hst]. split; [assumption|].
    intros f Hf. eapply keeps_stable; [|auto].
    eapply apply_keeps; eauto; [eapply noalias_stable; eauto|].
    eapply safe_untouched; eauto. }
  split; [|split; [|split; [|split]]].
  - split; [eapply wf_apply; eauto|]. split; [eapply vinj_apply; eauto|].
    eapply cur_excl_apply; eauto. eapply safe_untouched; eauto. now left.
  - eapply keeps_cur_dns; eauto.
  - eapply keeps_cur_vns; eauto.
  - apply HP; [|assumption]. intros f Hf. simpl. right. apply in_or_app. now left.
  - apply HP; [|assumption]. intros f Hf. simpl. right. apply in_or_app. now right.
Qed.

Lemma inv_fsync_root o s dv vv pub s' :
  inv o s (dv, vv, pub) -> apply s (FsyncDir Root) = Some s' -> inv o s' (vv, vv, pub).
Proof.
  intros ((Hwf & Hvi & Hce) & Hcd & Hcv & Hpd & Hpv) Ha.
  assert (Hun : forall f, untouched f (FsyncDir Root)) by (intros f g []).
  assert (HP : pinned o s' vv).
  { destruct vv as [v|]; simpl; [|trivial]. destruct Hpv as [Hv Hst]. split; [assumption|].
    intros f Hf. eapply keeps_stable; [|auto].
    eapply apply_keeps; eauto. eapply noalias_stable; eauto. }
  assert (HC : cur_points o s' (vns s') vv).
  { eapply keeps_cur_vns; eauto. eapply apply_keeps; eauto. now apply noalias_current. }
  split; [|split; [|split; [|split]]]; try assumption.
  - split; [eapply wf_apply; eauto|]. split; [eapply vinj_apply; eauto|].
    eapply cur_excl_apply; eauto.
  - (* the durable [current] is now the volatile one *)
    simpl in Ha. destruct (negb (vdirs s Root)); [discriminate|].
    inversion Ha; subst; clear Ha. simpl in *. exact HC.
Qed.

Lemma publish_ok_spec o s dv vv pub k v1 :
  publish_ok o s (dv, vv, pub) k = Some v1 ->
  pub = false /\ dv = vv /\ version_contents o v1 <> None /\
  (forall f, In f (pnames o v1) -> stable o s f) /\
  exists it t, vns s (TempFile k) = Some it /\ dcont s it = [t] /\ vcont s it = [t] /\
               current_points o t = Some v1.
Proof.
  unfold publish_ok. destruct pub; simpl; [discriminate|].
  destruct (opt_eqb dv vv) eqn:E; simpl; [|discriminate]. apply opt_eqb_eq in E.
  unfold cur_of. rewrite upd_name_same.
  destruct (vns s (TempFile k)) as [it|] eqn:Et; [|discriminate].
  destruct (vcont s it) as [|t [|]] eqn:Ev; try discriminate.
  destruct (list_eqb (dcont s it) [t]) eqn:Ed; [|discriminate]. apply list_eqb_eq in Ed.
  destruct (current_points o t) as [v|] eqn:Ec; [|discriminate].
  destruct (forallb (stableb o s) (pnames o v)) eqn:Es; simpl; [|discriminate].
  destruct (version_contents o v) eqn:Evc; [|discriminate].
  intros H; inversion H; subst. repeat split; auto; try congruence.
  - intros f Hf. rewrite forallb_forall in Es. now apply Es.
  - exists it, t. auto.
Qed.

Lemma pnames_not_special o v f :
  In f (pnames o v) -> f <> Current /\ forall k, f <> TempFile k.
Proof.
  unfold pnames. destruct (version_contents o v) as [vd|]; [|intros []].
  intros [<-|H]; [split; [|intros k]; discriminate|].
  apply in_app_or in H as [H|H]; apply in_map_iff in H as (x & <- & _);
    (split; [|intros k]; discriminate).
Qed.

Lemma inv_publish o s dv vv pub k v1 s' :
  inv o s (dv, vv, pub) -> publish_ok o s (dv, vv, pub) k = Some v1 ->
  apply s (Rename (TempFile k) Current) = Some s' -> inv o s' (dv, Some v1, true).
Proof.
  intros ((Hwf & Hvi & Hce) & Hcd & Hcv & Hpd & Hpv) Hp Ha.
  apply publish_ok_spec in Hp as (-> & <- & Hvc & Hst & it & t & Ht & Hd & Hv & Hc).
  assert (HP : forall ov, pinned o s ov -> pinned o s' ov).
  { intros [v|]; simpl; [|trivial]. intros [Hv' Hst']. split; [assumption|].
    intros f Hf. destruct (pnames_not_special _ _ _ Hf) as [H1 H2].
    eapply keeps_stable; [|auto]. eapply apply_keeps; eauto; [eapply noalias_stable; eauto|].
    intros g [<-|[<-|[]]]; auto. }
  pose proof (wf_apply _ _ _ Ha Hwf) as Hwf'.
  pose proof (vinj_apply _ _ _ Ha Hwf Hvi) as Hvi'.
  simpl in Ha. rewrite Ht in Ha. inversion Ha; subst; clear Ha.
  split; [|split; [|split; [|split]]].
  - split; [assumption|]. split; [assumption|].
    (* the old inode of [current] is no longer reachable *)
    intros g i. simpl. unfold upd_name. intros H1.
    destruct (fname_eqb g Current) eqn:Eg; [intros _; now apply fname_eqb_eq|].
    destruct (fname_eqb g (TempFile k)); [discriminate|]. intros H2.
    apply fname_eqb_neq in Eg. exfalso. apply Eg. eapply Hce; eauto.
  - destruct dv as [v|]; simpl in *; assumption.
  - simpl. exists it, t. rewrite upd_name_same. auto.
  - apply HP in Hpd. destruct dv; simpl in *; assumption.
  - assert (Hq : pinned o s (Some v1)) by (split; assumption).
    apply HP in Hq. simpl in *. assumption.
Qed.

Lemma step_inv o s ps op ps' s' :
  inv o s ps -> proto_step o s ps op = Some ps' -> apply s op = Some s' -> inv o s' ps'.
Proof.
  intros Hi Hs Ha. destruct ps as [[dv vv] pub].
  assert (Hgen : forall op0, op0 = op -> op0 <> FsyncDir Root ->
            (if safe_op (protected o (dv, vv, pub)) op0 then Some (dv, vv, pub) else None) = Some ps' ->
            inv o s' ps').
  { intros op0 -> Hne H.
    destruct (safe_op (protected o (dv, vv, pub)) op) eqn:E; [|discriminate].
    inversion H; subst. eapply inv_safe_step; eauto. }
  destruct op as [d|f e|f t|f|d|src dst|f]; unfold proto_step in Hs;
    try (apply (Hgen _ eq_refl); [discriminate|exact Hs]).
  - destruct d; try (apply (Hgen _ eq_refl); [discriminate|exact Hs]).
    inversion Hs; subst. eapply inv_fsync_root; eauto.
  - destruct src as [|a|a|a|k|a]; try (apply (Hgen _ eq_refl); [discriminate|exact Hs]).
    destruct dst; try (apply (Hgen _ eq_refl); [discriminate|exact Hs]).
    destruct (publish_ok o s (dv, vv, pub) k) as [v1|] eqn:Ep; [|discriminate].
    inversion Hs; subst. eapply inv_publish; eauto.
Qed.

(** * Runs *)
Lemma proto_run_app o s ps a b :
  proto_run o s ps (a ++ b) =
  match proto_run o s ps a with
  | Some (s1, ps1) => proto_run o s1 ps1 b
  | None => None
  end.
Proof.
  revert s ps; induction a as [|op a IH]; intros s ps; simpl; [reflexivity|].
  destruct (proto_step o s ps op); [|reflexivity].
  destruct (apply s op); [|reflexivity]. apply IH.
Qed.

Lemma proto_run_run o s ps tr sf psf :
  proto_run o s ps tr = Some (sf, psf) -> run_fs s tr = Some sf.
Proof.
  revert s ps; induction tr as [|op tr IH]; intros s ps; simpl.
  - intros H; inversion H; reflexivity.
  - destruct (proto_step o s ps op); [|discriminate].
    destruct (apply s op); [|discriminate]. apply IH.
Qed.

Lemma proto_run_inv o s ps tr sf psf :
  inv o s ps -> proto_run o s ps tr = Some (sf, psf) -> inv o sf psf.
Proof.
  revert s ps; induction tr as [|op tr IH]; intros s ps Hi; simpl.
  - intros H; inversion H; subst; assumption.
  - destruct (proto_step o s ps op) as [ps'|] eqn:Es; [|discriminate].
    destruct (apply s op) as [s'|] eqn:Ea; [|discriminate].
    apply IH. eapply step_inv; eauto.
Qed.

Lemma proto_step_shape o s dv vv pub op dv' vv' pub' :
  proto_step o s (dv, vv, pub) op = Some (dv', vv', pub') ->
  (pub' = pub /\ vv' = vv /\ (dv' = dv \/ dv' = vv)) \/
  (pub = false /\ pub' = true /\ dv = vv /\ dv' = dv /\ exists v1, vv' = Some v1).
Proof.
  intros Hs.
  Ltac use_gen := match goal with Hs : context [safe_op _ ?x], Hgen : _ |- _ => exact (Hgen x Hs) end.
  assert (Hgen : forall op0,
            (if safe_op (protected o (dv, vv, pub)) op0 then Some (dv, vv, pub) else None)
            = Some (dv', vv', pub') ->
            pub' = pub /\ vv' = vv /\ (dv' = dv \/ dv' = vv)).
  { intros op0 H. destruct (safe_op (protected o (dv, vv, pub)) op0); [|discriminate].
    inversion H; subst. auto. }
  destruct op as [d|f e|f t|f|d|src dst|f]; unfold proto_step in Hs;
    try (left; use_gen).
  - destruct d; try (left; use_gen).
    inversion Hs; subst. left. split; [reflexivity|split; [reflexivity|now right]].
  - destruct src as [|a|a|a|k|a]; try (left; use_gen).
    destruct dst; try (left; use_gen).
    destruct (publish_ok o s (dv, vv, pub) k) as [v1|] eqn:Ep; [|discriminate].
    inversion Hs; subst. apply publish_ok_spec in Ep as (-> & -> & _). right. eauto 10.
Qed.

(** protocol states reachable from [(ov, ov, false)] *)
Definition reach0 (ov : option N) (ps : pstate) : Prop :=
  let '(dv, vv, pub) := ps in
  if pub then (dv = ov \/ dv = vv) /\ (exists v1, vv = Some v1) else dv = ov /\ vv = ov.

Lemma proto_run_reach0 o ov s ps tr sf psf :
  reach0 ov ps -> proto_run o s ps tr = Some (sf, psf) -> reach0 ov psf.
Proof.
  revert s ps; induction tr as [|op tr IH]; intros s ps Hr; simpl.
  - intros H; inversion H; subst; assumption.
  - destruct (proto_step o s ps op) as [ps'|] eqn:Es; [|discriminate].
    destruct (apply s op) as [s'|] eqn:Ea; [|discriminate].
    apply IH. destruct ps as [[dv vv] pub], ps' as [[dv' vv'] pub'].
    apply proto_step_shape in Es as [(E1 & E2 & Hd)|(E1 & E2 & E3 & E4 & v1 & E5)]; subst; simpl in *.
    + destruct pub.
      * destruct Hr as [Hr Hv]. split; [|assumption].
        destruct Hd as [E| E]; subst; [assumption|now right].
      * destruct Hr as [E1 E2]; subst. destruct Hd as [E| E]; subst; auto.
    + destruct Hr as [E _]; subst. split; [now left|eauto].
Qed.

Lemma proto_run_published o s dv vv tr sf dvf vvf pubf :
  proto_run o s (dv, vv, true) tr = Some (sf, (dvf, vvf, pubf)) -> vvf = vv /\ pubf = true.
Proof.
  revert s dv; induction tr as [|op tr IH]; intros s dv; cbn [proto_run].
  - intros H; inversion H; subst; auto.
  - destruct (proto_step o s (dv, vv, true) op) as [[[dv' vv'] pub']|] eqn:Es; [|discriminate].
    destruct (apply s op) as [s'|] eqn:Ea; [|discriminate].
    apply proto_step_shape in Es as [(E1 & E2 & Hd)|(? & _)]; [|discriminate].
    subst. apply IH.
Qed.

Lemma durable_is_crash_image s : is_crash_image s (durable_image s).
Proof.
  split; [|split]; simpl; auto.
  intros f. unfold entry_ok. destruct (dns s f) as [i|] eqn:E; [|now left].
  exists i. split; [now left|apply crash_contents_durable].
Qed.

Lemma cur_points_cur_of o s ns ov : cur_points o s ns ov -> cur_of o s ns = Some ov.
Proof.
  unfold cur_of. destruct ov as [v|]; simpl.
  - intros (i & t & -> & Hd & -> & Hc). rewrite Hd, Hc. simpl. now rewrite N.eqb_refl.
  - intros ->. reflexivity.
Qed.

Lemma osummary_not_failed o s ov : pinned o s ov -> osummary o ov <> SFailed.
Proof.
  destruct ov as [v|]; simpl; [|discriminate]. intros [Hv _]. unfold vsummary.
  destruct (version_contents o v); [discriminate|congruence].
Qed.

(** * Main results *)
Lemma inv_recover_durable o s ov pub :
  inv o s (ov, ov, pub) -> summary (recover_result_of o s) = osummary o ov.
Proof.
  intros Hi. pose proof (inv_recover o s _ (durable_image s) Hi (durable_is_crash_image s)) as H.
  simpl in H. unfold recover_result_of. tauto.
Qed.

Lemma crash_atomic_core o s ov tr sf dvf vvf pubf :
  inv o s (ov, ov, false) ->
  proto_run o s (ov, ov, false) tr = Some (sf, (dvf, vvf, pubf)) -> dvf = vvf ->
  summary (recover_result_of o s) = osummary o ov /\
  summary (recover_result_of o sf) = osummary o vvf /\
  inv o sf (vvf, vvf, pubf) /\
  forall n sn img,
    run_fs s (firstn n tr) = Some sn -> is_crash_image sn img ->
    (summary (recover_dir o img) = osummary o ov \/
     summary (recover_dir o img) = osummary o vvf) /\
    (length tr <= n -> summary (recover_dir o img) = osummary o vvf)%nat /\
    summary (recover_dir o img) <> SFailed /\
    exists dvn vvn pubn, inv o sn (dvn, vvn, pubn) /\ (dvn = ov \/ dvn = vvf).
Proof.
  intros Hi Hrun ->.
  pose proof (proto_run_inv _ _ _ _ _ _ Hi Hrun) as Hif.
  split; [eapply inv_recover_durable; eauto|].
  split; [eapply inv_recover_durable; eauto|].
  split; [assumption|].
  intros n sn img Hn Himg.
  rewrite <- (firstn_skipn n tr) in Hrun. rewrite proto_run_app in Hrun.
  destruct (proto_run o s (ov, ov, false) (firstn n tr)) as [[sn' psn]|] eqn:En; [|discriminate].
  pose proof (proto_run_run _ _ _ _ _ _ En) as Hr. rewrite Hr in Hn. inversion Hn; subst sn'.
  pose proof (proto_run_inv _ _ _ _ _ _ Hi En) as Hin.
  assert (Hreach : reach0 ov psn) by (eapply proto_run_reach0; [|exact En]; simpl; auto).
  pose proof (inv_recover o sn psn img Hin Himg) as Hrec.
  destruct psn as [[dvn vvn] pubn].
  assert (Hcases : summary (recover_dir o img) = osummary o ov \/
                   summary (recover_dir o img) = osummary o vvf).
  { simpl in Hreach. destruct pubn.
    - apply proto_run_published in Hrun as [-> _].
      destruct Hreach as [[->| ->] _]; tauto.
    - destruct Hreach as [-> ->]. tauto. }
  split; [exact Hcases|]. split; [|split].
  - intros Hlen. rewrite firstn_all2 in En by lia.
    rewrite skipn_all2 in Hrun by lia. simpl in Hrun. inversion Hrun; subst. tauto.
  - destruct Hin as (_ & _ & _ & Hpd & Hpv).
    destruct Hrec as [->| ->]; eapply osummary_not_failed; eauto.
  - exists dvn, vvn, pubn. split; [assumption|].
    simpl in Hreach. destruct pubn.
    + apply proto_run_published in Hrun as [-> _]. tauto.
    + destruct Hreach as [-> _]. now left.
Qed.

(** [before] = what recovery returns on the durable state of [s]; [after] = same for
    the final state.  A crash at ANY point of a protocol-conforming trace (after any
    number [n] of its ops, in ANY crash image: any subset of the pending directory
    updates, any torn/partial unsynced content) recovers to exactly [before] or
    [after] (version id, table ids, blob file ids), never fails, never a mixture; and
    once the whole trace has run, only [after] is possible.  (Results are compared by
    [summary], i.e. ignoring which orphans recovery deleted.) *)
Theorem crash_atomic_generic o s tr :
  disk_consistent o s -> protocol_ok o s tr = true ->
  exists sf, run_fs s tr = Some sf /\ disk_consistent o sf /\
  forall n sn img,
    run_fs s (firstn n tr) = Some sn -> is_crash_image sn img ->
    (summary (recover_dir o img) = summary (recover_result_of o s) \/
     summary (recover_dir o img) = summary (recover_result_of o sf)) /\
    (length tr <= n -> summary (recover_dir o img) = summary (recover_result_of o sf))%nat /\
    summary (recover_dir o img) <> SFailed /\ summary (recover_dir o img) <> SFresh.
Proof.
  intros [v Hd] Hp. unfold disk_ok in Hd.
  pose proof Hd as (_ & Hcd & Hcv & _).
  unfold protocol_ok in Hp.
  rewrite (cur_points_cur_of _ _ _ _ Hcd), (cur_points_cur_of _ _ _ _ Hcv) in Hp.
  apply andb_true_iff in Hp as [_ Hp].
  destruct (proto_run o s (Some v, Some v, false) tr) as [[sf [[dvf vvf] pubf]]|] eqn:Er;
    [|discriminate].
  apply opt_eqb_eq in Hp.
  destruct (crash_atomic_core _ _ _ _ _ _ _ _ Hd Er Hp) as (Hb & Ha & Hif & Hall).
  assert (Hvvf : exists v', vvf = Some v').
  { assert (Hr0 : reach0 (Some v) (Some v, Some v, false)) by (simpl; auto).
    pose proof (proto_run_reach0 o (Some v) _ _ _ _ _ Hr0 Er) as Hr.
    simpl in Hr. subst dvf. destruct pubf.
    - apply Hr.
    - destruct Hr as [_ E]. eauto. }
  destruct Hvvf as [v' ->].
  exists sf. split; [eapply proto_run_run; eauto|]. split.
  { exists v'. unfold disk_ok. destruct Hif as (H1 & H2 & H3 & H4 & H5).
    repeat (split; try assumption). }
  intros n sn img Hn Himg.
  destruct (Hall n sn img Hn Himg) as (H1 & H2 & H3 & _).
  rewrite Hb, Ha. repeat split; try assumption.
  assert (Hnf : forall w, pinned o s (Some w) \/ pinned o sf (Some w) -> osummary o (Some w) <> SFresh).
  { intros w Hw. simpl. unfold vsummary. destruct (version_contents o w); discriminate. }
  destruct H1 as [->| ->]; apply Hnf; [left; apply Hd|right; apply Hif].
Qed.

(** * Establishing [disk_ok] for concrete states *)
Lemma wf_init : wf fs_init.
Proof. split; [reflexivity|]. intros f i [H|H]; discriminate. Qed.

Lemma vinj_init : vinj fs_init.
Proof. intros f g i H; discriminate. Qed.

Lemma run_fs_wf s tr s' : run_fs s tr = Some s' -> wf s -> vinj s -> wf s' /\ vinj s'.
Proof.
  revert s; induction tr as [|op tr IH]; intros s; simpl.
  - intros H; inversion H; subst; auto.
  - destruct (apply s op) as [s1|] eqn:Ea; [|discriminate].
    intros H Hw Hv. apply (IH s1 H); [eapply wf_apply|eapply vinj_apply]; eauto.
Qed.

Lemma run_fs_init_wf tr s : run_fs fs_init tr = Some s -> wf s /\ vinj s.
Proof. intros H. eapply run_fs_wf; eauto using wf_init, vinj_init. Qed.

Lemma cur_of_points o s ns ov : cur_of o s ns = Some ov -> cur_points o s ns ov.
Proof.
  unfold cur_of. destruct (ns Current) as [i|] eqn:E.
  - destruct (vcont s i) as [|t [|]] eqn:Ev; try discriminate.
    destruct (list_eqb (dcont s i) [t]) eqn:Ed; [|discriminate]. apply list_eqb_eq in Ed.
    destruct (current_points o t) as [v|] eqn:Ec; [|discriminate].
    intros H; inversion H; subst. simpl. exists i, t. auto.
  - intros H; inversion H; subst. exact E.
Qed.

Lemma disk_okb_sound o s ov : wf s -> vinj s -> disk_okb o s ov = true -> disk_ok o s ov.
Proof.
  intros Hw Hv H. unfold disk_okb in H. apply andb_true_iff in H as [H H3].
  apply andb_true_iff in H as [H1 H2]. apply opt_eqb_eq in H1.
  destruct (cur_of o s (dns s)) as [ov'|] eqn:Ec; [|discriminate].
  apply opt_eqb_eq in H2. subst ov'.
  assert (Hp : pinned o s ov).
  { destruct ov as [v|]; simpl; [|trivial]. apply andb_true_iff in H3 as [H3 H4].
    split; [destruct (version_contents o v); congruence|].
    intros f Hf. rewrite forallb_forall in H4. now apply H4. }
  unfold disk_ok, inv. split; [|split; [|split; [|split]]]; auto.
  - split; [assumption|]. split; [assumption|].
    intros g i Hd Hg. rewrite H1 in Hd. eapply Hv; eauto.
  - now apply cur_of_points.
  - apply cur_of_points. unfold cur_of in *. now rewrite <- H1.
Qed.

(** * Examples: a concrete 2-table disk and a flush *)
Module Ex.
(* v0 = empty, v1 lists tables 0,1, v2 lists 0,1,2; [current] payload tokens 100,101,102 *)
Definition o1 : oracle := mkOracle
  (fun v => match v with
            | 0 => Some (mkVdesc [] []) | 1 => Some (mkVdesc [0;1] [])
            | 2 => Some (mkVdesc [0;1;2] []) | _ => None end)
  (fun f => match f with
            | VersionFile 0 => Some [10] | VersionFile 1 => Some [11;12]
            | VersionFile 2 => Some [13;14]
            | TableFile 0 => Some [20;21] | TableFile 1 => Some [22;23]
            | TableFile 2 => Some [24;25;26]
            | _ => None end)
  (fun t => match t with 100 => Some 0 | 101 => Some 1 | 102 => Some 2 | _ => None end).

(* create_new, then one flush producing the two-table run {0,1} (rotation) *)
Definition tr_setup : list fsop :=
  trace_create_new false [10] 0 100 ++
  trace_flush [mkW 0 [20] [21]; mkW 1 [22] [23]] 1 [11;12] 1 101 [0].

Definition s1 : fsstate :=
  match run_fs fs_init tr_setup with Some s => s | None => fs_init end.

Lemma s1_run : run_fs fs_init tr_setup = Some s1.
Proof. vm_compute. reflexivity. Qed.

Example ex_s1_consistent : disk_consistent o1 s1.
Proof.
  exists 1. destruct (run_fs_init_wf _ _ s1_run) as [Hw Hv].
  apply disk_okb_sound; [assumption|assumption|vm_compute; reflexivity].
Qed.

Example ex_s1_recovers : summary (recover_result_of o1 s1) = SRec 1 [0; 1] [].
Proof. vm_compute. reflexivity. Qed.

(* the flush of a third table, publishing v2 and removing v1 *)
Definition tr_flush : list fsop :=
  trace_flush [mkW 2 [24] [25;26]] 2 [13;14] 2 102 [1].

Example ex_flush_ops :
  tr_flush =
  [Create (TableFile 2) true; Write (TableFile 2) 24; Write (TableFile 2) 25;
   Write (TableFile 2) 26; FsyncFile (TableFile 2); FsyncDir Tables;
   Create (VersionFile 2) false; Write (VersionFile 2) 13; Write (VersionFile 2) 14;
   FsyncFile (VersionFile 2); FsyncDir Root;
   Create (TempFile 2) true; Write (TempFile 2) 102; FsyncFile (TempFile 2);
   Rename (TempFile 2) Current; FsyncFile Current; FsyncDir Root;
   Unlink (VersionFile 1)].
Proof. reflexivity. Qed.

Example ex_flush_protocol_ok : protocol_ok o1 s1 tr_flush = true.
Proof. vm_compute. reflexivity. Qed.

(* ALL crash images of ALL prefixes, enumerated: 4352 images, each recovers to
   {v1,[0,1]} or {v2,[0,1,2]}; all images of the final state recover to v2 *)
Example ex_flush_image_count : length (all_prefix_summaries o1 s1 tr_flush) = 4352%nat.
Proof. vm_compute. reflexivity. Qed.

Example ex_flush_all_images : crash_atomic_check o1 s1 tr_flush = true.
Proof. vm_compute. reflexivity. Qed.

Example ex_flush_before_after :
  forallb (fun r => rsummary_eqb r (SRec 1 [0;1] []) || rsummary_eqb r (SRec 2 [0;1;2] []))
          (all_prefix_summaries o1 s1 tr_flush) = true /\
  existsb (rsummary_eqb (SRec 1 [0;1] [])) (all_prefix_summaries o1 s1 tr_flush) = true /\
  existsb (rsummary_eqb (SRec 2 [0;1;2] [])) (all_prefix_summaries o1 s1 tr_flush) = true.
Proof. vm_compute. auto. Qed.

(* the same fact from the general theorem *)
Example ex_flush_by_theorem :
  forall n sn img, run_fs s1 (firstn n tr_flush) = Some sn -> is_crash_image sn img ->
    summary (recover_dir o1 img) = SRec 1 [0;1] [] \/
    summary (recover_dir o1 img) = SRec 2 [0;1;2] [].
Proof.
  intros n sn img Hn Hi.
  destruct (crash_atomic_generic o1 s1 tr_flush ex_s1_consistent ex_flush_protocol_ok)
    as (sf & Hsf & _ & Hall).
  destruct (Hall n sn img Hn Hi) as [H _].
  assert (Ea : summary (recover_result_of o1 sf) = SRec 2 [0;1;2] []).
  { vm_compute in Hsf. inversion Hsf; subst sf. vm_compute; reflexivity. }
  rewrite ex_s1_recovers, Ea in H. exact H.
Qed.

(* create_new itself: every crash image is Fresh or the empty version 0 *)
Example ex_create_new_images :
  crash_atomic_check o1 fs_init (trace_create_new false [10] 0 100) = true.
Proof. vm_compute. reflexivity. Qed.
End Ex.

(** * The blob path (suspected defect S2): REFUTED for the faithful trace *)
Module ExBlob.
Definition o2 : oracle := mkOracle
  (fun v => match v with 0 => Some (mkVdesc [] []) | 1 => Some (mkVdesc [0] [0]) | _ => None end)
  (fun f => match f with
            | VersionFile 0 => Some [10] | VersionFile 1 => Some [11]
            | TableFile 0 => Some [20;21] | BlobFile 0 => Some [30;31]
            | _ => None end)
  (fun t => match t with 100 => Some 0 | 101 => Some 1 | _ => None end).

(* BlobTree::open on an empty folder *)
Definition tr_open : list fsop := trace_create_new true [10] 0 100.
Definition sb : fsstate := match run_fs fs_init tr_open with Some s => s | None => fs_init end.
Lemma sb_run : run_fs fs_init tr_open = Some sb.
Proof. vm_compute. reflexivity. Qed.

Lemma sb_consistent : disk_consistent o2 sb.
Proof.
  exists 0. destruct (run_fs_init_wf _ _ sb_run) as [Hw Hv].
  apply disk_okb_sound; [assumption|assumption|vm_compute; reflexivity].
Qed.

(* the first flush with key-value separation; [fixd] = insert the missing FsyncDir Blobs *)
Definition tr_flush_blob (fixd : bool) : list fsop :=
  trace_flush_blob fixd [mkW 0 [20] [21]] [mkW 0 [30] [31]] 1 [11] 1 101 [0].

Example ex_blob_flush_ops :
  tr_flush_blob false =
  [Create (TableFile 0) true; Create (BlobFile 0) false; Write (BlobFile 0) 30;
   Write (BlobFile 0) 31; FsyncFile (BlobFile 0);
   Write (TableFile 0) 20; Write (TableFile 0) 21; FsyncFile (TableFile 0); FsyncDir Tables;
   Create (VersionFile 1) false; Write (VersionFile 1) 11; FsyncFile (VersionFile 1);
   FsyncDir Root; Create (TempFile 1) true; Write (TempFile 1) 101; FsyncFile (TempFile 1);
   Rename (TempFile 1) Current; FsyncFile Current; FsyncDir Root; Unlink (VersionFile 0)].
Proof. reflexivity. Qed.

Definition sbf : fsstate :=
  match run_fs sb (tr_flush_blob false) with Some s => s | None => sb end.

(** The faithful blob flush trace violates the protocol (the blob file's directory
    entry is not durable when [current] is switched) ... *)
Example ex_blob_protocol_violated :
  protocol_ok o2 sb (tr_flush_blob false) = false /\
  first_violation o2 sb (Some 0, Some 0, false) (tr_flush_blob false) 0 = Some 16%nat.
Proof. vm_compute. auto. Qed.

(** ... and this is a real loss of crash safety: AFTER the flush has returned
    successfully (whole trace executed), the purely durable state of the disk - a legal
    crash image - makes recovery FAIL: [current] -> v1, v1 lists blob file 0, but
    [blobs/0] has no durable directory entry (vlog/mod.rs:126-128 Unrecoverable). *)
Theorem trace_flush_blob_refuted :
  exists o s tr sf img,
    disk_consistent o s /\
    tr = trace_flush_blob false [mkW 0 [20] [21]] [mkW 0 [30] [31]] 1 [11] 1 101 [0] /\
    run_fs s tr = Some sf /\ is_crash_image sf img /\
    recover_dir o img = Failed /\
    summary (recover_result_of o s) = SRec 0 [] [] /\
    summary (recover_dir o (volatile_image sf)) = SRec 1 [0] [0].
Proof.
  exists o2, sb, (tr_flush_blob false), sbf, (durable_image sbf).
  split; [exact sb_consistent|]. split; [reflexivity|].
  split; [vm_compute; reflexivity|]. split; [apply durable_is_crash_image|].
  split; [vm_compute; reflexivity|]. split; vm_compute; reflexivity.
Qed.

Example ex_blob_images_fail : crash_atomic_check o2 sb (tr_flush_blob false) = false.
Proof. vm_compute. reflexivity. Qed.

(** The repair (one [fsync_directory(blobs/)] after the blob file's [sync_all]) is
    sufficient: the repaired trace satisfies the protocol, hence
    [crash_atomic_generic] applies; cross-checked by enumeration. *)
Example ex_blob_fixed_protocol_ok : protocol_ok o2 sb (tr_flush_blob true) = true.
Proof. vm_compute. reflexivity. Qed.

Example ex_blob_fixed_all_images : crash_atomic_check o2 sb (tr_flush_blob true) = true.
Proof. vm_compute. reflexivity. Qed.
End ExBlob.
