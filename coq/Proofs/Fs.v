(** Crash-atomicity / failure-atomicity / reclamation theorems about [Model/Fs.v]. *)
From Coq Require Import List NArith Arith Bool Lia.
From LsmV Require Import Model.Fs.
Import ListNotations.
Open Scope N_scope.

(** * Boolean equalities *)
Lemma fname_eqb_eq a b : fname_eqb a b = true <-> a = b.
Proof.
  destruct a, b; simpl; try (split; congruence);
    rewrite N.eqb_eq; split; congruence.
Qed.

Lemma fname_eqb_refl a : fname_eqb a a = true.
Proof. now apply fname_eqb_eq. Qed.

Lemma fname_eqb_neq a b : fname_eqb a b = false <-> a <> b.
Proof. rewrite <- fname_eqb_eq. destruct (fname_eqb a b); split; congruence. Qed.

Lemma fname_eq_dec (a b : fname) : {a = b} + {a <> b}.
Proof.
  destruct (fname_eqb a b) eqn:E; [left; now apply fname_eqb_eq | right; now apply fname_eqb_neq].
Qed.

Lemma dname_eqb_eq a b : dname_eqb a b = true <-> a = b.
Proof. destruct a, b; simpl; split; congruence. Qed.

Lemma dname_eqb_refl a : dname_eqb a a = true.
Proof. now destruct a. Qed.

Lemma list_eqb_eq a b : list_eqb a b = true <-> a = b.
Proof.
  revert b; induction a as [|x a IH]; intros [|y b]; simpl; try (split; congruence).
  rewrite andb_true_iff, N.eqb_eq, IH. split; [intros [-> ->]; reflexivity | intros E; inversion E; auto].
Qed.

Lemma list_eqb_refl a : list_eqb a a = true.
Proof. now apply list_eqb_eq. Qed.

Lemma opt_eqb_eq a b : opt_eqb a b = true <-> a = b.
Proof.
  destruct a, b; simpl; try (split; congruence).
  rewrite N.eqb_eq; split; congruence.
Qed.

Lemma opt_is_true j o : opt_is j o = true <-> o = Some j.
Proof.
  destruct o; simpl; [|split; congruence].
  rewrite N.eqb_eq; split; congruence.
Qed.

Lemma upd_name_same m f v : upd_name m f v f = v.
Proof. unfold upd_name. now rewrite fname_eqb_refl. Qed.

Lemma upd_name_other m f v g : g <> f -> upd_name m f v g = m g.
Proof. unfold upd_name. intros H. apply fname_eqb_neq in H. now rewrite H. Qed.

Lemma upd_cont_same m i v : upd_cont m i v i = v.
Proof. unfold upd_cont. now rewrite N.eqb_refl. Qed.

Lemma upd_cont_other m i v j : j <> i -> upd_cont m i v j = m j.
Proof. unfold upd_cont. intros H. apply N.eqb_neq in H. now rewrite H. Qed.

(** * Crash images as a predicate *)
Definition entry_ok (s : fsstate) (f : fname) (e : option icontent) : Prop :=
  match e with
  | None => dns s f = None \/ vns s f = None
  | Some c => exists i, (dns s f = Some i \/ vns s f = Some i) /\
                        In c (crash_contents (dcont s i) (vcont s i))
  end.

(** [img] is what a process reopening the directory after a crash in state [s] may see:
    per directory entry independently the durable or the volatile binding; per inode the
    durable content or a (possibly torn) prefix of the volatile one extending it; a
    sub-directory is visible if durably linked, may be visible if only volatilely. *)
Definition is_crash_image (s : fsstate) (img : image) : Prop :=
  (forall d, ddirs s d = true -> idirs img d = true) /\
  (forall d, idirs img d = true -> ddirs s d = true \/ vdirs s d = true) /\
  (forall f, entry_ok s f (iget img f)).

(** * Contents *)
Lemma prefixes_spec l p : In p (prefixes l) <-> exists q, l = p ++ q.
Proof.
  revert p; induction l as [|x l IH]; intros p; simpl.
  - split.
    + intros [<-|[]]. now exists [].
    + intros [q E]. destruct p; [now left | discriminate].
  - split.
    + intros [<-|H]; [now exists (x :: l)|].
      apply in_map_iff in H as [p' [<- H]]. apply IH in H as [q ->]. now exists q.
    + intros [q E]. destruct p as [|y p]; [now left|]. right.
      simpl in E. inversion E; subst. apply in_map_iff. exists p. split; [reflexivity|].
      apply IH. now exists q.
Qed.

Lemma is_prefixb_refl d : is_prefixb d d = true.
Proof. induction d; simpl; [reflexivity|]. now rewrite N.eqb_refl. Qed.

Lemma crash_contents_durable d v : In (d, false) (crash_contents d v).
Proof. now left. Qed.

Lemma crash_contents_synced d c : In c (crash_contents d d) -> c = (d, false).
Proof.
  unfold crash_contents. intros [<-|H]; [reflexivity|].
  apply in_flat_map in H as [p [Hp Hc]].
  apply filter_In in Hp as [Hp Hl]. rewrite is_prefixb_refl in Hl.
  apply Nat.leb_le in Hl. apply prefixes_spec in Hp as [q E].
  assert (q = []) as ->.
  { apply (f_equal (@length N)) in E. rewrite app_length in E.
    destruct q; [reflexivity|simpl in E; lia]. }
  rewrite app_nil_r in E. subst p.
  rewrite Nat.ltb_irrefl in Hc. destruct Hc as [<-|[]]. reflexivity.
Qed.

(** * Well-formedness, stability, the invariant *)
Definition wf (s : fsstate) : Prop :=
  ddirs s Root = true /\
  forall f i, vns s f = Some i \/ dns s f = Some i -> i < next_ino s.

Definition stable (o : oracle) (s : fsstate) (f : fname) : Prop := stableb o s f = true.

Lemma stable_spec o s f :
  stable o s f <->
  exists i e, dns s f = Some i /\ vns s f = Some i /\ dcont s i = e /\ vcont s i = e /\
              expected o f = Some e /\ ddirs s (dir_of f) = true.
Proof.
  unfold stable, stableb. split.
  - destruct (dns s f) as [i|]; [|discriminate]. destruct (vns s f) as [j|]; [|discriminate].
    destruct (expected o f) as [e|]; [|rewrite andb_false_r; discriminate].
    rewrite !andb_true_iff, N.eqb_eq, !list_eqb_eq. intros [[[-> H1] H2] H3].
    exists j, e. repeat split; congruence.
  - intros (i & e & -> & -> & H1 & H2 & -> & H3).
    rewrite N.eqb_refl, H1, H2, list_eqb_refl, H3. reflexivity.
Qed.

(** what the (durable / volatile) [current] binding [ns] denotes *)
Definition cur_points (o : oracle) (s : fsstate) (ns : fname -> option N) (ov : option N) : Prop :=
  match ov with
  | Some v => exists i t, ns Current = Some i /\ dcont s i = [t] /\ vcont s i = [t] /\
                          current_points o t = Some v
  | None => ns Current = None
  end.

Definition pinned (o : oracle) (s : fsstate) (ov : option N) : Prop :=
  match ov with
  | Some v => version_contents o v <> None /\ forall f, In f (pnames o v) -> stable o s f
  | None => True
  end.

(** protocol invariant for protocol state [(dv, vv, _)] *)
Definition inv (o : oracle) (s : fsstate) (ps : pstate) : Prop :=
  let '(dv, vv, _) := ps in
  wf s /\ cur_points o s (dns s) dv /\ cur_points o s (vns s) vv /\
  pinned o s dv /\ pinned o s vv.

(** logical durable state of a consistent disk: [current] durable (= volatile), pointing
    to a complete durable version whose files are all complete & durable with durable
    directory entries *)
Definition disk_ok (o : oracle) (s : fsstate) (ov : option N) : Prop := inv o s (ov, ov, false).
Definition disk_consistent (o : oracle) (s : fsstate) : Prop := exists v, disk_ok o s (Some v).

(** * What recovery returns on a crash image of a state satisfying the invariant *)
Definition vsummary (o : oracle) (v : N) : rsummary :=
  match version_contents o v with
  | Some vd => SRec v (vd_tables vd) (vd_blobs vd)
  | None => SFailed
  end.

Definition osummary (o : oracle) (ov : option N) : rsummary :=
  match ov with Some v => vsummary o v | None => SFresh end.

Lemma crash_file_stable o s img f :
  stable o s f -> is_crash_image s img -> file_ok o img f = true.
Proof.
  intros Hs (Hd & _ & He). apply stable_spec in Hs as (i & e & H1 & H2 & H3 & H4 & H5 & H6).
  unfold file_ok, img_file. rewrite (Hd _ H6).
  specialize (He f). destruct (iget img f) as [c|]; simpl in He.
  - destruct He as (j & Hj & Hc).
    assert (j = i) as -> by (destruct Hj; congruence).
    rewrite H3, H4 in Hc. apply crash_contents_synced in Hc as ->.
    unfold complete. rewrite H5. simpl. apply list_eqb_refl.
  - destruct He; congruence.
Qed.

Lemma recover_pinned o img t r b v vd :
  img_file img Current = Some (t :: r, b) ->
  current_points o t = Some v ->
  version_contents o v = Some vd ->
  (forall f, In f (pnames o v) -> file_ok o img f = true) ->
  summary (recover_dir o img) = SRec v (vd_tables vd) (vd_blobs vd).
Proof.
  intros Hc Hp Hv Hf. unfold recover_dir. rewrite Hc, Hp.
  assert (Hpn : pnames o v = VersionFile v :: map TableFile (vd_tables vd) ++ map BlobFile (vd_blobs vd))
    by (unfold pnames; now rewrite Hv).
  rewrite (Hf (VersionFile v)) by (rewrite Hpn; now left). simpl negb. cbv iota.
  rewrite Hv.
  assert (Ht : forallb (fun id => file_ok o img (TableFile id)) (vd_tables vd) = true).
  { apply forallb_forall. intros id Hid. apply Hf. rewrite Hpn. right.
    apply in_or_app. left. now apply in_map. }
  assert (Hb : forallb (fun id => file_ok o img (BlobFile id)) (vd_blobs vd) = true).
  { apply forallb_forall. intros id Hid. apply Hf. rewrite Hpn. right.
    apply in_or_app. right. now apply in_map. }
  rewrite Ht, Hb. simpl negb. rewrite andb_false_r. cbv iota. simpl summary.
  destruct (idirs img Blobs) eqn:Eb; [reflexivity|].
  destruct (vd_blobs vd) as [|id bl] eqn:Ebl; [reflexivity|].
  exfalso. simpl in Hb. apply andb_true_iff in Hb as [Hb _].
  unfold file_ok, img_file in Hb. simpl dir_of in Hb. rewrite Eb in Hb. discriminate.
Qed.

Lemma inv_recover o s ps img :
  inv o s ps -> is_crash_image s img ->
  let '(dv, vv, _) := ps in
  summary (recover_dir o img) = osummary o dv \/ summary (recover_dir o img) = osummary o vv.
Proof.
  destruct ps as [[dv vv] pub]. intros (Hwf & Hcd & Hcv & Hpd & Hpv) Himg.
  pose proof Himg as (Hd & _ & He).
  assert (Hroot : idirs img Root = true) by (apply Hd; apply Hwf).
  assert (Hcur : img_file img Current = iget img Current)
    by (unfold img_file; simpl dir_of; now rewrite Hroot).
  (* it suffices to treat one binding [ns] that the image chose *)
  assert (Hgen : forall ov, pinned o s ov ->
            (match ov with
             | Some v => exists t, iget img Current = Some ([t], false) /\ current_points o t = Some v
             | None => iget img Current = None end) ->
            summary (recover_dir o img) = osummary o ov).
  { intros [v|] Hp Hi.
    - destruct Hi as (t & Hi & Ht). destruct Hp as [Hv Hp]. simpl. unfold vsummary.
      destruct (version_contents o v) as [vd|] eqn:Ev; [|congruence].
      apply (recover_pinned o img t [] false v vd); [now rewrite Hcur|assumption|assumption|].
      intros f Hf. eapply crash_file_stable; eauto.
    - simpl. unfold recover_dir. rewrite Hcur, Hi. reflexivity. }
  specialize (He Current). destruct (iget img Current) as [c|] eqn:Ec; simpl in He.
  - destruct He as (i & [Hi|Hi] & Hc).
    + left. apply Hgen; [assumption|]. destruct dv as [v|]; simpl in Hcd.
      * destruct Hcd as (i' & t & H1 & H2 & H3 & H4).
        assert (i' = i) as -> by congruence. rewrite H2, H3 in Hc.
        apply crash_contents_synced in Hc as ->. eauto.
      * congruence.
    + right. apply Hgen; [assumption|]. destruct vv as [v|]; simpl in Hcv.
      * destruct Hcv as (i' & t & H1 & H2 & H3 & H4).
        assert (i' = i) as -> by congruence. rewrite H2, H3 in Hc.
        apply crash_contents_synced in Hc as ->. eauto.
      * congruence.
  - destruct He as [Hn|Hn].
    + left. apply Hgen; [assumption|]. destruct dv as [v|]; simpl in Hcd; [|reflexivity].
      destruct Hcd as (i' & t & H1 & _). congruence.
    + right. apply Hgen; [assumption|]. destruct vv as [v|]; simpl in Hcv; [|reflexivity].
      destruct Hcv as (i' & t & H1 & _). congruence.
Qed.

(** * Frame lemmas: what an op leaves alone *)
Lemma wf_apply s op s' : apply s op = Some s' -> wf s -> wf s'.
Proof.
  intros Ha [Hr Hb]. destruct op; simpl in Ha.
  - inversion Ha; subst; clear Ha. split; simpl; auto.
  - destruct (negb (vdirs s (dir_of f))); [discriminate|].
    destruct (vns s f) as [i|] eqn:Ev.
    + destruct excl; [discriminate|]. inversion Ha; subst; clear Ha. split; simpl; auto.
    + inversion Ha; subst; clear Ha. split; simpl; auto.
      intros g i [H|H].
      * unfold upd_name in H. destruct (fname_eqb g f).
        -- inversion H; subst. lia.
        -- specialize (Hb g i (or_introl H)). lia.
      * specialize (Hb g i (or_intror H)). lia.
  - destruct (vns s f); [|discriminate]. inversion Ha; subst; clear Ha. split; simpl; auto.
  - destruct (vns s f); [|discriminate]. inversion Ha; subst; clear Ha. split; simpl; auto.
  - destruct (negb (vdirs s d)); [discriminate|]. inversion Ha; subst; clear Ha. split; simpl.
    + destruct (dname_eqb d Root); [now rewrite Hr|assumption].
    + intros g i [H|H]; [eauto|]. destruct (dname_eqb (dir_of g) d); eauto.
  - destruct (negb (dname_eqb (dir_of src) (dir_of dst))); [discriminate|].
    destruct (fname_eqb src dst).
    + destruct (vns s src); [|discriminate]. inversion Ha; subst. now split.
    + destruct (vns s src) as [i|] eqn:Ev; [|discriminate]. inversion Ha; subst; clear Ha.
      split; simpl; auto. intros g j [H|H]; [|eauto].
      unfold upd_name in H. destruct (fname_eqb g dst); [inversion H; subst; eauto|].
      destruct (fname_eqb g src); [discriminate|eauto].
  - destruct (vns s f) eqn:Ev; [|discriminate]. inversion Ha; subst; clear Ha.
    split; simpl; auto. intros g j [H|H]; [|eauto].
    unfold upd_name in H. destruct (fname_eqb g f); [discriminate|eauto].
Qed.

Definition untouched (s : fsstate) (f : fname) (op : fsop) : Prop :=
  forall g, In g (touched op) -> g <> f /\ aliases s f g = false.

Lemma aliases_false s f g j i :
  aliases s f g = false -> vns s g = Some j -> vns s f = Some i \/ dns s f = Some i -> j <> i.
Proof.
  unfold aliases. intros Ha Hg Hf ->. rewrite Hg in Ha.
  apply orb_false_iff in Ha as [H1 H2].
  destruct Hf as [Hf|Hf]; rewrite Hf in *; simpl in *; rewrite N.eqb_refl in *; discriminate.
Qed.

Record keeps (s s' : fsstate) (f : fname) (op : fsop) : Prop := {
  k_vns : vns s' f = vns s f;
  k_dns : dns s' f = dns s f \/ (op = FsyncDir (dir_of f) /\ dns s' f = vns s f);
  k_cont : forall i, vns s f = Some i \/ dns s f = Some i ->
                     vcont s' i = vcont s i /\ (dcont s i = vcont s i -> dcont s' i = dcont s i);
  k_dirs : forall d, ddirs s d = true -> ddirs s' d = true
}.

Lemma apply_keeps s op s' f :
  apply s op = Some s' -> wf s -> untouched s f op -> keeps s s' f op.
Proof.
  intros Ha [_ Hb] Hu. destruct op; simpl in Ha.
  - inversion Ha; subst; clear Ha. split; simpl; auto.
  - destruct (Hu f0 (or_introl eq_refl)) as [Hne Hal].
    destruct (negb (vdirs s (dir_of f0))); [discriminate|].
    destruct (vns s f0) as [j|] eqn:Ev.
    + destruct excl; [discriminate|]. inversion Ha; subst; clear Ha. split; simpl; auto.
      intros i Hi. pose proof (aliases_false _ _ _ _ _ Hal Ev Hi) as Hji.
      rewrite upd_cont_other by congruence. auto.
    + inversion Ha; subst; clear Ha. split; simpl; auto.
      * apply upd_name_other. congruence.
      * intros i Hi. assert (i < next_ino s) by (eapply Hb; eauto).
        rewrite !upd_cont_other by lia. auto.
  - destruct (Hu f0 (or_introl eq_refl)) as [Hne Hal].
    destruct (vns s f0) as [j|] eqn:Ev; [|discriminate].
    inversion Ha; subst; clear Ha. split; simpl; auto.
    intros i Hi. pose proof (aliases_false _ _ _ _ _ Hal Ev Hi) as Hji.
    rewrite upd_cont_other by congruence. auto.
  - destruct (vns s f0) as [j|] eqn:Ev; [|discriminate].
    inversion Ha; subst; clear Ha. split; simpl; auto.
    intros i Hi. split; [reflexivity|]. intros E. unfold upd_cont.
    destruct (N.eqb i j) eqn:Eij; [apply N.eqb_eq in Eij; subst; auto|reflexivity].
  - destruct (negb (vdirs s d)); [discriminate|]. inversion Ha; subst; clear Ha.
    split; simpl; auto.
    + destruct (dname_eqb (dir_of f) d) eqn:Ed; [|now left].
      right. apply dname_eqb_eq in Ed. subst. auto.
    + intros e He. destruct (dname_eqb d Root); [now rewrite He|assumption].
  - destruct (Hu src (or_introl eq_refl)) as [Hne1 _].
    destruct (Hu dst (or_intror (or_introl eq_refl))) as [Hne2 _].
    destruct (negb (dname_eqb (dir_of src) (dir_of dst))); [discriminate|].
    destruct (fname_eqb src dst).
    + destruct (vns s src); [|discriminate]. inversion Ha; subst. split; auto.
    + destruct (vns s src) as [i|] eqn:Ev; [|discriminate]. inversion Ha; subst; clear Ha.
      split; simpl; auto.
      rewrite upd_name_other by congruence. apply upd_name_other. congruence.
  - destruct (Hu f0 (or_introl eq_refl)) as [Hne _].
    destruct (vns s f0) eqn:Ev; [|discriminate]. inversion Ha; subst; clear Ha.
    split; simpl; auto. apply upd_name_other. congruence.
Qed.

Lemma keeps_stable o s s' f op : keeps s s' f op -> stable o s f -> stable o s' f.
Proof.
  intros [Kv Kd Kc Kdir] Hs. apply stable_spec in Hs as (i & e & H1 & H2 & H3 & H4 & H5 & H6).
  apply stable_spec. exists i, e.
  destruct (Kc i (or_introl H2)) as [Kc1 Kc2].
  repeat split.
  - destruct Kd as [Kd|[_ Kd]]; congruence.
  - congruence.
  - rewrite Kc2; congruence.
  - congruence.
  - assumption.
  - auto.
Qed.

Lemma keeps_cur_vns o s s' op ov :
  keeps s s' Current op -> cur_points o s (vns s) ov -> cur_points o s' (vns s') ov.
Proof.
  intros [Kv Kd Kc Kdir]. destruct ov as [v|]; simpl.
  - intros (i & t & H1 & H2 & H3 & H4). exists i, t.
    destruct (Kc i (or_introl H1)) as [Kc1 Kc2].
    repeat split; try congruence. rewrite Kc2; congruence.
  - congruence.
Qed.

Lemma keeps_cur_dns o s s' op ov :
  keeps s s' Current op -> op <> FsyncDir Root ->
  cur_points o s (dns s) ov -> cur_points o s' (dns s') ov.
Proof.
  intros [Kv Kd Kc Kdir] Hop.
  assert (Kd' : dns s' Current = dns s Current).
  { destruct Kd as [Kd|[Kd _]]; [assumption|]. simpl in Kd. contradiction. }
  destruct ov as [v|]; simpl.
  - intros (i & t & H1 & H2 & H3 & H4). exists i, t.
    destruct (Kc i (or_intror H1)) as [Kc1 Kc2].
    repeat split; try congruence. rewrite Kc2; congruence.
  - congruence.
Qed.
