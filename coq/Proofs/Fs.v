(** Crash-atomicity / failure-atomicity / reclamation theorems about [Model/Fs.v]. *)
From Coq Require Import List NArith Bool Lia.
From LsmV Require Import Model.Fs.
Import ListNotations.
Open Scope N_scope.

(** * Boolean equalities *)
Lemma fname_eqb_eq a b : fname_eqb a b = true <-> a = b.
Proof.
  destruct a, b; simpl; try (split; congruence);
    rewrite N.eqb_eq; split; congruence.
Qed.

Lemma fname_eqb_refl a : fname_eqb a a = true.
Proof. now apply fname_eqb_eq. Qed.

Lemma fname_eqb_neq a b : fname_eqb a b = false <-> a <> b.
Proof. rewrite <- fname_eqb_eq. destruct (fname_eqb a b); split; congruence. Qed.

Lemma fname_eq_dec (a b : fname) : {a = b} + {a <> b}.
Proof.
  destruct (fname_eqb a b) eqn:E; [left; now apply fname_eqb_eq | right; now apply fname_eqb_neq].
Qed.

Lemma dname_eqb_eq a b : dname_eqb a b = true <-> a = b.
Proof. destruct a, b; simpl; split; congruence. Qed.

Lemma dname_eqb_refl a : dname_eqb a a = true.
Proof. now destruct a. Qed.

Lemma list_eqb_eq a b : list_eqb a b = true <-> a = b.
Proof.
  revert b; induction a as [|x a IH]; intros [|y b]; simpl; try (split; congruence).
  rewrite andb_true_iff, N.eqb_eq, IH. split; [intros [-> ->]; reflexivity | intros E; inversion E; auto].
Qed.

Lemma list_eqb_refl a : list_eqb a a = true.
Proof. now apply list_eqb_eq. Qed.

Lemma opt_eqb_eq a b : opt_eqb a b = true <-> a = b.
Proof.
  destruct a, b; simpl; try (split; congruence).
  rewrite N.eqb_eq; split; congruence.
Qed.

Lemma opt_is_true j o : opt_is j o = true <-> o = Some j.
Proof.
  destruct o; simpl; [|split; congruence].
  rewrite N.eqb_eq; split; congruence.
Qed.

Lemma upd_name_same m f v : upd_name m f v f = v.
Proof. unfold upd_name. now rewrite fname_eqb_refl. Qed.

Lemma upd_name_other m f v g : g <> f -> upd_name m f v g = m g.
Proof. unfold upd_name. intros H. apply fname_eqb_neq in H. now rewrite H. Qed.

Lemma upd_cont_same m i v : upd_cont m i v i = v.
Proof. unfold upd_cont. now rewrite N.eqb_refl. Qed.

Lemma upd_cont_other m i v j : j <> i -> upd_cont m i v j = m j.
Proof. unfold upd_cont. intros H. apply N.eqb_neq in H. now rewrite H. Qed.

(** * Crash images as a predicate *)
Definition entry_ok (s : fsstate) (f : fname) (e : option icontent) : Prop :=
  match e with
  | None => dns s f = None \/ vns s f = None
  | Some c => exists i, (dns s f = Some i \/ vns s f = Some i) /\
                        In c (crash_contents (dcont s i) (vcont s i))
  end.

(** [img] is what a process reopening the directory after a crash in state [s] may see:
    per directory entry independently the durable or the volatile binding; per inode the
    durable content or a (possibly torn) prefix of the volatile one extending it; a
    sub-directory is visible if durably linked, may be visible if only volatilely. *)
Definition is_crash_image (s : fsstate) (img : image) : Prop :=
  (forall d, ddirs s d = true -> idirs img d = true) /\
  (forall d, idirs img d = true -> ddirs s d = true \/ vdirs s d = true) /\
  (forall f, entry_ok s f (iget img f)).
