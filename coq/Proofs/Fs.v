(** Crash-atomicity / failure-atomicity / reclamation theorems about [Model/Fs.v]. *)
From Coq Require Import List NArith Arith Bool Lia.
From LsmV Require Import Model.Fs.
Import ListNotations.
Open Scope N_scope.

(** * Boolean equalities *)
Lemma fname_eqb_eq a b : fname_eqb a b = true <-> a = b.
Proof.
  destruct a, b; simpl; try (split; congruence);
    rewrite N.eqb_eq; split; congruence.
Qed.

Lemma fname_eqb_refl a : fname_eqb a a = true.
Proof. now apply fname_eqb_eq. Qed.

Lemma fname_eqb_neq a b : fname_eqb a b = false <-> a <> b.
Proof. rewrite <- fname_eqb_eq. destruct (fname_eqb a b); split; congruence. Qed.

Lemma fname_eq_dec (a b : fname) : {a = b} + {a <> b}.
Proof.
  destruct (fname_eqb a b) eqn:E; [left; now apply fname_eqb_eq | right; now apply fname_eqb_neq].
Qed.

Lemma dname_eqb_eq a b : dname_eqb a b = true <-> a = b.
Proof. destruct a, b; simpl; split; congruence. Qed.

Lemma dname_eqb_refl a : dname_eqb a a = true.
Proof. now destruct a. Qed.

Lemma list_eqb_eq a b : list_eqb a b = true <-> a = b.
Proof.
  revert b; induction a as [|x a IH]; intros [|y b]; simpl; try (split; congruence).
  rewrite andb_true_iff, N.eqb_eq, IH. split; [intros [-> ->]; reflexivity | intros E; inversion E; auto].
Qed.

Lemma list_eqb_refl a : list_eqb a a = true.
Proof. now apply list_eqb_eq. Qed.

Lemma opt_eqb_eq a b : opt_eqb a b = true <-> a = b.
Proof.
  destruct a, b; simpl; try (split; congruence).
  rewrite N.eqb_eq; split; congruence.
Qed.

Lemma opt_is_true j o : opt_is j o = true <-> o = Some j.
Proof.
  destruct o; simpl; [|split; congruence].
  rewrite N.eqb_eq; split; congruence.
Qed.

Lemma upd_name_same m f v : upd_name m f v f = v.
Proof. unfold upd_name. now rewrite fname_eqb_refl. Qed.

Lemma upd_name_other m f v g : g <> f -> upd_name m f v g = m g.
Proof. unfold upd_name. intros H. apply fname_eqb_neq in H. now rewrite H. Qed.

Lemma upd_cont_same m i v : upd_cont m i v i = v.
Proof. unfold upd_cont. now rewrite N.eqb_refl. Qed.

Lemma upd_cont_other m i v j : j <> i -> upd_cont m i v j = m j.
Proof. unfold upd_cont. intros H. apply N.eqb_neq in H. now rewrite H. Qed.

(** * Crash images as a predicate *)
Definition entry_ok (s : fsstate) (f : fname) (e : option icontent) : Prop :=
  match e with
  | None => dns s f = None \/ vns s f = None
  | Some c => exists i, (dns s f = Some i \/ vns s f = Some i) /\
                        In c (crash_contents (dcont s i) (vcont s i))
  end.

(** [img] is what a process reopening the directory after a crash in state [s] may see:
    per directory entry independently the durable or the volatile binding; per inode the
    durable content or a (possibly torn) prefix of the volatile one extending it; a
    sub-directory is visible if durably linked, may be visible if only volatilely. *)
Definition is_crash_image (s : fsstate) (img : image) : Prop :=
  (forall d, ddirs s d = true -> idirs img d = true) /\
  (forall d, idirs img d = true -> ddirs s d = true \/ vdirs s d = true) /\
  (forall f, entry_ok s f (iget img f)).

(** * Contents *)
Lemma prefixes_spec l p : In p (prefixes l) <-> exists q, l = p ++ q.
Proof.
  revert p; induction l as [|x l IH]; intros p; simpl.
  - split.
    + intros [<-|[]]. now exists [].
    + intros [q E]. destruct p; [now left | discriminate].
  - split.
    + intros [<-|H]; [now exists (x :: l)|].
      apply in_map_iff in H as [p' [<- H]]. apply IH in H as [q ->]. now exists q.
    + intros [q E]. destruct p as [|y p]; [now left|]. right.
      simpl in E. inversion E; subst. apply in_map_iff. exists p. split; [reflexivity|].
      apply IH. now exists q.
Qed.

Lemma is_prefixb_refl d : is_prefixb d d = true.
Proof. induction d; simpl; [reflexivity|]. now rewrite N.eqb_refl. Qed.

Lemma crash_contents_durable d v : In (d, false) (crash_contents d v).
Proof. now left. Qed.

Lemma crash_contents_synced d c : In c (crash_contents d d) -> c = (d, false).
Proof.
  unfold crash_contents. intros [<-|H]; [reflexivity|].
  apply in_flat_map in H as [p [Hp Hc]].
  apply filter_In in Hp as [Hp Hl]. rewrite is_prefixb_refl in Hl.
  apply Nat.leb_le in Hl. apply prefixes_spec in Hp as [q E].
  assert (q = []) as ->.
  { apply (f_equal (@length N)) in E. rewrite app_length in E.
    destruct q; [reflexivity|simpl in E; lia]. }
  rewrite app_nil_r in E. subst p.
  rewrite Nat.ltb_irrefl in Hc. destruct Hc as [<-|[]]. reflexivity.
Qed.

(** * Well-formedness, stability, the invariant *)
Definition wf (s : fsstate) : Prop :=
  ddirs s Root = true /\
  forall f i, vns s f = Some i \/ dns s f = Some i -> i < next_ino s.

Definition stable (o : oracle) (s : fsstate) (f : fname) : Prop := stableb o s f = true.

Lemma stable_spec o s f :
  stable o s f <->
  exists i e, dns s f = Some i /\ vns s f = Some i /\ dcont s i = e /\ vcont s i = e /\
              expected o f = Some e /\ ddirs s (dir_of f) = true.
Proof.
  unfold stable, stableb. split.
  - destruct (dns s f) as [i|]; [|discriminate]. destruct (vns s f) as [j|]; [|discriminate].
    destruct (expected o f) as [e|]; [|rewrite andb_false_r; discriminate].
    rewrite !andb_true_iff, N.eqb_eq, !list_eqb_eq. intros [[[-> H1] H2] H3].
    exists j, e. repeat split; congruence.
  - intros (i & e & -> & -> & H1 & H2 & -> & H3).
    rewrite N.eqb_refl, H1, H2, list_eqb_refl, H3. reflexivity.
Qed.

(** what the (durable / volatile) [current] binding [ns] denotes *)
Definition cur_points (o : oracle) (s : fsstate) (ns : fname -> option N) (ov : option N) : Prop :=
  match ov with
  | Some v => exists i t, ns Current = Some i /\ dcont s i = [t] /\ vcont s i = [t] /\
                          current_points o t = Some v
  | None => ns Current = None
  end.

Definition pinned (o : oracle) (s : fsstate) (ov : option N) : Prop :=
  match ov with
  | Some v => version_contents o v <> None /\ forall f, In f (pnames o v) -> stable o s f
  | None => True
  end.

(** no hard links: the volatile namespace is injective, and the inode the durable
    [current] is bound to is not reachable through another volatile name *)
Definition vinj (s : fsstate) : Prop :=
  forall f g i, vns s f = Some i -> vns s g = Some i -> f = g.

Definition cur_excl (s : fsstate) : Prop :=
  forall g i, dns s Current = Some i -> vns s g = Some i -> g = Current.

(** protocol invariant for protocol state [(dv, vv, _)] *)
Definition inv (o : oracle) (s : fsstate) (ps : pstate) : Prop :=
  let '(dv, vv, _) := ps in
  (wf s /\ vinj s /\ cur_excl s) /\ cur_points o s (dns s) dv /\ cur_points o s (vns s) vv /\
  pinned o s dv /\ pinned o s vv.

(** logical durable state of a consistent disk: [current] durable (= volatile), pointing
    to a complete durable version whose files are all complete & durable with durable
    directory entries *)
Definition disk_ok (o : oracle) (s : fsstate) (ov : option N) : Prop := inv o s (ov, ov, false).
Definition disk_consistent (o : oracle) (s : fsstate) : Prop := exists v, disk_ok o s (Some v).

(** * What recovery returns on a crash image of a state satisfying the invariant *)
Definition vsummary (o : oracle) (v : N) : rsummary :=
  match version_contents o v with
  | Some vd => SRec v (vd_tables vd) (vd_blobs vd)
  | None => SFailed
  end.

Definition osummary (o : oracle) (ov : option N) : rsummary :=
  match ov with Some v => vsummary o v | None => SFresh end.

Lemma crash_file_stable o s img f :
  stable o s f -> is_crash_image s img -> file_ok o img f = true.
Proof.
  intros Hs (Hd & _ & He). apply stable_spec in Hs as (i & e & H1 & H2 & H3 & H4 & H5 & H6).
  unfold file_ok, img_file. rewrite (Hd _ H6).
  specialize (He f). destruct (iget img f) as [c|]; simpl in He.
  - destruct He as (j & Hj & Hc).
    assert (j = i) as -> by (destruct Hj; congruence).
    rewrite H3, H4 in Hc. apply crash_contents_synced in Hc as ->.
    unfold complete. rewrite H5. simpl. apply list_eqb_refl.
  - destruct He; congruence.
Qed.

Lemma recover_pinned o img t r b v vd :
  img_file img Current = Some (t :: r, b) ->
  current_points o t = Some v ->
  version_contents o v = Some vd ->
  (forall f, In f (pnames o v) -> file_ok o img f = true) ->
  summary (recover_dir o img) = SRec v (vd_tables vd) (vd_blobs vd).
Proof.
  intros Hc Hp Hv Hf. unfold recover_dir. rewrite Hc, Hp.
  assert (Hpn : pnames o v = VersionFile v :: map TableFile (vd_tables vd) ++ map BlobFile (vd_blobs vd))
    by (unfold pnames; now rewrite Hv).
  rewrite (Hf (VersionFile v)) by (rewrite Hpn; now left). simpl negb. cbv iota.
  rewrite Hv.
  assert (Ht : forallb (fun id => file_ok o img (TableFile id)) (vd_tables vd) = true).
  { apply forallb_forall. intros id Hid. apply Hf. rewrite Hpn. right.
    apply in_or_app. left. now apply in_map. }
  assert (Hb : forallb (fun id => file_ok o img (BlobFile id)) (vd_blobs vd) = true).
  { apply forallb_forall. intros id Hid. apply Hf. rewrite Hpn. right.
    apply in_or_app. right. now apply in_map. }
  rewrite Ht, Hb. simpl negb. rewrite andb_false_r. cbv iota. simpl summary.
  destruct (idirs img Blobs) eqn:Eb; [reflexivity|].
  destruct (vd_blobs vd) as [|id bl] eqn:Ebl; [reflexivity|].
  exfalso. simpl in Hb. apply andb_true_iff in Hb as [Hb _].
  unfold file_ok, img_file in Hb. simpl dir_of in Hb. rewrite Eb in Hb. discriminate.
Qed.

Lemma inv_recover o s ps img :
  inv o s ps -> is_crash_image s img ->
  let '(dv, vv, _) := ps in
  summary (recover_dir o img) = osummary o dv \/ summary (recover_dir o img) = osummary o vv.
Proof.
  destruct ps as [[dv vv] pub]. intros (Hwf & Hcd & Hcv & Hpd & Hpv) Himg.
  pose proof Himg as (Hd & _ & He).
  assert (Hroot : idirs img Root = true) by (apply Hd; apply Hwf).
  assert (Hcur : img_file img Current = iget img Current)
    by (unfold img_file; simpl dir_of; now rewrite Hroot).
  (* it suffices to treat one binding [ns] that the image chose *)
  assert (Hgen : forall ov, pinned o s ov ->
            (match ov with
             | Some v => exists t, iget img Current = Some ([t], false) /\ current_points o t = Some v
             | None => iget img Current = None end) ->
            summary (recover_dir o img) = osummary o ov).
  { intros [v|] Hp Hi.
    - destruct Hi as (t & Hi & Ht). destruct Hp as [Hv Hp]. simpl. unfold vsummary.
      destruct (version_contents o v) as [vd|] eqn:Ev; [|congruence].
      apply (recover_pinned o img t [] false v vd); [now rewrite Hcur|assumption|assumption|].
      intros f Hf. eapply crash_file_stable; eauto.
    - simpl. unfold recover_dir. rewrite Hcur, Hi. reflexivity. }
  specialize (He Current). destruct (iget img Current) as [c|] eqn:Ec; simpl in He.
  - destruct He as (i & [Hi|Hi] & Hc).
    + left. apply Hgen; [assumption|]. destruct dv as [v|]; simpl in Hcd.
      * destruct Hcd as (i' & t & H1 & H2 & H3 & H4).
        assert (i' = i) as -> by congruence. rewrite H2, H3 in Hc.
        apply crash_contents_synced in Hc as ->. eauto.
      * congruence.
    + right. apply Hgen; [assumption|]. destruct vv as [v|]; simpl in Hcv.
      * destruct Hcv as (i' & t & H1 & H2 & H3 & H4).
        assert (i' = i) as -> by congruence. rewrite H2, H3 in Hc.
        apply crash_contents_synced in Hc as ->. eauto.
      * congruence.
  - destruct He as [Hn|Hn].
    + left. apply Hgen; [assumption|]. destruct dv as [v|]; simpl in Hcd; [|reflexivity].
      destruct Hcd as (i' & t & H1 & _). congruence.
    + right. apply Hgen; [assumption|]. destruct vv as [v|]; simpl in Hcv; [|reflexivity].
      destruct Hcv as (i' & t & H1 & _). congruence.
Qed.

(** * Frame lemmas: what an op leaves alone *)
Lemma wf_apply s op s' : apply s op = Some s' -> wf s -> wf s'.
Proof.
  intros Ha [Hr Hb]. destruct op; simpl in Ha.
  - inversion Ha; subst; clear Ha. split; simpl; auto.
  - destruct (negb (vdirs s (dir_of f))); [discriminate|].
    destruct (vns s f) as [i|] eqn:Ev.
    + destruct excl; [discriminate|]. inversion Ha; subst; clear Ha. split; simpl; auto.
    + inversion Ha; subst; clear Ha. split; simpl; auto.
      intros g i [H|H].
      * unfold upd_name in H. destruct (fname_eqb g f).
        -- inversion H; subst. lia.
        -- specialize (Hb g i (or_introl H)). lia.
      * specialize (Hb g i (or_intror H)). lia.
  - destruct (vns s f); [|discriminate]. inversion Ha; subst; clear Ha. split; simpl; auto.
  - destruct (vns s f); [|discriminate]. inversion Ha; subst; clear Ha. split; simpl; auto.
  - destruct (negb (vdirs s d)); [discriminate|]. inversion Ha; subst; clear Ha. split; simpl.
    + destruct (dname_eqb d Root); [now rewrite Hr|assumption].
    + intros g i [H|H]; [eauto|]. destruct (dname_eqb (dir_of g) d); eauto.
  - destruct (negb (dname_eqb (dir_of src) (dir_of dst))); [discriminate|].
    destruct (fname_eqb src dst).
    + destruct (vns s src); [|discriminate]. inversion Ha; subst. now split.
    + destruct (vns s src) as [i|] eqn:Ev; [|discriminate]. inversion Ha; subst; clear Ha.
      split; simpl; auto. intros g j [H|H]; [|eauto].
      unfold upd_name in H. destruct (fname_eqb g dst); [inversion H; subst; eauto|].
      destruct (fname_eqb g src); [discriminate|eauto].
  - destruct (vns s f) eqn:Ev; [|discriminate]. inversion Ha; subst; clear Ha.
    split; simpl; auto. intros g j [H|H]; [|eauto].
    unfold upd_name in H. destruct (fname_eqb g f); [discriminate|eauto].
Qed.

Definition untouched (f : fname) (op : fsop) : Prop :=
  forall g, In g (touched op) -> g <> f.

(** no volatile name other than [f] is bound to an inode of [f] *)
Definition noalias (s : fsstate) (f : fname) : Prop :=
  forall g j, g <> f -> vns s g = Some j -> vns s f <> Some j /\ dns s f <> Some j.

Lemma noalias_neq s f g j i :
  noalias s f -> g <> f -> vns s g = Some j -> vns s f = Some i \/ dns s f = Some i -> j <> i.
Proof.
  intros Hn Hg Hj Hi ->. destruct (Hn g i Hg Hj) as [H1 H2]. destruct Hi; contradiction.
Qed.

Record keeps (s s' : fsstate) (f : fname) (op : fsop) : Prop := {
  k_vns : vns s' f = vns s f;
  k_dns : dns s' f = dns s f \/ (op = FsyncDir (dir_of f) /\ dns s' f = vns s f);
  k_cont : forall i, vns s f = Some i \/ dns s f = Some i ->
                     vcont s' i = vcont s i /\ (dcont s i = vcont s i -> dcont s' i = dcont s i);
  k_dirs : forall d, ddirs s d = true -> ddirs s' d = true
}.

Lemma apply_keeps s op s' f :
  apply s op = Some s' -> wf s -> noalias s f -> untouched f op -> keeps s s' f op.
Proof.
  intros Ha [_ Hb] Hna Hu. destruct op; simpl in Ha.
  - inversion Ha; subst; clear Ha. split; simpl; auto.
  - pose proof (Hu f0 (or_introl eq_refl)) as Hne.
    destruct (negb (vdirs s (dir_of f0))); [discriminate|].
    destruct (vns s f0) as [j|] eqn:Ev.
    + destruct excl; [discriminate|]. inversion Ha; subst; clear Ha. split; simpl; auto.
      intros i Hi. pose proof (noalias_neq _ _ _ _ _ Hna Hne Ev Hi) as Hji.
      rewrite upd_cont_other by congruence. auto.
    + inversion Ha; subst; clear Ha. split; simpl; auto.
      * apply upd_name_other. congruence.
      * intros i Hi. assert (i < next_ino s) by (eapply Hb; eauto).
        rewrite !upd_cont_other by lia. auto.
  - pose proof (Hu f0 (or_introl eq_refl)) as Hne.
    destruct (vns s f0) as [j|] eqn:Ev; [|discriminate].
    inversion Ha; subst; clear Ha. split; simpl; auto.
    intros i Hi. pose proof (noalias_neq _ _ _ _ _ Hna Hne Ev Hi) as Hji.
    rewrite upd_cont_other by congruence. auto.
  - destruct (vns s f0) as [j|] eqn:Ev; [|discriminate].
    inversion Ha; subst; clear Ha. split; simpl; auto.
    intros i Hi. split; [reflexivity|]. intros E. unfold upd_cont.
    destruct (N.eqb i j) eqn:Eij; [apply N.eqb_eq in Eij; subst; auto|reflexivity].
  - destruct (negb (vdirs s d)); [discriminate|]. inversion Ha; subst; clear Ha.
    split; simpl; auto.
    + destruct (dname_eqb (dir_of f) d) eqn:Ed; [|now left].
      right. apply dname_eqb_eq in Ed. subst. auto.
    + intros e He. destruct (dname_eqb d Root); [now rewrite He|assumption].
  - pose proof (Hu src (or_introl eq_refl)) as Hne1.
    pose proof (Hu dst (or_intror (or_introl eq_refl))) as Hne2.
    destruct (negb (dname_eqb (dir_of src) (dir_of dst))); [discriminate|].
    destruct (fname_eqb src dst).
    + destruct (vns s src); [|discriminate]. inversion Ha; subst. split; auto.
    + destruct (vns s src) as [i|] eqn:Ev; [|discriminate]. inversion Ha; subst; clear Ha.
      split; simpl; auto.
      rewrite upd_name_other by congruence. apply upd_name_other. congruence.
  - pose proof (Hu f0 (or_introl eq_refl)) as Hne.
    destruct (vns s f0) eqn:Ev; [|discriminate]. inversion Ha; subst; clear Ha.
    split; simpl; auto. apply upd_name_other. congruence.
Qed.

(** injectivity of the volatile namespace is preserved by every op *)
Lemma vinj_apply s op s' : apply s op = Some s' -> wf s -> vinj s -> vinj s'.
Proof.
  intros Ha [_ Hb] Hi. destruct op; simpl in Ha.
  - inversion Ha; subst; exact Hi.
  - destruct (negb (vdirs s (dir_of f))); [discriminate|].
    destruct (vns s f) as [j|] eqn:Ev.
    + destruct excl; [discriminate|]. inversion Ha; subst; exact Hi.
    + inversion Ha; subst; clear Ha. intros a b i. simpl. unfold upd_name.
      destruct (fname_eqb a f) eqn:Ea, (fname_eqb b f) eqn:Eb; intros H1 H2.
      * apply fname_eqb_eq in Ea, Eb. congruence.
      * inversion H1; subst. specialize (Hb b _ (or_introl H2)). lia.
      * inversion H2; subst. specialize (Hb a _ (or_introl H1)). lia.
      * eapply Hi; eauto.
  - destruct (vns s f); [|discriminate]. inversion Ha; subst; exact Hi.
  - destruct (vns s f); [|discriminate]. inversion Ha; subst; exact Hi.
  - destruct (negb (vdirs s d)); [discriminate|]. inversion Ha; subst; exact Hi.
  - destruct (negb (dname_eqb (dir_of src) (dir_of dst))); [discriminate|].
    destruct (fname_eqb src dst) eqn:Esd.
    + destruct (vns s src); [|discriminate]. inversion Ha; subst; exact Hi.
    + destruct (vns s src) as [j|] eqn:Ev; [|discriminate]. inversion Ha; subst; clear Ha.
      intros a b i. simpl. unfold upd_name.
      destruct (fname_eqb a dst) eqn:Ea, (fname_eqb b dst) eqn:Eb; intros H1 H2.
      * apply fname_eqb_eq in Ea, Eb. congruence.
      * inversion H1; subst. destruct (fname_eqb b src) eqn:Ebs; [discriminate|].
        apply fname_eqb_neq in Ebs. exfalso. apply Ebs. eapply Hi; eauto.
      * inversion H2; subst. destruct (fname_eqb a src) eqn:Eas; [discriminate|].
        apply fname_eqb_neq in Eas. exfalso. apply Eas. eapply Hi; eauto.
      * destruct (fname_eqb a src); [discriminate|]. destruct (fname_eqb b src); [discriminate|].
        eapply Hi; eauto.
  - destruct (vns s f) eqn:Ev; [|discriminate]. inversion Ha; subst; clear Ha.
    intros a b i. simpl. unfold upd_name.
    destruct (fname_eqb a f); [discriminate|]. destruct (fname_eqb b f); [discriminate|].
    apply Hi.
Qed.

Lemma keeps_stable o s s' f op : keeps s s' f op -> stable o s f -> stable o s' f.
Proof.
  intros [Kv Kd Kc Kdir] Hs. apply stable_spec in Hs as (i & e & H1 & H2 & H3 & H4 & H5 & H6).
  apply stable_spec. exists i, e.
  destruct (Kc i (or_introl H2)) as [Kc1 Kc2].
  repeat split.
  - destruct Kd as [Kd|[_ Kd]]; congruence.
  - congruence.
  - rewrite Kc2; congruence.
  - congruence.
  - assumption.
  - auto.
Qed.

Lemma keeps_cur_vns o s s' op ov :
  keeps s s' Current op -> cur_points o s (vns s) ov -> cur_points o s' (vns s') ov.
Proof.
  intros [Kv Kd Kc Kdir]. destruct ov as [v|]; simpl.
  - intros (i & t & H1 & H2 & H3 & H4). exists i, t.
    destruct (Kc i (or_introl H1)) as [Kc1 Kc2].
    repeat split; try congruence. rewrite Kc2; congruence.
  - congruence.
Qed.

Lemma keeps_cur_dns o s s' op ov :
  keeps s s' Current op -> op <> FsyncDir Root ->
  cur_points o s (dns s) ov -> cur_points o s' (dns s') ov.
Proof.
  intros [Kv Kd Kc Kdir] Hop.
  assert (Kd' : dns s' Current = dns s Current).
  { destruct Kd as [Kd|[Kd _]]; [assumption|]. simpl in Kd. contradiction. }
  destruct ov as [v|]; simpl.
  - intros (i & t & H1 & H2 & H3 & H4). exists i, t.
    destruct (Kc i (or_intror H1)) as [Kc1 Kc2].
    repeat split; try congruence. rewrite Kc2; congruence.
  - congruence.
Qed.

Lemma cur_excl_apply s op s' :
  apply s op = Some s' -> wf s -> vinj s -> cur_excl s -> untouched Current op -> cur_excl s'.
Proof.
  intros Ha [_ Hb] Hi Hc Hu. destruct op; simpl in Ha.
  - inversion Ha; subst; exact Hc.
  - pose proof (Hu f (or_introl eq_refl)) as Hne.
    destruct (negb (vdirs s (dir_of f))); [discriminate|].
    destruct (vns s f) as [j|] eqn:Ev.
    + destruct excl; [discriminate|]. inversion Ha; subst; exact Hc.
    + inversion Ha; subst; clear Ha. intros g i. simpl. unfold upd_name.
      destruct (fname_eqb g f); intros H1 H2; [|eapply Hc; eauto].
      inversion H2; subst. specialize (Hb Current _ (or_intror H1)). lia.
  - destruct (vns s f); [|discriminate]. inversion Ha; subst; exact Hc.
  - destruct (vns s f); [|discriminate]. inversion Ha; subst; exact Hc.
  - destruct (negb (vdirs s d)); [discriminate|]. inversion Ha; subst; clear Ha.
    intros g i. simpl. destruct d; simpl; intros H1 H2; try (eapply Hc; now eauto).
    symmetry. eapply Hi; eauto.
  - pose proof (Hu src (or_introl eq_refl)) as Hne1.
    pose proof (Hu dst (or_intror (or_introl eq_refl))) as Hne2.
    destruct (negb (dname_eqb (dir_of src) (dir_of dst))); [discriminate|].
    destruct (fname_eqb src dst) eqn:Esd.
    + destruct (vns s src); [|discriminate]. inversion Ha; subst; exact Hc.
    + destruct (vns s src) as [j|] eqn:Ev; [|discriminate]. inversion Ha; subst; clear Ha.
      intros g i. simpl. unfold upd_name. intros H1.
      destruct (fname_eqb g dst).
      * intros H2; inversion H2; subst. exfalso. apply Hne1. eapply Hc; eauto.
      * destruct (fname_eqb g src); [discriminate|]. eapply Hc; eauto.
  - destruct (vns s f) eqn:Ev; [|discriminate]. inversion Ha; subst; clear Ha.
    intros g i. simpl. unfold upd_name. intros H1.
    destruct (fname_eqb g f); [discriminate|]. eapply Hc; eauto.
Qed.

Lemma safe_untouched P op f : safe_op P op = true -> In f P -> untouched f op.
Proof.
  unfold safe_op, safe_name. intros H Hf g Hg ->.
  rewrite forallb_forall in H. specialize (H f Hg).
  apply negb_true_iff in H.
  assert (existsb (fname_eqb f) P = true); [|congruence].
  apply existsb_exists. exists f. split; [assumption|apply fname_eqb_refl].
Qed.

Lemma noalias_stable o s f : vinj s -> stable o s f -> noalias s f.
Proof.
  intros Hi Hs g j Hg Hj. apply stable_spec in Hs as (i & e & H1 & H2 & _).
  assert (j <> i) by (intros ->; apply Hg; eapply Hi; eauto).
  split; congruence.
Qed.

Lemma noalias_current s : vinj s -> cur_excl s -> noalias s Current.
Proof.
  intros Hi Hc g j Hg Hj. split; intros H; apply Hg; [eapply Hi; eauto|eapply Hc; eauto].
Qed.

(** generic (non-publishing, non-root-fsync) step *)
Lemma inv_safe_step o s ps op s' :
  inv o s ps -> safe_op (protected o ps) op = true -> op <> FsyncDir Root ->
  apply s op = Some s' -> inv o s' ps.
Proof.
  destruct ps as [[dv vv] pub]. intros ((Hwf & Hvi & Hce) & Hcd & Hcv & Hpd & Hpv) Hsafe Hop Ha.
  assert (HKc : keeps s s' Current op).
  { eapply apply_keeps; eauto; [now apply noalias_current|].
    eapply safe_untouched; eauto. now left. }
  assert (HP : forall ov, (forall f, In f (opnames o ov) -> In f (protected o (dv, vv, pub))) ->
                          pinned o s ov -> pinned o s' ov).
  { intros [v|] Hin; simpl; [|trivial]. intros [Hv Hst]. split; [assumption|].
    intros f Hf. eapply keeps_stable; [|auto].
    eapply apply_keeps; eauto; [eapply noalias_stable; eauto|].
    eapply safe_untouched; eauto. }
  split; [|split; [|split; [|split]]].
  - split; [eapply wf_apply; eauto|]. split; [eapply vinj_apply; eauto|].
    eapply cur_excl_apply; eauto. eapply safe_untouched; eauto. now left.
  - eapply keeps_cur_dns; eauto.
  - eapply keeps_cur_vns; eauto.
  - apply HP; [|assumption]. intros f Hf. simpl. right. apply in_or_app. now left.
  - apply HP; [|assumption]. intros f Hf. simpl. right. apply in_or_app. now right.
Qed.

Lemma inv_fsync_root o s dv vv pub s' :
  inv o s (dv, vv, pub) -> apply s (FsyncDir Root) = Some s' -> inv o s' (vv, vv, pub).
Proof.
  intros ((Hwf & Hvi & Hce) & Hcd & Hcv & Hpd & Hpv) Ha.
  assert (Hun : forall f, untouched f (FsyncDir Root)) by (intros f g []).
  assert (HP : pinned o s' vv).
  { destruct vv as [v|]; simpl; [|trivial]. destruct Hpv as [Hv Hst]. split; [assumption|].
    intros f Hf. eapply keeps_stable; [|auto].
    eapply apply_keeps; eauto. eapply noalias_stable; eauto. }
  assert (HC : cur_points o s' (vns s') vv).
  { eapply keeps_cur_vns; eauto. eapply apply_keeps; eauto. now apply noalias_current. }
  split; [|split; [|split; [|split]]]; try assumption.
  - split; [eapply wf_apply; eauto|]. split; [eapply vinj_apply; eauto|].
    eapply cur_excl_apply; eauto.
  - (* the durable [current] is now the volatile one *)
    simpl in Ha. destruct (negb (vdirs s Root)); [discriminate|].
    inversion Ha; subst; clear Ha. simpl in *. exact HC.
Qed.

Lemma publish_ok_spec o s dv vv pub k v1 :
  publish_ok o s (dv, vv, pub) k = Some v1 ->
  pub = false /\ dv = vv /\ version_contents o v1 <> None /\
  (forall f, In f (pnames o v1) -> stable o s f) /\
  exists it t, vns s (TempFile k) = Some it /\ dcont s it = [t] /\ vcont s it = [t] /\
               current_points o t = Some v1.
Proof.
  unfold publish_ok. destruct pub; simpl; [discriminate|].
  destruct (opt_eqb dv vv) eqn:E; simpl; [|discriminate]. apply opt_eqb_eq in E.
  unfold cur_of. rewrite upd_name_same.
  destruct (vns s (TempFile k)) as [it|] eqn:Et; [|discriminate].
  destruct (vcont s it) as [|t [|]] eqn:Ev; try discriminate.
  destruct (list_eqb (dcont s it) [t]) eqn:Ed; [|discriminate]. apply list_eqb_eq in Ed.
  destruct (current_points o t) as [v|] eqn:Ec; [|discriminate].
  destruct (forallb (stableb o s) (pnames o v)) eqn:Es; simpl; [|discriminate].
  destruct (version_contents o v) eqn:Evc; [|discriminate].
  intros H; inversion H; subst. repeat split; auto; try congruence.
  - intros f Hf. rewrite forallb_forall in Es. now apply Es.
  - exists it, t. auto.
Qed.

Lemma pnames_not_special o v f :
  In f (pnames o v) -> f <> Current /\ forall k, f <> TempFile k.
Proof.
  unfold pnames. destruct (version_contents o v) as [vd|]; [|intros []].
  intros [<-|H]; [split; [|intros k]; discriminate|].
  apply in_app_or in H as [H|H]; apply in_map_iff in H as (x & <- & _);
    (split; [|intros k]; discriminate).
Qed.

Lemma inv_publish o s dv vv pub k v1 s' :
  inv o s (dv, vv, pub) -> publish_ok o s (dv, vv, pub) k = Some v1 ->
  apply s (Rename (TempFile k) Current) = Some s' -> inv o s' (dv, Some v1, true).
Proof.
  intros ((Hwf & Hvi & Hce) & Hcd & Hcv & Hpd & Hpv) Hp Ha.
  apply publish_ok_spec in Hp as (-> & <- & Hvc & Hst & it & t & Ht & Hd & Hv & Hc).
  assert (HP : forall ov, pinned o s ov -> pinned o s' ov).
  { intros [v|]; simpl; [|trivial]. intros [Hv' Hst']. split; [assumption|].
    intros f Hf. destruct (pnames_not_special _ _ _ Hf) as [H1 H2].
    eapply keeps_stable; [|auto]. eapply apply_keeps; eauto; [eapply noalias_stable; eauto|].
    intros g [<-|[<-|[]]]; auto. }
  pose proof (wf_apply _ _ _ Ha Hwf) as Hwf'.
  pose proof (vinj_apply _ _ _ Ha Hwf Hvi) as Hvi'.
  simpl in Ha. rewrite Ht in Ha. inversion Ha; subst; clear Ha.
  split; [|split; [|split; [|split]]].
  - split; [assumption|]. split; [assumption|].
    (* the old inode of [current] is no longer reachable *)
    intros g i. simpl. unfold upd_name. intros H1.
    destruct (fname_eqb g Current) eqn:Eg; [intros _; now apply fname_eqb_eq|].
    destruct (fname_eqb g (TempFile k)); [discriminate|]. intros H2.
    apply fname_eqb_neq in Eg. exfalso. apply Eg. eapply Hce; eauto.
  - destruct dv as [v|]; simpl in *; assumption.
  - simpl. exists it, t. rewrite upd_name_same. auto.
  - apply HP in Hpd. destruct dv; simpl in *; assumption.
  - assert (Hq : pinned o s (Some v1)) by (split; assumption).
    apply HP in Hq. simpl in *. assumption.
Qed.

Lemma step_inv o s ps op ps' s' :
  inv o s ps -> proto_step o s ps op = Some ps' -> apply s op = Some s' -> inv o s' ps'.
Proof.
  intros Hi Hs Ha. destruct ps as [[dv vv] pub].
  assert (Hgen : forall op0, op0 = op -> op0 <> FsyncDir Root ->
            (if safe_op (protected o (dv, vv, pub)) op0 then Some (dv, vv, pub) else None) = Some ps' ->
            inv o s' ps').
  { intros op0 -> Hne H.
    destruct (safe_op (protected o (dv, vv, pub)) op) eqn:E; [|discriminate].
    inversion H; subst. eapply inv_safe_step; eauto. }
  destruct op as [d|f e|f t|f|d|src dst|f]; unfold proto_step in Hs;
    try (apply (Hgen _ eq_refl); [discriminate|exact Hs]).
  - destruct d; try (apply (Hgen _ eq_refl); [discriminate|exact Hs]).
    inversion Hs; subst. eapply inv_fsync_root; eauto.
  - destruct src as [|a|a|a|k|a]; try (apply (Hgen _ eq_refl); [discriminate|exact Hs]).
    destruct dst; try (apply (Hgen _ eq_refl); [discriminate|exact Hs]).
    destruct (publish_ok o s (dv, vv, pub) k) as [v1|] eqn:Ep; [|discriminate].
    inversion Hs; subst. eapply inv_publish; eauto.
Qed.

(** * Runs *)
Lemma proto_run_app o s ps a b :
  proto_run o s ps (a ++ b) =
  match proto_run o s ps a with
  | Some (s1, ps1) => proto_run o s1 ps1 b
  | None => None
  end.
Proof.
  revert s ps; induction a as [|op a IH]; intros s ps; simpl; [reflexivity|].
  destruct (proto_step o s ps op); [|reflexivity].
  destruct (apply s op); [|reflexivity]. apply IH.
Qed.

Lemma proto_run_run o s ps tr sf psf :
  proto_run o s ps tr = Some (sf, psf) -> run_fs s tr = Some sf.
Proof.
  revert s ps; induction tr as [|op tr IH]; intros s ps; simpl.
  - intros H; inversion H; reflexivity.
  - destruct (proto_step o s ps op); [|discriminate].
    destruct (apply s op); [|discriminate]. apply IH.
Qed.

Lemma proto_run_inv o s ps tr sf psf :
  inv o s ps -> proto_run o s ps tr = Some (sf, psf) -> inv o sf psf.
Proof.
  revert s ps; induction tr as [|op tr IH]; intros s ps Hi; simpl.
  - intros H; inversion H; subst; assumption.
  - destruct (proto_step o s ps op) as [ps'|] eqn:Es; [|discriminate].
    destruct (apply s op) as [s'|] eqn:Ea; [|discriminate].
    apply IH. eapply step_inv; eauto.
Qed.

Lemma proto_step_shape o s dv vv pub op dv' vv' pub' :
  proto_step o s (dv, vv, pub) op = Some (dv', vv', pub') ->
  (pub' = pub /\ vv' = vv /\ (dv' = dv \/ dv' = vv)) \/
  (pub = false /\ pub' = true /\ dv = vv /\ dv' = dv /\ exists v1, vv' = Some v1).
Proof.
  intros Hs.
  Ltac use_gen := match goal with Hs : context [safe_op _ ?x], Hgen : _ |- _ => exact (Hgen x Hs) end.
  assert (Hgen : forall op0,
            (if safe_op (protected o (dv, vv, pub)) op0 then Some (dv, vv, pub) else None)
            = Some (dv', vv', pub') ->
            pub' = pub /\ vv' = vv /\ (dv' = dv \/ dv' = vv)).
  { intros op0 H. destruct (safe_op (protected o (dv, vv, pub)) op0); [|discriminate].
    inversion H; subst. auto. }
  destruct op as [d|f e|f t|f|d|src dst|f]; unfold proto_step in Hs;
    try (left; use_gen).
  - destruct d; try (left; use_gen).
    inversion Hs; subst. left. split; [reflexivity|split; [reflexivity|now right]].
  - destruct src as [|a|a|a|k|a]; try (left; use_gen).
    destruct dst; try (left; use_gen).
    destruct (publish_ok o s (dv, vv, pub) k) as [v1|] eqn:Ep; [|discriminate].
    inversion Hs; subst. apply publish_ok_spec in Ep as (-> & -> & _). right. eauto 10.
Qed.

(** protocol states reachable from [(ov, ov, false)] *)
Definition reach0 (ov : option N) (ps : pstate) : Prop :=
  let '(dv, vv, pub) := ps in
  if pub then (dv = ov \/ dv = vv) /\ (exists v1, vv = Some v1) else dv = ov /\ vv = ov.

Lemma proto_run_reach0 o ov s ps tr sf psf :
  reach0 ov ps -> proto_run o s ps tr = Some (sf, psf) -> reach0 ov psf.
Proof.
  revert s ps; induction tr as [|op tr IH]; intros s ps Hr; simpl.
  - intros H; inversion H; subst; assumption.
  - destruct (proto_step o s ps op) as [ps'|] eqn:Es; [|discriminate].
    destruct (apply s op) as [s'|] eqn:Ea; [|discriminate].
    apply IH. destruct ps as [[dv vv] pub], ps' as [[dv' vv'] pub'].
    apply proto_step_shape in Es as [(E1 & E2 & Hd)|(E1 & E2 & E3 & E4 & v1 & E5)]; subst; simpl in *.
    + destruct pub.
      * destruct Hr as [Hr Hv]. split; [|assumption].
        destruct Hd as [E| E]; subst; [assumption|now right].
      * destruct Hr as [E1 E2]; subst. destruct Hd as [E| E]; subst; auto.
    + destruct Hr as [E _]; subst. split; [now left|eauto].
Qed.

Lemma proto_run_published o s dv vv tr sf dvf vvf pubf :
  proto_run o s (dv, vv, true) tr = Some (sf, (dvf, vvf, pubf)) -> vvf = vv /\ pubf = true.
Proof.
  revert s dv; induction tr as [|op tr IH]; intros s dv; cbn [proto_run].
  - intros H; inversion H; subst; auto.
  - destruct (proto_step o s (dv, vv, true) op) as [[[dv' vv'] pub']|] eqn:Es; [|discriminate].
    destruct (apply s op) as [s'|] eqn:Ea; [|discriminate].
    apply proto_step_shape in Es as [(E1 & E2 & Hd)|(? & _)]; [|discriminate].
    subst. apply IH.
Qed.

Lemma durable_is_crash_image s : is_crash_image s (durable_image s).
Proof.
  split; [|split]; simpl; auto.
  intros f. unfold entry_ok. destruct (dns s f) as [i|] eqn:E; [|now left].
  exists i. split; [now left|apply crash_contents_durable].
Qed.

Lemma cur_points_cur_of o s ns ov : cur_points o s ns ov -> cur_of o s ns = Some ov.
Proof.
  unfold cur_of. destruct ov as [v|]; simpl.
  - intros (i & t & -> & Hd & -> & Hc). rewrite Hd, Hc. simpl. now rewrite N.eqb_refl.
  - intros ->. reflexivity.
Qed.

Lemma osummary_not_failed o s ov : pinned o s ov -> osummary o ov <> SFailed.
Proof.
  destruct ov as [v|]; simpl; [|discriminate]. intros [Hv _]. unfold vsummary.
  destruct (version_contents o v); [discriminate|congruence].
Qed.

(** * Main results *)
Lemma inv_recover_durable o s ov pub :
  inv o s (ov, ov, pub) -> summary (recover_result_of o s) = osummary o ov.
Proof.
  intros Hi. pose proof (inv_recover o s _ (durable_image s) Hi (durable_is_crash_image s)) as H.
  simpl in H. unfold recover_result_of. tauto.
Qed.

Lemma crash_atomic_core o s ov tr sf dvf vvf pubf :
  inv o s (ov, ov, false) ->
  proto_run o s (ov, ov, false) tr = Some (sf, (dvf, vvf, pubf)) -> dvf = vvf ->
  summary (recover_result_of o s) = osummary o ov /\
  summary (recover_result_of o sf) = osummary o vvf /\
  inv o sf (vvf, vvf, pubf) /\
  forall n sn img,
    run_fs s (firstn n tr) = Some sn -> is_crash_image sn img ->
    (summary (recover_dir o img) = osummary o ov \/
     summary (recover_dir o img) = osummary o vvf) /\
    (length tr <= n -> summary (recover_dir o img) = osummary o vvf)%nat /\
    summary (recover_dir o img) <> SFailed /\
    exists dvn vvn pubn, inv o sn (dvn, vvn, pubn) /\ (dvn = ov \/ dvn = vvf).
Proof.
  intros Hi Hrun ->.
  pose proof (proto_run_inv _ _ _ _ _ _ Hi Hrun) as Hif.
  split; [eapply inv_recover_durable; eauto|].
  split; [eapply inv_recover_durable; eauto|].
  split; [assumption|].
  intros n sn img Hn Himg.
  rewrite <- (firstn_skipn n tr) in Hrun. rewrite proto_run_app in Hrun.
  destruct (proto_run o s (ov, ov, false) (firstn n tr)) as [[sn' psn]|] eqn:En; [|discriminate].
  pose proof (proto_run_run _ _ _ _ _ _ En) as Hr. rewrite Hr in Hn. inversion Hn; subst sn'.
  pose proof (proto_run_inv _ _ _ _ _ _ Hi En) as Hin.
  assert (Hreach : reach0 ov psn) by (eapply proto_run_reach0; [|exact En]; simpl; auto).
  pose proof (inv_recover o sn psn img Hin Himg) as Hrec.
  destruct psn as [[dvn vvn] pubn].
  assert (Hcases : summary (recover_dir o img) = osummary o ov \/
                   summary (recover_dir o img) = osummary o vvf).
  { simpl in Hreach. destruct pubn.
    - apply proto_run_published in Hrun as [-> _].
      destruct Hreach as [[->| ->] _]; tauto.
    - destruct Hreach as [-> ->]. tauto. }
  split; [exact Hcases|]. split; [|split].
  - intros Hlen. rewrite firstn_all2 in En by lia.
    rewrite skipn_all2 in Hrun by lia. simpl in Hrun. inversion Hrun; subst. tauto.
  - destruct Hin as (_ & _ & _ & Hpd & Hpv).
    destruct Hrec as [->| ->]; eapply osummary_not_failed; eauto.
  - exists dvn, vvn, pubn. split; [assumption|].
    simpl in Hreach. destruct pubn.
    + apply proto_run_published in Hrun as [-> _]. tauto.
    + destruct Hreach as [-> _]. now left.
Qed.

(** [before] = what recovery returns on the durable state of [s]; [after] = same for
    the final state.  A crash at ANY point of a protocol-conforming trace (after any
    number [n] of its ops, in ANY crash image: any subset of the pending directory
    updates, any torn/partial unsynced content) recovers to exactly [before] or
    [after] (version id, table ids, blob file ids), never fails, never a mixture; and
    once the whole trace has run, only [after] is possible.  (Results are compared by
    [summary], i.e. ignoring which orphans recovery deleted.) *)
Theorem crash_atomic_generic o s tr :
  disk_consistent o s -> protocol_ok o s tr = true ->
  exists sf, run_fs s tr = Some sf /\ disk_consistent o sf /\
  forall n sn img,
    run_fs s (firstn n tr) = Some sn -> is_crash_image sn img ->
    (summary (recover_dir o img) = summary (recover_result_of o s) \/
     summary (recover_dir o img) = summary (recover_result_of o sf)) /\
    (length tr <= n -> summary (recover_dir o img) = summary (recover_result_of o sf))%nat /\
    summary (recover_dir o img) <> SFailed /\ summary (recover_dir o img) <> SFresh.
Proof.
  intros [v Hd] Hp. unfold disk_ok in Hd.
  pose proof Hd as (_ & Hcd & Hcv & _).
  unfold protocol_ok in Hp.
  rewrite (cur_points_cur_of _ _ _ _ Hcd), (cur_points_cur_of _ _ _ _ Hcv) in Hp.
  apply andb_true_iff in Hp as [_ Hp].
  destruct (proto_run o s (Some v, Some v, false) tr) as [[sf [[dvf vvf] pubf]]|] eqn:Er;
    [|discriminate].
  apply opt_eqb_eq in Hp.
  destruct (crash_atomic_core _ _ _ _ _ _ _ _ Hd Er Hp) as (Hb & Ha & Hif & Hall).
  assert (Hvvf : exists v', vvf = Some v').
  { assert (Hr0 : reach0 (Some v) (Some v, Some v, false)) by (simpl; auto).
    pose proof (proto_run_reach0 o (Some v) _ _ _ _ _ Hr0 Er) as Hr.
    simpl in Hr. subst dvf. destruct pubf.
    - apply Hr.
    - destruct Hr as [_ E]. eauto. }
  destruct Hvvf as [v' ->].
  exists sf. split; [eapply proto_run_run; eauto|]. split.
  { exists v'. unfold disk_ok. destruct Hif as (H1 & H2 & H3 & H4 & H5).
    repeat (split; try assumption). }
  intros n sn img Hn Himg.
  destruct (Hall n sn img Hn Himg) as (H1 & H2 & H3 & _).
  rewrite Hb, Ha. repeat split; try assumption.
  assert (Hnf : forall w, pinned o s (Some w) \/ pinned o sf (Some w) -> osummary o (Some w) <> SFresh).
  { intros w Hw. simpl. unfold vsummary. destruct (version_contents o w); discriminate. }
  destruct H1 as [->| ->]; apply Hnf; [left; apply Hd|right; apply Hif].
Qed.

(** * Establishing [disk_ok] for concrete states *)
Lemma wf_init : wf fs_init.
Proof. split; [reflexivity|]. intros f i [H|H]; discriminate. Qed.

Lemma vinj_init : vinj fs_init.
Proof. intros f g i H; discriminate. Qed.

Lemma run_fs_wf s tr s' : run_fs s tr = Some s' -> wf s -> vinj s -> wf s' /\ vinj s'.
Proof.
  revert s; induction tr as [|op tr IH]; intros s; simpl.
  - intros H; inversion H; subst; auto.
  - destruct (apply s op) as [s1|] eqn:Ea; [|discriminate].
    intros H Hw Hv. apply (IH s1 H); [eapply wf_apply|eapply vinj_apply]; eauto.
Qed.

Lemma run_fs_init_wf tr s : run_fs fs_init tr = Some s -> wf s /\ vinj s.
Proof. intros H. eapply run_fs_wf; eauto using wf_init, vinj_init. Qed.

Lemma cur_of_points o s ns ov : cur_of o s ns = Some ov -> cur_points o s ns ov.
Proof.
  unfold cur_of. destruct (ns Current) as [i|] eqn:E.
  - destruct (vcont s i) as [|t [|]] eqn:Ev; try discriminate.
    destruct (list_eqb (dcont s i) [t]) eqn:Ed; [|discriminate]. apply list_eqb_eq in Ed.
    destruct (current_points o t) as [v|] eqn:Ec; [|discriminate].
    intros H; inversion H; subst. simpl. exists i, t. auto.
  - intros H; inversion H; subst. exact E.
Qed.

Lemma disk_okb_sound o s ov : wf s -> vinj s -> disk_okb o s ov = true -> disk_ok o s ov.
Proof.
  intros Hw Hv H. unfold disk_okb in H. apply andb_true_iff in H as [H H3].
  apply andb_true_iff in H as [H1 H2]. apply opt_eqb_eq in H1.
  destruct (cur_of o s (dns s)) as [ov'|] eqn:Ec; [|discriminate].
  apply opt_eqb_eq in H2. subst ov'.
  assert (Hp : pinned o s ov).
  { destruct ov as [v|]; simpl; [|trivial]. apply andb_true_iff in H3 as [H3 H4].
    split; [destruct (version_contents o v); congruence|].
    intros f Hf. rewrite forallb_forall in H4. now apply H4. }
  unfold disk_ok, inv. split; [|split; [|split; [|split]]]; auto.
  - split; [assumption|]. split; [assumption|].
    intros g i Hd Hg. rewrite H1 in Hd. eapply Hv; eauto.
  - now apply cur_of_points.
  - apply cur_of_points. unfold cur_of in *. now rewrite <- H1.
Qed.

(** the same theorem from an arbitrary start, including the empty folder
    ([ov = None]: recovery = [Fresh], i.e. the create_new path) *)
Theorem crash_atomic_from o s ov tr :
  disk_ok o s ov -> protocol_ok o s tr = true ->
  exists sf ovf, run_fs s tr = Some sf /\ disk_ok o sf ovf /\
  summary (recover_result_of o s) = osummary o ov /\
  summary (recover_result_of o sf) = osummary o ovf /\
  forall n sn img,
    run_fs s (firstn n tr) = Some sn -> is_crash_image sn img ->
    (summary (recover_dir o img) = osummary o ov \/ summary (recover_dir o img) = osummary o ovf) /\
    (length tr <= n -> summary (recover_dir o img) = osummary o ovf)%nat /\
    summary (recover_dir o img) <> SFailed.
Proof.
  intros Hd Hp. unfold disk_ok in Hd. pose proof Hd as (_ & Hcd & Hcv & _).
  unfold protocol_ok in Hp.
  rewrite (cur_points_cur_of _ _ _ _ Hcd), (cur_points_cur_of _ _ _ _ Hcv) in Hp.
  apply andb_true_iff in Hp as [_ Hp].
  destruct (proto_run o s (ov, ov, false) tr) as [[sf [[dvf vvf] pubf]]|] eqn:Er; [|discriminate].
  apply opt_eqb_eq in Hp.
  destruct (crash_atomic_core _ _ _ _ _ _ _ _ Hd Er Hp) as (Hb & Ha & Hif & Hall).
  exists sf, vvf. split; [eapply proto_run_run; eauto|]. split.
  { unfold disk_ok. destruct Hif as (H1 & H2 & H3 & H4 & H5). repeat (split; try assumption). }
  split; [assumption|]. split; [assumption|].
  intros n sn img Hn Hi. destruct (Hall n sn img Hn Hi) as (H1 & H2 & H3 & _). auto.
Qed.

(** * Failure atomicity (C16): an op of the trace fails with an I/O error after [n]
    ops; the process continues, there is NO crash *)

(** [f] is still there, untruncated and complete, for the running process *)
Definition intact (o : oracle) (s : fsstate) (f : fname) : Prop :=
  exists i e, vns s f = Some i /\ vcont s i = e /\ expected o f = Some e.

Lemma stable_intact o s f : stable o s f -> intact o s f.
Proof.
  intros H. apply stable_spec in H as (i & e & H1 & H2 & H3 & H4 & H5 & H6).
  exists i, e. auto.
Qed.

(** the version [v] is durably published and all its files are intact *)
Definition published (o : oracle) (s : fsstate) (v : N) : Prop :=
  cur_points o s (dns s) (Some v) /\ forall f, In f (pnames o v) -> intact o s f.

Theorem fail_atomic o s tr vb :
  disk_ok o s (Some vb) -> protocol_ok o s tr = true ->
  exists sf va, run_fs s tr = Some sf /\ disk_ok o sf (Some va) /\
  forall n sn, run_fs s (firstn n tr) = Some sn ->
    (* the durable state is before-or-after *)
    (summary (recover_result_of o sn) = summary (recover_result_of o s) \/
     summary (recover_result_of o sn) = summary (recover_result_of o sf)) /\
    (* and the durably current version (old or new) has lost no file: nothing it names
       has been unlinked, renamed away or truncated *)
    (published o sn vb \/ published o sn va).
Proof.
  intros Hd Hp. unfold disk_ok in Hd.
  pose proof Hd as (_ & Hcd & Hcv & _).
  unfold protocol_ok in Hp.
  rewrite (cur_points_cur_of _ _ _ _ Hcd), (cur_points_cur_of _ _ _ _ Hcv) in Hp.
  apply andb_true_iff in Hp as [_ Hp].
  destruct (proto_run o s (Some vb, Some vb, false) tr) as [[sf [[dvf vvf] pubf]]|] eqn:Er;
    [|discriminate].
  apply opt_eqb_eq in Hp.
  destruct (crash_atomic_core _ _ _ _ _ _ _ _ Hd Er Hp) as (Hb & Ha & Hif & Hall).
  assert (Hvvf : exists v', vvf = Some v').
  { assert (Hr0 : reach0 (Some vb) (Some vb, Some vb, false)) by (simpl; auto).
    pose proof (proto_run_reach0 o (Some vb) _ _ _ _ _ Hr0 Er) as Hr.
    simpl in Hr. subst dvf. destruct pubf.
    - apply Hr.
    - destruct Hr as [_ E]. eauto. }
  destruct Hvvf as [va ->].
  exists sf, va. split; [eapply proto_run_run; eauto|]. split.
  { unfold disk_ok. destruct Hif as (H1 & H2 & H3 & H4 & H5).
    repeat (split; try assumption). }
  intros n sn Hn.
  destruct (Hall n sn (durable_image sn) Hn (durable_is_crash_image sn))
    as (H1 & _ & _ & dvn & vvn & pubn & Hin & Hdv).
  split.
  - unfold recover_result_of at 1 3. rewrite Hb, Ha. exact H1.
  - destruct Hin as (_ & Hcdn & _ & Hpdn & _).
    destruct Hdv as [->| ->]; [left|right]; (split; [assumption|]);
      intros f Hf; apply stable_intact; apply Hpdn; exact Hf.
Qed.

(** * The enumeration [crash_images] is sound and complete w.r.t. [is_crash_image] *)
Definition names_ok (s : fsstate) : Prop :=
  forall f, ~ In f (names s) -> dns s f = None /\ vns s f = None.

Lemma add_name_in f g l : In g (add_name f l) <-> g = f \/ In g l.
Proof.
  unfold add_name. destruct (existsb (fname_eqb f) l) eqn:E.
  - split; [auto|]. intros [->|H]; [|assumption].
    apply existsb_exists in E as (x & Hx & Ex). apply fname_eqb_eq in Ex. now subst.
  - simpl. split; intros [H|H]; auto.
Qed.

Lemma names_ok_init : names_ok fs_init.
Proof. intros f _. split; reflexivity. Qed.

Lemma names_ok_apply s op s' : apply s op = Some s' -> names_ok s -> names_ok s'.
Proof.
  intros Ha Hn. destruct op; simpl in Ha.
  - inversion Ha; subst; exact Hn.
  - destruct (negb (vdirs s (dir_of f))); [discriminate|].
    destruct (vns s f) as [j|] eqn:Ev.
    + destruct excl; [discriminate|]. inversion Ha; subst; exact Hn.
    + inversion Ha; subst; clear Ha. intros g Hg. simpl in *.
      rewrite add_name_in in Hg. destruct (Hn g) as [H1 H2]; [tauto|].
      split; [assumption|]. rewrite upd_name_other; [assumption|]. intros ->. tauto.
  - destruct (vns s f); [|discriminate]. inversion Ha; subst; exact Hn.
  - destruct (vns s f); [|discriminate]. inversion Ha; subst; exact Hn.
  - destruct (negb (vdirs s d)); [discriminate|]. inversion Ha; subst; clear Ha.
    intros g Hg. simpl in *. destruct (Hn g Hg) as [H1 H2].
    split; [|assumption]. now destruct (dname_eqb (dir_of g) d).
  - destruct (negb (dname_eqb (dir_of src) (dir_of dst))); [discriminate|].
    destruct (fname_eqb src dst).
    + destruct (vns s src); [|discriminate]. inversion Ha; subst; exact Hn.
    + destruct (vns s src) as [j|] eqn:Ev; [|discriminate]. inversion Ha; subst; clear Ha.
      intros g Hg. simpl in *. rewrite add_name_in in Hg.
      destruct (Hn g) as [H1 H2]; [tauto|]. split; [assumption|].
      rewrite upd_name_other by (intros ->; tauto).
      unfold upd_name. now destruct (fname_eqb g src).
  - destruct (vns s f) eqn:Ev; [|discriminate]. inversion Ha; subst; clear Ha.
    intros g Hg. simpl in *. destruct (Hn g Hg) as [H1 H2]. split; [assumption|].
    unfold upd_name. now destruct (fname_eqb g f).
Qed.

Lemma run_fs_names_ok s tr s' : run_fs s tr = Some s' -> names_ok s -> names_ok s'.
Proof.
  revert s; induction tr as [|op tr IH]; intros s; simpl.
  - intros H; inversion H; subst; auto.
  - destruct (apply s op) as [s1|] eqn:Ea; [|discriminate].
    intros H Hn. apply (IH s1 H). eapply names_ok_apply; eauto.
Qed.

Lemma entry_cands_spec s f c : In c (entry_cands s f) <-> entry_ok s f c.
Proof.
  unfold entry_cands, entry_ok. cbv zeta.
  set (of_ino := fun o0 : option N => match o0 with
        | Some i => map Some (crash_contents (dcont s i) (vcont s i)) | None => [None] end).
  assert (Hof : forall o0, In c (of_ino o0) <->
            match c with
            | None => o0 = None
            | Some cc => exists i, o0 = Some i /\ In cc (crash_contents (dcont s i) (vcont s i))
            end).
  { intros [i|]; unfold of_ino.
    - rewrite in_map_iff. destruct c as [cc|].
      + split; [intros (x & E & Hx); inversion E; subst; eauto|].
        intros (j & E & Hx); inversion E; subst. eauto.
      + split; [intros (x & E & _); discriminate|discriminate].
    - simpl. destruct c; split; try tauto; try (intros [H|[]]; congruence).
      intros (k & E & _); discriminate. }
  assert (Hboth : In c (of_ino (dns s f) ++ of_ino (vns s f)) <->
            match c with
            | None => dns s f = None \/ vns s f = None
            | Some c0 => exists i, (dns s f = Some i \/ vns s f = Some i) /\
                                   In c0 (crash_contents (dcont s i) (vcont s i))
            end).
  { rewrite in_app_iff. rewrite (Hof (dns s f)), (Hof (vns s f)). destruct c as [cc|]; [|tauto].
    split.
    - intros [(i & E & H)|(i & E & H)]; eauto.
    - intros (i & [E|E] & H); eauto. }
  destruct (dns s f) as [i|] eqn:Ed, (vns s f) as [j|] eqn:Ev; try exact Hboth.
  - cbv iota beta. destruct (N.eqb i j) eqn:E; [|exact Hboth]. apply N.eqb_eq in E; subst j.
    cbv iota beta. etransitivity; [exact (Hof (Some i))|]. destruct c as [cc|].
    + split; [intros (k & E & H); eauto|]. intros (k & [E|E] & H); eauto.
    + split; [discriminate|intros [H|H]; discriminate].
  - cbv iota beta. etransitivity; [exact (Hof None)|]. destruct c as [cc|]; [|tauto].
    split; [intros (k & E & _); discriminate|]. intros (k & [E|E] & _); discriminate.
Qed.

Lemma all_choices_sound {A} (F : fname -> list (option A)) ns ch :
  In ch (all_choices (map (fun f => (f, F f)) ns)) ->
  forall f, (In f ns -> In (alookup ch f) (F f)) /\ (~ In f ns -> alookup ch f = None).
Proof.
  revert ch; induction ns as [|g ns IH]; intros ch; simpl.
  - intros [<-|[]] f. split; [intros []|reflexivity].
  - intros H. apply in_flat_map in H as (c & Hc & H).
    apply in_map_iff in H as (ch' & <- & Hch'). specialize (IH ch' Hch').
    intros f. simpl. destruct (fname_eqb f g) eqn:E.
    + apply fname_eqb_eq in E; subst. split; [intros _; exact Hc|]. intros H; exfalso; auto.
    + apply fname_eqb_neq in E. destruct (IH f) as [H1 H2]. split.
      * intros [->|H]; [contradiction|auto].
      * intros H. apply H2. tauto.
Qed.

Lemma all_choices_complete {A} (F : fname -> list (option A)) (G : fname -> option A) ns :
  (forall f, In f ns -> In (G f) (F f)) ->
  In (map (fun f => (f, G f)) ns) (all_choices (map (fun f => (f, F f)) ns)).
Proof.
  induction ns as [|g ns IH]; intros H; simpl; [now left|].
  apply in_flat_map. exists (G g). split; [apply H; now left|].
  apply in_map. apply IH. intros f Hf. apply H. now right.
Qed.

Lemma alookup_map {A} (G : fname -> option A) ns f :
  alookup (map (fun f => (f, G f)) ns) f = if existsb (fname_eqb f) ns then G f else None.
Proof.
  induction ns as [|g ns IH]; simpl; [reflexivity|].
  destruct (fname_eqb f g) eqn:E; simpl; [|exact IH].
  apply fname_eqb_eq in E. now subst.
Qed.

Lemma dir_cands_spec s d b :
  In b (dir_cands s d) <->
  (ddirs s d = true -> b = true) /\ (b = true -> ddirs s d = true \/ vdirs s d = true).
Proof.
  unfold dir_cands. destruct (ddirs s d), (vdirs s d), b; simpl; intuition congruence.
Qed.

Theorem crash_images_sound s img :
  wf s -> names_ok s -> In img (crash_images s) -> is_crash_image s img.
Proof.
  intros [Hr _] Hn H. unfold crash_images in H.
  apply in_flat_map in H as (dt & Hdt & H). apply in_flat_map in H as (db & Hdb & H).
  apply in_map_iff in H as (ch & <- & Hch).
  apply dir_cands_spec in Hdt as [Ht1 Ht2]. apply dir_cands_spec in Hdb as [Hb1 Hb2].
  split; [|split]; simpl.
  - intros [] Hd; auto.
  - intros [] Hd; auto.
  - intros f. destruct (all_choices_sound _ _ _ Hch f) as [H1 H2].
    destruct (in_dec fname_eq_dec f (names s)) as [Hin|Hin].
    + apply entry_cands_spec. auto.
    + rewrite (H2 Hin). simpl. left. apply Hn. assumption.
Qed.

(** every crash image is (extensionally) enumerated *)
Theorem crash_images_complete s img :
  wf s -> names_ok s -> is_crash_image s img ->
  exists img', In img' (crash_images s) /\
               (forall d, idirs img' d = idirs img d) /\ (forall f, iget img' f = iget img f).
Proof.
  intros [Hr _] Hn (Hd1 & Hd2 & He).
  exists (mkImage (fun d => match d with Root => true | Tables => idirs img Tables
                                      | Blobs => idirs img Blobs end)
                  (alookup (map (fun f => (f, iget img f)) (names s))) (names s)).
  split; [|split]; simpl.
  - unfold crash_images. apply in_flat_map. exists (idirs img Tables).
    split; [apply dir_cands_spec; auto|].
    apply in_flat_map. exists (idirs img Blobs). split; [apply dir_cands_spec; auto|].
    apply in_map_iff. eexists. split; [reflexivity|].
    apply (all_choices_complete (entry_cands s) (iget img)).
    intros f _. apply entry_cands_spec. apply He.
  - intros []; auto. symmetry. auto.
  - intros f. rewrite alookup_map. destruct (existsb (fname_eqb f) (names s)) eqn:E; [reflexivity|].
    assert (Hnin : ~ In f (names s)).
    { intros Hin. assert (existsb (fname_eqb f) (names s) = true); [|congruence].
      apply existsb_exists. exists f. split; [assumption|apply fname_eqb_refl]. }
    destruct (Hn f Hnin) as [H1 H2]. specialize (He f).
    destruct (iget img f) as [c|]; [|reflexivity]. simpl in He.
    destruct He as (i & [E'|E'] & _); congruence.
Qed.

Lemma forallb_ext' {A} (f g : A -> bool) l : (forall x, f x = g x) -> forallb f l = forallb g l.
Proof. intros H. induction l; simpl; [reflexivity|]. now rewrite H, IHl. Qed.

(** recovery only looks at [idirs] and [iget] (the listing only affects [deleted]) *)
Lemma recover_ext o a b :
  (forall d, idirs a d = idirs b d) -> (forall f, iget a f = iget b f) ->
  summary (recover_dir o a) = summary (recover_dir o b).
Proof.
  intros Hd Hg.
  assert (Hf : forall f, img_file a f = img_file b f)
    by (intros f; unfold img_file; now rewrite Hd, Hg).
  assert (Hok : forall f, file_ok o a f = file_ok o b f)
    by (intros f; unfold file_ok; now rewrite Hf).
  unfold recover_dir. rewrite Hf.
  destruct (img_file b Current) as [[[|t r] tn]|]; try reflexivity.
  destruct (current_points o t) as [v|]; [|reflexivity].
  rewrite Hok. destruct (file_ok o b (VersionFile v)); [|reflexivity]. simpl negb. cbv iota.
  destruct (version_contents o v) as [vd|]; [|reflexivity].
  rewrite (forallb_ext' _ (fun id => file_ok o b (TableFile id))) by (intros; apply Hok).
  destruct (forallb _ (vd_tables vd)); [|reflexivity]. simpl negb. cbv iota.
  rewrite Hd.
  rewrite (forallb_ext' _ (fun id => file_ok o b (BlobFile id))) by (intros; apply Hok).
  destruct (idirs b Blobs && negb (forallb _ (vd_blobs vd))); reflexivity.
Qed.

(** hence the enumerating checker covers every crash image *)
Corollary crash_images_cover o s (P : rsummary -> Prop) :
  wf s -> names_ok s ->
  (forall img', In img' (crash_images s) -> P (summary (recover_dir o img'))) ->
  forall img, is_crash_image s img -> P (summary (recover_dir o img)).
Proof.
  intros Hw Hn H img Hi.
  destruct (crash_images_complete s img Hw Hn Hi) as (img' & Hin & Hd & Hg).
  rewrite <- (recover_ext o img' img Hd Hg). auto.
Qed.

(** * Reclamation (C20): what is left after recovery's cleanup *)
Definition cleanup_image (img : image) (del : list fname) : image :=
  mkImage (idirs img)
          (fun f => if existsb (fname_eqb f) del then None else iget img f)
          (inames img).

Lemma memN_spec x l : memN x l = true <-> In x l.
Proof.
  unfold memN. rewrite existsb_exists. split.
  - intros (y & Hy & E). apply N.eqb_eq in E. now subst.
  - intros H. exists x. split; [assumption|apply N.eqb_refl].
Qed.

Lemma in_del_hidden img del f :
  In f del -> img_file (cleanup_image img del) f = None.
Proof.
  intros H. unfold img_file, cleanup_image. simpl.
  destruct (idirs img (dir_of f)); [|reflexivity].
  assert (E : existsb (fname_eqb f) del = true).
  { apply existsb_exists. exists f. split; [assumption|apply fname_eqb_refl]. }
  now rewrite E.
Qed.

Lemma cleanup_file_some img del f :
  img_file (cleanup_image img del) f <> None -> img_file img f <> None.
Proof.
  unfold img_file, cleanup_image. simpl.
  destruct (idirs img (dir_of f)); [|auto].
  destruct (existsb (fname_eqb f) del); auto.
Qed.

(** After [trace_recover_cleanup] the directory contains only: [current], the current
    [v<id>], the listed tables and blob files - and whatever temp files ([.tmp*] of
    an interrupted [rewrite_atomic]) and foreign files were there: those are NEVER
    removed by the crate (tree/mod.rs:1188 only matches names starting with 'v'). *)
Theorem reclaim_exact o img vid ts bs del :
  recover_dir o img = Recovered vid ts bs del ->
  forall f, In f (inames img) -> img_file (cleanup_image img del) f <> None ->
    f = Current \/ f = VersionFile vid \/
    (exists id, f = TableFile id /\ In id ts) \/
    (exists id, f = BlobFile id /\ In id bs) \/
    (exists k, f = TempFile k) \/ (exists k, f = Other k).
Proof.
  unfold recover_dir.
  destruct (img_file img Current) as [[[|t r] tn]|]; try discriminate.
  destruct (current_points o t) as [v|]; [|discriminate].
  destruct (negb (file_ok o img (VersionFile v))); [discriminate|].
  destruct (version_contents o v) as [vd|]; [|discriminate].
  destruct (negb (forallb _ (vd_tables vd))); [discriminate|].
  destruct (idirs img Blobs && negb (forallb _ (vd_blobs vd))); [discriminate|].
  intros H; inversion H; subst; clear H. intros f Hin Hf.
  pose proof (cleanup_file_some _ _ _ Hf) as Hf0.
  assert (Hlist : forall d, dir_of f = d -> In f (listing img d)).
  { intros d Hd. unfold listing. apply filter_In. split; [assumption|].
    rewrite Hd, dname_eqb_refl. simpl. destruct (img_file img f); [reflexivity|congruence]. }
  destruct f as [|id|id|id|k|k];
    [now left| | | |right; right; right; right; left; now exists k
    |right; right; right; right; right; now exists k].
  - (* version file *)
    destruct (N.eqb id vid) eqn:E; [apply N.eqb_eq in E; subst; auto|].
    exfalso. apply Hf. apply in_del_hidden. apply in_or_app. left.
    apply filter_In. split; [now apply Hlist|]. now rewrite E.
  - (* table *)
    destruct (memN id (vd_tables vd)) eqn:E; [apply memN_spec in E; eauto 10|].
    exfalso. apply Hf. apply in_del_hidden. apply in_or_app. right. apply in_or_app. left.
    apply filter_In. split; [now apply Hlist|]. now rewrite E.
  - (* blob file *)
    destruct (idirs img Blobs) eqn:Eb.
    + destruct (memN id (vd_blobs vd)) eqn:E; [apply memN_spec in E; eauto 10|].
      exfalso. apply Hf. apply in_del_hidden. apply in_or_app. right. apply in_or_app. right.
      apply filter_In. split; [now apply Hlist|]. now rewrite E.
    + exfalso. apply Hf0. unfold img_file. simpl. now rewrite Eb.
Qed.

(** ... and nothing needed was deleted: the kept files are all still there *)
Theorem reclaim_keeps o img vid ts bs del :
  recover_dir o img = Recovered vid ts bs del ->
  forall f, (f = Current \/ f = VersionFile vid \/ (exists id, f = TableFile id /\ In id ts) \/
             (exists id, f = BlobFile id /\ In id bs)) ->
    img_file (cleanup_image img del) f = img_file img f /\ img_file img f <> None.
Proof.
  unfold recover_dir.
  destruct (img_file img Current) as [[[|t r] tn]|] eqn:Ec; try discriminate.
  destruct (current_points o t) as [v|]; [|discriminate].
  destruct (file_ok o img (VersionFile v)) eqn:Ev; [|discriminate]. simpl negb. cbv iota.
  destruct (version_contents o v) as [vd|]; [|discriminate].
  destruct (forallb (fun id => file_ok o img (TableFile id)) (vd_tables vd)) eqn:Et;
    [|discriminate]. simpl negb. cbv iota.
  destruct (idirs img Blobs && negb (forallb (fun id => file_ok o img (BlobFile id)) (vd_blobs vd)))
    eqn:Eb; [discriminate|].
  intros H; inversion H; subst; clear H. rewrite forallb_forall in Et.
  intros f Hf.
  assert (Hpres : img_file img f <> None).
  { destruct Hf as [->|[->|[(id & -> & Hid)|(id & -> & Hid)]]].
    - congruence.
    - unfold file_ok in Ev. destruct (img_file img (VersionFile vid)); congruence.
    - specialize (Et id Hid). unfold file_ok in Et.
      destruct (img_file img (TableFile id)); congruence.
    - destruct (idirs img Blobs); [|destruct Hid]. simpl in Eb.
      apply negb_false_iff in Eb. rewrite forallb_forall in Eb. specialize (Eb id Hid).
      unfold file_ok in Eb. destruct (img_file img (BlobFile id)); congruence. }
  split; [|exact Hpres].
  unfold img_file, cleanup_image. simpl. destruct (idirs img (dir_of f)); [|reflexivity].
  match goal with |- (if existsb (fname_eqb f) ?D then _ else _) = _ =>
    destruct (existsb (fname_eqb f) D) eqn:E end; [|reflexivity].
  exfalso. apply existsb_exists in E as (g & Hg & Eg). apply fname_eqb_eq in Eg. subst g.
  apply in_app_or in Hg as [Hg|Hg]; [|apply in_app_or in Hg as [Hg|Hg]];
    apply filter_In in Hg as [_ Hg].
  - destruct Hf as [->|[->|[(id & -> & Hid)|(id & -> & Hid)]]]; try discriminate.
    rewrite N.eqb_refl in Hg. discriminate.
  - destruct Hf as [->|[->|[(id & -> & Hid)|(id & -> & Hid)]]]; try discriminate.
    apply memN_spec in Hid. rewrite Hid in Hg. discriminate.
  - destruct Hf as [->|[->|[(id & -> & Hid)|(id & -> & Hid)]]]; try discriminate.
    destruct (idirs img Blobs); [|destruct Hid].
    apply memN_spec in Hid. rewrite Hid in Hg. discriminate.
Qed.

(** * Symbolic execution of the crate's traces *)

(** [g] is bound, fully fsynced (content and directory entry), content [c] *)
Definition synced (s : fsstate) (g : fname) (c : list N) : Prop :=
  exists i, dns s g = Some i /\ vns s g = Some i /\ dcont s i = c /\ vcont s i = c.

(** [g] is open for writing with volatile content [c] *)
Definition openf (s : fsstate) (g : fname) (c : list N) : Prop :=
  exists i, vns s g = Some i /\ vcont s i = c.

Lemma synced_stable o s g c :
  synced s g c -> expected o g = Some c -> ddirs s (dir_of g) = true -> stable o s g.
Proof. intros (i & H1 & H2 & H3 & H4) He Hd. apply stable_spec. exists i, c. repeat split; assumption. Qed.

Lemma stable_synced o s g : stable o s g -> exists c, synced s g c /\ expected o g = Some c.
Proof.
  intros H. apply stable_spec in H as (i & e & H1 & H2 & H3 & H4 & H5 & H6).
  exists e. split; [exists i; auto|assumption].
Qed.

(** frame: everything about names outside [G] is preserved *)
Record Rel (G : fname -> Prop) (s s' : fsstate) : Prop := {
  r_wf : wf s';
  r_vinj : vinj s';
  r_vdirs : forall d, vdirs s d = true -> vdirs s' d = true;
  r_ddirs : forall d, ddirs s d = true -> ddirs s' d = true;
  r_vns : forall h, ~ G h -> vns s' h = vns s h;
  r_open : forall h c, ~ G h -> openf s h c -> openf s' h c;
  r_synced : forall h c, ~ G h -> synced s h c -> synced s' h c
}.

Lemma Rel_refl G s : wf s -> vinj s -> Rel G s s.
Proof. intros; split; auto. Qed.

Lemma Rel_trans G s1 s2 s3 : Rel G s1 s2 -> Rel G s2 s3 -> Rel G s1 s3.
Proof.
  intros [A1 A2 A3 A4 A5 A6 A7] [B1 B2 B3 B4 B5 B6 B7]. split; auto.
  intros h Hh. rewrite B5, A5; auto.
Qed.

Lemma Rel_mono (G G' : fname -> Prop) s s' : (forall h, G h -> G' h) -> Rel G s s' -> Rel G' s s'.
Proof. intros HG [A1 A2 A3 A4 A5 A6 A7]. split; auto. Qed.

Lemma vdirs_apply s op s' d : apply s op = Some s' -> vdirs s d = true -> vdirs s' d = true.
Proof.
  intros Ha Hd. destruct op; simpl in Ha.
  - inversion Ha; subst; simpl. now rewrite Hd, orb_true_r.
  - destruct (negb (vdirs s (dir_of f))); [discriminate|]. destruct (vns s f).
    + destruct excl; [discriminate|]. inversion Ha; subst; auto.
    + inversion Ha; subst; auto.
  - destruct (vns s f); [|discriminate]. inversion Ha; subst; auto.
  - destruct (vns s f); [|discriminate]. inversion Ha; subst; auto.
  - destruct (negb (vdirs s d0)); [discriminate|]. inversion Ha; subst; auto.
  - destruct (negb (dname_eqb (dir_of src) (dir_of dst))); [discriminate|].
    destruct (fname_eqb src dst); destruct (vns s src); try discriminate; inversion Ha; subst; auto.
  - destruct (vns s f); [|discriminate]. inversion Ha; subst; auto.
Qed.

Lemma noalias_synced s h c : vinj s -> synced s h c -> noalias s h.
Proof.
  intros Hi (i & H1 & H2 & _) g j Hg Hj.
  assert (j <> i) by (intros ->; apply Hg; eapply Hi; eauto).
  split; congruence.
Qed.

Lemma apply_rel (G : fname -> Prop) s op s' :
  apply s op = Some s' -> wf s -> vinj s -> (forall g, In g (touched op) -> G g) -> Rel G s s'.
Proof.
  intros Ha Hw Hv HG.
  assert (Hun : forall h, ~ G h -> untouched h op).
  { intros h Hh g Hg ->. apply Hh. now apply HG. }
  split.
  - eapply wf_apply; eauto.
  - eapply vinj_apply; eauto.
  - intros d. eapply vdirs_apply; eauto.
  - intros d Hd.
    (* any name works to read off k_dirs; use a name that is trivially untouched? we
       prove it directly instead *)
    destruct op; simpl in Ha.
    + inversion Ha; subst; auto.
    + destruct (negb (vdirs s (dir_of f))); [discriminate|]. destruct (vns s f).
      * destruct excl; [discriminate|]. inversion Ha; subst; auto.
      * inversion Ha; subst; auto.
    + destruct (vns s f); [|discriminate]. inversion Ha; subst; auto.
    + destruct (vns s f); [|discriminate]. inversion Ha; subst; auto.
    + destruct (negb (vdirs s d0)); [discriminate|]. inversion Ha; subst; simpl.
      destruct (dname_eqb d0 Root); [now rewrite Hd|assumption].
    + destruct (negb (dname_eqb (dir_of src) (dir_of dst))); [discriminate|].
      destruct (fname_eqb src dst); destruct (vns s src); try discriminate; inversion Ha; subst; auto.
    + destruct (vns s f); [|discriminate]. inversion Ha; subst; auto.
  - (* vns frame *)
    intros h Hh. specialize (Hun h Hh). destruct op; simpl in Ha.
    + inversion Ha; subst; auto.
    + destruct (negb (vdirs s (dir_of f))); [discriminate|]. destruct (vns s f) eqn:Ev.
      * destruct excl; [discriminate|]. inversion Ha; subst s'; auto.
      * inversion Ha; subst s'; simpl. apply upd_name_other. intros ->. apply (Hun f); simpl; auto.
    + destruct (vns s f); [|discriminate]. inversion Ha; subst s'; auto.
    + destruct (vns s f); [|discriminate]. inversion Ha; subst s'; auto.
    + destruct (negb (vdirs s d)); [discriminate|]. inversion Ha; subst s'; auto.
    + destruct (negb (dname_eqb (dir_of src) (dir_of dst))); [discriminate|].
      destruct (fname_eqb src dst).
      * destruct (vns s src); [|discriminate]. inversion Ha; subst s'; auto.
      * destruct (vns s src) eqn:Ev; [|discriminate]. inversion Ha; subst s'; simpl.
        rewrite upd_name_other by (intros ->; apply (Hun dst); simpl; auto).
        apply upd_name_other. intros ->. apply (Hun src); simpl; auto.
    + destruct (vns s f) eqn:Ev; [|discriminate]. inversion Ha; subst s'; simpl.
      apply upd_name_other. intros ->. apply (Hun f); simpl; auto.
  - (* open files *)
    intros h c Hh (i & H1 & H2). specialize (Hun h Hh).
    assert (Hb : i < next_ino s) by (destruct Hw as [_ Hb]; eapply Hb; eauto).
    destruct op; simpl in Ha.
    + inversion Ha; subst s'. exists i; auto.
    + destruct (negb (vdirs s (dir_of f))); [discriminate|]. destruct (vns s f) as [j|] eqn:Ev.
      * destruct excl; [discriminate|]. inversion Ha; subst s'. exists i; simpl. split; [assumption|].
        rewrite upd_cont_other; [assumption|]. intros ->.
        apply (Hun f); simpl; auto. eapply Hv; eauto.
      * inversion Ha; subst s'. exists i; simpl. split.
        -- rewrite upd_name_other; [assumption|]. intros ->. apply (Hun f); simpl; auto.
        -- rewrite upd_cont_other; [assumption|lia].
    + destruct (vns s f) as [j|] eqn:Ev; [|discriminate]. inversion Ha; subst s'.
      exists i; simpl. split; [assumption|].
      rewrite upd_cont_other; [assumption|]. intros ->.
      apply (Hun f); simpl; auto. eapply Hv; eauto.
    + destruct (vns s f); [|discriminate]. inversion Ha; subst s'. exists i; auto.
    + destruct (negb (vdirs s d)); [discriminate|]. inversion Ha; subst s'. exists i; auto.
    + destruct (negb (dname_eqb (dir_of src) (dir_of dst))); [discriminate|].
      destruct (fname_eqb src dst).
      * destruct (vns s src); [|discriminate]. inversion Ha; subst s'. exists i; auto.
      * destruct (vns s src) eqn:Ev; [|discriminate]. inversion Ha; subst s'. exists i; simpl.
        split; [|assumption].
        rewrite upd_name_other by (intros ->; apply (Hun dst); simpl; auto).
        rewrite upd_name_other by (intros ->; apply (Hun src); simpl; auto). assumption.
    + destruct (vns s f) eqn:Ev; [|discriminate]. inversion Ha; subst s'. exists i; simpl.
      split; [|assumption]. rewrite upd_name_other; [assumption|].
      intros ->. apply (Hun f); simpl; auto.
  - (* synced files *)
    intros h c Hh Hs. specialize (Hun h Hh).
    pose proof (apply_keeps s op s' h Ha Hw (noalias_synced _ _ _ Hv Hs) Hun) as [Kv Kd Kc Kdir].
    destruct Hs as (i & H1 & H2 & H3 & H4). exists i.
    destruct (Kc i (or_introl H2)) as [Kc1 Kc2].
    repeat split; try congruence.
    + destruct Kd as [Kd|[_ Kd]]; congruence.
    + rewrite Kc2; congruence.
Qed.

Lemma run_rel (G : fname -> Prop) s tr s' :
  run_fs s tr = Some s' -> wf s -> vinj s ->
  (forall op g, In op tr -> In g (touched op) -> G g) -> Rel G s s'.
Proof.
  revert s; induction tr as [|op tr IH]; intros s; cbn [run_fs].
  - intros H; inversion H; subst. intros. now apply Rel_refl.
  - destruct (apply s op) as [s1|] eqn:Ea; [|discriminate]. intros H Hw Hv HG.
    assert (R1 : Rel G s s1) by (eapply apply_rel; eauto; intros g Hg; eapply HG; simpl; eauto).
    eapply Rel_trans; [exact R1|]. apply IH; [assumption|apply R1|apply R1|].
    intros op' g Hop Hg. eapply HG; simpl; eauto.
Qed.

Definition only (g : fname) : fname -> Prop := fun h => h = g.

(** effects of single ops on their own file *)
Lemma do_create s g e :
  wf s -> vinj s -> vdirs s (dir_of g) = true -> (e = true -> vns s g = None) ->
  exists s', apply s (Create g e) = Some s' /\ openf s' g [] /\ Rel (only g) s s'.
Proof.
  intros Hw Hv Hd He.
  assert (Hex : exists s', apply s (Create g e) = Some s' /\ openf s' g []).
  { simpl. rewrite Hd. simpl. destruct (vns s g) as [j|] eqn:Ev.
    - destruct e; [specialize (He eq_refl); discriminate|].
      eexists. split; [reflexivity|]. exists j. simpl. split; [assumption|apply upd_cont_same].
    - eexists. split; [reflexivity|]. exists (next_ino s). simpl.
      split; [apply upd_name_same|apply upd_cont_same]. }
  destruct Hex as (s' & Ha & Ho). exists s'. split; [assumption|]. split; [assumption|].
  eapply apply_rel; eauto. intros h [<-|[]]; reflexivity.
Qed.

Lemma do_write s g c t :
  wf s -> vinj s -> openf s g c ->
  exists s', apply s (Write g t) = Some s' /\ openf s' g (c ++ [t]) /\ Rel (only g) s s'.
Proof.
  intros Hw Hv (i & H1 & H2).
  assert (Hex : exists s', apply s (Write g t) = Some s' /\ openf s' g (c ++ [t])).
  { simpl. rewrite H1. eexists. split; [reflexivity|]. exists i. simpl.
    split; [assumption|]. rewrite upd_cont_same. now rewrite H2. }
  destruct Hex as (s' & Ha & Ho). exists s'. split; [assumption|]. split; [assumption|].
  eapply apply_rel; eauto. intros h [<-|[]]; reflexivity.
Qed.

Lemma do_writes s g c ts :
  wf s -> vinj s -> openf s g c ->
  exists s', run_fs s (write_all g ts) = Some s' /\ openf s' g (c ++ ts) /\ Rel (only g) s s'.
Proof.
  revert s c; induction ts as [|t ts IH]; intros s c Hw Hv Ho; unfold write_all; cbn [map run_fs].
  - exists s. rewrite app_nil_r. split; [reflexivity|]. split; [assumption|now apply Rel_refl].
  - destruct (do_write s g c t Hw Hv Ho) as (s1 & Ha & Ho1 & R1). rewrite Ha.
    destruct (IH s1 (c ++ [t]) (r_wf _ _ _ R1) (r_vinj _ _ _ R1) Ho1) as (s2 & Hr & Ho2 & R2).
    unfold write_all in Hr.
    exists s2. split; [assumption|]. rewrite <- app_assoc in Ho2. split; [assumption|].
    eapply Rel_trans; eauto.
Qed.

(** [FsyncFile g; FsyncDir (dir_of g)]: the file becomes fully synced *)
Lemma do_sync s g c :
  wf s -> vinj s -> openf s g c -> vdirs s (dir_of g) = true ->
  exists s', run_fs s [FsyncFile g; FsyncDir (dir_of g)] = Some s' /\ synced s' g c /\
             Rel (fun _ => False) s s'.
Proof.
  intros Hw Hv (i & H1 & H2) Hd.
  assert (Hex : exists s', run_fs s [FsyncFile g; FsyncDir (dir_of g)] = Some s' /\ synced s' g c).
  { simpl. rewrite H1. simpl. rewrite Hd. simpl. eexists. split; [reflexivity|].
    exists i. simpl. rewrite dname_eqb_refl, upd_cont_same. auto. }
  destruct Hex as (s' & Hr & Hs). exists s'. split; [assumption|]. split; [assumption|].
  eapply run_rel; eauto. intros op h [<-|[<-|[]]] [].
Qed.

(** [FsyncFile g] then, later, some [FsyncDir]: split version used by [trace_persist] *)
Lemma do_fsync_file s g c :
  wf s -> vinj s -> openf s g c ->
  exists s', apply s (FsyncFile g) = Some s' /\
             (exists i, vns s' g = Some i /\ dcont s' i = c /\ vcont s' i = c) /\
             Rel (fun _ => False) s s'.
Proof.
  intros Hw Hv (i & H1 & H2).
  assert (Hex : exists s', apply s (FsyncFile g) = Some s' /\
            (exists i, vns s' g = Some i /\ dcont s' i = c /\ vcont s' i = c)).
  { simpl. rewrite H1. eexists. split; [reflexivity|]. exists i. simpl.
    rewrite upd_cont_same. auto. }
  destruct Hex as (s' & Ha & Hs). exists s'. split; [assumption|]. split; [assumption|].
  eapply apply_rel; eauto; intros h [].
Qed.

Lemma run_fs_app s a b :
  run_fs s (a ++ b) = match run_fs s a with Some s1 => run_fs s1 b | None => None end.
Proof.
  revert s; induction a as [|op a IH]; intros s; cbn [app run_fs]; [reflexivity|].
  destruct (apply s op); [apply IH|reflexivity].
Qed.

(** ** A multi-writer producing a run of files (tables or blob files) *)
Section Files.
Variables (mk : N -> fname) (excl : bool) (d : dname).
Hypothesis mk_inj : forall a b, mk a = mk b -> a = b.
Hypothesis mk_dir : forall a, dir_of (mk a) = d.

Definition finish_ops (w : wfile) : list fsop :=
  write_all (mk (w_id w)) (w_tail w) ++ [FsyncFile (mk (w_id w)); FsyncDir d].

Fixpoint files_from (cur : wfile) (rest : list wfile) : list fsop :=
  write_all (mk (w_id cur)) (w_data cur) ++
  match rest with
  | [] => finish_ops cur
  | nxt :: rest' => Create (mk (w_id nxt)) excl :: finish_ops cur ++ files_from nxt rest'
  end.

Definition GW (ws : list wfile) : fname -> Prop := fun h => exists w, In w ws /\ h = mk (w_id w).
Definition wcontent (w : wfile) : list N := w_data w ++ w_tail w.

Lemma finish_run s w c :
  wf s -> vinj s -> vdirs s d = true -> openf s (mk (w_id w)) c ->
  exists s', run_fs s (finish_ops w) = Some s' /\ synced s' (mk (w_id w)) (c ++ w_tail w) /\
             Rel (only (mk (w_id w))) s s'.
Proof.
  intros Hw Hv Hd Ho. unfold finish_ops. rewrite run_fs_app.
  destruct (do_writes s _ c (w_tail w) Hw Hv Ho) as (s1 & Hr1 & Ho1 & R1). rewrite Hr1.
  destruct (do_sync s1 (mk (w_id w)) _ (r_wf _ _ _ R1) (r_vinj _ _ _ R1) Ho1) as (s2 & Hr2 & Hs2 & R2).
  { rewrite mk_dir. now apply (r_vdirs _ _ _ R1). }
  rewrite mk_dir in Hr2. exists s2. split; [assumption|]. split; [assumption|].
  eapply Rel_trans; [exact R1|]. eapply Rel_mono; [|exact R2]. intros h [].
Qed.

Lemma files_from_run rest : forall cur s c0,
  wf s -> vinj s -> vdirs s d = true -> openf s (mk (w_id cur)) c0 ->
  NoDup (map w_id (cur :: rest)) -> (forall w, In w rest -> vns s (mk (w_id w)) = None) ->
  exists s', run_fs s (files_from cur rest) = Some s' /\ Rel (GW (cur :: rest)) s s' /\
             synced s' (mk (w_id cur)) (c0 ++ wcontent cur) /\
             forall w, In w rest -> synced s' (mk (w_id w)) (wcontent w).
Proof.
  induction rest as [|nxt rest IH]; intros cur s c0 Hw Hv Hd Ho Hnd Hfresh; cbn [files_from].
  - rewrite run_fs_app.
    destruct (do_writes s _ c0 (w_data cur) Hw Hv Ho) as (s1 & Hr1 & Ho1 & R1). rewrite Hr1.
    destruct (finish_run s1 cur _ (r_wf _ _ _ R1) (r_vinj _ _ _ R1) (r_vdirs _ _ _ R1 _ Hd) Ho1)
      as (s2 & Hr2 & Hs2 & R2).
    exists s2. split; [assumption|]. split; [|split].
    + eapply Rel_mono; [|eapply Rel_trans; eauto].
      intros h ->. exists cur. split; [now left|reflexivity].
    + unfold wcontent. now rewrite app_assoc.
    + intros w [].
  - assert (Hne : mk (w_id nxt) <> mk (w_id cur)).
    { intros E. apply mk_inj in E. inversion Hnd as [|? ? Hni _]. apply Hni. simpl. now left. }
    rewrite run_fs_app.
    destruct (do_writes s _ c0 (w_data cur) Hw Hv Ho) as (s1 & Hr1 & Ho1 & R1). rewrite Hr1.
    cbn [run_fs].
    destruct (do_create s1 (mk (w_id nxt)) excl (r_wf _ _ _ R1) (r_vinj _ _ _ R1))
      as (s2 & Ha2 & Ho2 & R2).
    { rewrite mk_dir. now apply (r_vdirs _ _ _ R1). }
    { intros _. rewrite (r_vns _ _ _ R1) by exact Hne. apply Hfresh. now left. }
    rewrite Ha2. rewrite run_fs_app.
    assert (Ho1' : openf s2 (mk (w_id cur)) (c0 ++ w_data cur)).
    { apply (r_open _ _ _ R2); [|assumption]. unfold only. congruence. }
    destruct (finish_run s2 cur _ (r_wf _ _ _ R2) (r_vinj _ _ _ R2)
                (r_vdirs _ _ _ R2 _ (r_vdirs _ _ _ R1 _ Hd)) Ho1') as (s3 & Hr3 & Hs3 & R3).
    rewrite Hr3.
    assert (Ho3 : openf s3 (mk (w_id nxt)) []).
    { apply (r_open _ _ _ R3); [|assumption]. exact Hne. }
    assert (R03 : Rel (GW [cur; nxt]) s s3).
    { eapply Rel_trans; [eapply Rel_mono; [|exact R1]|
        eapply Rel_trans; [eapply Rel_mono; [|exact R2]|eapply Rel_mono; [|exact R3]]];
        intros h ->; [exists cur|exists nxt|exists cur]; simpl; auto. }
    destruct (IH nxt s3 [] (r_wf _ _ _ R3) (r_vinj _ _ _ R3)) as (s4 & Hr4 & R4 & Hs4 & Hrest); auto.
    { apply (r_vdirs _ _ _ R03). assumption. }
    { now inversion Hnd. }
    { intros w Hin. rewrite (r_vns _ _ _ R03); [apply Hfresh; now right|].
      intros (w' & [<-|[<-|[]]] & E); apply mk_inj in E.
      - inversion Hnd as [|? ? Hni _]. apply Hni. simpl. right. rewrite <- E. now apply in_map.
      - inversion Hnd as [|? ? _ Hnd']. inversion Hnd' as [|? ? Hni _]. apply Hni.
        rewrite <- E. now apply in_map. }
    exists s4. split; [assumption|]. split; [|split].
    + eapply Rel_trans; [eapply Rel_mono; [|exact R03]|eapply Rel_mono; [|exact R4]].
      * intros h (w' & [<-|[<-|[]]] & ->); [exists cur|exists nxt]; simpl; auto.
      * intros h (w' & Hin & ->). exists w'. simpl. auto.
    + apply (r_synced _ _ _ R4).
      * intros (w' & Hin & E). apply mk_inj in E. inversion Hnd as [|? ? Hni _]. apply Hni.
        rewrite E. exact (in_map w_id (nxt :: rest) w' Hin).
      * unfold wcontent. now rewrite app_assoc.
    + intros w [<-|Hin]; [exact Hs4|now apply Hrest].
Qed.
End Files.

Lemma write_all_touched g ts op h : In op (write_all g ts) -> In h (touched op) -> h = g.
Proof.
  unfold write_all. intros H Hh. apply in_map_iff in H as (t & <- & _).
  destruct Hh as [<-|[]]. reflexivity.
Qed.

Lemma files_from_touched mk excl d rest : forall cur op h,
  In op (files_from mk excl d cur rest) -> In h (touched op) -> GW mk (cur :: rest) h.
Proof.
  induction rest as [|nxt rest IH]; intros cur op h Hop Hh; cbn [files_from] in Hop.
  - exists cur. split; [now left|].
    apply in_app_or in Hop as [Hop|Hop]; [eapply write_all_touched; eauto|].
    unfold finish_ops in Hop. apply in_app_or in Hop as [Hop|Hop]; [eapply write_all_touched; eauto|].
    destruct Hop as [<-|[<-|[]]]; destruct Hh.
  - apply in_app_or in Hop as [Hop|Hop].
    { exists cur. split; [now left|]. eapply write_all_touched; eauto. }
    destruct Hop as [<-|Hop].
    { destruct Hh as [<-|[]]. exists nxt. split; [right; now left|reflexivity]. }
    apply in_app_or in Hop as [Hop|Hop].
    + exists cur. split; [now left|]. unfold finish_ops in Hop.
      apply in_app_or in Hop as [Hop|Hop]; [eapply write_all_touched; eauto|].
      destruct Hop as [<-|[<-|[]]]; destruct Hh.
    + destruct (IH nxt op h Hop Hh) as (w & Hw & ->). exists w. split; [now right|reflexivity].
Qed.

Lemma tables_from_eq cur rest : tables_from cur rest = files_from TableFile true Tables cur rest.
Proof.
  revert cur; induction rest as [|nxt rest IH]; intros cur; cbn [tables_from files_from].
  - reflexivity.
  - now rewrite IH.
Qed.

Lemma blobs_from_eq cur rest : blobs_from true cur rest = files_from BlobFile false Blobs cur rest.
Proof.
  revert cur; induction rest as [|nxt rest IH]; intros cur; cbn [blobs_from files_from].
  - reflexivity.
  - now rewrite IH.
Qed.

(** a complete (multi-)writer: create the first file, then [files_from] *)
Lemma writer_run mk excl d
      (mk_inj : forall a b, mk a = mk b -> a = b) (mk_dir : forall a, dir_of (mk a) = d)
      w rest s :
  wf s -> vinj s -> vdirs s d = true -> NoDup (map w_id (w :: rest)) ->
  (forall w', In w' (w :: rest) -> vns s (mk (w_id w')) = None) ->
  exists s', run_fs s (Create (mk (w_id w)) excl :: files_from mk excl d w rest) = Some s' /\
             Rel (GW mk (w :: rest)) s s' /\
             forall w', In w' (w :: rest) -> synced s' (mk (w_id w')) (wcontent w').
Proof.
  intros Hw Hv Hd Hnd Hfresh. cbn [run_fs].
  destruct (do_create s (mk (w_id w)) excl Hw Hv) as (s1 & Ha1 & Ho1 & R1).
  { now rewrite mk_dir. } { intros _. apply Hfresh. now left. }
  rewrite Ha1.
  destruct (files_from_run mk excl d mk_inj mk_dir rest w s1 [] (r_wf _ _ _ R1) (r_vinj _ _ _ R1))
    as (s2 & Hr2 & R2 & Hs2 & Hrest); auto.
  { now apply (r_vdirs _ _ _ R1). }
  { intros w' Hin. rewrite (r_vns _ _ _ R1); [apply Hfresh; now right|].
    unfold only. intros E. apply mk_inj in E. inversion Hnd as [|? ? Hni _]. apply Hni.
    rewrite <- E. now apply in_map. }
  exists s2. split; [assumption|]. split.
  - eapply Rel_trans; [eapply Rel_mono; [|exact R1]|exact R2].
    intros h ->. exists w. split; [now left|reflexivity].
  - intros w' [<-|Hin]; [exact Hs2|now apply Hrest].
Qed.

(** a segment of name-safe ops runs under the protocol iff it runs at all *)
Lemma proto_step_safe o s ov pub op :
  safe_op (protected o (ov, ov, pub)) op = true ->
  proto_step o s (ov, ov, pub) op = Some (ov, ov, pub).
Proof.
  intros Hs.
  assert (Hgen : (if safe_op (protected o (ov, ov, pub)) op then Some (ov, ov, pub) else None)
                 = Some (ov, ov, pub)) by now rewrite Hs.
  destruct op as [d|f e|f t|f|d|src dst|f]; unfold proto_step; try exact Hgen.
  - destruct d; try exact Hgen; reflexivity.
  - destruct src as [|a|a|a|k|a]; try exact Hgen.
    destruct dst; try exact Hgen.
    (* a rename onto [current] is never name-safe *)
    exfalso. unfold safe_op, safe_name in Hs. simpl in Hs.
    rewrite andb_true_iff in Hs. destruct Hs as [_ Hs]. discriminate.
Qed.

Lemma safe_segment o ov pub tr : forall s s',
  (forall op, In op tr -> safe_op (protected o (ov, ov, pub)) op = true) ->
  run_fs s tr = Some s' -> proto_run o s (ov, ov, pub) tr = Some (s', (ov, ov, pub)).
Proof.
  induction tr as [|op tr IH]; intros s s' Hs; cbn [run_fs proto_run].
  - intros H; inversion H; reflexivity.
  - rewrite proto_step_safe by (apply Hs; now left).
    destruct (apply s op) as [s1|]; [|discriminate]. apply IH. intros op' H. apply Hs. now right.
Qed.

Lemma publish_ok_intro o s ov k it t v1 :
  vns s (TempFile k) = Some it -> dcont s it = [t] -> vcont s it = [t] ->
  current_points o t = Some v1 -> version_contents o v1 <> None ->
  (forall f, In f (pnames o v1) -> stable o s f) ->
  publish_ok o s (ov, ov, false) k = Some v1.
Proof.
  intros H1 H2 H3 H4 H5 H6. unfold publish_ok. simpl.
  assert (E : opt_eqb ov ov = true) by now apply opt_eqb_eq. rewrite E. simpl.
  unfold cur_of. rewrite upd_name_same, H1, H3, H2, H4. simpl. rewrite N.eqb_refl. simpl.
  assert (Hf : forallb (stableb o s) (pnames o v1) = true)
    by (apply forallb_forall; exact H6).
  rewrite Hf. destruct (version_contents o v1); [reflexivity|congruence].
Qed.

Lemma Rel_stable o G s s' f : Rel G s s' -> ~ G f -> stable o s f -> stable o s' f.
Proof.
  intros R Hg Hs. destruct (stable_synced _ _ _ Hs) as (c & Hc & He).
  apply stable_spec in Hs as (i & e & _ & _ & _ & _ & _ & Hd).
  eapply synced_stable; [eapply (r_synced _ _ _ R); eauto|assumption|].
  now apply (r_ddirs _ _ _ R).
Qed.

Definition persist_pre (vid : N) (vtoks : list N) (tmp ctok : N) : list fsop :=
  [Create (VersionFile vid) false] ++ write_all (VersionFile vid) vtoks ++
  [FsyncFile (VersionFile vid); FsyncDir Root;
   Create (TempFile tmp) true; Write (TempFile tmp) ctok; FsyncFile (TempFile tmp)].

Lemma trace_persist_split vid vtoks tmp ctok :
  trace_persist vid vtoks tmp ctok =
  persist_pre vid vtoks tmp ctok ++
  [Rename (TempFile tmp) Current; FsyncFile Current; FsyncDir Root].
Proof. unfold trace_persist, persist_pre. rewrite <- !app_assoc. reflexivity. Qed.

Definition GP (vid tmp : N) : fname -> Prop :=
  fun h => h = VersionFile vid \/ h = TempFile tmp.

Lemma persist_pre_run s vid vtoks tmp ctok :
  wf s -> vinj s -> vdirs s Root = true -> vns s (TempFile tmp) = None ->
  exists s', run_fs s (persist_pre vid vtoks tmp ctok) = Some s' /\ Rel (GP vid tmp) s s' /\
             synced s' (VersionFile vid) vtoks /\
             exists it, vns s' (TempFile tmp) = Some it /\ dcont s' it = [ctok] /\ vcont s' it = [ctok].
Proof.
  intros Hw Hv Hd Ht. unfold persist_pre. cbn [app run_fs].
  destruct (do_create s (VersionFile vid) false Hw Hv Hd) as (s1 & Ha1 & Ho1 & R1);
    [discriminate|]. rewrite Ha1. rewrite run_fs_app.
  destruct (do_writes s1 _ [] vtoks (r_wf _ _ _ R1) (r_vinj _ _ _ R1) Ho1) as (s2 & Hr2 & Ho2 & R2).
  rewrite Hr2. simpl app in Ho2.
  assert (R02 : Rel (GP vid tmp) s s2).
  { eapply Rel_trans; [eapply Rel_mono; [|exact R1]|eapply Rel_mono; [|exact R2]];
      intros h E; unfold only in E; subst h; now left. }
  destruct (do_sync s2 (VersionFile vid) vtoks (r_wf _ _ _ R2) (r_vinj _ _ _ R2) Ho2)
    as (s3 & Hr3 & Hs3 & R3); [apply (r_vdirs _ _ _ R02); assumption|].
  change (dir_of (VersionFile vid)) with Root in Hr3.
  change (run_fs s2 (FsyncFile (VersionFile vid) :: FsyncDir Root ::
            [Create (TempFile tmp) true; Write (TempFile tmp) ctok; FsyncFile (TempFile tmp)]))
    with (run_fs s2 ([FsyncFile (VersionFile vid); FsyncDir Root] ++
            [Create (TempFile tmp) true; Write (TempFile tmp) ctok; FsyncFile (TempFile tmp)])).
  rewrite run_fs_app, Hr3. cbn [run_fs].
  assert (R03 : Rel (GP vid tmp) s s3).
  { eapply Rel_trans; [exact R02|]. eapply Rel_mono; [|exact R3]. intros h []. }
  assert (Ht3 : vns s3 (TempFile tmp) = None).
  { rewrite (r_vns _ _ _ R3) by tauto. rewrite (r_vns _ _ _ R2) by (unfold only; discriminate).
    rewrite (r_vns _ _ _ R1) by (unfold only; discriminate). exact Ht. }
  destruct (do_create s3 (TempFile tmp) true (r_wf _ _ _ R3) (r_vinj _ _ _ R3))
    as (s4 & Ha4 & Ho4 & R4); [apply (r_vdirs _ _ _ R03); assumption|auto|].
  rewrite Ha4.
  destruct (do_write s4 _ [] ctok (r_wf _ _ _ R4) (r_vinj _ _ _ R4) Ho4) as (s5 & Ha5 & Ho5 & R5).
  rewrite Ha5. simpl app in Ho5.
  destruct (do_fsync_file s5 _ _ (r_wf _ _ _ R5) (r_vinj _ _ _ R5) Ho5) as (s6 & Ha6 & Hs6 & R6).
  rewrite Ha6. exists s6. split; [reflexivity|].
  assert (R36 : Rel (only (TempFile tmp)) s3 s6).
  { eapply Rel_trans; [exact R4|]. eapply Rel_trans; [exact R5|].
    eapply Rel_mono; [|exact R6]. intros h []. }
  split; [|split].
  - eapply Rel_trans; [exact R03|]. eapply Rel_mono; [|exact R36]. intros h ->. now right.
  - apply (r_synced _ _ _ R36); [unfold only; discriminate|assumption].
  - exact Hs6.
Qed.

Lemma safe_op_names P op :
  (forall g, In g (touched op) -> ~ In g P) -> safe_op P op = true.
Proof.
  intros H. unfold safe_op, safe_name. apply forallb_forall. intros g Hg.
  apply negb_true_iff. destruct (existsb (fname_eqb g) P) eqn:E; [|reflexivity].
  apply existsb_exists in E as (x & Hx & Ex). apply fname_eqb_eq in Ex. subst x.
  exfalso. eapply H; eauto.
Qed.

Lemma not_protected o ov pub g :
  g <> Current -> ~ In g (opnames o ov) -> ~ In g (protected o (ov, ov, pub)).
Proof.
  intros H1 H2 [H|H]; [congruence|]. apply in_app_or in H. tauto.
Qed.

Definition GPC (vid tmp : N) : fname -> Prop :=
  fun h => h = VersionFile vid \/ h = TempFile tmp \/ h = Current.

(** [persist_version] publishes [vid] from any state satisfying the invariant in which
    the other files named by [vid] are already stable *)
Lemma persist_proto o s ov vid vtoks tmp ctok :
  inv o s (ov, ov, false) -> vdirs s Root = true ->
  ~ In (VersionFile vid) (opnames o ov) -> vns s (TempFile tmp) = None ->
  expected o (VersionFile vid) = Some vtoks -> current_points o ctok = Some vid ->
  version_contents o vid <> None ->
  (forall f, In f (pnames o vid) -> f <> VersionFile vid -> stable o s f) ->
  exists s', proto_run o s (ov, ov, false) (trace_persist vid vtoks tmp ctok)
             = Some (s', (Some vid, Some vid, true)) /\ Rel (GPC vid tmp) s s'.
Proof.
  intros Hinv Hd Hnp Ht He Hc Hvc Hst.
  pose proof Hinv as ((Hw & Hv & _) & _).
  destruct (persist_pre_run s vid vtoks tmp ctok Hw Hv Hd Ht)
    as (s1 & Hr1 & R1 & Hs1 & it & Hit & Hdc & Hvc1).
  rewrite trace_persist_split, proto_run_app.
  assert (Hsafe : forall op, In op (persist_pre vid vtoks tmp ctok) ->
                             safe_op (protected o (ov, ov, false)) op = true).
  { intros op Hop. apply safe_op_names. intros g Hg.
    assert (Hcase : g = VersionFile vid \/ g = TempFile tmp).
    { unfold persist_pre in Hop. simpl in Hop.
      destruct Hop as [<-|Hop]; [simpl in Hg; destruct Hg as [<-|[]]; auto|].
      apply in_app_or in Hop as [Hop|Hop].
      - unfold write_all in Hop. apply in_map_iff in Hop as (t & <- & _).
        simpl in Hg; destruct Hg as [<-|[]]; auto.
      - simpl in Hop.
        repeat (destruct Hop as [<-|Hop]; [simpl in Hg; try (destruct Hg as [<-|[]]; auto); destruct Hg|]).
        destruct Hop. }
    destruct Hcase as [->| ->]; apply not_protected; try discriminate; try assumption.
    destruct ov as [v|]; simpl; [|tauto]. intros H. apply pnames_not_special in H as [_ H].
    now apply (H tmp). }
  rewrite (safe_segment o ov false _ s s1 Hsafe Hr1).
  pose proof (proto_run_inv _ _ _ _ _ _ Hinv (safe_segment o ov false _ s s1 Hsafe Hr1)) as Hinv1.
  (* the publishing rename *)
  assert (Hpub : publish_ok o s1 (ov, ov, false) tmp = Some vid).
  { eapply publish_ok_intro; eauto. intros f Hf.
    destruct (fname_eq_dec f (VersionFile vid)) as [->|Hne].
    - eapply synced_stable; eauto. simpl. apply (r_ddirs _ _ _ R1). apply Hw.
    - eapply Rel_stable; [exact R1| |apply Hst; assumption].
      intros [E|E]; [contradiction|]. subst f. apply pnames_not_special in Hf as [_ Hf].
      now apply (Hf tmp). }
  cbn [proto_run]. unfold proto_step at 1. rewrite Hpub.
  assert (Ha2 : exists s2, apply s1 (Rename (TempFile tmp) Current) = Some s2).
  { simpl. rewrite Hit. eauto. }
  destruct Ha2 as (s2 & Ha2). rewrite Ha2.
  pose proof (inv_publish _ _ _ _ _ _ _ _ Hinv1 Hpub Ha2) as Hinv2.
  assert (Hcur2 : vns s2 Current = Some it).
  { simpl in Ha2. rewrite Hit in Ha2. inversion Ha2; subst s2. simpl. apply upd_name_same. }
  (* fsync of [current], fsync of the root *)
  assert (Hstep3 : proto_step o s2 (ov, Some vid, true) (FsyncFile Current) = Some (ov, Some vid, true))
    by reflexivity.
  rewrite Hstep3.
  assert (Ha3 : exists s3, apply s2 (FsyncFile Current) = Some s3) by (simpl; rewrite Hcur2; eauto).
  destruct Ha3 as (s3 & Ha3). rewrite Ha3.
  assert (Hstep4 : proto_step o s3 (ov, Some vid, true) (FsyncDir Root) = Some (Some vid, Some vid, true))
    by reflexivity.
  rewrite Hstep4.
  pose proof Hinv2 as ((Hw2 & Hv2 & _) & _).
  assert (R23 : Rel (fun _ => False) s2 s3) by (eapply apply_rel; eauto; intros g []).
  assert (R12 : Rel (GPC vid tmp) s1 s2).
  { eapply apply_rel; eauto. apply Hinv1. apply Hinv1.
    intros g [<-|[<-|[]]]; unfold GPC; auto. }
  assert (Hd3 : vdirs s3 Root = true).
  { apply (r_vdirs _ _ _ R23), (r_vdirs _ _ _ R12), (r_vdirs _ _ _ R1). assumption. }
  assert (Ha4 : exists s4, apply s3 (FsyncDir Root) = Some s4) by (simpl; rewrite Hd3; simpl; eauto).
  destruct Ha4 as (s4 & Ha4). rewrite Ha4. exists s4. split; [reflexivity|].
  eapply Rel_trans; [eapply Rel_mono; [|exact R1]|]; [intros h [E|E]; unfold GPC; auto|].
  eapply Rel_trans; [exact R12|]. eapply Rel_trans; [eapply Rel_mono; [|exact R23]|]; [intros h []|].
  assert (R34 : Rel (fun _ => False) s3 s4).
  { eapply apply_rel; [exact Ha4|apply R23|apply R23|]. intros g []. }
  eapply Rel_mono; [|exact R34]. intros h [].
Qed.

Lemma vdirs_run s tr s' d : run_fs s tr = Some s' -> vdirs s d = true -> vdirs s' d = true.
Proof.
  revert s; induction tr as [|op tr IH]; intros s; cbn [run_fs].
  - intros H; inversion H; subst; auto.
  - destruct (apply s op) as [s1|] eqn:Ea; [|discriminate]. intros H Hd.
    apply (IH s1 H). eapply vdirs_apply; eauto.
Qed.

Lemma unlinks_run dels : forall s,
  NoDup dels -> (forall f, In f dels -> vns s f <> None) ->
  exists s', run_fs s (map Unlink dels) = Some s'.
Proof.
  induction dels as [|f dels IH]; intros s Hnd Hb; cbn [map run_fs]; [eauto|].
  inversion Hnd as [|? ? Hni Hnd']; subst.
  destruct (vns s f) as [i|] eqn:Ev; [|exfalso; apply (Hb f); [now left|assumption]].
  simpl apply. rewrite Ev. apply IH; [assumption|].
  intros g Hg. simpl. rewrite upd_name_other; [apply Hb; now right|].
  intros ->. contradiction.
Qed.

(** ** Every trace of the shape
    [safe preparation ++ persist_version ++ unlinks of unreferenced files]
    satisfies the protocol.  This shape covers flush, merge, move, drop, clear, ingest
    (and create_new with [ov = None]). *)
Theorem publish_shape_ok o s ov pre vid vtoks tmp ctok dels s1 :
  disk_ok o s ov -> vdirs s Root = true ->
  (forall op, In op pre -> safe_op (protected o (ov, ov, false)) op = true) ->
  run_fs s pre = Some s1 ->
  ~ In (VersionFile vid) (opnames o ov) -> vns s1 (TempFile tmp) = None ->
  expected o (VersionFile vid) = Some vtoks -> current_points o ctok = Some vid ->
  version_contents o vid <> None ->
  (forall f, In f (pnames o vid) -> f <> VersionFile vid -> stable o s1 f) ->
  NoDup dels ->
  (forall f, In f dels -> vns s1 f <> None /\ f <> Current /\ f <> VersionFile vid /\
                          f <> TempFile tmp /\ ~ In f (pnames o vid)) ->
  protocol_ok o s (pre ++ trace_persist vid vtoks tmp ctok ++ map Unlink dels) = true.
Proof.
  intros Hd Hroot Hsafe Hrun Hnp Ht He Hc Hvc Hst Hnd Hdel.
  unfold disk_ok in Hd. pose proof Hd as (_ & Hcd & Hcv & _).
  unfold protocol_ok.
  rewrite (cur_points_cur_of _ _ _ _ Hcd), (cur_points_cur_of _ _ _ _ Hcv).
  assert (E : opt_eqb ov ov = true) by now apply opt_eqb_eq. rewrite E. cbn [andb].
  pose proof (safe_segment o ov false pre s s1 Hsafe Hrun) as Hp1.
  rewrite proto_run_app, Hp1.
  pose proof (proto_run_inv _ _ _ _ _ _ Hd Hp1) as Hinv1.
  destruct (persist_proto o s1 ov vid vtoks tmp ctok Hinv1 (vdirs_run _ _ _ _ Hrun Hroot)
              Hnp Ht He Hc Hvc Hst) as (s2 & Hp2 & R2).
  rewrite proto_run_app, Hp2.
  destruct (unlinks_run dels s2 Hnd) as (s3 & Hr3).
  { intros f Hf. destruct (Hdel f Hf) as (H1 & H2 & H3 & H4 & H5).
    rewrite (r_vns _ _ _ R2); [assumption|]. unfold GPC. intuition. }
  rewrite (safe_segment o (Some vid) true (map Unlink dels) s2 s3); [now apply opt_eqb_eq| |assumption].
  intros op Hop. apply in_map_iff in Hop as (f & <- & Hf).
  destruct (Hdel f Hf) as (H1 & H2 & H3 & H4 & H5).
  apply safe_op_names. intros g [<-|[]]. apply not_protected; assumption.
Qed.

Lemma version_in_pnames o a v : In (VersionFile a) (pnames o v) -> a = v.
Proof.
  unfold pnames. destruct (version_contents o v) as [vd|]; [|intros []].
  intros [E|H]; [congruence|].
  apply in_app_or in H as [H|H]; apply in_map_iff in H as (x & E & _); discriminate.
Qed.

Lemma stable_bound o s f : stable o s f -> vns s f <> None.
Proof. intros H. apply stable_spec in H as (i & e & _ & H & _). congruence. Qed.

(** the oracle's description of the new version [vid] w.r.t. the old one [ov] and the
    freshly written files [new] *)
Definition new_version_ok (o : oracle) (ov : option N) (vid : N) (vtoks : list N) (ctok : N)
           (new : list fname) : Prop :=
  ov <> Some vid /\ expected o (VersionFile vid) = Some vtoks /\
  current_points o ctok = Some vid /\ version_contents o vid <> None /\
  forall f, In f (pnames o vid) -> f = VersionFile vid \/ In f (opnames o ov) \/ In f new.

(** generic: preparation touching only FRESH names [G], leaving the [new] files stable *)
Theorem publish_shape_fresh o s ov (G : fname -> Prop) pre s1 new vid vtoks tmp ctok dels :
  disk_ok o s ov -> vdirs s Root = true ->
  (forall g, G g -> vns s g = None /\ g <> Current /\ g <> TempFile tmp) ->
  (forall op g, In op pre -> In g (touched op) -> G g) ->
  run_fs s pre = Some s1 -> Rel G s s1 ->
  (forall f, In f new -> stable o s1 f) ->
  vns s (TempFile tmp) = None ->
  new_version_ok o ov vid vtoks ctok new ->
  NoDup dels ->
  (forall f, In f dels -> vns s f <> None /\ f <> Current /\ f <> VersionFile vid /\
                          ~ In f (pnames o vid)) ->
  protocol_ok o s (pre ++ trace_persist vid vtoks tmp ctok ++ map Unlink dels) = true.
Proof.
  intros Hd Hroot HG Htouch Hrun R Hnew Ht (Hov & He & Hc & Hvc & Hpn) Hnd Hdel.
  pose proof Hd as (_ & _ & _ & Hpin & _).
  assert (Hprot : forall f, In f (opnames o ov) -> stable o s f).
  { destruct ov as [v|]; simpl in *; [apply Hpin|intros f []]. }
  eapply publish_shape_ok; eauto.
  - intros op Hop. apply safe_op_names. intros g Hg.
    destruct (HG g (Htouch op g Hop Hg)) as (H1 & H2 & H3).
    apply not_protected; [assumption|]. intros Hin. apply (stable_bound _ _ _ (Hprot _ Hin)). exact H1.
  - destruct ov as [v|]; simpl; [|tauto]. intros H. apply version_in_pnames in H. congruence.
  - rewrite (r_vns _ _ _ R); [assumption|]. intros Hg. destruct (HG _ Hg) as (_ & _ & H). congruence.
  - intros f Hf Hne. destruct (Hpn f Hf) as [->|[Hin|Hin]]; [congruence| |now apply Hnew].
    eapply Rel_stable; [exact R| |now apply Hprot].
    intros Hg. destruct (HG _ Hg) as (H & _). apply (stable_bound _ _ _ (Hprot _ Hin)). exact H.
  - intros f Hf. destruct (Hdel f Hf) as (H1 & H2 & H3 & H4).
    assert (HnG : ~ G f) by (intros Hg; destruct (HG _ Hg) as (H & _); congruence).
    rewrite (r_vns _ _ _ R) by exact HnG. repeat split; auto.
    intros ->. congruence.
Qed.

Lemma TableFile_inj a b : TableFile a = TableFile b -> a = b.
Proof. congruence. Qed.
Lemma BlobFile_inj a b : BlobFile a = BlobFile b -> a = b.
Proof. congruence. Qed.

Definition tnames (ws : list wfile) : list fname := map (fun w => TableFile (w_id w)) ws.
Definition bnames (ws : list wfile) : list fname := map (fun w => BlobFile (w_id w)) ws.

(** freshness + oracle agreement of a batch of files to be written *)
Definition batch_ok (o : oracle) (s : fsstate) (mk : N -> fname) (ws : list wfile) : Prop :=
  NoDup (map w_id ws) /\
  forall w, In w ws -> vns s (mk (w_id w)) = None /\ expected o (mk (w_id w)) = Some (wcontent w).

Definition dels_ok (o : oracle) (s : fsstate) (vid : N) (dels : list fname) : Prop :=
  NoDup dels /\
  forall f, In f dels -> vns s f <> None /\ f <> Current /\ f <> VersionFile vid /\
                         ~ In f (pnames o vid).

Lemma trace_maintenance_eq old_vids :
  trace_maintenance old_vids = map Unlink (map VersionFile old_vids).
Proof. unfold trace_maintenance. now rewrite map_map. Qed.

Lemma trace_drop_files_eq ts bs :
  trace_drop_files ts bs = map Unlink (map TableFile ts ++ map BlobFile bs).
Proof. unfold trace_drop_files. now rewrite map_app, !map_map. Qed.

(** *** flush of a standard tree *)
Theorem trace_flush_protocol_ok o s ov w rest vid vtoks tmp ctok old_vids :
  disk_ok o s ov -> vdirs s Root = true -> vdirs s Tables = true -> ddirs s Tables = true ->
  batch_ok o s TableFile (w :: rest) -> vns s (TempFile tmp) = None ->
  new_version_ok o ov vid vtoks ctok (tnames (w :: rest)) ->
  dels_ok o s vid (map VersionFile old_vids) ->
  protocol_ok o s (trace_flush (w :: rest) vid vtoks tmp ctok old_vids) = true.
Proof.
  intros Hd Hroot Hvt Hdt [Hnd Hb] Ht Hnv [Hdn Hdel].
  pose proof Hd as ((Hw & Hv & _) & _).
  unfold trace_flush, trace_tables. rewrite tables_from_eq, trace_maintenance_eq.
  destruct (writer_run TableFile true Tables TableFile_inj (fun _ => eq_refl) w rest s Hw Hv Hvt Hnd)
    as (s1 & Hr & R & Hs); [intros w' Hin; apply Hb; assumption|].
  apply (publish_shape_fresh o s ov (GW TableFile (w :: rest)) _ s1 (tnames (w :: rest)));
    try assumption.
  - intros g (w' & Hin & ->). destruct (Hb w' Hin) as [H1 _]. repeat split; [assumption|discriminate..].
  - intros op g [<-|Hop] Hg.
    + destruct Hg as [<-|[]]. exists w. split; [now left|reflexivity].
    + eapply files_from_touched; eauto.
  - intros f Hf. apply in_map_iff in Hf as (w' & <- & Hin).
    eapply synced_stable; [apply Hs; assumption|apply Hb; assumption|].
    simpl. now apply (r_ddirs _ _ _ R).
Qed.

(** *** move / drop / clear: no new files *)
Theorem trace_move_or_drop_protocol_ok o s ov vid vtoks tmp ctok old_vids dts dbs :
  disk_ok o s ov -> vdirs s Root = true -> vns s (TempFile tmp) = None ->
  new_version_ok o ov vid vtoks ctok [] ->
  dels_ok o s vid (map VersionFile old_vids ++ map TableFile dts ++ map BlobFile dbs) ->
  protocol_ok o s (trace_move_or_drop vid vtoks tmp ctok old_vids dts dbs) = true.
Proof.
  intros Hd Hroot Ht Hnv [Hdn Hdel]. pose proof Hd as ((Hw & Hv & _) & _).
  unfold trace_move_or_drop. rewrite trace_maintenance_eq, trace_drop_files_eq, <- map_app.
  change (trace_persist vid vtoks tmp ctok ++ ?x) with ([] ++ trace_persist vid vtoks tmp ctok ++ x).
  apply (publish_shape_fresh o s ov (fun _ => False) [] s []); try assumption.
  - intros g [].
  - intros op g [].
  - reflexivity.
  - now apply Rel_refl.
  - intros f [].
Qed.

Theorem trace_clear_protocol_ok o s ov vid vtoks tmp ctok :
  disk_ok o s ov -> vdirs s Root = true -> vns s (TempFile tmp) = None ->
  new_version_ok o ov vid vtoks ctok [] ->
  protocol_ok o s (trace_clear vid vtoks tmp ctok) = true.
Proof.
  intros Hd Hroot Ht Hnv.
  pose proof (trace_move_or_drop_protocol_ok o s ov vid vtoks tmp ctok [] [] [] Hd Hroot Ht Hnv) as H.
  unfold trace_move_or_drop, trace_maintenance, trace_drop_files in H. simpl in H.
  rewrite app_nil_r in H. apply H. split; [constructor|intros f []].
Qed.

(** two open writers (one table run, one blob-file run) finished one after the other *)
Lemma two_writers mk1 e1 d1 mk2 e2 d2
      (inj1 : forall a b, mk1 a = mk1 b -> a = b) (dir1 : forall a, dir_of (mk1 a) = d1)
      (inj2 : forall a b, mk2 a = mk2 b -> a = b) (dir2 : forall a, dir_of (mk2 a) = d2)
      (disj : forall a b, mk1 a <> mk2 b)
      a ra b rb s :
  wf s -> vinj s -> vdirs s d1 = true -> vdirs s d2 = true ->
  openf s (mk1 (w_id a)) [] -> openf s (mk2 (w_id b)) [] ->
  NoDup (map w_id (a :: ra)) -> NoDup (map w_id (b :: rb)) ->
  (forall w, In w ra -> vns s (mk1 (w_id w)) = None) ->
  (forall w, In w rb -> vns s (mk2 (w_id w)) = None) ->
  exists s', run_fs s (files_from mk1 e1 d1 a ra ++ files_from mk2 e2 d2 b rb) = Some s' /\
             Rel (fun h => GW mk1 (a :: ra) h \/ GW mk2 (b :: rb) h) s s' /\
             (forall w, In w (a :: ra) -> synced s' (mk1 (w_id w)) (wcontent w)) /\
             (forall w, In w (b :: rb) -> synced s' (mk2 (w_id w)) (wcontent w)).
Proof.
  intros Hw Hv Hd1 Hd2 Ho1 Ho2 Hn1 Hn2 Hf1 Hf2. rewrite run_fs_app.
  destruct (files_from_run mk1 e1 d1 inj1 dir1 ra a s [] Hw Hv Hd1 Ho1 Hn1 Hf1)
    as (s1 & Hr1 & R1 & Hs1 & Hrest1).
  rewrite Hr1.
  assert (HnG : forall w, ~ GW mk1 (a :: ra) (mk2 (w_id w))).
  { intros w (w' & _ & E). symmetry in E. now apply disj in E. }
  destruct (files_from_run mk2 e2 d2 inj2 dir2 rb b s1 [] (r_wf _ _ _ R1) (r_vinj _ _ _ R1))
    as (s2 & Hr2 & R2 & Hs2 & Hrest2); auto.
  { now apply (r_vdirs _ _ _ R1). }
  { apply (r_open _ _ _ R1); [apply HnG|assumption]. }
  { intros w Hin. rewrite (r_vns _ _ _ R1) by apply HnG. now apply Hf2. }
  exists s2. split; [assumption|]. split; [|split].
  - eapply Rel_trans; [eapply Rel_mono; [|exact R1]|eapply Rel_mono; [|exact R2]]; intros h Hh; tauto.
  - intros w Hin. apply (r_synced _ _ _ R2).
    + intros (w' & _ & E). now apply disj in E.
    + destruct Hin as [<-|Hin]; [exact Hs1|now apply Hrest1].
  - intros w [<-|Hin]; [exact Hs2|now apply Hrest2].
Qed.

Lemma table_blob_disj a b : TableFile a <> BlobFile b.
Proof. discriminate. Qed.
Lemma blob_table_disj a b : BlobFile a <> TableFile b.
Proof. discriminate. Qed.

(** both first files created (in either order), then the two writers *)
Lemma two_writers_created mk1 e1 d1 mk2 e2 d2
      (inj1 : forall a b, mk1 a = mk1 b -> a = b) (dir1 : forall a, dir_of (mk1 a) = d1)
      (inj2 : forall a b, mk2 a = mk2 b -> a = b) (dir2 : forall a, dir_of (mk2 a) = d2)
      (disj : forall a b, mk1 a <> mk2 b)
      (swap : bool) a ra b rb s :
  wf s -> vinj s -> vdirs s d1 = true -> vdirs s d2 = true ->
  NoDup (map w_id (a :: ra)) -> NoDup (map w_id (b :: rb)) ->
  (forall w, In w (a :: ra) -> vns s (mk1 (w_id w)) = None) ->
  (forall w, In w (b :: rb) -> vns s (mk2 (w_id w)) = None) ->
  exists s', run_fs s ((if swap then [Create (mk2 (w_id b)) e2; Create (mk1 (w_id a)) e1]
                        else [Create (mk1 (w_id a)) e1; Create (mk2 (w_id b)) e2]) ++
                       files_from mk1 e1 d1 a ra ++ files_from mk2 e2 d2 b rb) = Some s' /\
             Rel (fun h => GW mk1 (a :: ra) h \/ GW mk2 (b :: rb) h) s s' /\
             (forall w, In w (a :: ra) -> synced s' (mk1 (w_id w)) (wcontent w)) /\
             (forall w, In w (b :: rb) -> synced s' (mk2 (w_id w)) (wcontent w)).
Proof.
  intros Hw Hv Hd1 Hd2 Hn1 Hn2 Hf1 Hf2.
  assert (Hcre : exists s2, run_fs s (if swap then [Create (mk2 (w_id b)) e2; Create (mk1 (w_id a)) e1]
                        else [Create (mk1 (w_id a)) e1; Create (mk2 (w_id b)) e2]) = Some s2 /\
                 Rel (fun h => h = mk1 (w_id a) \/ h = mk2 (w_id b)) s s2 /\
                 openf s2 (mk1 (w_id a)) [] /\ openf s2 (mk2 (w_id b)) []).
  { destruct swap; cbn [run_fs].
    - destruct (do_create s (mk2 (w_id b)) e2 Hw Hv) as (s1 & Ha1 & Ho1 & R1);
        [now rewrite dir2|intros _; apply Hf2; now left|]. rewrite Ha1.
      destruct (do_create s1 (mk1 (w_id a)) e1 (r_wf _ _ _ R1) (r_vinj _ _ _ R1)) as (s2 & Ha2 & Ho2 & R2).
      { rewrite dir1. now apply (r_vdirs _ _ _ R1). }
      { intros _. rewrite (r_vns _ _ _ R1); [apply Hf1; now left|]. unfold only. apply disj. }
      rewrite Ha2. exists s2. split; [reflexivity|]. split; [|split; [assumption|]].
      + eapply Rel_trans; [eapply Rel_mono; [|exact R1]|eapply Rel_mono; [|exact R2]];
          unfold only; intros h Hh; tauto.
      + apply (r_open _ _ _ R2); [|assumption]. unfold only. intros E. symmetry in E. now apply disj in E.
    - destruct (do_create s (mk1 (w_id a)) e1 Hw Hv) as (s1 & Ha1 & Ho1 & R1);
        [now rewrite dir1|intros _; apply Hf1; now left|]. rewrite Ha1.
      destruct (do_create s1 (mk2 (w_id b)) e2 (r_wf _ _ _ R1) (r_vinj _ _ _ R1)) as (s2 & Ha2 & Ho2 & R2).
      { rewrite dir2. now apply (r_vdirs _ _ _ R1). }
      { intros _. rewrite (r_vns _ _ _ R1); [apply Hf2; now left|]. unfold only.
        intros E. symmetry in E. now apply disj in E. }
      rewrite Ha2. exists s2. split; [reflexivity|]. split; [|split; [|assumption]].
      + eapply Rel_trans; [eapply Rel_mono; [|exact R1]|eapply Rel_mono; [|exact R2]];
          unfold only; intros h Hh; tauto.
      + apply (r_open _ _ _ R2); [|assumption]. unfold only. apply disj. }
  destruct Hcre as (s2 & Hr2 & R2 & Ho1 & Ho2). rewrite run_fs_app, Hr2.
  assert (Hne1 : forall w, In w ra -> ~ (mk1 (w_id w) = mk1 (w_id a) \/ mk1 (w_id w) = mk2 (w_id b))).
  { intros w Hin [E|E]; [|now apply disj in E]. apply inj1 in E.
    inversion Hn1 as [|? ? Hni _]. apply Hni. rewrite <- E. now apply in_map. }
  assert (Hne2 : forall w, In w rb -> ~ (mk2 (w_id w) = mk1 (w_id a) \/ mk2 (w_id w) = mk2 (w_id b))).
  { intros w Hin [E|E]; [symmetry in E; now apply disj in E|]. apply inj2 in E.
    inversion Hn2 as [|? ? Hni _]. apply Hni. rewrite <- E. now apply in_map. }
  destruct (two_writers mk1 e1 d1 mk2 e2 d2 inj1 dir1 inj2 dir2 disj a ra b rb s2
              (r_wf _ _ _ R2) (r_vinj _ _ _ R2)) as (s3 & Hr3 & R3 & Hs1 & Hs2); auto.
  { now apply (r_vdirs _ _ _ R2). } { now apply (r_vdirs _ _ _ R2). }
  { intros w Hin. rewrite (r_vns _ _ _ R2) by (apply Hne1; assumption). apply Hf1. now right. }
  { intros w Hin. rewrite (r_vns _ _ _ R2) by (apply Hne2; assumption). apply Hf2. now right. }
  exists s3. split; [assumption|]. split; [|split; assumption].
  eapply Rel_trans; [eapply Rel_mono; [|exact R2]|exact R3].
  intros h [->| ->]; [left; exists a|right; exists b]; simpl; auto.
Qed.

Lemma touched_two mk1 e1 d1 mk2 e2 d2 (swap : bool) a ra b rb op g :
  In op ((if swap then [Create (mk2 (w_id b)) e2; Create (mk1 (w_id a)) e1]
          else [Create (mk1 (w_id a)) e1; Create (mk2 (w_id b)) e2]) ++
         files_from mk1 e1 d1 a ra ++ files_from mk2 e2 d2 b rb) ->
  In g (touched op) -> GW mk1 (a :: ra) g \/ GW mk2 (b :: rb) g.
Proof.
  intros Hop Hg. apply in_app_or in Hop as [Hop|Hop].
  - assert (Hc : op = Create (mk1 (w_id a)) e1 \/ op = Create (mk2 (w_id b)) e2)
      by (destruct swap; simpl in Hop; intuition).
    destruct Hc as [->| ->]; destruct Hg as [<-|[]]; [left; exists a|right; exists b]; simpl; auto.
  - apply in_app_or in Hop as [Hop|Hop]; [left|right]; eapply files_from_touched; eauto.
Qed.

(** *** flush of a blob tree, WITH the missing [fsync_directory(blobs/)] inserted *)
Theorem trace_flush_blob_fixed_protocol_ok o s ov w rest b brest vid vtoks tmp ctok old_vids :
  disk_ok o s ov -> vdirs s Root = true ->
  vdirs s Tables = true -> ddirs s Tables = true -> vdirs s Blobs = true -> ddirs s Blobs = true ->
  batch_ok o s TableFile (w :: rest) -> batch_ok o s BlobFile (b :: brest) ->
  vns s (TempFile tmp) = None ->
  new_version_ok o ov vid vtoks ctok (tnames (w :: rest) ++ bnames (b :: brest)) ->
  dels_ok o s vid (map VersionFile old_vids) ->
  protocol_ok o s (trace_flush_blob true (w :: rest) (b :: brest) vid vtoks tmp ctok old_vids) = true.
Proof.
  intros Hd Hroot Hvt Hdt Hvb Hdb [Hnt Hbt] [Hnb Hbb] Ht Hnv [Hdn Hdel].
  pose proof Hd as ((Hw & Hv & _) & _).
  destruct (two_writers_created BlobFile false Blobs TableFile true Tables
              BlobFile_inj (fun _ => eq_refl) TableFile_inj (fun _ => eq_refl) blob_table_disj
              true b brest w rest s Hw Hv Hvb Hvt Hnb Hnt)
    as (s1 & Hr & R & Hsb & Hst);
    [intros w' Hin; apply Hbb; assumption|intros w' Hin; apply Hbt; assumption|].
  assert (Heq : trace_flush_blob true (w :: rest) (b :: brest) vid vtoks tmp ctok old_vids =
                ([Create (TableFile (w_id w)) true; Create (BlobFile (w_id b)) false] ++
                 files_from BlobFile false Blobs b brest ++ files_from TableFile true Tables w rest) ++
                trace_persist vid vtoks tmp ctok ++ map Unlink (map VersionFile old_vids)).
  { unfold trace_flush_blob, trace_blobs. rewrite blobs_from_eq, tables_from_eq, trace_maintenance_eq.
    cbn [app]. rewrite <- !app_assoc. reflexivity. }
  rewrite Heq.
  apply (publish_shape_fresh o s ov
           (fun h => GW BlobFile (b :: brest) h \/ GW TableFile (w :: rest) h) _ s1
           (tnames (w :: rest) ++ bnames (b :: brest))); try assumption.
  - intros g [(w' & Hin & ->)|(w' & Hin & ->)];
      [destruct (Hbb w' Hin) as [H1 _]|destruct (Hbt w' Hin) as [H1 _]];
      repeat split; try assumption; discriminate.
  - intros op g Hop Hg.
    exact (touched_two BlobFile false Blobs TableFile true Tables true b brest w rest op g Hop Hg).
  - intros f Hf. apply in_app_or in Hf as [Hf|Hf]; apply in_map_iff in Hf as (w' & <- & Hin).
    + eapply synced_stable; [apply Hst; assumption|apply Hbt; assumption|].
      simpl. now apply (r_ddirs _ _ _ R).
    + eapply synced_stable; [apply Hsb; assumption|apply Hbb; assumption|].
      simpl. now apply (r_ddirs _ _ _ R).
Qed.

(** *** compaction merge (standard, or with blob relocation + the repaired blob writer) *)
Theorem trace_merge_protocol_ok o s ov fixd w rest vid vtoks tmp ctok old_vids ots obs :
  disk_ok o s ov -> vdirs s Root = true -> vdirs s Tables = true -> ddirs s Tables = true ->
  batch_ok o s TableFile (w :: rest) -> vns s (TempFile tmp) = None ->
  new_version_ok o ov vid vtoks ctok (tnames (w :: rest)) ->
  dels_ok o s vid (map VersionFile old_vids ++ map TableFile ots ++ map BlobFile obs) ->
  protocol_ok o s (trace_merge fixd (w :: rest) [] vid vtoks tmp ctok old_vids ots obs) = true.
Proof.
  intros Hd Hroot Hvt Hdt [Hnd Hb] Ht Hnv [Hdn Hdel].
  pose proof Hd as ((Hw & Hv & _) & _).
  destruct (writer_run TableFile true Tables TableFile_inj (fun _ => eq_refl) w rest s Hw Hv Hvt Hnd)
    as (s1 & Hr & R & Hs); [intros w' Hin; apply Hb; assumption|].
  assert (Heq : trace_merge fixd (w :: rest) [] vid vtoks tmp ctok old_vids ots obs =
                (Create (TableFile (w_id w)) true :: files_from TableFile true Tables w rest) ++
                trace_persist vid vtoks tmp ctok ++
                map Unlink (map VersionFile old_vids ++ map TableFile ots ++ map BlobFile obs)).
  { unfold trace_merge. rewrite tables_from_eq, trace_maintenance_eq, trace_drop_files_eq.
    cbn [app]. rewrite <- map_app. reflexivity. }
  rewrite Heq.
  apply (publish_shape_fresh o s ov (GW TableFile (w :: rest)) _ s1 (tnames (w :: rest)));
    try assumption.
  - intros g (w' & Hin & ->). destruct (Hb w' Hin) as [H1 _]. repeat split; [assumption|discriminate..].
  - intros op g [<-|Hop] Hg.
    + destruct Hg as [<-|[]]. exists w. split; [now left|reflexivity].
    + eapply files_from_touched; eauto.
  - intros f Hf. apply in_map_iff in Hf as (w' & <- & Hin).
    eapply synced_stable; [apply Hs; assumption|apply Hb; assumption|].
    simpl. now apply (r_ddirs _ _ _ R).
Qed.

Theorem trace_merge_blob_fixed_protocol_ok o s ov w rest b brest vid vtoks tmp ctok old_vids ots obs :
  disk_ok o s ov -> vdirs s Root = true ->
  vdirs s Tables = true -> ddirs s Tables = true -> vdirs s Blobs = true -> ddirs s Blobs = true ->
  batch_ok o s TableFile (w :: rest) -> batch_ok o s BlobFile (b :: brest) ->
  vns s (TempFile tmp) = None ->
  new_version_ok o ov vid vtoks ctok (tnames (w :: rest) ++ bnames (b :: brest)) ->
  dels_ok o s vid (map VersionFile old_vids ++ map TableFile ots ++ map BlobFile obs) ->
  protocol_ok o s (trace_merge true (w :: rest) (b :: brest) vid vtoks tmp ctok old_vids ots obs) = true.
Proof.
  intros Hd Hroot Hvt Hdt Hvb Hdb [Hnt Hbt] [Hnb Hbb] Ht Hnv [Hdn Hdel].
  pose proof Hd as ((Hw & Hv & _) & _).
  destruct (two_writers_created TableFile true Tables BlobFile false Blobs
              TableFile_inj (fun _ => eq_refl) BlobFile_inj (fun _ => eq_refl) table_blob_disj
              false w rest b brest s Hw Hv Hvt Hvb Hnt Hnb)
    as (s1 & Hr & R & Hst & Hsb);
    [intros w' Hin; apply Hbt; assumption|intros w' Hin; apply Hbb; assumption|].
  assert (Heq : trace_merge true (w :: rest) (b :: brest) vid vtoks tmp ctok old_vids ots obs =
                ([Create (TableFile (w_id w)) true; Create (BlobFile (w_id b)) false] ++
                 files_from TableFile true Tables w rest ++ files_from BlobFile false Blobs b brest) ++
                trace_persist vid vtoks tmp ctok ++
                map Unlink (map VersionFile old_vids ++ map TableFile ots ++ map BlobFile obs)).
  { unfold trace_merge. rewrite blobs_from_eq, tables_from_eq, trace_maintenance_eq, trace_drop_files_eq.
    cbn [app]. rewrite <- map_app, <- !app_assoc. reflexivity. }
  rewrite Heq.
  apply (publish_shape_fresh o s ov
           (fun h => GW TableFile (w :: rest) h \/ GW BlobFile (b :: brest) h) _ s1
           (tnames (w :: rest) ++ bnames (b :: brest))); try assumption.
  - intros g [(w' & Hin & ->)|(w' & Hin & ->)];
      [destruct (Hbt w' Hin) as [H1 _]|destruct (Hbb w' Hin) as [H1 _]];
      repeat split; try assumption; discriminate.
  - intros op g Hop Hg.
    exact (touched_two TableFile true Tables BlobFile false Blobs false w rest b brest op g Hop Hg).
  - intros f Hf. apply in_app_or in Hf as [Hf|Hf]; apply in_map_iff in Hf as (w' & <- & Hin).
    + eapply synced_stable; [apply Hst; assumption|apply Hbt; assumption|].
      simpl. now apply (r_ddirs _ _ _ R).
    + eapply synced_stable; [apply Hsb; assumption|apply Hbb; assumption|].
      simpl. now apply (r_ddirs _ _ _ R).
Qed.

(** *** bulk ingestion (memtable empty: no inner flush; otherwise compose with
    [trace_flush_protocol_ok] through [crash_atomic_generic]'s [disk_consistent sf]) *)
Theorem trace_ingest_protocol_ok o s ov w rest vid vtoks tmp ctok :
  disk_ok o s ov -> vdirs s Root = true -> vdirs s Tables = true -> ddirs s Tables = true ->
  batch_ok o s TableFile (w :: rest) -> vns s (TempFile tmp) = None ->
  new_version_ok o ov vid vtoks ctok (tnames (w :: rest)) ->
  protocol_ok o s (trace_ingest (w :: rest) [] vid vtoks tmp ctok) = true.
Proof.
  intros Hd Hroot Hvt Hdt Hb Ht Hnv.
  assert (Heq : trace_ingest (w :: rest) [] vid vtoks tmp ctok =
                trace_flush (w :: rest) vid vtoks tmp ctok []).
  { unfold trace_ingest, trace_flush, trace_tables, trace_maintenance. cbn [app map].
    now rewrite app_nil_r. }
  rewrite Heq. apply (trace_flush_protocol_ok o s ov); try assumption.
  split; [constructor|intros f []].
Qed.

(** *** unlink-only traces: version GC ([maintenance]) and recovery's orphan cleanup *)
Theorem unlinks_protocol_ok o s ov dels :
  disk_ok o s ov -> NoDup dels ->
  (forall f, In f dels -> vns s f <> None /\ f <> Current /\ ~ In f (opnames o ov)) ->
  protocol_ok o s (map Unlink dels) = true.
Proof.
  intros Hd Hnd Hdel. unfold disk_ok in Hd. pose proof Hd as (_ & Hcd & Hcv & _).
  unfold protocol_ok.
  rewrite (cur_points_cur_of _ _ _ _ Hcd), (cur_points_cur_of _ _ _ _ Hcv).
  assert (E : opt_eqb ov ov = true) by now apply opt_eqb_eq. rewrite E. cbn [andb].
  destruct (unlinks_run dels s Hnd) as (s' & Hr); [intros f Hf; apply Hdel; assumption|].
  rewrite (safe_segment o ov false (map Unlink dels) s s'); [exact E| |assumption].
  intros op Hop. apply in_map_iff in Hop as (f & <- & Hf). destruct (Hdel f Hf) as (_ & H2 & H3).
  apply safe_op_names. intros g [<-|[]]. now apply not_protected.
Qed.

Corollary trace_maintenance_protocol_ok o s v0 old_vids :
  disk_ok o s (Some v0) -> NoDup old_vids ->
  (forall a, In a old_vids -> vns s (VersionFile a) <> None /\ a <> v0) ->
  protocol_ok o s (trace_maintenance old_vids) = true.
Proof.
  intros Hd Hnd H. rewrite trace_maintenance_eq. apply (unlinks_protocol_ok o s (Some v0)); auto.
  - clear H. induction Hnd as [|a l Hni Hnd IH]; simpl; constructor; [|exact IH].
    intros Hin. apply in_map_iff in Hin as (b & E & Hb). inversion E; subst. contradiction.
  - intros f Hf. apply in_map_iff in Hf as (a & <- & Ha). destruct (H a Ha) as [H1 H2].
    repeat split; [assumption|discriminate|].
    simpl. intros Hin. apply version_in_pnames in Hin. congruence.
Qed.

Corollary trace_recover_cleanup_protocol_ok o s v0 deleted :
  disk_ok o s (Some v0) -> NoDup deleted ->
  (forall f, In f deleted -> vns s f <> None /\ f <> Current /\ ~ In f (pnames o v0)) ->
  protocol_ok o s (trace_recover_cleanup deleted) = true.
Proof. intros. unfold trace_recover_cleanup. now apply (unlinks_protocol_ok o s (Some v0)). Qed.

(** *** create_new *)
Lemma disk_ok_init o : disk_ok o fs_init None.
Proof.
  unfold disk_ok, inv. split; [|split; [|split; [|split]]]; simpl; auto.
  split; [apply wf_init|]. split; [apply vinj_init|]. intros g i H; discriminate.
Qed.

Theorem trace_create_new_protocol_ok o blob vtoks tmp ctok :
  expected o (VersionFile 0) = Some vtoks -> current_points o ctok = Some 0 ->
  version_contents o 0 = Some (mkVdesc [] []) ->
  protocol_ok o fs_init (trace_create_new blob vtoks tmp ctok) = true.
Proof.
  intros He Hc Hvc. unfold protocol_ok. cbn [cur_of fs_init dns vns opt_eqb andb].
  unfold trace_create_new. rewrite proto_run_app.
  set (pre := [Mkdir Root; Mkdir Tables; FsyncDir Tables; FsyncDir Root]).
  assert (Hrun : exists s1, run_fs fs_init pre = Some s1 /\ vdirs s1 Root = true /\
                            vns s1 (TempFile tmp) = None).
  { eexists. split; [reflexivity|]. split; reflexivity. }
  destruct Hrun as (s1 & Hr1 & Hroot1 & Ht1).
  assert (Hsafe1 : forall op, In op pre -> safe_op (protected o (None, None, false)) op = true).
  { intros op Hop. apply safe_op_names. intros g Hg.
    simpl in Hop. repeat (destruct Hop as [<-|Hop]; [destruct Hg|]). destruct Hop. }
  pose proof (safe_segment o None false pre fs_init s1 Hsafe1 Hr1) as Hp1. rewrite Hp1.
  pose proof (proto_run_inv _ _ _ _ _ _ (disk_ok_init o) Hp1) as Hinv1.
  destruct (persist_proto o s1 None 0 vtoks tmp ctok Hinv1 Hroot1) as (s2 & Hp2 & R2); auto.
  { congruence. }
  { intros f Hf Hne. unfold pnames in Hf. rewrite Hvc in Hf. simpl in Hf.
    destruct Hf as [<-|[]]. congruence. }
  rewrite proto_run_app, Hp2.
  set (post := if blob then [Mkdir Blobs; FsyncDir Blobs] else []).
  assert (Hrun3 : exists s3, run_fs s2 post = Some s3).
  { unfold post. destruct blob; simpl; eauto. }
  destruct Hrun3 as (s3 & Hr3).
  rewrite (safe_segment o (Some 0) true post s2 s3); [reflexivity| |assumption].
  intros op Hop. apply safe_op_names. intros g Hg. unfold post in Hop.
  destruct blob; simpl in Hop; [|destruct Hop].
  repeat (destruct Hop as [<-|Hop]; [destruct Hg|]). destruct Hop.
Qed.

(** * A crash image re-interpreted as the state the reopening process starts from *)
Definition fname_code (f : fname) : N :=
  match f with
  | Current => 0
  | VersionFile id => 1 + id * 6
  | TableFile id => 2 + id * 6
  | BlobFile id => 3 + id * 6
  | TempFile id => 4 + id * 6
  | Other id => 5 + id * 6
  end.

Definition fname_decode (n : N) : fname :=
  let q := n / 6 in
  match n mod 6 with
  | 0 => Current
  | 1 => VersionFile q
  | 2 => TableFile q
  | 3 => BlobFile q
  | 4 => TempFile q
  | _ => Other q
  end.

Lemma decode_code f : fname_decode (fname_code f) = f.
Proof.
  unfold fname_decode, fname_code.
  destruct f as [|id|id|id|id|id]; [reflexivity|..];
    rewrite N.mod_add, N.div_add by lia;
    match goal with |- context [?r mod 6] =>
      rewrite (N.mod_small r 6), (N.div_small r 6) by lia end; reflexivity.
Qed.

Lemma code_inj f g : fname_code f = fname_code g -> f = g.
Proof. intros E. rewrite <- (decode_code f), <- (decode_code g). now rewrite E. Qed.

(** token 0 is reserved for "torn tail" (the strace glue numbers write tokens from 1) *)
Definition torn_tok : N := 0.

Definition cont_of (c : icontent) : list N := if snd c then fst c ++ [torn_tok] else fst c.

Definition state_of_image (img : image) : fsstate :=
  let ns := fun f => match img_file img f with Some _ => Some (fname_code f) | None => None end in
  let cont := fun i => match img_file img (fname_decode i) with Some c => cont_of c | None => [] end in
  mkFs ns ns cont cont
       (N.succ (fold_right N.max 0 (map fname_code (inames img))))
       (fun d => dname_eqb d Root || idirs img d) (fun d => dname_eqb d Root || idirs img d)
       (inames img).

(** the listing of the image is exact *)
Definition img_names_ok (img : image) : Prop :=
  NoDup (inames img) /\ forall f, iget img f <> None -> In f (inames img).

Lemma fold_max_ge l x : In x l -> x <= fold_right N.max 0 l.
Proof.
  induction l as [|y l IH]; simpl; [intros []|]. intros [->|H]; [lia|].
  specialize (IH H). lia.
Qed.

Lemma soi_wf img : img_names_ok img -> wf (state_of_image img).
Proof.
  intros [_ Hn]. split; [reflexivity|]. intros f i H. simpl in *.
  assert (Hf : img_file img f <> None /\ i = fname_code f).
  { destruct H as [H|H]; destruct (img_file img f); inversion H; split; congruence. }
  destruct Hf as [Hf ->].
  assert (Hin : In f (inames img)).
  { apply Hn. unfold img_file in Hf. destruct (idirs img (dir_of f)); congruence. }
  pose proof (fold_max_ge _ _ (in_map fname_code _ _ Hin)). lia.
Qed.

Lemma soi_vinj img : vinj (state_of_image img).
Proof.
  intros f g i. simpl. destruct (img_file img f); [|discriminate].
  destruct (img_file img g); [|discriminate]. intros H1 H2. apply code_inj. congruence.
Qed.

Lemma soi_stable o img f :
  file_ok o img f = true -> stable o (state_of_image img) f.
Proof.
  unfold file_ok. destruct (img_file img f) as [[c tn]|] eqn:E; [|discriminate].
  unfold complete. destruct (expected o f) as [e|] eqn:Ee; [|discriminate]. simpl.
  intros H. apply andb_true_iff in H as [H1 H2]. apply negb_true_iff in H1. subst tn.
  apply list_eqb_eq in H2. subst c.
  apply stable_spec. exists (fname_code f), e. simpl. rewrite E, decode_code, E.
  repeat split; auto.
  unfold img_file in E. destruct (idirs img (dir_of f)); [apply orb_true_r|discriminate].
Qed.

Lemma NoDup_app_intro {A} (a b : list A) :
  NoDup a -> NoDup b -> (forall x, In x a -> ~ In x b) -> NoDup (a ++ b).
Proof.
  induction a as [|x a IH]; simpl; intros Ha Hb Hd; [assumption|].
  inversion Ha as [|? ? Hni Ha']; subst. constructor.
  - intros Hin. apply in_app_or in Hin as [Hin|Hin]; [contradiction|]. apply (Hd x); auto.
  - apply IH; auto.
Qed.

Lemma memN_false x l : memN x l = false -> ~ In x l.
Proof.
  unfold memN. intros H Hin. assert (existsb (N.eqb x) l = true); [|congruence].
  apply existsb_exists. exists x. split; [assumption|apply N.eqb_refl].
Qed.

Lemma recovered_spec o img vid ts bs del :
  recover_dir o img = Recovered vid ts bs del ->
  exists vd, version_contents o vid = Some vd /\ ts = vd_tables vd /\
             (NoDup (inames img) -> NoDup del) /\
             forall f, In f del -> img_file img f <> None /\ f <> Current /\ ~ In f (pnames o vid).
Proof.
  unfold recover_dir.
  destruct (img_file img Current) as [[[|t r] tn]|]; try discriminate.
  destruct (current_points o t) as [v|]; [|discriminate].
  destruct (negb (file_ok o img (VersionFile v))); [discriminate|].
  destruct (version_contents o v) as [vd|] eqn:Ev; [|discriminate].
  destruct (negb (forallb _ (vd_tables vd))); [discriminate|].
  destruct (idirs img Blobs && negb (forallb _ (vd_blobs vd))); [discriminate|].
  intros H; inversion H; subst; clear H. exists vd. split; [assumption|]. split; [reflexivity|].
  assert (Hlist : forall d f, In f (listing img d) -> img_file img f <> None).
  { intros d f Hf. unfold listing in Hf. apply filter_In in Hf as [_ Hf].
    apply andb_true_iff in Hf as [_ Hf]. destruct (img_file img f); [discriminate|discriminate]. }
  assert (Hpn : pnames o vid = VersionFile vid :: map TableFile (vd_tables vd) ++ map BlobFile (vd_blobs vd))
    by (unfold pnames; now rewrite Ev).
  split.
  - intros Hnd.
    assert (HL : forall d, NoDup (listing img d)) by (intros d; apply NoDup_filter; assumption).
    apply NoDup_app_intro; [apply NoDup_filter, HL| |].
    + apply NoDup_app_intro; [apply NoDup_filter, HL|apply NoDup_filter, HL|].
      intros x Hx Hy. apply filter_In in Hx as [_ Hx]. apply filter_In in Hy as [_ Hy].
      destruct x; discriminate.
    + intros x Hx Hy. apply filter_In in Hx as [_ Hx].
      apply in_app_or in Hy as [Hy|Hy]; apply filter_In in Hy as [_ Hy]; destruct x; discriminate.
  - intros f Hf. apply in_app_or in Hf as [Hf|Hf]; [|apply in_app_or in Hf as [Hf|Hf]];
      apply filter_In in Hf as [Hl Hf]; (split; [eapply Hlist; eauto|]);
      destruct f as [|id|id|id|k|k]; try discriminate; (split; [discriminate|]);
      rewrite Hpn; intros [E|Hin]; try discriminate.
    + inversion E; subst. rewrite N.eqb_refl in Hf. discriminate.
    + apply in_app_or in Hin as [Hin|Hin]; apply in_map_iff in Hin as (x & E & _); discriminate.
    + apply in_app_or in Hin as [Hin|Hin]; apply in_map_iff in Hin as (x & E & Hx); try discriminate.
      inversion E; subst. apply negb_true_iff in Hf. now apply memN_false in Hf.
    + apply in_app_or in Hin as [Hin|Hin]; apply in_map_iff in Hin as (x & E & Hx); try discriminate.
      inversion E; subst. apply negb_true_iff in Hf. now apply memN_false in Hf.
Qed.

Lemma unlinks_disk_ok o s ov dels :
  disk_ok o s ov -> NoDup dels ->
  (forall f, In f dels -> vns s f <> None /\ f <> Current /\ ~ In f (opnames o ov)) ->
  exists s', run_fs s (map Unlink dels) = Some s' /\ disk_ok o s' ov.
Proof.
  intros Hd Hnd Hdel.
  destruct (unlinks_run dels s Hnd) as (s' & Hr); [intros f Hf; apply Hdel; assumption|].
  exists s'. split; [assumption|].
  assert (Hp : proto_run o s (ov, ov, false) (map Unlink dels) = Some (s', (ov, ov, false))).
  { apply safe_segment; [|assumption].
    intros op Hop. apply in_map_iff in Hop as (f & <- & Hf). destruct (Hdel f Hf) as (_ & H2 & H3).
    apply safe_op_names. intros g [<-|[]]. now apply not_protected. }
  exact (proto_run_inv _ _ _ _ _ _ Hd Hp).
Qed.

Lemma inv_image_facts o s dv vv pub img :
  inv o s (dv, vv, pub) -> is_crash_image s img ->
  exists ov, pinned o s ov /\
    match ov with
    | Some v => exists t, img_file img Current = Some ([t], false) /\ current_points o t = Some v
    | None => img_file img Current = None
    end.
Proof.
  intros ((Hwf & _) & Hcd & Hcv & Hpd & Hpv) Himg. pose proof Himg as (Hd & _ & He).
  assert (Hroot : idirs img Root = true) by (apply Hd; apply Hwf).
  assert (Hcur : img_file img Current = iget img Current)
    by (unfold img_file; simpl dir_of; now rewrite Hroot).
  rewrite Hcur. specialize (He Current).
  destruct (iget img Current) as [c|] eqn:Ec; simpl in He.
  - destruct He as (i & [Hi|Hi] & Hc).
    + exists dv. split; [assumption|]. destruct dv as [v|]; simpl in Hcd; [|congruence].
      destruct Hcd as (i' & t & H1 & H2 & H3 & H4). assert (i' = i) as -> by congruence.
      rewrite H2, H3 in Hc. apply crash_contents_synced in Hc as ->. eauto.
    + exists vv. split; [assumption|]. destruct vv as [v|]; simpl in Hcv; [|congruence].
      destruct Hcv as (i' & t & H1 & H2 & H3 & H4). assert (i' = i) as -> by congruence.
      rewrite H2, H3 in Hc. apply crash_contents_synced in Hc as ->. eauto.
  - destruct He as [Hn|Hn].
    + exists dv. split; [assumption|]. destruct dv as [v|]; simpl in Hcd; [|reflexivity].
      destruct Hcd as (i' & t & H1 & _). congruence.
    + exists vv. split; [assumption|]. destruct vv as [v|]; simpl in Hcv; [|reflexivity].
      destruct Hcv as (i' & t & H1 & _). congruence.
Qed.

(** After a crash anywhere in a protocol-conforming trace, recovery succeeds, its orphan
    cleanup runs, and the resulting disk is consistent again (so the theorems apply to
    the next operation of the reopened tree). *)
Theorem crash_preserves_consistency o s tr :
  disk_consistent o s -> protocol_ok o s tr = true ->
  forall n sn img,
    run_fs s (firstn n tr) = Some sn -> is_crash_image sn img -> img_names_ok img ->
    exists vid ts bs del s',
      recover_dir o img = Recovered vid ts bs del /\
      run_fs (state_of_image img) (trace_recover_cleanup del) = Some s' /\
      disk_ok o s' (Some vid) /\
      summary (recover_result_of o s') = SRec vid ts bs.
Proof.
  intros [v0 Hd] Hp n sn img Hn Himg Hnames.
  (* the invariant holds in [sn] *)
  pose proof Hd as (_ & Hcd & Hcv & _). unfold disk_ok in Hd.
  pose proof Hp as Hp'. unfold protocol_ok in Hp'.
  rewrite (cur_points_cur_of _ _ _ _ Hcd), (cur_points_cur_of _ _ _ _ Hcv) in Hp'.
  apply andb_true_iff in Hp' as [_ Hp'].
  destruct (proto_run o s (Some v0, Some v0, false) tr) as [[sf [[dvf vvf] pubf]]|] eqn:Er;
    [|discriminate].
  apply opt_eqb_eq in Hp'.
  destruct (crash_atomic_core _ _ _ _ _ _ _ _ Hd Er Hp') as (_ & _ & _ & Hall).
  destruct (Hall n sn img Hn Himg) as (_ & _ & Hnf & dvn & vvn & pubn & Hin & _).
  destruct (crash_atomic_generic o s tr (ex_intro _ v0 Hd) Hp) as (sf' & _ & _ & Hall').
  destruct (Hall' n sn img Hn Himg) as (_ & _ & _ & Hnfresh).
  destruct (inv_image_facts _ _ _ _ _ _ Hin Himg) as (ov & Hpin & Hcur).
  destruct ov as [v|].
  2:{ exfalso. apply Hnfresh. unfold recover_dir. now rewrite Hcur. }
  destruct Hcur as (t & Hcur & Hpt). destruct Hpin as [Hvc Hst].
  destruct (version_contents o v) as [vd|] eqn:Ev; [|congruence].
  assert (Hok : forall f, In f (pnames o v) -> file_ok o img f = true)
    by (intros f Hf; eapply crash_file_stable; eauto).
  pose proof (recover_pinned o img t [] false v vd Hcur Hpt Ev Hok) as Hsum.
  destruct (recover_dir o img) as [|vid ts bs del|] eqn:Erec; try discriminate.
  simpl in Hsum. inversion Hsum; subst vid ts bs. clear Hsum.
  destruct (recovered_spec _ _ _ _ _ _ Erec) as (vd' & Ev' & _ & Hnd & Hdel).
  (* the reopened state is consistent *)
  set (si := state_of_image img).
  assert (Hdi : disk_ok o si (Some v)).
  { unfold disk_ok, inv. split; [|split; [|split; [|split]]].
    - split; [apply soi_wf; assumption|]. split; [apply soi_vinj|].
      intros g i H1 H2. eapply soi_vinj; eauto.
    - simpl. exists 0, t. rewrite Hcur. change (fname_decode 0) with Current. rewrite Hcur. auto.
    - simpl. exists 0, t. rewrite Hcur. change (fname_decode 0) with Current. rewrite Hcur. auto.
    - split; [congruence|]. intros f Hf. apply soi_stable. now apply Hok.
    - split; [congruence|]. intros f Hf. apply soi_stable. now apply Hok. }
  destruct (unlinks_disk_ok o si (Some v) del Hdi (Hnd (proj1 Hnames))) as (s' & Hr & Hd').
  { intros f Hf. destruct (Hdel f Hf) as (H1 & H2 & H3). split; [|split; assumption].
    simpl. destruct (img_file img f); congruence. }
  exists v, (vd_tables vd), (vd_blobs vd), del, s'. split; [reflexivity|]. split; [exact Hr|].
  split; [assumption|].
  rewrite (inv_recover_durable o s' (Some v) false Hd'). simpl. unfold vsummary. now rewrite Ev.
Qed.

(** * Examples: a concrete 2-table disk and a flush *)
Module Ex.
(* v0 = empty, v1 lists tables 0,1, v2 lists 0,1,2; [current] payload tokens 100,101,102 *)
Definition o1 : oracle := mkOracle
  (fun v => match v with
            | 0 => Some (mkVdesc [] []) | 1 => Some (mkVdesc [0;1] [])
            | 2 => Some (mkVdesc [0;1;2] []) | _ => None end)
  (fun f => match f with
            | VersionFile 0 => Some [10] | VersionFile 1 => Some [11;12]
            | VersionFile 2 => Some [13;14]
            | TableFile 0 => Some [20;21] | TableFile 1 => Some [22;23]
            | TableFile 2 => Some [24;25;26]
            | _ => None end)
  (fun t => match t with 100 => Some 0 | 101 => Some 1 | 102 => Some 2 | _ => None end).

(* create_new, then one flush producing the two-table run {0,1} (rotation) *)
Definition tr_setup : list fsop :=
  trace_create_new false [10] 0 100 ++
  trace_flush [mkW 0 [20] [21]; mkW 1 [22] [23]] 1 [11;12] 1 101 [0].

Definition s1 : fsstate :=
  match run_fs fs_init tr_setup with Some s => s | None => fs_init end.

Lemma s1_run : run_fs fs_init tr_setup = Some s1.
Proof. vm_compute. reflexivity. Qed.

Example ex_s1_consistent : disk_consistent o1 s1.
Proof.
  exists 1. destruct (run_fs_init_wf _ _ s1_run) as [Hw Hv].
  apply disk_okb_sound; [assumption|assumption|vm_compute; reflexivity].
Qed.

Example ex_s1_recovers : summary (recover_result_of o1 s1) = SRec 1 [0; 1] [].
Proof. vm_compute. reflexivity. Qed.

(* the flush of a third table, publishing v2 and removing v1 *)
Definition tr_flush : list fsop :=
  trace_flush [mkW 2 [24] [25;26]] 2 [13;14] 2 102 [1].

Example ex_flush_ops :
  tr_flush =
  [Create (TableFile 2) true; Write (TableFile 2) 24; Write (TableFile 2) 25;
   Write (TableFile 2) 26; FsyncFile (TableFile 2); FsyncDir Tables;
   Create (VersionFile 2) false; Write (VersionFile 2) 13; Write (VersionFile 2) 14;
   FsyncFile (VersionFile 2); FsyncDir Root;
   Create (TempFile 2) true; Write (TempFile 2) 102; FsyncFile (TempFile 2);
   Rename (TempFile 2) Current; FsyncFile Current; FsyncDir Root;
   Unlink (VersionFile 1)].
Proof. reflexivity. Qed.

Example ex_flush_protocol_ok : protocol_ok o1 s1 tr_flush = true.
Proof. vm_compute. reflexivity. Qed.

(* ALL crash images of ALL prefixes, enumerated: 4352 images, each recovers to
   {v1,[0,1]} or {v2,[0,1,2]}; all images of the final state recover to v2 *)
Example ex_flush_image_count : length (all_prefix_summaries o1 s1 tr_flush) = 4352%nat.
Proof. vm_compute. reflexivity. Qed.

Example ex_flush_all_images : crash_atomic_check o1 s1 tr_flush = true.
Proof. vm_compute. reflexivity. Qed.

Example ex_flush_before_after :
  forallb (fun r => rsummary_eqb r (SRec 1 [0;1] []) || rsummary_eqb r (SRec 2 [0;1;2] []))
          (all_prefix_summaries o1 s1 tr_flush) = true /\
  existsb (rsummary_eqb (SRec 1 [0;1] [])) (all_prefix_summaries o1 s1 tr_flush) = true /\
  existsb (rsummary_eqb (SRec 2 [0;1;2] [])) (all_prefix_summaries o1 s1 tr_flush) = true.
Proof. vm_compute. auto. Qed.

(* the same fact from the general theorem *)
Example ex_flush_by_theorem :
  forall n sn img, run_fs s1 (firstn n tr_flush) = Some sn -> is_crash_image sn img ->
    summary (recover_dir o1 img) = SRec 1 [0;1] [] \/
    summary (recover_dir o1 img) = SRec 2 [0;1;2] [].
Proof.
  intros n sn img Hn Hi.
  destruct (crash_atomic_generic o1 s1 tr_flush ex_s1_consistent ex_flush_protocol_ok)
    as (sf & Hsf & _ & Hall).
  destruct (Hall n sn img Hn Hi) as [H _].
  assert (Ea : summary (recover_result_of o1 sf) = SRec 2 [0;1;2] []).
  { vm_compute in Hsf. inversion Hsf; subst sf. vm_compute; reflexivity. }
  rewrite ex_s1_recovers, Ea in H. exact H.
Qed.

(* create_new itself: every crash image is Fresh or the empty version 0 *)
Example ex_create_new_images :
  crash_atomic_check o1 fs_init (trace_create_new false [10] 0 100) = true.
Proof. vm_compute. reflexivity. Qed.
End Ex.

(** * The blob path (suspected defect S2): REFUTED for the faithful trace *)
Module ExBlob.
Definition o2 : oracle := mkOracle
  (fun v => match v with 0 => Some (mkVdesc [] []) | 1 => Some (mkVdesc [0] [0]) | _ => None end)
  (fun f => match f with
            | VersionFile 0 => Some [10] | VersionFile 1 => Some [11]
            | TableFile 0 => Some [20;21] | BlobFile 0 => Some [30;31]
            | _ => None end)
  (fun t => match t with 100 => Some 0 | 101 => Some 1 | _ => None end).

(* BlobTree::open on an empty folder *)
Definition tr_open : list fsop := trace_create_new true [10] 0 100.
Definition sb : fsstate := match run_fs fs_init tr_open with Some s => s | None => fs_init end.
Lemma sb_run : run_fs fs_init tr_open = Some sb.
Proof. vm_compute. reflexivity. Qed.

Lemma sb_consistent : disk_consistent o2 sb.
Proof.
  exists 0. destruct (run_fs_init_wf _ _ sb_run) as [Hw Hv].
  apply disk_okb_sound; [assumption|assumption|vm_compute; reflexivity].
Qed.

(* the first flush with key-value separation; [fixd] = insert the missing FsyncDir Blobs *)
Definition tr_flush_blob (fixd : bool) : list fsop :=
  trace_flush_blob fixd [mkW 0 [20] [21]] [mkW 0 [30] [31]] 1 [11] 1 101 [0].

Example ex_blob_flush_ops :
  tr_flush_blob false =
  [Create (TableFile 0) true; Create (BlobFile 0) false; Write (BlobFile 0) 30;
   Write (BlobFile 0) 31; FsyncFile (BlobFile 0);
   Write (TableFile 0) 20; Write (TableFile 0) 21; FsyncFile (TableFile 0); FsyncDir Tables;
   Create (VersionFile 1) false; Write (VersionFile 1) 11; FsyncFile (VersionFile 1);
   FsyncDir Root; Create (TempFile 1) true; Write (TempFile 1) 101; FsyncFile (TempFile 1);
   Rename (TempFile 1) Current; FsyncFile Current; FsyncDir Root; Unlink (VersionFile 0)].
Proof. reflexivity. Qed.

Definition sbf : fsstate :=
  match run_fs sb (tr_flush_blob false) with Some s => s | None => sb end.

(** The faithful blob flush trace violates the protocol (the blob file's directory
    entry is not durable when [current] is switched) ... *)
Example ex_blob_protocol_violated :
  protocol_ok o2 sb (tr_flush_blob false) = false /\
  first_violation o2 sb (Some 0, Some 0, false) (tr_flush_blob false) 0 = Some 16%nat.
Proof. vm_compute. auto. Qed.

(** ... and this is a real loss of crash safety: AFTER the flush has returned
    successfully (whole trace executed), the purely durable state of the disk - a legal
    crash image - makes recovery FAIL: [current] -> v1, v1 lists blob file 0, but
    [blobs/0] has no durable directory entry (vlog/mod.rs:126-128 Unrecoverable). *)
Theorem trace_flush_blob_refuted :
  exists o s tr sf img,
    disk_consistent o s /\
    tr = trace_flush_blob false [mkW 0 [20] [21]] [mkW 0 [30] [31]] 1 [11] 1 101 [0] /\
    run_fs s tr = Some sf /\ is_crash_image sf img /\
    recover_dir o img = Failed /\
    summary (recover_result_of o s) = SRec 0 [] [] /\
    summary (recover_dir o (volatile_image sf)) = SRec 1 [0] [0].
Proof.
  exists o2, sb, (tr_flush_blob false), sbf, (durable_image sbf).
  split; [exact sb_consistent|]. split; [reflexivity|].
  split; [vm_compute; reflexivity|]. split; [apply durable_is_crash_image|].
  split; [vm_compute; reflexivity|]. split; vm_compute; reflexivity.
Qed.

Example ex_blob_images_fail : crash_atomic_check o2 sb (tr_flush_blob false) = false.
Proof. vm_compute. reflexivity. Qed.

(** The repair (one [fsync_directory(blobs/)] after the blob file's [sync_all]) is
    sufficient: the repaired trace satisfies the protocol, hence
    [crash_atomic_generic] applies; cross-checked by enumeration. *)
Example ex_blob_fixed_protocol_ok : protocol_ok o2 sb (tr_flush_blob true) = true.
Proof. vm_compute. reflexivity. Qed.

Example ex_blob_fixed_all_images : crash_atomic_check o2 sb (tr_flush_blob true) = true.
Proof. vm_compute. reflexivity. Qed.
End ExBlob.

(** * More examples *)
Lemma names_nodup_apply s op s' : apply s op = Some s' -> NoDup (names s) -> NoDup (names s').
Proof.
  assert (Hadd : forall f l, NoDup l -> NoDup (add_name f l)).
  { intros f l Hl. unfold add_name. destruct (existsb (fname_eqb f) l) eqn:E; [assumption|].
    constructor; [|assumption]. intros Hin.
    assert (existsb (fname_eqb f) l = true); [|congruence].
    apply existsb_exists. exists f. split; [assumption|apply fname_eqb_refl]. }
  intros Ha Hn. destruct op; simpl in Ha.
  - inversion Ha; subst; assumption.
  - destruct (negb (vdirs s (dir_of f))); [discriminate|]. destruct (vns s f).
    + destruct excl; [discriminate|]. inversion Ha; subst; assumption.
    + inversion Ha; subst; simpl. now apply Hadd.
  - destruct (vns s f); [|discriminate]. inversion Ha; subst; assumption.
  - destruct (vns s f); [|discriminate]. inversion Ha; subst; assumption.
  - destruct (negb (vdirs s d)); [discriminate|]. inversion Ha; subst; assumption.
  - destruct (negb (dname_eqb (dir_of src) (dir_of dst))); [discriminate|].
    destruct (fname_eqb src dst); destruct (vns s src); try discriminate; inversion Ha; subst;
      [assumption|simpl; now apply Hadd].
  - destruct (vns s f); [|discriminate]. inversion Ha; subst; assumption.
Qed.

Lemma run_fs_names_nodup s tr s' : run_fs s tr = Some s' -> NoDup (names s) -> NoDup (names s').
Proof.
  revert s; induction tr as [|op tr IH]; intros s; cbn [run_fs].
  - intros H; inversion H; subst; auto.
  - destruct (apply s op) as [s1|] eqn:Ea; [|discriminate]. intros H Hn.
    apply (IH s1 H). eapply names_nodup_apply; eauto.
Qed.

(** every enumerated image has an exact listing *)
Lemma crash_images_names_ok s img :
  wf s -> names_ok s -> NoDup (names s) -> In img (crash_images s) -> img_names_ok img.
Proof.
  intros Hw Hn Hnd Hin. pose proof (crash_images_sound s img Hw Hn Hin) as (_ & _ & He).
  assert (Hnames : inames img = names s).
  { unfold crash_images in Hin. apply in_flat_map in Hin as (dt & _ & Hin).
    apply in_flat_map in Hin as (db & _ & Hin). apply in_map_iff in Hin as (ch & <- & _). reflexivity. }
  split; [now rewrite Hnames|]. intros f Hf. rewrite Hnames.
  destruct (in_dec fname_eq_dec f (names s)) as [H|H]; [assumption|]. exfalso.
  destruct (Hn f H) as [H1 H2]. specialize (He f). destruct (iget img f); [|congruence].
  simpl in He. destruct He as (j & [E|E] & _); congruence.
Qed.

Lemma summary_failed r : rsummary_eqb (summary r) SFailed = true -> r = Failed.
Proof. destruct r; simpl; try discriminate. reflexivity. Qed.

Module Ex2.
Import Ex.

Lemma s1_ok : disk_ok o1 s1 (Some 1).
Proof.
  destruct (run_fs_init_wf _ _ s1_run) as [Hw Hv].
  apply disk_okb_sound; [assumption|assumption|vm_compute; reflexivity].
Qed.

(** the hypotheses of [trace_flush_protocol_ok] are satisfiable: the concrete flush *)
Example ex_flush_by_trace_theorem : protocol_ok o1 s1 tr_flush = true.
Proof.
  unfold tr_flush.
  apply (trace_flush_protocol_ok o1 s1 (Some 1)).
  - exact s1_ok.
  - vm_compute; reflexivity.
  - vm_compute; reflexivity.
  - vm_compute; reflexivity.
  - split; [repeat constructor; intros []|].
    intros w [<-|[]]. split; vm_compute; reflexivity.
  - vm_compute; reflexivity.
  - split; [discriminate|]. split; [reflexivity|]. split; [reflexivity|]. split; [discriminate|].
    intros f Hf. vm_compute in Hf. simpl. intuition.
  - split; [repeat constructor; intros []|].
    intros f [<-|[]]. split; [vm_compute; discriminate|]. split; [discriminate|].
    split; [discriminate|]. vm_compute. intuition discriminate.
Qed.

(** ** Finding (C16): [persist_version] failing AFTER the rename, then the retry *)
(* the last op of the flush (fsync of the root, file.rs:136) fails with EIO:
   [persist_version] returns Err, the in-memory version stays v1, the sealed memtable is
   kept and flushed again later: new table 3, but AGAIN version id 2 *)
Definition sn16 : fsstate :=
  match run_fs s1 (firstn 16 tr_flush) with Some s => s | None => s1 end.
Definition tr_retry : list fsop := trace_flush [mkW 3 [27] [28]] 2 [15;16] 3 103 [].
Definition s_retry6 : fsstate :=
  match run_fs sn16 (firstn 6 tr_retry) with Some s => s | None => sn16 end.

Lemma s_retry6_run :
  run_fs fs_init (tr_setup ++ firstn 16 tr_flush ++ firstn 6 tr_retry) = Some s_retry6.
Proof. vm_compute. reflexivity. Qed.

Theorem late_failure_retry_refuted :
  (* before the retry every crash image is fine (v1 or v2) ... *)
  forallb (fun i => negb (rsummary_eqb (summary (recover_dir o1 i)) SFailed)) (crash_images sn16) = true /\
  (* ... the retry violates the protocol at its 6th op, [File::create(v2)] (persist.rs:20)
     truncating the version file the volatile [current] already points to ... *)
  protocol_ok o1 sn16 tr_retry = false /\
  nth_error tr_retry 5 = Some (Create (VersionFile 2) false) /\
  (* ... and a crash right after it can make recovery fail *)
  exists img, is_crash_image s_retry6 img /\ recover_dir o1 img = Failed.
Proof.
  split; [vm_compute; reflexivity|]. split; [vm_compute; reflexivity|].
  split; [reflexivity|].
  assert (H : existsb (fun i => rsummary_eqb (summary (recover_dir o1 i)) SFailed)
                      (crash_images s_retry6) = true) by (vm_compute; reflexivity).
  apply existsb_exists in H as (img & Hin & Hf). exists img. split.
  - destruct (run_fs_init_wf _ _ s_retry6_run) as [Hw _].
    apply crash_images_sound; [assumption| |assumption].
    eapply run_fs_names_ok; [exact s_retry6_run|apply names_ok_init].
  - apply summary_failed. exact Hf.
Qed.

(** ** Leftovers (C20): a temp file of an interrupted [rewrite_atomic] is never removed *)
Definition sn14 : fsstate :=
  match run_fs s1 (firstn 14 tr_flush) with Some s => s | None => s1 end.

Example ex_temp_file_leftover :
  let img := volatile_image sn14 in
  exists del, recover_dir o1 img = Recovered 1 [0; 1] [] del /\
              del = [VersionFile 2; TableFile 2] /\
              img_file (cleanup_image img del) (TempFile 2) = Some ([102], false).
Proof. eexists. split; [vm_compute; reflexivity|]. split; vm_compute; reflexivity. Qed.

(** ** crash, recover, clean up: consistent again (instance of [crash_preserves_consistency]) *)
Example ex_crash_recover_consistent :
  forall img, In img (crash_images sn14) ->
    exists vid ts bs del s', recover_dir o1 img = Recovered vid ts bs del /\
      run_fs (state_of_image img) (trace_recover_cleanup del) = Some s' /\ disk_ok o1 s' (Some vid).
Proof.
  intros img Hin.
  assert (Hrun : run_fs fs_init (tr_setup ++ firstn 14 tr_flush) = Some sn14) by (vm_compute; reflexivity).
  destruct (run_fs_init_wf _ _ Hrun) as [Hw _].
  pose proof (run_fs_names_ok _ _ _ Hrun names_ok_init) as Hn.
  assert (Hnd : NoDup (names sn14)) by (eapply run_fs_names_nodup; [exact Hrun|constructor]).
  destruct (crash_preserves_consistency o1 s1 tr_flush ex_s1_consistent ex_flush_protocol_ok
              14%nat sn14 img) as (vid & ts & bs & del & s' & H1 & H2 & H3 & _).
  - vm_compute. reflexivity.
  - apply crash_images_sound; assumption.
  - apply crash_images_names_ok with (s := sn14); assumption.
  - exists vid, ts, bs, del, s'. split; [exact H1|split; [exact H2|exact H3]].
Qed.
(** instances of the failure-atomicity and reclamation theorems *)
Example ex_fail_atomic :
  exists sf va, run_fs s1 tr_flush = Some sf /\ disk_ok o1 sf (Some va) /\
  forall n sn, run_fs s1 (firstn n tr_flush) = Some sn ->
    (summary (recover_result_of o1 sn) = summary (recover_result_of o1 s1) \/
     summary (recover_result_of o1 sn) = summary (recover_result_of o1 sf)) /\
    (published o1 sn 1 \/ published o1 sn va).
Proof. exact (fail_atomic o1 s1 tr_flush 1 s1_ok ex_flush_protocol_ok). Qed.

Example ex_reclaim :
  forall f, In f (inames (volatile_image sn14)) ->
    img_file (cleanup_image (volatile_image sn14) [VersionFile 2; TableFile 2]) f <> None ->
    f = Current \/ f = VersionFile 1 \/ (exists id, f = TableFile id /\ In id [0; 1]) \/
    (exists id, f = BlobFile id /\ In id []) \/ (exists k, f = TempFile k) \/ (exists k, f = Other k).
Proof.
  apply (reclaim_exact o1 (volatile_image sn14) 1 [0; 1] [] [VersionFile 2; TableFile 2]).
  vm_compute. reflexivity.
Qed.
End Ex2.

(** * Replays of the crate's unit tests *)
Module UnitTests.
Definition final (s : fsstate) (tr : list fsop) : fsstate :=
  match run_fs s tr with Some s' => s' | None => s end.

(** version/persist.rs:63 [version_persist_replaces_orphaned_file]: a leftover partial
    [v0] (token 99) is replaced by [persist_version], and [current] exists afterwards *)
Example test_version_persist_replaces_orphaned_file :
  let s0 := final fs_init [Create (VersionFile 0) false; Write (VersionFile 0) 99] in
  let sf := final s0 (trace_persist 0 [10] 0 100) in
  iget (volatile_image s0) (VersionFile 0) = Some ([99], false) /\
  iget (volatile_image sf) (VersionFile 0) = Some ([10], false) /\
  iget (volatile_image sf) Current = Some ([100], false) /\
  iget (durable_image sf) Current = Some ([100], false).
Proof. vm_compute. auto. Qed.

(** file.rs:163 [atomic_rewrite] / file.rs:181 [persist_temp_file_replaces_existing]:
    the old content (token 1) is replaced by the new one (token 2) *)
Example test_atomic_rewrite :
  let s0 := final fs_init [Create Current false; Write Current 1] in
  let sf := final s0 [Create (TempFile 0) true; Write (TempFile 0) 2; FsyncFile (TempFile 0);
                      Rename (TempFile 0) Current; FsyncFile Current; FsyncDir Root] in
  iget (volatile_image s0) Current = Some ([1], false) /\
  iget (volatile_image sf) Current = Some ([2], false) /\
  iget (durable_image sf) Current = Some ([2], false) /\
  iget (volatile_image sf) (TempFile 0) = None.
Proof. vm_compute. auto. Qed.

(** vlog/mod.rs:144 [vlog_recovery_missing_blob_file]: the folder exists, the listed blob
    file 0 does not: Unrecoverable *)
Definition img_missing_blob (blobs_dir : bool) : image :=
  mkImage (fun d => match d with Blobs => blobs_dir | _ => true end)
          (fun f => match f with
                    | Current => Some ([101], false)
                    | VersionFile 1 => Some ([11], false)
                    | TableFile 0 => Some ([20; 21], false)
                    | _ => None end)
          [Current; VersionFile 1; TableFile 0].

Example test_vlog_recovery_missing_blob_file :
  recover_dir ExBlob.o2 (img_missing_blob true) = Failed.
Proof. vm_compute. reflexivity. Qed.

(** SURPRISE (vlog/mod.rs:31-33): if the [blobs/] folder itself is missing,
    [recover_blob_files] returns no blob files and NO error although the version lists
    blob file 0: the tree opens with its blob files silently dropped. *)
Example ex_missing_blobs_folder_silently_empty :
  recover_dir ExBlob.o2 (img_missing_blob false) = Recovered 1 [0] [] [].
Proof. vm_compute. reflexivity. Qed.
End UnitTests.

(** * Assumptions *)
Print Assumptions crash_atomic_generic.
Print Assumptions crash_atomic_from.
Print Assumptions fail_atomic.
Print Assumptions crash_preserves_consistency.
Print Assumptions crash_images_sound.
Print Assumptions crash_images_complete.
Print Assumptions crash_images_cover.
Print Assumptions reclaim_exact.
Print Assumptions reclaim_keeps.
Print Assumptions publish_shape_ok.
Print Assumptions publish_shape_fresh.
Print Assumptions trace_flush_protocol_ok.
Print Assumptions trace_flush_blob_fixed_protocol_ok.
Print Assumptions trace_merge_protocol_ok.
Print Assumptions trace_merge_blob_fixed_protocol_ok.
Print Assumptions trace_move_or_drop_protocol_ok.
Print Assumptions trace_clear_protocol_ok.
Print Assumptions trace_ingest_protocol_ok.
Print Assumptions trace_maintenance_protocol_ok.
Print Assumptions trace_recover_cleanup_protocol_ok.
Print Assumptions trace_create_new_protocol_ok.
Print Assumptions ExBlob.trace_flush_blob_refuted.
Print Assumptions Ex2.late_failure_retry_refuted.
