(** Proofs about the Leveled compaction strategy (Model/Leveled.v): every choice of
    [Strategy::choose] meets the obligation ([mop_ok]) the tree theorems of
    Proofs/Machine.v assume of a compaction strategy.

    Main results (all for every oracle value [lvl] / [need_new_l1], every hidden set, every
    file-size function and every version satisfying [version_inv]):
    - [leveled_move_ok]: a [Choice::Move ids dest] satisfies [move_facts] = the conjuncts of
      [mop_ok st (MMove ids dest)] about the choice: non-empty, duplicate-free, existing
      ids, [dest < 7], [move_choice_ok].  No extra hypothesis.
    - [leveled_merge_ok]: a [Choice::Merge ids dest] satisfies [merge_facts] = non-empty,
      duplicate-free, existing ids, [contig_ok], [dest < 7], [merge_choice_ok] for every
      legal run of fresh tables made of entries of the chosen tables (in particular the
      MultiWriter output) and [evict_ok] at the last level -- GIVEN [leveled_pre]: the level
      whose tables are picked beside others of the same level has at most one run (the
      source level for L1+, canonical L1 for an L0 compaction), and so has the last level
      when it is the destination.  [version_inv] does not imply it
      ([levels_single_not_invariant]) and without it the statement is false
      ([leveled_merge_multi_run_refuted], [leveled_l0_merge_multi_run_refuted],
      [leveled_evict_multi_run_refuted]: stale reads / a resurrected key).
    - [leveled_not_hidden]: no chosen id is hidden, except for the trivial move into Lmax,
      whose block never consults the hidden set ([leveled_hidden_refuted]).
    - [leveled_move_mop_ok] / [leveled_merge_mop_ok]: the same as [mop_ok] of the machine
      state (the analogue of [major_choice_ok]).
    - [leveled_move_keeps_single] / [leveled_merge_keeps_single] / [flush_keeps_single] and
      the closure theorem [leveled_tree_ok]: in a tree that starts empty and is compacted
      by Leveled's choices only, [levels_single] (hence [leveled_pre]) always holds and
      every operation is legal -- no hypothesis about the strategy is left
      ([leveled_tree_reads]: reads = Spec).
    Sections 1-4: lists, windows, get_overlapping / get_contained, run order, levels;
    5-7: what makes a chosen set legal, the four shapes of a Leveled choice; 8: reading the
    model; 9: main theorems; 10: single-run preservation and closure; 11: examples, unit
    tests of the crate, refutations. *)
From LsmV Require Import Proofs.Newest Proofs.Lookup Proofs.Stream Proofs.Version
     Proofs.Snapshot Proofs.Machine.
From LsmV Require Import Model.Machine Model.Leveled.
From Coq Require Import Permutation PeanoNat.
Open Scope N_scope.

Arguments N.add : simpl never.
Arguments N.sub : simpl never.
Arguments N.mul : simpl never.
Arguments N.ltb : simpl never.
Arguments N.leb : simpl never.
Arguments N.eqb : simpl never.
Arguments N.max : simpl never.

(** * 1. Lists: prefixes, windows, minima *)

Fixpoint drop_while {A : Type} (p : A -> bool) (l : list A) : list A :=
  match l with
  | [] => []
  | x :: l' => if p x then drop_while p l' else l
  end.

Lemma lv_take_drop {A} (p : A -> bool) l : take_while p l ++ drop_while p l = l.
Proof.
  induction l as [|x l IH]; cbn [take_while drop_while]; [reflexivity|].
  destruct (p x); cbn [app]; [now rewrite IH|reflexivity].
Qed.

Lemma lv_take_while_all {A} (p : A -> bool) l x : In x (take_while p l) -> p x = true.
Proof.
  induction l as [|y l IH]; cbn [take_while]; [contradiction|].
  destruct (p y) eqn:E; [|contradiction]. intros [<-|H]; auto.
Qed.

Lemma lv_take_while_In {A} (p : A -> bool) l x : In x (take_while p l) -> In x l.
Proof. intros H. rewrite <- (lv_take_drop p l). apply in_or_app. now left. Qed.

Lemma lv_drop_while_head {A} (p : A -> bool) l x l' : drop_while p l = x :: l' -> p x = false.
Proof.
  induction l as [|y l IH]; cbn [drop_while]; [discriminate|].
  destruct (p y) eqn:E; [auto|]. intros H. inversion H; subst. exact E.
Qed.

Lemma lv_pp_firstn {A} (p : A -> bool) l : firstn (partition_point p l) l = take_while p l.
Proof.
  induction l as [|x l IH]; cbn [partition_point take_while]; [reflexivity|].
  destruct (p x); cbn [firstn]; [now rewrite IH|reflexivity].
Qed.

Lemma lv_pp_skipn {A} (p : A -> bool) l : skipn (partition_point p l) l = drop_while p l.
Proof.
  induction l as [|x l IH]; cbn [partition_point drop_while]; [reflexivity|].
  destruct (p x); cbn [skipn]; [now rewrite IH|reflexivity].
Qed.

Lemma lv_pp_le {A} (p : A -> bool) l : (partition_point p l <= length l)%nat.
Proof.
  induction l as [|x l IH]; cbn [partition_point length]; [lia|]. destruct (p x); lia.
Qed.

Lemma lv_filter_map_In {A B} (f : A -> option B) l y :
  In y (filter_map f l) -> exists x, In x l /\ f x = Some y.
Proof.
  induction l as [|x l IH]; cbn [filter_map]; [contradiction|].
  destruct (f x) as [z|] eqn:E.
  - intros [<-|H]; [exists x; split; [now left|exact E]|].
    destruct (IH H) as (x' & H1 & H2). exists x'. split; [now right|exact H2].
  - intros H. destruct (IH H) as (x' & H1 & H2). exists x'. split; [now right|exact H2].
Qed.

Lemma lv_min_by_key_In {A} (key : A -> N) l c : min_by_key key l = Some c -> In c l.
Proof.
  unfold min_by_key. destruct l as [|x l]; [discriminate|]. intros H. inversion H; subst. clear H.
  assert (forall l' b, In (fold_left (fun best y => if key y <? key best then y else best) l' b)
                          (b :: l')) as G.
  { induction l' as [|y l' IH]; intros b; cbn [fold_left]; [now left|].
    destruct (IH (if key y <? key b then y else b)) as [E|HI].
    - rewrite <- E. destruct (key y <? key b); [right; now left|now left].
    - right. now right. }
  apply G.
Qed.

(** a contiguous piece of a list *)
Definition segment {A} (w l : list A) : Prop := exists a b, l = a ++ w ++ b.

Lemma lv_windows_segment {A} size (l : list A) w :
  (1 <= size)%nat -> In w (windows size l) -> segment w l /\ w <> [].
Proof.
  intros Hs. induction l as [|x l IH]; cbn [windows]; [contradiction|].
  destruct (Nat.leb size (length (x :: l))) eqn:E; [|contradiction].
  intros [<-|H].
  - split.
    + exists [], (skipn size (x :: l)). cbn [app]. now rewrite firstn_skipn.
    + destruct size as [|n]; [lia|]. cbn [firstn]. discriminate.
  - destruct (IH H) as [(a & b & ->) Hn]. split; [|exact Hn]. now exists (x :: a), b.
Qed.

Lemma lv_growing_segment {A} (l : list A) w :
  In w (growing_windows l) -> segment w l /\ w <> [].
Proof.
  unfold growing_windows. intros H. apply in_flat_map in H. destruct H as (size & Hs & Hw).
  apply in_seq in Hs. eapply lv_windows_segment; [|exact Hw]. lia.
Qed.

Lemma lv_shrinking_segment {A} (l : list A) w :
  In w (shrinking_windows l) -> segment w l /\ w <> [].
Proof.
  unfold shrinking_windows. intros H. apply in_flat_map in H. destruct H as (size & Hs & Hw).
  apply in_rev in Hs. apply in_seq in Hs. eapply lv_windows_segment; [|exact Hw]. lia.
Qed.

(** unit tests of src/slice_windows.rs *)
Example test_growing_windows :
  growing_windows [1; 2; 3; 4; 5] =
  [[1]; [2]; [3]; [4]; [5]; [1; 2]; [2; 3]; [3; 4]; [4; 5];
   [1; 2; 3]; [2; 3; 4]; [3; 4; 5]; [1; 2; 3; 4]; [2; 3; 4; 5]; [1; 2; 3; 4; 5]].
Proof. vm_compute. reflexivity. Qed.

Example test_shrinking_windows :
  shrinking_windows [1; 2; 3; 4; 5] =
  [[1; 2; 3; 4; 5]; [1; 2; 3; 4]; [2; 3; 4; 5]; [1; 2; 3]; [2; 3; 4]; [3; 4; 5];
   [1; 2]; [2; 3]; [3; 4]; [4; 5]; [1]; [2]; [3]; [4]; [5]].
Proof. vm_compute. reflexivity. Qed.

(** * 2. get_overlapping / get_contained *)

(** the slice [range_overlap_indexes] delimits *)
Definition ov_slice (r : run) (kr : krange) : list table :=
  take_while (fun x => key_leb (kmin x) (snd kr))
             (drop_while (fun x => key_ltb (kmax x) (fst kr)) r).

Lemma lv_indexes_slice {B} (F : list table -> list B) r kr :
  F [] = [] ->
  match range_overlap_indexes r (fst kr) (snd kr) with
  | None => []
  | Some (l, h) => match slice_get_incl r l h with Some s => F s | None => [] end
  end = F (ov_slice r kr).
Proof.
  intros F0. unfold range_overlap_indexes, ov_slice.
  set (p1 := fun x => key_ltb (kmax x) (fst kr)).
  set (p2 := fun x => key_leb (kmin x) (snd kr)).
  rewrite <- (lv_pp_skipn p1 r), <- (lv_pp_firstn p2).
  set (l := partition_point p1 r).
  set (k := partition_point p2 (skipn l r)).
  pose proof (lv_pp_le p1 r) as Hl. fold l in Hl.
  pose proof (lv_pp_le p2 (skipn l r)) as Hk. fold k in Hk. rewrite skipn_length in Hk.
  destruct (Nat.leb (length r) l) eqn:E1.
  - apply Nat.leb_le in E1. assert (k = 0)%nat as -> by lia. now rewrite firstn_O.
  - apply Nat.leb_gt in E1. destruct (Nat.eqb (l + k) 0) eqn:E2.
    + apply Nat.eqb_eq in E2. assert (k = 0)%nat as -> by lia. now rewrite firstn_O.
    + apply Nat.eqb_neq in E2. destruct (Nat.ltb (l + k - 1) l) eqn:E3.
      * apply Nat.ltb_lt in E3. assert (k = 0)%nat as -> by lia. now rewrite firstn_O.
      * apply Nat.ltb_ge in E3. unfold slice_get_incl.
        assert (Nat.ltb (l + k - 1) (length r) = true) as -> by (apply Nat.ltb_lt; lia).
        assert (Nat.leb l (S (l + k - 1)) = true) as -> by (apply Nat.leb_le; lia).
        cbn [andb]. f_equal. f_equal. lia.
Qed.

Lemma lv_get_overlapping_eq r kr : run_get_overlapping r kr = ov_slice r kr.
Proof. unfold run_get_overlapping. now rewrite (lv_indexes_slice (fun s => s)). Qed.

Lemma lv_get_contained_eq r kr :
  run_get_contained r kr = trim_slice (kr_contains kr) (ov_slice r kr).
Proof.
  unfold run_get_contained. now rewrite (lv_indexes_slice (trim_slice (kr_contains kr))).
Qed.

(** unit tests of src/version/run.rs (run_range_overlaps, run_range_contained) *)
Module RunTests.
  Definition s (id : N) (mn mx : key) : table := mkT id 0 [] mn mx 0 0 0 0 0.
  (* "a" = 97, "d" = 100, "e" = 101, "j" = 106, "k" = 107, "o" = 111, "p" = 112, "z" = 122 *)
  Definition r : run := [s 0 [97] [100]; s 1 [101] [106]; s 2 [107] [111]; s 3 [112] [122]].

  Example run_range_overlaps :
    map tid (run_get_overlapping r ([97], [97])) = [0] /\
    map tid (run_get_overlapping r ([100], [100])) = [0] /\
    map tid (run_get_overlapping r ([97], [100])) = [0] /\
    map tid (run_get_overlapping r ([97], [102])) = [0; 1] /\
    map tid (run_get_overlapping r ([97], [122; 122; 122])) = [0; 1; 2; 3] /\
    map tid (run_get_overlapping r ([122; 122; 122], [122; 122; 122; 122])) = [].
  Proof. vm_compute. repeat split. Qed.

  Example run_range_contained :
    map tid (run_get_contained r ([97], [97])) = [] /\
    map tid (run_get_contained r ([97], [100])) = [0] /\
    map tid (run_get_contained r ([97], [106])) = [0; 1] /\
    map tid (run_get_contained r ([97], [107])) = [0; 1] /\
    map tid (run_get_contained r ([97], [108])) = [0; 1] /\
    map tid (run_get_contained r ([97], [122])) = [0; 1; 2; 3].
  Proof. vm_compute. repeat split. Qed.

  Example run_range_culling :
    range_overlap_indexes r [97] [97] = Some (0, 0)%nat /\
    range_overlap_indexes r [97] [103] = Some (0, 1)%nat /\
    range_overlap_indexes r [106] [106] = Some (1, 1)%nat /\
    range_overlap_indexes r [97] [122] = Some (0, 3)%nat /\
    range_overlap_indexes r [122] [122; 122; 122] = Some (3, 3)%nat /\
    range_overlap_indexes r [122; 122; 122] [122; 122; 122; 122; 122; 122; 122] = None.
  Proof. vm_compute. repeat split. Qed.
End RunTests.


(** what is left of [l] after its last element satisfying [p] *)
Definition last_cut {A} (p : A -> bool) (l : list A) : nat :=
  match rposition p l with Some i => S i | None => O end.

Lemma lv_last_cut_spec {A} (p : A -> bool) l :
  (last_cut p l <= length l)%nat /\
  (forall x, In x (skipn (last_cut p l) l) -> p x = false) /\
  (last_cut p l = O \/ exists pre y, firstn (last_cut p l) l = pre ++ [y] /\ p y = true).
Proof.
  unfold last_cut. induction l as [|x l IH]; cbn [rposition].
  - cbn. repeat split; auto. intros x [].
  - destruct (rposition p l) as [i|] eqn:E.
    + destruct IH as (I1 & I2 & I3).
      change (skipn (S (S i)) (x :: l)) with (skipn (S i) l). rewrite firstn_cons.
      cbn [length]. repeat split; [lia|exact I2|].
      right. destruct I3 as [I3|(pre & y & E1 & E2)]; [discriminate|].
      exists (x :: pre), y. cbn [app]. now rewrite E1.
    + destruct IH as (_ & I2 & _). cbn [skipn] in I2. destruct (p x) eqn:Px.
      * cbn [length skipn firstn]. repeat split; [lia|exact I2|]. right. now exists [], x.
      * cbn [skipn]. repeat split; [lia| |now left]. intros y [<-|Hy]; auto.
Qed.

Lemma lv_slice_get_cons {A} (x : A) l s e :
  slice_get (x :: l) (S s) (S e) = slice_get l s e.
Proof. unfold slice_get. cbn [length Nat.leb skipn Nat.sub]. reflexivity. Qed.

Lemma lv_slice_get_0 {A} (l : list A) e :
  (e <= length l)%nat -> slice_get l 0 e = Some (firstn e l).
Proof.
  intros H. unfold slice_get. apply Nat.leb_le in H. rewrite H.
  cbn [Nat.leb andb skipn]. now rewrite Nat.sub_0_r.
Qed.

(** [trim_slice]: a segment; what is cut off fails [p]; its two ends satisfy [p] *)
Lemma lv_trim_split {A} (p : A -> bool) s :
  exists a b, s = a ++ trim_slice p s ++ b /\
    (forall x, In x a -> p x = false) /\ (forall x, In x b -> p x = false) /\
    (trim_slice p s = [] \/
     exists x m, trim_slice p s = x :: m /\ p x = true /\ p (last (x :: m) x) = true).
Proof.
  induction s as [|x s IH].
  - exists [], []. cbn. repeat split; auto; intros x [].
  - destruct (p x) eqn:Px.
    + (* the trimmed slice starts here *)
      pose proof (lv_last_cut_spec p s) as (L1 & L2 & L3).
      assert (trim_slice p (x :: s) = x :: firstn (last_cut p s) s) as E.
      { unfold trim_slice, last_cut. cbn [position rposition]. rewrite Px.
        destruct (rposition p s) as [i|] eqn:Er.
        - unfold last_cut in L1. rewrite Er in L1.
          rewrite lv_slice_get_0 by (cbn [length]; lia). now rewrite firstn_cons.
        - rewrite lv_slice_get_0 by (cbn [length]; lia). now rewrite firstn_cons. }
      rewrite E. exists [], (skipn (last_cut p s) s). cbn [app].
      rewrite firstn_skipn. repeat split; auto; [intros y []|].
      right. exists x, (firstn (last_cut p s) s). repeat split; auto.
      destruct L3 as [L3|(pre & y & E1 & E2)].
      * rewrite L3. cbn [firstn last]. exact Px.
      * rewrite E1. change (x :: pre ++ [y]) with ((x :: pre) ++ [y]). now rewrite last_last.
    + assert (trim_slice p (x :: s) = trim_slice p s) as E.
      { unfold trim_slice. cbn [position rposition]. rewrite Px.
        destruct (position p s) as [i|] eqn:Ep; destruct (rposition p s) as [j|] eqn:Er;
          cbn [option_map length]; apply lv_slice_get_cons || (now rewrite lv_slice_get_cons). }
      rewrite E. destruct IH as (a & b & E0 & Ha & Hb & Hm).
      exists (x :: a), b. cbn [app]. rewrite <- E0. repeat split; auto.
      intros y [<-|Hy]; auto.
Qed.


(** * 3. Tables of a legal run are strictly ordered *)

Definition tlt (x y : table) : Prop := key_lt (kmax x) (kmin y).

Fixpoint rlt (r : run) : Prop :=
  match r with
  | [] => True
  | x :: r' => Forall (tlt x) r' /\ rlt r'
  end.

(** key ranges well-formed, tables strictly ascending *)
Definition rs (r : run) : Prop := Forall krange_ok r /\ rlt r.

Lemma lv_run_ok_rs r : run_ok r = true -> rs r.
Proof.
  intros H. apply vs_run_ok_parts in H. destruct H as (_ & T & D).
  pose proof (vs_krange_of_table_ok r T) as F. split; [exact F|].
  induction r as [|a r IH]; [exact I|].
  inversion F as [|? ? Fa Fr]; subst. cbn [rlt]. split.
  - exact (vs_disjoint_head a r Fr D).
  - apply IH; auto.
    + cbn [forallb] in T. apply andb_true_iff in T. tauto.
    + eapply vs_disjoint_tail; eauto.
Qed.

Lemma lv_rlt_app a b :
  rlt (a ++ b) <-> rlt a /\ rlt b /\ (forall x y, In x a -> In y b -> tlt x y).
Proof.
  induction a as [|x a IH]; cbn [app rlt].
  - split; [intros H; repeat split; auto; intros x y []|tauto].
  - rewrite IH, Forall_app, !Forall_forall. split.
    + intros [[H1 H2] [H3 [H4 H5]]]. repeat split; auto. intros x' y [<-|Hx] Hy; auto.
    + intros [[H1 H2] [H3 H4]]. repeat split; auto.
      * intros y Hy. apply H4; [now left|exact Hy].
      * intros x' y Hx Hy. apply H4; [now right|exact Hy].
Qed.

Lemma lv_rs_app a b : rs (a ++ b) -> rs a /\ rs b.
Proof.
  unfold rs. rewrite Forall_app, lv_rlt_app. tauto.
Qed.

Lemma lv_rs_segment w r : segment w r -> rs r -> rs w.
Proof.
  intros (a & b & ->) H. apply lv_rs_app in H. destruct H as [_ H].
  apply lv_rs_app in H. tauto.
Qed.

Lemma lv_segment_In {A} (w l : list A) x : segment w l -> In x w -> In x l.
Proof. intros (a & b & ->) H. apply in_or_app. right. apply in_or_app. now left. Qed.

Lemma lv_segment_trans {A} (u w l : list A) : segment u w -> segment w l -> segment u l.
Proof.
  intros (a & b & ->) (a' & b' & ->). exists (a' ++ a), (b ++ b').
  now rewrite <- !app_assoc.
Qed.

Lemma lv_last_In {A} (l : list A) d : l <> [] -> In (last l d) l.
Proof.
  induction l as [|x l IH]; [congruence|]. intros _. destruct l as [|y l]; [now left|].
  right. apply IH. discriminate.
Qed.

Lemma lv_kmax_le_last w d t :
  rs w -> In t w -> key_le (kmax t) (kmax (last w d)).
Proof.
  intros [F R]. induction w as [|x w IH]; [contradiction|].
  inversion F as [|? ? Fx Fw]; subst. cbn [rlt] in R. destruct R as [R1 R2].
  destruct w as [|y w].
  - intros [<-|[]]. apply key_le_refl.
  - intros [<-|Ht].
    + change (last (x :: y :: w) d) with (last (y :: w) d).
      assert (In (last (y :: w) d) (y :: w)) as HL by (apply lv_last_In; discriminate).
      rewrite Forall_forall in R1, Fw. specialize (R1 _ HL). specialize (Fw _ HL).
      unfold tlt in R1. unfold krange_ok in Fw.
      apply key_lt_le. eapply key_lt_le_trans; eauto.
    + change (last (x :: y :: w) d) with (last (y :: w) d). apply IH; auto.
Qed.

(** every table of a non-empty piece of a run lies inside [agg_range] of the piece *)
Lemma lv_agg_cover w t :
  rs w -> In t w ->
  key_le (fst (agg_range w)) (kmin t) /\ key_le (kmax t) (snd (agg_range w)).
Proof.
  intros H Ht. destruct w as [|t0 w]; [contradiction|]. cbn [agg_range fst snd]. split.
  - destruct Ht as [<-|Ht]; [apply key_le_refl|].
    destruct H as [F R]. cbn [rlt] in R. destruct R as [R _].
    rewrite Forall_forall in R. specialize (R _ Ht). unfold tlt in R.
    inversion F as [|? ? F0 _]; subst. unfold krange_ok in F0.
    apply key_lt_le. eapply key_le_lt_trans; eauto.
  - now apply lv_kmax_le_last.
Qed.

(** a run around one of its non-empty pieces *)
Lemma lv_agg_outside a w b t :
  rs (a ++ w ++ b) -> w <> [] ->
  (In t a -> key_lt (kmax t) (fst (agg_range w))) /\
  (In t b -> key_lt (snd (agg_range w)) (kmin t)).
Proof.
  intros [_ R] Hw. apply lv_rlt_app in R. destruct R as (_ & R & Ra).
  apply lv_rlt_app in R. destruct R as (_ & _ & Rb).
  destruct w as [|t0 w]; [congruence|]. cbn [agg_range fst snd]. split.
  - intros Ht. apply (Ra t t0 Ht). apply in_or_app. left. now left.
  - intros Ht. apply (Rb (last (t0 :: w) t0) t); [|exact Ht]. apply lv_last_In. discriminate.
Qed.

(** [ov_slice] of a legal run: what lies before it ends before the range, what lies
    behind it starts after the range *)
Lemma lv_ov_split r kr :
  rs r ->
  exists a b, r = a ++ ov_slice r kr ++ b /\
    (forall t, In t a -> key_lt (kmax t) (fst kr)) /\
    (forall t, In t b -> key_lt (snd kr) (kmin t)).
Proof.
  intros H. unfold ov_slice.
  set (p1 := fun x => key_ltb (kmax x) (fst kr)).
  set (p2 := fun x => key_leb (kmin x) (snd kr)).
  exists (take_while p1 r), (drop_while p2 (drop_while p1 r)).
  rewrite (lv_take_drop p2), (lv_take_drop p1). split; [reflexivity|]. split.
  - intros t Ht. apply lv_take_while_all in Ht. unfold p1 in Ht. now key_prop.
  - rewrite <- (lv_take_drop p1 r) in H. apply lv_rs_app in H. destruct H as [_ H].
    rewrite <- (lv_take_drop p2 (drop_while p1 r)) in H. apply lv_rs_app in H.
    destruct H as [_ [F R]].
    destruct (drop_while p2 (drop_while p1 r)) as [|y b] eqn:E; [intros t []|].
    pose proof (lv_drop_while_head _ _ _ _ E) as Hy. unfold p2 in Hy. key_prop.
    intros t [<-|Ht]; [exact Hy|].
    cbn [rlt] in R. destruct R as [R _]. rewrite Forall_forall in R. specialize (R _ Ht).
    inversion F as [|? ? Fy _]; subst. unfold tlt in R. unfold krange_ok in Fy.
    eapply key_lt_trans; [exact Hy|]. eapply key_le_lt_trans; eauto.
Qed.

Lemma lv_get_overlapping_split r kr :
  rs r ->
  exists a b, r = a ++ run_get_overlapping r kr ++ b /\
    (forall t, In t a -> key_lt (kmax t) (fst kr)) /\
    (forall t, In t b -> key_lt (snd kr) (kmin t)).
Proof. rewrite lv_get_overlapping_eq. apply lv_ov_split. Qed.

(** [get_contained] of a legal run: a piece of the run, every table of which is contained
    in the range *)
Lemma lv_get_contained_spec r kr :
  rs r ->
  segment (run_get_contained r kr) r /\
  (forall t, In t (run_get_contained r kr) -> kr_contains kr t = true).
Proof.
  intros H. rewrite lv_get_contained_eq.
  destruct (lv_ov_split r kr H) as (a & b & E & _ & _).
  assert (segment (ov_slice r kr) r) as S1 by (now exists a, b).
  destruct (lv_trim_split (kr_contains kr) (ov_slice r kr)) as (a' & b' & E' & _ & _ & Hm).
  assert (segment (trim_slice (kr_contains kr) (ov_slice r kr)) (ov_slice r kr)) as S2
      by (now exists a', b').
  pose proof (lv_segment_trans _ _ _ S2 S1) as S3. split; [exact S3|].
  destruct Hm as [->|(x & m & Em & Px & Pl)]; [intros t []|].
  rewrite Em in *. intros t Ht.
  pose proof (lv_rs_segment _ _ S3 H) as Hrs.
  destruct (lv_agg_cover _ t Hrs Ht) as [C1 C2]. cbn [agg_range fst snd] in C1, C2.
  unfold kr_contains in *. apply andb_true_iff in Px, Pl. destruct Px as [Px _].
  destruct Pl as [_ Pl]. key_prop. apply andb_true_iff. split; key_prop.
  - eapply key_le_trans; eauto.
  - eapply key_le_trans; eauto.
Qed.

(** [kr_aggregate] covers every range it is given *)
Lemma lv_kr_aggregate_cover l k :
  In k l -> key_le (fst (kr_aggregate l)) (fst k) /\ key_le (snd k) (snd (kr_aggregate l)).
Proof.
  unfold kr_aggregate. destruct l as [|first rest]; [contradiction|].
  set (f := fun (acc other : krange) =>
     (if key_ltb (fst other) (fst acc) then fst other else fst acc,
      if key_ltb (snd acc) (snd other) then snd other else snd acc)).
  assert (forall rest acc,
            (key_le (fst (fold_left f rest acc)) (fst acc) /\
             key_le (snd acc) (snd (fold_left f rest acc))) /\
            (forall k, In k rest -> key_le (fst (fold_left f rest acc)) (fst k) /\
                                    key_le (snd k) (snd (fold_left f rest acc)))) as G.
  { clear. induction rest as [|o rest IH]; intros acc; cbn [fold_left].
    - split; [split; apply key_le_refl|intros k []].
    - destruct (IH (f acc o)) as [[I1 I2] I3].
      assert (key_le (fst (f acc o)) (fst acc) /\ key_le (fst (f acc o)) (fst o) /\
              key_le (snd acc) (snd (f acc o)) /\ key_le (snd o) (snd (f acc o))) as (A1 & A2 & A3 & A4).
      { unfold f. cbn [fst snd].
        destruct (key_ltb (fst o) (fst acc)) eqn:E1; destruct (key_ltb (snd acc) (snd o)) eqn:E2;
          key_prop; repeat split; auto using key_le_refl, key_lt_le. }
      split; [split; eapply key_le_trans; eauto|].
      intros k [<-|Hk]; [split; eapply key_le_trans; eauto|auto]. }
  destruct (G rest first) as [[G1 G2] G3]. intros [<-|Hk]; auto.
Qed.

Lemma lv_level_agg_cover (l : level) t :
  (forall r, In r l -> rs r) -> In t (concat l) ->
  key_le (fst (level_aggregate_key_range l)) (kmin t) /\
  key_le (kmax t) (snd (level_aggregate_key_range l)).
Proof.
  intros H Ht. apply in_concat in Ht. destruct Ht as (r & Hr & Ht).
  destruct (lv_agg_cover r t (H r Hr) Ht) as [C1 C2].
  assert (key_le (fst (kr_aggregate (map agg_range l))) (kmin t) /\
          key_le (kmax t) (snd (kr_aggregate (map agg_range l)))) as G.
  { destruct (lv_kr_aggregate_cover (map agg_range l) (agg_range r)) as [K1 K2];
      [now apply in_map|]. split; eapply key_le_trans; eauto. }
  unfold level_aggregate_key_range. destruct l as [|r1 [|r2 l]]; [exact G| |exact G].
  destruct Hr as [<-|[]]. now split.
Qed.


(** * 4. Levels *)

Definition at_level (ls : list level) (i : nat) (t : table) : Prop :=
  In t (concat (nth i ls [])).

Lemma lv_tables_of_In (ls : list level) t : In t (tables_of ls) <-> exists i, at_level ls i t.
Proof.
  unfold tables_of, at_level. split.
  - intros H. apply in_concat in H. destruct H as (r & Hr & Ht).
    apply in_concat in Hr. destruct Hr as (L & HL & Hr).
    destruct (In_nth ls L [] HL) as (i & _ & E). exists i. rewrite E.
    apply in_concat. eauto.
  - intros (i & H). destruct (Nat.lt_ge_cases i (length ls)) as [Hi|Hi].
    + apply in_concat in H. destruct H as (r & Hr & Ht).
      apply in_concat. exists r. split; [|exact Ht].
      apply in_concat. exists (nth i ls []). split; [now apply nth_In|exact Hr].
    + rewrite nth_overflow in H by exact Hi. destruct H.
Qed.

Lemma lv_nth_firstn {A} (d0 : A) l d i :
  nth i (firstn d l) d0 = if Nat.ltb i d then nth i l d0 else d0.
Proof.
  revert d i; induction l as [|x l IH]; intros d i.
  - rewrite firstn_nil. destruct i; destruct (Nat.ltb _ d); reflexivity.
  - destruct d as [|d]; [destruct i; reflexivity|]. destruct i as [|i]; [reflexivity|].
    cbn [firstn nth]. rewrite IH. reflexivity.
Qed.

Lemma lv_nth_skipn {A} (d0 : A) l d i : nth i (skipn d l) d0 = nth (d + i) l d0.
Proof.
  revert l; induction d as [|d IH]; intros l; [reflexivity|].
  destruct l as [|x l]; [destruct i; reflexivity|]. cbn [skipn Nat.add nth]. apply IH.
Qed.

Lemma lv_firstn_In (ls : list level) d t :
  In t (tables_of (firstn d ls)) <-> exists i, (i < d)%nat /\ at_level ls i t.
Proof.
  rewrite lv_tables_of_In. unfold at_level. split.
  - intros (i & H). rewrite lv_nth_firstn in H. destruct (Nat.ltb i d) eqn:E; [|destruct H].
    apply Nat.ltb_lt in E. eauto.
  - intros (i & Hi & H). exists i. rewrite lv_nth_firstn.
    apply Nat.ltb_lt in Hi. now rewrite Hi.
Qed.

Lemma lv_skipn_In (ls : list level) d t :
  In t (tables_of (skipn d ls)) <-> exists i, (d <= i)%nat /\ at_level ls i t.
Proof.
  rewrite lv_tables_of_In. unfold at_level. split.
  - intros (i & H). rewrite lv_nth_skipn in H. exists (d + i)%nat. split; [lia|exact H].
  - intros (i & Hi & H). exists (i - d)%nat. rewrite lv_nth_skipn.
    replace (d + (i - d))%nat with i by lia. exact H.
Qed.

(** tables of an upper level are newer than tables of a lower level *)
Lemma lv_rec_levels ls i j x y :
  trec (tables_of ls) -> (i < j)%nat -> at_level ls i x -> at_level ls j y -> tnewer x y.
Proof.
  intros R Hij Hx Hy. rewrite <- (firstn_skipn j ls), vs_tables_of_app in R.
  apply vs_trec_app in R. destruct R as (_ & _ & R). apply R.
  - apply lv_firstn_In. eauto.
  - apply lv_skipn_In. eauto.
Qed.

Lemma lv_pairwise_no_neq r x y :
  pairwise_no r -> In x r -> In y r -> x <> y -> kr_overlaps x y = false.
Proof.
  induction r as [|a r IH]; [contradiction|]. cbn [pairwise_no]. intros [P1 P2] Hx Hy Hn.
  rewrite Forall_forall in P1. destruct Hx as [<-|Hx]; destruct Hy as [<-|Hy].
  - congruence.
  - auto.
  - rewrite vs_kr_overlaps_sym. auto.
  - auto.
Qed.

Definition levels_ok (ls : list level) : Prop :=
  Forall (fun l => forallb run_ok l = true) ls.

Lemma lv_level_runs_ok ls i r : levels_ok ls -> In r (nth i ls []) -> run_ok r = true.
Proof.
  intros H Hr. destruct (Nat.lt_ge_cases i (length ls)) as [Hi|Hi].
  - unfold levels_ok in H. rewrite Forall_forall in H.
    specialize (H _ (nth_In ls [] Hi)). rewrite forallb_forall in H. auto.
  - rewrite nth_overflow in Hr by exact Hi. destruct Hr.
Qed.

Lemma lv_at_level_tkeys ls i t : levels_ok ls -> at_level ls i t -> tkeys_ok t.
Proof.
  intros H Ht. unfold at_level in Ht. apply in_concat in Ht. destruct Ht as (r & Hr & Ht).
  pose proof (vs_run_ok_tkeys r (lv_level_runs_ok _ _ _ H Hr)) as F.
  rewrite Forall_forall in F. auto.
Qed.

(** two different tables of the same run share no key *)
Lemma lv_same_run_newer r x y :
  run_ok r = true -> In x r -> In y r -> x <> y -> tnewer x y.
Proof.
  intros H Hx Hy Hn. pose proof (vs_run_ok_tkeys r H) as F. rewrite Forall_forall in F.
  apply vs_no_overlap_newer; auto.
  apply (lv_pairwise_no_neq r); auto. now apply vs_run_ok_pairwise_no.
Qed.

(** a level with at most one run *)
Definition single_run (ls : list level) (i : nat) : Prop := (length (nth i ls []) <= 1)%nat.

Lemma lv_single_run_newer ls i x y :
  levels_ok ls -> single_run ls i -> at_level ls i x -> at_level ls i y -> x <> y ->
  tnewer x y.
Proof.
  unfold single_run, at_level. intros H Hs Hx Hy Hn.
  destruct (nth i ls []) as [|r [|r' l]] eqn:E; [destruct Hx| |cbn [length] in Hs; lia].
  cbn [concat] in Hx, Hy. rewrite app_nil_r in Hx, Hy.
  apply (lv_same_run_newer r); auto. apply (lv_level_runs_ok ls i); auto.
  rewrite E. now left.
Qed.

Lemma lv_tnewer_iff x y :
  tnewer x y <->
  (forall e e', In e (ents x) -> In e' (ents y) -> ukey e = ukey e' -> seq e' < seq e).
Proof.
  unfold tnewer, newer_than. rewrite forallb_forall. split.
  - intros H e e' He He' Hk. specialize (H e He). rewrite forallb_forall in H.
    specialize (H e' He'). rewrite Hk, key_eqb_refl in H. cbn [negb orb] in H.
    now apply N.ltb_lt in H.
  - intros H e He. apply forallb_forall. intros e' He'.
    destruct (key_eqb (ukey e) (ukey e')) eqn:E; [|reflexivity]. key_prop.
    cbn [negb orb]. apply N.ltb_lt. auto.
Qed.

Lemma lv_nodup_map_inj {A B} (f : A -> B) l a b :
  NoDup (map f l) -> In a l -> In b l -> f a = f b -> a = b.
Proof.
  induction l as [|x l IH]; [contradiction|]. cbn [map]. intros N Ha Hb E.
  inversion N as [|? ? N1 N2]; subst.
  destruct Ha as [<-|Ha]; destruct Hb as [<-|Hb]; auto.
  - exfalso. apply N1. rewrite E. now apply in_map.
  - exfalso. apply N1. rewrite <- E. now apply in_map.
Qed.

(** * 5. What makes a set of chosen tables a legal compaction input *)

Section Chosen.
  Variables (v : version) (S : list table) (dest : nat).
  Hypothesis HV : version_inv v = true.
  Hypothesis HSin : forall t, In t S -> In t (all_tables v).

  Let ids := map tid S.

  Lemma lv_chosen_iff t : In t (all_tables v) -> (id_in ids t = true <-> In t S).
  Proof.
    intros Ht. unfold id_in, ids. split.
    - intros H. apply existsb_exists in H. destruct H as (i & Hi & E).
      apply in_map_iff in Hi. destruct Hi as (s & <- & Hs). apply N.eqb_eq in E.
      rewrite (lv_nodup_map_inj tid (all_tables v) t s); auto.
      now apply version_inv_nodup.
    - intros H. apply existsb_exists. exists (tid t). split; [now apply in_map|apply N.eqb_refl].
  Qed.

  Lemma lv_kept_iff X t :
    (forall x, In x X -> In x (all_tables v)) ->
    (In t (kept ids X) <-> In t X /\ ~ In t S).
  Proof.
    intros HX. unfold kept. rewrite filter_In. split.
    - intros [H1 H2]. split; [exact H1|]. intros HS. apply (lv_chosen_iff t (HX t H1)) in HS.
      rewrite HS in H2. discriminate.
    - intros [H1 H2]. split; [exact H1|]. destruct (id_in ids t) eqn:E; [|reflexivity].
      apply (lv_chosen_iff t (HX t H1)) in E. contradiction.
  Qed.

  Lemma lv_compact_in_iff t : In t (compact_in v ids) <-> In t S.
  Proof.
    unfold compact_in. rewrite filter_In. split.
    - intros [H1 H2]. now apply (lv_chosen_iff t H1).
    - intros H. split; [auto|]. apply lv_chosen_iff; auto.
  Qed.

  Lemma lv_ids_exist : ids_exist v ids = true.
  Proof.
    unfold ids_exist, ids. apply forallb_forall. intros i Hi. apply in_map_iff in Hi.
    destruct Hi as (t & <- & Ht). apply existsb_exists. exists t.
    split; [auto|apply N.eqb_refl].
  Qed.

  Lemma lv_firstn_all t : In t (tables_of (firstn dest (levels v))) -> In t (all_tables v).
  Proof. rewrite all_tables_tables_of. apply tables_of_firstn_In. Qed.

  Lemma lv_skipn_all t : In t (tables_of (skipn dest (levels v))) -> In t (all_tables v).
  Proof. rewrite all_tables_tables_of. apply tables_of_skipn_In. Qed.

  (** (P2) every other table above [dest] is newer than every chosen table;
      (P3) every chosen table is newer than every other table at [dest] or below *)
  Hypothesis P2 : forall t c, In t (tables_of (firstn dest (levels v))) -> ~ In t S -> In c S ->
                              tnewer t c.
  Hypothesis P3 : forall t c, In t (tables_of (skipn dest (levels v))) -> ~ In t S -> In c S ->
                              tnewer c t.

  (** any tables whose entries all stem from chosen tables can be placed at the front of
      level [dest] *)
  Lemma lv_place_ok new :
    (forall t e, In t new -> In e (ents t) -> exists c, In c S /\ In e (ents c)) ->
    place_ok v ids new dest = true.
  Proof.
    intros Hnew. unfold place_ok. apply andb_true_iff. split; apply vs_all_newer_iff.
    - intros x y Hx Hy. apply (lv_kept_iff _ x lv_firstn_all) in Hx. destruct Hx as [Hx1 Hx2].
      apply lv_tnewer_iff. intros e e' He He' Hk.
      destruct (Hnew y e' Hy He') as (c & Hc & Hec).
      pose proof (P2 x c Hx1 Hx2 Hc) as T. rewrite lv_tnewer_iff in T. eauto.
    - intros y x Hy Hx. apply (lv_kept_iff _ x lv_skipn_all) in Hx. destruct Hx as [Hx1 Hx2].
      apply lv_tnewer_iff. intros e e' He He' Hk.
      destruct (Hnew y e Hy He) as (c & Hc & Hec).
      pose proof (P3 x c Hx1 Hx2 Hc) as T. rewrite lv_tnewer_iff in T. eauto.
  Qed.

  Lemma lv_move_choice_ok : move_choice_ok v ids dest = true.
  Proof.
    unfold move_choice_ok. apply lv_place_ok. intros t e Ht He. exists t. split; [|exact He].
    apply filter_In in Ht. destruct Ht as [H1 H2]. now apply (lv_chosen_iff t H1).
  Qed.

  (** (P4) when tombstones get evicted: EVERY other table is newer than every chosen one
      (with (P3): the tables left at the last level share no key with the chosen ones) *)
  Lemma lv_evict_ok W :
    (forall t c, In t (all_tables v) -> ~ In t S -> In c S -> tnewer t c) ->
    evict_ok v ids (compact_merged v ids) (compact_out W dest v ids) = true.
  Proof.
    intros P4. unfold evict_ok. apply forallb_forall. intros e He.
    apply orb_true_iff. right. apply forallb_forall. intros t Ht.
    apply forallb_forall. intros e' He'.
    destruct (key_eqb (ukey e') (ukey e)) eqn:E; [|reflexivity]. key_prop. cbn [negb orb].
    apply N.ltb_lt.
    destruct (compact_facts v ids W dest HV) as (_ & _ & _ & Pm & _).
    apply (Permutation_in _ Pm) in He. apply in_concat_map_ents in He.
    destruct He as (c & Hc & Hec). apply lv_compact_in_iff in Hc.
    apply (lv_kept_iff _ t (fun x H => H)) in Ht. destruct Ht as [Ht1 Ht2].
    pose proof (P4 t c Ht1 Ht2 Hc) as T. rewrite lv_tnewer_iff in T. eauto.
  Qed.
End Chosen.


(** * 6. The conclusions, bundled *)

(** the conjuncts of [mop_ok st (MMove ids dest)] that concern the choice *)
Definition move_facts (v : version) (ids : list N) (dest : nat) : Prop :=
  ids_nonempty ids = true /\ nodup_N_b ids = true /\ ids_exist v ids = true /\
  Nat.ltb dest 7 = true /\ move_choice_ok v ids dest = true.

(** the conjuncts of [mop_ok st (MCompact ids dest W cuts)] that concern the choice;
    [merge_choice_ok] for ANY legal run of fresh tables whose entries stem from the chosen
    tables (in particular for what the MultiWriter builds from the compaction stream) *)
Definition merge_facts (v : version) (ids : list N) (dest : nat) : Prop :=
  ids_nonempty ids = true /\ nodup_N_b ids = true /\ ids_exist v ids = true /\
  contig_ok v ids = true /\ Nat.ltb dest 7 = true /\
  (forall new,
     opt_run_ok new = true ->
     nodup_N_b (map tid (new ++ kept ids (all_tables v))) = true ->
     (forall t e, In t new -> In e (ents t) ->
                  exists c, In c (compact_in v ids) /\ In e (ents c)) ->
     merge_choice_ok v ids new dest = true) /\
  (forall W, is_last_level dest = true ->
     evict_ok v ids (compact_merged v ids) (compact_out W dest v ids) = true).

Lemma lv_nodup_map_sub {A B} (f : A -> B) l s :
  NoDup (map f l) -> (forall x, In x s -> In x l) -> NoDup s -> NoDup (map f s).
Proof.
  intros N Hs. induction s as [|x s IH]; cbn [map]; intros Ns; [constructor|].
  inversion Ns as [|? ? N1 N2]; subst. constructor.
  - intros H. apply in_map_iff in H. destruct H as (y & E & Hy). apply N1.
    rewrite <- (lv_nodup_map_inj f l y x N); auto; apply Hs; [now right|now left].
  - apply IH; auto. intros y Hy. apply Hs. now right.
Qed.

Lemma lv_nodup_app_disj {A} (a b : list A) x : NoDup (a ++ b) -> In x a -> In x b -> False.
Proof.
  induction a as [|y a IH]; [contradiction|]. cbn [app]. intros N Ha Hb.
  inversion N as [|? ? N1 N2]; subst. destruct Ha as [<-|Ha].
  - apply N1. apply in_or_app. now right.
  - eauto.
Qed.

Lemma lv_nodup_app_intro {A} (a b : list A) :
  NoDup a -> NoDup b -> (forall x, In x a -> In x b -> False) -> NoDup (a ++ b).
Proof.
  induction a as [|y a IH]; cbn [app]; intros Na Nb D; [exact Nb|].
  inversion Na as [|? ? N1 N2]; subst. constructor.
  - intros H. apply in_app_or in H. destruct H as [H|H]; [auto|]. apply (D y); [now left|exact H].
  - apply IH; auto. intros x Hx. apply D. now right.
Qed.

Lemma lv_nodup_app_r {A} (a b : list A) : NoDup (a ++ b) -> NoDup b.
Proof.
  induction a as [|x a IH]; cbn [app]; [auto|]. intros N. inversion N; subst. auto.
Qed.

Lemma lv_nodup_app_l {A} (a b : list A) : NoDup (a ++ b) -> NoDup a.
Proof.
  induction a as [|x a IH]; cbn [app]; intros N; [constructor|].
  inversion N as [|? ? N1 N2]; subst. constructor; [|auto].
  intros H. apply N1. apply in_or_app. now left.
Qed.

Lemma lv_nodup_segment {A} (w l : list A) : segment w l -> NoDup l -> NoDup w.
Proof.
  intros (a & b & ->) N. apply lv_nodup_app_r in N. now apply lv_nodup_app_l in N.
Qed.

Lemma lv_trec_segment w l : segment w l -> trec l -> trec w.
Proof.
  intros (a & b & ->) R. apply vs_trec_app in R. destruct R as (_ & R & _).
  apply vs_trec_app in R. tauto.
Qed.

(** ** contiguity *)

Lemma lv_drop_unchosen_none ids a :
  (forall t, In t a -> id_in ids t = false) -> drop_unchosen ids a = [].
Proof.
  induction a as [|x a IH]; intros H; cbn [drop_unchosen]; [reflexivity|].
  rewrite (H x) by now left. apply IH. intros t Ht. apply H. now right.
Qed.

Lemma lv_drop_unchosen_app ids a r :
  (forall t, In t a -> id_in ids t = false) -> drop_unchosen ids (a ++ r) = drop_unchosen ids r.
Proof.
  induction a as [|x a IH]; intros H; cbn [app drop_unchosen]; [reflexivity|].
  rewrite (H x) by now left. apply IH. intros t Ht. apply H. now right.
Qed.

Lemma lv_run_span_mid ids a m b :
  (forall t, In t a -> id_in ids t = false) -> (forall t, In t b -> id_in ids t = false) ->
  (forall t, In t m -> id_in ids t = true) ->
  forallb (id_in ids) (run_span ids (a ++ m ++ b)) = true.
Proof.
  intros Ha Hb Hm. unfold run_span. rewrite (lv_drop_unchosen_app ids a) by exact Ha.
  destruct m as [|x m].
  - cbn [app]. rewrite (lv_drop_unchosen_none ids b) by exact Hb. reflexivity.
  - cbn [app drop_unchosen]. rewrite (Hm x) by now left.
    change (x :: m ++ b) with ((x :: m) ++ b). rewrite rev_app_distr.
    rewrite lv_drop_unchosen_app by (intros t Ht; apply Hb; now apply in_rev).
    destruct (rev (x :: m)) as [|y z] eqn:E.
    + reflexivity.
    + cbn [drop_unchosen]. assert (In y (x :: m)) as Hy.
      { apply in_rev. rewrite E. now left. }
      rewrite (Hm y Hy). rewrite <- E, rev_involutive. apply forallb_forall. exact Hm.
Qed.

(** ** from the order conditions to the bundles *)

Section Intro.
  Variables (v : version) (S : list table) (dest : nat).
  Hypothesis HV : version_inv v = true.
  Hypothesis HSin : forall t, In t S -> In t (all_tables v).
  Hypothesis HSnd : NoDup S.
  Hypothesis HSne : S <> [].
  Hypothesis Hdest : (dest < 7)%nat.
  Hypothesis P2 : forall t c, In t (tables_of (firstn dest (levels v))) -> ~ In t S -> In c S ->
                              tnewer t c.
  Hypothesis P3 : forall t c, In t (tables_of (skipn dest (levels v))) -> ~ In t S -> In c S ->
                              tnewer c t.

  Lemma lv_ids_nodup : nodup_N_b (map tid S) = true.
  Proof.
    apply vs_nodup_N_b. apply (lv_nodup_map_sub tid (all_tables v)); auto.
    now apply version_inv_nodup.
  Qed.

  Lemma lv_ids_nonempty : ids_nonempty (map tid S) = true.
  Proof. destruct S; [congruence|reflexivity]. Qed.

  Lemma lv_move_facts_intro : move_facts v (map tid S) dest.
  Proof.
    unfold move_facts. split; [exact lv_ids_nonempty|]. split; [exact lv_ids_nodup|].
    split; [now apply lv_ids_exist|]. split; [now apply Nat.ltb_lt|].
    now apply lv_move_choice_ok.
  Qed.

  Lemma lv_merge_facts_intro :
    contig_ok v (map tid S) = true ->
    (dest = last_level ->
     forall t c, In t (all_tables v) -> ~ In t S -> In c S -> tnewer t c) ->
    merge_facts v (map tid S) dest.
  Proof.
    intros HC P4. unfold merge_facts.
    split; [exact lv_ids_nonempty|]. split; [exact lv_ids_nodup|].
    split; [now apply lv_ids_exist|]. split; [exact HC|]. split; [now apply Nat.ltb_lt|]. split.
    - intros new Hrun Hnd Hents. unfold merge_choice_ok. rewrite Hrun, Hnd. cbn [andb].
      apply lv_place_ok; auto. intros t e Ht He.
      destruct (Hents t e Ht He) as (c & Hc & Hec). exists c. split; [|exact Hec].
      now apply (lv_compact_in_iff v S HV HSin).
    - intros W HL. apply lv_evict_ok; auto. apply P4.
      unfold is_last_level in HL. now apply Nat.eqb_eq in HL.
  Qed.
End Intro.

(** ** the facts behind [version_inv] *)

Record vctx (v : version) : Prop := mk_vctx {
  vc_len : length (levels v) = 7%nat;
  vc_ok : levels_ok (levels v);
  vc_ndt : NoDup (map tid (all_tables v));
  vc_nd : NoDup (tables_of (levels v));
  vc_rec : trec (tables_of (levels v)) }.

Lemma lv_vctx v : version_inv v = true -> vctx v.
Proof.
  intros H. pose proof (version_inv_nodup v H) as N.
  apply vs_version_inv_iff in H. destruct H as (H1 & H2 & H3 & H4).
  constructor; auto. rewrite <- all_tables_tables_of. eapply NoDup_map_inv; eauto.
Qed.

Lemma lv_at_level_all v i t : at_level (levels v) i t -> In t (all_tables v).
Proof. intros H. rewrite all_tables_tables_of. apply lv_tables_of_In. eauto. Qed.

Lemma lv_at_unique ls i j t :
  NoDup (tables_of ls) -> at_level ls i t -> at_level ls j t -> i = j.
Proof.
  intros N Hi Hj.
  assert (forall a b, (a < b)%nat -> at_level ls a t -> at_level ls b t -> False) as G.
  { intros a b Hab Ha Hb. rewrite <- (firstn_skipn b ls), vs_tables_of_app in N.
    apply (lv_nodup_app_disj _ _ t N).
    - apply lv_firstn_In. eauto.
    - apply lv_skipn_In. eauto. }
  destruct (Nat.lt_trichotomy i j) as [H|[H|H]]; [exfalso; eauto|exact H|exfalso; eauto].
Qed.

Lemma lv_nth_error_level (ls : list level) i L :
  nth_error ls i = Some L -> nth i ls [] = L /\ (i < length ls)%nat.
Proof.
  intros H. split; [now apply nth_error_nth|]. apply nth_error_Some. congruence.
Qed.

(** the tables of level [i] form a piece of the table list *)
Lemma lv_level_segment (ls : list level) i L :
  nth_error ls i = Some L -> segment (concat L) (tables_of ls).
Proof.
  intros H. apply nth_error_split in H. destruct H as (l1 & l2 & -> & _).
  exists (tables_of l1), (tables_of l2).
  now rewrite vs_tables_of_app, vs_tables_of_cons.
Qed.

Lemma lv_run_segment (L : level) r : In r L -> segment r (concat L).
Proof.
  intros H. apply in_split in H. destruct H as (l1 & l2 & ->).
  exists (concat l1), (concat l2). now rewrite concat_app.
Qed.

(** every run of the version sits in some level *)
Lemma lv_all_runs_In v r : In r (all_runs v) <-> exists i, In r (nth i (levels v) []).
Proof.
  unfold all_runs. split.
  - intros H. apply in_concat in H. destruct H as (L & HL & Hr).
    destruct (In_nth _ _ [] HL) as (i & _ & E). exists i. subst L. exact Hr.
  - intros (i & H). destruct (Nat.lt_ge_cases i (length (levels v))) as [Hi|Hi].
    + apply in_concat. exists (nth i (levels v) []). split; [now apply nth_In|exact H].
    + rewrite nth_overflow in H by exact Hi. destruct H.
Qed.

Lemma lv_run_at_level ls i r t : In r (nth i ls []) -> In t r -> at_level ls i t.
Proof. intros Hr Ht. unfold at_level. apply in_concat. eauto. Qed.


(** * 7. The four shapes of a Leveled choice *)

Lemma lv_at_level_eq (ls : list level) i L t :
  nth_error ls i = Some L -> (at_level ls i t <-> In t (concat L)).
Proof. intros H. unfold at_level. now rewrite (nth_error_nth ls i [] H). Qed.

Lemma lv_nth_level (ls : list level) i L : nth_error ls i = Some L -> nth i ls [] = L.
Proof. apply nth_error_nth. Qed.

Lemma lv_nth_In (ls : list level) i L (r : run) :
  nth_error ls i = Some L -> (In r (nth i ls []) <-> In r L).
Proof. intros H. now rewrite (lv_nth_level ls i L H). Qed.

Lemma lv_single_run_of (ls : list level) i L :
  nth_error ls i = Some L -> (length L <= 1)%nat -> single_run ls i.
Proof. intros H Hl. unfold single_run. now rewrite (lv_nth_level ls i L H). Qed.

Lemma lv_outside_no_overlap t c (kr : krange) :
  key_le (fst kr) (kmin c) -> key_le (kmax c) (snd kr) ->
  key_lt (kmax t) (fst kr) \/ key_lt (snd kr) (kmin t) ->
  kr_overlaps t c = false.
Proof.
  intros H1 H2 [H|H]; unfold kr_overlaps; apply andb_false_iff; [left|right]; key_prop.
  - eapply key_lt_le_trans; eauto.
  - eapply key_le_lt_trans; eauto.
Qed.

(** ** A. all of L0 moves down past empty levels *)
Lemma lv_l0_move v l0 dest :
  version_inv v = true -> nth_error (levels v) 0 = Some l0 -> concat l0 <> [] ->
  (1 <= dest < 7)%nat -> (forall i, (1 <= i < dest)%nat -> nth i (levels v) [] = []) ->
  move_facts v (level_list_ids l0) dest.
Proof.
  intros HV E0 Hne Hd Hempty. pose proof (lv_vctx v HV) as C.
  unfold level_list_ids. apply lv_move_facts_intro; auto; try lia.
  - intros t Ht. apply (lv_at_level_all v 0). now apply (lv_at_level_eq _ _ _ _ E0).
  - eapply lv_nodup_segment; [eapply lv_level_segment; eauto|apply (vc_nd _ C)].
  - intros t c Ht Hn _. exfalso. apply lv_firstn_In in Ht. destruct Ht as (i & Hi & Ht).
    destruct i as [|i].
    + apply Hn. now apply (lv_at_level_eq _ _ _ _ E0).
    + unfold at_level in Ht. rewrite Hempty in Ht by lia. destruct Ht.
  - intros t c Ht _ Hc. apply lv_skipn_In in Ht. destruct Ht as (i & Hi & Ht).
    apply (lv_rec_levels (levels v) 0 i); [apply (vc_rec _ C)|lia| |exact Ht].
    now apply (lv_at_level_eq _ _ _ _ E0).
Qed.

(** ** B. all of L0 is merged with the tables of level [c] it overlaps *)

Lemma lv_level_overlapping_split (tl : level) kr :
  (forall r, In r tl -> rs r) -> (length tl <= 1)%nat ->
  exists a b,
    (forall r, In r tl -> r = a ++ level_overlapping tl kr ++ b) /\
    concat tl = a ++ level_overlapping tl kr ++ b /\
    (forall t, In t a -> key_lt (kmax t) (fst kr)) /\
    (forall t, In t b -> key_lt (snd kr) (kmin t)).
Proof.
  intros Hrs Hl. destruct tl as [|tr [|tr' tl]]; [| |cbn [length] in Hl; lia].
  - exists [], []. cbn. repeat split; auto; intros ? [].
  - destruct (lv_get_overlapping_split tr kr (Hrs tr (or_introl eq_refl))) as (a & b & E & Ha & Hb).
    exists a, b. unfold level_overlapping. cbn [flat_map concat]. rewrite !app_nil_r.
    repeat split; auto. intros r [<-|[]]. exact E.
Qed.

Lemma lv_l0_merge v l0 tl c :
  version_inv v = true -> nth_error (levels v) 0 = Some l0 -> concat l0 <> [] ->
  (1 <= c < 7)%nat -> (forall i, (1 <= i < c)%nat -> nth i (levels v) [] = []) ->
  nth_error (levels v) c = Some tl -> (length tl <= 1)%nat ->
  merge_facts v (level_list_ids l0 ++
                 map tid (level_overlapping tl (level_aggregate_key_range l0))) c.
Proof.
  intros HV E0 Hne Hc Hempty Ec Hone. pose proof (lv_vctx v HV) as C.
  set (kr := level_aggregate_key_range l0).
  assert (forall i r, In r (nth i (levels v) []) -> rs r) as Hrs.
  { intros i r Hr. apply lv_run_ok_rs. eapply lv_level_runs_ok; [apply (vc_ok _ C)|exact Hr]. }
  destruct (lv_level_overlapping_split tl kr) as (a & b & Hruns & Econ & Ha & Hb); auto.
  { intros r Hr. apply (Hrs c). now apply (lv_nth_In _ _ _ _ Ec). }
  set (over := level_overlapping tl kr) in *.
  unfold level_list_ids. rewrite <- map_app.
  assert (forall t, In t over -> at_level (levels v) c t) as Hover.
  { intros t Ht. apply (lv_at_level_eq _ _ _ _ Ec). rewrite Econ.
    apply in_or_app. right. apply in_or_app. now left. }
  assert (forall t, In t (concat l0 ++ over) ->
                    at_level (levels v) 0 t \/ at_level (levels v) c t) as HSlev.
  { intros t Ht. apply in_app_or in Ht. destruct Ht as [Ht|Ht]; [left|right; auto].
    now apply (lv_at_level_eq _ _ _ _ E0). }
  assert (NoDup (concat tl)) as Ntl.
  { eapply lv_nodup_segment; [eapply lv_level_segment; eauto|apply (vc_nd _ C)]. }
  assert (forall t, In t (concat l0 ++ over) -> In t (all_tables v)) as HSin.
  { intros t Ht. destruct (HSlev t Ht); eapply lv_at_level_all; eauto. }
  assert (single_run (levels v) c) as Hsingle.
  { eapply lv_single_run_of; eauto. }
  (* nothing else sits above [c] *)
  assert (forall t i, (i < c)%nat -> at_level (levels v) i t -> In t (concat l0 ++ over)) as Habove.
  { intros t i Hi Ht. destruct i as [|i].
    - apply in_or_app. left. now apply (lv_at_level_eq _ _ _ _ E0).
    - unfold at_level in Ht. rewrite Hempty in Ht by lia. destruct Ht. }
  apply lv_merge_facts_intro; auto; try lia.
  - (* NoDup *)
    apply lv_nodup_app_intro.
    + eapply lv_nodup_segment; [eapply lv_level_segment; eauto|apply (vc_nd _ C)].
    + eapply lv_nodup_segment; [|exact Ntl]. exists a, b. exact Econ.
    + intros t H0 H1. apply (lv_at_level_eq _ _ _ _ E0) in H0. apply Hover in H1.
      pose proof (lv_at_unique _ _ _ _ (vc_nd _ C) H0 H1). lia.
  - intros E. apply app_eq_nil in E. destruct E as [E _]. contradiction.
  - (* P2 *)
    intros t cs Ht Hn _. exfalso. apply lv_firstn_In in Ht. destruct Ht as (i & Hi & Ht).
    apply Hn. eapply Habove; eauto.
  - (* P3 *)
    intros t cs Ht Hn Hcs. apply lv_skipn_In in Ht. destruct Ht as (i & Hi & Ht).
    apply in_app_or in Hcs. destruct Hcs as [Hcs|Hcs].
    + apply (lv_rec_levels (levels v) 0 i); [apply (vc_rec _ C)|lia| |exact Ht].
      now apply (lv_at_level_eq _ _ _ _ E0).
    + destruct (Nat.eq_dec i c) as [->|Hne'].
      * apply (lv_single_run_newer (levels v) c); auto; [apply (vc_ok _ C)|].
        intros ->. apply Hn. apply in_or_app. now right.
      * apply (lv_rec_levels (levels v) c i); [apply (vc_rec _ C)|lia|auto|exact Ht].
  - (* contiguity *)
    unfold contig_ok. apply forallb_forall. intros r Hr.
    apply lv_all_runs_In in Hr. destruct Hr as (i & Hr).
    assert (forall t, In t r -> In t (all_tables v)) as Hrall.
    { intros t Ht. eapply lv_at_level_all. eapply lv_run_at_level; eauto. }
    destruct (Nat.eq_dec i 0) as [->|Hi0]; [|destruct (Nat.eq_dec i c) as [->|Hic]].
    + rewrite <- (app_nil_r r). change (r ++ []) with ([] ++ r ++ []).
      apply lv_run_span_mid; try (intros t []).
      intros t Ht. apply (lv_chosen_iff v _ HV HSin t (Hrall t Ht)).
      apply in_or_app. left. apply (lv_at_level_eq _ _ _ _ E0). eapply lv_run_at_level; eauto.
    + apply (lv_nth_In _ _ _ _ Ec) in Hr. pose proof (Hruns r Hr) as Er.
      assert (NoDup r) as Nr.
      { eapply lv_nodup_segment; [apply lv_run_segment; exact Hr|exact Ntl]. }
      assert (forall t, In t r -> In t (concat l0 ++ over) -> In t over) as Hr_over.
      { intros t Ht HS. apply in_app_or in HS. destruct HS as [HS|HS]; [|exact HS]. exfalso.
        apply (lv_at_level_eq _ _ _ _ E0) in HS.
        assert (at_level (levels v) c t) as Hl.
        { apply (lv_at_level_eq _ _ _ _ Ec). apply in_concat. eauto. }
        pose proof (lv_at_unique _ _ _ _ (vc_nd _ C) HS Hl). lia. }
      rewrite Er in Nr, Hrall, Hr_over |- *. apply lv_run_span_mid.
      * intros t Ht. destruct (id_in (map tid (concat l0 ++ over)) t) eqn:Ei; [|reflexivity].
        exfalso. apply (lv_chosen_iff v _ HV HSin t) in Ei;
          [|apply Hrall; apply in_or_app; now left].
        apply (lv_nodup_app_disj _ _ t Nr Ht). apply in_or_app. left.
        apply Hr_over; [apply in_or_app; now left|exact Ei].
      * intros t Ht. destruct (id_in (map tid (concat l0 ++ over)) t) eqn:Ei; [|reflexivity].
        exfalso. apply (lv_chosen_iff v _ HV HSin t) in Ei;
          [|apply Hrall; apply in_or_app; right; apply in_or_app; now right].
        rewrite app_assoc in Nr. apply (lv_nodup_app_disj _ _ t Nr); [|exact Ht].
        apply in_or_app. right. apply Hr_over; [|exact Ei].
        apply in_or_app. right. apply in_or_app. now right.
      * intros t Ht. apply (lv_chosen_iff v _ HV HSin t).
        -- apply Hrall. apply in_or_app. right. apply in_or_app. now left.
        -- apply in_or_app. now right.
    + rewrite <- (app_nil_r r). change (r ++ []) with (r ++ [] ++ []).
      apply lv_run_span_mid; try (intros t []).
      intros t Ht. destruct (id_in (map tid (concat l0 ++ over)) t) eqn:Ei; [|reflexivity].
      exfalso. apply (lv_chosen_iff v _ HV HSin t (Hrall t Ht)) in Ei.
      pose proof (lv_run_at_level _ _ _ _ Hr Ht) as Hl.
      destruct (HSlev t Ei) as [H|H]; pose proof (lv_at_unique _ _ _ _ (vc_nd _ C) H Hl); lia.
  - (* P4 *)
    intros Ed t cs Ht Hn Hcs. rewrite all_tables_tables_of in Ht. apply lv_tables_of_In in Ht.
    destruct Ht as (i & Ht).
    destruct (Nat.lt_ge_cases i c) as [Hi|Hi]; [exfalso; apply Hn; eapply Habove; eauto|].
    assert (i = c) as ->.
    { destruct (Nat.lt_ge_cases i (length (levels v))) as [Hi'|Hi'].
      - rewrite (vc_len _ C) in Hi'. unfold last_level in Ed. lia.
      - unfold at_level in Ht. rewrite nth_overflow in Ht by exact Hi'. destruct Ht. }
    apply in_app_or in Hcs. destruct Hcs as [Hcs|Hcs].
    + apply vs_no_overlap_newer.
      * eapply lv_at_level_tkeys; [apply (vc_ok _ C)|exact Ht].
      * eapply (lv_at_level_tkeys _ 0); [apply (vc_ok _ C)|].
        now apply (lv_at_level_eq _ _ _ _ E0).
      * destruct (lv_level_agg_cover l0 cs) as [K1 K2]; auto.
        { intros r Hr. apply (Hrs 0%nat). now apply (lv_nth_In _ _ _ _ E0). }
        apply (lv_outside_no_overlap t cs kr K1 K2).
        apply (lv_at_level_eq _ _ _ _ Ec) in Ht. rewrite Econ in Ht.
        apply in_app_or in Ht. destruct Ht as [Ht|Ht]; [left; auto|].
        apply in_app_or in Ht. destruct Ht as [Ht|Ht]; [|right; auto].
        exfalso. apply Hn. apply in_or_app. now right.
    + apply (lv_single_run_newer (levels v) c); auto; [apply (vc_ok _ C)|].
      intros ->. apply Hn. apply in_or_app. now right.
Qed.


(** ** C. a piece of the only run of level [lvl] moves one level down *)
Lemma lv_ln_move v lvl curr_run w :
  version_inv v = true -> nth_error (levels v) lvl = Some [curr_run] -> (S lvl < 7)%nat ->
  segment w curr_run -> w <> [] ->
  move_facts v (map tid w) (S lvl).
Proof.
  intros HV El Hd Hseg Hne. pose proof (lv_vctx v HV) as C.
  assert (forall t, In t w -> at_level (levels v) lvl t) as Hw.
  { intros t Ht. apply (lv_at_level_eq _ _ _ _ El). cbn [concat]. rewrite app_nil_r.
    eapply lv_segment_In; eauto. }
  apply lv_move_facts_intro; auto.
  - intros t Ht. eapply lv_at_level_all; eauto.
  - eapply lv_nodup_segment; [exact Hseg|].
    eapply lv_nodup_segment; [|apply (vc_nd _ C)].
    eapply lv_segment_trans; [|eapply lv_level_segment; eauto].
    apply lv_run_segment. now left.
  - intros t c Ht Hn Hc. apply lv_firstn_In in Ht. destruct Ht as (i & Hi & Ht).
    destruct (Nat.eq_dec i lvl) as [->|Hne'].
    + apply (lv_single_run_newer (levels v) lvl); auto; [apply (vc_ok _ C)| |congruence].
      eapply lv_single_run_of; eauto.
    + apply (lv_rec_levels (levels v) i lvl); [apply (vc_rec _ C)|lia|exact Ht|auto].
  - intros t c Ht _ Hc. apply lv_skipn_In in Ht. destruct Ht as (i & Hi & Ht).
    apply (lv_rec_levels (levels v) lvl i); [apply (vc_rec _ C)|lia|auto|exact Ht].
Qed.

(** ** D. a piece [w] of the first run of level [lvl + 1] is merged with the tables [p] of
    the only run of level [lvl] that lie inside the key range of [w] *)
Lemma lv_ln_merge v lvl curr_run nr rest_n p w :
  version_inv v = true -> nth_error (levels v) lvl = Some [curr_run] ->
  nth_error (levels v) (S lvl) = Some (nr :: rest_n) ->
  (S lvl = last_level -> rest_n = []) ->
  segment p curr_run -> segment w nr -> w <> [] ->
  (forall t, In t p -> kr_contains (agg_range w) t = true) ->
  merge_facts v (map tid p ++ map tid w) (S lvl).
Proof.
  intros HV El En Hlast Hp Hw Hne Hcont. pose proof (lv_vctx v HV) as C.
  assert (S lvl < 7)%nat as Hd.
  { rewrite <- (vc_len _ C). apply nth_error_Some. congruence. }
  rewrite <- map_app.
  assert (forall t, In t curr_run <-> at_level (levels v) lvl t) as Hcur.
  { intros t. rewrite (lv_at_level_eq _ _ _ _ El). cbn [concat]. now rewrite app_nil_r. }
  assert (forall t, In t nr -> at_level (levels v) (S lvl) t) as Hnr.
  { intros t Ht. apply (lv_at_level_eq _ _ _ _ En). cbn [concat]. apply in_or_app. now left. }
  assert (forall t, In t p -> at_level (levels v) lvl t) as Hpl.
  { intros t Ht. apply Hcur. eapply lv_segment_In; eauto. }
  assert (forall t, In t w -> at_level (levels v) (S lvl) t) as Hwl.
  { intros t Ht. apply Hnr. eapply lv_segment_In; eauto. }
  assert (forall t, In t (p ++ w) -> In t (all_tables v)) as HSin.
  { intros t Ht. apply in_app_or in Ht. destruct Ht as [Ht|Ht]; eapply lv_at_level_all; eauto. }
  assert (single_run (levels v) lvl) as Hsingle by (eapply lv_single_run_of; eauto).
  assert (NoDup curr_run) as Ncur.
  { eapply lv_nodup_segment; [|apply (vc_nd _ C)].
    eapply lv_segment_trans; [|apply (lv_level_segment _ _ _ El)]. apply lv_run_segment. now left. }
  assert (NoDup (nr ++ concat rest_n)) as Nnext.
  { eapply lv_nodup_segment; [|apply (vc_nd _ C)].
    apply (lv_level_segment _ _ _ En). }
  assert (run_ok nr = true) as Hnr_ok.
  { eapply (lv_level_runs_ok (levels v) (S lvl)); [apply (vc_ok _ C)|].
    apply (lv_nth_In _ _ _ _ En). now left. }
  assert (forall t, ~ (at_level (levels v) lvl t /\ at_level (levels v) (S lvl) t)) as Hdiff.
  { intros t [H1 H2]. pose proof (lv_at_unique _ _ _ _ (vc_nd _ C) H1 H2). lia. }
  apply lv_merge_facts_intro; auto.
  - (* NoDup *)
    apply lv_nodup_app_intro.
    + eapply lv_nodup_segment; eauto.
    + eapply lv_nodup_segment; [exact Hw|]. eapply lv_nodup_app_l; eauto.
    + intros t H1 H2. apply (Hdiff t). auto.
  - intros E. apply app_eq_nil in E. destruct E as [_ E]. contradiction.
  - (* P2 *)
    intros t c Ht Hn Hc. apply lv_firstn_In in Ht. destruct Ht as (i & Hi & Ht).
    apply in_app_or in Hc. destruct Hc as [Hc|Hc].
    + destruct (Nat.eq_dec i lvl) as [->|Hne'].
      * apply (lv_single_run_newer (levels v) lvl); auto; [apply (vc_ok _ C)|].
        intros ->. apply Hn. apply in_or_app. now left.
      * apply (lv_rec_levels (levels v) i lvl); [apply (vc_rec _ C)|lia|exact Ht|auto].
    + apply (lv_rec_levels (levels v) i (S lvl)); [apply (vc_rec _ C)|lia|exact Ht|auto].
  - (* P3 *)
    intros t c Ht Hn Hc. apply lv_skipn_In in Ht. destruct Ht as (i & Hi & Ht).
    apply in_app_or in Hc. destruct Hc as [Hc|Hc].
    + apply (lv_rec_levels (levels v) lvl i); [apply (vc_rec _ C)|lia|auto|exact Ht].
    + destruct (Nat.eq_dec i (S lvl)) as [->|Hne'].
      * apply (lv_at_level_eq _ _ _ _ En) in Ht. cbn [concat] in Ht.
        apply in_app_or in Ht. destruct Ht as [Ht|Ht].
        -- apply (lv_same_run_newer nr); auto; [eapply lv_segment_In; eauto|].
           intros ->. apply Hn. apply in_or_app. now right.
        -- assert (trec (nr ++ concat rest_n)) as R.
           { eapply lv_trec_segment; [|apply (vc_rec _ C)]. apply (lv_level_segment _ _ _ En). }
           apply vs_trec_app in R. destruct R as (_ & _ & R). apply R; auto.
           eapply lv_segment_In; eauto.
      * apply (lv_rec_levels (levels v) (S lvl) i); [apply (vc_rec _ C)|lia|auto|exact Ht].
  - (* contiguity *)
    unfold contig_ok. apply forallb_forall. intros r Hr.
    apply lv_all_runs_In in Hr. destruct Hr as (i & Hr).
    assert (forall t, In t r -> In t (all_tables v)) as Hrall.
    { intros t Ht. eapply lv_at_level_all. eapply lv_run_at_level; eauto. }
    assert (forall t, In t r -> id_in (map tid (p ++ w)) t = true -> In t (p ++ w)) as Hch.
    { intros t Ht Ei. now apply (lv_chosen_iff v _ HV HSin t (Hrall t Ht)). }
    assert (forall (m : list table), (forall t, In t m -> In t r) ->
              (forall t, In t m -> In t (p ++ w)) ->
              forall t, In t m -> id_in (map tid (p ++ w)) t = true) as Hin.
    { intros m Hmr HmS t Ht. apply (lv_chosen_iff v _ HV HSin t); auto. }
    assert (forall (m : list table), (forall t, In t m -> In t r) ->
              (forall t, In t m -> ~ In t (p ++ w)) ->
              forall t, In t m -> id_in (map tid (p ++ w)) t = false) as Hout.
    { intros m Hmr HmS t Ht. destruct (id_in (map tid (p ++ w)) t) eqn:Ei; [|reflexivity].
      exfalso. apply (HmS t Ht). apply Hch; auto. }
    destruct (Nat.eq_dec i lvl) as [->|Hil]; [|destruct (Nat.eq_dec i (S lvl)) as [->|Hin']].
    + apply (lv_nth_In _ _ _ _ El) in Hr. destruct Hr as [<-|[]].
      destruct Hp as (a & b & Ep). rewrite Ep in Ncur, Hout, Hin |- *.
      apply lv_run_span_mid.
      * apply Hout; [intros t Ht; apply in_or_app; now left|].
        intros t Ht HS. apply in_app_or in HS. destruct HS as [HS|HS].
        -- apply (lv_nodup_app_disj _ _ t Ncur Ht). apply in_or_app. now left.
        -- apply (Hdiff t). split; [|auto]. apply Hcur. rewrite Ep. apply in_or_app. now left.
      * apply Hout; [intros t Ht; apply in_or_app; right; apply in_or_app; now right|].
        intros t Ht HS. apply in_app_or in HS. destruct HS as [HS|HS].
        -- rewrite app_assoc in Ncur. apply (lv_nodup_app_disj _ _ t Ncur); [|exact Ht].
           apply in_or_app. now right.
        -- apply (Hdiff t). split; [|auto]. apply Hcur. rewrite Ep.
           apply in_or_app. right. apply in_or_app. now right.
      * apply Hin; [intros t Ht; apply in_or_app; right; apply in_or_app; now left|].
        intros t Ht. apply in_or_app. now left.
    + apply (lv_nth_In _ _ _ _ En) in Hr. destruct Hr as [<-|Hr].
      * destruct Hw as (a & b & Ew).
        assert (NoDup nr) as Nnr by (eapply lv_nodup_app_l; eauto).
        rewrite Ew in Nnr, Hout, Hin |- *.
        assert (forall t, In t (a ++ w ++ b) -> In t p -> False) as Hnp.
        { intros t Ht HS. apply (Hdiff t). split; [auto|]. apply Hnr. now rewrite Ew. }
        apply lv_run_span_mid.
        -- apply Hout; [intros t Ht; apply in_or_app; now left|].
           intros t Ht HS. apply in_app_or in HS. destruct HS as [HS|HS].
           ++ apply (Hnp t); [apply in_or_app; now left|exact HS].
           ++ apply (lv_nodup_app_disj _ _ t Nnr Ht). apply in_or_app. now left.
        -- apply Hout; [intros t Ht; apply in_or_app; right; apply in_or_app; now right|].
           intros t Ht HS. apply in_app_or in HS. destruct HS as [HS|HS].
           ++ apply (Hnp t); [apply in_or_app; right; apply in_or_app; now right|exact HS].
           ++ rewrite app_assoc in Nnr. apply (lv_nodup_app_disj _ _ t Nnr); [|exact Ht].
              apply in_or_app. now right.
        -- apply Hin; [intros t Ht; apply in_or_app; right; apply in_or_app; now left|].
           intros t Ht. apply in_or_app. now right.
      * rewrite <- (app_nil_r r). change (r ++ []) with (r ++ [] ++ []).
        apply lv_run_span_mid; try (intros t []).
        apply Hout; [auto|]. intros t Ht HS. apply in_app_or in HS. destruct HS as [HS|HS].
        -- apply (Hdiff t). split; [auto|]. apply (lv_at_level_eq _ _ _ _ En). cbn [concat].
           apply in_or_app. right. apply in_concat. eauto.
        -- apply (lv_nodup_app_disj _ _ t Nnext).
           ++ eapply lv_segment_In; eauto.
           ++ apply in_concat. eauto.
    + rewrite <- (app_nil_r r). change (r ++ []) with (r ++ [] ++ []).
      apply lv_run_span_mid; try (intros t []).
      apply Hout; [auto|]. intros t Ht HS.
      pose proof (lv_run_at_level _ _ _ _ Hr Ht) as Hl.
      apply in_app_or in HS. destruct HS as [HS|HS].
      * pose proof (lv_at_unique _ _ _ _ (vc_nd _ C) Hl (Hpl t HS)). lia.
      * pose proof (lv_at_unique _ _ _ _ (vc_nd _ C) Hl (Hwl t HS)). lia.
  - (* P4 *)
    intros Ed t c Ht Hn Hc. specialize (Hlast Ed). subst rest_n.
    rewrite all_tables_tables_of in Ht. apply lv_tables_of_In in Ht. destruct Ht as (i & Ht).
    assert (i <= S lvl)%nat as Hi.
    { destruct (Nat.lt_ge_cases i (length (levels v))) as [Hi'|Hi'].
      - rewrite (vc_len _ C) in Hi'. unfold last_level in Ed. lia.
      - unfold at_level in Ht. rewrite nth_overflow in Ht by exact Hi'. destruct Ht. }
    apply in_app_or in Hc. destruct Hc as [Hc|Hc].
    + (* c pulled in from level lvl *)
      destruct (Nat.eq_dec i (S lvl)) as [->|Hne1]; [|destruct (Nat.eq_dec i lvl) as [->|Hne2]].
      * apply (lv_at_level_eq _ _ _ _ En) in Ht. cbn [concat] in Ht. rewrite app_nil_r in Ht.
        apply vs_no_overlap_newer.
        -- eapply lv_at_level_tkeys; [apply (vc_ok _ C)|]. apply (Hnr t Ht).
        -- eapply lv_at_level_tkeys; [apply (vc_ok _ C)|]. apply (Hpl c Hc).
        -- specialize (Hcont c Hc). unfold kr_contains in Hcont.
           apply andb_true_iff in Hcont. destruct Hcont as [K1 K2]. key_prop.
           apply (lv_outside_no_overlap t c (agg_range w) K1 K2).
           destruct Hw as (a & b & Ew). pose proof (lv_run_ok_rs nr Hnr_ok) as Hrs.
           rewrite Ew in Hrs, Ht. destruct (lv_agg_outside a w b t Hrs Hne) as [Oa Ob].
           apply in_app_or in Ht. destruct Ht as [Ht|Ht]; [left; auto|].
           apply in_app_or in Ht. destruct Ht as [Ht|Ht]; [|right; auto].
           exfalso. apply Hn. apply in_or_app. now right.
      * apply (lv_single_run_newer (levels v) lvl); auto; [apply (vc_ok _ C)|].
        intros ->. apply Hn. apply in_or_app. now left.
      * apply (lv_rec_levels (levels v) i lvl); [apply (vc_rec _ C)|lia|exact Ht|auto].
    + (* c from the window in the last level *)
      destruct (Nat.eq_dec i (S lvl)) as [->|Hne1].
      * apply (lv_at_level_eq _ _ _ _ En) in Ht. cbn [concat] in Ht. rewrite app_nil_r in Ht.
        apply (lv_same_run_newer nr); auto; [eapply lv_segment_In; eauto|].
        intros ->. apply Hn. apply in_or_app. now right.
      * apply (lv_rec_levels (levels v) i (S lvl)); [apply (vc_rec _ C)|lia|exact Ht|auto].
Qed.


(** * 8. Reading the model functions *)

Lemma lv_existsb_false {A} (f : A -> bool) l x : existsb f l = false -> In x l -> f x = false.
Proof.
  intros H Hx. destruct (f x) eqn:E; [|reflexivity].
  assert (existsb f l = true) by (apply existsb_exists; eauto). congruence.
Qed.

Lemma lv_level_is_empty l : level_is_empty l = true <-> l = [].
Proof. destruct l; cbn; split; congruence. Qed.

Lemma lv_find_index_from {A} (p : A -> bool) (d : A) l : forall start,
  match find_index_from p start l with
  | Some idx => (start <= idx < start + length l)%nat /\
                (forall j, (start <= j < idx)%nat -> p (nth (j - start) l d) = false)
  | None => forall x, In x l -> p x = false
  end.
Proof.
  induction l as [|x l IH]; intros start; cbn [find_index_from].
  - intros x [].
  - destruct (p x) eqn:Px.
    + cbn [length]. split; [lia|]. intros j Hj. lia.
    + specialize (IH (S start)). destruct (find_index_from p (S start) l) as [idx|].
      * destruct IH as [I1 I2]. cbn [length]. split; [lia|]. intros j Hj.
        destruct (Nat.eq_dec j start) as [->|Hne].
        -- rewrite Nat.sub_diag. exact Px.
        -- replace (j - start)%nat with (S (j - S start)) by lia. cbn [nth]. apply I2. lia.
      * intros y [<-|Hy]; auto.
Qed.

Lemma lv_fne v :
  length (levels v) = 7%nat ->
  (1 <= first_non_empty_level v <= 6)%nat /\
  (forall i, (1 <= i < first_non_empty_level v)%nat -> nth i (levels v) [] = []).
Proof.
  intros HL. unfold first_non_empty_level.
  pose proof (lv_find_index_from (fun l : level => negb (level_is_empty l)) []
                                 (skipn 1 (levels v)) 1) as H.
  assert (length (skipn 1 (levels v)) = 6%nat) as HL' by (rewrite skipn_length; lia).
  destruct (find_index_from _ 1 (skipn 1 (levels v))) as [idx|].
  - destruct H as [H1 H2]. split; [lia|]. intros i Hi. specialize (H2 i Hi).
    rewrite lv_nth_skipn in H2. replace (1 + (i - 1))%nat with i in H2 by lia.
    apply negb_false_iff in H2. now apply lv_level_is_empty.
  - rewrite HL. split; [lia|]. intros i Hi.
    assert (In (nth (i - 1) (skipn 1 (levels v)) []) (skipn 1 (levels v))) as HI
        by (apply nth_In; lia).
    specialize (H _ HI). rewrite lv_nth_skipn in H. replace (1 + (i - 1))%nat with i in H by lia.
    apply negb_false_iff in H. now apply lv_level_is_empty.
Qed.

Lemma lv_canonical need v :
  length (levels v) = 7%nat ->
  (1 <= leveled_canonical_l1 need v <= first_non_empty_level v)%nat.
Proof.
  intros HL. destruct (lv_fne v HL) as [Hf _]. unfold leveled_canonical_l1.
  destruct (Nat.ltb 1 (first_non_empty_level v) && _) eqn:E; [|lia].
  apply andb_true_iff in E. destruct E as [E _]. apply Nat.ltb_lt in E.
  destruct need; lia.
Qed.

Lemma lv_level_nonempty_concat (ls : list level) i L :
  levels_ok ls -> nth_error ls i = Some L -> L <> [] -> concat L <> [].
Proof.
  intros H E Hne. destruct L as [|r L]; [congruence|].
  assert (run_ok r = true) as Hr.
  { eapply (lv_level_runs_ok ls i); eauto. apply (lv_nth_In _ _ _ _ E). now left. }
  apply vs_run_ok_parts in Hr. destruct Hr as (Hr & _). cbn [concat].
  destruct r; [congruence|discriminate].
Qed.

Lemma lv_trivial_lmax_inv v c :
  length (levels v) = 7%nat -> leveled_trivial_lmax v = Some c ->
  exists l0, nth_error (levels v) 0 = Some l0 /\ l0 <> [] /\
             c = LMove (level_list_ids l0) 6 /\
             (forall i, (1 <= i < 6)%nat -> nth i (levels v) [] = []).
Proof.
  intros HL. unfold leveled_trivial_lmax. rewrite HL.
  change (7 - 1)%nat with 6%nat. change (6 - 1)%nat with 5%nat.
  destruct (nth_error (levels v) 0) as [l0|] eqn:E0; [|discriminate].
  destruct (negb (level_is_empty l0) && level_is_disjoint l0) eqn:Eg; [|discriminate].
  destruct (existsb _ (List.seq 1 5)) eqn:EX; [discriminate|].
  destruct (nth_error (levels v) 6) as [lmax|]; [|discriminate].
  destruct (negb (krr_overlaps _ _)); [|discriminate].
  intros H. inversion H; subst. exists l0. repeat split; auto.
  - intros ->. discriminate.
  - intros i Hi. destruct (nth i (levels v) []) as [|r L] eqn:En; [reflexivity|]. exfalso.
    assert (In i (List.seq 1 5)) as Hin by (apply in_seq; lia).
    pose proof (lv_existsb_false _ _ _ EX Hin) as Hf. cbn beta in Hf.
    rewrite (nth_error_nth' (levels v) [] (n := i)) in Hf by lia. rewrite En in Hf. discriminate.
Qed.

Lemma lv_trivial_l0_inv need v hidden c :
  leveled_trivial_l0 need v hidden = Some c ->
  exists l0, nth_error (levels v) 0 = Some l0 /\ length l0 = 1%nat /\
             level_is_busy v 0 hidden = false /\
             c = LMove (level_list_ids l0)
                       (Nat.min (first_non_empty_level v) (leveled_canonical_l1 need v)).
Proof.
  unfold leveled_trivial_l0.
  destruct (nth_error (levels v) 0) as [l0|] eqn:E0; [|discriminate].
  destruct (Nat.eqb (length l0) 1) eqn:E1; [|discriminate]. apply Nat.eqb_eq in E1.
  destruct (level_is_busy v 0 hidden || _) eqn:Eb; [discriminate|].
  apply orb_false_iff in Eb. destruct Eb as [Eb _].
  destruct (nth_error (levels v) (Nat.min _ _)) as [tl|]; [|discriminate].
  destruct (negb _); [discriminate|].
  destruct (level_overlapping _ _); [|discriminate].
  destruct (level_is_disjoint l0); [|discriminate].
  intros H. inversion H; subst. exists l0. auto.
Qed.

Lemma lv_l0_choice_inv need v hidden :
  match leveled_l0_choice need v hidden with
  | LDoNothing => True
  | LMove ids dest =>
      exists l0, nth_error (levels v) 0 = Some l0 /\ ids = level_list_ids l0 /\
                 dest = leveled_canonical_l1 need v /\ level_is_busy v 0 hidden = false
  | LMerge ids dest =>
      exists l0 tl, nth_error (levels v) 0 = Some l0 /\
                    nth_error (levels v) dest = Some tl /\
                    dest = leveled_canonical_l1 need v /\
                    ids = level_list_ids l0 ++
                          map tid (level_overlapping tl (level_aggregate_key_range l0)) /\
                    level_is_busy v 0 hidden = false /\ level_is_busy v dest hidden = false
  end.
Proof.
  unfold leveled_l0_choice.
  destruct (nth_error (levels v) 0) as [l0|] eqn:E0; [|exact I].
  destruct (level_is_busy v 0 hidden || _) eqn:Eb; [exact I|].
  apply orb_false_iff in Eb. destruct Eb as [Eb0 Ebc].
  destruct (nth_error (levels v) (leveled_canonical_l1 need v)) as [tl|] eqn:Ec; [|exact I].
  destruct (level_overlapping tl (level_aggregate_key_range l0)) as [|x o] eqn:Eo.
  - destruct (level_is_disjoint l0).
    + exists l0. cbn [map]. rewrite app_nil_r. auto.
    + exists l0, tl. rewrite Eo. auto 10.
  - exists l0, tl. rewrite Eo. auto 10.
Qed.

Lemma lv_pick_inv curr nxt hidden size base ids b :
  pick_minimal_compaction curr nxt hidden size base = Some (ids, b) ->
  (b = true /\ exists w, ids = map tid w /\ segment w curr /\ w <> [] /\
                         is_blocked hidden (map tid w) = false) \/
  (b = false /\ exists nr w, nxt = Some nr /\ segment w nr /\ w <> [] /\
       ids = map tid (run_get_contained curr (agg_range w)) ++ map tid w /\
       is_blocked hidden (map tid w) = false /\
       is_blocked hidden (map tid (run_get_contained curr (agg_range w))) = false).
Proof.
  unfold pick_minimal_compaction.
  destruct (find _ (shrinking_windows curr)) as [w|] eqn:EF.
  - intros H. inversion H; subst. left. split; [reflexivity|]. exists w.
    apply find_some in EF. destruct EF as [Hw Hok].
    destruct (lv_shrinking_segment _ _ Hw) as [Hs Hne]. repeat split; auto.
    unfold trivial_window_ok in Hok. destruct (is_blocked hidden (map tid w)); [discriminate|reflexivity].
  - destruct nxt as [nr|]; [|discriminate].
    destruct (min_by_key c_bytes _) as [c|] eqn:EM; [|discriminate].
    intros H. inversion H; subst. right. split; [reflexivity|].
    apply lv_min_by_key_In in EM. apply lv_filter_map_In in EM.
    destruct EM as (w & Hw & Hc). apply lv_take_while_In in Hw.
    destruct (lv_growing_segment _ _ Hw) as [Hs Hne].
    unfold merge_candidate in Hc.
    destruct (is_blocked hidden (map tid w)) eqn:B1; [discriminate|].
    destruct (sum_sizes size (run_get_contained curr (agg_range w)) =? 0); [discriminate|].
    destruct (is_blocked hidden (map tid (run_get_contained curr (agg_range w)))) eqn:B2;
      [discriminate|].
    inversion Hc; subst. cbn [c_pull c_window]. exists nr, w. auto 10.
Qed.

Lemma lv_ln_choice_inv lvl size target v hidden :
  match leveled_ln_choice lvl size target v hidden with
  | LDoNothing => True
  | LMove ids dest =>
      exists curr_run w, nth_error (levels v) lvl = Some [curr_run] /\ dest = S lvl /\
        (S lvl < length (levels v))%nat /\
        ids = map tid w /\ segment w curr_run /\ w <> [] /\
        is_blocked hidden ids = false
  | LMerge ids dest =>
      exists curr_run rest_c next_level,
        nth_error (levels v) lvl = Some (curr_run :: rest_c) /\ dest = S lvl /\
        nth_error (levels v) (S lvl) = Some next_level /\
        is_blocked hidden ids = false /\
        ((rest_c <> [] /\ exists w, ids = map tid w /\ segment w curr_run /\ w <> []) \/
         (exists nr rest_n w, next_level = nr :: rest_n /\ segment w nr /\ w <> [] /\
            ids = map tid (run_get_contained curr_run (agg_range w)) ++ map tid w))
  end.
Proof.
  unfold leveled_ln_choice.
  destruct (nth_error (levels v) lvl) as [level|] eqn:El; [|exact I].
  destruct (nth_error (levels v) (S lvl)) as [next_level|] eqn:En; [|exact I].
  destruct level as [|curr_run rest_c]; [exact I|].
  destruct (pick_minimal_compaction curr_run (hd_error next_level) hidden size target)
    as [[ids b]|] eqn:EP; [|exact I].
  assert (S lvl < length (levels v))%nat as Hlen by (apply nth_error_Some; congruence).
  apply lv_pick_inv in EP.
  assert (forall a b, is_blocked hidden a = false -> is_blocked hidden b = false ->
                      is_blocked hidden (a ++ b) = false) as Happ.
  { intros a b' H1 H2. unfold is_blocked. rewrite existsb_app. unfold is_blocked in H1, H2.
    now rewrite H1, H2. }
  destruct EP as [(-> & w & -> & Hs & Hne & Hb)|(-> & nr & w & Enr & Hs & Hne & -> & Hb1 & Hb2)].
  - cbn [andb]. destruct (level_is_disjoint (curr_run :: rest_c)) eqn:Ed.
    + unfold level_is_disjoint in Ed. apply Nat.eqb_eq in Ed. cbn [length] in Ed.
      destruct rest_c; [|discriminate]. exists curr_run, w. auto 10.
    + exists curr_run, rest_c, next_level. repeat split; auto. left. split.
      * intros ->. discriminate.
      * exists w. auto.
  - cbn [andb]. exists curr_run, rest_c, next_level. repeat split; auto. right.
    destruct next_level as [|nr' rest_n]; [discriminate|]. cbn [hd_error] in Enr.
    inversion Enr; subst. exists nr, rest_n, w. auto.
Qed.

Lemma lv_drop_while_In {A} (p : A -> bool) l x : In x (drop_while p l) -> In x l.
Proof. intros H. rewrite <- (lv_take_drop p l). apply in_or_app. now right. Qed.

Lemma lv_get_overlapping_In r kr t : In t (run_get_overlapping r kr) -> In t r.
Proof.
  rewrite lv_get_overlapping_eq. unfold ov_slice. intros H.
  apply lv_take_while_In in H. now apply lv_drop_while_In in H.
Qed.

Lemma lv_level_overlapping_In tl kr t : In t (level_overlapping tl kr) -> In t (concat tl).
Proof.
  unfold level_overlapping. intros H. apply in_flat_map in H. destruct H as (r & Hr & Ht).
  apply in_concat. exists r. split; [exact Hr|]. eapply lv_get_overlapping_In; eauto.
Qed.

Lemma lv_not_busy v i L hidden t :
  nth_error (levels v) i = Some L -> level_is_busy v i hidden = false -> In t (concat L) ->
  is_hidden hidden (tid t) = false.
Proof.
  intros E H Ht. unfold level_is_busy in H. rewrite E in H.
  apply (lv_existsb_false _ _ t H Ht).
Qed.

Lemma lv_not_blocked hidden ids id :
  is_blocked hidden ids = false -> In id ids -> is_hidden hidden id = false.
Proof. intros H Hi. apply (lv_existsb_false _ _ id H Hi). Qed.


(** * 9. Main theorems *)

(** What a [Choice::Merge] of Leveled needs beyond the machine invariant: the level whose
    tables are picked next to ALL other tables of that level has at most one run
    (choose only says [debug_assert!(level.is_disjoint())], mod.rs:546, and nothing at all
    about the target level of an L0 compaction); and when the merge writes into the last
    level (tombstones are evicted) the last level has at most one run as well. *)
Definition leveled_pre (lvl : nat) (need_new_l1 : bool) (v : version) : Prop :=
  match lvl with
  | O => single_run (levels v) (leveled_canonical_l1 need_new_l1 v)
  | S _ => single_run (levels v) lvl /\
           (S lvl = last_level -> single_run (levels v) last_level)
  end.

(** the uniform version: every level below L0 is one sorted run (or empty) *)
Definition levels_single (v : version) : Prop :=
  forall i, (1 <= i)%nat -> single_run (levels v) i.

Lemma levels_single_pre lvl need v :
  version_inv v = true -> levels_single v -> leveled_pre lvl need v.
Proof.
  intros HV H. unfold leveled_pre. destruct lvl as [|n].
  - apply H. apply lv_canonical. now apply version_inv_length.
  - split; [apply H; lia|]. intros _. apply H. unfold last_level. lia.
Qed.

Lemma lv_len7 v : version_inv v = true -> Nat.eqb (length (levels v)) 7 = true.
Proof. intros H. apply Nat.eqb_eq. now apply version_inv_length. Qed.

Lemma lv_l0_count_nonempty v l0 :
  nth_error (levels v) 0 = Some l0 -> (l0_table_count v =? 0) = false -> concat l0 <> [].
Proof.
  intros E H. unfold l0_table_count in H. rewrite E in H. unfold level_table_count in H.
  intros Ec. rewrite Ec in H. discriminate.
Qed.

Section Main.
  Variables (lvl : nat) (need_new_l1 : bool) (size : table -> N) (l0_threshold target_size : N).
  Variables (v : version) (hidden : list N).
  Hypothesis HV : version_inv v = true.

  Let choice := leveled_choose lvl need_new_l1 size l0_threshold target_size v hidden.

  (** every [Choice::Move] of Leveled is a legal [MMove] *)
  Theorem leveled_move_ok ids dest : choice = LMove ids dest -> move_facts v ids dest.
  Proof.
    unfold choice, leveled_choose. rewrite (lv_len7 v HV). cbn [negb].
    pose proof (lv_vctx v HV) as C. pose proof (vc_len _ C) as HL.
    destruct (lv_fne v HL) as [Hf Hfe]. pose proof (lv_canonical need_new_l1 v HL) as Hc.
    destruct (leveled_trivial_lmax v) as [c|] eqn:E1.
    - intros ->. destruct (lv_trivial_lmax_inv v _ HL E1) as (l0 & E0 & Hne & Ec & Hemp).
      inversion Ec; subst. apply lv_l0_move; auto; [|lia].
      eapply lv_level_nonempty_concat; eauto. apply (vc_ok _ C).
    - destruct (leveled_trivial_l0 need_new_l1 v hidden) as [c|] eqn:E2.
      + intros ->. destruct (lv_trivial_l0_inv _ _ _ _ E2) as (l0 & E0 & Hlen & _ & Ec).
        inversion Ec; subst. apply lv_l0_move; auto; [|lia|intros i Hi; apply Hfe; lia].
        eapply lv_level_nonempty_concat; eauto; [apply (vc_ok _ C)|].
        intros ->. discriminate.
      + destruct lvl as [|n].
        * destruct ((l0_table_count v <? l0_threshold) || (l0_table_count v =? 0)) eqn:Eg;
            [discriminate|]. apply orb_false_iff in Eg. destruct Eg as [_ Eg].
          intros H. pose proof (lv_l0_choice_inv need_new_l1 v hidden) as I. rewrite H in I.
          destruct I as (l0 & E0 & -> & -> & _).
          apply lv_l0_move; auto; [|lia|intros i Hi; apply Hfe; lia].
          eapply lv_l0_count_nonempty; eauto.
        * intros H. pose proof (lv_ln_choice_inv (S n) size target_size v hidden) as I.
          rewrite H in I. destruct I as (cr & w & El & -> & Hlen & -> & Hs & Hne & _).
          apply (lv_ln_move v (S n) cr w); auto. lia.
  Qed.

  (** every [Choice::Merge] of Leveled is a legal [MCompact], given [leveled_pre] *)
  Theorem leveled_merge_ok ids dest :
    leveled_pre lvl need_new_l1 v -> choice = LMerge ids dest -> merge_facts v ids dest.
  Proof.
    intros Hpre. unfold choice, leveled_choose. rewrite (lv_len7 v HV). cbn [negb].
    pose proof (lv_vctx v HV) as C. pose proof (vc_len _ C) as HL.
    destruct (lv_fne v HL) as [Hf Hfe]. pose proof (lv_canonical need_new_l1 v HL) as Hc.
    destruct (leveled_trivial_lmax v) as [c|] eqn:E1.
    - intros ->. destruct (lv_trivial_lmax_inv v _ HL E1) as (l0 & _ & _ & Ec & _). discriminate.
    - destruct (leveled_trivial_l0 need_new_l1 v hidden) as [c|] eqn:E2.
      + intros ->. destruct (lv_trivial_l0_inv _ _ _ _ E2) as (l0 & _ & _ & _ & Ec). discriminate.
      + destruct lvl as [|n].
        * destruct ((l0_table_count v <? l0_threshold) || (l0_table_count v =? 0)) eqn:Eg;
            [discriminate|]. apply orb_false_iff in Eg. destruct Eg as [_ Eg].
          intros H. pose proof (lv_l0_choice_inv need_new_l1 v hidden) as I. rewrite H in I.
          destruct I as (l0 & tl & E0 & Et & -> & -> & _).
          cbn [leveled_pre] in Hpre. unfold single_run in Hpre.
          rewrite (lv_nth_level _ _ _ Et) in Hpre.
          apply lv_l0_merge; auto; [|lia|intros i Hi; apply Hfe; lia].
          eapply lv_l0_count_nonempty; eauto.
        * intros H. pose proof (lv_ln_choice_inv (S n) size target_size v hidden) as I.
          rewrite H in I.
          destruct I as (cr & rest_c & nl & El & -> & En & _ & I).
          cbn [leveled_pre] in Hpre. destruct Hpre as [Hp1 Hp2]. unfold single_run in Hp1, Hp2.
          rewrite (lv_nth_level _ _ _ El) in Hp1.
          assert (rest_c = []) as -> by (destruct rest_c; [reflexivity|cbn [length] in Hp1; lia]).
          destruct I as [[Hne _]|(nr & rest_n & w & -> & Hs & Hne & ->)]; [congruence|].
          assert (rs cr) as Hrs.
          { apply lv_run_ok_rs. apply (lv_level_runs_ok (levels v) (S n)); [apply (vc_ok _ C)|].
            apply (lv_nth_In _ _ _ _ El). now left. }
          destruct (lv_get_contained_spec cr (agg_range w) Hrs) as [Sp Cp].
          apply (lv_ln_merge v (S n) cr nr rest_n); auto.
          intros Ed. specialize (Hp2 Ed). rewrite <- Ed in Hp2.
          rewrite (lv_nth_level _ _ _ En) in Hp2.
          destruct rest_n; [reflexivity|cbn [length] in Hp2; lia].
  Qed.

  (** no chosen id is hidden -- unless the choice is the trivial move into Lmax *)
  Theorem leveled_not_hidden ids dest :
    leveled_trivial_lmax v = None ->
    (choice = LMove ids dest \/ choice = LMerge ids dest) ->
    forall id, In id ids -> is_hidden hidden id = false.
  Proof.
    intros E1. unfold choice, leveled_choose. rewrite (lv_len7 v HV), E1. cbn [negb].
    destruct (leveled_trivial_l0 need_new_l1 v hidden) as [c|] eqn:E2.
    - destruct (lv_trivial_l0_inv _ _ _ _ E2) as (l0 & E0 & _ & Hb & ->).
      intros [H|H]; [|discriminate]. inversion H; subst. intros id Hid.
      unfold level_list_ids in Hid. apply in_map_iff in Hid. destruct Hid as (t & <- & Ht).
      eapply lv_not_busy; eauto.
    - destruct lvl as [|n].
      + destruct ((l0_table_count v <? l0_threshold) || (l0_table_count v =? 0));
          [intros [H|H]; discriminate|].
        pose proof (lv_l0_choice_inv need_new_l1 v hidden) as I.
        intros [H|H]; rewrite H in I.
        * destruct I as (l0 & E0 & -> & _ & Hb). intros id Hid.
          unfold level_list_ids in Hid. apply in_map_iff in Hid. destruct Hid as (t & <- & Ht).
          eapply lv_not_busy; eauto.
        * destruct I as (l0 & tl & E0 & Et & _ & -> & Hb0 & Hbc). intros id Hid.
          apply in_app_or in Hid. destruct Hid as [Hid|Hid].
          -- unfold level_list_ids in Hid. apply in_map_iff in Hid. destruct Hid as (t & <- & Ht).
             apply (lv_not_busy v 0 l0 hidden t E0 Hb0 Ht).
          -- apply in_map_iff in Hid. destruct Hid as (t & <- & Ht).
             apply lv_level_overlapping_In in Ht. apply (lv_not_busy v _ tl hidden t Et Hbc Ht).
      + pose proof (lv_ln_choice_inv (S n) size target_size v hidden) as I.
        intros [H|H]; rewrite H in I.
        * destruct I as (cr & w & _ & _ & _ & _ & _ & _ & Hb). intros id Hid.
          eapply lv_not_blocked; eauto.
        * destruct I as (cr & rest_c & nl & _ & _ & _ & Hb & _). intros id Hid.
          eapply lv_not_blocked; eauto.
  Qed.
End Main.

(** ** the same, as legality of the machine operation (cf. [major_choice_ok]) *)

Theorem leveled_move_mop_ok :
  forall st l lvl need_new_l1 size l0_threshold target_size hidden ids dest,
  minv st -> latest (hist (hs st)) = Some l -> seq_avail st = true ->
  leveled_choose lvl need_new_l1 size l0_threshold target_size (ver l) hidden = LMove ids dest ->
  mop_ok st (MMove ids dest) = true.
Proof.
  intros st l lvl need size l0t tgt hidden ids dest M L SA H.
  pose proof M as [Ih Iw (l0 & L0 & Hl)]. rewrite L in L0. inversion L0; subst l0. clear L0.
  destruct (sv_inv_elim l (li_inv _ _ Hl)) as (_ & _ & HV & _ & _).
  destruct (leveled_move_ok lvl need size l0t tgt (ver l) hidden HV ids dest H)
    as (F1 & F2 & F3 & F4 & F5).
  unfold mop_ok. rewrite L. now rewrite SA, F1, F2, F3, F4, F5.
Qed.

Theorem leveled_merge_mop_ok :
  forall st l W cuts lvl need_new_l1 size l0_threshold target_size hidden ids dest,
  minv st -> latest (hist (hs st)) = Some l -> seq_avail st = true ->
  leveled_pre lvl need_new_l1 (ver l) ->
  leveled_choose lvl need_new_l1 size l0_threshold target_size (ver l) hidden = LMerge ids dest ->
  cuts_ok cuts (compact_out W dest (ver l) ids) = true ->
  mop_ok st (MCompact ids dest W cuts) = true.
Proof.
  intros st l W cuts lvl need size l0t tgt hidden ids dest M L SA Hpre H HC.
  pose proof M as [Ih Iw (l0 & L0 & Hl)]. rewrite L in L0. inversion L0; subst l0. clear L0.
  destruct (sv_inv_elim l (li_inv _ _ Hl)) as (_ & _ & HV & _ & _).
  destruct (leveled_merge_ok lvl need size l0t tgt (ver l) hidden HV ids dest Hpre H)
    as (F1 & F2 & F3 & F4 & F5 & F6 & F7).
  destruct (compact_facts (ver l) ids W dest HV) as (HSm & HSo & _ & _ & Hin).
  unfold mop_ok. rewrite L. rewrite SA, F1, F2, F3, F4, F5, HC. cbn [andb].
  apply andb_true_iff. split.
  - apply F6.
    + now apply build_tables_opt_run_ok.
    + apply vs_nodup_N_b. rewrite map_app. apply lv_nodup_app_intro.
      * destruct (build_tables_gen cuts (next_tid st) _ HSo HC) as (_ & _ & _ & I4 & _).
        rewrite I4. apply ids_from_NoDup.
      * unfold kept. apply vs_nodup_map_filter. now apply version_inv_nodup.
      * intros x H1 H2. apply in_map_iff in H1. destruct H1 as (t & <- & Ht).
        apply in_map_iff in H2. destruct H2 as (t' & E & Ht').
        pose proof (build_tables_In_tid _ _ _ _ HSo HC Ht) as B.
        pose proof (li_tid _ _ Hl t' (kept_In _ _ _ Ht')) as B'. lia.
    + intros t e Ht He. apply Hin. eapply build_tables_In_ents; eauto.
  - destruct (is_last_level dest) eqn:EL; [|reflexivity]. cbn [negb orb]. now apply F7.
Qed.


(** * 10. Leveled keeps every level below L0 in one run *)

Lemma lv_pairwise_no_app a b :
  pairwise_no (a ++ b) <->
  pairwise_no a /\ pairwise_no b /\ (forall x y, In x a -> In y b -> kr_overlaps x y = false).
Proof.
  induction a as [|x a IH]; cbn [app pairwise_no].
  - split; [intros H; repeat split; auto; intros x y []|tauto].
  - rewrite IH, Forall_app, !Forall_forall. split.
    + intros [[H1 H2] [H3 [H4 H5]]]. repeat split; auto. intros x' y [<-|Hx] Hy; auto.
    + intros [[H1 H2] [H3 H4]]. repeat split; auto.
      * intros y Hy. apply H4; [now left|exact Hy].
      * intros x' y Hx Hy. apply H4; [now right|exact Hy].
Qed.

Lemma lv_pairwise_no_nodup l :
  NoDup l -> (forall x y, In x l -> In y l -> x <> y -> kr_overlaps x y = false) ->
  pairwise_no l.
Proof.
  induction l as [|a l IH]; intros N H; [exact I|]. inversion N as [|? ? N1 N2]; subst.
  cbn [pairwise_no]. split.
  - apply Forall_forall. intros y Hy. apply H; [now left|now right|]. intros ->. contradiction.
  - apply IH; auto. intros x y Hx Hy. apply H; now right.
Qed.

(** non-overlapping tables are packed into a single run *)
Lemma lv_opt_fold_single ts : forall acc,
  (length acc <= 1)%nat -> pairwise_no (concat acc ++ ts) -> (length (opt_fold ts acc) <= 1)%nat.
Proof.
  induction ts as [|t ts IH]; intros acc Hl P; [exact Hl|].
  unfold opt_fold. cbn [fold_left]. fold (opt_fold ts (place' acc t)).
  destruct acc as [|r [|r' acc]]; [| |cbn [length] in Hl; lia].
  - cbn [place']. apply IH; [cbn; lia|]. cbn [concat app] in *. exact P.
  - cbn [concat] in P. rewrite app_nil_r in P.
    assert (run_overlaps t r = false) as Hno.
    { unfold run_overlaps. destruct (existsb (fun x => kr_overlaps t x) r) eqn:E; [|reflexivity].
      apply existsb_exists in E. destruct E as (x & Hx & Ho).
      apply lv_pairwise_no_app in P. destruct P as (_ & _ & P).
      rewrite vs_kr_overlaps_sym, (P x t Hx) in Ho; [discriminate|now left]. }
    cbn [place' existsb]. rewrite Hno. cbn [orb]. apply IH; [cbn; lia|].
    cbn [concat]. rewrite app_nil_r.
    eapply vs_pairwise_no_perm; [|exact P].
    eapply perm_trans; [apply Permutation_sym, Permutation_middle|].
    change (t :: r ++ ts) with ((t :: r) ++ ts).
    apply Permutation_app_tail. apply Permutation_sym. apply vs_run_push_perm.
Qed.

Lemma lv_optimize_single rs :
  pairwise_no (concat rs) -> (length (optimize_runs rs) <= 1)%nat.
Proof.
  intros P. destruct rs as [|r [|r' rs]].
  - cbn. lia.
  - cbn. lia.
  - rewrite vs_optimize_runs_big by (cbn [length]; lia).
    apply lv_opt_fold_single; [cbn; lia|exact P].
Qed.

Lemma lv_filter_length {A} (p : A -> bool) l : (length (filter p l) <= length l)%nat.
Proof. induction l as [|x l IH]; cbn [filter length]; [lia|]. destruct (p x); cbn [length]; lia. Qed.

Lemma lv_retain_runs_length ids (l : level) : (length (retain_runs ids l) <= length l)%nat.
Proof.
  unfold retain_runs. eapply Nat.le_trans; [apply lv_filter_length|]. now rewrite map_length.
Qed.

Lemma lv_rebuild_length ids ins dest : forall ls idx,
  length (rebuild_from idx ids ins dest ls) = length ls.
Proof. induction ls as [|l ls IH]; intros idx; cbn [rebuild_from length]; [reflexivity|now rewrite IH]. Qed.

Lemma lv_rebuild_nth ids ins dest : forall ls idx i,
  (i < length ls)%nat ->
  nth i (rebuild_from idx ids ins dest ls) [] =
  optimize_runs ((if Nat.eqb (idx + i) dest then ins else []) ++ retain_runs ids (nth i ls [])).
Proof.
  induction ls as [|l ls IH]; intros idx i Hi; [cbn [length] in Hi; lia|].
  cbn [rebuild_from]. destruct i as [|i].
  - cbn [nth]. rewrite Nat.add_0_r. destruct (Nat.eqb idx dest); reflexivity.
  - cbn [nth]. cbn [length] in Hi. rewrite IH by lia.
    now replace (S idx + i)%nat with (idx + S i)%nat by lia.
Qed.

(** the levels below L0 after with_merge / with_moved: one run each, provided what is
    put in front of level [dest] overlaps neither itself nor what is left there *)
Lemma lv_rebuild_single ids ins dest (ls : list level) :
  (forall i, (1 <= i)%nat -> single_run ls i) ->
  pairwise_no (concat ins ++ kept ids (concat (nth dest ls []))) ->
  forall i, (1 <= i)%nat -> single_run (rebuild_from 0 ids ins dest ls) i.
Proof.
  intros Hs P i Hi. unfold single_run.
  destruct (Nat.lt_ge_cases i (length ls)) as [Hlt|Hge].
  - rewrite lv_rebuild_nth by exact Hlt. cbn [Nat.add].
    destruct (Nat.eqb i dest) eqn:E.
    + apply Nat.eqb_eq in E. subst i. apply lv_optimize_single.
      now rewrite concat_app, vs_concat_retain.
    + cbn [app]. rewrite optimize_runs_small.
      * eapply Nat.le_trans; [apply lv_retain_runs_length|]. apply (Hs i Hi).
      * eapply Nat.le_trans; [apply lv_retain_runs_length|]. apply (Hs i Hi).
  - rewrite nth_overflow; [cbn; lia|]. now rewrite lv_rebuild_length.
Qed.

Lemma lv_table_ok_ends t :
  table_ok t = true ->
  exists e1 e2, In e1 (ents t) /\ In e2 (ents t) /\ kmin t = ukey e1 /\ kmax t = ukey e2.
Proof.
  unfold table_ok, table_meta_ok. intros H. apply andb_true_iff in H. destruct H as [_ Hm].
  destruct (ents t) as [|e0 l] eqn:E; [discriminate|].
  repeat (apply andb_true_iff in Hm; destruct Hm as [Hm ?]). key_prop.
  exists e0, (last (e0 :: l) e0). repeat split; auto; [now left|].
  apply lv_last_In. discriminate.
Qed.

(** a table lies to the left / to the right of another one *)
Lemma lv_tlt_no_overlap x y : tlt x y -> kr_overlaps x y = false /\ kr_overlaps y x = false.
Proof.
  unfold tlt, kr_overlaps. intros H. split; apply andb_false_iff; [left|right]; now key_prop.
Qed.


(** every table left at level [dest] lies entirely to the left, or entirely to the right,
    of ALL chosen tables *)
Definition side (v : version) (S : list table) (dest : nat) : Prop :=
  forall x, at_level (levels v) dest x -> ~ In x S ->
            (forall c, In c S -> tlt x c) \/ (forall c, In c S -> tlt c x).

Section DestLevel.
  Variables (v : version) (S : list table) (dest : nat).
  Hypothesis HV : version_inv v = true.
  Hypothesis HSin : forall t, In t S -> In t (all_tables v).
  Hypothesis Hsingle : single_run (levels v) dest.
  Hypothesis Hside : side v S dest.

  Let L := nth dest (levels v) [].

  Lemma lv_kept_dest_pairwise : pairwise_no (kept (map tid S) (concat L)).
  Proof.
    unfold kept. apply vs_pairwise_no_filter. unfold single_run in Hsingle. fold L in Hsingle.
    pose proof (lv_vctx v HV) as C.
    assert (forall r, In r L -> run_ok r = true) as Hr.
    { intros r Hr. eapply lv_level_runs_ok; [apply (vc_ok _ C)|exact Hr]. }
    destruct L as [|r [|r' l]]; [exact I| |cbn [length] in Hsingle; lia].
    cbn [concat]. rewrite app_nil_r. apply vs_run_ok_pairwise_no. apply Hr. now left.
  Qed.

  Lemma lv_kept_dest_iff x :
    In x (kept (map tid S) (concat L)) <-> at_level (levels v) dest x /\ ~ In x S.
  Proof.
    apply (lv_kept_iff v S HV HSin (concat L) x). intros y Hy.
    apply (lv_at_level_all v dest). exact Hy.
  Qed.

  (** moved tables: they must not overlap one another either *)
  Lemma lv_move_dest_pairwise :
    (forall x y, In x S -> In y S -> x <> y -> kr_overlaps x y = false) ->
    pairwise_no (filter (id_in (map tid S)) (all_tables v) ++ kept (map tid S) (concat L)).
  Proof.
    intros Hmut. pose proof (lv_vctx v HV) as C.
    assert (forall x, In x (filter (id_in (map tid S)) (all_tables v)) -> In x S) as Haff.
    { intros x Hx. apply filter_In in Hx. destruct Hx as [H1 H2].
      now apply (lv_chosen_iff v S HV HSin x H1). }
    apply lv_pairwise_no_app. split; [|split].
    - apply lv_pairwise_no_nodup.
      + apply NoDup_filter. rewrite all_tables_tables_of. apply (vc_nd _ C).
      + intros x y Hx Hy. apply Hmut; auto.
    - exact lv_kept_dest_pairwise.
    - intros x y Hx Hy. apply Haff in Hx. apply lv_kept_dest_iff in Hy. destruct Hy as [Hy1 Hy2].
      destruct (Hside y Hy1 Hy2) as [H|H].
      + apply (lv_tlt_no_overlap y x (H x Hx)).
      + apply (lv_tlt_no_overlap x y (H x Hx)).
  Qed.

  (** merged tables: a legal run of tables whose entries stem from the chosen ones *)
  Lemma lv_merge_dest_pairwise new :
    opt_run_ok new = true ->
    (forall t e, In t new -> In e (ents t) -> exists c, In c S /\ In e (ents c)) ->
    pairwise_no (concat (run_new new) ++ kept (map tid S) (concat L)).
  Proof.
    intros Hrun Hents. pose proof (lv_vctx v HV) as C. rewrite vs_concat_run_new.
    unfold opt_run_ok in Hrun. apply andb_true_iff in Hrun. destruct Hrun as [Tok Dis].
    apply lv_pairwise_no_app. split; [|split].
    - apply (vs_sorted_of_disjoint new (vs_krange_of_table_ok _ Tok) Dis).
    - exact lv_kept_dest_pairwise.
    - intros t y Ht Hy. apply lv_kept_dest_iff in Hy. destruct Hy as [Hy1 Hy2].
      rewrite forallb_forall in Tok.
      destruct (lv_table_ok_ends t (Tok t Ht)) as (e1 & e2 & He1 & He2 & Emin & Emax).
      destruct (Hents t e1 Ht He1) as (c1 & Hc1 & Hec1).
      destruct (Hents t e2 Ht He2) as (c2 & Hc2 & Hec2).
      assert (forall c, In c S -> tkeys_ok c) as Hk.
      { intros c Hc. apply vs_table_ok_keys. eapply version_inv_table_ok; eauto. }
      destruct (Hk c1 Hc1) as [_ K1]. destruct (K1 e1 Hec1) as [K1a _].
      destruct (Hk c2 Hc2) as [_ K2]. destruct (K2 e2 Hec2) as [_ K2b].
      rewrite <- Emin in K1a. rewrite <- Emax in K2b.
      unfold kr_overlaps. apply andb_false_iff.
      destruct (Hside y Hy1 Hy2) as [H|H].
      + right. specialize (H c1 Hc1). unfold tlt in H. key_prop.
        eapply key_lt_le_trans; eauto.
      + left. specialize (H c2 Hc2). unfold tlt in H. key_prop.
        eapply key_le_lt_trans; eauto.
  Qed.
End DestLevel.


(** ** the four shapes again: where the chosen tables lie relative to level [dest] *)

Lemma lv_level_rs v i r : version_inv v = true -> In r (nth i (levels v) []) -> rs r.
Proof.
  intros HV Hr. apply lv_run_ok_rs. eapply lv_level_runs_ok; [|exact Hr].
  apply (vc_ok _ (lv_vctx v HV)).
Qed.

(** L0 (all of it) plus what it overlaps in the at most one run of level [c] *)
Lemma lv_l0_side v l0 tl c :
  version_inv v = true -> nth_error (levels v) 0 = Some l0 ->
  nth_error (levels v) c = Some tl -> (length tl <= 1)%nat ->
  side v (concat l0 ++ level_overlapping tl (level_aggregate_key_range l0)) c.
Proof.
  intros HV E0 Ec Hone. set (kr := level_aggregate_key_range l0).
  destruct (lv_level_overlapping_split tl kr) as (a & b & Hruns & Econ & Ha & Hb); auto.
  { intros r Hr. apply (lv_level_rs v c); auto. now apply (lv_nth_In _ _ _ _ Ec). }
  assert (rs (a ++ level_overlapping tl kr ++ b)) as Hrs.
  { destruct tl as [|tr [|tr' tl]]; [| |cbn [length] in Hone; lia].
    - cbn [concat] in Econ. rewrite <- Econ. split; [constructor|exact I].
    - rewrite <- (Hruns tr (or_introl eq_refl)). apply (lv_level_rs v c); auto.
      apply (lv_nth_In _ _ _ _ Ec). now left. }
  destruct Hrs as [_ R]. apply lv_rlt_app in R. destruct R as (_ & R & Ra).
  apply lv_rlt_app in R. destruct R as (_ & _ & Rb).
  assert (forall c0, In c0 (concat l0) ->
            key_le (fst kr) (kmin c0) /\ key_le (kmax c0) (snd kr)) as Hcov.
  { intros c0 Hc0. apply lv_level_agg_cover; auto. intros r Hr. apply (lv_level_rs v 0); auto.
    now apply (lv_nth_In _ _ _ _ E0). }
  intros x Hx Hn. apply (lv_at_level_eq _ _ _ _ Ec) in Hx. rewrite Econ in Hx.
  apply in_app_or in Hx. destruct Hx as [Hx|Hx]; [left|].
  - intros c0 Hc0. apply in_app_or in Hc0. destruct Hc0 as [Hc0|Hc0].
    + destruct (Hcov c0 Hc0) as [K _]. unfold tlt. eapply key_lt_le_trans; [apply Ha|]; eauto.
    + apply Ra; auto. apply in_or_app. now left.
  - apply in_app_or in Hx. destruct Hx as [Hx|Hx].
    + exfalso. apply Hn. apply in_or_app. now right.
    + right. intros c0 Hc0. apply in_app_or in Hc0. destruct Hc0 as [Hc0|Hc0].
      * destruct (Hcov c0 Hc0) as [_ K]. unfold tlt. eapply key_le_lt_trans; [exact K|]; auto.
      * apply Rb; auto.
Qed.

(** trivial move into Lmax: the two aggregate ranges do not overlap *)
Lemma lv_lmax_side v l0 lmax :
  version_inv v = true -> nth_error (levels v) 0 = Some l0 ->
  nth_error (levels v) 6 = Some lmax ->
  krr_overlaps (level_aggregate_key_range lmax) (level_aggregate_key_range l0) = false ->
  side v (concat l0) 6.
Proof.
  intros HV E0 E6 Hno x Hx _. apply (lv_at_level_eq _ _ _ _ E6) in Hx.
  destruct (lv_level_agg_cover lmax x) as [X1 X2]; auto.
  { intros r Hr. apply (lv_level_rs v 6); auto. now apply (lv_nth_In _ _ _ _ E6). }
  assert (forall c0, In c0 (concat l0) ->
            key_le (fst (level_aggregate_key_range l0)) (kmin c0) /\
            key_le (kmax c0) (snd (level_aggregate_key_range l0))) as Hcov.
  { intros c0 Hc0. apply lv_level_agg_cover; auto. intros r Hr. apply (lv_level_rs v 0); auto.
    now apply (lv_nth_In _ _ _ _ E0). }
  unfold krr_overlaps in Hno. apply andb_false_iff in Hno. destruct Hno as [H|H]; key_prop.
  - left. intros c0 Hc0. destruct (Hcov c0 Hc0) as [K _]. unfold tlt.
    eapply key_le_lt_trans; [exact X2|]. eapply key_lt_le_trans; eauto.
  - right. intros c0 Hc0. destruct (Hcov c0 Hc0) as [_ K]. unfold tlt.
    eapply key_le_lt_trans; [exact K|]. eapply key_lt_le_trans; eauto.
Qed.

(** trivial move out of L1+: nothing of the (only) next run overlaps the window *)
Lemma lv_ln_move_side v lvl next_level w hidden :
  version_inv v = true -> nth_error (levels v) (S lvl) = Some next_level ->
  (length next_level <= 1)%nat -> rs w -> w <> [] ->
  trivial_window_ok (hd_error next_level) hidden w = true ->
  side v w (S lvl).
Proof.
  intros HV En Hone Hrs Hne Hok x Hx _. apply (lv_at_level_eq _ _ _ _ En) in Hx.
  destruct next_level as [|nr [|nr' l]]; [destruct Hx| |cbn [length] in Hone; lia].
  cbn [concat] in Hx. rewrite app_nil_r in Hx.
  unfold trivial_window_ok in Hok. cbn [hd_error] in Hok.
  destruct (is_blocked hidden (map tid w)); [discriminate|].
  destruct (run_get_overlapping nr (agg_range w)) as [|y o] eqn:Eo; [|discriminate].
  destruct (lv_get_overlapping_split nr (agg_range w)) as (a & b & E & Ha & Hb).
  { apply (lv_level_rs v (S lvl)); auto. apply (lv_nth_In _ _ _ _ En). now left. }
  rewrite Eo in E. cbn [app] in E. rewrite E in Hx.
  apply in_app_or in Hx. destruct Hx as [Hx|Hx]; [left|right]; intros c0 Hc0;
    destruct (lv_agg_cover w c0 Hrs Hc0) as [K1 K2]; unfold tlt.
  - eapply key_lt_le_trans; [apply Ha|]; eauto.
  - eapply key_le_lt_trans; [exact K2|]. auto.
Qed.

(** merge out of L1+: the window of the (only) next run plus what it contains above *)
Lemma lv_ln_merge_side v lvl nr p w :
  version_inv v = true -> nth_error (levels v) (S lvl) = Some [nr] ->
  segment w nr -> w <> [] ->
  (forall t, In t p -> kr_contains (agg_range w) t = true) ->
  side v (p ++ w) (S lvl).
Proof.
  intros HV En (a & b & Ew) Hne Hcont x Hx Hn.
  apply (lv_at_level_eq _ _ _ _ En) in Hx. cbn [concat] in Hx. rewrite app_nil_r in Hx.
  assert (rs nr) as Hrs.
  { apply (lv_level_rs v (S lvl)); auto. apply (lv_nth_In _ _ _ _ En). now left. }
  rewrite Ew in Hrs, Hx. destruct (lv_agg_outside a w b x Hrs Hne) as [Oa Ob].
  destruct Hrs as [_ R]. apply lv_rlt_app in R. destruct R as (_ & R & Ra).
  apply lv_rlt_app in R. destruct R as (_ & _ & Rb).
  assert (forall c0, In c0 p -> key_le (fst (agg_range w)) (kmin c0) /\
                                key_le (kmax c0) (snd (agg_range w))) as Hp.
  { intros c0 Hc0. specialize (Hcont c0 Hc0). unfold kr_contains in Hcont.
    apply andb_true_iff in Hcont. destruct Hcont as [K1 K2]. now key_prop. }
  apply in_app_or in Hx. destruct Hx as [Hx|Hx]; [left|].
  - intros c0 Hc0. apply in_app_or in Hc0. destruct Hc0 as [Hc0|Hc0].
    + destruct (Hp c0 Hc0) as [K _]. unfold tlt. eapply key_lt_le_trans; [apply Oa|]; eauto.
    + apply Ra; auto. apply in_or_app. now left.
  - apply in_app_or in Hx. destruct Hx as [Hx|Hx].
    + exfalso. apply Hn. apply in_or_app. now right.
    + right. intros c0 Hc0. apply in_app_or in Hc0. destruct Hc0 as [Hc0|Hc0].
      * destruct (Hp c0 Hc0) as [_ K]. unfold tlt. eapply key_le_lt_trans; [exact K|]; auto.
      * apply Rb; auto.
Qed.

(** ** reading the model once more, keeping what the trivial moves have checked *)

Lemma lv_trivial_lmax_inv2 v c :
  length (levels v) = 7%nat -> leveled_trivial_lmax v = Some c ->
  exists l0 lmax, nth_error (levels v) 0 = Some l0 /\ length l0 = 1%nat /\
    nth_error (levels v) 6 = Some lmax /\
    krr_overlaps (level_aggregate_key_range lmax) (level_aggregate_key_range l0) = false /\
    c = LMove (level_list_ids l0) 6.
Proof.
  intros HL. unfold leveled_trivial_lmax. rewrite HL.
  change (7 - 1)%nat with 6%nat. change (6 - 1)%nat with 5%nat.
  destruct (nth_error (levels v) 0) as [l0|] eqn:E0; [|discriminate].
  destruct (negb (level_is_empty l0) && level_is_disjoint l0) eqn:Eg; [|discriminate].
  apply andb_true_iff in Eg. destruct Eg as [_ Eg]. apply Nat.eqb_eq in Eg.
  destruct (existsb _ (List.seq 1 5)); [discriminate|].
  destruct (nth_error (levels v) 6) as [lmax|]; [|discriminate].
  destruct (krr_overlaps _ _) eqn:Eo; [discriminate|]. cbn [negb].
  intros H. inversion H; subst. exists l0, lmax. auto 10.
Qed.

Lemma lv_trivial_l0_inv2 need v hidden c :
  leveled_trivial_l0 need v hidden = Some c ->
  exists l0 tl, nth_error (levels v) 0 = Some l0 /\ length l0 = 1%nat /\
    nth_error (levels v) (Nat.min (first_non_empty_level v) (leveled_canonical_l1 need v))
      = Some tl /\ length tl = 1%nat /\
    level_overlapping tl (level_aggregate_key_range l0) = [] /\
    c = LMove (level_list_ids l0)
              (Nat.min (first_non_empty_level v) (leveled_canonical_l1 need v)).
Proof.
  unfold leveled_trivial_l0.
  destruct (nth_error (levels v) 0) as [l0|] eqn:E0; [|discriminate].
  destruct (Nat.eqb (length l0) 1) eqn:E1; [|discriminate]. apply Nat.eqb_eq in E1.
  destruct (level_is_busy v 0 hidden || _); [discriminate|].
  destruct (nth_error (levels v) (Nat.min _ _)) as [tl|]; [|discriminate].
  destruct (Nat.eqb (length tl) 1) eqn:E2; [|discriminate]. apply Nat.eqb_eq in E2. cbn [negb].
  destruct (level_overlapping _ _) eqn:Eo; [|discriminate].
  destruct (level_is_disjoint l0); [|discriminate].
  intros H. inversion H; subst. exists l0, tl. auto 10.
Qed.

Lemma lv_l0_choice_move_inv2 need v hidden ids dest :
  leveled_l0_choice need v hidden = LMove ids dest ->
  exists l0 tl, nth_error (levels v) 0 = Some l0 /\ length l0 = 1%nat /\
    nth_error (levels v) dest = Some tl /\
    level_overlapping tl (level_aggregate_key_range l0) = [] /\
    dest = leveled_canonical_l1 need v /\ ids = level_list_ids l0.
Proof.
  unfold leveled_l0_choice.
  destruct (nth_error (levels v) 0) as [l0|] eqn:E0; [|discriminate].
  destruct (level_is_busy v 0 hidden || _); [discriminate|].
  destruct (nth_error (levels v) (leveled_canonical_l1 need v)) as [tl|] eqn:Ec; [|discriminate].
  destruct (level_overlapping tl (level_aggregate_key_range l0)) as [|x o] eqn:Eo; [|discriminate].
  destruct (level_is_disjoint l0) eqn:Ed; [|discriminate]. apply Nat.eqb_eq in Ed.
  cbn [map]. rewrite app_nil_r. intros H. inversion H; subst. exists l0, tl. auto 10.
Qed.

Lemma lv_ln_choice_move_inv2 lvl size target v hidden ids dest :
  leveled_ln_choice lvl size target v hidden = LMove ids dest ->
  exists curr_run next_level w,
    nth_error (levels v) lvl = Some [curr_run] /\ dest = S lvl /\
    nth_error (levels v) (S lvl) = Some next_level /\
    ids = map tid w /\ segment w curr_run /\ w <> [] /\
    trivial_window_ok (hd_error next_level) hidden w = true.
Proof.
  unfold leveled_ln_choice.
  destruct (nth_error (levels v) lvl) as [level|] eqn:El; [|discriminate].
  destruct (nth_error (levels v) (S lvl)) as [next_level|] eqn:En; [|discriminate].
  destruct level as [|curr_run rest_c]; [discriminate|].
  destruct (pick_minimal_compaction curr_run (hd_error next_level) hidden size target)
    as [[ids' b]|] eqn:EP; [|discriminate].
  destruct (b && level_is_disjoint (curr_run :: rest_c)) eqn:Eb; [|discriminate].
  apply andb_true_iff in Eb. destruct Eb as [-> Ed]. apply Nat.eqb_eq in Ed. cbn [length] in Ed.
  destruct rest_c; [|discriminate]. intros H. inversion H; subst.
  unfold pick_minimal_compaction in EP.
  destruct (find _ (shrinking_windows curr_run)) as [w|] eqn:EF.
  - inversion EP; subst. apply find_some in EF. destruct EF as [Hw Hok].
    destruct (lv_shrinking_segment _ _ Hw) as [Hs Hne].
    exists curr_run, next_level, w. auto 10.
  - destruct (hd_error next_level); [|discriminate].
    destruct (min_by_key c_bytes _); discriminate.
Qed.


Lemma lv_run_mutual r x y :
  run_ok r = true -> In x r -> In y r -> x <> y -> kr_overlaps x y = false.
Proof. intros H. apply lv_pairwise_no_neq. now apply vs_run_ok_pairwise_no. Qed.

Lemma lv_single_level_eq (ls : list level) i L :
  nth_error ls i = Some L -> single_run ls i -> (length L <= 1)%nat.
Proof. intros E H. unfold single_run in H. now rewrite (lv_nth_level _ _ _ E) in H. Qed.

Section KeepSingle.
  Variables (lvl : nat) (need_new_l1 : bool) (size : table -> N) (l0_threshold target_size : N).
  Variables (v : version) (hidden : list N).
  Hypothesis HV : version_inv v = true.
  Hypothesis Hsingle : levels_single v.

  Let choice := leveled_choose lvl need_new_l1 size l0_threshold target_size v hidden.

  Lemma lv_l0_single_mutual l0 x y :
    nth_error (levels v) 0 = Some l0 -> length l0 = 1%nat ->
    In x (concat l0) -> In y (concat l0) -> x <> y -> kr_overlaps x y = false.
  Proof.
    intros E0 Hl. destruct l0 as [|r [|r' l0]]; try discriminate.
    cbn [concat]. rewrite app_nil_r. apply lv_run_mutual.
    apply (lv_level_runs_ok (levels v) 0); [apply (vc_ok _ (lv_vctx v HV))|].
    apply (lv_nth_In _ _ _ _ E0). now left.
  Qed.

  Lemma lv_l0_in_all l0 :
    nth_error (levels v) 0 = Some l0 -> forall t, In t (concat l0) -> In t (all_tables v).
  Proof. intros E0 t Ht. apply (lv_at_level_all v 0). now apply (lv_at_level_eq _ _ _ _ E0). Qed.

  (** a [Choice::Move] of Leveled leaves every level below L0 in one run *)
  Theorem leveled_move_keeps_single ids dest :
    choice = LMove ids dest -> levels_single (with_moved v ids dest).
  Proof.
    intros H.
    assert (forall S, ids = map tid S -> (forall t, In t S -> In t (all_tables v)) ->
              (1 <= dest)%nat -> side v S dest ->
              (forall x y, In x S -> In y S -> x <> y -> kr_overlaps x y = false) ->
              levels_single (with_moved v ids dest)) as G.
    { intros S -> HSin Hd Hside Hmut. unfold with_moved.
      destruct (Nat.eqb _ _); [|exact Hsingle]. unfold levels_single. cbn [levels].
      apply lv_rebuild_single; [exact Hsingle|]. rewrite vs_concat_moved_runs.
      apply lv_move_dest_pairwise; auto. }
    revert H. unfold choice, leveled_choose. rewrite (lv_len7 v HV). cbn [negb].
    pose proof (lv_vctx v HV) as C. pose proof (vc_len _ C) as HL.
    destruct (lv_fne v HL) as [Hf Hfe]. pose proof (lv_canonical need_new_l1 v HL) as Hc.
    destruct (leveled_trivial_lmax v) as [c|] eqn:E1.
    - intros ->. destruct (lv_trivial_lmax_inv2 v _ HL E1) as (l0 & lmax & E0 & Hl0 & E6 & Hno & Ec).
      inversion Ec; subst.
      apply (G (concat l0)); [reflexivity|exact (lv_l0_in_all l0 E0)|lia| |].
      + now apply (lv_lmax_side v l0 lmax).
      + intros x y; apply (lv_l0_single_mutual l0 x y E0 Hl0).
    - destruct (leveled_trivial_l0 need_new_l1 v hidden) as [c|] eqn:E2.
      + intros ->. destruct (lv_trivial_l0_inv2 _ _ _ _ E2) as (l0 & tl & E0 & Hl0 & Et & Htl & Eo & Ec).
        inversion Ec; subst.
        apply (G (concat l0)); [reflexivity|exact (lv_l0_in_all l0 E0)|lia| |].
        * pose proof (lv_l0_side v l0 tl _ HV E0 Et) as Hs. rewrite Eo, app_nil_r in Hs.
          apply Hs. lia.
        * intros x y; apply (lv_l0_single_mutual l0 x y E0 Hl0).
      + destruct lvl as [|n].
        * destruct ((l0_table_count v <? l0_threshold) || (l0_table_count v =? 0)); [discriminate|].
          intros H. destruct (lv_l0_choice_move_inv2 _ _ _ _ _ H) as (l0 & tl & E0 & Hl0 & Et & Eo & -> & ->).
          apply (G (concat l0)); [reflexivity|exact (lv_l0_in_all l0 E0)|lia| |].
          -- pose proof (lv_l0_side v l0 tl _ HV E0 Et) as Hs. rewrite Eo, app_nil_r in Hs.
             apply Hs. apply (lv_single_level_eq _ _ _ Et). apply Hsingle. lia.
          -- intros x y; apply (lv_l0_single_mutual l0 x y E0 Hl0).
        * intros H. destruct (lv_ln_choice_move_inv2 _ _ _ _ _ _ _ H)
            as (cr & nl & w & El & -> & En & -> & Hs & Hne & Hok).
          assert (run_ok cr = true) as Hcr.
          { apply (lv_level_runs_ok (levels v) (S n)); [apply (vc_ok _ C)|].
            apply (lv_nth_In _ _ _ _ El). now left. }
          apply (G w); [reflexivity| |lia| |].
          -- intros t Ht. apply (lv_at_level_all v (S n)). apply (lv_at_level_eq _ _ _ _ El).
             cbn [concat]. rewrite app_nil_r. eapply lv_segment_In; eauto.
          -- apply (lv_ln_move_side v (S n) nl w hidden); auto.
             ++ apply (lv_single_level_eq _ _ _ En). apply Hsingle. lia.
             ++ eapply lv_rs_segment; eauto. now apply lv_run_ok_rs.
          -- intros x y Hx Hy. apply (lv_run_mutual cr); auto; eapply lv_segment_In; eauto.
  Qed.

  (** a [Choice::Merge] of Leveled leaves every level below L0 in one run, whatever legal
      run of tables the merge writes *)
  Theorem leveled_merge_keeps_single ids dest new :
    choice = LMerge ids dest ->
    opt_run_ok new = true ->
    (forall t e, In t new -> In e (ents t) -> exists c, In c (compact_in v ids) /\ In e (ents c)) ->
    levels_single (with_merge v ids new dest).
  Proof.
    intros H Hrun Hents.
    assert (forall S, ids = map tid S -> (forall t, In t S -> In t (all_tables v)) ->
              (1 <= dest)%nat -> side v S dest ->
              levels_single (with_merge v ids new dest)) as G.
    { intros S E HSin Hd Hside. subst ids. unfold with_merge, levels_single. cbn [levels].
      apply lv_rebuild_single; [exact Hsingle|].
      apply lv_merge_dest_pairwise; auto. intros t e Ht He.
      destruct (Hents t e Ht He) as (c & Hc & Hec). exists c. split; [|exact Hec].
      now apply (lv_compact_in_iff v S HV HSin). }
    revert H. unfold choice, leveled_choose. rewrite (lv_len7 v HV). cbn [negb].
    pose proof (lv_vctx v HV) as C. pose proof (vc_len _ C) as HL.
    destruct (lv_fne v HL) as [Hf Hfe]. pose proof (lv_canonical need_new_l1 v HL) as Hc.
    destruct (leveled_trivial_lmax v) as [c|] eqn:E1.
    - intros ->. destruct (lv_trivial_lmax_inv v _ HL E1) as (l0 & _ & _ & Ec & _). discriminate.
    - destruct (leveled_trivial_l0 need_new_l1 v hidden) as [c|] eqn:E2.
      + intros ->. destruct (lv_trivial_l0_inv _ _ _ _ E2) as (l0 & _ & _ & _ & Ec). discriminate.
      + destruct lvl as [|n].
        * destruct ((l0_table_count v <? l0_threshold) || (l0_table_count v =? 0)); [discriminate|].
          intros H. pose proof (lv_l0_choice_inv need_new_l1 v hidden) as I. rewrite H in I.
          destruct I as (l0 & tl & E0 & Et & -> & -> & _).
          apply (G (concat l0 ++ level_overlapping tl (level_aggregate_key_range l0))).
          -- unfold level_list_ids. now rewrite map_app.
          -- intros t Ht. apply in_app_or in Ht. destruct Ht as [Ht|Ht].
             ++ now apply (lv_l0_in_all l0 E0).
             ++ apply (lv_at_level_all v (leveled_canonical_l1 need_new_l1 v)).
                apply (lv_at_level_eq _ _ _ _ Et). now apply lv_level_overlapping_In in Ht.
          -- lia.
          -- apply (lv_l0_side v l0 tl _ HV E0 Et).
             apply (lv_single_level_eq _ _ _ Et). apply Hsingle. lia.
        * intros H. pose proof (lv_ln_choice_inv (S n) size target_size v hidden) as I.
          rewrite H in I. destruct I as (cr & rest_c & nl & El & -> & En & _ & I).
          assert (rest_c = []) as ->.
          { assert (length (cr :: rest_c) <= 1)%nat as Hl
                by (apply (lv_single_level_eq _ _ _ El); apply Hsingle; lia).
            destruct rest_c; [reflexivity|cbn [length] in Hl; lia]. }
          destruct I as [[Hne _]|(nr & rest_n & w & -> & Hs & Hne & ->)]; [congruence|].
          assert (rest_n = []) as ->.
          { assert (length (nr :: rest_n) <= 1)%nat as Hl
                by (apply (lv_single_level_eq _ _ _ En); apply Hsingle; lia).
            destruct rest_n; [reflexivity|cbn [length] in Hl; lia]. }
          assert (rs cr) as Hrs.
          { apply (lv_level_rs v (S n)); auto. apply (lv_nth_In _ _ _ _ El). now left. }
          destruct (lv_get_contained_spec cr (agg_range w) Hrs) as [Sp Cp].
          apply (G (run_get_contained cr (agg_range w) ++ w)).
          -- now rewrite map_app.
          -- intros t Ht. apply in_app_or in Ht. destruct Ht as [Ht|Ht].
             ++ apply (lv_at_level_all v (S n)). apply (lv_at_level_eq _ _ _ _ El).
                cbn [concat]. rewrite app_nil_r. eapply lv_segment_In; eauto.
             ++ apply (lv_at_level_all v (S (S n))). apply (lv_at_level_eq _ _ _ _ En).
                cbn [concat]. rewrite app_nil_r. eapply lv_segment_In; eauto.
          -- lia.
          -- apply (lv_ln_merge_side v (S n) nr); auto.
  Qed.
End KeepSingle.

(** a flush does not touch the levels below L0 *)
Lemma flush_keeps_single v tables : levels_single v -> levels_single (with_new_l0_run v tables).
Proof.
  intros H. unfold with_new_l0_run. destruct (levels v) as [|l0 rest] eqn:E; [exact H|].
  intros i Hi. unfold single_run. cbn [levels]. destruct i as [|i]; [lia|]. cbn [nth].
  specialize (H (S i) Hi). unfold single_run in H. rewrite E in H. exact H.
Qed.


(** ** A tree compacted by Leveled alone *)

(** [o] is: a write, rotation, flush or history GC that is legal in [st]; or the
    Merge / Move that Leveled chooses on the latest version of [st] -- for SOME oracle
    values (scores), hidden set, file sizes and parameters -- with cuts that respect key
    boundaries *)
Definition lev_op_ok (st : mstate) (o : mop) : Prop :=
  match o with
  | MCompact ids dest W cuts =>
      seq_avail st = true /\
      exists l lvl need size l0t tgt hidden,
        latest (hist (hs st)) = Some l /\
        leveled_choose lvl need size l0t tgt (ver l) hidden = LMerge ids dest /\
        cuts_ok cuts (compact_out W dest (ver l) ids) = true
  | MMove ids dest =>
      seq_avail st = true /\
      exists l lvl need size l0t tgt hidden,
        latest (hist (hs st)) = Some l /\
        leveled_choose lvl need size l0t tgt (ver l) hidden = LMove ids dest
  | _ => mop_ok st o = true
  end.

Fixpoint lev_ops_ok (st : mstate) (ops : list mop) : Prop :=
  match ops with
  | [] => True
  | o :: ops' => lev_op_ok st o /\ lev_ops_ok (mstep st o) ops'
  end.

Definition st_single (st : mstate) : Prop :=
  forall l, latest (hist (hs st)) = Some l -> levels_single (ver l).

Lemma lv_lev_op_mop_ok st o :
  minv st -> st_single st -> lev_op_ok st o -> mop_ok st o = true.
Proof.
  intros M Hs H. destruct o as [k t v| |W cuts|ids dest W cuts|ids dest|W]; try exact H.
  - destruct H as (SA & l & lvl & need & size & l0t & tgt & hidden & L & Hch & HC).
    apply (leveled_merge_mop_ok st l W cuts lvl need size l0t tgt hidden); auto.
    apply levels_single_pre; [|now apply Hs].
    destruct (mi_l _ M) as (l' & L' & Hl). rewrite L in L'. inversion L'; subst l'.
    destruct (sv_inv_elim l (li_inv _ _ Hl)) as (_ & _ & HV & _ & _). exact HV.
  - destruct H as (SA & l & lvl & need & size & l0t & tgt & hidden & L & Hch).
    now apply (leveled_move_mop_ok st l lvl need size l0t tgt hidden).
Qed.

Lemma lv_mstep_single st o :
  minv st -> st_single st -> lev_op_ok st o -> st_single (mstep st o).
Proof.
  intros M Hs H. pose proof (lv_lev_op_mop_ok st o M Hs H) as OK.
  destruct (mi_l _ M) as (l & L & Hl).
  destruct (sv_inv_elim l (li_inv _ _ Hl)) as (_ & _ & HV & _ & _).
  pose proof (Hs l L) as Hsl.
  unfold mstep. rewrite L.
  destruct o as [k t v| |W cuts|ids dest W cuts|ids dest|W].
  - intros l' L'. cbn [hs] in L'.
    destruct (hstep_write_latest (hs st) (mkE k (ctr (hs st)) t v) l L) as [E _].
    rewrite E in L'. inversion L'; subst l'. exact Hsl.
  - destruct (ments (active l)) as [|e es] eqn:Em; [exact Hs|].
    intros l' L'. cbn [hs] in L'.
    destruct (hstep_rotate_latest (hs st) (next_mid st) l L) as [E _]; [rewrite Em; discriminate|].
    rewrite E in L'. inversion L'; subst l'. exact Hsl.
  - destruct (sealed l) as [|m ms] eqn:Es; [exact Hs|].
    intros l' L'. cbn [hs] in L'.
    destruct (hstep_maint_latest
                (hstep (hs st) (HUpgrade (sv_flushed (map mid (m :: ms))
                   (build_tables (next_tid st) cuts (flush_out W l))))) W) as [E1 _].
    rewrite E1 in L'.
    destruct (hstep_upgrade_latest (hs st) (sv_flushed (map mid (m :: ms))
                   (build_tables (next_tid st) cuts (flush_out W l))) l L) as [E2 _].
    rewrite E2 in L'. inversion L'; subst l'. cbn [ver sv_with_seq sv_flushed].
    now apply flush_keeps_single.
  - destruct H as (SA & l0 & lvl & need & size & l0t & tgt & hidden & L0 & Hch & HC).
    rewrite L in L0. inversion L0; subst l0.
    destruct (ids_exist (ver l) ids); [|exact Hs].
    intros l' L'. cbn [hs] in L'.
    set (new := build_tables (next_tid st) cuts (compact_out W dest (ver l) ids)) in *.
    destruct (hstep_maint_latest (hstep (hs st) (HUpgrade (sv_merged ids new dest))) W) as [E1 _].
    rewrite E1 in L'.
    destruct (hstep_upgrade_latest (hs st) (sv_merged ids new dest) l L) as [E2 _].
    rewrite E2 in L'. inversion L'; subst l'. cbn [ver sv_with_seq sv_merged].
    destruct (compact_facts (ver l) ids W dest HV) as (_ & HSo & _ & _ & Hin).
    apply (leveled_merge_keeps_single lvl need size l0t tgt (ver l) hidden HV Hsl ids dest new Hch).
    + now apply build_tables_opt_run_ok.
    + intros t e Ht He. apply Hin. eapply build_tables_In_ents; eauto.
  - destruct H as (SA & l0 & lvl & need & size & l0t & tgt & hidden & L0 & Hch).
    rewrite L in L0. inversion L0; subst l0.
    intros l' L'. cbn [hs] in L'.
    destruct (hstep_upgrade_latest (hs st) (sv_moved ids dest) l L) as [E2 _].
    rewrite E2 in L'. inversion L'; subst l'. cbn [ver sv_with_seq sv_moved].
    apply (leveled_move_keeps_single lvl need size l0t tgt (ver l) hidden HV Hsl ids dest Hch).
  - intros l' L'. cbn [hs] in L'.
    destruct (hstep_maint_latest (hs st) W) as [E1 _]. rewrite E1, L in L'.
    inversion L'; subst l'. exact Hsl.
Qed.

Lemma lv_lev_run : forall ops st,
  minv st -> st_single st -> lev_ops_ok st ops ->
  mops_ok st ops = true /\ minv (mrun st ops) /\ st_single (mrun st ops).
Proof.
  induction ops as [|o ops IH]; intros st M Hs H; [cbn; auto|].
  destruct H as [Ho Hops]. pose proof (lv_lev_op_mop_ok st o M Hs Ho) as OK.
  cbn [mops_ok]. rewrite OK. cbn [andb].
  change (mrun st (o :: ops)) with (mrun (mstep st o) ops).
  apply IH; auto.
  - now apply minv_step.
  - now apply lv_mstep_single.
Qed.

(** Main closure theorem: in a tree that starts empty and is only ever compacted by the
    choices of Leveled (any scores, any hidden sets, any sizes), every operation is legal
    in the sense of [mop_ok] -- so all the machine theorems apply without any further
    hypothesis about the strategy -- and every level below L0 stays a single run. *)
Theorem leveled_tree_ok : forall ops,
  lev_ops_ok minit ops ->
  mops_ok minit ops = true /\ st_single (mrun minit ops).
Proof.
  intros ops H. destruct (lv_lev_run ops minit) as (A & _ & B); auto.
  - apply minv_init.
  - intros l L. vm_compute in L. inversion L; subst l. intros i _. unfold single_run.
    cbn [ver levels empty_version]. do 7 (destruct i as [|i]; [cbn; lia|]). destruct i; cbn; lia.
Qed.

(** ... hence the reads of such a tree are the reads of the ordered-map Spec *)
Corollary leveled_tree_reads : forall ops,
  lev_ops_ok minit ops ->
  (forall k t v, In (MWrite k t v) ops -> t <> WeakTomb) ->
  forall k, mget (fun _ _ => true) (mrun minit ops) k
            = spec_get (wlog (mrun minit ops)) k SEQ_MAX.
Proof.
  intros ops H NW. apply machine_mget; [|exact NW]. now apply leveled_tree_ok.
Qed.

(** * 11. Examples, unit tests of the crate, refutations *)

Module LeveledExamples.
  Definition ka : key := [97].  Definition kb : key := [98].  Definition kc : key := [99].
  Definition kd : key := [100]. Definition ke : key := [101]. Definition kf : key := [102].
  Definition kg : key := [103].
  (** [tree.insert(k, val); tree.flush_active_memtable(0)] *)
  Definition flush1 (k : key) (val : N) : list mop :=
    [MWrite k Value [val]; MRotate; MFlush 0 []].
  Definition flush2 (k k' : key) (val : N) : list mop :=
    [MWrite k Value [val]; MWrite k' Value [val]; MRotate; MFlush 0 []].
  Definition sz1 : table -> N := fun _ => 1000.
  Definition ver_of (st : mstate) : version :=
    match mlatest st with Some sv => ver sv | None => empty_version end.
  Definition shape (v : version) : list (list (list N)) := map (map (map tid)) (levels v).
  Definition table_count (st : mstate) : nat := length (all_tables (ver_of st)).
  Definition get (st : mstate) (k : key) : option entry := mget (fun _ _ => true) st k.
  Definition spec (st : mstate) (k : key) : option entry := spec_get (wlog st) k SEQ_MAX.

  Lemma ver_of_latest st l : latest (hist (hs st)) = Some l -> ver_of st = ver l.
  Proof. unfold ver_of, mlatest. now intros ->. Qed.

  (** ** Replay of src/compaction/leveled/test.rs (Strategy::default(): l0_threshold = 4,
      target_size = 64 MiB).  The tests only assert table counts; here also the choice. *)

  (** leveled_empty_levels *)
  Example unit_leveled_empty_levels :
    leveled_choices sz1 4 67108864 empty_version [] = repeat LDoNothing 14.
  Proof. vm_compute. reflexivity. Qed.

  (** leveled_l0_below_limit: three disjoint tables end up as ONE run of L0 (optimize_runs);
      every level below is empty: trivial move into Lmax, whatever the scores *)
  Definition k_ (i : N) : key := [107; i].
  Definition ops_below : list mop := flush1 (k_ 0) 118 ++ flush1 (k_ 1) 118 ++ flush1 (k_ 2) 118.
  Example unit_leveled_l0_below_limit :
    let st := mrun minit ops_below in
    mops_ok minit ops_below = true /\
    shape (ver_of st) = [[[0; 1; 2]]; []; []; []; []; []; []] /\
    leveled_choices sz1 4 67108864 (ver_of st) [] = repeat (LMove [0; 1; 2] 6) 14 /\
    mop_ok st (MMove [0; 1; 2] 6) = true /\
    (table_count st, table_count (mstep st (MMove [0; 1; 2] 6))) = (3%nat, 3%nat).
  Proof. vm_compute. auto 10. Qed.

  (** leveled_l0_reached_limit: four overlapping tables: four runs in L0, score 4/4: all of
      L0 is merged into L6 (the canonical L1 of an otherwise empty tree) *)
  Definition flush3 (i : N) : list mop :=
    [MWrite ka Value [118]; MWrite (k_ i) Value [118]; MWrite [122] Value [118];
     MRotate; MFlush 0 []].
  Definition ops_limit : list mop := flush3 0 ++ flush3 1 ++ flush3 2 ++ flush3 3.
  Example unit_leveled_l0_reached_limit :
    let st := mrun minit ops_limit in
    mops_ok minit ops_limit = true /\
    shape (ver_of st) = [[[3]; [2]; [1]; [0]]; []; []; []; []; []; []] /\
    leveled_choose 0 false sz1 4 67108864 (ver_of st) [] = LMerge [3; 2; 1; 0] 6 /\
    leveled_choose 6 false sz1 4 67108864 (ver_of st) [] = LDoNothing /\
    mop_ok st (MCompact [3; 2; 1; 0] 6 0 []) = true /\
    (table_count st, table_count (mstep st (MCompact [3; 2; 1; 0] 6 0 []))) = (4%nat, 1%nat).
  Proof. vm_compute. auto 10. Qed.

  (** ** Non-vacuity of [leveled_merge_ok] / [leveled_merge_mop_ok]: L1 = one run of three
      tables, L2 = one run of three tables under them; with table 0 being ten times as
      large as the others the cheapest merge is (window [1] of L2, pull-in [4] of L1) *)
  Definition ops_merge : list mop :=
    flush2 ka kb 0 ++ [MMove [0] 2] ++ flush2 kc kd 0 ++ [MMove [1] 2] ++
    flush2 ke kf 0 ++ [MMove [2] 2] ++
    flush1 ka 1 ++ [MMove [3] 1] ++ flush1 kc 1 ++ [MMove [4] 1] ++ flush1 ke 1 ++ [MMove [5] 1].
  Definition st_merge := mrun minit ops_merge.
  Definition sz_merge : table -> N := fun t => if tid t =? 0 then 100 else 10.

  Example merge_ex_choice :
    mops_ok minit ops_merge = true /\
    shape (ver_of st_merge) = [[]; [[3; 4; 5]]; [[0; 1; 2]]; []; []; []; []] /\
    leveled_choose 1 false sz_merge 4 1000 (ver_of st_merge) [] = LMerge [4; 1] 2 /\
    (* equal sizes: the FIRST cheapest candidate *)
    leveled_choose 1 false sz1 4 1000 (ver_of st_merge) [] = LMerge [3; 0] 2 /\
    (* table 1 being compacted elsewhere: every window containing it is blocked *)
    leveled_choose 1 false sz_merge 4 1000 (ver_of st_merge) [1] = LMerge [5; 2] 2 /\
    (* every window of L2 exceeds 50 * target_size *)
    leveled_choose 1 false sz1 4 1 (ver_of st_merge) [] = LDoNothing.
  Proof. vm_compute. auto 10. Qed.

  Example merge_ex_hyps :
    version_inv (ver_of st_merge) = true /\ leveled_pre 1 false (ver_of st_merge) /\
    levels_single (ver_of st_merge).
  Proof.
    split; [vm_compute; reflexivity|].
    assert (levels_single (ver_of st_merge)) as H.
    { intros i _. unfold single_run.
      do 7 (destruct i as [|i]; [vm_compute; lia|]). vm_compute. destruct i; lia. }
    split; [|exact H]. apply levels_single_pre; [vm_compute; reflexivity|exact H].
  Qed.

  (** non-vacuity of [leveled_not_hidden]: with table 1 hidden the choice avoids it *)
  Example not_hidden_ex :
    leveled_trivial_lmax (ver_of st_merge) = None /\
    leveled_choose 1 false sz_merge 4 1000 (ver_of st_merge) [1] = LMerge [5; 2] 2 /\
    forallb (fun id => negb (is_hidden [1] id)) [5; 2] = true.
  Proof. vm_compute. auto. Qed.

  (** ... and the theorem, not computation, makes the operation legal *)
  Example merge_ex_by_theorem : forall W, mop_ok st_merge (MCompact [4; 1] 2 W []) = true.
  Proof.
    intros W.
    assert (minv st_merge) as M by (apply machine_minv; vm_compute; reflexivity).
    destruct (mi_l _ M) as (l & L & _). pose proof (ver_of_latest _ _ L) as E.
    apply (leveled_merge_mop_ok st_merge l W [] 1 false sz_merge 4 1000 []).
    - exact M.
    - exact L.
    - vm_compute. reflexivity.
    - rewrite <- E. apply merge_ex_hyps.
    - rewrite <- E. vm_compute. reflexivity.
    - reflexivity.
  Qed.

  (** ** Non-vacuity of [leveled_move_ok]: table 2 of L1 overlaps nothing in L2 *)
  Definition ops_move : list mop :=
    flush2 ka kb 0 ++ [MMove [0] 2] ++ flush1 ka 1 ++ [MMove [1] 1] ++ flush1 kc 1 ++ [MMove [2] 1].
  Definition st_move := mrun minit ops_move.
  Example move_ex_choice :
    mops_ok minit ops_move = true /\
    shape (ver_of st_move) = [[]; [[1; 2]]; [[0]]; []; []; []; []] /\
    version_inv (ver_of st_move) = true /\
    leveled_choose 1 false sz1 4 1000 (ver_of st_move) [] = LMove [2] 2.
  Proof. vm_compute. auto. Qed.

  Example move_ex_by_theorem : mop_ok st_move (MMove [2] 2) = true.
  Proof.
    assert (minv st_move) as M by (apply machine_minv; vm_compute; reflexivity).
    destruct (mi_l _ M) as (l & L & _). pose proof (ver_of_latest _ _ L) as E.
    apply (leveled_move_mop_ok st_move l 1 false sz1 4 1000 []).
    - exact M.
    - exact L.
    - vm_compute. reflexivity.
    - rewrite <- E. vm_compute. reflexivity.
  Qed.

  (** ** Refutation 1: a chosen id can be hidden.
      The block ['trivial_lmax] (mod.rs:280-308) never looks at the hidden set.
      Scenario: one flushed table in L0, everything else empty, and that table is being
      compacted by another thread (e.g. [tree.major_compact(..)] in its CPU phase, which
      hid table 0): [tree.compact(Arc::new(Leveled::default()), ..)] gets
      [Choice::Move([0] -> L6)] from choose, and worker.rs:193-202 declines it with the
      "contained hidden tables ... please report this" warning. *)
  Theorem leveled_hidden_refuted :
    exists v hidden ids dest,
      version_inv v = true /\
      (forall lvl need,
         leveled_choose lvl need sz1 4 67108864 v hidden = LMove ids dest) /\
      exists id, In id ids /\ is_hidden hidden id = true.
  Proof.
    exists (ver_of (mrun minit (flush1 ka 0))), [0], [0], 6%nat.
    split; [vm_compute; reflexivity|]. split.
    - intros lvl need. unfold leveled_choose.
      replace (leveled_trivial_lmax (ver_of (mrun minit (flush1 ka 0))))
        with (Some (LMove [0] 6)) by (vm_compute; reflexivity).
      vm_compute. reflexivity.
    - exists 0. split; [now left|reflexivity].
  Qed.

  (** ** Refutation 2: without [leveled_pre] a Merge out of L1+ is not legal.
      L1 holds two overlapping runs [[2]; [1]] (table 2 = newest "a"), L2 = [[0]].  Such a
      version is legal for the tree ([mops_ok]; in the crate: a custom CompactionStrategy
      returning [Choice::Move] into L1 through [tree.compact], or [Version::with_moved]),
      though Leveled by itself does not build it.  choose only has
      [debug_assert!(level.is_disjoint())] (mod.rs:546; compiled out in release builds),
      takes [level.first_run()] and merges table 2 with table 0 into L2 -- below table 1,
      whose OLDER "a" now shadows the newest one. *)
  Definition ops_r2 : list mop :=
    flush1 ka 0 ++ [MMove [0] 2] ++ flush1 ka 1 ++ [MMove [1] 1] ++ flush1 ka 2 ++ [MMove [2] 1].
  Theorem leveled_merge_multi_run_refuted :
    let st := mrun minit ops_r2 in
    let v := ver_of st in
    mops_ok minit ops_r2 = true /\ version_inv v = true /\
    shape v = [[]; [[2]; [1]]; [[0]]; []; []; []; []] /\
    leveled_choose 1 false sz1 4 1000 v [] = LMerge [2; 0] 2 /\
    ~ leveled_pre 1 false v /\
    merge_choice_ok v [2; 0] (build_tables (next_tid st) [] (compact_out 0 2 v [2; 0])) 2
      = false /\
    mop_ok st (MCompact [2; 0] 2 0 []) = false /\
    get st ka = Some (mkE ka 6 Value [2]) /\
    spec (mstep st (MCompact [2; 0] 2 0 [])) ka = Some (mkE ka 6 Value [2]) /\
    get (mstep st (MCompact [2; 0] 2 0 [])) ka = Some (mkE ka 3 Value [1]).
  Proof.
    cbv zeta. repeat split; try (vm_compute; reflexivity).
    intros [H _]. vm_compute in H. lia.
  Qed.

  (** ** Refutation 3: the same for the L0 branch, which does not even debug_assert
      anything about the target level.  L1 = [[1]; [0]] with table 1 = {a, c} (newer) and
      table 0 = {c, f}; L0 = [[2]] = {e, g}.  Only table 0 overlaps L0's key range, so
      tables 2 and 0 are merged to the FRONT of L1, in front of table 1: the old "c" of
      table 0 shadows the newer "c" of table 1.  (With l0_threshold = 1 so that L0 scores.) *)
  Definition ops_r3 : list mop :=
    flush2 kc kf 1 ++ [MMove [0] 1] ++ flush2 ka kc 2 ++ [MMove [1] 1] ++ flush2 ke kg 3.
  Theorem leveled_l0_merge_multi_run_refuted :
    let st := mrun minit ops_r3 in
    let v := ver_of st in
    mops_ok minit ops_r3 = true /\ version_inv v = true /\
    shape v = [[[2]]; [[1]; [0]]; []; []; []; []; []] /\
    leveled_choose 0 false sz1 1 1000 v [] = LMerge [2; 0] 1 /\
    ~ leveled_pre 0 false v /\
    merge_choice_ok v [2; 0] (build_tables (next_tid st) [] (compact_out 0 1 v [2; 0])) 1
      = false /\
    mop_ok st (MCompact [2; 0] 1 0 []) = false /\
    get st kc = Some (mkE kc 5 Value [2]) /\
    spec (mstep st (MCompact [2; 0] 1 0 [])) kc = Some (mkE kc 5 Value [2]) /\
    get (mstep st (MCompact [2; 0] 1 0 [])) kc = Some (mkE kc 0 Value [1]).
  Proof.
    cbv zeta. repeat split; try (vm_compute; reflexivity).
    intros H. vm_compute in H. lia.
  Qed.

  (** ** Refutation 4: a merge into the last level evicts tombstones; if the last level has
      a second run, [pick_minimal_compaction] never sees it ([next_level.first_run()]).
      L5 = [[2]] = tombstone of "b", L6 = [[1]; [0]], both holding a value of "b".
      Tables 2 and 1 are merged into L6, tombstone and value vanish (watermark 100), and
      the value in table 0 is visible again.  [merge_choice_ok] holds, [evict_ok] fails. *)
  Definition ops_r4 : list mop :=
    flush1 kb 0 ++ [MMove [0] 6] ++ flush1 kb 1 ++ [MMove [1] 6] ++
    [MWrite kb Tomb []; MRotate; MFlush 0 []; MMove [2] 5].
  Theorem leveled_evict_multi_run_refuted :
    let st := mrun minit ops_r4 in
    let v := ver_of st in
    let out := compact_out 100 6 v [2; 1] in
    mops_ok minit ops_r4 = true /\ version_inv v = true /\
    shape v = [[]; []; []; []; []; [[2]]; [[1]; [0]]] /\
    leveled_choose 5 false sz1 4 1000 v [] = LMerge [2; 1] 6 /\
    ~ leveled_pre 5 false v /\
    merge_choice_ok v [2; 1] (build_tables (next_tid st) [] out) 6 = true /\
    evict_ok v [2; 1] (compact_merged v [2; 1]) out = false /\
    mop_ok st (MCompact [2; 1] 6 100 []) = false /\
    get st kb = None /\
    spec (mstep st (MCompact [2; 1] 6 100 [])) kb = None /\
    get (mstep st (MCompact [2; 1] 6 100 [])) kb = Some (mkE kb 0 Value [0]).
  Proof.
    cbv zeta. repeat split; try (vm_compute; reflexivity).
    intros [_ H]. specialize (H eq_refl). vm_compute in H. lia.
  Qed.

  (** the machine invariant does not imply [levels_single]: [ops_r2] is a legal run *)
  Corollary levels_single_not_invariant :
    exists ops, mops_ok minit ops = true /\ ~ levels_single (ver_of (mrun minit ops)).
  Proof.
    exists ops_r2. split; [vm_compute; reflexivity|]. intros H.
    specialize (H 1%nat (le_n _)). vm_compute in H. lia.
  Qed.
End LeveledExamples.

Module LeveledTreeExample.
  Import LeveledExamples.


  (** ** Non-vacuity of [leveled_tree_ok]: the run of unit test leveled_l0_reached_limit,
      then the merge Leveled chooses (L0 -> L6), one more flush, and the move into L5 that
      a Leveled with l0_threshold = 1 chooses when [need_new_l1] holds (canonical L1 moves
      up from L6 to the empty L5) *)
  Definition ops_tree : list mop :=
    ops_limit ++ [MCompact [3; 2; 1; 0] 6 0 []] ++ flush1 kb 7 ++ [MMove [5] 5].

  Ltac plain_ops :=
    repeat match goal with
           | |- (mop_ok _ _ = true) /\ _ => split; [vm_compute; reflexivity|]
           end.

  Example tree_ex : lev_ops_ok minit ops_tree.
  Proof.
    unfold ops_tree, ops_limit, flush3, flush1. cbn [app lev_ops_ok lev_op_ok].
    plain_ops.
    split; [split; [vm_compute; reflexivity|]|].
    { eexists. exists 0%nat, false, sz1, 4, 67108864, [].
      split; [vm_compute; reflexivity|]. split; [vm_compute; reflexivity|].
      vm_compute; reflexivity. }
    plain_ops.
    split; [split; [vm_compute; reflexivity|]|exact I].
    eexists. exists 0%nat, true, sz1, 1, 67108864, [].
    split; [vm_compute; reflexivity|]. vm_compute; reflexivity.
  Qed.

  Example tree_ex_shape :
    shape (ver_of (mrun minit ops_tree)) = [[]; []; []; []; []; [[5]]; [[4]]].
  Proof. vm_compute. reflexivity. Qed.

  Example tree_ex_by_theorem :
    mops_ok minit ops_tree = true /\ st_single (mrun minit ops_tree).
  Proof. apply leveled_tree_ok. exact tree_ex. Qed.
End LeveledTreeExample.

(** * 12. Assumptions *)
Print Assumptions leveled_move_ok.
Print Assumptions leveled_merge_ok.
Print Assumptions leveled_not_hidden.
Print Assumptions leveled_move_mop_ok.
Print Assumptions leveled_merge_mop_ok.
Print Assumptions levels_single_pre.
Print Assumptions LeveledExamples.leveled_hidden_refuted.
Print Assumptions LeveledExamples.leveled_merge_multi_run_refuted.
Print Assumptions LeveledExamples.leveled_l0_merge_multi_run_refuted.
Print Assumptions LeveledExamples.leveled_evict_multi_run_refuted.
Print Assumptions LeveledExamples.levels_single_not_invariant.
Print Assumptions leveled_move_keeps_single.
Print Assumptions leveled_merge_keeps_single.
Print Assumptions leveled_tree_ok.
Print Assumptions leveled_tree_reads.
Print Assumptions LeveledTreeExample.tree_ex_by_theorem.
